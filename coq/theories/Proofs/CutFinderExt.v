(* Proofs/CutFinderExt.v — extension round:
   (a) totality: inside the property's domain, find_cuts returns whenever some permitted plan meets the width limit
       (whatever max_gamma / max_backjumps / tape: the greedy fall-back is never bounded by max_gamma);
   (b) the running insertion offset: where exactly the markers of input instruction k end up in the returned circuit,
       and that metadata['cuts'] lists exactly those positions with the right kind (for any mix and order of cuts). *)
From Coq Require Import QArith Relations Lia.
From CKT Require Import Model.CutFinder Proofs.UFP Proofs.ConnP Proofs.CutFinderSpec Proofs.CutFinderInv
  Proofs.CutFinderPlan Proofs.CutFinderSearchP Proofs.CutFinderOut Proofs.CutFinderCirc Proofs.CutFinderRender
  Proofs.CutFinderP Proofs.CutFinderFail Proofs.CutFinderFuel Proofs.CutFinderTotal.
Close Scope Q_scope.

(* ---------------- (a) success whenever a feasible plan exists ---------------- *)
Theorem succeeds_when_feasible fuel i :
  let t := fi_gtab i in let c := fi_circ i in
  circ_wf c -> circ_plain c ->
  (forall x, In x c -> is_multi x = true -> kappa_of t x <> None) ->
  fi_ncl i = 0 -> 1 <= fi_W i -> settings_ok i = true ->
  fuel_bound (length c) <= fuel ->
  (exists p, plan_permitted t (fi_gate_lo i) (fi_wire_lo i) c p /\ feasible (fi_W i) (render t p c)) ->
  exists r, find_cuts_full fuel i = Val r.
Proof.
  intros t c WFc Hplain Hsup Hncl HW Hset Hfuel (p & Hperm & Hfeas).
  destruct (find_cuts_full fuel i) as [r| | |] eqn:E.
  - eauto.
  - exfalso. exact (fails_only_if_infeasible fuel i E WFc Hplain Hsup Hncl HW Hset p Hperm Hfeas).
  - exfalso. exact (find_cuts_never_crashes fuel i WFc E).
  - exfalso. exact (find_cuts_enough_fuel fuel i WFc Hfuel E).
Qed.

(* ---------------- (b) the insertion offset ---------------- *)
(* number of CutWire markers a decision puts before its gate *)
Definition nmark (k : ckind) : nat :=
  match k with KLeftCut | KRightCut => 1 | KBothCut => 2 | _ => 0 end.

(* markers inserted for the n input instructions k0, k0+1, ..., k0+n-1 *)
Fixpoint offset (p : plan) (k0 n : nat) : nat :=
  match n with O => 0 | S m => nmark (p k0) + offset p (S k0) m end.

(* the qubit of the m-th marker of a decision *)
Definition marker_qubit (k : ckind) (i : instr) (m : nat) : nat :=
  match k, m with
  | KRightCut, _ => nth 1 (iqs i) 0
  | KBothCut, S _ => nth 1 (iqs i) 0
  | _, _ => nth 0 (iqs i) 0
  end.

Definition placed (t : gtab) (k : ckind) (i : instr) : instr :=
  match k with KGateCut => wrap_op t i | _ => i end.

Lemma render_instr_shape t k i :
  length (render_instr t k i) = nmark k + 1 /\
  nth_error (render_instr t k i) (nmark k) = Some (placed t k i) /\
  forall m, m < nmark k -> nth_error (render_instr t k i) m = Some (cut_wire_instr (marker_qubit k i m)).
Proof.
  destruct k; cbn; repeat split; intros m Hm; try lia.
  - assert (m = 0) by lia; subst; reflexivity.
  - assert (m = 0) by lia; subst; reflexivity.
  - destruct m as [|[|m]]; try lia; reflexivity.
Qed.

Lemma nth_render t p : forall c k0 j i,
  nth_error c j = Some i ->
  let o := j + offset p k0 j in
  nth_error (render_from t p k0 c) (o + nmark (p (k0 + j))) = Some (placed t (p (k0 + j)) i) /\
  forall m, m < nmark (p (k0 + j)) ->
    nth_error (render_from t p k0 c) (o + m) = Some (cut_wire_instr (marker_qubit (p (k0 + j)) i m)).
Proof.
  induction c as [|i0 r IH]; intros k0 j i Hj; [destruct j; discriminate|].
  cbn [render_from]. destruct (render_instr_shape t (p k0) i0) as (L & Hg & Hm).
  destruct j as [|j].
  - simpl in Hj. inversion Hj; subst i0. cbn [offset Nat.add]. rewrite Nat.add_0_r. split.
    + rewrite nth_error_app1 by lia. exact Hg.
    + intros m Hlt. rewrite nth_error_app1 by lia. now apply Hm.
  - simpl in Hj. destruct (IH (S k0) j i Hj) as [H1 H2]. cbn [offset].
    replace (k0 + S j) with (S k0 + j) by lia. split.
    + replace (S j + (nmark (p k0) + offset p (S k0) j) + nmark (p (S k0 + j)))
        with (length (render_instr t (p k0) i0) + (j + offset p (S k0) j + nmark (p (S k0 + j)))) by lia.
      rewrite nth_error_app2 by lia. rewrite Nat.add_comm, Nat.add_sub. rewrite Nat.add_comm in H1.
      rewrite Nat.add_comm. exact H1.
    + intros m Hlt.
      replace (S j + (nmark (p k0) + offset p (S k0) j) + m)
        with (length (render_instr t (p k0) i0) + (j + offset p (S k0) j + m)) by lia.
      rewrite nth_error_app2 by lia. rewrite Nat.add_comm, Nat.add_sub. now apply H2.
Qed.

Lemma pos_decompose t p : forall c k0 pos,
  pos < length (render_from t p k0 c) ->
  exists j i m, nth_error c j = Some i /\ m <= nmark (p (k0 + j)) /\ pos = j + offset p k0 j + m.
Proof.
  induction c as [|i0 r IH]; intros k0 pos H; [simpl in H; lia|].
  cbn [render_from] in H. rewrite app_length in H.
  destruct (render_instr_shape t (p k0) i0) as (L & _ & _).
  destruct (Nat.lt_ge_cases pos (nmark (p k0) + 1)) as [Hlt|Hge].
  - exists 0, i0, pos. rewrite Nat.add_0_r. cbn. repeat split; lia.
  - destruct (IH (S k0) (pos - (nmark (p k0) + 1))) as (j & i & m & Hj & Hm & Hp); [lia|].
    exists (S j), i, m. replace (k0 + S j) with (S k0 + j) by lia. cbn [offset nth_error]. repeat split; auto. lia.
Qed.

Theorem cut_positions fuel i r :
  find_cuts_full fuel i = Val r ->
  let t := fi_gtab i in let c := fi_circ i in
  circ_wf c -> circ_plain c -> gtab_ok t ->
  exists p : plan,
    fr_circ r = render t p c /\ plan_permitted t (fi_gate_lo i) (fi_wire_lo i) c p /\
    (* where instruction k of the input and its markers are in the output, and that the metadata lists them *)
    (forall k x, nth_error c k = Some x ->
       let o := k + offset p 0 k in
       nth_error (fr_circ r) (o + nmark (p k)) = Some (placed t (p k) x) /\
       (p k = KGateCut -> In (GateCut, o) (md_cuts (fr_meta r))) /\
       (forall m, m < nmark (p k) ->
          nth_error (fr_circ r) (o + m) = Some (cut_wire_instr (marker_qubit (p k) x m)) /\
          In (WireCut, o + m) (md_cuts (fr_meta r)))) /\
    (* and nothing else is listed *)
    (forall kd pos, In (kd, pos) (md_cuts (fr_meta r)) ->
       exists k x, nth_error c k = Some x /\
         ((kd = GateCut /\ p k = KGateCut /\ pos = k + offset p 0 k) \/
          (kd = WireCut /\ exists m, m < nmark (p k) /\ pos = k + offset p 0 k + m))).
Proof.
  intros H t c WFc Hplain Htab.
  destruct (find_cuts_correct fuel i r H WFc) as (p & Hc & Hperm & _).
  destruct (metadata_spec fuel i r H WFc) as [_ Hmeta]. fold t c in Hc, Hperm.
  assert (Hwrap : forall k x, nth_error c k = Some x -> p k = KGateCut -> is_qpd2 (placed t (p k) x) = true).
  { intros k x Hx Ek. destruct (Hperm k) as (x' & Hx' & _ & _ & Hk); [congruence|].
    rewrite Hx in Hx'. inversion Hx'; subst x'. rewrite Ek in *. destruct Hk as [_ Hk]. cbn [placed].
    unfold kappa_of, op_gamma in Hk. unfold wrap_op.
    destruct (iop x) as [g0| | | | | | | |] eqn:Eop; try congruence.
    destruct (Nat.eqb (length (iqs x)) 2); [|congruence].
    destruct (glookup g0 t) as [[kap o]|] eqn:Elk; [|simpl in Hk; congruence].
    pose proof (Htab _ _ _ Elk) as Hq. unfold is_qpd2. cbn [iop]. destruct o; try discriminate. reflexivity. }
  assert (Hplace_plain : forall k x, nth_error c k = Some x -> p k <> KGateCut ->
            is_qpd2 (placed t (p k) x) = false /\ is_cut_wire (placed t (p k) x) = false).
  { intros k x Hx Nk. pose proof (Hplain x (nth_error_In _ _ Hx)) as Hp. unfold plain_instr in Hp.
    assert (placed t (p k) x = x) by (destruct (p k); try reflexivity; congruence). rewrite H0.
    unfold is_qpd2, is_cut_wire. destruct (iop x); try discriminate; split; reflexivity. }
  exists p. split; [exact Hc|]. split; [exact Hperm|]. split.
  - intros k x Hx o. destruct (nth_render t p c 0 k x Hx) as [H1 H2]. cbn [Nat.add] in H1, H2. fold o in H1, H2.
    rewrite Hc. unfold render. split; [exact H1|]. split.
    + intros Ek. apply Hmeta. unfold marker_at. rewrite Hc. unfold render.
      rewrite Ek in H1. cbn [nmark] in H1. rewrite Nat.add_0_r in H1. rewrite H1.
      rewrite <- Ek. now rewrite (Hwrap k x Hx Ek).
    + intros m Hm. split; [now apply H2|]. apply Hmeta. unfold marker_at. rewrite Hc. unfold render.
      rewrite (H2 m Hm). reflexivity.
  - intros kd pos Hin. apply Hmeta in Hin. unfold marker_at in Hin.
    destruct (nth_error (fr_circ r) pos) as [y|] eqn:Ey; [|discriminate].
    assert (Hlt : pos < length (render_from t p 0 c)).
    { rewrite Hc in Ey. unfold render in Ey. apply nth_error_Some. congruence. }
    destruct (pos_decompose t p c 0 pos Hlt) as (k & x & m & Hx & Hm & Hp). cbn [Nat.add] in Hm.
    exists k, x. split; [exact Hx|].
    destruct (nth_render t p c 0 k x Hx) as [H1 H2]. cbn [Nat.add] in H1, H2.
    rewrite Hc in Ey. unfold render in Ey.
    destruct (Nat.eq_dec m (nmark (p k))) as [->|Nm].
    + rewrite Hp, H1 in Ey. inversion Ey; subst y.
      destruct (p k) eqn:Ek; try (destruct (Hplace_plain k x Hx) as [Q1 Q2]; [congruence|];
                                  rewrite Ek in Q1, Q2; rewrite Q1, Q2 in Hin; discriminate).
      left. rewrite <- Ek, (Hwrap k x Hx Ek) in Hin. inversion Hin. cbn [nmark] in Hp. repeat split; auto. lia.
    + assert (Hm' : m < nmark (p k)) by lia. rewrite Hp, (H2 m Hm') in Ey. inversion Ey; subst y.
      cbn in Hin. inversion Hin. right. split; [reflexivity|]. exists m. split; auto.
Qed.

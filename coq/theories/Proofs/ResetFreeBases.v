(* Proofs/ResetFreeBases.v — which QPD bases contain a Reset: among everything qpdbasis_from_instruction can return
   (20 registered names + the KAK path, Model/Bases.v) only `move`, and `move` is Move-like. *)
From Coq Require Import String List Bool Arith.
From CKT Require Import Common.Base Common.Circ Common.Ptm Model.Bases Model.ResetFree Model.ResetFreeBases.
Import ListNotations.
Open Scope string_scope.

Lemma all_bases_names : map fst all_bases = (registered ++ ["<kak>"])%list.
Proof. reflexivity. Qed.

(* computed on the modelled tables *)
Lemma all_bases_classes :
  forallb (fun nb => Nat.eqb (class_of (circ_basis (snd nb))) (if String.eqb (fst nb) "move" then 1 else 0)) all_bases = true.
Proof. vm_compute. reflexivity. Qed.

Lemma move_table_agrees : circ_basis Bases.move_basis = ResetFree.move_basis.
Proof. reflexivity. Qed.

Lemma theta_guard_ok g b b' : theta_guard g b = Ok b' -> b' = b.
Proof. unfold theta_guard. destruct (negb (g_has_param g)); [discriminate|]. destruct (g_param_ok g); congruence. Qed.

Lemma Ok_inj {A} (x y : A) : Ok x = Ok y -> x = y.
Proof. intros H. exact (f_equal (fun r => match r with Ok v => v | _ => x end) H). Qed.

Ltac step_name :=
  match goal with
  | |- context [String.eqb ?a ?s] => destruct (String.eqb_spec a s) as [?E|?N]
  end.

(* every successful call returns one of the listed bases, under the listed name when the name is registered *)
Ltac go k :=
  first
    [ step_name;
      [ let H := fresh "H" in
        intros H; first [ apply theta_guard_ok in H; rewrite H | apply Ok_inj in H; rewrite <- H ]; clear H;
        eexists; split; [apply (nth_error_In all_bases k); reflexivity | split; intros; congruence]
      | go (S k) ]
    | idtac ].

Lemma basis_of_in_all g b : basis_of g = Ok b ->
  exists n, In (n, b) all_bases /\ (n = "move" <-> g_name g = "move").
Proof.
  unfold basis_of. go 0.
  destruct (g_is_gate g && Nat.eqb (g_nq g) 2); [|discriminate]. destruct (g_matrix_ok g); [|discriminate].
  intros H. apply Ok_inj in H. subst b. exists "<kak>". split; [apply (nth_error_In all_bases 20); reflexivity|].
  split; intros; congruence.
Qed.

(* reset-free unless it is the Move basis; the Move basis is Move-like *)
Theorem registry_class g b : basis_of g = Ok b ->
  class_of (circ_basis b) = if String.eqb (g_name g) "move" then 1 else 0.
Proof.
  intros H. destruct (basis_of_in_all g b H) as (n & I & M).
  pose proof all_bases_classes as C. rewrite forallb_forall in C. specialize (C _ I). simpl in C.
  apply Nat.eqb_eq in C. rewrite C.
  destruct (String.eqb_spec n "move") as [E|E]; destruct (String.eqb_spec (g_name g) "move") as [E'|E']; try reflexivity; tauto.
Qed.

(* ... as seen by the splice model: an environment entry built from the registry has class 0 or 1 *)
Theorem env_entry_class (env : benv) k g b : basis_of g = Ok b -> nth k env [] = circ_basis b ->
  basis_class env k = if String.eqb (g_name g) "move" then 1 else 0.
Proof. intros H E. unfold basis_class. rewrite E. exact (registry_class g b H). Qed.

(* Proofs/WeightsMachine.v — comparing yield sequences of the step machine and of the specification
   (the refinement theorem itself is in Proofs/WeightsRef.v). *)
From Coq Require Import QArith.
From CKT Require Import Common.Base Model.Weights.
Open Scope Q_scope.

(* equality of yield sequences: states exactly, numbers up to Qeq.  (The machine's first running product is
   probs[0][0] while the specification computes 1 * probs[0][0]: equal numbers, different fractions.) *)
Definition yield_eqb (a b : yield) : bool :=
  match a, b with
  | YFull s p, YFull s' p' => key_eqb s s' && Qeq_bool p p'
  | YCond s v, YCond s' v' => key_eqb s s' && list_beq Qeq_bool v v'
  | _, _ => false
  end.
Definition yields_eqb : list yield -> list yield -> bool := list_beq yield_eqb.

Definition refines_b (probs : list (list Q)) (thr : Q) : bool :=
  match run_machine (fuel_bound probs) probs thr with
  | Some ys => yields_eqb ys (dfs_spec probs thr)
  | None => false
  end.


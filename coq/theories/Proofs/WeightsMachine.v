(* Proofs/WeightsMachine.v — the step machine against the specification.
   FINITE-DOMAIN check by computation (the unbounded statement is kept, open, in Properties/C04.v). *)
From Coq Require Import QArith.
From CKT Require Import Common.Base Model.Weights.
Open Scope Q_scope.

(* equality of yield sequences: states exactly, numbers up to Qeq.  (The machine's first running product is
   probs[0][0] while the specification computes 1 * probs[0][0]: equal numbers, different fractions.) *)
Definition yield_eqb (a b : yield) : bool :=
  match a, b with
  | YFull s p, YFull s' p' => key_eqb s s' && Qeq_bool p p'
  | YCond s v, YCond s' v' => key_eqb s s' && list_beq Qeq_bool v v'
  | _, _ => false
  end.
Definition yields_eqb : list yield -> list yield -> bool := list_beq yield_eqb.

Definition refines_b (probs : list (list Q)) (thr : Q) : bool :=
  match run_machine (fuel_bound probs) probs thr with
  | Some ys => yields_eqb ys (dfs_spec probs thr)
  | None => false
  end.

(* the finite domain: 1..3 bases, each a non-increasing vector of 1..3 entries k/4 with k <= 3;
   thresholds 1/64, 1/16, 1/8, 1/4, 1/2, 1 *)
Definition small_q : list Q := [0; 1 # 4; 2 # 4; 3 # 4].
Fixpoint desc_vecs (n : nat) (maxi : nat) : list (list Q) :=
  match n with
  | O => [[]]
  | S n' => flat_map (fun i => map (cons (nth i small_q 0)) (desc_vecs n' i)) (seq 0 (S maxi))
  end.
Definition fin_vecs : list (list Q) := desc_vecs 1 3 ++ desc_vecs 2 3 ++ desc_vecs 3 3.
Fixpoint base_lists (n : nat) : list (list (list Q)) :=
  match n with O => [[]] | S n' => flat_map (fun v => map (cons v) (base_lists n')) fin_vecs end.
Definition fin_inputs : list (list (list Q)) := base_lists 1 ++ base_lists 2 ++ base_lists 3.
Definition fin_thrs : list Q := [1 # 64; 1 # 16; 1 # 8; 1 # 4; 1 # 2; 1].

Lemma machine_refines_spec_fin :
  forallb (fun p => forallb (refines_b p) fin_thrs) fin_inputs = true.
Proof. vm_cast_no_check (eq_refl true). Qed.

Lemma fin_inputs_count : N.of_nat (length fin_inputs) = 40494%N.
Proof. vm_compute. reflexivity. Qed.

(* Proofs/BestFirstAttain.v — C08 correction round: the returned overhead is ATTAINED in the specification of C08.

   Converse of pruning soundness: every goal of the guarded search space (in particular the greedy incumbent and the state
   find_cuts returns) corresponds to an assignment of permitted kinds that meets the width limit in the wire-segment
   specification (assignment_cost), with the same cost.  Simulation invariant KI between the specification state st of the
   assignment read off the path and the search state s: same current wires, same number of wires, and
       find a = find b  <->  label a = label b      for all wires a, b.
   At a goal every class has at most W wires (InvU), hence every component of st has at most W segments. *)
From Coq Require Import QArith Lia.
From CKT Require Import Model.CutFinder Proofs.UFP Proofs.ConnP Proofs.CutFinderSpec Proofs.CutFinderInv Proofs.CutFinderPlan.
From CKT Require Import Proofs.BestFirstP Proofs.BestFirstSpec Proofs.BestFirstExchange Proofs.BestFirstExchangeSim
  Proofs.BestFirstExchangeMain Proofs.BestFirstExchangeShrink Proofs.BestFirstExchangeFinal.
Close Scope Q_scope.

Lemma lab_fresh_new st q : lab (fresh_seg st q) (slen st) = slen st.
Proof. unfold lab, slen. cbn. rewrite app_nth2 by lia. now rewrite Nat.sub_diag. Qed.

Lemma skipn_nth {A} (l : list A) : forall n x, nth_error l n = Some x -> skipn n l = x :: skipn (S n) l.
Proof.
  induction l as [|a l IH]; intros [|n] x H; cbn in *; try discriminate.
  - now injection H as ->.
  - rewrite (IH n x H). reflexivity.
Qed.

Lemma action_permitted gl wl k : In (akind_of k) (search_actions gl wl) ->
  match k with BestFirstSpec.Leave => True | CutGate => gl = true | _ => wl = true end.
Proof. destruct gl, wl, k; cbv; intuition discriminate. Qed.

Section Attain.
  Variable nq : nat.
  Variable W : nat.
  Hypothesis HW : 1 <= W.

  Let names := seq 0 nq.
  Let ND : NoDup names := seq_NoDup nq 0.
  Notation IU := (IU nq W).

  Record KI (st : segs) (c : Q) (s : dstate) : Prop := {
    k_iu : IU s ;
    k_ok : segs_ok nq st ;
    k_cur : sg_cur st = wiremap s ;
    k_len : slen st = num_wires s ;
    k_lab : forall a, a < slen st -> lab st a < slen st ;
    k_eq : forall a b, a < num_wires s -> b < num_wires s ->
             (find (uptree s) a = find (uptree s) b <-> lab st a = lab st b) ;
    k_cost : (c == gamma_UB s)%Q
  }.

  Lemma KI_init B : KI (segs_init nq) 1%Q (init_state nq B).
  Proof.
    constructor.
    - exists cur0, []. pose proof (InvU_init names W HW ND B) as I. unfold names in I at 2. rewrite seq_length in I. exact I.
    - apply segs_init_ok.
    - reflexivity.
    - unfold slen. cbn. apply seq_length.
    - intros a Ha. unfold slen, lab in *. cbn in *. rewrite seq_length in Ha. rewrite seq_nth by lia. rewrite seq_length. lia.
    - intros a b Ha Hb. cbn [init_state uptree num_wires] in *. rewrite !find_init. unfold lab. cbn. rewrite !seq_nth by lia. tauto.
    - reflexivity.
  Qed.

  Lemma KI_set_level st c s l : KI st c s -> KI st c (set_level s l).
  Proof.
    intros K. destruct K as [[cur [E I]] ? ? ? ? ? ?]. constructor; auto.
    exists cur, E. now apply InvU_set_level.
  Qed.

  (* common facts about the two qubits of a gate *)
  Lemma KI_gate st c s g : KI st c s -> gwf nq g ->
    let w1 := get_wire s (q1_of g) in let w2 := get_wire s (q2_of g) in
    w1 = curq st (q1_of g) /\ w2 = curq st (q2_of g) /\ w1 < num_wires s /\ w2 < num_wires s /\
    LI nq s /\ gq nq g.
  Proof.
    intros K (GL & NQ & Q1 & Q2) w1 w2. destruct (k_iu _ _ _ K) as (cur & E & I).
    pose proof (InvU_LI nq W s cur E I) as L.
    split; [unfold w1, get_wire, curq; now rewrite (k_cur _ _ _ K)|].
    split; [unfold w2, get_wire, curq; now rewrite (k_cur _ _ _ K)|].
    split; [apply (li_wm _ _ L); exact Q1|]. split; [apply (li_wm _ _ L); exact Q2|].
    split; [exact L|]. repeat split; auto.
  Qed.

  (* ---------------- ApplyGate <-> leave ---------------- *)
  Lemma KI_apply st c s g l s1 : KI st c s -> gwf nq g -> apply_gate s g W = Val l -> In s1 l -> IU s1 ->
    KI (join st (q1_of g) (q2_of g)) c s1.
  Proof.
    intros K Gw Hl Hin IU1. destruct (KI_gate st c s g K Gw) as (E1 & E2 & Hw1 & Hw2 & L & Gq).
    pose proof Gw as (GL & NQ & Q1 & Q2).
    set (q1 := q1_of g) in *. set (q2 := q2_of g) in *.
    set (w1 := get_wire s q1) in *. set (w2 := get_wire s q2) in *.
    destruct (li_root nq s w1 L Hw1) as (N1 & R1 & F1). destruct (li_root nq s w2 L Hw2) as (N2 & R2 & F2).
    destruct (apply_explicit nq W s g L Gq) as (b & _ & Hae). rewrite Hae in Hl. injection Hl as <-.
    change (find_qubit_root s (q1_of g)) with (find (uptree s) w1) in Hin.
    change (find_qubit_root s (q2_of g)) with (find (uptree s) w2) in Hin.
    set (r1 := find (uptree s) w1) in *. set (r2 := find (uptree s) w2) in *.
    pose proof (k_ok _ _ _ K) as OK. pose proof (k_len _ _ _ K) as Len.
    assert (A1 : comp_of st q1 = lab st w1) by (rewrite E1; reflexivity).
    assert (A2 : comp_of st q2 = lab st w2) by (rewrite E2; reflexivity).
    assert (LJ : forall x, x < num_wires s -> lab (join st q1 q2) x =
                   if Nat.eqb (lab st x) (lab st w2) then lab st w1 else lab st x).
    { intros x Hx. rewrite lab_join by lia. now rewrite A1, A2. }
    assert (R1iff : forall x, x < num_wires s -> (find (uptree s) x = r1 <-> lab st x = lab st w1)) by (intros x Hx; now apply (k_eq _ _ _ K)).
    assert (R2iff : forall x, x < num_wires s -> (find (uptree s) x = r2 <-> lab st x = lab st w2)) by (intros x Hx; now apply (k_eq _ _ _ K)).
    destruct (Nat.eqb_spec r1 r2) as [Er|Nr].
    - destruct Hin as [<-|[]].
      assert (Eab : lab st w1 = lab st w2) by (exact (proj1 (k_eq _ _ _ K w1 w2 Hw1 Hw2) Er)).
      assert (LJ' : forall x, x < num_wires s -> lab (join st q1 q2) x = lab st x).
      { intros x Hx. rewrite LJ by auto. destruct (Nat.eqb_spec (lab st x) (lab st w2)); congruence. }
      constructor; auto.
      + now apply join_ok.
      + apply (k_cur _ _ _ K).
      + now rewrite slen_join.
      + intros a Ha. rewrite slen_join in *. rewrite LJ' by lia. now apply (k_lab _ _ _ K).
      + intros a b0 Ha Hb. rewrite !LJ' by auto. now apply (k_eq _ _ _ K).
      + apply (k_cost _ _ _ K).
    - destruct (Nat.ltb W _); [destruct Hin|]. destruct b; [destruct Hin|]. destruct Hin as [<-|[]].
      assert (Nab : lab st w1 <> lab st w2) by (intros Eab; apply Nr; exact (proj2 (k_eq _ _ _ K w1 w2 Hw1 Hw2) Eab)).
      pose proof (li_wf _ _ L) as WF. pose proof (li_nw_hi _ _ L) as NH.
      set (mn := Nat.min r1 r2). set (mx := Nat.max r1 r2).
      assert (Hlt : mn < mx) by (unfold mn, mx; lia).
      assert (Hmx : mx < length (uptree s)) by (unfold mx; lia).
      assert (Rmn : parent (uptree s) mn = mn) by (unfold mn; destruct (Nat.min_spec r1 r2) as [[_ ->]|[_ ->]]; auto).
      assert (Rmx : parent (uptree s) mx = mx) by (unfold mx; destruct (Nat.max_spec r1 r2) as [[_ ->]|[_ ->]]; auto).
      assert (MM : (mn = r1 /\ mx = r2) \/ (mn = r2 /\ mx = r1)) by (unfold mn, mx; lia).
      constructor; auto; unfold apply_res; cbn [set_uf wiremap num_wires uptree gamma_UB].
      + now apply join_ok.
      + apply (k_cur _ _ _ K).
      + now rewrite slen_join.
      + intros a Ha. rewrite slen_join in *. rewrite LJ by lia.
        destruct (Nat.eqb (lab st a) (lab st w2)); apply (k_lab _ _ _ K); lia.
      + intros a b0 Ha Hb. unfold union_roots. fold mn mx.
        rewrite (union_find_eq (uptree s) mn mx a b0 WF Hlt Hmx Rmn Rmx), !LJ by auto.
        pose proof (R1iff a Ha) as Xa1. pose proof (R2iff a Ha) as Xa2. pose proof (R1iff b0 Hb) as Xb1. pose proof (R2iff b0 Hb) as Xb2.
        pose proof (k_eq _ _ _ K a b0 Ha Hb) as Xab.
        destruct MM as [[M1 M2]|[M1 M2]]; rewrite M1, M2; rewrite Xab, Xa1, Xa2, Xb1, Xb2;
          destruct (Nat.eqb_spec (lab st a) (lab st w2)), (Nat.eqb_spec (lab st b0) (lab st w2)); intuition congruence.
      + apply (k_cost _ _ _ K).
  Qed.

  (* ---------------- CutTwoQubitGate ---------------- *)
  Lemma KI_gatecut st c s g l s1 : KI st c s -> gwf nq g -> cut_two_qubit_gate s g W = Val l -> In s1 l -> IU s1 ->
    exists gam, g_gamma g = Some gam /\ KI st (c * gam)%Q s1.
  Proof.
    intros K Gw Hl Hin IU1. destruct (KI_gate st c s g K Gw) as (E1 & E2 & Hw1 & Hw2 & L & Gq).
    rewrite (gate_explicit nq W s g L Gq) in Hl. injection Hl as <-.
    destruct (g_gamma g) as [gam|]; [|destruct Hin]. destruct (Nat.eqb _ _); [destruct Hin|]. destruct Hin as [<-|[]].
    exists gam. split; [reflexivity|]. destruct K. constructor; auto. cbn. now rewrite k_cost0.
  Qed.

  (* ---------------- one wire cut ---------------- *)
  Lemma KI_left st c s g l s1 : KI st c s -> gwf nq g -> cut_left_wire s g W = Val l -> In s1 l -> IU s1 ->
    KI (apply_kind st (q1_of g) (q2_of g) CutLeft) (c * 4)%Q s1.
  Proof.
    intros K Gw Hl Hin IU1. destruct (KI_gate st c s g K Gw) as (E1 & E2 & Hw1 & Hw2 & L & Gq).
    pose proof Gw as (GL & NQ & Q1 & Q2).
    set (q1 := q1_of g) in *. set (q2 := q2_of g) in *.
    set (w1 := get_wire s q1) in *. set (w2 := get_wire s q2) in *.
    destruct (li_root nq s w1 L Hw1) as (N1 & R1 & F1). destruct (li_root nq s w2 L Hw2) as (N2 & R2 & F2).
    rewrite (left_explicit nq W s g L Gq) in Hl. injection Hl as <-.
    destruct (Nat.leb_spec (num_wires s + 1) (length (uptree s))) as [Hroom|_]; cbn [negb] in Hin; [|destruct Hin].
    destruct (Nat.eqb _ _); [destruct Hin|]. destruct (negb _); [destruct Hin|]. destruct Hin as [<-|[]].
    change (find_qubit_root s (q2_of g)) with (find (uptree s) w2).
    change (find_qubit_root s (q1_of g)) with (find (uptree s) w1).
    set (r2 := find (uptree s) w2) in *.
    pose proof (k_ok _ _ _ K) as OK. pose proof (k_len _ _ _ K) as Len. destruct OK as [OK1 OK2].
    set (n := num_wires s) in *.
    set (sf := fresh_seg st q1). cbn [apply_kind]. fold sf.
    assert (OKf : segs_ok nq sf) by (apply fresh_seg_ok; split; auto).
    assert (Lf : slen sf = S n) by (unfold sf; rewrite slen_fresh; lia).
    assert (Cf1 : curq sf q1 = n) by (unfold sf; rewrite curq_fresh by lia; rewrite Nat.eqb_refl; exact Len).
    assert (Cf2 : curq sf q2 = w2).
    { unfold sf. rewrite curq_fresh by lia. destruct (Nat.eqb_spec q2 q1); [congruence|]. now rewrite E2. }
    assert (LfO : forall x, x < n -> lab sf x = lab st x) by (intros x Hx; unfold sf; apply lab_fresh_old; lia).
    assert (LfN : lab sf n = n) by (unfold sf; rewrite <- Len; apply lab_fresh_new).
    assert (LJ : forall x, x < S n -> lab (join sf q1 q2) x = if Nat.eqb (lab sf x) (lab st w2) then n else lab sf x).
    { intros x Hx. rewrite lab_join by lia. unfold comp_of. fold (curq sf q1) (curq sf q2). fold (lab sf (curq sf q1)) (lab sf (curq sf q2)).
      rewrite Cf1, Cf2, LfN, (LfO w2 Hw2). reflexivity. }
    assert (Lb : forall x, x < n -> lab st x < n) by (intros x Hx; rewrite <- Len; apply (k_lab _ _ _ K); lia).
    assert (FO : forall x, x < n -> find (upd (uptree s) n r2) x = find (uptree s) x) by (apply (li_find_new nq s r2 L); auto; lia).
    assert (FN : find (upd (uptree s) n r2) n = r2).
    { destruct (k_iu _ _ _ K) as (cur & E & I). apply (find_new_wire nq W HW s cur E r2 I); auto. lia. }
    constructor; auto; unfold left_res; cbn [add_action mul_gamma wiremap num_wires uptree gamma_UB]; fold n.
    - now apply join_ok.
    - cbn [join sg_cur sf fresh_seg]. rewrite (k_cur _ _ _ K). fold (slen st). now rewrite Len.
    - rewrite slen_join. exact Lf.
    - intros a Ha. rewrite slen_join, Lf in *. rewrite LJ by lia.
      destruct (Nat.eqb _ _); [lia|]. destruct (Nat.eq_dec a n) as [->|Na]; [rewrite LfN; lia|]. rewrite LfO by lia. specialize (Lb a ltac:(lia)). lia.
    - intros a b Ha Hb. rewrite !LJ by lia.
      assert (R2iff : forall x, x < n -> (find (uptree s) x = r2 <-> lab st x = lab st w2)) by (intros x Hx; now apply (k_eq _ _ _ K)).
      destruct (Nat.eq_dec a n) as [->|Na], (Nat.eq_dec b n) as [->|Nb].
      + tauto.
      + rewrite FN, FO, LfN, LfO by lia. pose proof (Lb b ltac:(lia)). pose proof (Lb w2 Hw2). pose proof (R2iff b ltac:(lia)).
        destruct (Nat.eqb_spec n (lab st w2)); [lia|]. destruct (Nat.eqb_spec (lab st b) (lab st w2)); split; intros; try lia; intuition congruence.
      + rewrite FN, FO, LfN, LfO by lia. pose proof (Lb a ltac:(lia)). pose proof (Lb w2 Hw2). pose proof (R2iff a ltac:(lia)).
        destruct (Nat.eqb_spec n (lab st w2)); [lia|]. destruct (Nat.eqb_spec (lab st a) (lab st w2)); split; intros; try lia; intuition congruence.
      + rewrite !FO, !LfO by lia. pose proof (Lb a ltac:(lia)). pose proof (Lb b ltac:(lia)).
        pose proof (k_eq _ _ _ K a b ltac:(fold n; lia) ltac:(fold n; lia)).
        destruct (Nat.eqb_spec (lab st a) (lab st w2)), (Nat.eqb_spec (lab st b) (lab st w2)); split; intros; try lia; intuition congruence.
    - rewrite (k_cost _ _ _ K). reflexivity.
  Qed.

  Lemma KI_right st c s g l s1 : KI st c s -> gwf nq g -> cut_right_wire s g W = Val l -> In s1 l -> IU s1 ->
    KI (apply_kind st (q1_of g) (q2_of g) CutRight) (c * 4)%Q s1.
  Proof.
    intros K Gw Hl Hin IU1. destruct (KI_gate st c s g K Gw) as (E1 & E2 & Hw1 & Hw2 & L & Gq).
    pose proof Gw as (GL & NQ & Q1 & Q2).
    set (q1 := q1_of g) in *. set (q2 := q2_of g) in *.
    set (w1 := get_wire s q1) in *. set (w2 := get_wire s q2) in *.
    destruct (li_root nq s w1 L Hw1) as (N1 & R1 & F1). destruct (li_root nq s w2 L Hw2) as (N2 & R2 & F2).
    rewrite (right_explicit nq W s g L Gq) in Hl. injection Hl as <-.
    destruct (Nat.leb_spec (num_wires s + 1) (length (uptree s))) as [Hroom|_]; cbn [negb] in Hin; [|destruct Hin].
    destruct (Nat.eqb _ _); [destruct Hin|]. destruct (negb _); [destruct Hin|]. destruct Hin as [<-|[]].
    change (find_qubit_root s (q2_of g)) with (find (uptree s) w2).
    change (find_qubit_root s (q1_of g)) with (find (uptree s) w1).
    set (r1 := find (uptree s) w1) in *.
    pose proof (k_ok _ _ _ K) as OK. pose proof (k_len _ _ _ K) as Len. destruct OK as [OK1 OK2].
    set (n := num_wires s) in *.
    set (sf := fresh_seg st q2). cbn [apply_kind]. fold sf.
    assert (OKf : segs_ok nq sf) by (apply fresh_seg_ok; split; auto).
    assert (Lf : slen sf = S n) by (unfold sf; rewrite slen_fresh; lia).
    assert (Cf2 : curq sf q2 = n) by (unfold sf; rewrite curq_fresh by lia; rewrite Nat.eqb_refl; exact Len).
    assert (Cf1 : curq sf q1 = w1).
    { unfold sf. rewrite curq_fresh by lia. destruct (Nat.eqb_spec q1 q2); [congruence|]. now rewrite E1. }
    assert (LfO : forall x, x < n -> lab sf x = lab st x) by (intros x Hx; unfold sf; apply lab_fresh_old; lia).
    assert (LfN : lab sf n = n) by (unfold sf; rewrite <- Len; apply lab_fresh_new).
    assert (LJ : forall x, x < S n -> lab (join sf q1 q2) x = if Nat.eqb (lab sf x) n then lab st w1 else lab sf x).
    { intros x Hx. rewrite lab_join by lia. unfold comp_of. fold (curq sf q1) (curq sf q2). fold (lab sf (curq sf q1)) (lab sf (curq sf q2)).
      rewrite Cf1, Cf2, LfN, (LfO w1 Hw1). reflexivity. }
    assert (Lb : forall x, x < n -> lab st x < n) by (intros x Hx; rewrite <- Len; apply (k_lab _ _ _ K); lia).
    assert (FO : forall x, x < n -> find (upd (uptree s) n r1) x = find (uptree s) x) by (apply (li_find_new nq s r1 L); auto; lia).
    assert (FN : find (upd (uptree s) n r1) n = r1).
    { destruct (k_iu _ _ _ K) as (cur & E & I). apply (find_new_wire nq W HW s cur E r1 I); auto. lia. }
    constructor; auto; unfold right_res; cbn [add_action mul_gamma wiremap num_wires uptree gamma_UB]; fold n.
    - now apply join_ok.
    - cbn [join sg_cur sf fresh_seg]. rewrite (k_cur _ _ _ K). fold (slen st). now rewrite Len.
    - rewrite slen_join. exact Lf.
    - intros a Ha. rewrite slen_join, Lf in *. rewrite LJ by lia. pose proof (Lb w1 Hw1).
      destruct (Nat.eqb _ _); [lia|]. destruct (Nat.eq_dec a n) as [->|Na]; [rewrite LfN; lia|]. rewrite LfO by lia. specialize (Lb a ltac:(lia)). lia.
    - intros a b Ha Hb. rewrite !LJ by lia.
      assert (R1iff : forall x, x < n -> (find (uptree s) x = r1 <-> lab st x = lab st w1)) by (intros x Hx; now apply (k_eq _ _ _ K)).
      destruct (Nat.eq_dec a n) as [->|Na], (Nat.eq_dec b n) as [->|Nb].
      + tauto.
      + rewrite FN, FO, LfN, LfO, Nat.eqb_refl by lia. pose proof (Lb b ltac:(lia)). pose proof (R1iff b ltac:(lia)) as Xb.
        destruct (Nat.eqb_spec (lab st b) n); [lia|].
        split; intros Hx; symmetry; [apply Xb|apply Xb]; symmetry; exact Hx.
      + rewrite FN, FO, LfN, LfO, Nat.eqb_refl by lia. pose proof (Lb a ltac:(lia)). pose proof (R1iff a ltac:(lia)) as Xa.
        destruct (Nat.eqb_spec (lab st a) n); [lia|]. exact Xa.
      + rewrite !FO, !LfO by lia. pose proof (Lb a ltac:(lia)). pose proof (Lb b ltac:(lia)).
        destruct (Nat.eqb_spec (lab st a) n); [lia|]. destruct (Nat.eqb_spec (lab st b) n); [lia|].
        apply (k_eq _ _ _ K); fold n; lia.
    - rewrite (k_cost _ _ _ K). reflexivity.
  Qed.

  (* ---------------- both wires ---------------- *)
  Lemma KI_both st c s g l s1 : KI st c s -> gwf nq g -> cut_both_wires s g W = Val l -> In s1 l -> IU s1 ->
    KI (apply_kind st (q1_of g) (q2_of g) CutBoth) (c * 16)%Q s1.
  Proof.
    intros K Gw Hl Hin IU1. destruct (KI_gate st c s g K Gw) as (E1 & E2 & Hw1 & Hw2 & L & Gq).
    pose proof Gw as (GL & NQ & Q1 & Q2).
    set (q1 := q1_of g) in *. set (q2 := q2_of g) in *.
    rewrite (both_explicit nq W s g L Gq) in Hl. injection Hl as <-.
    destruct (Nat.leb_spec (num_wires s + 2) (length (uptree s))) as [Hroom|_]; cbn [negb] in Hin; [|destruct Hin].
    destruct (Nat.ltb W 2); [destruct Hin|]. destruct Hin as [<-|[]].
    pose proof (k_ok _ _ _ K) as OK. pose proof (k_len _ _ _ K) as Len. destruct OK as [OK1 OK2].
    set (n := num_wires s) in *.
    set (sf := fresh_seg (fresh_seg st q1) q2). cbn [apply_kind]. fold sf.
    assert (OKf : segs_ok nq sf) by (apply fresh_seg_ok, fresh_seg_ok; split; auto).
    assert (Lf : slen sf = S (S n)) by (unfold sf; rewrite !slen_fresh; lia).
    assert (Cf2 : curq sf q2 = S n).
    { unfold sf. rewrite curq_fresh by (cbn; rewrite upd_length; lia). rewrite Nat.eqb_refl, slen_fresh. lia. }
    assert (Cf1 : curq sf q1 = n).
    { unfold sf. rewrite curq_fresh by (cbn; rewrite upd_length; lia). destruct (Nat.eqb_spec q1 q2); [congruence|].
      rewrite curq_fresh by lia. rewrite Nat.eqb_refl. exact Len. }
    assert (LfO : forall x, x < n -> lab sf x = lab st x).
    { intros x Hx. unfold sf. rewrite lab_fresh_old by (rewrite slen_fresh; lia). apply lab_fresh_old. lia. }
    assert (LfN : lab sf n = n).
    { unfold sf. rewrite lab_fresh_old by (rewrite slen_fresh; lia). rewrite <- Len. apply lab_fresh_new. }
    assert (LfM : lab sf (S n) = S n).
    { unfold sf. replace (S n) with (slen (fresh_seg st q1)) by (rewrite slen_fresh; lia). apply lab_fresh_new. }
    assert (LJ : forall x, x < S (S n) -> lab (join sf q1 q2) x = if Nat.eqb (lab sf x) (S n) then n else lab sf x).
    { intros x Hx. rewrite lab_join by lia. unfold comp_of. fold (curq sf q1) (curq sf q2). fold (lab sf (curq sf q1)) (lab sf (curq sf q2)).
      rewrite Cf1, Cf2, LfN, LfM. reflexivity. }
    assert (Lb : forall x, x < n -> lab st x < n) by (intros x Hx; rewrite <- Len; apply (k_lab _ _ _ K); lia).
    pose proof (li_wf _ _ L) as WF.
    assert (Rn : parent (uptree s) n = n) by (apply (li_fresh _ _ L); lia).
    assert (Rm : parent (uptree s) (S n) = S n) by (apply (li_fresh _ _ L); unfold n; lia).
    assert (FU : forall x, find (upd (uptree s) (S n) n) x = if Nat.eqb (find (uptree s) x) (S n) then n else find (uptree s) x).
    { intros x. apply union_find; auto; lia. }
    assert (FO : forall x, x < n -> find (upd (uptree s) (S n) n) x = find (uptree s) x).
    { intros x Hx. rewrite FU. pose proof (find_le (uptree s) x WF). destruct (Nat.eqb_spec (find (uptree s) x) (S n)); [lia|reflexivity]. }
    assert (FN : find (upd (uptree s) (S n) n) n = n).
    { rewrite FU, (find_root_id _ _ WF Rn). destruct (Nat.eqb_spec n (S n)); [lia|reflexivity]. }
    assert (FM : find (upd (uptree s) (S n) n) (S n) = n) by (rewrite FU, (find_root_id _ _ WF Rm), Nat.eqb_refl; reflexivity).
    assert (FOlt : forall x, x < n -> find (upd (uptree s) (S n) n) x < n).
    { intros x Hx. rewrite FO by auto. pose proof (find_le (uptree s) x WF). lia. }
    constructor; auto; unfold both_res; cbn [add_action mul_gamma wiremap num_wires uptree gamma_UB]; fold n.
    - now apply join_ok.
    - cbn [join sg_cur sf fresh_seg]. rewrite (k_cur _ _ _ K).
      fold (slen st) (slen (fresh_seg st q1)). rewrite slen_fresh, Len. reflexivity.
    - rewrite slen_join. exact Lf.
    - intros a Ha. rewrite slen_join, Lf in *. rewrite LJ by lia.
      destruct (Nat.eqb _ _); [lia|]. destruct (Nat.eq_dec a (S n)) as [->|Na1]; [rewrite LfM; lia|].
      destruct (Nat.eq_dec a n) as [->|Na]; [rewrite LfN; lia|]. rewrite LfO by lia. specialize (Lb a ltac:(lia)). lia.
    - intros a b Ha Hb. rewrite !LJ by lia.
      assert (Ca : a < n \/ a = n \/ a = S n) by lia. assert (Cb : b < n \/ b = n \/ b = S n) by lia.
      destruct Ca as [Ca|[->| ->]], Cb as [Cb|[->| ->]];
        rewrite ?FN, ?FM, ?LfN, ?LfM, ?Nat.eqb_refl;
        try (rewrite (LfO a) by auto); try (rewrite (LfO b) by auto);
        try (pose proof (Lb a Ca)); try (pose proof (Lb b Cb)); try (pose proof (FOlt a Ca)); try (pose proof (FOlt b Cb));
        repeat match goal with |- context [Nat.eqb ?x ?y] => destruct (Nat.eqb_spec x y); try lia end;
        try (split; intros; lia).
      rewrite !FO by auto. apply (k_eq _ _ _ K); fold n; lia.
    - rewrite (k_cost _ _ _ K). reflexivity.
  Qed.
End Attain.

From CKT Require Import Model.CutFinderTable Proofs.CutFinderCirc Proofs.BestFirstRefuse.

Section AttainPath.
  Variable nq : nat.
  Variable W : nat.
  Hypothesis HW : 1 <= W.
  Variables gl wl : bool.
  Variable gs : list gate_spec.
  Hypothesis Hwf : forall g, In g gs -> gwf nq g.

  Let names := seq 0 nq.
  Let ND : NoDup names := seq_NoDup nq 0.
  Let fa := mkF gs (search_actions gl wl) W.
  Notation KI := (KI nq W).

  Lemma KI_cost st c c' s : KI st c s -> (c' == c)%Q -> KI st c' s.
  Proof. intros K E. destruct K. constructor; auto. now rewrite E. Qed.

  (* every edge of the guarded search space is a decision of permitted kind in the specification *)
  Lemma KI_succ st c s s' : KI st c s -> succ fa s s' ->
    exists g k, nth_error gs (level s) = Some g /\ permitted gl wl (g_gamma g) k = true /\ level s' = S (level s) /\
      KI (apply_kind st (q1_of g) (q2_of g) k) (c * kind_factor (g_gamma g) k)%Q s'.
  Proof.
    intros K Sc. destruct (succ_split W gl wl gs s s' Sc) as (g & ak & lk & s1 & Eg & Hk & Hp & Hs1 & ->).
    assert (Hg : In g gs) by (eapply nth_error_In; eauto). pose proof (Hwf g Hg) as Gw.
    destruct (k_iu _ _ _ _ _ K) as (cur & E & I).
    destruct (next_state_ok names W HW ND s cur E g ak I (gwf_gate_wf nq g Gw)) as (l0 & Hl0 & Hall).
    unfold next_state in Hl0. rewrite Hp in Hl0. cbn [obind] in Hl0. injection Hl0 as <-.
    destruct (Hall (set_level s1 (S (level s)))) as (IU' & _); [apply in_map_iff; exists s1; auto|].
    assert (IU1 : IU nq W s1).
    { exists (fst (kind_step (Q1 names g) (Q2 names g) (kind_of ak) (cur, E))), (snd (kind_step (Q1 names g) (Q2 names g) (kind_of ak) (cur, E))).
      destruct IU'. constructor; auto. destruct iu_sim as [phi P]. exists phi. destruct P; constructor; auto. }
    exists g. destruct ak; cbn [next_state_primitive] in Hp.
    - exists BestFirstSpec.Leave. split; [exact Eg|]. split; [reflexivity|]. split; [reflexivity|].
      apply KI_set_level. cbn [apply_kind kind_factor]. eapply KI_cost; [eapply KI_apply; eauto|]. apply Qmult_1_r.
    - destruct (KI_gatecut nq W st c s g lk s1 K Gw Hp Hs1 IU1) as (gam & Egam & K1).
      exists CutGate. split; [exact Eg|]. split; [|split; [reflexivity|]].
      + cbn [permitted]. rewrite Egam. pose proof (action_permitted gl wl CutGate Hk) as P. cbn in P. now rewrite P.
      + apply KI_set_level. cbn [apply_kind kind_factor]. now rewrite Egam.
    - exists CutLeft. split; [exact Eg|]. split; [|split; [reflexivity|]].
      + cbn [permitted]. exact (action_permitted gl wl CutLeft Hk).
      + apply KI_set_level. cbn [kind_factor]. eapply KI_left; eauto.
    - exists CutRight. split; [exact Eg|]. split; [|split; [reflexivity|]].
      + cbn [permitted]. exact (action_permitted gl wl CutRight Hk).
      + apply KI_set_level. cbn [kind_factor]. eapply KI_right; eauto.
    - exists CutBoth. split; [exact Eg|]. split; [|split; [reflexivity|]].
      + cbn [permitted]. exact (action_permitted gl wl CutBoth Hk).
      + apply KI_set_level. cbn [kind_factor]. eapply KI_both; eauto.
  Qed.

  Lemma KI_reach s gg : reach fa s gg -> goal fa gg -> forall st c, KI st c s ->
    exists A stn cn, replay gl wl (sgates_of (skipn (level s) gs)) A st c = Some (stn, cn) /\ KI stn cn gg.
  Proof.
    intros R Gg. induction R as [x|x y z Sc R IH]; intros st c K.
    - unfold goal, goal_state in Gg. cbn [fa fa_gates] in Gg. apply Nat.leb_le in Gg.
      rewrite skipn_all2 by exact Gg. exists [], st, c. split; [reflexivity|exact K].
    - destruct (KI_succ st c x y K Sc) as (g & k & Eg & Pk & El & K1).
      destruct (IH Gg _ _ K1) as (A & stn & cn & Hrep & Kn). rewrite El in Hrep.
      exists (k :: A), stn, cn. split; [|exact Kn].
      rewrite (skipn_nth gs (level x) g Eg). cbn [sgates_of map replay]. fold (sgates_of (skipn (S (level x)) gs)).
      rewrite Pk. exact Hrep.
  Qed.

  (* at any state every component of the specification state has at most W segments *)
  Lemma KI_widths st c s : KI st c s -> widths_ok W st = true.
  Proof.
    intros K. unfold widths_ok. apply forallb_forall. intros l Hl. apply Nat.leb_le.
    destruct (In_nth _ _ 0 Hl) as (a & Ha & <-). fold (lab st a). fold (slen st) in Ha.
    unfold comp_size. rewrite <- cnt_filter. fold (slen st). change (Fl (sg_comp st)) with (lab st).
    destruct (k_iu _ _ _ _ _ K) as (cur & E & I). pose proof (k_len _ _ _ _ _ K) as Len. rewrite Len in *.
    set (r := find (uptree s) a).
    destruct (root_facts names W HW s cur E a I Ha) as (_ & Nr & Br & Rr & _). fold r in Nr, Br, Rr.
    destruct (iu_width _ _ _ _ _ I r Br Rr) as [Wr Wle].
    assert (Ecnt : cnt (lab st) (num_wires s) (lab st a) = class_count (uptree s) r (num_wires s)).
    { rewrite class_count_cntb. unfold cnt. apply cntb_ext. intros x Hx.
      pose proof (k_eq _ _ _ _ _ K x a Hx Ha) as Xe. fold r in Xe.
      destruct (Nat.eqb_spec (lab st x) (lab st a)), (Nat.eqb_spec (find (uptree s) x) r); tauto. }
    rewrite Ecnt, <- (class_le_cnt nq W HW s cur E (fun _ => 0) r I (fun _ _ _ _ _ => eq_refl) Nr), <- Wr. exact Wle.
  Qed.

  Theorem goal_is_assignment B gg : reach fa (init_state nq B) gg -> goal fa gg ->
    exists A c, assignment_cost nq W gl wl (sgates_of gs) A = Some c /\ (c == gamma_UB gg)%Q.
  Proof.
    intros R Gg. destruct (KI_reach _ _ R Gg _ _ (KI_init nq W HW B)) as (A & stn & cn & Hrep & Kn).
    cbn [init_state level skipn] in Hrep. exists A, cn. split; [|apply (k_cost _ _ _ _ _ Kn)].
    unfold assignment_cost. rewrite Hrep, (KI_widths _ _ _ Kn). reflexivity.
  Qed.
End AttainPath.

Lemma find_cuts_val_W fuel i r : find_cuts_full fuel i = Val r -> 1 <= fi_W i.
Proof. unfold find_cuts_full. destruct (Nat.ltb_spec (fi_W i) 1); [discriminate|auto]. Qed.

(* the overhead find_cuts returns is the squared cost of an assignment of permitted kinds that meets the width limit *)
Theorem result_is_assignment fuel i r : gammas_ok_in i -> circ_nodup (fi_circ i) -> find_cuts_full fuel i = Val r ->
  exists A c, assignment_cost (nq_of i) (fi_W i) (fi_gate_lo i) (fi_wire_lo i) (sgates_of (fa_gates (fa_of i))) A = Some c /\
              (md_overhead (fr_meta r) == c * c)%Q.
Proof.
  intros G ND H. pose proof (find_cuts_val_W fuel i r H) as HW.
  assert (Hwf : forall g, In g (fa_gates (fa_of i)) -> gwf (nq_of i) g).
  { apply fa_gates_wf_nodup; [exact ND|]. exact (result_two_qubit fuel i r G H). }
  destruct (result_attained fuel i r G H) as (Kind & _ & Eov).
  assert (X : exists B, reach (fa_of i) (init_state (nq_of i) B) (fr_best r) /\ goal (fa_of i) (fr_best r)).
  { destruct Kind as [Eg|(R & Gg)].
    - unfold greedy_of in Eg. destruct (greedy_cut_optimization (nq_of i) (fa_of i)) as [o| | |] eqn:E; try discriminate. subst o.
      unfold greedy_cut_optimization in E.
      destruct (greedy_reach (fi_W i) (fi_gate_lo i) (fi_wire_lo i) (fa_gates (fa_of i)) _ _ _ E) as (R & Gg). eauto.
    - unfold start_of, search_start in R. eauto. }
  destruct X as (B & R & Gg).
  destruct (goal_is_assignment (nq_of i) (fi_W i) HW (fi_gate_lo i) (fi_wire_lo i) (fa_gates (fa_of i)) Hwf B _ R Gg) as (A & c & HA & Ec).
  exists A, c. split; [exact HA|]. rewrite Eov. unfold cost. now rewrite Ec.
Qed.

Lemma result_is_assignment_table fuel i r : gtab_ge1 (fi_gtab i) = true -> circ_nodup (fi_circ i) -> find_cuts_full fuel i = Val r ->
  exists A c, assignment_cost (nq_of i) (fi_W i) (fi_gate_lo i) (fi_wire_lo i) (sgates_of (fa_gates (fa_of i))) A = Some c /\
              (md_overhead (fr_meta r) == c * c)%Q.
Proof. intros T. exact (result_is_assignment fuel i r (gtab_gammas_ok i T)). Qed.

(* a reported minimum IS the minimum of the specification: attained by an assignment and a lower bound of all assignments *)
Lemma reported_minimum_is_minimum fuel i r : gtab_ge1 (fi_gtab i) = true -> circ_nodup (fi_circ i) ->
  find_cuts_full fuel i = Val r -> md_minimum_reached (fr_meta r) = true ->
  exists A c, assignment_cost (nq_of i) (fi_W i) (fi_gate_lo i) (fi_wire_lo i) (sgates_of (fa_gates (fa_of i))) A = Some c /\
    (md_overhead (fr_meta r) == c * c)%Q /\
    forall A' c', assignment_cost (nq_of i) (fi_W i) (fi_gate_lo i) (fi_wire_lo i) (sgates_of (fa_gates (fa_of i))) A' = Some c' ->
      (c * c <= c' * c')%Q.
Proof.
  intros T ND H F. destruct (result_is_assignment_table fuel i r T ND H) as (A & c & HA & Ec).
  exists A, c. split; [exact HA|]. split; [exact Ec|]. intros A' c' HA'. rewrite <- Ec.
  exact (flag_sound_table fuel i r T ND H F A' c' HA').
Qed.

(* Proofs/ResetFreeCut.v — circuits produced by cut_wires satisfy no_reuse (C19, link to C03's model).
   Kept apart from Proofs/ResetFreeP.v because it builds on Proofs/CutWiresP.v (closed form of the structure mapping). *)
From Coq Require Import Lia ZifyBool.
From CKT Require Import Common.Base Common.Circ Model.Observables Model.ResetPasses Model.ResetFree.
From CKT Require Import Proofs.ResetPassesP.
From CKT Require Import Model.CutWires Proofs.CutWiresP.

(* every position an output instruction acts on lies in the part of a qubit's block that is still ahead:
   between the qubit's current position and that position plus the number of markers still to come *)
Lemma tcw_uses fac nq c : forall m, wf_circ nq c = true -> length m = nq ->
  forall y, In y (tcw fac m c) -> forall p, In p (iqs y) ->
  exists g, g < nq /\ nth g m 0 <= p <= nth g m 0 + cut_freq c g.
Proof.
  induction c as [|i r IH]; intros m W L y I p P; [destruct I|].
  apply wf_circ_cons in W as [Wi Wr]. destruct (wf_instr_spec nq i Wi) as [Rq Mq].
  simpl in I. destruct (is_marker i) eqn:M.
  - destruct (Mq eq_refl) as [_ G]. set (g0 := marker_qubit i) in *.
    destruct I as [<-|I].
    + exists g0. split; [assumption|]. rewrite cut_freq_cons, M. fold g0.
      destruct (Nat.eq_dec g0 g0); [|congruence]. simpl in P. destruct P as [<-|[<-|[]]]; lia.
    + destruct (IH (upd m g0 (nth g0 m 0 + 1)) Wr ltac:(now rewrite upd_length) y I p P) as (g & Gl & B).
      exists g. split; [assumption|]. rewrite cut_freq_cons, M. fold g0.
      rewrite nth_upd_eq in B by lia.
      destruct (Nat.eq_dec g g0) as [->|N]; destruct (Nat.eq_dec g0 _); try congruence; lia.
  - destruct I as [<-|I].
    + simpl in P. apply in_map_iff in P as (g & <- & Ig). exists g. split; [now apply Rq|lia].
    + destruct (IH m Wr L y I p P) as (g & Gl & B). exists g. split; [assumption|].
      rewrite cut_freq_cons, M. lia.
Qed.

(* a split of the output is the image of a split of the input *)
Lemma tcw_split_inv fac : forall pre m c x post, tcw fac m c = pre ++ x :: post ->
  exists c1 i c2, c = c1 ++ i :: c2 /\ pre = tcw fac m c1 /\ x :: post = tcw fac (run_map m c1) (i :: c2).
Proof.
  induction pre as [|y pre IH]; intros m c x post E.
  - destruct c as [|i c2]; [discriminate|]. exists [], i, c2. repeat split. simpl. exact (eq_sym E).
  - destruct c as [|i0 c']; [discriminate|]. simpl in E.
    destruct (is_marker i0) eqn:M; injection E as Ey E;
      destruct (IH _ _ _ _ E) as (c1 & i & c2 & -> & -> & Ex); exists (i0 :: c1), i, c2; simpl; rewrite M;
      repeat split; try (now rewrite Ey); exact Ex.
Qed.

Lemma blocks_disjoint f a b p : a <> b -> block_start f a <= p <= block_end f a -> block_start f b <= p <= block_end f b -> False.
Proof.
  intros N A B. destruct (Nat.lt_ge_cases a b) as [L|L].
  - pose proof (block_lt f a b L). lia.
  - assert (L' : b < a) by lia. pose proof (block_lt f b a L'). lia.
Qed.

Lemma untouched_intro q l : (forall y, In y l -> ~ In q (iqs y)) -> untouched q l = true.
Proof.
  intros H. unfold untouched. rewrite forallb_forall. intros y I. apply negb_true_iff.
  apply on_wire_false. now apply H.
Qed.

Theorem cut_wires_no_reuse (env : benv) nq c b bid lbl :
  wf_circ nq c = true -> no_resets c = true -> no_placeholders c = true ->
  basis_class env b = 1 ->
  no_reuse env (nq + count_markers c) (cut_wires_gen (Qpd2 b bid lbl) nq c).
Proof.
  intros W NR NP K pre x post E. unfold cut_wires_gen in E.
  set (fac := Qpd2 b bid lbl) in *. set (m0 := fst (structure_mapping nq c)) in *.
  pose proof (initial_mapping_length nq c) as L0. fold m0 in L0.
  destruct (tcw_split_inv fac pre m0 c x post E) as (c1 & i & c2 & Ec & Ep & Ex).
  assert (W' := W). rewrite Ec in W'. apply wf_circ_app in W' as [W1 W2]. apply wf_circ_cons in W2 as [Wi W2].
  destruct (run_map_spec nq c1 m0 W1 L0) as [L1 N1]. set (m1 := run_map m0 c1) in *.
  assert (B0 : forall g, g < nq -> nth g m0 0 = block_start (cut_freq c) g)
    by (intros g G; unfold m0; now apply initial_mapping).
  destruct (wf_instr_spec nq i Wi) as [Rq Mq].
  simpl in Ex. destruct (is_marker i) eqn:M.
  - (* a marker: the placeholder on (p, p+1) *)
    destruct (Mq eq_refl) as [_ G]. set (g := marker_qubit i) in *.
    injection Ex as -> ->. set (p := nth g m1 0).
    assert (Pg : p = block_start (cut_freq c) g + cut_freq c1 g) by (unfold p; rewrite N1, B0 by assumption; reflexivity).
    assert (Fg : cut_freq c g = cut_freq c1 g + 1 + cut_freq c2 g).
    { rewrite Ec, cut_freq_app, cut_freq_cons, M. fold g. destruct (Nat.eq_dec g g); [lia|congruence]. }
    assert (Fo : forall g', g' <> g -> cut_freq c g' = cut_freq c1 g' + cut_freq c2 g').
    { intros g' N. rewrite Ec, cut_freq_app, cut_freq_cons, M. fold g. destruct (Nat.eq_dec g g'); [congruence|lia]. }
    assert (Pb : p + 1 < nq + count_markers c).
    { pose proof (block_end_bound (cut_freq c) nq g G) as Bd. rewrite (sum_cut_freq nq c W) in Bd.
      unfold block_end in Bd. lia. }
    split; [|split].
    + unfold allowed, fac. cbn [iop iqs]. rewrite K. simpl.
      replace (Nat.ltb p (nq + count_markers c)) with true by (symmetry; apply Nat.ltb_lt; lia).
      replace (Nat.ltb (p + 1) (nq + count_markers c)) with true by (symmetry; apply Nat.ltb_lt; lia).
      replace (Nat.eqb p (p + 1)) with false by (symmetry; apply Nat.eqb_neq; lia). reflexivity.
    + (* the source position is never used afterwards *)
      unfold src_qubit, fac. cbn [iop iqs]. rewrite K. simpl. intros q Eq. injection Eq as <-.
      apply untouched_intro. intros y I P.
      destruct (tcw_uses fac nq c2 (upd m1 g (p + 1)) W2 ltac:(now rewrite upd_length) y I p P) as (g' & G' & Bd).
      rewrite nth_upd_eq in Bd by lia. destruct (Nat.eq_dec g' g) as [->|N]; [lia|].
      rewrite N1, B0 in Bd by assumption.
      apply (blocks_disjoint (cut_freq c) g g' p); [congruence| |]; unfold block_end; [lia|]. rewrite (Fo g' N). lia.
    + (* the destination position was never used before *)
      unfold dst_qubit, fac. cbn [iop iqs]. rewrite K. simpl. intros q Eq. injection Eq as <-.
      apply untouched_intro. intros y I P. rewrite Ep in I.
      destruct (tcw_uses fac nq c1 m0 W1 L0 y I (p + 1) P) as (g' & G' & Bd).
      rewrite B0 in Bd by assumption. destruct (Nat.eq_dec g' g) as [->|N]; [lia|].
      apply (blocks_disjoint (cut_freq c) g g' (p + 1)); [congruence| |]; unfold block_end; [lia|]. rewrite (Fo g' N). lia.
  - (* an ordinary instruction, relocated *)
    injection Ex as -> _.
    assert (In i c) by (rewrite Ec; apply in_or_app; right; now left).
    unfold no_resets, no_placeholders in NR, NP. rewrite forallb_forall in NR, NP.
    pose proof (NR i H) as R. pose proof (NP i H) as Q. apply negb_true_iff in R, Q.
    unfold allowed, src_qubit, dst_qubit. cbn [iop]. unfold is_reset, is_qpd in R, Q.
    destruct (iop i); try discriminate; repeat split; intros; discriminate.
Qed.

(* Proofs/DecomposeP.v — lemmas about Model/Decompose.v (property C14). *)
From Coq Require Import Sorted Permutation.
From CKT Require Import Common.Base Common.Circ Model.Decompose.

(* ====================================================================== *)
(* A. list surgery on  pre ++ rest                                         *)
(* ====================================================================== *)

Lemma nth_error_at {A} (pre : list A) x r n : n = length pre -> nth_error (pre ++ x :: r) n = Some x.
Proof. intros ->. rewrite nth_error_app2 by lia. now rewrite Nat.sub_diag. Qed.

Lemma nth_at {A} (pre : list A) x r n d : n = length pre -> nth n (pre ++ x :: r) d = x.
Proof. intros ->. rewrite app_nth2 by lia. now rewrite Nat.sub_diag. Qed.

Lemma upd_at {A} (pre : list A) x r n v : n = length pre -> upd (pre ++ x :: r) n v = pre ++ v :: r.
Proof. intros ->. induction pre as [|y pre IH]; simpl; [reflexivity|now rewrite IH]. Qed.

Lemma insert_at_at {A} (pre r : list A) n v : n = length pre -> insert_at (pre ++ r) n v = pre ++ v :: r.
Proof. intros ->. induction pre as [|y pre IH]; simpl; [destruct r; reflexivity|now rewrite IH]. Qed.

Lemma delete_at_at {A} (pre : list A) x r n : n = length pre -> delete_at (pre ++ x :: r) n = pre ++ r.
Proof. intros ->. induction pre as [|y pre IH]; simpl; [reflexivity|now rewrite IH]. Qed.

Lemma nth_error_ext {A} (l l' : list A) : (forall n, nth_error l n = nth_error l' n) -> l = l'.
Proof.
  revert l'; induction l as [|x l IH]; intros [|y l'] H; auto.
  - specialize (H 0); discriminate.
  - specialize (H 0); discriminate.
  - f_equal; [specialize (H 0); simpl in H; congruence|]. apply IH; intros n; exact (H (S n)).
Qed.

Lemma nth_error_upd_same {A} (l : list A) i v : i < length l -> nth_error (upd l i v) i = Some v.
Proof. revert i; induction l as [|x l IH]; intros [|i] H; simpl in *; try lia; auto. apply IH; lia. Qed.

Lemma nth_error_upd_other {A} (l : list A) i n v : i <> n -> nth_error (upd l i v) n = nth_error l n.
Proof. revert i n; induction l as [|x l IH]; intros [|i] [|n] H; simpl; auto; try congruence. Qed.

(* mapi *)
Fixpoint mapi_from {A B} (k : nat) (f : nat -> A -> B) (l : list A) : list B :=
  match l with [] => [] | x :: r => f k x :: mapi_from (S k) f r end.

Lemma nth_error_mapi {A B} (f : nat -> A -> B) l k n :
  nth_error (mapi_from k f l) n = option_map (f (k + n)) (nth_error l n).
Proof.
  revert k n; induction l as [|x l IH]; intros k [|n]; simpl; auto.
  - now rewrite Nat.add_0_r.
  - rewrite IH. now replace (S k + n) with (k + S n) by lia.
Qed.

Lemma length_mapi {A B} (f : nat -> A -> B) l k : length (mapi_from k f l) = length l.
Proof. revert k; induction l as [|x l IH]; intros k; simpl; auto. Qed.

Lemma mapi_id {A} (f : nat -> A -> A) l k : (forall j x, f j x = x) -> mapi_from k f l = l.
Proof. intros H; revert k; induction l as [|x l IH]; intros k; simpl; [reflexivity|]. now rewrite H, IH. Qed.

Lemma filter_mapi {A} (P : A -> bool) (f : nat -> A -> A) l k :
  (forall j x, P x = true -> f j x = x) -> (forall j x, P (f j x) = P x) ->
  filter P (mapi_from k f l) = filter P l.
Proof.
  intros H1 H2; revert k; induction l as [|x l IH]; intros k; simpl; [reflexivity|].
  rewrite H2. destruct (P x) eqn:E; rewrite IH; [now rewrite H1|reflexivity].
Qed.

Lemma positions_mapi {A} (P : A -> bool) (f : nat -> A -> A) l k j :
  (forall j x, P (f j x) = P x) -> positions_from P j (mapi_from k f l) = positions_from P j l.
Proof.
  intros H; revert k j; induction l as [|x l IH]; intros k j; simpl; [reflexivity|].
  rewrite H. now rewrite IH.
Qed.

Lemma Forall_mapi {A} (Q : A -> Prop) (f : nat -> A -> A) l k :
  (forall n x, nth_error l n = Some x -> Q (f (k + n) x)) -> Forall Q (mapi_from k f l).
Proof.
  revert k; induction l as [|x l IH]; intros k H; simpl; constructor.
  - specialize (H 0 x eq_refl). now rewrite Nat.add_0_r in H.
  - apply IH. intros n y Hn. replace (S k + n) with (k + S n) by lia. now apply H.
Qed.

(* positions *)
Lemma positions_length {A} (f : A -> bool) l k : length (positions_from f k l) = length (filter f l).
Proof. revert k; induction l as [|x l IH]; intros k; simpl; [reflexivity|]. destruct (f x); simpl; now rewrite IH. Qed.

Lemma positions_In {A} (f : A -> bool) l k p :
  In p (positions_from f k l) <-> exists x, k <= p /\ nth_error l (p - k) = Some x /\ f x = true.
Proof.
  revert k; induction l as [|x l IH]; intros k; simpl.
  - split; [tauto|]. intros (y & _ & H & _). destruct (p - k); discriminate.
  - assert (Hr : In p (positions_from f (S k) l) <-> exists y, S k <= p /\ nth_error l (p - S k) = Some y /\ f y = true) by apply IH.
    assert (Hx : (exists y, k <= p /\ nth_error (x :: l) (p - k) = Some y /\ f y = true) <->
                 (p = k /\ f x = true) \/ exists y, S k <= p /\ nth_error l (p - S k) = Some y /\ f y = true).
    { split.
      - intros (y & Hk & Hn & Hf). destruct (p - k) as [|d] eqn:E.
        + left. simpl in Hn. inversion Hn; subst. split; [lia|assumption].
        + right. exists y. simpl in Hn. replace (p - S k) with d by lia. repeat split; auto; lia.
      - intros [[-> Hf]|(y & Hk & Hn & Hf)].
        + exists x. rewrite Nat.sub_diag. simpl. auto.
        + exists y. replace (p - k) with (S (p - S k)) by lia. simpl. repeat split; auto; lia. }
    rewrite Hx. destruct (f x) eqn:E; simpl; rewrite Hr.
    + split; [intros [->|H]; [left; auto|right; auto]|intros [[-> _]|H]; auto].
    + split; [auto|intros [[_ H]|H]; [discriminate|auto]].
Qed.

Lemma positions_lower {A} (f : A -> bool) l k p : In p (positions_from f k l) -> k <= p.
Proof. intros H; apply positions_In in H as (x & H & _); exact H. Qed.

Lemma positions_sorted {A} (f : A -> bool) l k : StronglySorted lt (positions_from f k l).
Proof.
  revert k; induction l as [|x l IH]; intros k; simpl; [constructor|].
  destruct (f x); [|apply IH]. constructor; [apply IH|].
  apply Forall_forall. intros p Hp. apply positions_lower in Hp. lia.
Qed.

Lemma sorted_lt_NoDup l : StronglySorted lt l -> NoDup l.
Proof.
  induction 1 as [|x l Hs IH Hf]; constructor; auto.
  intros Hin. rewrite Forall_forall in Hf. specialize (Hf _ Hin). lia.
Qed.

(* ====================================================================== *)
(* B. sorting                                                              *)
(* ====================================================================== *)

Lemma insert_sorted_In x l z : In z (insert_sorted x l) <-> z = x \/ In z l.
Proof.
  induction l as [|y l IH]; simpl; [intuition|].
  destruct (Nat.leb x y); simpl; [intuition|]. rewrite IH. intuition.
Qed.

Lemma isort_In l z : In z (isort l) <-> In z l.
Proof. induction l as [|x l IH]; simpl; [tauto|]. rewrite insert_sorted_In, IH. intuition. Qed.

Lemma insert_sorted_sorted x l : StronglySorted lt l -> ~ In x l -> StronglySorted lt (insert_sorted x l).
Proof.
  induction 1 as [|y l Hs IH Hf]; intros Hn; simpl; [repeat constructor|].
  destruct (Nat.leb_spec x y) as [Hle|Hgt].
  - assert (x < y) by (assert (x <> y) by (intros ->; apply Hn; now left); lia).
    constructor; [now constructor|]. constructor; [assumption|].
    rewrite Forall_forall in *. intros z Hz. specialize (Hf _ Hz). lia.
  - constructor; [apply IH; intros H; apply Hn; now right|].
    rewrite Forall_forall in *. intros z Hz. apply insert_sorted_In in Hz as [->|Hz]; [lia|auto].
Qed.

Lemma isort_sorted l : NoDup l -> StronglySorted lt (isort l).
Proof.
  induction 1 as [|x l Hn Hd IH]; simpl; [constructor|].
  apply insert_sorted_sorted; [assumption|]. now rewrite isort_In.
Qed.

Lemma sorted_lt_unique l1 l2 :
  StronglySorted lt l1 -> StronglySorted lt l2 -> (forall z, In z l1 <-> In z l2) -> l1 = l2.
Proof.
  intros H1; revert l2; induction H1 as [|x l1 Hs1 IH Hf1]; intros l2 H2 Heq.
  - destruct l2 as [|y l2]; [reflexivity|]. exfalso. apply (proj2 (Heq y)). now left.
  - destruct H2 as [|y l2 Hs2 Hf2]; [exfalso; apply (proj1 (Heq x)); now left|].
    rewrite Forall_forall in Hf1, Hf2.
    assert (x = y).
    { destruct (proj1 (Heq x) (or_introl eq_refl)) as [E|Hx]; [auto|].
      destruct (proj2 (Heq y) (or_introl eq_refl)) as [E|Hy]; [auto|].
      specialize (Hf1 _ Hy). specialize (Hf2 _ Hx). lia. }
    subst y. f_equal. apply IH; [assumption|]. intros z; split; intros Hz.
    + destruct (proj1 (Heq z) (or_intror Hz)) as [E|H]; [|assumption]. specialize (Hf1 _ Hz). lia.
    + destruct (proj2 (Heq z) (or_intror Hz)) as [E|H]; [|assumption]. specialize (Hf2 _ Hz). lia.
Qed.

(* ====================================================================== *)
(* C. first loop: 2q placeholders -> halves                                *)
(* ====================================================================== *)

Definition split2 (i : instr) : list instr :=
  match halves i with Some (h0, h1) => [h0; h1] | None => [i] end.

Lemma halves_qpd2 i : is_qpd2 i = true -> exists h0 h1, halves i = Some (h0, h1).
Proof. unfold is_qpd2, halves. destruct (iop i); try discriminate. eauto. Qed.

Lemma halves_not_qpd2 i : is_qpd2 i = false -> halves i = None.
Proof. unfold is_qpd2, halves. destruct (iop i); try discriminate; reflexivity. Qed.

Lemma loop_2q_spec : forall rest pre k off,
  length pre = k + off ->
  loop_2q (positions_from is_qpd2 k rest) off (pre ++ rest) = Ok (pre ++ flat_map split2 rest).
Proof.
  induction rest as [|x r IH]; intros pre k off Hlen; cbn [positions_from flat_map].
  - reflexivity.
  - destruct (is_qpd2 x) eqn:E.
    + destruct (halves_qpd2 _ E) as (h0 & h1 & Hh).
      cbn [loop_2q]. rewrite (nth_error_at pre x r) by lia. rewrite Hh.
      rewrite (upd_at pre x r) by lia.
      replace (pre ++ h0 :: r) with ((pre ++ [h0]) ++ r) by (now rewrite <- app_assoc).
      rewrite insert_at_at by (rewrite app_length; cbn [length]; lia).
      replace ((pre ++ [h0]) ++ h1 :: r) with ((pre ++ [h0; h1]) ++ r) by (now rewrite <- !app_assoc).
      rewrite IH by (rewrite app_length; cbn [length]; lia).
      assert (Hs : split2 x = [h0; h1]) by (unfold split2; now rewrite Hh).
      rewrite Hs. now rewrite <- app_assoc.
    + replace (pre ++ x :: r) with ((pre ++ [x]) ++ r) by (now rewrite <- app_assoc).
      rewrite IH by (rewrite app_length; cbn [length]; lia).
      assert (Hs : split2 x = [x]) by (unfold split2; now rewrite (halves_not_qpd2 _ E)).
      rewrite Hs. now rewrite <- app_assoc.
Qed.

(* ====================================================================== *)
(* D. second loop: 1q placeholders -> their definitions                    *)
(* ====================================================================== *)

Definition ops_on (q : nat) (ops : list bop) : list instr := map (fun o => mkI (of_bop o) [q] []) ops.

(* what one placeholder becomes, with the failure modes of the loop body *)
Definition splice1 (env : benv) (i : instr) : res (list instr) :=
  match iop i with
  | Qpd2 _ _ _ => Crashed
  | Qpd1 b h None _ => Crashed
  | Qpd1 b h (Some m) _ =>
      match definition_1q env b h m with
      | None => Crashed
      | Some ops => Ok (ops_on (nth 0 (iqs i) 0) ops)
      end
  | _ => Ok [i]
  end.

Fixpoint splice_all (env : benv) (l : circ) : res circ :=
  match l with
  | [] => Ok []
  | x :: r => res_bind (splice1 env x) (fun s => res_map (app s) (splice_all env r))
  end.

Lemma insert_rest_spec : forall ds pre r i off,
  Z.of_nat (length pre) = (Z.of_nat i + off + 1)%Z ->
  insert_rest (pre ++ r) i off ds = (pre ++ ds ++ r, (off + Z.of_nat (length ds))%Z).
Proof.
  induction ds as [|d ds IH]; intros pre r i off H; cbn [insert_rest].
  - simpl. f_equal. lia.
  - rewrite insert_at_at by lia.
    replace (pre ++ d :: r) with ((pre ++ [d]) ++ r) by (now rewrite <- app_assoc).
    rewrite IH by (rewrite app_length; cbn [length]; lia).
    f_equal; [now rewrite <- app_assoc|]. simpl length. lia.
Qed.

Lemma res_map_app_assoc (pre s : circ) (r : res circ) :
  res_map (app (pre ++ s)) r = res_map (app pre) (res_map (app s) r).
Proof. destruct r; simpl; [now rewrite app_assoc|reflexivity|reflexivity]. Qed.

Lemma splice1_other env x : is_qpd x = false -> splice1 env x = Ok [x].
Proof. unfold is_qpd, splice1. destruct (iop x); try discriminate; reflexivity. Qed.

Lemma loop_1q_spec env : forall rest pre k off,
  Z.of_nat (length pre) = (Z.of_nat k + off)%Z ->
  loop_1q env (positions_from is_qpd k rest) off (pre ++ rest) = res_map (app pre) (splice_all env rest).
Proof.
  induction rest as [|x r IH]; intros pre k off Hlen; cbn [positions_from splice_all].
  - simpl. now rewrite app_nil_r.
  - destruct (is_qpd x) eqn:E.
    + cbn [loop_1q].
      assert (Hpos : Z.to_nat (Z.of_nat k + off) = length pre) by lia.
      rewrite Hpos. rewrite (nth_error_at pre x r) by reflexivity.
      unfold splice1.
      destruct (iop x) as [g|lb| | | | |b bid lb|b h bid lb| ] eqn:Eop; try (unfold is_qpd in E; rewrite Eop in E; discriminate).
      * reflexivity.
      * destruct bid as [m|]; [|reflexivity].
        destruct (definition_1q env b h m) as [ops|]; [|reflexivity].
        destruct ops as [|o os]; cbn [map ops_on res_bind].
        -- rewrite (delete_at_at pre x r) by reflexivity.
           rewrite IH by lia. destruct (splice_all env r); reflexivity.
        -- rewrite (upd_at pre x r) by reflexivity.
           set (d0 := mkI (of_bop o) [nth 0 (iqs x) 0] []).
           set (ds := map (fun o0 : bop => mkI (of_bop o0) [nth 0 (iqs x) 0] []) os).
           replace (pre ++ d0 :: r) with ((pre ++ [d0]) ++ r) by (now rewrite <- app_assoc).
           rewrite insert_rest_spec by (rewrite app_length; cbn [length]; lia).
           replace ((pre ++ [d0]) ++ ds ++ r) with ((pre ++ d0 :: ds) ++ r) by (now rewrite <- !app_assoc).
           rewrite IH by (rewrite app_length; cbn [length]; lia).
           apply res_map_app_assoc.
    + rewrite (splice1_other _ _ E). cbn [res_bind].
      replace (pre ++ x :: r) with ((pre ++ [x]) ++ r) by (now rewrite <- app_assoc).
      rewrite IH by (rewrite app_length; cbn [length]; lia).
      apply res_map_app_assoc.
Qed.

(* ====================================================================== *)
(* E. measurement markers                                                  *)
(* ====================================================================== *)

Fixpoint measures_from (k : nat) (l : circ) : circ :=
  match l with
  | [] => []
  | x :: r => if is_marker x then mkI Measure (iqs x) [k] :: measures_from (S k) r
              else x :: measures_from k r
  end.

Definition count_markers (l : circ) : nat := length (filter is_marker l).

Lemma loop_meas_spec : forall rest pre j idx nc,
  length pre = j ->
  loop_meas (positions_from is_marker j rest) idx nc (pre ++ rest) = pre ++ measures_from (nc + idx) rest.
Proof.
  induction rest as [|x r IH]; intros pre j idx nc Hlen; cbn [positions_from measures_from].
  - reflexivity.
  - destruct (is_marker x) eqn:E.
    + cbn [loop_meas]. rewrite (nth_at pre x r) by lia. rewrite (upd_at pre x r) by lia.
      set (M := mkI Measure (iqs x) [nc + idx]).
      replace (pre ++ M :: r) with ((pre ++ [M]) ++ r) by (now rewrite <- app_assoc).
      rewrite IH by (rewrite app_length; cbn [length]; lia).
      rewrite <- app_assoc. simpl. now rewrite Nat.add_succ_r.
    + replace (pre ++ x :: r) with ((pre ++ [x]) ++ r) by (now rewrite <- app_assoc).
      rewrite IH by (rewrite app_length; cbn [length]; lia). now rewrite <- app_assoc.
Qed.

Lemma decompose_measurements_spec nc c :
  decompose_measurements nc c = (measures_from nc c, Nat.max 1 (count_markers c)).
Proof.
  unfold decompose_measurements, positions, count_markers.
  pose proof (loop_meas_spec c [] 0 0 nc eq_refl) as H. cbn [app] in H. rewrite H.
  rewrite positions_length. now rewrite Nat.add_0_r.
Qed.

(* ====================================================================== *)
(* F. validation: what Ok means, and that in-range requests never crash    *)
(* ====================================================================== *)

Definition placeholder_with (c : circ) (b p : nat) : Prop :=
  exists ins, nth_error c p = Some ins /\ basis_of ins = Some b.
Definition qpd2_at (c : circ) (p : nat) : Prop :=
  exists ins, nth_error c p = Some ins /\ is_qpd2 ins = true.

(* one decomposition: one or two indices, all placeholders, one common basis *)
Definition good_group (c : circ) (g : list nat) : Prop :=
  (length g = 1 \/ length g = 2) /\ exists b, forall p, In p g -> placeholder_with c b p.

Definition ids_in_range (c : circ) (ids : list (list nat)) : Prop :=
  forall g p, In g ids -> In p g -> p < length c.

Lemma basis_of_is_qpd i b : basis_of i = Some b -> is_qpd i = true.
Proof. unfold basis_of, is_qpd. destruct (iop i); try discriminate; reflexivity. Qed.

Lemma is_qpd_basis_of i : is_qpd i = true -> exists b, basis_of i = Some b.
Proof. unfold basis_of, is_qpd. destruct (iop i); try discriminate; eauto. Qed.

Lemma is_qpd2_is_qpd i : is_qpd2 i = true -> is_qpd i = true.
Proof. unfold is_qpd2, is_qpd. destruct (iop i); try discriminate; reflexivity. Qed.

(* a two-qubit placeholder is a decomposition of its own *)
Definition lone_2q (c : circ) (g : list nat) : Prop :=
  forall p, In p g -> qpd2_at c p -> length g = 1.

(* what the (repaired) validation accepts *)
Definition well_formed (c : circ) (ids : list (list nat)) : Prop :=
  Forall (good_group c) ids /\
  length (filter is_qpd c) = length (concat ids) /\
  NoDup (concat ids) /\
  (forall g, In g ids -> lone_2q c g).

Lemma nodupb_NoDup l : nodupb l = true -> NoDup l.
Proof.
  induction l as [|a l IH]; simpl; intros H; constructor; apply andb_prop in H as [H1 H2]; [|auto].
  intros Hin. apply negb_true_iff in H1.
  assert (existsb (Nat.eqb a) l = true) by (apply existsb_exists; exists a; split; auto using Nat.eqb_refl).
  congruence.
Qed.

Lemma NoDup_nodupb l : NoDup l -> nodupb l = true.
Proof.
  induction 1 as [|a l Hn Hd IH]; simpl; [reflexivity|]. rewrite IH, andb_true_r. apply negb_true_iff.
  destruct (existsb (Nat.eqb a) l) eqn:E; [|reflexivity].
  apply existsb_exists in E as (x & Hx & Ex). apply Nat.eqb_eq in Ex; subst x. contradiction.
Qed.

Lemma validate_members_ok c b0 pair g :
  validate_members c b0 pair g = Ok tt ->
  forall p, In p g -> placeholder_with c b0 p /\ (pair = true -> ~ qpd2_at c p).
Proof.
  induction g as [|a g IH]; simpl; intros H p Hin; [contradiction|].
  destruct (nth_error c a) as [i|] eqn:E; [|discriminate].
  destruct (basis_of i) as [b|] eqn:Eb; [|discriminate].
  destruct (Nat.eqb_spec b0 b) as [->|]; [|discriminate].
  destruct (pair && is_qpd2 i) eqn:Ep; [discriminate|].
  destruct Hin as [<-|Hin]; [|now apply IH]. split; [exists i; auto|].
  intros -> (i' & Hi' & Hq). rewrite E in Hi'. inversion Hi'; subst i'. rewrite Hq in Ep. discriminate.
Qed.

Lemma validate_group_ok c g : validate_group c g = Ok tt -> good_group c g /\ lone_2q c g.
Proof.
  unfold validate_group.
  destruct (Nat.eqb (length g) 1 || Nat.eqb (length g) 2) eqn:El; simpl; [|discriminate].
  destruct g as [|p0 r]; [discriminate|].
  destruct (nth_error c p0) as [i|] eqn:E; [|discriminate].
  destruct (basis_of i) as [b|] eqn:Eb; [|discriminate].
  intros H. pose proof (validate_members_ok c b _ _ H) as Hm.
  assert (Hl : length (p0 :: r) = 1 \/ length (p0 :: r) = 2)
    by (apply orb_true_iff in El as [El|El]; apply Nat.eqb_eq in El; auto).
  split; [split; [exact Hl|exists b; intros p Hp; apply (Hm p Hp)]|].
  intros p Hp Hq. destruct Hl as [Hl|Hl]; [exact Hl|]. exfalso.
  apply (proj2 (Hm p Hp)); [|exact Hq]. now apply Nat.eqb_eq.
Qed.

Lemma validate_groups_ok c ids :
  validate_groups c ids = Ok tt -> Forall (good_group c) ids /\ (forall g, In g ids -> lone_2q c g).
Proof.
  induction ids as [|g ids IH]; simpl; intros H; [split; [constructor|intros ? []]|].
  destruct (validate_group c g) as [[]| |] eqn:E; simpl in H; try discriminate.
  destruct (validate_group_ok c g E) as [Hg Hl]. destruct (IH H) as [IH1 IH2].
  split; [now constructor|]. intros g' [<-|Hin]; auto.
Qed.

Lemma list_sum_length_concat (ids : list (list nat)) : list_sum (map (@length nat) ids) = length (concat ids).
Proof. induction ids as [|g ids IH]; simpl; [reflexivity|]. rewrite app_length; lia. Qed.

Lemma validate_ok_full c ids : validate c ids = Ok tt -> well_formed c ids.
Proof.
  unfold validate. destruct (validate_groups c ids) as [[]| |] eqn:E; simpl; try discriminate.
  destruct (nodupb (concat ids)) eqn:En; simpl; [|discriminate].
  destruct (Nat.eqb_spec (length (filter is_qpd c)) (list_sum (map (@length nat) ids))) as [H|]; [|discriminate].
  intros _. destruct (validate_groups_ok c ids E) as [Hg Hl].
  repeat split; [exact Hg|now rewrite <- list_sum_length_concat|now apply nodupb_NoDup|exact Hl].
Qed.

Lemma validate_ok c ids :
  validate c ids = Ok tt -> Forall (good_group c) ids /\ length (filter is_qpd c) = length (concat ids).
Proof. intros H. destruct (validate_ok_full c ids H) as (H1 & H2 & _). auto. Qed.

Lemma validate_ok_parts c ids :
  validate c ids = Ok tt ->
  NoDup (concat ids) /\ (forall g p, In g ids -> In p g -> qpd2_at c p -> length g = 1).
Proof. intros H. destruct (validate_ok_full c ids H) as (_ & _ & H3 & H4). split; [exact H3|]. intros g p Hg. now apply H4. Qed.

Lemma validate_members_nocrash c b0 pair g :
  (forall p, In p g -> p < length c) -> validate_members c b0 pair g <> Crashed.
Proof.
  induction g as [|a g IH]; simpl; intros H; [discriminate|].
  destruct (nth_error c a) as [i|] eqn:E.
  - destruct (basis_of i); [|discriminate]. destruct (Nat.eqb b0 n); [|discriminate].
    destruct (pair && is_qpd2 i); [discriminate|]. apply IH; auto.
  - apply nth_error_None in E. specialize (H a (or_introl eq_refl)). lia.
Qed.

Lemma validate_group_nocrash c g : (forall p, In p g -> p < length c) -> validate_group c g <> Crashed.
Proof.
  unfold validate_group; intros H.
  destruct (negb _); [discriminate|]. destruct g as [|p0 r]; [discriminate|].
  destruct (nth_error c p0) as [i|] eqn:E.
  - destruct (basis_of i); [|discriminate]. now apply validate_members_nocrash.
  - apply nth_error_None in E. specialize (H p0 (or_introl eq_refl)). lia.
Qed.

Lemma validate_nocrash c ids : ids_in_range c ids -> validate c ids <> Crashed.
Proof.
  unfold validate, ids_in_range. intros H.
  assert (Hg : validate_groups c ids <> Crashed).
  { induction ids as [|g ids IH]; simpl; [discriminate|].
    pose proof (validate_group_nocrash c g (fun p Hp => H g p (or_introl eq_refl) Hp)) as Hn.
    destruct (validate_group c g) as [[]| |]; simpl; try discriminate; [|congruence].
    apply IH. intros g' p Hg' Hp. apply (H g' p); auto. now right. }
  destruct (validate_groups c ids) as [[]| |]; simpl; try discriminate; [|congruence].
  destruct (negb _); [discriminate|]. destruct (Nat.eqb _ _); discriminate.
Qed.

(* every refusal class of the validation at once *)
Lemma validate_refuses c ids :
  ids_in_range c ids -> ~ well_formed c ids -> validate c ids = Refused.
Proof.
  intros Hr Hn. pose proof (validate_nocrash c ids Hr) as Hc.
  destruct (validate c ids) as [[]| |] eqn:E; [|reflexivity|congruence].
  exfalso. apply Hn. now apply validate_ok_full.
Qed.

(* completeness of the validation: semantic well-formedness is accepted *)
Lemma validate_members_complete c b pair g :
  (forall p, In p g -> placeholder_with c b p) -> (pair = true -> forall p, In p g -> ~ qpd2_at c p) ->
  validate_members c b pair g = Ok tt.
Proof.
  induction g as [|a g IH]; simpl; intros H Hp; [reflexivity|].
  destruct (H a (or_introl eq_refl)) as (i & Hi & Hb). rewrite Hi, Hb, Nat.eqb_refl.
  assert (pair && is_qpd2 i = false) as ->.
  { destruct pair; [|reflexivity]. simpl. destruct (is_qpd2 i) eqn:Eq; [|reflexivity].
    exfalso. apply (Hp eq_refl a (or_introl eq_refl)). exists i; auto. }
  apply IH; auto.
Qed.

Lemma validate_complete c ids : well_formed c ids -> validate c ids = Ok tt.
Proof.
  intros (Hg & Hc & Hd & Hl). unfold validate.
  assert (H : validate_groups c ids = Ok tt).
  { clear Hc Hd. induction Hg as [|g ids (Hlen & b & Hb) _ IH]; simpl; [reflexivity|].
    assert (Hv : validate_group c g = Ok tt).
    { unfold validate_group.
      assert (El : Nat.eqb (length g) 1 || Nat.eqb (length g) 2 = true)
        by (destruct Hlen as [->| ->]; reflexivity).
      rewrite El; simpl. destruct g as [|p0 r]; [simpl in Hlen; lia|].
      destruct (Hb p0 (or_introl eq_refl)) as (i & -> & ->).
      apply validate_members_complete; [exact Hb|].
      intros E2 p Hp Hq. apply Nat.eqb_eq in E2.
      pose proof (Hl (p0 :: r) (or_introl eq_refl) p Hp Hq) as H1. lia. }
    rewrite Hv; simpl. apply IH. intros g' Hg'. apply Hl. now right. }
  rewrite H; simpl. rewrite (NoDup_nodupb _ Hd). simpl.
  rewrite list_sum_length_concat, Hc. now rewrite Nat.eqb_refl.
Qed.

(* ====================================================================== *)
(* G. assigning the map choice                                             *)
(* ====================================================================== *)

(* the map id a data index ends up with: the LAST group containing it wins *)
Fixpoint chosen {M} (gm : list (list nat * M)) (p : nat) : option M :=
  match gm with
  | [] => None
  | (g, m) :: r => match chosen r p with
                   | Some m' => Some m'
                   | None => if existsb (Nat.eqb p) g then Some m else None
                   end
  end.

Definition assign_gm (c : circ) (gm : list (list nat * Z)) : circ :=
  mapi_from 0 (fun p ins => match chosen gm p with Some m => set_bid (Z.to_nat m) ins | None => ins end) c.

Definition assign (c : circ) (ids : list (list nat)) (maps : option (list Z)) : circ :=
  match maps with None => c | Some ms => assign_gm c (combine ids ms) end.

Definition setg (g : list nat) (m : nat) (c : circ) : circ :=
  mapi_from 0 (fun p ins => if existsb (Nat.eqb p) g then set_bid m ins else ins) c.

Definition in_range_b (env : benv) (c : circ) (p : nat) (m : Z) : bool :=
  match nth_error c p with
  | Some ins => match basis_of ins with
                | Some b => (Z.leb 0 m && Z.ltb m (Z.of_nat (length (nth b env []))))%bool
                | None => false
                end
  | None => false
  end.

Lemma set_bid_set_bid a b i : set_bid a (set_bid b i) = set_bid a i.
Proof. unfold set_bid; simpl. destruct (iop i); reflexivity. Qed.

Lemma basis_of_set_bid m i : basis_of (set_bid m i) = basis_of i.
Proof. unfold basis_of, set_bid; simpl. destruct (iop i); reflexivity. Qed.

Lemma is_qpd2_set_bid m i : is_qpd2 (set_bid m i) = is_qpd2 i.
Proof. unfold is_qpd2, set_bid; simpl. destruct (iop i); reflexivity. Qed.

Lemma is_qpd_set_bid m i : is_qpd (set_bid m i) = is_qpd i.
Proof. unfold is_qpd, set_bid; simpl. destruct (iop i); reflexivity. Qed.

Lemma is_marker_set_bid m i : is_marker (set_bid m i) = is_marker i.
Proof. unfold is_marker, set_bid; simpl. destruct (iop i); reflexivity. Qed.

Lemma set_bid_other m i : is_qpd i = false -> set_bid m i = i.
Proof. unfold is_qpd, set_bid. destruct i as [o qs cs]; simpl. destruct o; try discriminate; reflexivity. Qed.

Lemma in_range_b_ext env c c' m p :
  option_map basis_of (nth_error c' p) = option_map basis_of (nth_error c p) ->
  in_range_b env c' p m = in_range_b env c p m.
Proof.
  unfold in_range_b. destruct (nth_error c' p), (nth_error c p); simpl; intros H; try discriminate; auto.
  inversion H as [H1]. now rewrite H1.
Qed.

Lemma forallb_ext {A} (f g : A -> bool) l : (forall x, f x = g x) -> forallb f l = forallb g l.
Proof. intros H; induction l as [|x l IH]; simpl; [reflexivity|]. now rewrite H, IH. Qed.

Lemma setg_cons p r m c ins :
  nth_error c p = Some ins -> setg r m (upd c p (set_bid m ins)) = setg (p :: r) m c.
Proof.
  intros Hp. apply nth_error_ext. intros n. unfold setg. rewrite !nth_error_mapi. simpl.
  destruct (Nat.eq_dec p n) as [->|Hne].
  - rewrite nth_error_upd_same by (apply nth_error_Some; congruence).
    rewrite Hp, Nat.eqb_refl. simpl. destruct (existsb (Nat.eqb n) r); [now rewrite set_bid_set_bid|reflexivity].
  - rewrite nth_error_upd_other by assumption.
    destruct (Nat.eqb_spec n p); [congruence|]. reflexivity.
Qed.

Lemma assign_group_char env (m : Z) : forall g c,
  (forall p, In p g -> exists b, placeholder_with c b p) ->
  assign_group env c g m =
    if forallb (fun p => in_range_b env c p m) g then Ok (setg g (Z.to_nat m) c) else Refused.
Proof.
  induction g as [|p r IH]; intros c H; simpl.
  - unfold setg. rewrite mapi_id; auto.
  - destruct (H p (or_introl eq_refl)) as (b & ins & Hp & Hb).
    unfold assign1, in_range_b at 1. rewrite Hp, Hb.
    destruct (Z.leb 0 m && Z.ltb m (Z.of_nat (length (nth b env []))))%bool; simpl; [|reflexivity].
    assert (Hk : forall q, option_map basis_of (nth_error (upd c p (set_bid (Z.to_nat m) ins)) q) = option_map basis_of (nth_error c q)).
    { intros q. destruct (Nat.eq_dec p q) as [->|Hne].
      - rewrite nth_error_upd_same by (apply nth_error_Some; congruence). rewrite Hp; simpl. now rewrite basis_of_set_bid.
      - now rewrite nth_error_upd_other. }
    rewrite IH.
    + rewrite (forallb_ext _ (fun q => in_range_b env c q m)) by (intros q; apply in_range_b_ext, Hk).
      now rewrite (setg_cons p r (Z.to_nat m) c ins Hp).
    + intros q Hq. destruct (H q (or_intror Hq)) as (b' & i' & Hq1 & Hq2).
      exists b'. unfold placeholder_with. specialize (Hk q). rewrite Hq1 in Hk. simpl in Hk.
      destruct (nth_error (upd c p (set_bid (Z.to_nat m) ins)) q) as [i2|]; [|discriminate].
      exists i2. split; [reflexivity|]. simpl in Hk. congruence.
Qed.

Lemma assign_gm_cons g (m : Z) r c : assign_gm (setg g (Z.to_nat m) c) r = assign_gm c ((g, m) :: r).
Proof.
  apply nth_error_ext. intros n. unfold assign_gm, setg. rewrite !nth_error_mapi. simpl.
  destruct (nth_error c n) as [i|]; simpl; [|reflexivity].
  destruct (chosen r n) as [m'|].
  - destruct (existsb (Nat.eqb n) g); [now rewrite set_bid_set_bid|reflexivity].
  - destruct (existsb (Nat.eqb n) g); reflexivity.
Qed.

Definition maps_in_range (env : benv) (c : circ) (gm : list (list nat * Z)) : bool :=
  forallb (fun x => forallb (fun p => in_range_b env c p (snd x)) (fst x)) gm.

Lemma assign_loop_char env : forall gm c,
  (forall g m p, In (g, m) gm -> In p g -> exists b, placeholder_with c b p) ->
  assign_loop env c gm = if maps_in_range env c gm then Ok (assign_gm c gm) else Refused.
Proof.
  induction gm as [|[g m] r IH]; intros c H; simpl.
  - unfold assign_gm. rewrite mapi_id; auto.
  - rewrite assign_group_char by (intros p Hp; apply (H g m p); [now left|assumption]).
    destruct (forallb (fun p => in_range_b env c p m) g); simpl; [|reflexivity].
    assert (Hk : forall q, option_map basis_of (nth_error (setg g (Z.to_nat m) c) q) = option_map basis_of (nth_error c q)).
    { intros q. unfold setg. rewrite nth_error_mapi. destruct (nth_error c q); simpl; [|reflexivity].
      destruct (existsb _ g); [now rewrite basis_of_set_bid|reflexivity]. }
    rewrite IH.
    + unfold maps_in_range.
      rewrite (forallb_ext _ (fun x => forallb (fun p => in_range_b env c p (snd x)) (fst x))).
      * now rewrite assign_gm_cons.
      * intros x. apply forallb_ext. intros q. apply in_range_b_ext, Hk.
    + intros g' m' p Hin Hp. destruct (H g' m' p (or_intror Hin) Hp) as (b' & i' & Hq1 & Hq2).
      exists b'. unfold placeholder_with. specialize (Hk p). rewrite Hq1 in Hk. simpl in Hk.
      destruct (nth_error (setg g (Z.to_nat m) c) p) as [i2|]; [|discriminate].
      exists i2. split; [reflexivity|]. simpl in Hk. congruence.
Qed.

Lemma chosen_none {M} (gm : list (list nat * M)) p : ~ In p (concat (map fst gm)) -> chosen gm p = None.
Proof.
  induction gm as [|[g m] r IH]; simpl; intros H; [reflexivity|].
  rewrite IH by (intros Hr; apply H, in_or_app; now right).
  destruct (existsb (Nat.eqb p) g) eqn:E; [|reflexivity].
  exfalso. apply existsb_exists in E as (q & Hq & Eq). apply Nat.eqb_eq in Eq; subst q.
  apply H, in_or_app; now left.
Qed.

Lemma NoDup_app_disjoint {A} (a b : list A) x : NoDup (a ++ b) -> In x a -> ~ In x b.
Proof.
  induction a as [|y a IH]; simpl; intros Hd Hin; [contradiction|].
  inversion Hd as [|? ? Hn Hd']; subst. destruct Hin as [->|Hin]; [|now apply IH].
  intros Hb. apply Hn, in_or_app; now right.
Qed.

Lemma NoDup_app_tail {A} (a b : list A) : NoDup (a ++ b) -> NoDup b.
Proof. induction a as [|y a IH]; simpl; intros H; [assumption|]. inversion H; auto. Qed.

(* with pairwise disjoint groups, "last group containing p" is "the group containing p" *)
Lemma chosen_unique {M} (gm : list (list nat * M)) g m p :
  NoDup (concat (map fst gm)) -> In (g, m) gm -> In p g -> chosen gm p = Some m.
Proof.
  induction gm as [|[g0 m0] r IH]; simpl; intros Hd Hin Hp; [contradiction|].
  destruct Hin as [E|Hin].
  - inversion E; subst g0 m0.
    rewrite chosen_none by (now apply (NoDup_app_disjoint g)).
    assert (existsb (Nat.eqb p) g = true) as -> by (apply existsb_exists; exists p; split; [assumption|apply Nat.eqb_refl]).
    reflexivity.
  - rewrite IH; auto. now apply NoDup_app_tail in Hd.
Qed.

Lemma map_fst_combine {A B} (l : list A) (l' : list B) : length l = length l' -> map fst (combine l l') = l.
Proof. revert l'; induction l as [|x l IH]; intros [|y l'] H; simpl in *; try lia; auto. f_equal; apply IH; lia. Qed.

Lemma in_combine_exists {A B} (l : list A) (l' : list B) x :
  length l = length l' -> In x l -> exists y, In (x, y) (combine l l').
Proof.
  revert l'; induction l as [|a l IH]; intros [|b l'] H Hin; simpl in *; try lia; try contradiction.
  destruct Hin as [->|Hin]; [exists b; now left|].
  destruct (IH l' ltac:(lia) Hin) as (y & Hy). exists y; now right.
Qed.

(* ====================================================================== *)
(* H. the declarative specification                                        *)
(* ====================================================================== *)

(* what stands at the place of one instruction after decomposition (before markers are numbered):
   a placeholder becomes the chosen map's sequence for its half on its qubit; a two-qubit placeholder
   becomes half 0 on its first qubit followed by half 1 on its second; anything else is kept *)
Definition splice (env : benv) (i : instr) : list instr :=
  match iop i with
  | Qpd2 b (Some m) _ =>
      let mp := nth m (nth b env []) ([], []) in
      ops_on (nth 0 (iqs i) 0) (fst mp) ++ ops_on (nth 1 (iqs i) 0) (snd mp)
  | Qpd1 b h (Some m) _ => ops_on (nth 0 (iqs i) 0) (half_seq h (nth m (nth b env []) ([], [])))
  | _ => [i]
  end.

Definition measures_numbered (nc : nat) (l : circ) : circ := measures_from nc l.

(* the result of the call: instruction list, size of the new final register *)
Definition spec (env : benv) (nc : nat) (c1 : circ) : circ * nat :=
  let s := flat_map (splice env) c1 in
  (measures_numbered nc s, Nat.max 1 (count_markers s)).

(* class invariant of BaseQPDGate: a set basis_id is in range *)
Definition wfb (env : benv) (i : instr) : bool :=
  match iop i with
  | Qpd2 b (Some m) _ | Qpd1 b _ (Some m) _ => Nat.ltb m (length (nth b env []))
  | _ => true
  end.
Definition goodb (env : benv) (i : instr) : bool := wfb env i && has_bid i.

Lemma splice_all_app env l1 l2 :
  splice_all env (l1 ++ l2) = res_bind (splice_all env l1) (fun s1 => res_map (app s1) (splice_all env l2)).
Proof.
  induction l1 as [|x l1 IH]; simpl.
  - destruct (splice_all env l2); reflexivity.
  - destruct (splice1 env x) as [s| |]; simpl; auto. rewrite IH.
    destruct (splice_all env l1) as [s1| |]; simpl; auto.
    destruct (splice_all env l2); simpl; auto. now rewrite app_assoc.
Qed.

Lemma definition_1q_in_range env b h m :
  m < length (nth b env []) ->
  definition_1q env b h m = Some (half_seq h (nth m (nth b env []) ([], []))).
Proof.
  intros H. unfold definition_1q, benv, basis in *.
  rewrite (nth_error_nth' _ ([], []) H). reflexivity.
Qed.

Lemma splice_all_split2_one env x :
  wfb env x = true ->
  splice_all env (split2 x) = if has_bid x then Ok (splice env x) else Crashed.
Proof.
  unfold wfb, has_bid, split2, halves, splice. destruct x as [o qs cs]; simpl.
  destruct o as [g|lb| | | | |b bid lb|b h bid lb| ]; intros Hw; try reflexivity.
  - destruct bid as [m|]; [|reflexivity]. apply Nat.ltb_lt in Hw.
    simpl. unfold splice1; simpl. rewrite !definition_1q_in_range by assumption. simpl.
    now rewrite app_nil_r.
  - destruct bid as [m|]; [|reflexivity]. apply Nat.ltb_lt in Hw.
    simpl. unfold splice1; simpl. rewrite definition_1q_in_range by assumption. simpl.
    now rewrite app_nil_r.
Qed.

Lemma splice_all_split2 env c :
  forallb (wfb env) c = true ->
  splice_all env (flat_map split2 c) = if forallb has_bid c then Ok (flat_map (splice env) c) else Crashed.
Proof.
  induction c as [|x c IH]; simpl; intros H; [reflexivity|].
  apply andb_prop in H as [Hx Hc]. rewrite splice_all_app, (splice_all_split2_one env x Hx), (IH Hc).
  destruct (has_bid x); simpl; [|reflexivity]. destruct (forallb has_bid c); reflexivity.
Qed.

(* ====================================================================== *)
(* I. which indices the first loop visits                                  *)
(* ====================================================================== *)

Lemma ids_2q_In c ids p :
  In p (ids_2q c ids) <-> In [p] ids /\ qpd2_at c p.
Proof.
  unfold qpd2_at. induction ids as [|g ids IH]; simpl; [tauto|].
  destruct g as [|p' [|q t]].
  - rewrite IH. split; [intros [H1 H2]; auto|intros [[H|H] H2]; [discriminate|auto]].
  - destruct (nth_error c p') as [i|] eqn:E.
    + destruct (is_qpd2 i) eqn:E2; simpl; rewrite IH.
      * split.
        -- intros [->|[H1 H2]]; [split; [now left|exists i; auto]|auto].
        -- intros [[H|H] H2]; [inversion H; now left|right; auto].
      * split; [intros [H1 H2]; auto|].
        intros [[H|H] H2]; [|auto]. inversion H; subst. destruct H2 as (i' & Hi & Hq). congruence.
    + rewrite IH. split; [intros [H1 H2]; auto|].
      intros [[H|H] H2]; [|auto]. inversion H; subst. destruct H2 as (i' & Hi & Hq). congruence.
  - rewrite IH. split; [intros [H1 H2]; auto|intros [[H|H] H2]; [discriminate|auto]].
Qed.

Lemma ids_2q_NoDup c ids : NoDup (concat ids) -> NoDup (ids_2q c ids).
Proof.
  induction ids as [|g ids IH]; simpl; intros Hd; [constructor|].
  assert (Hr : NoDup (ids_2q c ids)) by (apply IH; now apply NoDup_app_tail in Hd).
  destruct g as [|p' [|q t]]; auto.
  destruct (nth_error c p') as [i|]; auto. destruct (is_qpd2 i); auto.
  constructor; [|assumption]. intros Hin. apply ids_2q_In in Hin as [Hin _].
  simpl in Hd. inversion Hd as [|? ? Hn _]; subst. apply Hn.
  apply in_concat. exists [p']. split; [assumption|now left].
Qed.

Lemma ids_2q_ext c c' ids :
  (forall n, option_map is_qpd2 (nth_error c' n) = option_map is_qpd2 (nth_error c n)) ->
  ids_2q c' ids = ids_2q c ids.
Proof.
  intros H. induction ids as [|g ids IH]; simpl; [reflexivity|].
  destruct g as [|p [|q t]]; auto. specialize (H p).
  destruct (nth_error c' p), (nth_error c p); simpl in H; try discriminate; [|now rewrite IH].
  inversion H as [H1]. rewrite H1, IH. reflexivity.
Qed.

(* every placeholder is mentioned by a partition-like request (pigeonhole) *)
Lemma covered c ids :
  Forall (good_group c) ids -> NoDup (concat ids) ->
  length (filter is_qpd c) = length (concat ids) ->
  forall n x, nth_error c n = Some x -> is_qpd x = true -> In n (concat ids).
Proof.
  intros Hg Hd Hc n x Hn Hq.
  assert (Hincl : incl (concat ids) (positions is_qpd c)).
  { intros p Hp. apply in_concat in Hp as (g & Hgi & Hpg).
    rewrite Forall_forall in Hg. destruct (Hg g Hgi) as (_ & b & Hb).
    destruct (Hb p Hpg) as (i & Hi & Hbi). apply positions_In. exists i.
    rewrite Nat.sub_0_r. repeat split; [lia|assumption|]. now apply (basis_of_is_qpd i b). }
  assert (Hlen : length (positions is_qpd c) <= length (concat ids))
    by (unfold positions; rewrite positions_length; lia).
  apply (NoDup_length_incl Hd Hlen Hincl).
  apply positions_In. exists x. rewrite Nat.sub_0_r. repeat split; [lia|assumption|assumption].
Qed.

Lemma ids_2q_sorted c ids :
  Forall (good_group c) ids -> NoDup (concat ids) ->
  length (filter is_qpd c) = length (concat ids) ->
  (forall g p, In g ids -> In p g -> qpd2_at c p -> length g = 1) ->
  isort (ids_2q c ids) = positions is_qpd2 c.
Proof.
  intros Hg Hd Hc H2.
  apply sorted_lt_unique; [apply isort_sorted, ids_2q_NoDup, Hd|apply positions_sorted|].
  intros z. rewrite isort_In, ids_2q_In. unfold positions. rewrite positions_In, Nat.sub_0_r. split.
  - intros (_ & i & Hi & Hq). exists i. repeat split; [lia|assumption|assumption].
  - intros (i & _ & Hi & Hq). split; [|exists i; auto].
    pose proof (covered c ids Hg Hd Hc z i Hi (is_qpd2_is_qpd _ Hq)) as Hin.
    apply in_concat in Hin as (g & Hgi & Hzg).
    assert (Hl : length g = 1) by (apply (H2 g z Hgi Hzg); exists i; auto).
    destruct g as [|a [|? ?]]; simpl in Hl; try lia.
    destruct Hzg as [->|[]]. exact Hgi.
Qed.

(* ====================================================================== *)
(* J. the main theorems                                                    *)
(* ====================================================================== *)

(* a grouping of all placeholders into decompositions = a request the (repaired) validation accepts:
   groups of one or two indices, all placeholders, one basis per group, a two-qubit placeholder alone in its
   group, no index mentioned twice, every placeholder mentioned (c14_validate_characterised) *)
Definition valid_grouping (c : circ) (ids : list (list nat)) : Prop := validate c ids = Ok tt.

Lemma vg_parts c ids :
  valid_grouping c ids ->
  validate c ids = Ok tt /\ NoDup (concat ids) /\
  (forall g p, In g ids -> In p g -> qpd2_at c p -> length g = 1).
Proof. intros H. split; [exact H|]. now apply validate_ok_parts. Qed.

(* ... together with an in-range map choice per decomposition *)
Definition valid (env : benv) (c : circ) (ids : list (list nat)) (ms : list Z) : Prop :=
  valid_grouping c ids /\
  length ms = length ids /\
  (forall g m p, In (g, m) (combine ids ms) -> In p g -> in_range_b env c p m = true).

Lemma nth_error_map' {A B} (f : A -> B) l n : nth_error (map f l) n = option_map f (nth_error l n).
Proof. revert n; induction l as [|x l IH]; intros [|n]; simpl; auto. Qed.

Lemma positions_map {A} (f : A -> bool) l k : positions_from f k l = positions_from (fun b => b) k (map f l).
Proof. revert k; induction l as [|x l IH]; intros k; simpl; [reflexivity|]. now rewrite IH. Qed.

Lemma map_mapi {A B} (P : A -> B) (f : nat -> A -> A) l k :
  (forall j x, P (f j x) = P x) -> map P (mapi_from k f l) = map P l.
Proof. intros H; revert k; induction l as [|x l IH]; intros k; simpl; [reflexivity|]. now rewrite H, IH. Qed.

(* the two expansion loops and the marker pass, for any circuit c1 that has the placeholder
   kinds of a validly grouped c at the same places *)
Lemma expand_phases env c c1 nc ids :
  valid_grouping c ids ->
  map is_qpd2 c1 = map is_qpd2 c ->
  forallb (wfb env) c1 = true ->
  res_bind (expand_2q c1 ids) (fun c2 =>
  res_bind (expand_1q env c2) (fun c3 => Ok (decompose_measurements nc c3)))
  = if forallb has_bid c1 then Ok (spec env nc c1) else Crashed.
Proof.
  intros Hvg Hk Hw. destruct (vg_parts c ids Hvg) as (Hv & Hd & H2). apply validate_ok in Hv as (Hg & Hc).
  assert (Hids : ids_2q c1 ids = ids_2q c ids).
  { apply ids_2q_ext. intros n. now rewrite <- !nth_error_map', Hk. }
  assert (Hpos : positions is_qpd2 c1 = positions is_qpd2 c).
  { unfold positions. now rewrite (positions_map is_qpd2 c1), (positions_map is_qpd2 c), Hk. }
  unfold expand_2q. rewrite Hids, (ids_2q_sorted c ids Hg Hd Hc H2), <- Hpos.
  pose proof (loop_2q_spec c1 [] 0 0 eq_refl) as L2. cbn [app] in L2. unfold positions. rewrite L2.
  cbn [res_bind]. unfold expand_1q, positions.
  pose proof (loop_1q_spec env (flat_map split2 c1) [] 0 0%Z eq_refl) as L1. cbn [app] in L1. rewrite L1.
  rewrite (splice_all_split2 env c1 Hw).
  destruct (forallb has_bid c1); simpl; [|reflexivity].
  now rewrite decompose_measurements_spec.
Qed.

Lemma valid_members_placeholders c ids (ms : list Z) :
  Forall (good_group c) ids ->
  forall g m p, In (g, m) (combine ids ms) -> In p g -> exists b, placeholder_with c b p.
Proof.
  intros Hg g m p Hin Hp. apply in_combine_l in Hin. rewrite Forall_forall in Hg.
  destruct (Hg g Hin) as (_ & b & Hb). exists b. now apply Hb.
Qed.

Lemma all_some_map_Some {A} (l : list A) : all_some (map Some l) = Some l.
Proof. induction l as [|x l IH]; simpl; [reflexivity|]. now rewrite IH. Qed.

Lemma set_basis_ids_valid env c ids ms :
  valid env c ids ms -> set_basis_ids env c ids (Some (map Some ms)) = Ok (assign c ids (Some ms)).
Proof.
  intros (Hvg & Hl & Hr). destruct (vg_parts c ids Hvg) as (Hv & Hd & H2). apply validate_ok in Hv as (Hg & Hc).
  unfold set_basis_ids, assign. rewrite map_length, Hl, Nat.eqb_refl, all_some_map_Some. simpl.
  rewrite assign_loop_char by (apply valid_members_placeholders, Hg).
  assert (maps_in_range env c (combine ids ms) = true) as ->; [|reflexivity].
  unfold maps_in_range. apply forallb_forall. intros [g m] Hin. apply forallb_forall. intros p Hp.
  simpl. now apply (Hr g m p).
Qed.

Lemma assign_kinds c gm : map is_qpd2 (assign_gm c gm) = map is_qpd2 c.
Proof.
  unfold assign_gm. apply map_mapi. intros j x. destruct (chosen gm j); [apply is_qpd2_set_bid|reflexivity].
Qed.

Lemma goodb_set_bid env m x b :
  basis_of x = Some b -> m < length (nth b env []) -> goodb env (set_bid m x) = true.
Proof.
  unfold goodb, wfb, has_bid, basis_of, set_bid. destruct x as [o qs cs]; simpl.
  destruct o; try discriminate; intros E H; inversion E; subst; simpl; rewrite andb_true_r; now apply Nat.ltb_lt.
Qed.

Lemma goodb_other env x : is_qpd x = false -> goodb env x = true.
Proof. unfold goodb, wfb, has_bid, is_qpd. destruct (iop x); try discriminate; reflexivity. Qed.

(* after the assignment every placeholder carries an in-range basis_id *)
Lemma assign_good env c ids ms :
  valid env c ids ms -> Forall (fun x => goodb env x = true) (assign c ids (Some ms)).
Proof.
  intros (Hvg & Hl & Hr). destruct (vg_parts c ids Hvg) as (Hv & Hd & H2). apply validate_ok in Hv as (Hg & Hc).
  unfold assign, assign_gm. apply Forall_mapi. intros n x Hn. simpl.
  destruct (is_qpd x) eqn:Eq.
  - pose proof (covered c ids Hg Hd Hc n x Hn Eq) as Hin.
    apply in_concat in Hin as (g & Hgi & Hng).
    destruct (in_combine_exists ids ms g (eq_sym Hl) Hgi) as (m & Hgm).
    rewrite (chosen_unique (combine ids ms) g m n); auto.
    + specialize (Hr g m n Hgm Hng). unfold in_range_b in Hr. rewrite Hn in Hr.
      destruct (basis_of x) as [b|] eqn:Eb; [|discriminate].
      apply andb_prop in Hr as [Hr1 Hr2]. apply Z.leb_le in Hr1. apply Z.ltb_lt in Hr2.
      apply (goodb_set_bid env (Z.to_nat m) x b); [exact Eb|unfold benv, basis in *; lia].
    + rewrite map_fst_combine by auto. exact Hd.
  - destruct (chosen (combine ids ms) n); [rewrite set_bid_other by assumption|]; now apply goodb_other.
Qed.

Lemma Forall_goodb env l :
  Forall (fun x => goodb env x = true) l -> forallb (wfb env) l = true /\ forallb has_bid l = true.
Proof.
  intros H. split; apply forallb_forall; intros x Hx; rewrite Forall_forall in H; specialize (H x Hx);
    unfold goodb in H; apply andb_prop in H; tauto.
Qed.

(* _decompose_qpd_instructions on a circuit with the placeholder kinds of a validly grouped c *)
Lemma finish_spec env c c1 nc ids :
  valid_grouping c ids -> map is_qpd2 c1 = map is_qpd2 c -> forallb (wfb env) c1 = true ->
  finish env c1 nc ids = if forallb has_bid c1 then Ok (spec env nc c1) else Refused.
Proof.
  intros Hv Hk Hw. unfold finish. destruct (forallb has_bid c1) eqn:E; simpl; [|reflexivity].
  rewrite (expand_phases env c c1 nc ids Hv Hk Hw). now rewrite E.
Qed.

(* THE splice theorem *)
Theorem decompose_splice env c nc ids ms :
  valid env c ids ms ->
  decompose env c nc ids (Some (map Some ms)) = Ok (spec env nc (assign c ids (Some ms))).
Proof.
  intros Hv. pose proof Hv as (Hval & Hl & Hr).
  unfold decompose. rewrite Hval. cbn [res_bind]. rewrite (set_basis_ids_valid env c ids ms Hv). cbn [res_bind].
  destruct (Forall_goodb env _ (assign_good env c ids ms Hv)) as (Hw & Hb).
  rewrite (finish_spec env c (assign c ids (Some ms)) nc ids Hval (assign_kinds c (combine ids ms)) Hw).
  now rewrite Hb.
Qed.

(* map_ids omitted *)
Theorem decompose_omitted env c nc ids :
  valid_grouping c ids -> forallb (wfb env) c = true ->
  decompose env c nc ids None = if forallb has_bid c then Ok (spec env nc c) else Refused.
Proof.
  intros Hv Hw. unfold decompose. rewrite Hv. cbn [res_bind set_basis_ids].
  exact (finish_spec env c c nc ids Hv eq_refl Hw).
Qed.

(* the assignment, pointwise *)
Lemma assign_member env c ids ms g m p x :
  valid env c ids ms -> In (g, m) (combine ids ms) -> In p g -> nth_error c p = Some x ->
  nth_error (assign c ids (Some ms)) p = Some (set_bid (Z.to_nat m) x).
Proof.
  intros (Hvg & Hl & Hr) Hgm Hp Hx. destruct (vg_parts c ids Hvg) as (Hv & Hd & H2).
  unfold assign, assign_gm. rewrite nth_error_mapi, Hx. simpl.
  rewrite (chosen_unique (combine ids ms) g m p); auto. rewrite map_fst_combine by auto. exact Hd.
Qed.

Lemma assign_other c ids maps p x :
  nth_error c p = Some x -> is_qpd x = false -> nth_error (assign c ids maps) p = Some x.
Proof.
  intros Hx Hq. destruct maps as [ms|]; [|exact Hx].
  unfold assign, assign_gm. rewrite nth_error_mapi, Hx. simpl.
  destruct (chosen _ p); [now rewrite set_bid_other|reflexivity].
Qed.

(* ====================================================================== *)
(* K. corollaries of the splice theorem                                    *)
(* ====================================================================== *)

Lemma measures_from_In k s y :
  In y (measures_from k s) -> iop y = Measure \/ (In y s /\ is_marker y = false).
Proof.
  revert k; induction s as [|x s IH]; intros k; simpl; [tauto|].
  destruct (is_marker x) eqn:E; simpl; intros [<-|H].
  - now left.
  - destruct (IH _ H) as [H1|[H1 H2]]; [now left|right; auto].
  - right; auto.
  - destruct (IH _ H) as [H1|[H1 H2]]; [now left|right; auto].
Qed.

Lemma ops_on_clean q ops y : In y (ops_on q ops) -> is_qpd y = false.
Proof. unfold ops_on; intros H; apply in_map_iff in H as (o & <- & _). destruct o; reflexivity. Qed.

Lemma splice_clean env x y : goodb env x = true -> In y (splice env x) -> is_qpd y = false.
Proof.
  unfold goodb, wfb, has_bid, splice. destruct x as [o qs cs]; simpl.
  destruct o as [g|lb| | | | |b bid lb|b h bid lb| ]; simpl; intros H Hin;
    try (destruct Hin as [<-|[]]; reflexivity).
  - destruct bid as [m|]; [|rewrite andb_false_r in H; discriminate].
    apply in_app_or in Hin as [Hin|Hin]; eapply ops_on_clean; eauto.
  - destruct bid as [m|]; [|rewrite andb_false_r in H; discriminate].
    eapply ops_on_clean; eauto.
Qed.

Theorem no_placeholder env c nc ids ms out k :
  valid env c ids ms -> decompose env c nc ids (Some (map Some ms)) = Ok (out, k) ->
  forall y, In y out -> is_qpd y = false /\ is_marker y = false.
Proof.
  intros Hv H y Hy. rewrite (decompose_splice env c nc ids ms Hv) in H.
  unfold spec, measures_numbered in H. inversion H; subst out k; clear H.
  apply measures_from_In in Hy as [Hm|[Hin Hnm]].
  - unfold is_qpd, is_marker. now rewrite Hm.
  - split; [|assumption]. apply in_flat_map in Hin as (x & Hx & Hyx).
    pose proof (assign_good env c ids ms Hv) as Hg. rewrite Forall_forall in Hg.
    exact (splice_clean env x y (Hg x Hx) Hyx).
Qed.

(* --- the other instructions survive, in order --- *)
Definition is_other (x : instr) : bool := negb (is_qpd x) && negb (is_marker x).
Definition select {A} (mask : list bool) (l : list A) : list A := map fst (filter snd (combine l mask)).

Lemma combine_app {A B} (l1 l2 : list A) (m1 m2 : list B) :
  length m1 = length l1 -> combine (l1 ++ l2) (m1 ++ m2) = combine l1 m1 ++ combine l2 m2.
Proof. revert m1; induction l1 as [|x l1 IH]; intros [|y m1] H; simpl in *; try lia; auto. f_equal; apply IH; lia. Qed.

Lemma select_app {A} (m1 m2 : list bool) (l1 l2 : list A) :
  length m1 = length l1 -> select (m1 ++ m2) (l1 ++ l2) = select m1 l1 ++ select m2 l2.
Proof. intros H. unfold select. now rewrite combine_app, filter_app, map_app. Qed.

Lemma select_false {A} (l : list A) : select (repeat false (length l)) l = [].
Proof. unfold select. induction l as [|x l IH]; simpl; auto. Qed.

Lemma measures_from_length k s : length (measures_from k s) = length s.
Proof. revert k; induction s as [|x s IH]; intros k; simpl; [reflexivity|]. destruct (is_marker x); simpl; now rewrite IH. Qed.

Lemma measures_from_app k a b :
  measures_from k (a ++ b) = measures_from k a ++ measures_from (k + count_markers a) b.
Proof.
  revert k; induction a as [|x a IH]; intros k; simpl; [now rewrite Nat.add_0_r|].
  unfold count_markers. simpl. destruct (is_marker x) eqn:E; simpl; rewrite IH; unfold count_markers.
  - now rewrite Nat.add_succ_r.
  - reflexivity.
Qed.

Lemma splice_other env x : is_qpd x = false -> splice env x = [x].
Proof. unfold is_qpd, splice. destruct (iop x); try discriminate; reflexivity. Qed.

Definition keep_mask (env : benv) (c1 : circ) : list bool :=
  flat_map (fun x => if is_other x then [true] else repeat false (length (splice env x))) c1.

Lemma keep_mask_cons env x c1 :
  keep_mask env (x :: c1) =
  (if is_other x then [true] else repeat false (length (splice env x))) ++ keep_mask env c1.
Proof. reflexivity. Qed.

Lemma keep_mask_spec env c1 : forall k,
  length (keep_mask env c1) = length (measures_from k (flat_map (splice env) c1)) /\
  select (keep_mask env c1) (measures_from k (flat_map (splice env) c1)) = filter is_other c1.
Proof.
  induction c1 as [|x c1 IH]; intros k; [split; reflexivity|].
  rewrite keep_mask_cons. cbn [flat_map filter].
  rewrite measures_from_app. destruct (IH (k + count_markers (splice env x))) as [IHl IHs].
  destruct (is_other x) eqn:E.
  - unfold is_other in E. apply andb_prop in E as [E1 E2]. apply negb_true_iff in E1, E2.
    rewrite (splice_other env x E1) in *.
    assert (Hm : measures_from k [x] = [x]) by (simpl; now rewrite E2).
    rewrite Hm. split.
    + rewrite !app_length, IHl. reflexivity.
    + rewrite select_app by reflexivity. rewrite IHs. reflexivity.
  - split.
    + rewrite !app_length, repeat_length, measures_from_length. now rewrite IHl.
    + rewrite select_app by (now rewrite repeat_length, measures_from_length).
      rewrite <- (measures_from_length k (splice env x)), select_false. simpl. exact IHs.
Qed.

Lemma assign_others c ids maps : filter is_other (assign c ids maps) = filter is_other c.
Proof.
  destruct maps as [ms|]; [|reflexivity]. unfold assign, assign_gm. apply filter_mapi.
  - intros j x H. unfold is_other in H. apply andb_prop in H as [H _]. apply negb_true_iff in H.
    destruct (chosen _ j); [now apply set_bid_other|reflexivity].
  - intros j x. destruct (chosen _ j); [|reflexivity]. unfold is_other. now rewrite is_qpd_set_bid, is_marker_set_bid.
Qed.

Theorem others_in_order env c nc ids ms out k :
  valid env c ids ms -> decompose env c nc ids (Some (map Some ms)) = Ok (out, k) ->
  exists mask, length mask = length out /\ select mask out = filter is_other c.
Proof.
  intros Hv H. rewrite (decompose_splice env c nc ids ms Hv) in H.
  unfold spec, measures_numbered in H. inversion H; subst out k; clear H.
  exists (keep_mask env (assign c ids (Some ms))).
  destruct (keep_mask_spec env (assign c ids (Some ms)) nc) as [Hl Hs].
  split; [exact Hl|]. etransitivity; [exact Hs|apply assign_others].
Qed.

(* --- measurement bits --- *)
Lemma measures_from_nth k s j :
  nth_error (measures_from k s) j =
  option_map (fun x => if is_marker x then mkI Measure (iqs x) [k + count_markers (firstn j s)] else x) (nth_error s j).
Proof.
  revert k j; induction s as [|a s IH]; intros k [|j]; simpl; auto.
  - destruct (is_marker a); simpl; [|reflexivity]. unfold count_markers; simpl. now rewrite Nat.add_0_r.
  - unfold count_markers in *. simpl. destruct (is_marker a) eqn:E; simpl; rewrite IH;
      destruct (nth_error s j) as [x|]; simpl; try reflexivity;
      destruct (is_marker x); try reflexivity; repeat f_equal; lia.
Qed.

Lemma marker_bits k s :
  flat_map ics (select (map is_marker s) (measures_from k s)) = seq k (count_markers s).
Proof.
  revert k; induction s as [|a s IH]; intros k; [reflexivity|].
  unfold select, count_markers in *. simpl. destruct (is_marker a) eqn:E; simpl.
  - f_equal. apply IH.
  - apply IH.
Qed.

(* ====================================================================== *)
(* L. refusals                                                             *)
(* ====================================================================== *)

Theorem refuse_invalid env c nc ids maps :
  ids_in_range c ids -> ~ well_formed c ids -> decompose env c nc ids maps = Refused.
Proof. intros Hr Hn. unfold decompose. now rewrite (validate_refuses c ids Hr Hn). Qed.

Theorem refuse_length env c nc ids maps g :
  ids_in_range c ids -> In g ids -> length g <> 1 -> length g <> 2 ->
  decompose env c nc ids maps = Refused.
Proof.
  intros Hr Hg H1 H2. apply refuse_invalid; [assumption|]. intros [HF _].
  rewrite Forall_forall in HF. destruct (HF g Hg) as [[H|H] _]; congruence.
Qed.

Theorem refuse_non_placeholder env c nc ids maps g p :
  ids_in_range c ids -> In g ids -> In p g ->
  (forall x, nth_error c p = Some x -> is_qpd x = false) ->
  decompose env c nc ids maps = Refused.
Proof.
  intros Hr Hg Hp Hx. apply refuse_invalid; [assumption|]. intros [HF _].
  rewrite Forall_forall in HF. destruct (HF g Hg) as (_ & b & Hb).
  destruct (Hb p Hp) as (i & Hi & Hbi). apply basis_of_is_qpd in Hbi. rewrite (Hx i Hi) in Hbi. discriminate.
Qed.

Theorem refuse_differing_bases env c nc ids maps g p q b b' :
  ids_in_range c ids -> In g ids -> In p g -> In q g ->
  placeholder_with c b p -> placeholder_with c b' q -> b <> b' ->
  decompose env c nc ids maps = Refused.
Proof.
  intros Hr Hg Hp Hq (i & Hi & Hbi) (i' & Hi' & Hbi') Hne. apply refuse_invalid; [assumption|]. intros [HF _].
  rewrite Forall_forall in HF. destruct (HF g Hg) as (_ & b0 & Hb).
  destruct (Hb p Hp) as (j & Hj & Hbj). destruct (Hb q Hq) as (j' & Hj' & Hbj'). congruence.
Qed.

Theorem refuse_count env c nc ids maps :
  ids_in_range c ids -> length (concat ids) <> length (filter is_qpd c) ->
  decompose env c nc ids maps = Refused.
Proof. intros Hr Hn. apply refuse_invalid; [assumption|]. intros (_ & H & _). congruence. Qed.

(* an instruction index mentioned twice, inside one group or across groups *)
Theorem refuse_repeated_index env c nc ids maps :
  ids_in_range c ids -> ~ NoDup (concat ids) -> decompose env c nc ids maps = Refused.
Proof. intros Hr Hn. apply refuse_invalid; [assumption|]. intros (_ & _ & H & _). contradiction. Qed.

(* a two-qubit placeholder grouped with another index *)
Theorem refuse_2q_in_pair env c nc ids maps g p :
  ids_in_range c ids -> In g ids -> In p g -> qpd2_at c p -> length g <> 1 ->
  decompose env c nc ids maps = Refused.
Proof.
  intros Hr Hg Hp Hq Hl. apply refuse_invalid; [assumption|]. intros (_ & _ & _ & H). apply Hl. exact (H g Hg p Hp Hq).
Qed.

Theorem refuse_maps_length env c nc ids (mos : list (option Z)) :
  ids_in_range c ids -> length mos <> length ids ->
  decompose env c nc ids (Some mos) = Refused.
Proof.
  intros Hr Hn. unfold decompose. pose proof (validate_nocrash c ids Hr) as Hc.
  destruct (validate c ids) as [[]| |]; [|reflexivity|congruence].
  cbn [res_bind set_basis_ids]. destruct (Nat.eqb_spec (length ids) (length mos)); [congruence|reflexivity].
Qed.

Lemma all_some_In {A B} (ids : list B) (mos : list (option A)) ms g m :
  all_some mos = Some ms -> In (g, Some m) (combine ids mos) -> In (g, m) (combine ids ms).
Proof.
  revert ids ms; induction mos as [|[x|] mos IH]; intros [|g0 ids] ms H Hin; simpl in *; try contradiction; try discriminate.
  destruct (all_some mos) as [ms'|] eqn:E; [|discriminate]. inversion H; subst ms. simpl.
  destruct Hin as [Hin|Hin]; [inversion Hin; now left|right; now apply IH].
Qed.

Lemma all_some_None {A} (mos : list (option A)) : In None mos -> all_some mos = None.
Proof.
  induction mos as [|[x|] mos IH]; simpl; intros H; [contradiction| |reflexivity].
  destruct H as [H|H]; [discriminate|]. now rewrite IH.
Qed.

(* a None entry in map_ids *)
Theorem refuse_map_none env c nc ids (mos : list (option Z)) :
  ids_in_range c ids -> In None mos -> decompose env c nc ids (Some mos) = Refused.
Proof.
  intros Hr Hn. unfold decompose. pose proof (validate_nocrash c ids Hr) as Hc.
  destruct (validate c ids) as [[]| |]; [|reflexivity|congruence].
  cbn [res_bind set_basis_ids]. destruct (negb _); [reflexivity|]. now rewrite (all_some_None mos Hn).
Qed.

Theorem refuse_map_out_of_range env c nc ids (mos : list (option Z)) g m p :
  ids_in_range c ids -> In (g, Some m) (combine ids mos) -> In p g -> in_range_b env c p m = false ->
  decompose env c nc ids (Some mos) = Refused.
Proof.
  intros Hr Hgm Hp Hf. unfold decompose. pose proof (validate_nocrash c ids Hr) as Hc.
  destruct (validate c ids) as [[]| |] eqn:Ev; [|reflexivity|congruence].
  apply validate_ok in Ev as (Hg & _).
  cbn [res_bind set_basis_ids]. destruct (negb (Nat.eqb (length ids) (length mos))); [reflexivity|].
  destruct (all_some mos) as [ms|] eqn:Ea; [|reflexivity].
  pose proof (all_some_In ids mos ms g m Ea Hgm) as Hgm'.
  rewrite assign_loop_char by (apply valid_members_placeholders, Hg).
  destruct (maps_in_range env c (combine ids ms)) eqn:E; [|reflexivity].
  unfold maps_in_range in E. rewrite forallb_forall in E. specialize (E (g, m) Hgm'). simpl in E.
  rewrite forallb_forall in E. specialize (E p Hp). congruence.
Qed.

(* ====================================================================== *)
(* M. boolean validity check (used by the non-vacuity examples)            *)
(* ====================================================================== *)

Definition groupingb (c : circ) (ids : list (list nat)) : bool :=
  match validate c ids with Ok _ => true | _ => false end.

Definition validb (env : benv) (c : circ) (ids : list (list nat)) (ms : list Z) : bool :=
  groupingb c ids && Nat.eqb (length ms) (length ids) && maps_in_range env c (combine ids ms).

Lemma groupingb_sound c ids : groupingb c ids = true -> valid_grouping c ids.
Proof. unfold groupingb, valid_grouping. destruct (validate c ids) as [[]| |]; try discriminate; reflexivity. Qed.

Lemma validb_sound env c ids ms : validb env c ids ms = true -> valid env c ids ms.
Proof.
  unfold validb. intros H. apply andb_prop in H as [H H3]. apply andb_prop in H as [H1 H2].
  split; [now apply groupingb_sound|split; [now apply Nat.eqb_eq|]].
  intros g m p Hgm Hp. unfold maps_in_range in H3. rewrite forallb_forall in H3. specialize (H3 (g, m) Hgm).
  simpl in H3. rewrite forallb_forall in H3. now apply H3.
Qed.

(* ====================================================================== *)
(* N. measurement bits of the result                                       *)
(* ====================================================================== *)

Theorem measure_bits env c nc ids ms out k :
  valid env c ids ms -> decompose env c nc ids (Some (map Some ms)) = Ok (out, k) ->
  let s := flat_map (splice env) (assign c ids (Some ms)) in
  k = Nat.max 1 (count_markers s) /\
  length out = length s /\
  (forall j, nth_error out j =
     option_map (fun x => if is_marker x then mkI Measure (iqs x) [nc + count_markers (firstn j s)] else x)
                (nth_error s j)) /\
  flat_map ics (select (map is_marker s) out) = seq nc (count_markers s).
Proof.
  intros Hv H s. rewrite (decompose_splice env c nc ids ms Hv) in H.
  unfold spec, measures_numbered in H. fold s in H. inversion H; subst out k; clear H.
  split; [reflexivity|]. split; [apply measures_from_length|]. split; [intros j; apply measures_from_nth|apply marker_bits].
Qed.

Theorem omitted_never_crashes env c nc ids :
  valid_grouping c ids -> forallb (wfb env) c = true -> decompose env c nc ids None <> Crashed.
Proof. intros Hv Hw. rewrite (decompose_omitted env c nc ids Hv Hw). destruct (forallb has_bid c); discriminate. Qed.

(* ====================================================================== *)
(* O. the basis_id setter establishes the class invariant wfb              *)
(* ====================================================================== *)

Theorem setter_spec env b m :
  (setter env b m = Ok tt <-> (0 <= m < Z.of_nat (length (nth b env [])))%Z) /\
  (setter env b m <> Ok tt -> setter env b m = Refused).
Proof.
  unfold setter, bid_in_range. split.
  - destruct (Z.leb_spec 0 m) as [Ha|Ha], (Z.ltb_spec m (Z.of_nat (length (nth b env [])))) as [Hb|Hb]; simpl;
      split; intros Hx; try reflexivity; try discriminate; lia.
  - destruct (_ && _)%bool; [congruence|reflexivity].
Qed.

Theorem setter_wfb env b h m l qs cs :
  setter env b (Z.of_nat m) = Ok tt <-> wfb env (mkI (Qpd1 b h (Some m) l) qs cs) = true.
Proof.
  rewrite (proj1 (setter_spec env b (Z.of_nat m))). unfold wfb; simpl. rewrite Nat.ltb_lt.
  unfold benv, basis in *. lia.
Qed.

(* ====================================================================== *)
(* P. totality: every request with indices inside the circuit is decided   *)
(* ====================================================================== *)

Lemma chosen_Some_in {M} (gm : list (list nat * M)) p m :
  chosen gm p = Some m -> exists g, In (g, m) gm /\ In p g.
Proof.
  induction gm as [|[g0 m0] r IH]; simpl; [discriminate|].
  destruct (chosen r p) as [m1|] eqn:E; intros H.
  - inversion H; subst m1. destruct (IH eq_refl) as (g & Hin & Hp). exists g; split; [now right|assumption].
  - destruct (existsb (Nat.eqb p) g0) eqn:Ex; [|discriminate]. inversion H; subst m0.
    apply existsb_exists in Ex as (q & Hq & Eq). apply Nat.eqb_eq in Eq; subst q.
    exists g0; split; [now left|assumption].
Qed.

Lemma assign_wfb env c gm :
  forallb (wfb env) c = true -> maps_in_range env c gm = true -> forallb (wfb env) (assign_gm c gm) = true.
Proof.
  intros Hw Hm. apply forallb_forall. intros x Hx. apply In_nth_error in Hx as (n & Hn).
  unfold assign_gm in Hn. rewrite nth_error_mapi in Hn. simpl in Hn.
  destruct (nth_error c n) as [y|] eqn:Ey; [|discriminate]. simpl in Hn. inversion Hn; subst x; clear Hn.
  rewrite forallb_forall in Hw. pose proof (Hw y (nth_error_In _ _ Ey)) as Hy.
  destruct (chosen gm n) as [m|] eqn:Ec; [|exact Hy].
  destruct (chosen_Some_in gm n m Ec) as (g & Hgm & Hng).
  unfold maps_in_range in Hm. rewrite forallb_forall in Hm. specialize (Hm (g, m) Hgm). simpl in Hm.
  rewrite forallb_forall in Hm. specialize (Hm n Hng). unfold in_range_b in Hm. rewrite Ey in Hm.
  destruct (basis_of y) as [b|] eqn:Eb; [|discriminate].
  apply andb_prop in Hm as [H1 H2]. apply Z.leb_le in H1. apply Z.ltb_lt in H2.
  assert (Hg : goodb env (set_bid (Z.to_nat m) y) = true)
    by (apply (goodb_set_bid env (Z.to_nat m) y b); [exact Eb|unfold benv, basis in *; lia]).
  unfold goodb in Hg. now apply andb_prop in Hg as [Hg _].
Qed.

(* the circuit whose placeholders carry the basis_ids the decomposition uses *)
Definition assigned (c : circ) (ids : list (list nat)) (maps : option (list (option Z))) : circ :=
  match maps with
  | None => c
  | Some mos => match all_some mos with Some ms => assign_gm c (combine ids ms) | None => c end
  end.

(* the decision: grouping accepted, map choice complete and in range, every placeholder has a basis_id *)
Definition accepts (env : benv) (c : circ) (ids : list (list nat)) (maps : option (list (option Z))) : bool :=
  groupingb c ids &&
  match maps with
  | None => true
  | Some mos => Nat.eqb (length ids) (length mos) &&
                match all_some mos with Some ms => maps_in_range env c (combine ids ms) | None => false end
  end &&
  forallb has_bid (assigned c ids maps).

Theorem decompose_decided env c nc ids maps :
  ids_in_range c ids -> forallb (wfb env) c = true ->
  decompose env c nc ids maps =
  if accepts env c ids maps then Ok (spec env nc (assigned c ids maps)) else Refused.
Proof.
  intros Hr Hw. unfold decompose, accepts, groupingb. pose proof (validate_nocrash c ids Hr) as Hc.
  destruct (validate c ids) as [[]| |] eqn:Ev; [|reflexivity|congruence].
  cbn [res_bind andb]. destruct maps as [mos|]; unfold set_basis_ids, assigned.
  - destruct (Nat.eqb (length ids) (length mos)); cbn [negb andb]; [|reflexivity].
    destruct (all_some mos) as [ms|] eqn:Ea; [|reflexivity].
    pose proof (validate_ok c ids Ev) as (Hg & _).
    rewrite assign_loop_char by (apply valid_members_placeholders, Hg).
    destruct (maps_in_range env c (combine ids ms)) eqn:Em; cbn [res_bind andb]; [|reflexivity].
    exact (finish_spec env c (assign_gm c (combine ids ms)) nc ids Ev (assign_kinds c _) (assign_wfb env c _ Hw Em)).
  - cbn [res_bind andb]. exact (finish_spec env c c nc ids Ev eq_refl Hw).
Qed.

Theorem decompose_never_crashes env c nc ids maps :
  ids_in_range c ids -> forallb (wfb env) c = true -> decompose env c nc ids maps <> Crashed.
Proof. intros Hr Hw. rewrite (decompose_decided env c nc ids maps Hr Hw). destruct (accepts _ _ _ _); discriminate. Qed.

(* Proofs/BasesP.v — exactness of the modelled QPD bases, by reflection:
   a boolean matrix comparison over a computable ring (vm_compute) + the evaluation
   homomorphism into R (Common/PolyRing.v, Common/Ptm.v) gives the identity of real
   16x16 Pauli-transfer matrices for ALL real parameter values. *)
From Coq Require Import String List Bool Arith QArith Qreals Reals Lra.
From CKT Require Import Common.Base Common.PolyRing Common.Ptm Model.Bases.
Import ListNotations.
Close Scope Q_scope.
Open Scope string_scope.
Open Scope list_scope.

Definition nou {A} : nat -> list (list A) := fun _ => [].
Definition RC (th : R) : Coef R := RCoef (envK th).

(* ---------- homomorphisms for the further rings ---------- *)
Lemma CoefHomR_ext {A} (C : Coef A) f env env' :
  (forall n, env n = env' n) -> CoefHomR C f env -> CoefHomR C f env'.
Proof. intros E [H HQ HV]. split; auto. intros n. now rewrite <- E. Qed.

Definition zenv : nat -> R := fun _ => 0%R.
Definition evalQR : Q * Q -> R := eeval Q2R (/ sqrt 2).
Definition envQR : nat -> R := upd_env zenv vR (/ sqrt 2).
Lemma QR_hom : CoefHomR QR evalQR envQR.
Proof.
  destruct Q2R_consts as (q0 & q1 & qm1 & qh).
  unfold QR, evalQR, envQR. apply with_var_hom.
  - apply ext_coef_hom; [exact QCoef_hom|]. rewrite qh. apply inv_sqrt2_sq.
  - unfold eeval; simpl. rewrite q0, q1. lra.
Qed.

Lemma add_indet_hom {A} (C : Coef A) f env n x :
  CoefHomR C f env -> CoefHomR (add_indet C n) (peval f x) (upd_env env n x).
Proof.
  intros H. unfold add_indet. apply with_var_hom; [now apply poly_coef_hom|].
  destruct H as [[[f0 f1 _ _ _] _] _ _]. simpl in *. rewrite f0, f1. lra.
Qed.

Lemma add_circle_hom {A} (C : Coef A) f env vc vs t :
  CoefHomR C f env ->
  CoefHomR (add_circle C vc vs) (eeval (peval f (cos t)) (sin t)) (upd_env (upd_env env vc (cos t)) vs (sin t)).
Proof.
  intros H. unfold add_circle. pose proof (add_indet_hom C f env vc (cos t) H) as HP.
  set (P := add_indet C vc) in *. set (g := peval f (cos t)) in *.
  assert (gX : g (cvar P vc) = cos t).
  { rewrite (ch_var _ _ _ HP). unfold upd_env. now rewrite Nat.eqb_refl. }
  pose proof (hr_hom _ _ (ch_hom _ _ _ HP)) as [g0 g1 gadd gmul gopp].
  apply with_var_hom.
  - apply ext_coef_hom; [exact HP|].
    rewrite gadd, gopp, gmul, g1, gX. cbn [RRing radd ropp rmul r1]. pose proof (sin2_cos2 t) as E. unfold Rsqr in E. lra.
  - unfold eeval; simpl fst; simpl snd.
    change [r1 C] with (r1 P). rewrite g1. change (@nil A) with (r0 P). rewrite g0. cbn [RRing r0 r1]. lra.
Qed.

(* --- Q[r][c8], c8 = cos(π/8): c8² = (1+r)/2, sin(π/8) = (2r-1)·c8 --- *)
Definition d8 : Q * Q := ((1 # 2)%Q, (1 # 2)%Q).
Definition K8b : Coef ((Q * Q) * (Q * Q)) := with_var (ext_coef QR d8) vC ((0%Q, 0%Q), (1%Q, 0%Q)).
Definition K8 (pos : bool) : Coef ((Q * Q) * (Q * Q)) :=
  with_var K8b vS ((0%Q, 0%Q), if pos then ((-1)%Q, 2%Q) else (1%Q, (-2)%Q)).
Definition eval8 : (Q * Q) * (Q * Q) -> R := eeval evalQR (cos (PI / 8)).

Lemma cos_PI8_sq : (cos (PI / 8) * cos (PI / 8))%R = ((1 + / sqrt 2) / 2)%R.
Proof.
  pose proof (cos_2a_cos (PI / 8)) as E.
  replace (2 * (PI / 8))%R with (PI / 4)%R in E by lra.
  rewrite cos_PI4 in E. lra.
Qed.
Lemma cos_PI8_pos : (0 < cos (PI / 8))%R.
Proof. pose proof PI_RGT_0. apply cos_gt_0; lra. Qed.
Lemma sin_PI8 : sin (PI / 8) = ((2 * / sqrt 2 - 1) * cos (PI / 8))%R.
Proof.
  pose proof (sin_2a (PI / 8)) as E.
  replace (2 * (PI / 8))%R with (PI / 4)%R in E by lra.
  rewrite sin_PI4 in E. pose proof cos_PI8_sq as C2. pose proof cos_PI8_pos as Cp.
  pose proof inv_sqrt2_sq as R2.
  set (c := cos (PI / 8)) in *. set (s := sin (PI / 8)) in *. set (r := (/ sqrt 2)%R) in *.
  apply Rmult_eq_reg_l with (2 * c)%R; [|apply Rgt_not_eq; lra].
  transitivity r; [unfold r; lra|]. symmetry.
  replace (2 * c * ((2 * r - 1) * c))%R with ((2 * r - 1) * (2 * (c * c)))%R by ring.
  rewrite C2. replace ((2 * r - 1) * (2 * ((1 + r) / 2)))%R with (2 * (r * r) + r - 1)%R by field.
  rewrite R2. lra.
Qed.

Lemma K8_hom (pos : bool) :
  CoefHomR (K8 pos) eval8 (envK (if pos then PI / 8 else - (PI / 8))).
Proof.
  destruct Q2R_consts as (q0 & q1 & qm1 & qh).
  set (th := (if pos then PI / 8 else - (PI / 8))%R).
  apply CoefHomR_ext with (env := upd_env (upd_env envQR vC (cos th)) vS (sin th)).
  { intros [|[|[|n]]]; reflexivity. }
  unfold K8. apply with_var_hom.
  - unfold K8b. apply with_var_hom.
    + apply ext_coef_hom; [exact QR_hom|]. rewrite cos_PI8_sq. unfold evalQR, eeval, d8; simpl. rewrite qh. lra.
    + unfold eval8, evalQR, eeval; simpl. rewrite q0, q1. unfold th. destruct pos; [|rewrite cos_neg]; lra.
  - unfold eval8, evalQR, eeval, th. destruct pos; simpl; [|rewrite sin_neg]; rewrite sin_PI8, ?q0, ?q1, ?qm1.
    + replace (Q2R 2) with 2%R by (unfold Q2R; simpl; lra). lra.
    + replace (Q2R (-2)) with (-2)%R by (unfold Q2R; simpl; lra). lra.
Qed.

(* --- eight free real parameters (the components of u), over Q[r] --- *)
Definition KU1 := add_indet QR 10. Definition KU2 := add_indet KU1 11. Definition KU3 := add_indet KU2 12.
Definition KU4 := add_indet KU3 13. Definition KU5 := add_indet KU4 14. Definition KU6 := add_indet KU5 15.
Definition KU7 := add_indet KU6 16. Definition KU := add_indet KU7 17.
Definition evalU (x0 x1 x2 x3 x4 x5 x6 x7 : R) :=
  peval (peval (peval (peval (peval (peval (peval (peval evalQR x0) x1) x2) x3) x4) x5) x6) x7.
Definition envU (x0 x1 x2 x3 x4 x5 x6 x7 : R) : nat -> R :=
  upd_env (upd_env (upd_env (upd_env (upd_env (upd_env (upd_env (upd_env envQR 10 x0) 11 x1) 12 x2) 13 x3) 14 x4) 15 x5) 16 x6) 17 x7.
Lemma KU_hom x0 x1 x2 x3 x4 x5 x6 x7 :
  CoefHomR KU (evalU x0 x1 x2 x3 x4 x5 x6 x7) (envU x0 x1 x2 x3 x4 x5 x6 x7).
Proof. unfold KU, KU7, KU6, KU5, KU4, KU3, KU2, KU1, evalU, envU. repeat apply add_indet_hom. exact QR_hom. Qed.

(* --- three points of the unit circle (Weyl coordinates), over Q[r] --- *)
Definition K3 := add_circle (add_circle (add_circle QR vCa vSa) vCb vSb) vCc vSc.
Definition eval3 (a b c : R) :=
  eeval (peval (eeval (peval (eeval (peval evalQR (cos a)) (sin a)) (cos b)) (sin b)) (cos c)) (sin c).
Definition env3 (a b c : R) : nat -> R :=
  upd_env (upd_env (upd_env (upd_env (upd_env (upd_env envQR vCa (cos a)) vSa (sin a)) vCb (cos b)) vSb (sin b)) vCc (cos c)) vSc (sin c).
Lemma K3_hom a b c : CoefHomR K3 (eval3 a b c) (env3 a b c).
Proof. unfold K3, eval3, env3. repeat apply add_circle_hom. exact QR_hom. Qed.

(* ---------- complex-matrix reflection ---------- *)
Lemma cmeqb_sound {A} (C : Coef A) f (Hf : HomR C f) (M N : list (list (A * A))) :
  meqb (CxRing C) M N = true -> mmap (emap f) M = mmap (emap f) N.
Proof.
  unfold meqb, mmap. revert N; induction M as [|m M IH]; intros [|n N]; simpl; try discriminate; auto.
  intros E. apply andb_prop in E as [E1 E2]. f_equal; [|now apply IH].
  clear IH E2. revert n E1; induction m as [|a m IHm]; intros [|b n]; simpl; try discriminate; auto.
  intros E. apply andb_prop in E as [E1 E2]. f_equal; [|now apply IHm].
  unfold eeqb in E1. apply andb_prop in E1 as [Ea Eb]. unfold emap.
  now rewrite (hr_eqb _ _ Hf _ _ Ea), (hr_eqb _ _ Hf _ _ Eb).
Qed.

Section CxHom.
  Context {A : Type} (C : Coef A) (f : A -> R) (env : nat -> R).
  Hypothesis H : CoefHomR C f env.
  Let Hh := chh _ _ _ (CoefHomR_CHom _ _ _ H).
  Let Hc : Hom (CxRing C) (CxRing (RCoef env)) (emap f) := cx_hom _ _ _ Hh.
  Let He := ceval_hom C f env H.
  Lemma emap_cxeval z : emap f (cxeval C z) = cxeval (RCoef env) z.
  Proof. unfold emap, cxeval; simpl. now rewrite !He. Qed.
  Lemma mmap_cmeval M : mmap (emap f) (cmeval C M) = cmeval (RCoef env) M.
  Proof.
    unfold cmeval, mmap. rewrite map_map. apply map_ext. intros row. rewrite map_map. apply map_ext.
    exact emap_cxeval.
  Qed.
  Lemma mmap_weyl_factor vc vs P :
    mmap (emap f) (weyl_factor C vc vs P) = weyl_factor (RCoef env) vc vs P.
  Proof.
    unfold weyl_factor.
    now rewrite (mmap_madd _ _ _ Hc), !(mmap_mscale _ _ _ Hc), !mmap_cmeval, !emap_cxeval.
  Qed.
  Lemma mmap_Uweyl : mmap (emap f) (Uweyl C) = Uweyl (RCoef env).
  Proof. unfold Uweyl. now rewrite !(mmap_mmul _ _ _ Hc), !mmap_weyl_factor. Qed.
End CxHom.

(* ---------- the reflexive checks ---------- *)
Definition chk_tab {A} (C : Coef A) (tab : list (string * list (list cxe))) : bool :=
  forallb (fun gU => meqb C (channel C nou (basis_terms (fst gU))) (ptm_unitary2 C (snd gU))) tab.

Definition family_table : list (string * list (list cxe)) :=
  [("rxx", U_rxx); ("ryy", U_ryy); ("rzz", U_rzz); ("crx", U_crx); ("cry", U_cry); ("crz", U_crz); ("cp", U_cp)].
Definition fixed_table : list (string * list (list cxe)) :=
  [("cx", U_cx); ("cy", U_cy); ("cz", U_cz); ("ch", U_ch); ("ecr", U_ecr);
   ("swap", U_swap); ("iswap", U_iswap); ("dcx", U_dcx)].
Definition fixed8p_table : list (string * list (list cxe)) := [("cs", U_cs); ("csx", U_csx)].
Definition fixed8m_table : list (string * list (list cxe)) := [("csdg", U_csdg); ("csxdg", U_csxdg)].

Lemma family_keq : chk_tab K family_table = true.
Proof. vm_cast_no_check (eq_refl true). Qed.
Lemma fixed_keq : chk_tab K fixed_table = true.
Proof. vm_cast_no_check (eq_refl true). Qed.
Lemma fixed8p_keq : chk_tab (K8 true) fixed8p_table = true.
Proof. vm_cast_no_check (eq_refl true). Qed.
Lemma fixed8m_keq : chk_tab (K8 false) fixed8m_table = true.
Proof. vm_cast_no_check (eq_refl true). Qed.
Lemma move_keq : meqb K (channel K nou (basis_terms "move")) (ptm_move K) = true.
Proof. vm_cast_no_check (eq_refl true). Qed.
Lemma nonlocal_keq :
  meqb KU (channel KU nou (resolve (nonlocal_basis uvars))) (ptm_unitary2 KU (A_of_u uvars)) = true.
Proof. vm_cast_no_check (eq_refl true). Qed.
Lemma thetavec_keq : meqb (CxRing K3) (cmeval K3 (A_of_u u_from_thetavec)) (Uweyl K3) = true.
Proof. vm_cast_no_check (eq_refl true). Qed.

Lemma chk_tab_sound {A} (C : Coef A) f env (H : CoefHomR C f env) tab :
  chk_tab C tab = true ->
  forall g U, In (g, U) tab ->
    channel (RCoef env) nou (basis_terms g) = ptm_unitary2 (RCoef env) U.
Proof.
  intros E g U HIn. unfold chk_tab in E. rewrite forallb_forall in E. specialize (E _ HIn). simpl in E.
  exact (reflect_channel C f env H nou (basis_terms g) [(z1, U)] E).
Qed.

(* ---------- the statements over R ---------- *)
Lemma family_exact : forall g U, In (g, U) family_table ->
  forall th : R, channel (RC th) nou (basis_terms g) = ptm_unitary2 (RC th) U.
Proof. intros g U HIn th. exact (chk_tab_sound K _ _ (evalK_hom th) _ family_keq g U HIn). Qed.

Lemma fixed_exact : forall g U, In (g, U) fixed_table ->
  forall th : R, channel (RC th) nou (basis_terms g) = ptm_unitary2 (RC th) U.
Proof. intros g U HIn th. exact (chk_tab_sound K _ _ (evalK_hom th) _ fixed_keq g U HIn). Qed.

Lemma fixed8p_exact : forall g U, In (g, U) fixed8p_table ->
  channel (RC (PI / 8)) nou (basis_terms g) = ptm_unitary2 (RC (PI / 8)) U.
Proof. intros g U HIn. exact (chk_tab_sound (K8 true) _ _ (K8_hom true) _ fixed8p_keq g U HIn). Qed.

Lemma fixed8m_exact : forall g U, In (g, U) fixed8m_table ->
  channel (RC (- (PI / 8))) nou (basis_terms g) = ptm_unitary2 (RC (- (PI / 8))) U.
Proof. intros g U HIn. exact (chk_tab_sound (K8 false) _ _ (K8_hom false) _ fixed8m_keq g U HIn). Qed.

Lemma move_exact : forall th : R, channel (RC th) nou (basis_terms "move") = ptm_move (RC th).
Proof.
  intros th. exact (reflect_channel K _ _ (evalK_hom th) nou (basis_terms "move") move_kraus move_keq).
Qed.

Lemma nonlocal_exact : forall x0 x1 x2 x3 x4 x5 x6 x7 : R,
  let C := RCoef (envU x0 x1 x2 x3 x4 x5 x6 x7) in
  channel C nou (resolve (nonlocal_basis uvars)) = ptm_unitary2 C (A_of_u uvars).
Proof.
  intros. exact (reflect_channel KU _ _ (KU_hom x0 x1 x2 x3 x4 x5 x6 x7) nou _ [(z1, A_of_u uvars)] nonlocal_keq).
Qed.

Lemma thetavec_exact : forall a b c : R,
  cmeval (RCoef (env3 a b c)) (A_of_u u_from_thetavec) = Uweyl (RCoef (env3 a b c)).
Proof.
  intros a b c. pose proof (K3_hom a b c) as H.
  rewrite <- (mmap_cmeval K3 _ _ H), <- (mmap_Uweyl K3 _ _ H).
  apply (cmeqb_sound K3 _ (ch_hom _ _ _ H)). exact thetavec_keq.
Qed.

(* ---------- sanity of the specifications themselves ---------- *)
(* RY(±π/4) is the only PTM written by hand; over Q[r][cos π/8] it equals the PTM of its unitary *)
Lemma ry_quarter_ok :
  meqb (K8 true) (ptm_op (K8 true) nou (ORY QuartPiP)) (ptm_op (K8 true) nou (ORY Th2P)) = true /\
  meqb (K8 false) (ptm_op (K8 false) nou (ORY QuartPiM)) (ptm_op (K8 false) nou (ORY Th2P)) = true.
Proof. split; vm_cast_no_check (eq_refl true). Qed.
(* Move as it is defined (reset of qubit 1, then swap) has the Kraus operators written in Ptm.v *)
Lemma move_as_defined :
  meqb K (mmul K (ptm_unitary2 K U_swap) (kron K (ptm_op K nou OReset) (ident K 4))) (ptm_move K) = true.
Proof. vm_cast_no_check (eq_refl true). Qed.
(* the hand-written rotation PTMs agree with the unitaries *)
Lemma direct_rotations_ok :
  forallb (fun a => meqb K (mmap (ceval K) (let '(c, s) := full_cs a in rx_direct c s)) (ptm_op K nou (ORX a))
                 && meqb K (mmap (ceval K) (let '(c, s) := full_cs a in ry_direct c s)) (ptm_op K nou (ORY a))
                 && meqb K (mmap (ceval K) (let '(c, s) := full_cs a in rz_direct c s)) (ptm_op K nou (ORZ a))
                 && meqb K (ptm_op K nou (OP a)) (ptm_op K nou (ORZ a)))
          [Th2P; Th2M; HalfPiP; HalfPiM] = true.
Proof. vm_cast_no_check (eq_refl true). Qed.

(* ---------- refusal and registry ---------- *)
Lemma refusal_unregistered : forall g,
  ~ In (g_name g) registered -> (g_is_gate g && Nat.eqb (g_nq g) 2 = false) -> basis_of g = Refused.
Proof.
  intros g HN Hg. unfold basis_of.
  repeat match goal with
  | |- context [String.eqb (g_name g) ?s] =>
      destruct (String.eqb_spec (g_name g) s) as [E|_];
      [exfalso; apply HN; rewrite E; unfold registered; simpl; repeat (first [left; reflexivity | right])|]
  end.
  now rewrite Hg.
Qed.
Lemma refusal_unbound : forall g,
  In (g_name g) ["rxx"; "ryy"; "rzz"; "crx"; "cry"; "crz"; "cp"] -> g_has_param g = true -> g_param_ok g = false ->
  basis_of g = Refused.
Proof.
  intros g HIn Hh Hp. unfold basis_of, theta_guard. simpl in HIn.
  repeat destruct HIn as [E|HIn]; try (rewrite <- E; simpl; now rewrite Hh, Hp). contradiction.
Qed.
(* a gate carrying a parameterised registered name but no parameter: gate.params[0] raises IndexError *)
Lemma crash_missing_param : forall g,
  In (g_name g) ["rxx"; "ryy"; "rzz"; "crx"; "cry"; "crz"; "cp"] -> g_has_param g = false -> basis_of g = Crashed.
Proof.
  intros g HIn Hh. unfold basis_of, theta_guard. simpl in HIn.
  repeat destruct HIn as [E|HIn]; try (rewrite <- E; simpl; now rewrite Hh). contradiction.
Qed.
Lemma refusal_matrix : forall g,
  ~ In (g_name g) registered -> g_matrix_ok g = false -> basis_of g = Refused.
Proof.
  intros g HN Hm. unfold basis_of.
  repeat match goal with
  | |- context [String.eqb (g_name g) ?s] =>
      destruct (String.eqb_spec (g_name g) s) as [E|_];
      [exfalso; apply HN; rewrite E; unfold registered; simpl; repeat (first [left; reflexivity | right])|]
  end.
  rewrite Hm. now destruct (g_is_gate g && Nat.eqb (g_nq g) 2).
Qed.
Lemma accepted_otherwise : forall g,
  (In (g_name g) ["rxx"; "ryy"; "rzz"; "crx"; "cry"; "crz"; "cp"] -> g_has_param g = true /\ g_param_ok g = true) ->
  (~ In (g_name g) registered -> g_is_gate g = true /\ g_nq g = 2 /\ g_matrix_ok g = true) ->
  exists b, basis_of g = Ok b.
Proof.
  intros g H1 H2. unfold basis_of, theta_guard.
  repeat match goal with
  | |- context [String.eqb (g_name g) ?s] =>
      destruct (String.eqb_spec (g_name g) s) as [E|?];
      [try (destruct H1 as [Ha Hb]; [rewrite E; simpl; repeat (first [left; reflexivity | right])|rewrite Ha, Hb]);
       eexists; reflexivity|]
  end.
  destruct H2 as (Ha & Hb & Hc).
  { unfold registered; simpl. intros HH.
    repeat match goal with Hn : g_name g <> _ |- _ => revert Hn end. clear - HH. intuition congruence. }
  rewrite Ha, Hb, Hc. simpl. eexists; reflexivity.
Qed.

(* Proofs/WeightsCount.v — number of entries and sum of the weights of the returned dictionary. *)
From Coq Require Import QArith Qabs Qround Lia ZifyBool Lqa Permutation.
From CKT Require Import Common.Base Extracted.Facts Model.Weights.
From CKT Require Import Proofs.WeightsP Proofs.WeightsDfs Proofs.WeightsGen Proofs.WeightsTab Proofs.WeightsSum.
Open Scope Q_scope.

Definition wsum (d : wdict) : Q := qsum (map (fun e => fst (snd e)) d).

Lemma qsum_app a b : qsum (a ++ b) == qsum a + qsum b.
Proof. induction a as [|x a IH]; simpl; [ring|rewrite IH; ring]. Qed.

Lemma wsum_app a b : wsum (a ++ b) == wsum a + wsum b.
Proof. unfold wsum. rewrite map_app. apply qsum_app. Qed.

Lemma NoDup_app_intro {A} (l1 l2 : list A) :
  NoDup l1 -> NoDup l2 -> (forall x, In x l1 -> ~ In x l2) -> NoDup (l1 ++ l2).
Proof.
  induction l1 as [|x l1 IH]; simpl; intros N1 N2 D; auto.
  inversion N1; subst. constructor.
  - rewrite in_app_iff. intros [H|H]; [contradiction|]. apply (D x); auto.
  - apply IH; auto.
Qed.

Lemma NoDup_app_inv {A} (l1 l2 : list A) : NoDup (l1 ++ l2) ->
  NoDup l1 /\ NoDup l2 /\ forall x, In x l1 -> ~ In x l2.
Proof.
  induction l1 as [|x l1 IH]; simpl; intros N.
  - repeat split; auto. constructor.
  - inversion N as [|? ? Hx N']; subst. destruct (IH N') as [HA [HB C]].
    repeat split; auto.
    + constructor; auto. intros H. apply Hx. apply in_app_iff. now left.
    + intros y [<-|I]; [intros H; apply Hx; apply in_app_iff; now right|now apply C].
Qed.

Lemma notin_dget_None {V} (d : list (key * V)) k : ~ In k (map fst d) -> dget d k = None.
Proof.
  induction d as [|[k' v] d IH]; simpl; auto. intros H.
  destruct (key_eqb k k') eqn:E; [apply key_eqb_eq in E; subst; exfalso; apply H; now left|].
  apply IH. intros I. apply H. now right.
Qed.

(* a fold that conditionally sets pairwise distinct fresh keys just appends *)
Lemma fold_dset_fresh {A} (kf : A -> key) (vf : A -> Q * wtype) (keep : A -> bool) :
  forall l d0, NoDup (map fst d0 ++ map kf l) ->
  fold_left (fun d a => if keep a then dset d (kf a) (vf a) else d) l d0
  = d0 ++ map (fun a => (kf a, vf a)) (filter keep l).
Proof.
  induction l as [|a l IH]; intros d0 N; simpl; [now rewrite app_nil_r|].
  simpl in N. destruct (NoDup_app_inv _ _ N) as [N1 [N2 D]].
  destruct (keep a) eqn:K.
  - rewrite dset_fresh.
    + rewrite IH.
      * simpl. now rewrite <- app_assoc.
      * rewrite map_app, <- app_assoc. simpl. exact N.
    + apply notin_dget_None. intros I. apply (D _ I). now left.
  - apply IH. apply NoDup_app_intro; auto.
    + now inversion N2.
    + intros x I J. apply (D x I). now right.
Qed.

(* ---------- sums over the cartesian product ---------- *)
Definition qsumf {A} (f : A -> Q) (l : list A) : Q := qsum (map f l).

Lemma qsumf_app {A} (f : A -> Q) a b : qsumf f (a ++ b) == qsumf f a + qsumf f b.
Proof. unfold qsumf. rewrite map_app. apply qsum_app. Qed.

Lemma qsumf_scale {A} (f : A -> Q) c l : qsumf (fun x => c * f x) l == c * qsumf f l.
Proof. unfold qsumf. induction l as [|x l IH]; simpl; [ring|rewrite IH; ring]. Qed.

Lemma qsumf_ext {A} (f g : A -> Q) l : (forall x, In x l -> f x == g x) -> qsumf f l == qsumf g l.
Proof.
  unfold qsumf. induction l as [|x l IH]; intros H; simpl; [reflexivity|].
  rewrite (H x) by now left. rewrite IH; [reflexivity|]. intros; apply H; now right.
Qed.

Lemma qsumf_map {A B} (f : B -> Q) (g : A -> B) l : qsumf f (map g l) = qsumf (fun x => f (g x)) l.
Proof. unfold qsumf. now rewrite map_map. Qed.

Lemma qsumf_flat_map {A B} (f : B -> Q) (g : A -> list B) l :
  qsumf f (flat_map g l) == qsumf (fun a => qsumf f (g a)) l.
Proof.
  induction l as [|a l IH]; simpl; [reflexivity|].
  rewrite qsumf_app, IH. unfold qsumf. simpl. reflexivity.
Qed.

Lemma qsumf_seq_nth (v : list Q) : forall a, qsumf (fun i => nth (i - a) v 0) (seq a (length v)) == qsum v.
Proof.
  induction v as [|x v IH]; intros a; simpl; [reflexivity|].
  unfold qsumf in *. simpl. replace (a - a)%nat with 0%nat by lia.
  rewrite <- (IH (S a)). apply Qplus_comp; [reflexivity|].
  apply (qsumf_ext (fun i => match (i - a)%nat with O => x | S m => nth m v 0 end) (fun i => nth (i - S a) v 0)).
  intros i I. apply in_seq in I. replace (i - a)%nat with (S (i - S a)) by lia. reflexivity.
Qed.

Lemma cart_sum probs : qsumf (jointp probs) (cart (map (@length Q) probs)) == qprod (map qsum probs).
Proof.
  induction probs as [|v r IH]; simpl.
  - unfold qsumf. simpl. ring.
  - rewrite qsumf_flat_map.
    rewrite (qsumf_ext _ (fun i => nth (i - 0) v 0 * qprod (map qsum r))).
    + rewrite (qsumf_ext _ (fun i => qprod (map qsum r) * nth (i - 0) v 0)) by (intros; ring).
      rewrite qsumf_scale, qsumf_seq_nth. ring.
    + intros i _. rewrite qsumf_map. rewrite Nat.sub_0_r.
      rewrite (qsumf_ext _ (fun c => nth i v 0 * jointp r c)) by (intros; reflexivity).
      rewrite qsumf_scale, IH. reflexivity.
Qed.

Lemma NoDup_cart dims : NoDup (cart dims).
Proof.
  induction dims as [|n r IH]; simpl; [constructor; [tauto|constructor]|].
  assert (forall a, NoDup (flat_map (fun i => map (cons i) (cart r)) (seq a n)) /\
                    forall k, In k (flat_map (fun i => map (cons i) (cart r)) (seq a n)) ->
                              exists i c, k = i :: c /\ (a <= i)%nat) as G.
  { induction n as [|n IHn]; intros a; simpl; [split; [constructor|tauto]|].
    destruct (IHn (S a)) as [N B]. split.
    - apply NoDup_app_intro; auto.
      + apply FinFun.Injective_map_NoDup; auto. intros x y E. now inversion E.
      + intros k I J. apply in_map_iff in I. destruct I as [c [<- _]].
        destruct (B _ J) as [i [c' [E L]]]. inversion E. lia.
    - intros k I. apply in_app_iff in I. destruct I as [I|I].
      + apply in_map_iff in I. destruct I as [c [<- _]]. exists a, c. split; auto.
      + destruct (B _ I) as [i [c [E L]]]. exists i, c. split; auto. lia. }
  apply G.
Qed.

Lemma qsumf_filter_split {A} (f : A -> Q) (keep : A -> bool) l :
  qsumf f l == qsumf f (filter keep l) + qsumf f (filter (fun x => negb (keep x)) l).
Proof.
  unfold qsumf. induction l as [|x l IH]; simpl; [ring|].
  destruct (keep x); simpl; rewrite IH; ring.
Qed.

Lemma fold_left_ext {A B} (f g : A -> B -> A) : (forall d a, f d a = g d a) ->
  forall l d, fold_left f l d = fold_left g l d.
Proof. intros E l; induction l as [|a l IH]; intros d; simpl; [reflexivity|]. now rewrite E, IH. Qed.

Lemma all_exact_list probs m :
  all_exact probs m =
  map (fun ids => (ids, (m * jointp probs ids, EXACT)))
      (filter (fun ids => negb (Qltb (jointp probs ids) nonzero_atol)) (cart (map (@length Q) probs))).
Proof.
  unfold all_exact.
  rewrite (fold_left_ext _ (fun d ids => if negb (Qltb (jointp probs ids) nonzero_atol)
                                          then dset d ids (m * jointp probs ids, EXACT) else d)).
  - rewrite (fold_dset_fresh (fun ids : key => ids) (fun ids => (m * jointp probs ids, EXACT))).
    + reflexivity.
    + simpl. rewrite map_id. apply NoDup_cart.
  - intros d a. cbv zeta. destruct (Qltb (jointp probs a) nonzero_atol); reflexivity.
Qed.

(* ---------- the full yields: distinct keys, each at least the threshold ---------- *)
Fixpoint fulls (ys : list yield) : list (key * Q) :=
  match ys with
  | [] => []
  | YFull s p :: r => (s, p) :: fulls r
  | YCond _ _ :: r => fulls r
  end.

Lemma fulls_app a b : fulls (a ++ b) = fulls a ++ fulls b.
Proof. induction a as [|[s p|s v] a IH]; simpl; congruence. Qed.

Lemma fulls_In ys s p : In (s, p) (fulls ys) <-> In (YFull s p) ys.
Proof.
  induction ys as [|[s' p'|s' v] ys IH]; simpl; [tauto| |].
  - rewrite IH. split; intros [E|I]; auto; left; congruence.
  - rewrite IH. split; [auto|intros [E|I]; [discriminate|auto]].
Qed.

Lemma ymass_fulls ys : ymass ys == qsumf snd (fulls ys).
Proof. unfold qsumf. induction ys as [|[s p|s v] ys IH]; simpl; try rewrite IH; reflexivity. Qed.

Lemma nfull_fulls ys : nfull ys = length (fulls ys).
Proof. induction ys as [|[s p|s v] ys IH]; simpl; lia. Qed.

Lemma kids_nodup thr node prefix rp rest :
  (forall pf r y, In y (fst (node pf r)) -> under pf rest y) ->
  (forall pf r, NoDup (map fst (fulls (fst (node pf r))))) ->
  forall l i, NoDup (map fst (fulls (fst (fst (kids thr node prefix rp i l))))).
Proof.
  intros Hu Hn l; induction l as [|p l' IH]; intros i; [simpl; constructor|].
  rewrite kids_cons. destruct (Qltb (rp * p) thr); [simpl; constructor|].
  pose proof (Hn (prefix ++ [i]) (rp * p)) as N1. pose proof (Hu (prefix ++ [i]) (rp * p)) as U1.
  destruct (node (prefix ++ [i]) (rp * p)) as [ys s] eqn:En. cbn [fst] in N1, U1.
  pose proof (IH (S i)) as N2.
  pose proof (kids_under thr node prefix rp rest Hu l' (S i)) as U2.
  destruct (kids thr node prefix rp (S i) l') as [[ys' tab] fnd] eqn:Ek. cbn [fst] in N2, U2.
  assert (NoDup (map fst (fulls (ys ++ ys')))) as G.
  { rewrite fulls_app, map_app. apply NoDup_app_intro; auto.
    intros k I J. apply in_map_iff in I. destruct I as [[k1 p1] [E1 I1]]. simpl in E1; subst k1.
    apply in_map_iff in J. destruct J as [[k2 p2] [E2 I2]]. simpl in E2; subst k2.
    apply fulls_In in I1. apply fulls_In in I2.
    destruct (U1 _ I1) as [c [E1 _]]. destruct (U2 _ I2) as [j [c' [R [E2 _]]]]. simpl in E1, E2.
    rewrite E1, <- app_assoc in E2. apply app_inv_head in E2. simpl in E2. inversion E2. lia. }
  destruct s; simpl; exact G.
Qed.

Lemma finish_fulls prefix ys tab fnd : fulls (fst (finish prefix (ys, tab, fnd))) = fulls ys.
Proof.
  unfold finish. destruct fnd; [|reflexivity]. destruct prefix; cbn [fst]; rewrite fulls_app; simpl.
  - now rewrite app_nil_r.
  - destruct (Qeq_bool _ 0); simpl; now rewrite app_nil_r.
Qed.

Lemma node_nodup thr bases : forall pf r, NoDup (map fst (fulls (fst (dfs_node thr bases pf r)))).
Proof.
  induction bases as [|cur rest IH]; intros pf r.
  - simpl. constructor; [tauto|constructor].
  - rewrite dfs_node_cons.
    pose proof (kids_nodup thr (dfs_node thr rest) pf r rest (node_under thr rest) IH cur 0%nat) as K.
    destruct (kids thr (dfs_node thr rest) pf r 0%nat cur) as [[ys tab] fnd]. cbn [fst] in K.
    now rewrite finish_fulls.
Qed.

Lemma node_full_thr thr bases pf r : thr <= r ->
  Forall (fun sp => thr <= snd sp) (fulls (fst (dfs_node thr bases pf r))).
Proof.
  intros T. rewrite Forall_forall. intros [s p] I. apply fulls_In in I.
  pose proof (node_full thr bases pf r _ T I) as F. simpl in F. destruct F as [c [_ [_ [_ [_ Tp]]]]]. exact Tp.
Qed.

(* ---------- through the permutation wrapper ---------- *)
Lemma unperm_inj probs : forall perms c c', sorting_perms_b probs perms = true ->
  idx_ok (sorted_probs probs perms) c -> idx_ok (sorted_probs probs perms) c' -> length c = length c' ->
  unperm_state perms c = unperm_state perms c' -> c = c'.
Proof.
  induction probs as [|v rv IH]; intros [|p rp] c c' H O O' L E; simpl in H; try discriminate.
  - destruct c, c'; simpl in *; try tauto; discriminate.
  - apply andb_prop in H as [H1 H2].
    change (sorted_probs (v :: rv) (p :: rp)) with (apply_perm p v :: sorted_probs rv rp) in *.
    destruct c as [|i c], c' as [|i' c']; try discriminate; auto.
    simpl in O, O', L. destruct O as [Hi O], O' as [Hi' O']. rewrite apply_perm_length in Hi, Hi'.
    change (unperm_state (p :: rp) (i :: c)) with (nth i p 0%nat :: unperm_state rp c) in E.
    change (unperm_state (p :: rp) (i' :: c')) with (nth i' p 0%nat :: unperm_state rp c') in E.
    inversion E as [[E1 E2]].
    destruct (sorting_perm_facts _ _ H1) as [Lp [Sp _]].
    destruct (perm_facts2 v p Lp Sp) as [ND _].
    f_equal.
    + apply (proj1 (NoDup_nth p 0%nat) ND); auto.
    + apply (IH rp); auto; lia.
Qed.

Lemma NoDup_map_inj_on {A B} (f : A -> B) l :
  (forall x y, In x l -> In y l -> f x = f y -> x = y) -> NoDup l -> NoDup (map f l).
Proof.
  induction l as [|a l IH]; intros Inj N; simpl; [constructor|].
  inversion N; subst. constructor.
  - intros I. apply in_map_iff in I. destruct I as [y [E Iy]].
    assert (y = a) by (apply Inj; [now right|now left|exact E]). subst. contradiction.
  - apply IH; auto. intros x y Ix Iy. apply Inj; now right.
Qed.

Lemma fulls_unperm perms ys :
  fulls (map (unperm_yield perms) ys) = map (fun sp => (unperm_state perms (fst sp), snd sp)) (fulls ys).
Proof. induction ys as [|[s p|s v] ys IH]; simpl; congruence. Qed.

Lemma gen_unsorted_fulls probs perms thr : sorting_perms_b probs perms = true -> thr <= 1 ->
  NoDup (map fst (fulls (gen_unsorted probs perms thr))) /\
  Forall (fun sp => thr <= snd sp) (fulls (gen_unsorted probs perms thr)) /\
  ymass (gen_unsorted probs perms thr) == ymass (dfs_spec (sorted_probs probs perms) thr).
Proof.
  intros S T. unfold gen_unsorted. rewrite fulls_unperm. split; [|split].
  - rewrite map_map. simpl.
    rewrite <- (map_map fst (unperm_state perms)).
    apply NoDup_map_inj_on; [|apply node_nodup].
    intros k k' I I' E.
    apply in_map_iff in I. destruct I as [[k1 p1] [E1 I1]]. simpl in E1; subst k1.
    apply in_map_iff in I'. destruct I' as [[k2 p2] [E2 I2]]. simpl in E2; subst k2.
    apply fulls_In in I1. apply fulls_In in I2. unfold dfs_spec in I1, I2.
    destruct (node_under thr _ [] 1 _ I1) as [c [Ec [Oc Lc]]]. destruct (node_under thr _ [] 1 _ I2) as [c' [Ec' [Oc' Lc']]].
    simpl in Ec, Ec', Lc, Lc'. subst c c'.
    apply (unperm_inj probs perms); auto. lia.
  - rewrite Forall_forall. intros [s p] I. apply in_map_iff in I. destruct I as [[s' p'] [E I]].
    inversion E; subst. pose proof (node_full_thr thr (sorted_probs probs perms) [] 1 T) as F.
    rewrite Forall_forall in F. apply (F _ I).
  - rewrite !ymass_fulls, fulls_unperm. unfold qsumf. rewrite map_map. simpl. reflexivity.
Qed.

Lemma kids_tab_length thr node prefix rp : forall l i, length (snd (fst (kids thr node prefix rp i l))) = length l.
Proof.
  induction l as [|p l' IH]; intros i; [reflexivity|]. rewrite kids_cons.
  destruct (Qltb (rp * p) thr); [reflexivity|].
  destruct (node (prefix ++ [i]) (rp * p)) as [ys s]. specialize (IH (S i)).
  destruct (kids thr node prefix rp (S i) l') as [[ys' tab] fnd]. simpl in IH.
  destruct s; simpl; now rewrite IH.
Qed.

(* ---------- retval as a list ---------- *)
Lemma ret_step_fulls q ys : forall ret,
  fold_left (ret_step q) ys ret = fold_left (fun d sp => dset d (fst sp) (snd sp * q, EXACT)) (fulls ys) ret.
Proof. induction ys as [|[s p|s v] ys IH]; intros ret; simpl; auto. Qed.

Lemma ret_list q ys : NoDup (map fst (fulls ys)) ->
  fold_left (ret_step q) ys [] = map (fun sp => (fst sp, (snd sp * q, EXACT))) (fulls ys).
Proof.
  intros N. rewrite ret_step_fulls.
  change (fold_left (fun d sp => if (fun _ : key * Q => true) sp then dset d (fst sp) (snd sp * q, EXACT) else d)
            (fulls ys) [] = map (fun sp => (fst sp, (snd sp * q, EXACT))) (fulls ys)).
  rewrite (fold_dset_fresh (@fst key Q) (fun sp => (snd sp * q, EXACT)) (fun _ => true)) by exact N.
  simpl. f_equal. clear N. induction (fulls ys) as [|a l IH]; simpl; congruence.
Qed.

Lemma wsum_ret q l : wsum (map (fun sp : key * Q => (fst sp, (snd sp * q, EXACT))) l) == q * qsumf snd l.
Proof. unfold wsum, qsumf. induction l as [|a l IH]; simpl; [ring|rewrite IH; ring]. Qed.

(* ---------- sums are invariant under the inverse permutation ---------- *)
Lemma qsum_perm a b : Permutation a b -> qsum a == qsum b.
Proof. induction 1; simpl; try lra. Qed.

Lemma unperm_vec_perm (v : list Q) perm : length perm = length v -> (forall j, (j < length v)%nat -> In j perm) ->
  Permutation v (unperm_vec perm v).
Proof.
  intros L S. destruct (perm_facts2 v perm L S) as [ND B].
  set (f := fun j => match index_of j perm with Some k => nth k v 0 | None => 0 end).
  assert (map f perm = v) as E.
  { apply (nth_ext _ _ 0 0); [rewrite map_length; exact L|].
    intros k Hk. rewrite map_length in Hk.
    rewrite (nth_indep _ 0 (f 0%nat)) by (rewrite map_length; exact Hk).
    rewrite map_nth. unfold f. now rewrite index_of_nth_NoDup. }
  rewrite <- E at 1. unfold unperm_vec. fold f. apply Permutation_map.
  apply NoDup_Permutation; auto; [apply seq_NoDup|].
  intros x. rewrite in_seq. split.
  - intros I. destruct (In_nth _ _ 0%nat I) as [k [Hk <-]]. specialize (B k Hk). lia.
  - intros [_ H]. apply S. lia.
Qed.

(* ---------- weight_to_sample ---------- *)
Lemma absorb_w_keep D q ys : (forall y, In y ys -> ystate y <> []) ->
  forall ret cond w, snd (fold_left (absorb D q) ys (ret, cond, w)) = w.
Proof.
  induction ys as [|y ys IH]; intros H ret cond w; [reflexivity|].
  cbn [fold_left]. assert (forall y, In y ys -> ystate y <> []) as H' by (intros; apply H; now right).
  pose proof (H y (or_introl eq_refl)) as Hy.
  destruct y as [s p|s v]; simpl in *.
  - apply IH; auto.
  - destruct s; [contradiction|]. apply IH; auto.
Qed.

Lemma spec_shape thr cur rest :
  let k := kids thr (dfs_node thr rest) [] 1 0%nat cur in
  dfs_node thr (cur :: rest) [] 1 =
    (if snd k then (fst (fst k) ++ [YCond [] (map zero_small (snd (fst k)))], SubNorm (qsum (map zero_small (snd (fst k)))))
     else (fst (fst k), SubNone)) /\
  forall y, In y (fst (fst k)) -> ystate y <> [].
Proof.
  cbv zeta. split.
  - rewrite dfs_node_cons. destruct (kids thr (dfs_node thr rest) [] 1 0%nat cur) as [[ys tab] fnd]. simpl.
    destruct fnd; reflexivity.
  - intros y I. pose proof (kids_under thr (dfs_node thr rest) [] 1 rest (node_under thr rest) cur 0%nat y I) as [j [c [_ [E _]]]].
    rewrite E. simpl. discriminate.
Qed.

Lemma fold_left_snoc {A B} (f : A -> B -> A) l x a : fold_left f (l ++ [x]) a = f (fold_left f l a) x.
Proof. now rewrite fold_left_app. Qed.

(* the state after the for-loop over the generator, expressed on the specification's result *)
Lemma dfs_loop_result probs perms q : sorting_perms_b probs perms = true -> probs <> [] -> 1 / q <= 1 ->
  forall ret cond wts0,
  fold_left (absorb (length probs) q) (gen_unsorted probs perms (1 / q)) (([] : wdict), ([] : list (key * list Q)), 1)
    = (ret, cond, wts0) ->
  wsum ret == q * ymass (dfs_spec (sorted_probs probs perms) (1 / q)) /\
  length ret = nfull (dfs_spec (sorted_probs probs perms) (1 / q)) /\
  wts0 == resid (snd (dfs_node (1 / q) (sorted_probs probs perms) [] 1)).
Proof.
  intros S Ne T ret cond wts0 E.
  destruct (gen_unsorted_fulls probs perms (1 / q) S T) as [ND [_ Ym]].
  assert (ret = fold_left (ret_step q) (gen_unsorted probs perms (1 / q)) []) as Er.
  { transitivity (fst (fst (fold_left (absorb (length probs) q) (gen_unsorted probs perms (1 / q))
                                  (([] : wdict), ([] : list (key * list Q)), 1)))).
    - now rewrite E.
    - apply absorb_ret. }
  split; [|split].
  - rewrite Er, ret_list by exact ND. rewrite wsum_ret, <- ymass_fulls, Ym. reflexivity.
  - rewrite Er, ret_list by exact ND. rewrite map_length, <- nfull_fulls.
    unfold gen_unsorted. rewrite !nfull_fulls, fulls_unperm, map_length. reflexivity.
  - assert (wts0 = snd (fold_left (absorb (length probs) q) (gen_unsorted probs perms (1 / q))
                          (([] : wdict), ([] : list (key * list Q)), 1))) as -> by now rewrite E.
    clear E Er ret cond.
    destruct probs as [|v rv]; [contradiction|]. destruct perms as [|p rp]; [discriminate|].
    pose proof S as S'. simpl in S'. apply andb_prop in S' as [S1 S2].
    unfold gen_unsorted, dfs_spec.
    change (sorted_probs (v :: rv) (p :: rp)) with (apply_perm p v :: sorted_probs rv rp).
    destruct (spec_shape (1 / q) (apply_perm p v) (sorted_probs rv rp)) as [Sh Nt]. rewrite Sh.
    set (k := kids (1 / q) (dfs_node (1 / q) (sorted_probs rv rp)) [] 1 0%nat (apply_perm p v)) in *.
    assert (forall y, In y (map (unperm_yield (p :: rp)) (fst (fst k))) -> ystate y <> []) as Nt'.
    { intros y I. apply in_map_iff in I. destruct I as [y0 [<- I0]]. specialize (Nt y0 I0).
      destruct y0 as [s pp|s vv]; simpl in *; destruct s; try contradiction; discriminate. }
    destruct (snd k) eqn:Ef; cbn [fst snd resid].
    + rewrite map_app. cbn [map]. rewrite fold_left_snoc.
      destruct (sorting_perm_facts _ _ S1) as [Lp [Sp _]].
      assert (length (map zero_small (snd (fst k))) = length p) as Lt.
      { rewrite map_length. unfold k. now rewrite kids_tab_length, apply_perm_length. }
      match goal with |- context [fold_left ?f ?l ?a] => destruct (fold_left f l a) as [[r1 c1] w1] end.
      cbn [unperm_yield unperm_state map2 absorb snd length nth].
      symmetry. apply qsum_perm. apply unperm_vec_perm; [now rewrite Lt|].
      intros j Hj. apply Sp. lia.
    + rewrite absorb_w_keep by exact Nt'. reflexivity.
Qed.

(* ---------- the accumulator after the generator loop: conservation ---------- *)
Lemma apply_perm_perm (v : list Q) perm : length perm = length v -> (forall j, (j < length v)%nat -> In j perm) ->
  Permutation (apply_perm perm v) v.
Proof.
  intros L S. destruct (perm_facts2 v perm L S) as [ND B].
  assert (map (fun j => nth j v 0) (seq 0 (length v)) = v) as E.
  { apply (nth_ext _ _ 0 0); [now rewrite map_length, seq_length|].
    intros k Hk. rewrite map_length, seq_length in Hk. now rewrite nth_seq_map. }
  rewrite <- E at 2. unfold apply_perm. apply Permutation_map.
  apply NoDup_Permutation; auto; [apply seq_NoDup|].
  intros x. rewrite in_seq. split.
  - intros I. destruct (In_nth _ _ 0%nat I) as [k [Hk <-]]. specialize (B k Hk). lia.
  - intros [_ H]. apply S. lia.
Qed.

Lemma sorted_vec_ok probs : forall perms, valid probs -> sorting_perms_b probs perms = true ->
  Forall vec_ok (sorted_probs probs perms) /\ tree_size (sorted_probs probs perms) = tree_size probs.
Proof.
  induction probs as [|v rv IH]; intros [|p rp] V S; simpl in S; try discriminate; [split; [constructor|reflexivity]|].
  apply andb_prop in S as [S1 S2]. inversion V as [|? ? [Nv Sv] Vr]; subst.
  destruct (IH rp Vr S2) as [A B]. destruct (sorting_perm_facts _ _ S1) as [Lp [Sp _]].
  change (sorted_probs (v :: rv) (p :: rp)) with (apply_perm p v :: sorted_probs rv rp). split.
  - constructor; auto. split.
    + unfold nonneg, apply_perm. rewrite Forall_forall. intros x I. apply in_map_iff in I. destruct I as [j [<- _]].
      now apply nth_nonneg.
    + rewrite (qsum_perm _ _ (apply_perm_perm v p Lp Sp)). exact Sv.
  - simpl. rewrite B, apply_perm_length, Lp. reflexivity.
Qed.

Lemma fulls_thr_count thr (l : list (key * Q)) : Forall (fun sp => thr <= snd sp) l -> thr * nq (length l) <= qsumf snd l.
Proof.
  unfold qsumf. induction 1 as [|a l Ha Hl IH]; simpl.
  - assert (nq 0 == 0) as -> by reflexivity. lra.
  - change (nq (Datatypes.S (length l))) with (nq (S (length l))). rewrite nq_S. lra.
Qed.

Lemma dfs_acc_mass probs perms q ret cond wts0 :
  valid probs -> sorting_perms_b probs perms = true -> 1 <= q -> probs <> [] ->
  dfs_acc probs perms q = (ret, cond, wts0) ->
  exists lost, 0 <= lost /\ lost <= nonzero_atol * nq (tree_size probs) /\
    wsum ret + q * wts0 + q * lost == q /\ 0 <= wts0 /\ nq (length ret) <= wsum ret /\
    (clr (raw_tables (sorted_probs probs perms) (1 / q)) -> lost == 0).
Proof.
  intros V S Hq Ne E. destruct (thr_facts q Hq) as [T0 T1]. unfold dfs_acc in E.
  destruct (Qle_bool (1 / q) (qprod (map qmax probs))).
  - destruct (dfs_loop_result probs perms q S Ne T1 ret cond wts0 E) as [Hw [Hl Hr]].
    destruct (sorted_vec_ok probs perms V S) as [Vs Ts].
    destruct (node_mass_all (1 / q) (sorted_probs probs perms) Vs [] 1) as [lost [L0 [LB [Em [R0 Cl]]]]]; [lra|].
    exists lost. rewrite Ts in LB. split; auto. split; auto. split; [|split; [now rewrite Hr|split; [|exact Cl]]].
    + rewrite Hw, Hr. unfold dfs_spec.
      transitivity (q * (ymass (fst (dfs_node (1 / q) (sorted_probs probs perms) [] 1)) +
                         1 * resid (snd (dfs_node (1 / q) (sorted_probs probs perms) [] 1)) + 1 * lost)); [ring|].
      rewrite Em. ring.
    + rewrite Hw, Hl, nfull_fulls, ymass_fulls.
      pose proof (fulls_thr_count (1 / q) _ (node_full_thr (1 / q) (sorted_probs probs perms) [] 1 T1)) as C.
      unfold dfs_spec.
      assert (q * (1 / q * nq (length (fulls (fst (dfs_node (1 / q) (sorted_probs probs perms) [] 1)))))
              == nq (length (fulls (fst (dfs_node (1 / q) (sorted_probs probs perms) [] 1))))) as <-.
      { field. lra. }
      apply Qmult_le_l_nonneg; [lra|exact C].
  - inversion E; subst. exists 0. pose proof atol_pos. pose proof (nq_nonneg (tree_size probs)).
    assert (wsum [] == 0) as W0 by reflexivity. assert (nq (length (@nil (key * (Q * wtype)))) == 0) as N0 by reflexivity.
    split; [lra|]. split; [nra|]. split; [rewrite W0; ring|]. split; [lra|]. split; [rewrite W0, N0; lra|reflexivity].
Qed.

(* ---------- counts of the sampler ---------- *)
Definition csum {A} (s : list (A * nat)) : nat := fold_right (fun kc a => (snd kc + a)%nat) 0%nat s.

Lemma csum_app {A} (a b : list (A * nat)) : csum (a ++ b) = (csum a + csum b)%nat.
Proof. induction a as [|x a IH]; simpl; lia. Qed.

Lemma cnt_add_csum {A} (eqb : A -> A -> bool) : forall c x,
  csum (cnt_add eqb c x) = S (csum c) /\
  (Forall (fun kc => (1 <= snd kc)%nat) c -> Forall (fun kc => (1 <= snd kc)%nat) (cnt_add eqb c x)).
Proof.
  induction c as [|[y n] c IH]; intros x; simpl.
  - split; [reflexivity|intros _; repeat constructor].
  - destruct (eqb x y); simpl.
    + split; [lia|]. intros F. inversion F; subst. constructor; auto. simpl in *. lia.
    + destruct (IH x) as [HA HB]. split; [lia|]. intros F. inversion F; subst. constructor; auto.
Qed.

Lemma counter_csum {A} (eqb : A -> A -> bool) l :
  csum (counter eqb l) = length l /\ Forall (fun kc => (1 <= snd kc)%nat) (counter eqb l).
Proof.
  unfold counter.
  assert (forall l c, Forall (fun kc => (1 <= snd kc)%nat) c ->
            csum (fold_left (cnt_add eqb) l c) = (length l + csum c)%nat /\
            Forall (fun kc => (1 <= snd kc)%nat) (fold_left (cnt_add eqb) l c)) as G.
  { clear l. induction l as [|x l IH]; intros c F; simpl; [split; auto|].
    destruct (cnt_add_csum eqb c x) as [HA HB]. destruct (IH _ (HB F)) as [HC HD]. split; [lia|auto]. }
  destruct (G l [] (Forall_nil _)) as [HA HB]. simpl in HA. split; [lia|auto].
Qed.

Lemma csum_map_key {A B} (f : A -> B) (s : list (A * nat)) : csum (map (fun oc => (f (fst oc), snd oc)) s) = csum s.
Proof. induction s as [|x s IH]; simpl; congruence. Qed.

Lemma Forall_map_key {A B} (f : A -> B) (s : list (A * nat)) :
  Forall (fun kc => (1 <= snd kc)%nat) s -> Forall (fun kc => (1 <= snd kc)%nat) (map (fun oc => (f (fst oc), snd oc)) s).
Proof. induction 1; simpl; constructor; auto. Qed.

Definition counts_ok (s : list (key * nat)) (n : nat) : Prop := csum s = n /\ Forall (fun kc => (1 <= snd kc)%nat) s.

Lemma pop_loop_counts rec full rs :
  (full = false -> forall k c t s t' lg, rec k c t = Some (s, t', lg) -> counts_ok s c) ->
  forall ocs t s t' lg, Forall (fun oc => (1 <= snd oc)%nat) ocs ->
    pop_loop rec full rs ocs t = Some (s, t', lg) -> counts_ok s (csum ocs).
Proof.
  intros Hrec. induction ocs as [|[o c] more IH]; intros t s t' lg F H; simpl in H.
  - inversion H; subst. split; [reflexivity|constructor].
  - inversion F as [|? ? Fc Fm]; subst. simpl in Fc. destruct full.
    + destruct (pop_loop rec true rs more t) as [[[acc t2] lg2]|] eqn:R; [|discriminate]. inversion H; subst.
      destruct (IH _ _ _ _ Fm R) as [A B]. split; [simpl; lia|constructor; auto].
    + destruct (rec (rs ++ [o]) c t) as [[[s1 t2] lg1]|] eqn:R1; [|discriminate].
      destruct (pop_loop rec false rs more t2) as [[[s2 t3] lg2]|] eqn:R2; [|discriminate]. inversion H; subst.
      destruct (Hrec eq_refl _ _ _ _ _ _ R1) as [A1 B1]. destruct (IH _ _ _ _ Fm R2) as [A2 B2].
      split; [rewrite csum_app; simpl; lia|apply Forall_app; auto].
Qed.

Lemma populate_counts cond : forall rest rs nd tape s t lg, rest <> [] ->
  populate rest cond rs nd tape = Some (s, t, lg) -> counts_ok s nd.
Proof.
  induction rest as [|indep rest' IH]; intros rs nd tape s t lg Ne H; [contradiction|].
  cbn [populate] in H. destruct (dget cond rs) as [v|].
  - destruct (draw v nd tape) as [[outs t1]|] eqn:D; [|discriminate].
    destruct (pop_loop (fun rs' c t0 => populate rest' cond rs' c t0)
                (match rest' with [] => true | _ :: _ => false end) rs (counter Nat.eqb outs) t1)
      as [[[s0 t0] lg0]|] eqn:R; [|discriminate]. inversion H; subst.
    destruct (counter_csum Nat.eqb outs) as [Cs Cf].
    destruct (draw_spec_len v nd tape outs t1 D) as [L _].
    rewrite <- L, <- Cs.
    eapply pop_loop_counts; [|exact Cf|exact R].
    intros Ef k c t2 s2 t2' lg2 R2. eapply IH; [|exact R2]. destruct rest'; [discriminate|discriminate].
  - destruct (take_cols (indep :: rest') nd tape) as [[[cols t1] lg1]|] eqn:T; [|discriminate]. inversion H; subst.
    destruct (counter_csum key_eqb (rows nd cols)) as [Cs Cf].
    split; [|now apply (Forall_map_key (fun k : key => rs ++ k))].
    rewrite (csum_map_key (fun k : key => rs ++ k)), Cs.
    destruct cols as [|c0 cols'].
    + simpl in T. destruct (draw indep nd tape) as [[c t2]|]; [|discriminate].
      destruct (take_cols rest' nd t2) as [[[cs t3] lg3]|]; discriminate.
    + unfold rows. now rewrite map_length, seq_length.
Qed.

(* ---------- inserting the samples ---------- *)
Lemma wsum_snoc d k w t : wsum (d ++ [(k, (w, t))]) == wsum d + w.
Proof. rewrite wsum_app. unfold wsum. simpl. ring. Qed.

Lemma insert_samples_sum ssw : forall s ret r, insert_samples ret ssw s = Some r ->
  wsum r == wsum ret + ssw * nq (csum s) /\ length r = (length ret + length s)%nat.
Proof.
  induction s as [|[k c] s IH]; intros ret r H; simpl in H.
  - inversion H; subst. assert (nq (csum (@nil (key * nat))) == 0) as -> by reflexivity. split; [ring|simpl; lia].
  - destruct (dmem ret k) eqn:M; [discriminate|].
    assert (dget ret k = None) as G by (unfold dmem in M; destruct (dget ret k); [discriminate|reflexivity]).
    rewrite (dset_fresh _ _ _ G) in H. destruct (IH _ _ H) as [A B]. split.
    + rewrite A, wsum_snoc. simpl csum. unfold nq. rewrite Nat2Z.inj_add, inject_Z_plus. ring.
    + rewrite B, app_length. simpl. lia.
Qed.

Lemma counts_length (s : list (key * nat)) : Forall (fun kc => (1 <= snd kc)%nat) s -> (length s <= csum s)%nat.
Proof. induction 1; simpl; lia. Qed.

(* ---------- ceilings ---------- *)
Lemma ceil_add_le (n : nat) (w q : Q) : nq n + w <= q -> (Z.of_nat n + Qceiling w <= Qceiling q)%Z.
Proof.
  intros H. pose proof (Qceiling_lt w) as L. pose proof (Qle_ceiling q) as U.
  assert (inject_Z (Z.of_nat n + Qceiling w - 1) < inject_Z (Qceiling q)) as X.
  { replace (Z.of_nat n + Qceiling w - 1)%Z with (Z.of_nat n + (Qceiling w - 1))%Z by lia.
    rewrite inject_Z_plus. fold (nq n). lra. }
  rewrite <- Zlt_Qlt in X. lia.
Qed.

Lemma ceil_le_zero w : (Qceiling w < 1)%Z -> w <= 0.
Proof.
  intros H. pose proof (Qle_ceiling w) as U.
  assert (inject_Z (Qceiling w) <= inject_Z 0) as X by (rewrite <- Zle_Qle; lia).
  change (inject_Z 0) with 0 in X. lra.
Qed.

Lemma nq_le_ceil (n : nat) q : nq n <= q -> (Z.of_nat n <= Qceiling q)%Z.
Proof.
  intros H. pose proof (ceil_add_le n 0 q) as X.
  assert (Qceiling 0 = 0%Z) as E by reflexivity. rewrite E in X. assert (nq n + 0 <= q) as Y by lra. specialize (X Y). lia.
Qed.

(* ---------- the all-exact branch ---------- *)
Lemma fold_min_le : forall r x y, In y (x :: r) -> fold_left (fun a b => if Qltb b a then b else a) r x <= y.
Proof.
  induction r as [|b r IH]; intros x y I; simpl.
  - destruct I as [->|[]]. lra.
  - destruct (Qltb b x) eqn:E.
    + apply Qltb_lt in E. destruct I as [<-|[<-|I]].
      * pose proof (IH b b (or_introl eq_refl)). lra.
      * apply IH. now left.
      * apply IH. now right.
    + apply Qltb_ge in E. destruct I as [<-|[<-|I]].
      * apply IH. now left.
      * pose proof (IH x x (or_introl eq_refl)). lra.
      * apply IH. now right.
Qed.

Lemma min_filter_le v m x : min_filter_nonzero v = Some m -> In x v -> nonzero_atol < x -> m <= x.
Proof.
  unfold min_filter_nonzero. intros H I B.
  assert (In x (filter (fun x => negb (isclose0 x)) v)) as If.
  { apply filter_In. split; auto. now rewrite isclose0_big. }
  destruct (filter (fun x => negb (isclose0 x)) v) as [|a r]; [destruct If|].
  inversion H; subst. now apply fold_min_le.
Qed.

Lemma jointp_ge_mins probs : forall mins ids,
  all_some (map min_filter_nonzero probs) = Some mins -> Forall nonneg probs ->
  idx_ok probs ids -> length ids = length probs ->
  (forall k, (k < length ids)%nat -> nonzero_atol < nth (nth k ids 0%nat) (nth k probs []) 0) ->
  0 <= qprod mins /\ qprod mins <= jointp probs ids.
Proof.
  induction probs as [|v r IH]; intros mins ids E N O L B; simpl in E.
  - inversion E; subst. destruct ids; [|discriminate]. simpl. lra.
  - destruct (min_filter_nonzero v) as [m|] eqn:Em; [|discriminate].
    destruct (all_some (map min_filter_nonzero r)) as [ms|] eqn:Es; [|discriminate]. simpl in E. inversion E; subst.
    destruct ids as [|j c]; [discriminate|]. simpl in O, L. destruct O as [Hj O]. inversion N as [|? ? Nv Nr]; subst.
    destruct (IH ms c eq_refl Nr O) as [P0 P1]; [lia| |].
    { intros k Hk. apply (B (S k)). simpl. lia. }
    pose proof (B 0%nat) as B0. simpl in B0. specialize (B0 ltac:(lia)).
    assert (m <= nth j v 0) as Mle by (eapply min_filter_le; eauto; now apply nth_In).
    assert (0 <= m).
    { unfold min_filter_nonzero in Em. destruct (filter _ v) as [|a rr] eqn:Ef; [discriminate|]. inversion Em; subst.
      pose proof (fold_min_in rr a) as I. rewrite <- Ef in I. apply filter_In in I. destruct I as [I _].
      unfold nonneg in Nv. rewrite Forall_forall in Nv. now apply Nv. }
    simpl. split; nra.
Qed.

Lemma clean_pos_big probs : Forall (Forall band_free) probs -> Forall nonneg probs ->
  forall ids, idx_ok probs ids -> length ids = length probs -> 0 < jointp probs ids ->
  forall k, (k < length ids)%nat -> nonzero_atol < nth (nth k ids 0%nat) (nth k probs []) 0.
Proof.
  induction probs as [|v r IH]; intros C N ids O L P k Hk; destruct ids as [|j c]; simpl in *; try lia.
  destruct O as [Hj O]. inversion C as [|? ? Cv Cr]; subst. inversion N as [|? ? Nv Nr]; subst.
  pose proof (nth_nonneg v j Nv) as Nj.
  pose proof (jointp_unit_nonneg r c Nr) as Jn.
  destruct k as [|k].
  - rewrite Forall_forall in Cv. destruct (Cv (nth j v 0) (nth_In _ _ Hj)) as [Z|B]; auto. rewrite Z in P. lra.
  - apply IH; auto; try lia. destruct (Qlt_le_dec 0 (jointp r c)); auto. nra.
Qed.

Lemma qsumf_bounds {A} (f : A -> Q) (c : Q) l : (forall x, In x l -> 0 <= f x /\ f x <= c) ->
  0 <= qsumf f l /\ qsumf f l <= c * nq (length l).
Proof.
  unfold qsumf. induction l as [|a l IH]; intros H; simpl.
  - assert (nq 0 == 0) as -> by reflexivity. lra.
  - destruct (H a (or_introl eq_refl)) as [A0 A1]. destruct IH as [B0 B1]; [intros; apply H; now right|].
    change (nq (Datatypes.S (length l))) with (nq (S (length l))). rewrite nq_S. lra.
Qed.

Lemma qsumf_lower {A} (f : A -> Q) (c : Q) l : (forall x, In x l -> c <= f x) -> c * nq (length l) <= qsumf f l.
Proof.
  unfold qsumf. induction l as [|a l IH]; intros H; simpl.
  - assert (nq 0 == 0) as -> by reflexivity. lra.
  - pose proof (H a (or_introl eq_refl)). assert (c * nq (length l) <= qsum (map f l)) by (apply IH; intros; apply H; now right).
    change (nq (Datatypes.S (length l))) with (nq (S (length l))). rewrite nq_S. lra.
Qed.

Lemma qprod_ones probs : valid probs -> qprod (map qsum probs) == 1.
Proof. induction 1 as [|v r [_ S] _ IH]; simpl; [reflexivity|]. rewrite S, IH. ring. Qed.

Lemma cart_length_le probs : (length (cart (map (@length Q) probs)) <= S (tree_size probs))%nat.
Proof.
  induction probs as [|v r IH]; simpl; [lia|].
  assert (forall n a, length (flat_map (fun i => map (cons i) (cart (map (@length Q) r))) (seq a n))
                      = (n * length (cart (map (@length Q) r)))%nat) as G.
  { induction n as [|n IHn]; intros a; cbn [seq flat_map]; [reflexivity|].
    rewrite app_length, map_length, IHn. simpl. reflexivity. }
  rewrite G.
  pose proof (Nat.mul_le_mono_l _ _ (length v) IH) as M. lia.
Qed.

Lemma filter_length_le {A} (f : A -> bool) l : (length (filter f l) <= length l)%nat.
Proof. induction l as [|a l IH]; simpl; [lia|]. destruct (f a); simpl; lia. Qed.

Lemma qsumf_zero {A} (l : list A) : qsumf (fun _ => 0) l == 0.
Proof. unfold qsumf. induction l as [|a l IH]; simpl; [reflexivity|]. rewrite IH. ring. Qed.

Lemma wsum_exact_map (f : key -> Q) m l : wsum (map (fun ids => (ids, (m * f ids, EXACT))) l) == m * qsumf f l.
Proof. unfold wsum, qsumf. induction l as [|a l IH]; simpl; [ring|rewrite IH; ring]. Qed.

Lemma all_exact_count_sum probs q mins :
  valid probs -> 1 <= q -> all_some (map min_filter_nonzero probs) = Some mins -> 1 / q <= qprod mins ->
  let r := all_exact probs q in
  wsum r <= q /\ q - wsum r <= q * (nonzero_atol * nq (S (tree_size probs))) /\
  (Forall (Forall band_free) probs -> nonzero_atol * q <= 1 ->
     wsum r == q /\ (Z.of_nat (length r) <= Qceiling q)%Z).
Proof.
  intros V Hq Em Ae r. pose proof atol_pos as Ap. destruct (thr_facts q Hq) as [T0 T1].
  pose proof (valid_nonneg _ V) as Nn.
  set (cs := cart (map (@length Q) probs)).
  set (keep := fun ids => negb (Qltb (jointp probs ids) nonzero_atol)).
  assert (r = map (fun ids => (ids, (q * jointp probs ids, EXACT))) (filter keep cs)) as Er by apply all_exact_list.
  assert (qsumf (jointp probs) cs == 1) as Tot by (unfold cs; rewrite cart_sum; now apply qprod_ones).
  pose proof (qsumf_filter_split (jointp probs) keep cs) as Sp. rewrite Tot in Sp.
  assert (forall ids, In ids cs -> idx_ok probs ids /\ length ids = length probs) as InC by (intros; now apply In_cart).
  destruct (qsumf_bounds (jointp probs) nonzero_atol (filter (fun x => negb (keep x)) cs)) as [Sk0 Sk1].
  { intros ids I. apply filter_In in I. destruct I as [_ K]. unfold keep in K. rewrite negb_involutive in K.
    apply Qltb_lt in K. pose proof (jointp_unit_nonneg probs ids Nn). lra. }
  assert (nq (length (filter (fun x => negb (keep x)) cs)) <= nq (S (tree_size probs))) as Lk.
  { unfold nq. rewrite <- Zle_Qle. apply inj_le.
    pose proof (filter_length_le (fun x => negb (keep x)) cs). pose proof (cart_length_le probs). unfold cs in *. lia. }
  assert (wsum r == q * qsumf (jointp probs) (filter keep cs)) as Wr by (rewrite Er; apply wsum_exact_map).
  split; [|split].
  - rewrite Wr. assert (qsumf (jointp probs) (filter keep cs) <= 1) by lra. nra.
  - rewrite Wr.
    assert (q - q * qsumf (jointp probs) (filter keep cs) == q * qsumf (jointp probs) (filter (fun x => negb (keep x)) cs)) as ->.
    { assert (qsumf (jointp probs) (filter keep cs) == 1 - qsumf (jointp probs) (filter (fun x => negb (keep x)) cs)) as -> by lra.
      ring. }
    apply Qmult_le_l_nonneg; [lra|]. nra.
  - intros C A.
    assert (nonzero_atol <= 1 / q) as At by (apply Qle_shift_div_l; lra).
    assert (forall ids, In ids cs -> 0 < jointp probs ids -> 1 / q <= jointp probs ids) as Big.
    { intros ids I P. destruct (InC ids I) as [O L].
      destruct (jointp_ge_mins probs mins ids Em Nn O L (clean_pos_big probs C Nn ids O L P)) as [_ G]. lra. }
    assert (qsumf (jointp probs) (filter (fun x => negb (keep x)) cs) == 0) as Z.
    { rewrite (qsumf_ext _ (fun _ => 0)).
      - apply qsumf_zero.
      - intros ids I. apply filter_In in I. destruct I as [I K]. unfold keep in K. rewrite negb_involutive in K.
        apply Qltb_lt in K. pose proof (jointp_unit_nonneg probs ids Nn) as J.
        destruct (Qlt_le_dec 0 (jointp probs ids)) as [P|P]; [|lra]. specialize (Big ids I P). lra. }
    split.
    + rewrite Wr. assert (qsumf (jointp probs) (filter keep cs) == 1) as -> by lra. ring.
    + rewrite Er, map_length. apply nq_le_ceil.
      pose proof (qsumf_lower (jointp probs) (1 / q) (filter keep cs)) as Lw.
      assert (forall x, In x (filter keep cs) -> 1 / q <= jointp probs x) as Hk.
      { intros ids I. apply filter_In in I. destruct I as [I K]. unfold keep in K. apply negb_true_iff in K.
        apply Qltb_ge in K. apply Big; auto. lra. }
      specialize (Lw Hk).
      assert (q * (1 / q * nq (length (filter keep cs))) == nq (length (filter keep cs))) as E1 by (field; lra).
      assert (q * (1 / q * nq (length (filter keep cs))) <= q * qsumf (jointp probs) (filter keep cs)) as E2
        by (apply Qmult_le_l_nonneg; [lra|exact Lw]).
      assert (qsumf (jointp probs) (filter keep cs) <= 1) by lra. nra.
Qed.

(* ---------- the theorem ---------- *)
Lemma nq_to_nat z : (1 <= z)%Z -> nq (Z.to_nat z) == inject_Z z.
Proof. intros H. unfold nq. rewrite Z2Nat.id by lia. reflexivity. Qed.

Theorem count_sum probs perms q tape r :
  valid probs -> sorting_perms_b probs perms = true ->
  gen_weights probs perms (Fin q) tape = Some (Ok r) ->
  wsum r <= q /\ q - wsum r <= q * (nonzero_atol * nq (S (tree_size probs))) /\
  (no_entry_in_cutoff probs perms (1 / q) -> nonzero_atol * q <= 1 ->
     wsum r == q /\ (Z.of_nat (length r) <= Qceiling q)%Z).
Proof.
  intros V HS G. apply gen_weights_fin_inv in G. destruct G as [Hq F].
  pose proof atol_pos as Ap. destruct (thr_facts q Hq) as [T0 T1].
  assert (nq (tree_size probs) <= nq (S (tree_size probs))) as TsS by (rewrite nq_S; lra).
  pose proof (nq_nonneg (tree_size probs)) as Tn.
  assert (forall mins, all_some (map min_filter_nonzero probs) = Some mins -> ~ 1 / q <= qprod mins -> probs <> []) as NeP.
  { intros mins Em Na ->. simpl in Em. inversion Em; subst. simpl in Na. lra. }
  assert (forall ret cond wts0 mins (r' : wdict) (extra : Q) (n' : nat),
            all_some (map min_filter_nonzero probs) = Some mins -> ~ 1 / q <= qprod mins ->
            dfs_acc probs perms q = (ret, cond, wts0) ->
            wsum r' == wsum ret + extra -> extra == wts0 * q -> length r' = (length ret + n')%nat ->
            (Z.of_nat n' <= Qceiling (wts0 * q))%Z ->
            wsum r' <= q /\ q - wsum r' <= q * (nonzero_atol * nq (S (tree_size probs))) /\
            (no_entry_in_cutoff probs perms (1 / q) -> nonzero_atol * q <= 1 ->
               wsum r' == q /\ (Z.of_nat (length r') <= Qceiling q)%Z)) as Core.
  { intros ret cond wts0 mins r' extra n' Em Na Eacc Wr Ex Lr Ln.
    destruct (dfs_acc_mass probs perms q ret cond wts0 V HS Hq (NeP mins Em Na) Eacc)
      as [lost [L0 [LB [Eq [W0 [Cn Cl]]]]]].
    assert (wsum r' == q - q * lost) as Wv by (rewrite Wr, Ex; lra).
    assert (0 <= q * lost) as QL by nra.
    split; [lra|]. split.
    - rewrite Wv. assert (q - (q - q * lost) == q * lost) as -> by ring.
      apply Qmult_le_l_nonneg; [lra|]. nra.
    - intros [_ Ct] _. rewrite (Cl Ct) in Wv. split; [rewrite Wv; ring|].
      rewrite Lr, Nat2Z.inj_add.
      assert (nq (length ret) + wts0 * q <= q) as Hle by lra.
      pose proof (ceil_add_le (length ret) (wts0 * q) q Hle). lia. }
  destruct F as [mins Em Ae ->|mins ret cond wts0 Em Na Eacc Hs ->|mins ret cond wts0 rs Em Na Eacc Hs Cn Lw Dn ->
                |mins ret cond wts0 s t' lg Em Na Eacc Hs Cc Pp Is].
  - destruct (all_exact_count_sum probs q mins V Hq Em Ae) as [A [B C]].
    split; auto. split; auto. intros [Cl _] At. apply C; auto.
  - (* F9, repaired: nothing left to sample *)
    apply ceil_le_zero in Hs.
    destruct (dfs_acc_mass probs perms q ret cond wts0 V HS Hq (NeP mins Em Na) Eacc)
      as [lost [L0 [LB [Eq [W0 [Cn Cl]]]]]].
    assert (wts0 * q == 0) as Z by nra.
    apply (Core ret cond wts0 mins ret 0 0%nat); auto; try lra; try lia;
      try (rewrite Z; reflexivity); try (rewrite Z; simpl; lia).
  - apply (Core ret cond wts0 mins _ (wts0 * q) 1%nat); auto; try reflexivity; try lia.
    + rewrite (dset_fresh _ _ _ Dn). apply wsum_snoc.
    + rewrite (dset_fresh _ _ _ Dn), app_length. reflexivity.
  - destruct (insert_samples_sum _ _ _ _ Is) as [Ws Ls].
    destruct (populate_counts cond probs [] _ _ _ _ _ (NeP mins Em Na) Pp) as [Cs Cf].
    apply (Core ret cond wts0 mins r (wts0 * q / inject_Z (Qceiling (wts0 * q)) * nq (csum s)) (length s)); auto.
    + rewrite Cs, nq_to_nat by exact Hs. field.
      assert (inject_Z 1 <= inject_Z (Qceiling (wts0 * q))) as X by (rewrite <- Zle_Qle; exact Hs).
      change (inject_Z 1) with 1 in X. lra.
    + pose proof (counts_length s Cf). rewrite Cs in H. lia.
Qed.

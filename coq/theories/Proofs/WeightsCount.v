(* Proofs/WeightsCount.v — number of entries and sum of the weights of the returned dictionary. *)
From Coq Require Import QArith Qabs Qround Lia ZifyBool Lqa Permutation.
From CKT Require Import Common.Base Extracted.Facts Model.Weights.
From CKT Require Import Proofs.WeightsP Proofs.WeightsDfs Proofs.WeightsGen Proofs.WeightsTab Proofs.WeightsSum.
Open Scope Q_scope.

Definition wsum (d : wdict) : Q := qsum (map (fun e => fst (snd e)) d).

Lemma qsum_app a b : qsum (a ++ b) == qsum a + qsum b.
Proof. induction a as [|x a IH]; simpl; [ring|rewrite IH; ring]. Qed.

Lemma wsum_app a b : wsum (a ++ b) == wsum a + wsum b.
Proof. unfold wsum. rewrite map_app. apply qsum_app. Qed.

Lemma NoDup_app_intro {A} (l1 l2 : list A) :
  NoDup l1 -> NoDup l2 -> (forall x, In x l1 -> ~ In x l2) -> NoDup (l1 ++ l2).
Proof.
  induction l1 as [|x l1 IH]; simpl; intros N1 N2 D; auto.
  inversion N1; subst. constructor.
  - rewrite in_app_iff. intros [H|H]; [contradiction|]. apply (D x); auto.
  - apply IH; auto.
Qed.

Lemma NoDup_app_inv {A} (l1 l2 : list A) : NoDup (l1 ++ l2) ->
  NoDup l1 /\ NoDup l2 /\ forall x, In x l1 -> ~ In x l2.
Proof.
  induction l1 as [|x l1 IH]; simpl; intros N.
  - repeat split; auto. constructor.
  - inversion N as [|? ? Hx N']; subst. destruct (IH N') as [HA [HB C]].
    repeat split; auto.
    + constructor; auto. intros H. apply Hx. apply in_app_iff. now left.
    + intros y [<-|I]; [intros H; apply Hx; apply in_app_iff; now right|now apply C].
Qed.

Lemma notin_dget_None {V} (d : list (key * V)) k : ~ In k (map fst d) -> dget d k = None.
Proof.
  induction d as [|[k' v] d IH]; simpl; auto. intros H.
  destruct (key_eqb k k') eqn:E; [apply key_eqb_eq in E; subst; exfalso; apply H; now left|].
  apply IH. intros I. apply H. now right.
Qed.

(* a fold that conditionally sets pairwise distinct fresh keys just appends *)
Lemma fold_dset_fresh {A} (kf : A -> key) (vf : A -> Q * wtype) (keep : A -> bool) :
  forall l d0, NoDup (map fst d0 ++ map kf l) ->
  fold_left (fun d a => if keep a then dset d (kf a) (vf a) else d) l d0
  = d0 ++ map (fun a => (kf a, vf a)) (filter keep l).
Proof.
  induction l as [|a l IH]; intros d0 N; simpl; [now rewrite app_nil_r|].
  simpl in N. destruct (NoDup_app_inv _ _ N) as [N1 [N2 D]].
  destruct (keep a) eqn:K.
  - rewrite dset_fresh.
    + rewrite IH.
      * simpl. now rewrite <- app_assoc.
      * rewrite map_app, <- app_assoc. simpl. exact N.
    + apply notin_dget_None. intros I. apply (D _ I). now left.
  - apply IH. apply NoDup_app_intro; auto.
    + now inversion N2.
    + intros x I J. apply (D x I). now right.
Qed.

(* ---------- sums over the cartesian product ---------- *)
Definition qsumf {A} (f : A -> Q) (l : list A) : Q := qsum (map f l).

Lemma qsumf_app {A} (f : A -> Q) a b : qsumf f (a ++ b) == qsumf f a + qsumf f b.
Proof. unfold qsumf. rewrite map_app. apply qsum_app. Qed.

Lemma qsumf_scale {A} (f : A -> Q) c l : qsumf (fun x => c * f x) l == c * qsumf f l.
Proof. unfold qsumf. induction l as [|x l IH]; simpl; [ring|rewrite IH; ring]. Qed.

Lemma qsumf_ext {A} (f g : A -> Q) l : (forall x, In x l -> f x == g x) -> qsumf f l == qsumf g l.
Proof.
  unfold qsumf. induction l as [|x l IH]; intros H; simpl; [reflexivity|].
  rewrite (H x) by now left. rewrite IH; [reflexivity|]. intros; apply H; now right.
Qed.

Lemma qsumf_map {A B} (f : B -> Q) (g : A -> B) l : qsumf f (map g l) = qsumf (fun x => f (g x)) l.
Proof. unfold qsumf. now rewrite map_map. Qed.

Lemma qsumf_flat_map {A B} (f : B -> Q) (g : A -> list B) l :
  qsumf f (flat_map g l) == qsumf (fun a => qsumf f (g a)) l.
Proof.
  induction l as [|a l IH]; simpl; [reflexivity|].
  rewrite qsumf_app, IH. unfold qsumf. simpl. reflexivity.
Qed.

Lemma qsumf_seq_nth (v : list Q) : forall a, qsumf (fun i => nth (i - a) v 0) (seq a (length v)) == qsum v.
Proof.
  induction v as [|x v IH]; intros a; simpl; [reflexivity|].
  unfold qsumf in *. simpl. replace (a - a)%nat with 0%nat by lia.
  rewrite <- (IH (S a)). apply Qplus_comp; [reflexivity|].
  apply (qsumf_ext (fun i => match (i - a)%nat with O => x | S m => nth m v 0 end) (fun i => nth (i - S a) v 0)).
  intros i I. apply in_seq in I. replace (i - a)%nat with (S (i - S a)) by lia. reflexivity.
Qed.

Lemma cart_sum probs : qsumf (jointp probs) (cart (map (@length Q) probs)) == qprod (map qsum probs).
Proof.
  induction probs as [|v r IH]; simpl.
  - unfold qsumf. simpl. ring.
  - rewrite qsumf_flat_map.
    rewrite (qsumf_ext _ (fun i => nth (i - 0) v 0 * qprod (map qsum r))).
    + rewrite (qsumf_ext _ (fun i => qprod (map qsum r) * nth (i - 0) v 0)) by (intros; ring).
      rewrite qsumf_scale, qsumf_seq_nth. ring.
    + intros i _. rewrite qsumf_map. rewrite Nat.sub_0_r.
      rewrite (qsumf_ext _ (fun c => nth i v 0 * jointp r c)) by (intros; reflexivity).
      rewrite qsumf_scale, IH. reflexivity.
Qed.

Lemma NoDup_cart dims : NoDup (cart dims).
Proof.
  induction dims as [|n r IH]; simpl; [constructor; [tauto|constructor]|].
  assert (forall a, NoDup (flat_map (fun i => map (cons i) (cart r)) (seq a n)) /\
                    forall k, In k (flat_map (fun i => map (cons i) (cart r)) (seq a n)) ->
                              exists i c, k = i :: c /\ (a <= i)%nat) as G.
  { induction n as [|n IHn]; intros a; simpl; [split; [constructor|tauto]|].
    destruct (IHn (S a)) as [N B]. split.
    - apply NoDup_app_intro; auto.
      + apply FinFun.Injective_map_NoDup; auto. intros x y E. now inversion E.
      + intros k I J. apply in_map_iff in I. destruct I as [c [<- _]].
        destruct (B _ J) as [i [c' [E L]]]. inversion E. lia.
    - intros k I. apply in_app_iff in I. destruct I as [I|I].
      + apply in_map_iff in I. destruct I as [c [<- _]]. exists a, c. split; auto.
      + destruct (B _ I) as [i [c [E L]]]. exists i, c. split; auto. lia. }
  apply G.
Qed.

Lemma qsumf_filter_split {A} (f : A -> Q) (keep : A -> bool) l :
  qsumf f l == qsumf f (filter keep l) + qsumf f (filter (fun x => negb (keep x)) l).
Proof.
  unfold qsumf. induction l as [|x l IH]; simpl; [ring|].
  destruct (keep x); simpl; rewrite IH; ring.
Qed.

Lemma fold_left_ext {A B} (f g : A -> B -> A) : (forall d a, f d a = g d a) ->
  forall l d, fold_left f l d = fold_left g l d.
Proof. intros E l; induction l as [|a l IH]; intros d; simpl; [reflexivity|]. now rewrite E, IH. Qed.

Lemma all_exact_list probs m :
  all_exact probs m =
  map (fun ids => (ids, (m * jointp probs ids, EXACT)))
      (filter (fun ids => negb (Qltb (jointp probs ids) nonzero_atol)) (cart (map (@length Q) probs))).
Proof.
  unfold all_exact.
  rewrite (fold_left_ext _ (fun d ids => if negb (Qltb (jointp probs ids) nonzero_atol)
                                          then dset d ids (m * jointp probs ids, EXACT) else d)).
  - rewrite (fold_dset_fresh (fun ids : key => ids) (fun ids => (m * jointp probs ids, EXACT))).
    + reflexivity.
    + simpl. rewrite map_id. apply NoDup_cart.
  - intros d a. cbv zeta. destruct (Qltb (jointp probs a) nonzero_atol); reflexivity.
Qed.

(* Proofs/WeightsSum.v — conservation of mass in the DFS: exact mass + residual table mass + cut-off loss = total. *)
From Coq Require Import QArith Qabs Qround Lia ZifyBool Lqa.
From CKT Require Import Common.Base Extracted.Facts Model.Weights.
From CKT Require Import Proofs.WeightsP Proofs.WeightsDfs Proofs.WeightsGen Proofs.WeightsTab.
Open Scope Q_scope.

Fixpoint ymass (ys : list yield) : Q :=
  match ys with
  | [] => 0
  | YFull _ p :: r => p + ymass r
  | YCond _ _ :: r => ymass r
  end.

Fixpoint nfull (ys : list yield) : nat :=
  match ys with
  | [] => 0%nat
  | YFull _ _ :: r => S (nfull r)
  | YCond _ _ :: r => nfull r
  end.

Lemma ymass_app a b : ymass (a ++ b) == ymass a + ymass b.
Proof. induction a as [|[s p|s v] a IH]; simpl; try rewrite IH; ring. Qed.

Lemma nfull_app a b : nfull (a ++ b) = (nfull a + nfull b)%nat.
Proof. induction a as [|[s p|s v] a IH]; simpl; lia. Qed.

Definition resid (s : sub) : Q := match s with SubNone => 1 | SubLeaf => 0 | SubNorm n => n end.

Definition nq (n : nat) : Q := inject_Z (Z.of_nat n).
Lemma nq_S n : nq (S n) == nq n + 1.
Proof. unfold nq. rewrite Nat2Z.inj_succ. unfold Z.succ. rewrite inject_Z_plus. reflexivity. Qed.
Lemma nq_mul a b : nq (a * b) == nq a * nq b.
Proof. unfold nq. rewrite Nat2Z.inj_mul, inject_Z_mult. reflexivity. Qed.
Lemma nq_nonneg n : 0 <= nq n.
Proof. unfold nq. change 0 with (inject_Z 0). rewrite <- Zle_Qle. lia. Qed.

(* ---------- the zeroing ---------- *)
Lemma zero_small_bounds x : 0 <= x -> 0 <= zero_small x /\ zero_small x <= x /\ x - zero_small x <= nonzero_atol.
Proof.
  intros N. unfold zero_small, isclose0. rewrite Qabs_pos by exact N.
  destruct (Qle_bool x nonzero_atol) eqn:E.
  - apply Qle_bool_iff in E. lra.
  - pose proof atol_pos. lra.
Qed.

Lemma zero_small_free x : band_free x -> zero_small x == x.
Proof.
  intros [E|B]; unfold zero_small.
  - destruct (isclose0 x); [now rewrite E|reflexivity].
  - now rewrite isclose0_big.
Qed.

Lemma qsum_zero_small tab : nonneg tab ->
  nonneg (map zero_small tab) /\
  0 <= qsum tab - qsum (map zero_small tab) /\
  qsum tab - qsum (map zero_small tab) <= nonzero_atol * nq (length tab) /\
  (Forall band_free tab -> qsum (map zero_small tab) == qsum tab).
Proof.
  induction 1 as [|x r Hx Hr IH]; simpl.
  - split; [constructor|]. split; [lra|]. split; [|intros _; reflexivity].
    assert (nq 0 == 0) as -> by reflexivity. lra.
  - destruct IH as [A [B [C D]]]. destruct (zero_small_bounds x Hx) as [Z1 [Z2 Z3]].
    split; [constructor; auto|]. split; [lra|]. split.
    + rewrite nq_S. lra.
    + intros F. inversion F; subst. rewrite D by assumption. now rewrite zero_small_free.
Qed.

(* ---------- conservation at the level of the children loop ---------- *)
Definition clr (t : list (key * list Q)) : Prop := Forall (fun kt => Forall band_free (snd kt)) t.

Lemma clr_app a b : clr (a ++ b) <-> clr a /\ clr b.
Proof. unfold clr. apply Forall_app. Qed.

Definition node_mass (B : Q) (node : key -> Q -> list yield * sub) (nraw : key -> Q -> list (key * list Q)) : Prop :=
  forall pf r, 0 <= r ->
    exists lost, 0 <= lost /\ lost <= B /\
      ymass (fst (node pf r)) + r * resid (snd (node pf r)) + r * lost == r /\
      0 <= resid (snd (node pf r)) /\ (clr (nraw pf r) -> lost == 0).

Lemma kids_mass thr node nraw B prefix rp : 0 <= rp -> 0 <= B -> node_mass B node nraw ->
  forall l i, unit_entries l ->
    exists lost, 0 <= lost /\ lost <= nq (length l) * B /\
      ymass (fst (fst (kids thr node prefix rp i l))) + rp * qsum (snd (fst (kids thr node prefix rp i l))) + rp * lost
        == rp * qsum l /\
      nonneg (snd (fst (kids thr node prefix rp i l))) /\
      (snd (kids thr node prefix rp i l) = false -> snd (fst (kids thr node prefix rp i l)) = l) /\
      (clr (kids_raw thr nraw prefix rp i l) -> lost == 0).
Proof.
  intros Hrp HB Hn l; induction l as [|p l' IH]; intros i U.
  - exists 0. simpl. assert (nq 0 == 0) as E0 by reflexivity.
    split; [lra|]. split; [rewrite E0; lra|]. split; [ring|]. split; [constructor|].
    split; [reflexivity|intros _; reflexivity].
  - inversion U as [|? ? [P0 P1] U']; subst. rewrite kids_cons. cbn [kids_raw].
    destruct (Qltb (rp * p) thr).
    { exists 0. cbn [fst snd ymass]. pose proof (nq_nonneg (length (p :: l'))).
      repeat split; try lra; try nra; auto.
      unfold nonneg. constructor; auto. eapply Forall_impl; [|exact U']. simpl. tauto. }
    assert (0 <= rp * p) as Hrpp by nra.
    destruct (Hn (prefix ++ [i]) (rp * p) Hrpp) as [lc [Lc0 [LcB [Ec [Rc Cc]]]]].
    destruct (node (prefix ++ [i]) (rp * p)) as [ys s] eqn:En. cbn [fst snd] in Ec, Rc.
    destruct (IH (S i) U') as [lk [Lk0 [LkB [Ek [Nk [Fk Ck]]]]]].
    destruct (kids thr node prefix rp (S i) l') as [[ys' tab] fnd] eqn:Ekk. cbn [fst snd] in Ek, Nk, Fk.
    exists (p * lc + lk).
    assert (0 <= p * lc + lk) as G1 by nra.
    assert (p * lc + lk <= nq (length (p :: l')) * B) as G2.
    { cbn [length]. rewrite nq_S. assert (p * lc <= B) by nra. nra. }
    assert (clr (nraw (prefix ++ [i]) (rp * p) ++ kids_raw thr nraw prefix rp (S i) l') -> p * lc + lk == 0) as G3.
    { intros C. apply clr_app in C. destruct C as [C1 C2]. rewrite (Cc C1), (Ck C2). ring. }
    destruct s as [| |n]; cbn [fst snd resid] in *.
    + split; auto. split; auto. split.
      { rewrite ymass_app. cbn [qsum fold_right]. fold (qsum tab). fold (qsum l'). lra. }
      split; [constructor; auto|]. split; [|exact G3].
      intros F. rewrite (Fk F). reflexivity.
    + split; auto. split; auto. split.
      { rewrite ymass_app. cbn [qsum fold_right]. fold (qsum tab). fold (qsum l'). lra. }
      split; [constructor; auto; lra|]. split; [discriminate|exact G3].
    + split; auto. split; auto. split.
      { rewrite ymass_app. cbn [qsum fold_right]. fold (qsum tab). fold (qsum l'). lra. }
      split; [constructor; auto; nra|]. split; [discriminate|exact G3].
Qed.

(* ---------- conservation at a node ---------- *)
Definition vec_ok (v : list Q) : Prop := nonneg v /\ qsum v == 1.

Lemma vec_ok_unit v : vec_ok v -> unit_entries v.
Proof.
  intros [N S]. unfold unit_entries. unfold nonneg in N. rewrite Forall_forall in *. intros x I. split; auto.
  rewrite <- S. apply qsum_ge_entry; auto. now rewrite Forall_forall.
Qed.

Lemma node_raw_cons thr cur rest prefix rp :
  node_raw thr (cur :: rest) prefix rp =
  kids_raw thr (node_raw thr rest) prefix rp 0%nat cur ++
  (if snd (kids thr (dfs_node thr rest) prefix rp 0%nat cur)
   then [(prefix, snd (fst (kids thr (dfs_node thr rest) prefix rp 0%nat cur)))] else []).
Proof. cbn [node_raw]. destruct (kids thr (dfs_node thr rest) prefix rp 0%nat cur) as [[ys tab] fnd]. reflexivity. Qed.

Lemma ymass_snoc_cond ys st v : ymass (ys ++ [YCond st v]) == ymass ys.
Proof. rewrite ymass_app. simpl. ring. Qed.

Lemma node_mass_all thr bases : Forall vec_ok bases ->
  node_mass (nonzero_atol * nq (tree_size bases)) (dfs_node thr bases) (node_raw thr bases).
Proof.
  pose proof atol_pos as Ap.
  induction bases as [|cur rest IH]; intros V pf r Hr.
  - exists 0. simpl. assert (nq 0 == 0) as E0 by reflexivity.
    split; [lra|]. split; [rewrite E0; lra|]. split; [ring|]. split; [lra|intros _; reflexivity].
  - inversion V as [|? ? [Nc Sc] Vr]; subst. specialize (IH Vr).
    assert (0 <= nonzero_atol * nq (tree_size rest)) as HB by (pose proof (nq_nonneg (tree_size rest)); nra).
    destruct (kids_mass thr (dfs_node thr rest) (node_raw thr rest) _ pf r Hr HB IH cur 0%nat
                (vec_ok_unit cur (conj Nc Sc))) as [lk [Lk0 [LkB [Ek [Nk [Fk Ck]]]]]].
    rewrite dfs_node_cons, node_raw_cons.
    destruct (kids thr (dfs_node thr rest) pf r 0%nat cur) as [[ys tab] fnd] eqn:Ekk. cbn [fst snd] in *.
    assert (nq (tree_size (cur :: rest)) == nq (length cur) * nq (tree_size rest) + nq (length cur)) as Ts.
    { cbn [tree_size]. rewrite nq_mul, nq_S. ring. }
    unfold finish. destruct fnd.
    + destruct (qsum_zero_small tab Nk) as [N0 [D0 [D1 D2]]].
      pose proof (qsum_nonneg _ N0) as Qn.
      assert (length tab = length cur) as Lt.
      { pose proof (kids_tab_supp thr (dfs_node thr rest) pf r cur 0%nat Nc) as [_ L]. now rewrite Ekk in L. }
      exists (lk + (qsum tab - qsum (map zero_small tab))).
      assert (lk + (qsum tab - qsum (map zero_small tab)) <= nonzero_atol * nq (tree_size (cur :: rest))) as G2.
      { rewrite Ts. rewrite Lt in D1. lra. }
      assert (clr (kids_raw thr (node_raw thr rest) pf r 0%nat cur ++ [(pf, tab)]) ->
              lk + (qsum tab - qsum (map zero_small tab)) == 0) as G3.
      { intros C. apply clr_app in C. destruct C as [C1 C2]. inversion C2; subst. simpl in H1.
        rewrite (Ck C1), (D2 H1). ring. }
      destruct pf as [|a pf']; cbn [fst snd resid].
      * split; [lra|]. split; auto. split; [rewrite ymass_snoc_cond; rewrite Sc in Ek; lra|]. split; auto.
      * split; [lra|]. split; auto. split; [|split; auto].
        destruct (Qeq_bool (qsum (map zero_small tab)) 0); [rewrite app_nil_r|rewrite ymass_snoc_cond];
          rewrite Sc in Ek; lra.
    + exists lk. cbn [fst snd resid]. rewrite (Fk eq_refl) in Ek. rewrite Sc in Ek.
      split; auto. split; [rewrite Ts; pose proof (nq_nonneg (length cur)); nra|].
      split; [lra|]. split; [lra|]. intros C. rewrite app_nil_r in C. auto.
Qed.

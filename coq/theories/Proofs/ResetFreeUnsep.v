(* Proofs/ResetFreeUnsep.v — the UNSEPARATED workflow  cut_wires -> expand_observables ->
   generate_cutting_experiments(circuit, PauliList):  the measured qubits of every commuting group avoid the Move
   sources, hence no Reset in any subexperiment.  Same ingredients as Proofs/ResetFreeSep.v (sep_suffix), without
   partition_problem. *)
From Coq Require Import Lia ZifyBool Sorted Permutation.
From CKT Require Import Common.Base Common.Circ Model.Observables Proofs.ObservablesP.
From CKT Require Import Model.ResetPasses Model.Decompose Model.Measurement Model.ResetFree.
From CKT Require Import Proofs.ResetPassesP Proofs.DecomposeP Proofs.ResetFreeP.
From CKT Require Import Model.Separate Model.Partition Proofs.SeparateP Proofs.PartitionP.
From CKT Require Import Model.Grouping Proofs.GroupingP.
From CKT Require Import Model.CutWires Proofs.CutWiresP Proofs.ResetFreeCut Proofs.ResetFreeSep.

(* every Move-like source of the cut_wires output sits on a source position *)
Lemma cut_src_pos (env : benv) nq c b bid lbl x q :
  wf_circ nq c = true -> input_ok env c = true -> basis_class env b = 1 ->
  In x (cut_wires_gen (Qpd2 b bid lbl) nq c) -> src_qubit env x = Some q -> src_pos nq c q.
Proof.
  intros W IO K Ix Sq.
  destruct (cut_desc2 env nq c b bid lbl W IO K x Ix) as [[_ P]|(b' & bid' & l' & p & q' & EO & EQ & _ & _ & SP)].
  - unfold src_qubit in Sq. unfold is_qpd in P. destruct (iop x); discriminate.
  - unfold src_qubit in Sq. rewrite EO, EQ in Sq. destruct (Nat.eqb (basis_class env b') 1) eqn:E1; [|discriminate].
    apply Nat.eqb_eq in E1. simpl in Sq. injection Sq as <-. now apply SP.
Qed.

Theorem unseparated_suffix (env : benv) nq c b bid lbl ps eps o cogs lk cog :
  wf_circ nq c = true -> input_ok env c = true -> basis_class env b = 1 ->
  (forall p, In p ps -> length (plets p) = nq) ->
  expand nq (seq 0 nq) (new_qubits nq c) ps = Ok eps ->
  grouping_contract eps o = true -> collection eps o = Ok (cogs, lk) -> In cog cogs ->
  suffix_avoids_sources env (cut_wires_gen (Qpd2 b bid lbl) nq c) (cg_indices cog).
Proof.
  intros W IO K PW EX HK HC Hcog x q Ix Sq Hq.
  pose proof (cut_src_pos env nq c b bid lbl x q W IO K Ix Sq) as P.
  apply In_nth_error in Hcog as [i Hi].
  destruct (collection_spec _ _ _ _ HC) as (_ & M1 & GB & _).
  destruct (GB i cog Hi) as [MG PI].
  destruct (cog_post_init_spec _ _ _ _ PI) as (_ & _ & IDX & _).
  apply IDX in Hq as [_ NZ].
  destruct (mgo_sound _ _ _ MG) as (_ & _ & _ & _ & _ & MIN).
  apply MIN in NZ as (m & Im & NZ).
  assert (Iso : In m eps).
  { destruct (contract_facts _ _ HK) as (_ & F2 & _). apply F2. apply in_concat.
    exists (cg_members cog). split; [|exact Im]. rewrite <- M1. apply in_map. now apply nth_error_In in Hi. }
  rewrite (expand_new_qubits nq c ps W) in EX. inversion EX; subst eps. clear EX.
  apply in_map_iff in Iso as (p & <- & Ip).
  destruct (expand1_letters nq c p W (PW p Ip)) as (_ & _ & _ & ID).
  apply NZ. apply ID. intros q0 Q0. exact (src_pos_not_final nq c _ q0 P Q0).
Qed.

Theorem unseparated_no_reset (env : benv) gh gsx nq c b bid lbl ps eps o cogs lk cog qc ids ms out :
  wf_circ nq c = true -> input_ok env c = true -> basis_class env b = 1 ->
  (forall p, In p ps -> length (plets p) = nq) ->
  expand nq (seq 0 nq) (new_qubits nq c) ps = Ok eps ->
  grouping_contract eps o = true -> collection eps o = Ok (cogs, lk) -> In cog cogs ->
  mnq qc = nq + CutWires.count_markers c -> mdata qc = cut_wires_gen (Qpd2 b bid lbl) nq c ->
  valid env (mdata qc) ids ms ->
  ResetFree.finish gh gsx env qc ids ms (plets (cg_general cog)) (cg_indices cog) = Ok out ->
  count_resets out = 0.
Proof.
  intros W IO K PW EX HK HC Hcog Eq Ed Hv Hf.
  apply (finish_no_reset gh gsx env qc ids ms (plets (cg_general cog)) (cg_indices cog) out); auto.
  - rewrite Eq, Ed. now apply cut_wires_no_reuse_gen.
  - rewrite Ed. exact (unseparated_suffix env nq c b bid lbl ps eps o cogs lk cog W IO K PW EX HK HC Hcog).
Qed.

(* ================================================================================================
   partition_problem applied to ANY circuit that already satisfies no_reuse and holds only two-qubit placeholders
   (e.g. hand-placed Moves turned into TwoQubitQPDGates by cut_gates, or the cut_wires output): every subcircuit
   satisfies no_reuse.  Gates that partition_problem cuts itself must have class-0 bases (a plain `Move` instruction
   crossing a partition is therefore NOT covered).
   ================================================================================================ *)
Definition no_halves (c : circ) : bool :=
  forallb (fun x => match iop x with Qpd1 _ _ _ _ => false | _ => true end) c.

Lemma allowed_desc2 (env : benv) n x : allowed env n x = true ->
  match iop x with Qpd1 _ _ _ _ => false | _ => true end = true -> desc2 env (fun _ => True) x.
Proof.
  unfold allowed, desc2, plain, is_reset, is_qpd. intros A H.
  destruct (iop x) as [g0|lb| | | | |b bid l|b h bid l|] eqn:OP; try discriminate; try (left; split; reflexivity).
  right. apply andb_prop in A as [C A]. apply negb_true_iff, Nat.eqb_neq in C.
  destruct (iqs x) as [|a [|a' [|? ?]]]; try discriminate.
  apply andb_prop in A as [_ N]. apply negb_true_iff, Nat.eqb_neq in N.
  exists b, bid, l, a, a'. repeat split; auto.
Qed.

Section PartitionAny.
  Variable basis_of : op -> option (nat * qlabel).
  Variable relabel : qlabel -> nat.
  Variable dx : circ -> circ.
  Hypothesis DX : dx_contract dx.
  Variables (env : benv) (n : nat) (cut : circ).
  Hypothesis NUc : no_uuid cut.
  Hypothesis NR : no_reuse env n cut.
  Hypothesis NH : no_halves cut = true.
  Hypothesis GCC : forall y, In y cut -> cut_reset_free env basis_of y.
  Variables (labels : option (list label)) (obs : option (list pauli)) (ncl ncr : nat).
  Variables (subs : list subcirc) (bases : list nat) (so : option (list (nat * list pauli))).
  Hypothesis PP : partition_problem basis_of relabel dx n ncl ncr cut labels obs = Ok (subs, bases, so).
  Let ls := labels_used n cut labels.
  Let SPt : nat -> Prop := fun _ => True.

  Lemma D2 : forall y, In y cut -> desc2 env SPt y.
  Proof.
    intros y I. apply (allowed_desc2 env n).
    - apply in_split in I as (pre & post & ->). now destruct (NR pre y post eq_refl).
    - unfold no_halves in NH. rewrite forallb_forall in NH. now apply NH.
  Qed.

  Lemma any_no_reuse l nql body : In (l, nql, body) subs -> no_reuse env nql body.
  Proof.
    intros Hin.
    destruct (partition_problem_ok _ _ _ _ _ _ _ _ _ _ _ _ PP) as [_ [_ [_ [qc [qm [EP [_ [ES _]]]]]]]].
    fold ls in EP, ES.
    pose proof (pcq_ok_rel basis_of n cut ls qc EP) as HF.
    set (qc' := fst (number_qpd relabel qc 0)) in *.
    set (cut' := expand_qpd2 qc').
    pose proof (problem_no_uuid basis_of relabel dx DX ls cut qc NUc HF) as NU'. fold qc' in NU'.
    destruct (separate_spec n [] (dx qc') (Some ls) subs qm NU' ES) as [Ln [_ [_ [_ [_ BODY]]]]].
    simpl sep_labels in *.
    destruct (BODY l nql body Hin) as [_ [Enq RM]]. change (clbits_of []) with (@nil nat) in RM.
    (* wires of the subcircuit = wires of the expanded cut circuit *)
    destruct (problem_recompose basis_of relabel dx DX n ncl ncr cut labels obs subs bases so NUc PP)
      as (qc0 & EP0 & _ & _ & WVall & _).
    fold ls in EP0. rewrite EP in EP0. inversion EP0; subst qc0. fold qc' in WVall. fold cut' in WVall.
    destruct (WVall l nql body Hin) as [_ WV].
    (* the instructions along the chain *)
    assert (D2c : forall y, In y cut -> desc2 env SPt y) by exact D2.
    assert (GCc : forall y, In y cut -> cut_reset_free env basis_of y) by exact GCC.
    assert (D2q : forall y, In y qc -> desc2 env SPt y).
    { intros y Iy. destruct (Forall2_In_r _ _ _ _ HF Iy) as (x & Ix & Rx).
      apply (pcq_desc2 env SPt basis_of ls x y (GCc x Ix) Rx). now apply D2c. }
    assert (D2q' : forall y, In y qc' -> desc2 env SPt y).
    { intros y Iy. destruct (Forall2_In_r _ _ _ _ (number_rel relabel qc 0) Iy) as (x & Ix & k & ->).
      apply relabel_desc2. now apply D2q. }
    assert (D1c : forall z, In z cut' -> desc1 env SPt z).
    { intros z Iz. apply in_flat_map in Iz as (w & Iw & Iz). apply (expand_desc1 env SPt w z); auto. }
    assert (D1D : forall z, In z (dx qc') -> desc1 env SPt z).
    { intros z Iz. apply D1c. apply (Permutation_in _ (proj1 (DX qc')) Iz). }
    (* the wires along the chain *)
    assert (F01 : Forall2 (le2 env) cut qc).
    { apply Forall2_weaken_in with (R1 := pcq_rel basis_of ls); [|exact HF]. intros x x' Ix Rx.
      exact (pcq_le env basis_of ls x x' (GCc x Ix) Rx). }
    assert (F12 : Forall2 (le2 env) qc qc').
    { apply Forall2_weaken with (R1 := fun x x' => exists k, x' = relabel_instr relabel k x); [|apply number_rel].
      intros x x' [k ->]. exact (relabel_le env relabel k x). }
    assert (WOK : forall a, wire_ok env a (wire_view a cut')).
    { intros a. unfold wire_view.
      apply wire_ok_rel with (w := filter (touches a) cut').
      { apply Forall2_map_r. intros x _. destruct (sd_norm_b env a x) as [E1 E2]. split; intros a'; congruence. }
      unfold cut'. rewrite (wire_of_expand env SPt a qc' D2q').
      apply wire_ok_rel with (w := filter (touches a) qc').
      { apply Forall2_map_r. intros x _. apply half_on_le. }
      apply (le2_wires env a qc qc' F12). apply (le2_wires env a cut qc F01).
      apply (no_reuse_wires env n cut). exact NR. }
    subst nql.
    exact (body_no_reuse env SPt ls l n (dx qc') cut' body D1D RM WV WOK).
  Qed.
End PartitionAny.

Theorem partitioned_no_reuse : forall basis_of relabel dx, dx_contract dx ->
  forall (env : benv) n C, no_uuid C -> no_reuse env n C -> no_halves C = true ->
  (forall y b l, In y C -> is_qpd2 y = false -> basis_of (iop y) = Some (b, l) -> basis_class env b = 0) ->
  forall labels obs ncl ncr subs bases so,
  partition_problem basis_of relabel dx n ncl ncr C labels obs = Ok (subs, bases, so) ->
  forall l nql body, In (l, nql, body) subs -> no_reuse env nql body.
Proof.
  intros basis_of relabel dx DX env n C NU NR NH GC labels obs ncl ncr subs bases so PP l nql body Hin.
  apply (any_no_reuse basis_of relabel dx DX env n C NU NR NH) with (labels := labels) (obs := obs) (ncl := ncl) (ncr := ncr)
    (subs := subs) (bases := bases) (so := so) (l := l); auto.
  intros y Iy NQ b l0 EB. exact (GC y b l0 Iy NQ EB).
Qed.

(* ================================================================================================
   the placeholder bit is ignored by the decoding (composition with C11): when the group measures nothing, every
   member's bit mask is 0 and the decoded factor is +1 whatever the outcome word is - in particular whatever the
   placeholder bit is
   ================================================================================================ *)
From CKT Require Import Proofs.MeasurementP.

Theorem placeholder_bit_masked g members masks :
  cog_post_init g members = Ok ([], masks) ->
  forall j m, nth_error members j = Some m ->
    nth j masks 0%N = 0%N /\ forall b b', decode (nth j masks 0%N) b = decode (nth j masks 0%N) b'.
Proof.
  intros H j m Hm.
  destruct (cog_post_init_spec _ _ _ _ H) as (_ & _ & I & _ & E).
  destruct (E j m Hm) as [_ [v [Hv [Mv _]]]].
  rewrite (nth_error_nth _ _ _ Hv). unfold mask_of in Mv. simpl in Mv. inversion Mv; subst v.
  split; [reflexivity|]. intros b b'. unfold decode. now rewrite !N.land_0_r.
Qed.

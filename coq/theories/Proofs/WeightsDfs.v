(* Proofs/WeightsDfs.v — the DFS specification: shape of the yields, values, completeness. *)
From Coq Require Import QArith Qabs Qround Lia ZifyBool.
From CKT Require Import Common.Base Extracted.Facts Model.Weights Proofs.WeightsP.
Open Scope Q_scope.

Definition ystate (y : yield) : key := match y with YFull s _ => s | YCond s _ => s end.

(* c is a valid (partial) index vector into bases *)
Fixpoint idx_ok (bases : list (list Q)) (c : key) : Prop :=
  match c, bases with
  | [], _ => True
  | j :: c', v :: r => (j < length v)%nat /\ idx_ok r c'
  | _ :: _, [] => False
  end.

Lemma idx_ok_length bases c : idx_ok bases c -> (length c <= length bases)%nat.
Proof.
  revert bases; induction c as [|j c IH]; intros [|v r]; simpl; try lia; try tauto.
  intros [_ H]. apply IH in H. lia.
Qed.

Lemma kids_cons thr node prefix rp i p l' :
  kids thr node prefix rp i (p :: l') =
  if Qltb (rp * p) thr then ([], p :: l', false)
  else let '(ys, s) := node (prefix ++ [i]) (rp * p) in
       let '(ys', tab, fnd) := kids thr node prefix rp (S i) l' in
       match s with
       | SubNone => (ys ++ ys', p :: tab, fnd)
       | SubLeaf => (ys ++ ys', 0 :: tab, true)
       | SubNorm n => (ys ++ ys', p * n :: tab, true)
       end.
Proof. reflexivity. Qed.

Lemma dfs_node_cons thr cur rest prefix rp :
  dfs_node thr (cur :: rest) prefix rp = finish prefix (kids thr (dfs_node thr rest) prefix rp 0%nat cur).
Proof. reflexivity. Qed.

(* what a yield of the subtree below `prefix` looks like *)
Definition under (prefix : key) (bases : list (list Q)) (y : yield) : Prop :=
  exists c, ystate y = prefix ++ c /\ idx_ok bases c /\
    match y with
    | YFull _ _ => length c = length bases
    | YCond _ _ => (length c < length bases)%nat
    end.

Definition under_from (prefix : key) (i n : nat) (rest : list (list Q)) (y : yield) : Prop :=
  exists j c, (i <= j < i + n)%nat /\ ystate y = prefix ++ j :: c /\ idx_ok rest c /\
    match y with
    | YFull _ _ => length c = length rest
    | YCond _ _ => (length c < length rest)%nat
    end.

Lemma kids_under thr node prefix rp rest :
  (forall pf r y, In y (fst (node pf r)) -> under pf rest y) ->
  forall l i y, In y (fst (fst (kids thr node prefix rp i l))) -> under_from prefix i (length l) rest y.
Proof.
  intros Hn l; induction l as [|p l' IH]; intros i y; [simpl; tauto|].
  rewrite kids_cons. destruct (Qltb (rp * p) thr); [simpl; tauto|].
  destruct (node (prefix ++ [i]) (rp * p)) as [ys s] eqn:En.
  destruct (kids thr node prefix rp (S i) l') as [[ys' tab] fnd] eqn:Ek.
  assert (In y (ys ++ ys') -> under_from prefix i (length (p :: l')) rest y) as G.
  { rewrite in_app_iff. intros [H|H].
    - specialize (Hn (prefix ++ [i]) (rp * p) y). rewrite En in Hn. destruct (Hn H) as [c [E [O L]]].
      exists i, c. rewrite <- app_assoc in E. simpl in *. repeat split; auto; lia.
    - specialize (IH (S i) y). rewrite Ek in IH. destruct (IH H) as [j [c [R [E [O L]]]]].
      exists j, c. simpl. repeat split; auto; lia. }
  destruct s; simpl; exact G.
Qed.

Lemma finish_In prefix ys tab fnd y :
  In y (fst (finish prefix (ys, tab, fnd))) -> In y ys \/ (fnd = true /\ exists v, y = YCond prefix v).
Proof.
  unfold finish. destruct fnd; [|simpl; tauto].
  destruct prefix as [|a pr].
  - simpl. rewrite in_app_iff. simpl. intros [H|[H|[]]]; [tauto|]. right. split; auto. eexists; eauto.
  - cbn [fst]. rewrite in_app_iff. intros [H|H]; [tauto|].
    destruct (Qeq_bool _ 0); simpl in H; [tauto|]. destruct H as [H|[]]. right. split; auto. eexists; eauto.
Qed.

Lemma node_under thr bases : forall prefix rp y, In y (fst (dfs_node thr bases prefix rp)) -> under prefix bases y.
Proof.
  induction bases as [|cur rest IH]; intros prefix rp y.
  - simpl. intros [<-|[]]. exists []. rewrite app_nil_r. simpl. auto.
  - rewrite dfs_node_cons.
    destruct (kids thr (dfs_node thr rest) prefix rp 0%nat cur) as [[ys tab] fnd] eqn:Ek.
    intros H. apply finish_In in H. destruct H as [H|[_ [v ->]]].
    + pose proof (kids_under thr (dfs_node thr rest) prefix rp rest IH cur 0%nat y) as K.
      rewrite Ek in K. destruct (K H) as [j [c [R [E [O L]]]]].
      exists (j :: c). simpl. repeat split; auto; try lia. destruct y; simpl; lia.
    + exists []. rewrite app_nil_r. simpl. repeat split; auto. lia.
Qed.

(* Proofs/WeightsDfs.v — the DFS specification: shape of the yields, values, completeness. *)
From Coq Require Import QArith Qabs Qround Lia ZifyBool.
From CKT Require Import Common.Base Extracted.Facts Model.Weights Proofs.WeightsP.
Open Scope Q_scope.

Definition ystate (y : yield) : key := match y with YFull s _ => s | YCond s _ => s end.

(* c is a valid (partial) index vector into bases *)
Fixpoint idx_ok (bases : list (list Q)) (c : key) : Prop :=
  match c, bases with
  | [], _ => True
  | j :: c', v :: r => (j < length v)%nat /\ idx_ok r c'
  | _ :: _, [] => False
  end.

Lemma idx_ok_length bases c : idx_ok bases c -> (length c <= length bases)%nat.
Proof.
  revert bases; induction c as [|j c IH]; intros [|v r]; simpl; try lia; try tauto.
  intros [_ H]. apply IH in H. lia.
Qed.

Lemma kids_cons thr node prefix rp i p l' :
  kids thr node prefix rp i (p :: l') =
  if Qltb (rp * p) thr then ([], p :: l', false)
  else let '(ys, s) := node (prefix ++ [i]) (rp * p) in
       let '(ys', tab, fnd) := kids thr node prefix rp (S i) l' in
       match s with
       | SubNone => (ys ++ ys', p :: tab, fnd)
       | SubLeaf => (ys ++ ys', 0 :: tab, true)
       | SubNorm n => (ys ++ ys', p * n :: tab, true)
       end.
Proof. reflexivity. Qed.

Lemma dfs_node_cons thr cur rest prefix rp :
  dfs_node thr (cur :: rest) prefix rp = finish prefix (kids thr (dfs_node thr rest) prefix rp 0%nat cur).
Proof. reflexivity. Qed.

(* what a yield of the subtree below `prefix` looks like *)
Definition under (prefix : key) (bases : list (list Q)) (y : yield) : Prop :=
  exists c, ystate y = prefix ++ c /\ idx_ok bases c /\
    match y with
    | YFull _ _ => length c = length bases
    | YCond _ _ => (length c < length bases)%nat
    end.

Definition under_from (prefix : key) (i n : nat) (rest : list (list Q)) (y : yield) : Prop :=
  exists j c, (i <= j < i + n)%nat /\ ystate y = prefix ++ j :: c /\ idx_ok rest c /\
    match y with
    | YFull _ _ => length c = length rest
    | YCond _ _ => (length c < length rest)%nat
    end.

Lemma kids_under thr node prefix rp rest :
  (forall pf r y, In y (fst (node pf r)) -> under pf rest y) ->
  forall l i y, In y (fst (fst (kids thr node prefix rp i l))) -> under_from prefix i (length l) rest y.
Proof.
  intros Hn l; induction l as [|p l' IH]; intros i y; [simpl; tauto|].
  rewrite kids_cons. destruct (Qltb (rp * p) thr); [simpl; tauto|].
  destruct (node (prefix ++ [i]) (rp * p)) as [ys s] eqn:En.
  destruct (kids thr node prefix rp (S i) l') as [[ys' tab] fnd] eqn:Ek.
  assert (In y (ys ++ ys') -> under_from prefix i (length (p :: l')) rest y) as G.
  { rewrite in_app_iff. intros [H|H].
    - specialize (Hn (prefix ++ [i]) (rp * p) y). rewrite En in Hn. destruct (Hn H) as [c [E [O L]]].
      exists i, c. rewrite <- app_assoc in E. simpl in *. repeat split; auto; lia.
    - specialize (IH (S i) y). rewrite Ek in IH. destruct (IH H) as [j [c [R [E [O L]]]]].
      exists j, c. simpl. repeat split; auto; lia. }
  destruct s; simpl; exact G.
Qed.

Lemma finish_In prefix ys tab fnd y :
  In y (fst (finish prefix (ys, tab, fnd))) -> In y ys \/ (fnd = true /\ exists v, y = YCond prefix v).
Proof.
  unfold finish. destruct fnd; [|simpl; tauto].
  destruct prefix as [|a pr].
  - simpl. rewrite in_app_iff. simpl. intros [H|[H|[]]]; [tauto|]. right. split; auto. eexists; eauto.
  - cbn [fst]. rewrite in_app_iff. intros [H|H]; [tauto|].
    destruct (Qeq_bool _ 0); simpl in H; [tauto|]. destruct H as [H|[]]. right. split; auto. eexists; eauto.
Qed.

Lemma node_under thr bases : forall prefix rp y, In y (fst (dfs_node thr bases prefix rp)) -> under prefix bases y.
Proof.
  induction bases as [|cur rest IH]; intros prefix rp y.
  - simpl. intros [<-|[]]. exists []. rewrite app_nil_r. simpl. auto.
  - rewrite dfs_node_cons.
    destruct (kids thr (dfs_node thr rest) prefix rp 0%nat cur) as [[ys tab] fnd] eqn:Ek.
    intros H. apply finish_In in H. destruct H as [H|[_ [v ->]]].
    + pose proof (kids_under thr (dfs_node thr rest) prefix rp rest IH cur 0%nat y) as K.
      rewrite Ek in K. destruct (K H) as [j [c [R [E [O L]]]]].
      exists (j :: c). simpl. repeat split; auto; try lia. destruct y; simpl; lia.
    + exists []. rewrite app_nil_r. simpl. repeat split; auto. lia.
Qed.

(* ---------- values of full states ---------- *)
From Coq Require Import Lqa.

Lemma jointp_cons v r j c : jointp (v :: r) (j :: c) = nth j v 0 * jointp r c.
Proof. reflexivity. Qed.

Definition full_ok (thr : Q) (pf : key) (r : Q) (rest : list (list Q)) (y : yield) : Prop :=
  match y with
  | YFull st p => exists c, st = pf ++ c /\ idx_ok rest c /\ length c = length rest /\
                            p == r * jointp rest c /\ thr <= p
  | YCond _ _ => True
  end.

Lemma kids_full thr node prefix rp rest :
  (forall pf r y, thr <= r -> In y (fst (node pf r)) -> full_ok thr pf r rest y) ->
  forall l i y, In y (fst (fst (kids thr node prefix rp i l))) ->
    match y with
    | YFull st p => exists j c, (i <= j < i + length l)%nat /\ st = prefix ++ j :: c /\ idx_ok rest c /\
                       length c = length rest /\ p == rp * (nth (j - i) l 0 * jointp rest c) /\ thr <= p
    | YCond _ _ => True
    end.
Proof.
  intros Hn l; induction l as [|p l' IH]; intros i y; [simpl; tauto|].
  rewrite kids_cons. destruct (Qltb (rp * p) thr) eqn:Et; [simpl; tauto|].
  apply Qltb_ge in Et.
  destruct (node (prefix ++ [i]) (rp * p)) as [ys s] eqn:En.
  destruct (kids thr node prefix rp (S i) l') as [[ys' tab] fnd] eqn:Ek.
  assert (In y (ys ++ ys') ->
    match y with
    | YFull st p0 => exists j c, (i <= j < i + length (p :: l'))%nat /\ st = prefix ++ j :: c /\ idx_ok rest c /\
                       length c = length rest /\ p0 == rp * (nth (j - i) (p :: l') 0 * jointp rest c) /\ thr <= p0
    | YCond _ _ => True
    end) as G.
  { rewrite in_app_iff. intros [H|H].
    - specialize (Hn (prefix ++ [i]) (rp * p) y Et). rewrite En in Hn. specialize (Hn H).
      destruct y as [st p0|]; [|exact I]. destruct Hn as [c [E [O [L [V T]]]]].
      exists i, c. rewrite <- app_assoc in E. replace (i - i)%nat with 0%nat by lia. simpl.
      repeat split; auto; try lia. rewrite V. ring.
    - specialize (IH (S i) y). rewrite Ek in IH. specialize (IH H).
      destruct y as [st p0|]; [|exact I]. destruct IH as [j [c [R [E [O [L [V T]]]]]]].
      exists j, c. replace (j - i)%nat with (S (j - S i)) by lia. simpl. repeat split; auto; lia. }
  destruct s; simpl; exact G.
Qed.

Lemma node_full thr bases : forall pf r y, thr <= r -> In y (fst (dfs_node thr bases pf r)) -> full_ok thr pf r bases y.
Proof.
  induction bases as [|cur rest IH]; intros pf r y T.
  - simpl. intros [<-|[]]. exists []. rewrite app_nil_r. simpl. repeat split; auto. ring.
  - rewrite dfs_node_cons.
    destruct (kids thr (dfs_node thr rest) pf r 0%nat cur) as [[ys tab] fnd] eqn:Ek.
    intros H. apply finish_In in H. destruct H as [H|[_ [v ->]]]; [|exact I].
    pose proof (kids_full thr (dfs_node thr rest) pf r rest IH cur 0%nat y) as K.
    rewrite Ek in K. specialize (K H). destruct y as [st p0|]; [|exact I].
    destruct K as [j [c [R [E [O [L [V T']]]]]]].
    exists (j :: c). rewrite Nat.sub_0_r in V. simpl. repeat split; auto; lia.
Qed.

(* ---------- completeness under the documented precondition ---------- *)
Definition unit_entries (v : list Q) : Prop := Forall (fun x => 0 <= x /\ x <= 1) v.

Lemma jointp_unit bases c : Forall unit_entries bases -> 0 <= jointp bases c /\ jointp bases c <= 1.
Proof.
  revert c; induction bases as [|v r IH]; intros c F; [simpl; destruct c; lra|].
  destruct c as [|j c]; [simpl; lra|]. rewrite jointp_cons.
  inversion F as [|? ? Fv Fr]; subst. destruct (IH c Fr) as [A B].
  assert (0 <= nth j v 0 /\ nth j v 0 <= 1) as [C D].
  { destruct (Nat.lt_ge_cases j (length v)) as [L|L].
    - unfold unit_entries in Fv. rewrite Forall_forall in Fv. apply Fv. now apply nth_In.
    - rewrite nth_overflow by lia. lra. }
  split; nra.
Qed.

Lemma desc_b_cons p l : desc_b (p :: l) = true -> Forall (fun x => x <= p) l /\ desc_b l = true.
Proof.
  revert p; induction l as [|y r IH]; intros p H; [split; [constructor|reflexivity]|].
  simpl in H. apply andb_prop in H as [H1 H2]. apply Qle_bool_iff in H1.
  destruct (IH y H2) as [F D]. split; [|exact H2].
  constructor; [exact H1|]. eapply Forall_impl; [|exact F]. intros x Hx. simpl in Hx. lra.
Qed.

Lemma Qmult_le_l_nonneg a x y : 0 <= a -> x <= y -> a * x <= a * y.
Proof. intros A H. nra. Qed.

Definition has_full (ys : list yield) (st : key) : Prop := exists p, In (YFull st p) ys.

Lemma kids_complete thr node prefix rp rest :
  0 <= rp -> Forall unit_entries rest ->
  (forall pf r c, 0 <= r -> idx_ok rest c -> length c = length rest -> thr <= r * jointp rest c ->
        has_full (fst (node pf r)) (pf ++ c)) ->
  forall l i j c, unit_entries l -> desc_b l = true -> (i <= j < i + length l)%nat ->
    idx_ok rest c -> length c = length rest -> thr <= rp * (nth (j - i) l 0 * jointp rest c) ->
    has_full (fst (fst (kids thr node prefix rp i l))) (prefix ++ j :: c).
Proof.
  intros Hrp Fr Hn l; induction l as [|p l' IH]; intros i j c U Dd R O L T; [simpl in R; lia|].
  rewrite kids_cons.
  destruct (desc_b_cons _ _ Dd) as [Fle Dd'].
  inversion U as [|? ? [Up0 Up1] U']; subst.
  destruct (jointp_unit rest c Fr) as [J0 J1].
  assert (0 <= nth (j - i) (p :: l') 0 /\ nth (j - i) (p :: l') 0 <= p) as [N0 N1].
  { destruct (j - i)%nat as [|k] eqn:Ej; simpl; [lra|].
    assert (In (nth k l' 0) l') as Hin by (apply nth_In; simpl in R; lia).
    rewrite Forall_forall in Fle. specialize (Fle _ Hin).
    unfold unit_entries in U'. rewrite Forall_forall in U'. specialize (U' _ Hin). simpl in Fle. lra. }
  assert (thr <= rp * p) as Tp.
  { assert (nth (j - i) (p :: l') 0 * jointp rest c <= p) as A1 by nra.
    assert (rp * (nth (j - i) (p :: l') 0 * jointp rest c) <= rp * p) as A2.
    { apply Qmult_le_l_nonneg; auto. }
    lra. }
  destruct (Qltb (rp * p) thr) eqn:Et; [apply Qltb_lt in Et; lra|].
  destruct (node (prefix ++ [i]) (rp * p)) as [ys s] eqn:En.
  destruct (kids thr node prefix rp (S i) l') as [[ys' tab] fnd] eqn:Ek.
  assert (has_full (ys ++ ys') (prefix ++ j :: c)) as G.
  { destruct (Nat.eq_dec j i) as [->|Nji].
    - replace (i - i)%nat with 0%nat in T by lia. simpl in T.
      assert (thr <= rp * p * jointp rest c) as T2 by (rewrite <- Qmult_assoc; exact T).
      assert (0 <= rp * p) as P0 by nra.
      destruct (Hn (prefix ++ [i]) (rp * p) c P0 O L T2) as [q Hq].
      rewrite En in Hq. simpl in Hq. rewrite <- app_assoc in Hq. simpl in Hq.
      exists q. apply in_app_iff. now left.
    - assert (nth (j - i) (p :: l') 0 = nth (j - S i) l' 0) as E1.
      { replace (j - i)%nat with (S (j - S i)) by lia. reflexivity. }
      rewrite E1 in T.
      specialize (IH (S i) j c U' Dd'). rewrite Ek in IH. simpl in R.
      destruct IH as [q Hq]; auto; try lia.
      exists q. apply in_app_iff. now right. }
  destruct s; simpl; exact G.
Qed.

Definition sorted_ok (bases : list (list Q)) : Prop :=
  Forall (fun v => unit_entries v /\ desc_b v = true) bases.

Lemma sorted_ok_unit bases : sorted_ok bases -> Forall unit_entries bases.
Proof. intros H. eapply Forall_impl; [|exact H]. simpl. tauto. Qed.

Lemma finish_keeps prefix ys tab fnd st : has_full ys st -> has_full (fst (finish prefix (ys, tab, fnd))) st.
Proof.
  intros [p H]. exists p. unfold finish. destruct fnd; [|exact H].
  destruct prefix; cbn [fst]; apply in_app_iff; now left.
Qed.

Lemma node_complete thr bases : sorted_ok bases ->
  forall pf r c, 0 <= r -> idx_ok bases c -> length c = length bases -> thr <= r * jointp bases c ->
    has_full (fst (dfs_node thr bases pf r)) (pf ++ c).
Proof.
  induction bases as [|cur rest IH]; intros S pf r c R O L T.
  - destruct c; [|discriminate]. exists r. rewrite app_nil_r. simpl. now left.
  - inversion S as [|? ? [Ucur Dcur] Srest]; subst.
    destruct c as [|j c]; [discriminate|]. simpl in O, L. destruct O as [Oj O].
    rewrite dfs_node_cons.
    destruct (kids thr (dfs_node thr rest) pf r 0%nat cur) as [[ys tab] fnd] eqn:Ek.
    apply finish_keeps.
    pose proof (kids_complete thr (dfs_node thr rest) pf r rest R (sorted_ok_unit _ Srest) (IH Srest)
                  cur 0%nat j c Ucur Dcur) as K.
    rewrite Ek in K. apply K; auto; try lia. rewrite Nat.sub_0_r. rewrite jointp_cons in T. exact T.
Qed.

(* Proofs/ResetPassesMore.v — additions after the proof audit:
   the pipeline's exception set stated on the INPUT circuit, and final-reset removal as
   "the same circuit with the dropped resets moved to the very end" (whole denotation equal). *)
From Coq Require Import Lia ZifyBool.
From CKT Require Import Common.Base Common.Circ Common.Herbrand Model.ResetPasses
  Proofs.ResetPassesP Proofs.ResetPassesSem Proofs.ResetPassesDag Proofs.ResetPassesDropped.

(* deleting resets cannot turn "last instruction on wire q is a reset" from false into true *)
Lemma del_resets_lastw_none q a b : del_resets a b -> lastw q b = None ->
  forall y, lastw q a = Some y -> is_reset y = true.
Proof.
  intros H; induction H as [|x a b H IH|x a b R H IH]; simpl; intros N y E.
  - discriminate.
  - destruct (lastw q b) eqn:Lb; [discriminate|]. destruct (on_wire q x) eqn:O; [discriminate|].
    destruct (lastw q a) eqn:La; [inversion E; subst; now apply IH|discriminate].
  - destruct (lastw q a) eqn:La.
    + inversion E; subst. now apply IH.
    + destruct (on_wire q x); [inversion E; subst; assumption|discriminate].
Qed.

Lemma del_resets_ends q a b : del_resets a b -> ends' q b = true -> ends' q a = true.
Proof.
  unfold ends'. intros H; induction H as [|x a b H IH|x a b R H IH]; simpl; intros E.
  - discriminate.
  - destruct (lastw q b) as [y|] eqn:Lb.
    + specialize (IH E). destruct (lastw q a); [assumption|discriminate].
    + destruct (on_wire q x) eqn:O; [|discriminate].
      destruct (lastw q a) as [y'|] eqn:La; [|assumption].
      now apply (del_resets_lastw_none q a b H Lb).
  - specialize (IH E). destruct (lastw q a); [assumption|discriminate].
Qed.

Theorem pipeline_dropped nq nc c q : wf nq nc c = true ->
  In q (final_dropped nq (remove_resets_in_zero_state nq c)) ->
  q < nq /\ ends_in_reset q c = true /\ wire (denote nq nc c) q = Zero.
Proof.
  intros W I.
  pose proof (zero_only_resets nq c) as D.
  pose proof (del_resets_wf _ _ _ _ D W) as W1.
  destruct (final_dropped_zero nq nc _ q W1 I) as [L Z].
  rewrite (zero_semantics nq nc c W) in Z.
  apply (final_dropped_iff nq nc _ q W1) in I as [_ E].
  repeat split; try assumption.
  rewrite ends_in_reset_lastw in *. now apply (del_resets_ends q _ _ D).
Qed.

(* ---- the dropped resets, re-appended at the very end ---- *)
Definition Rq (q : nat) : instr := mkI Reset [q] [].

Lemma hrun_resets D : forall n s,
  let t := hrun s (tag_from n (map Rq D)) in
  hc t = hc s /\ length (hw t) = length (hw s) /\
  forall j, wire t j = if in_dec Nat.eq_dec j D then Zero else wire s j.
Proof.
  induction D as [|q D IH]; intros n s; [repeat split|].
  cbv zeta. cbn [map]. rewrite (tag_from_cons n (Rq q)). cbn [creates_term Rq iop]. rewrite hrun_cons.
  destruct (IH n (hstep s (n, Rq q))) as [Hc [Hl Hw]].
  assert (R : is_reset (Rq q) = true) by reflexivity.
  assert (N : iqs (Rq q) <> []) by discriminate.
  split; [now rewrite Hc, hstep_reset_hc|]. split; [now rewrite Hl, hstep_wlen|].
  intros j. rewrite Hw, (hstep_reset_wire s n (Rq q) j R N). cbn [rq Rq iqs hd].
  destruct (in_dec Nat.eq_dec j D) as [I|NI]; destruct (in_dec Nat.eq_dec j (q :: D)) as [I'|NI']; try reflexivity.
  - exfalso. apply NI'. now right.
  - destruct I' as [<-|I']; [now rewrite Nat.eqb_refl|contradiction].
  - destruct (Nat.eqb_spec j q) as [->|]; [exfalso; apply NI'; now left|reflexivity].
Qed.

Theorem final_reappend nq nc c : wf nq nc c = true ->
  denote nq nc (remove_final_resets nq c ++ map Rq (final_dropped nq c)) = denote nq nc c.
Proof.
  intros W. destruct (final_semantics nq nc c W) as [Fc Fw].
  unfold denote at 1. unfold tagc. rewrite tag_from_app, hrun_app. cbn [plus].
  fold (tagc (remove_final_resets nq c)). fold (denote nq nc (remove_final_resets nq c)).
  destruct (hrun_resets (final_dropped nq c) (ntags (remove_final_resets nq c))
              (denote nq nc (remove_final_resets nq c))) as [Hc [Hl Hw]].
  apply hstate_ext.
  - rewrite Hl. unfold denote. now rewrite !hrun_wlen.
  - now rewrite Hc.
  - intros j. rewrite Hw. destruct (in_dec Nat.eq_dec j (final_dropped nq c)) as [I|NI].
    + symmetry. now apply (final_dropped_zero nq nc c j W).
    + now apply Fw.
Qed.

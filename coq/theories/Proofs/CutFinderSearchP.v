(* Proofs/CutFinderSearchP.v — everything the greedy pass, the best-first engine, CutOptimization and the
   LOCutsOptimizer driver return is a goal state satisfying the global invariant; no assertion fails and no
   ValueError is raised on the way when all multi-qubit gates are well-formed two-qubit gates. *)
From Coq Require Import QArith Relations Lia.
From CKT Require Import Model.CutFinder Proofs.UFP Proofs.ConnP Proofs.CutFinderSpec Proofs.CutFinderInv Proofs.CutFinderPlan.
Close Scope Q_scope.

Lemma first_min_in best l : In (first_min best l) (best :: l).
Proof.
  revert best; induction l as [|s r IH]; intros best; simpl; [now left|].
  destruct (Qltb (cost s) (cost best)).
  - destruct (IH s) as [H|H]; [right; left; exact H|right; right; exact H].
  - destruct (IH best) as [H|H]; [left; exact H|right; right; exact H].
Qed.

Lemma first_min_cost_in best l : In (first_min_cost best l) (best :: l).
Proof.
  revert best; induction l as [|s r IH]; intros best; simpl; [now left|].
  destruct (Qltb (fst s) (fst best)).
  - destruct (IH s) as [H|H]; [right; left; exact H|right; right; exact H].
  - destruct (IH best) as [H|H]; [left; exact H|right; right; exact H].
Qed.

Lemma extract_min_from_spec best acc l e rest :
  extract_min_from best acc l = (e, rest) ->
  In e (best :: l) /\ (forall x, In x rest -> In x (best :: acc ++ l)) /\
  length rest = length acc + length l.
Proof.
  revert best acc; induction l as [|x l IH]; intros best acc H; simpl in H.
  - inversion H; subst. split; [now left|]. split; [|simpl; lia]. intros x Hx. right. rewrite app_nil_r. exact Hx.
  - destruct (entry_lt x best).
    + destruct (IH _ _ H) as (H1 & H2 & H3). split; [|split].
      * destruct H1 as [H1|H1]; [right; left; exact H1|right; right; exact H1].
      * intros y Hy. destruct (H2 y Hy) as [Hy'|Hy'].
        -- right. apply in_or_app. right. left. exact Hy'.
        -- simpl in Hy'. destruct Hy' as [Hy'|Hy']; [left; exact Hy'|].
           right. apply in_app_or in Hy' as [Hy'|Hy']; apply in_or_app; [left|right; right]; exact Hy'.
      * simpl in *. lia.
    + destruct (IH _ _ H) as (H1 & H2 & H3). split; [|split].
      * destruct H1 as [H1|H1]; [left; exact H1|right; right; exact H1].
      * intros y Hy. destruct (H2 y Hy) as [Hy'|Hy']; [left; exact Hy'|].
        simpl in Hy'. right. destruct Hy' as [Hy'|Hy'].
        -- apply in_or_app. right. left. exact Hy'.
        -- apply in_app_or in Hy' as [Hy'|Hy']; apply in_or_app; [left|right; right]; exact Hy'.
      * simpl in *. lia.
Qed.

Section SearchP.
  Variable names : list nat.
  Variable W : nat.
  Hypothesis HW : 1 <= W.
  Hypothesis Hnames : NoDup names.
  Variable gates : list gate_spec.
  Hypothesis Hgates : forall g, In g gates -> gate_wf names g.
  Variable fa : fargs.
  Hypothesis Hfa_g : fa_gates fa = gates.
  Hypothesis Hfa_W : fa_W fa = W.
  Variable acts : list akind.
  Hypothesis Hfa_a : fa_actions fa = acts.

  Notation Good := (Good names W gates acts).
  Notation Inv := (Inv names W gates acts).

  Definition GoodGoal (s : dstate) : Prop := (exists M, Good M s) /\ goal_state fa s = true.

  (* ---------------- greedy ---------------- *)
  Lemma greedy_good M fuel s r :
    Good M s -> greedy fuel fa s = Val (Some r) -> Good M r /\ goal_state fa r = true.
  Proof.
    revert s; induction fuel as [|f IH]; intros s G H; simpl in H.
    - destruct (goal_state fa s) eqn:Eg; [inversion H; subst; auto|discriminate].
    - destruct (goal_state fa s) eqn:Eg; [inversion H; subst; auto|].
      destruct (next_states fa s) as [l| | |] eqn:En; cbn [obind] in H; try discriminate.
      destruct l as [|s0 l]; [discriminate|].
      apply (IH (first_min s0 l)); auto.
      eapply (Good_next names W HW Hnames gates Hgates acts fa Hfa_g Hfa_W Hfa_a); eauto. apply first_min_in.
  Qed.

  Lemma greedy_total M fuel s :
    Good M s -> length gates - level s <= fuel -> exists r, greedy fuel fa s = Val r.
  Proof.
    revert s; induction fuel as [|f IH]; intros s G Hf; simpl.
    - destruct (goal_state fa s) eqn:Eg; [eauto|].
      unfold goal_state in Eg. rewrite Hfa_g in Eg. apply Nat.leb_gt in Eg. lia.
    - destruct (goal_state fa s) eqn:Eg; [eauto|].
      destruct G as [pl I].
      destruct (next_states_ok names W HW Hnames gates Hgates acts fa Hfa_g Hfa_W Hfa_a M s pl I Eg) as (l & Hl & Hall).
      rewrite Hl. cbn [obind]. destruct l as [|s0 l]; [eauto|].
      apply IH.
      + destruct (first_min_in s0 l) as [E|Hin].
        * destruct (Hall s0 (or_introl eq_refl)) as (k & _ & I'). rewrite <- E. eexists; eauto.
        * destruct (Hall (first_min s0 l) (or_intror Hin)) as (k & _ & I'). eexists; eauto.
      + assert (Hlev : forall x, In x (s0 :: l) -> level x = S (level s)).
        { intros x Hx. destruct (Hall x Hx) as (k & _ & I').
          pose proof (inv_len _ _ _ _ _ _ _ I') as L1. pose proof (inv_len _ _ _ _ _ _ _ I) as L0.
          rewrite app_length in L1. simpl in L1. lia. }
        rewrite (Hlev _ (first_min_in s0 l)). lia.
  Qed.

  (* ---------------- the engine ---------------- *)
  Section Engine.
    Variable tape : nat -> Q.
    Variable max_gamma : Q.
    Variable max_backjumps : option nat.
    Variable M : nat.

    Definition BGood (b : bfs) : Prop := forall e, In e (pq b) -> Good M (q_state e).

    Lemma pq_put_good b s d c : BGood b -> Good M s -> BGood (pq_put tape b s d c).
    Proof. intros B G e [<-|H]; [exact G|now apply B]. Qed.

    Lemma put_states_good b l d : BGood b -> (forall s, In s l -> Good M s) -> BGood (put_states tape b l d).
    Proof.
      revert b; induction l as [|s r IH]; intros b B H; simpl; [exact B|].
      apply IH; [|intros x Hx; apply H; now right].
      assert (Gs : Good M s) by (apply H; now left).
      destruct (upperbound b) as [u|].
      - destruct (Qleb (cost s) u); [|exact B]. intros e He. cbn in He. now apply (pq_put_good b s d (cost s) B Gs).
      - intros e He. cbn in He. now apply (pq_put_good b s d (cost s) B Gs).
    Qed.

    Lemma bfs_put_good b l d : BGood b -> (forall s, In s l -> Good M s) -> BGood (bfs_put tape b l d).
    Proof. intros B H. unfold bfs_put. apply put_states_good; auto. Qed.

    Lemma BGood_same_pq b b' : pq b' = pq b -> BGood b -> BGood b'.
    Proof. intros E B e He. rewrite E in He. now apply B. Qed.

    Lemma pass_loop_good fuel b pd b' r :
      BGood b -> pass_loop tape fa max_gamma max_backjumps fuel b pd = Val (b', r) ->
      BGood b' /\ (forall s c, r = Some (s, c) -> Good M s /\ goal_state fa s = true).
    Proof.
      revert b pd; induction fuel as [|f IH]; intros b pd B H; simpl in H.
      - destruct (negb _) eqn:Ec; [|discriminate].
        inversion H; subst. split; [|discriminate].
        destruct (pq b) eqn:Ep; [intros e He; cbn in He; rewrite Ep in He; destruct He|exact B].
      - destruct (negb _) eqn:Ec.
        { inversion H; subst. split; [|discriminate].
          destruct (pq b) eqn:Ep; [intros e He; cbn in He; rewrite Ep in He; destruct He|exact B]. }
        destruct (extract_min (pq b)) as [[e rest]|] eqn:Ex; [|discriminate].
        assert (He : In e (pq b) /\ forall x, In x rest -> In x (pq b)).
        { unfold extract_min in Ex. destruct (pq b) as [|x l]; [discriminate|]. inversion Ex as [Ex'].
          destruct (extract_min_from_spec _ _ _ _ _ Ex') as (H1 & H2 & _). split; [exact H1|]. intros y Hy.
          apply H2 in Hy. simpl in Hy. exact Hy. }
        destruct He as [He Hrest].
        assert (Ge : Good M (q_state e)) by (now apply B).
        set (b0 := mkB rest (pushes b) (upperbound b) (min_reached b) (n_visited b) (n_next b) (n_enq b)
                       (n_backjumps b) (pen_stats b) (n_pushback b)) in *.
        assert (B0 : BGood b0) by (intros x Hx; apply B, Hrest, Hx).
        assert (B1 : BGood (update_minimum_reached b0 (q_cost e))).
        { unfold update_minimum_reached. destruct (upperbound b0); [destruct (Qleb _ _)|]; auto. }
        set (b1 := update_minimum_reached b0 (q_cost e)) in *.
        destruct (cost_bounds_exceeded max_gamma b1 (q_cost e)).
        + inversion H; subst. split; [|discriminate].
          destruct (min_reached b1); [exact B1|].
          eapply BGood_same_pq; [|apply (pq_put_good b1 (q_state e) (q_depth e) (q_cost e) B1 Ge)]. reflexivity.
        + destruct (goal_state fa (q_state e)) eqn:Eg.
          * inversion H; subst. split.
            -- unfold update_minimum_reached, update_upperbound. cbn.
               repeat match goal with |- context [match ?x with _ => _ end] => destruct x end; cbn; exact B1.
            -- intros s c Hs. inversion Hs; subst. auto.
          * destruct (next_states fa (q_state e)) as [l| | |] eqn:En; cbn [obind] in H; try discriminate.
            eapply IH; [|exact H]. apply bfs_put_good.
            -- eapply BGood_same_pq; [|exact B1]. reflexivity.
            -- intros s Hs. eapply (Good_next names W HW Hnames gates Hgates acts fa Hfa_g Hfa_W Hfa_a); eauto.
    Qed.
  End Engine.

  (* ---------------- CutOptimization and the driver ---------------- *)
  Section Driver.
    Variable tape : nat -> Q.
    Variable max_gamma : Q.
    Variable max_backjumps : option nat.

    Definition COGood (co : cutopt) : Prop :=
      (exists M, BGood M (co_engine co)) /\ (forall g, co_greedy co = Some g -> GoodGoal g).

    Lemma cutopt_init_good co :
      cutopt_init tape fa max_gamma (length names) = Val co -> COGood co.
    Proof.
      unfold cutopt_init, greedy_cut_optimization. rewrite Hfa_g.
      destruct (greedy _ fa _) as [gr| | |] eqn:Eg; cbn [obind]; try discriminate.
      intros H; inversion H; subst; clear H. cbn [co_engine co_greedy].
      set (m := match gr with Some g => Nat.min _ _ | None => Nat.min _ _ end).
      split.
      - exists (length names + m).
        assert (B : BGood (length names + m) (bfs_initialize tape (init_state (length names) m))).
        { unfold bfs_initialize. apply bfs_put_good; [intros e []|].
          intros s [<-|[]]. exists []. apply Inv_init; auto. }
        destruct gr; [|exact B]. eapply BGood_same_pq; [|exact B]. reflexivity.
      - intros g Hg. cbn [co_greedy] in Hg. rewrite Hg in Eg.
        split; [eexists|]; eapply greedy_good; eauto; exists []; apply Inv_init; auto.
    Qed.

    Lemma cutopt_pass_good fuel co co' r :
      COGood co -> cutopt_pass tape fa max_gamma max_backjumps fuel co = Val (co', r) ->
      COGood co' /\ (forall s c, r = Some (s, c) -> GoodGoal s).
    Proof.
      intros [[M B] G] H. unfold cutopt_pass, engine_pass in H.
      destruct (pass_loop _ _ _ _ _ _ _) as [[b r0]| | |] eqn:Ep; cbn [obind] in H; try discriminate.
      destruct (pass_loop_good tape max_gamma max_backjumps M fuel _ _ _ _ B Ep) as (B' & Hr).
      destruct r0 as [[s c]|].
      - inversion H; subst. split; [split; [exists M; exact B'|exact G]|].
        intros s0 c0 E. inversion E; subst. destruct (Hr _ _ eq_refl). split; [eexists|]; eauto.
      - destruct (co_returned co).
        + inversion H; subst. split; [split; [exists M; exact B'|exact G]|discriminate].
        + destruct (co_greedy co) as [g|] eqn:Egr; [|discriminate].
          inversion H; subst. split; [split; [exists M; exact B'|cbn [co_greedy]; exact G]|].
          intros s0 c0 E. inversion E; subst. now apply G.
    Qed.

    Lemma driver_loop_good passes fuel co acc co' goals :
      COGood co -> (forall c s, In (c, s) acc -> GoodGoal s) ->
      driver_loop tape fa max_gamma max_backjumps passes fuel co acc = Val (co', goals) ->
      COGood co' /\ (forall c s, In (c, s) goals -> GoodGoal s).
    Proof.
      revert co acc; induction passes as [|p IH]; intros co acc C A H; simpl in H; [discriminate|].
      destruct (cutopt_pass _ _ _ _ _ _) as [[co1 r]| | |] eqn:Ep; cbn [obind] in H; try discriminate.
      destruct (cutopt_pass_good _ _ _ _ C Ep) as (C1 & Hr).
      destruct r as [[s c]|].
      - eapply IH; [exact C1| |exact H]. intros c0 s0 Hin. apply in_app_or in Hin as [Hin|[Hin|[]]]; [eauto|].
        inversion Hin; subst. eapply Hr; eauto.
      - inversion H; subst. auto.
    Qed.

    Theorem optimize_good fuel r :
      optimize tape fa max_gamma max_backjumps (length names) fuel = Val r ->
      COGood (or_cutopt r) /\ (forall s, or_best r = Some s -> GoodGoal s).
    Proof.
      unfold optimize. intros H.
      destruct (cutopt_init _ _ _ _) as [co| | |] eqn:Ei; cbn [obind] in H; try discriminate.
      pose proof (cutopt_init_good _ Ei) as C.
      destruct (driver_loop _ _ _ _ _ _ _ _) as [[co' goals]| | |] eqn:Ed; cbn [obind] in H; try discriminate.
      destruct (driver_loop_good _ _ _ _ _ _ C (fun c s (F : In (c, s) []) => match F with end) Ed) as (C' & Hg).
      destruct goals as [|g0 gl]; inversion H; subst; cbn [or_best or_cutopt]; split; auto; try discriminate.
      intros s E. inversion E; subst.
      destruct (first_min_cost_in g0 gl) as [E'|Hin].
      - rewrite <- E'. destruct g0 as [c0 s0]. eapply Hg. left; reflexivity.
      - destruct (first_min_cost g0 gl) as [c1 s1] eqn:Em. eapply Hg. right. exact Hin.
    Qed.
  End Driver.

  (* ---------------- no assertion fails, ValueError only from a missing greedy state ---------------- *)
  Definition benign {A} (o : out A) : Prop := match o with Ref | Crash => False | _ => True end.

  Lemma extract_min_some l : l <> [] -> exists e rest, extract_min l = Some (e, rest).
  Proof.
    destruct l as [|x l]; [congruence|]. intros _. simpl.
    destruct (extract_min_from x [] l) as [e rest]. eauto.
  Qed.

  Section Total.
    Variable tape : nat -> Q.
    Variable max_gamma : Q.
    Variable max_backjumps : option nat.

    Lemma pass_loop_benign M fuel b pd :
      BGood M b -> benign (pass_loop tape fa max_gamma max_backjumps fuel b pd).
    Proof.
      revert b pd; induction fuel as [|f IH]; intros b pd B; simpl.
      - destruct (negb _); exact I.
      - destruct (negb _) eqn:Ec; [exact I|].
        destruct (pq b) as [|x l] eqn:Ep; [simpl in Ec; discriminate|].
        destruct (extract_min_some (x :: l)) as (e & rest & Ex); [discriminate|]. rewrite Ex.
        assert (He : In e (pq b) /\ forall y, In y rest -> In y (pq b)).
        { rewrite Ep. simpl in Ex. inversion Ex as [Ex'].
          destruct (extract_min_from_spec _ _ _ _ _ Ex') as (H1 & H2 & _). split; [exact H1|]. intros y Hy.
          apply H2 in Hy. simpl in Hy. exact Hy. }
        destruct He as [He Hrest].
        assert (Ge : Good M (q_state e)) by (now apply B).
        set (b0 := mkB rest (pushes b) (upperbound b) (min_reached b) (n_visited b) (n_next b) (n_enq b)
                       (n_backjumps b) (pen_stats b) (n_pushback b)).
        assert (B0 : BGood M b0) by (intros y Hy; apply B, Hrest, Hy).
        assert (B1 : BGood M (update_minimum_reached b0 (q_cost e))).
        { unfold update_minimum_reached. destruct (upperbound b0); [destruct (Qleb _ _)|]; auto. }
        destruct (cost_bounds_exceeded _ _ _); [exact I|].
        destruct (goal_state fa (q_state e)) eqn:Eg; [exact I|].
        destruct Ge as [pl Iv].
        destruct (next_states_ok names W HW Hnames gates Hgates acts fa Hfa_g Hfa_W Hfa_a M _ pl Iv Eg) as (l0 & Hl0 & Hall).
        rewrite Hl0. cbn [obind]. apply IH. apply bfs_put_good.
        + eapply BGood_same_pq; [|exact B1]. reflexivity.
        + intros s Hs. destruct (Hall s Hs) as (k & _ & I'). eexists; eauto.
    Qed.

    Lemma cutopt_pass_ref fuel co :
      COGood co ->
      match cutopt_pass tape fa max_gamma max_backjumps fuel co with
      | Ref => co_greedy co = None
      | Crash => False
      | Val (co', _) => co_greedy co' = co_greedy co
      | NoFuel => True
      end.
    Proof.
      intros [[M B] G]. unfold cutopt_pass, engine_pass.
      pose proof (pass_loop_benign M fuel (co_engine co) None B) as Hb.
      destruct (pass_loop _ _ _ _ _ _ _) as [[b r0]| | |]; cbn [obind]; try contradiction; try exact I.
      destruct r0 as [[s c]|]; [reflexivity|].
      destruct (co_returned co); [reflexivity|]. destruct (co_greedy co); reflexivity.
    Qed.

    Lemma driver_loop_ref passes fuel co acc :
      COGood co ->
      match driver_loop tape fa max_gamma max_backjumps passes fuel co acc with
      | Ref => co_greedy co = None
      | Crash => False
      | _ => True
      end.
    Proof.
      revert co acc; induction passes as [|p IH]; intros co acc C; simpl; [exact I|].
      pose proof (cutopt_pass_ref fuel co C) as Hp.
      destruct (cutopt_pass _ _ _ _ _ _) as [[co1 r]| | |] eqn:Ep; cbn [obind]; auto.
      destruct (cutopt_pass_good _ _ _ _ _ _ _ C Ep) as (C1 & _).
      destruct r as [[s c]|]; [|exact I].
      specialize (IH co1 (acc ++ [(c, s)]) C1). rewrite Hp in IH. exact IH.
    Qed.

    Lemma optimize_ref fuel :
      match optimize tape fa max_gamma max_backjumps (length names) fuel with
      | Ref => greedy_cut_optimization (length names) fa = Val None
      | Crash => False
      | _ => True
      end.
    Proof.
      unfold optimize.
      destruct (cutopt_init tape fa max_gamma (length names)) as [co| | |] eqn:Ei; cbn [obind].
      - pose proof (cutopt_init_good _ _ _ Ei) as C.
        pose proof (driver_loop_ref (S fuel) fuel co [] C) as Hd.
        assert (Egr : greedy_cut_optimization (length names) fa = Val (co_greedy co)).
        { unfold cutopt_init in Ei. destruct (greedy_cut_optimization (length names) fa) as [gr| | |]; cbn [obind] in Ei; try discriminate.
          inversion Ei; subst. reflexivity. }
        destruct (driver_loop _ _ _ _ _ _ _ _) as [[co' goals]| | |]; cbn [obind]; auto.
        + destruct goals; exact I.
        + now rewrite Egr, Hd.
      - exfalso. unfold cutopt_init, greedy_cut_optimization in Ei. rewrite Hfa_g in Ei.
        destruct (greedy_total (length names + max_wire_cuts_circuit gates) (length gates)
                    (init_state (length names) (max_wire_cuts_circuit gates))) as (r & Hr).
        + exists []. apply Inv_init; auto.
        + cbn. lia.
        + rewrite Hr in Ei. discriminate.
      - exfalso. unfold cutopt_init, greedy_cut_optimization in Ei. rewrite Hfa_g in Ei.
        destruct (greedy_total (length names + max_wire_cuts_circuit gates) (length gates)
                    (init_state (length names) (max_wire_cuts_circuit gates))) as (r & Hr).
        + exists []. apply Inv_init; auto.
        + cbn. lia.
        + rewrite Hr in Ei. discriminate.
      - exact I.
    Qed.
  End Total.

  (* a greedy pass that ends without a state stopped at a dead end: a reachable non-goal state without successors *)
  Lemma greedy_none M fuel s :
    Good M s -> greedy fuel fa s = Val None ->
    exists s' pl, Inv M s' pl /\ goal_state fa s' = false /\ next_states fa s' = Val [].
  Proof.
    revert s; induction fuel as [|f IH]; intros s G H; simpl in H.
    - destruct (goal_state fa s); discriminate.
    - destruct (goal_state fa s) eqn:Eg; [discriminate|].
      destruct (next_states fa s) as [l| | |] eqn:En; cbn [obind] in H; try discriminate.
      destruct l as [|s0 l].
      + destruct G as [pl Iv]. exists s, pl. auto.
      + apply (IH (first_min s0 l)); auto.
        eapply (Good_next names W HW Hnames gates Hgates acts fa Hfa_g Hfa_W Hfa_a); eauto. apply first_min_in.
  Qed.
End SearchP.

(* Proofs/SimTreeP.v — lemmas about Model/SimTree.v (C13 extension): the dictionary bookkeeping refines the branch tree
   leaf by leaf (any instrument, any tolerance); the ExactSampler wrapper. *)
From Coq Require Import QArith Qabs Permutation Lqa Lia.
From CKT Require Import Common.Base Common.QSim Model.Sim Model.SimTree Proofs.SimP.
Close Scope Q_scope.

Lemma dict_items_branches {state} (d : dict state) : dict_items d = branches d.
Proof. reflexivity. Qed.

Lemma flat_map_flat_map {A B C} (f : A -> list B) (g : B -> list C) l :
  flat_map g (flat_map f l) = flat_map (fun x => flat_map g (f x)) l.
Proof. induction l as [|x r IH]; cbn [flat_map]; [reflexivity|]. now rewrite flat_map_app, IH. Qed.

Lemma flat_map_map {A B C} (f : A -> B) (g : B -> list C) l : flat_map g (map f l) = flat_map (fun x => g (f x)) l.
Proof. induction l as [|x r IH]; cbn [flat_map map]; [reflexivity|]. now rewrite IH. Qed.

Section TreeP.
  Variable gate : Type.
  Variable state : Type.
  Variable apply : gate -> list nat -> state -> state.
  Variable p1 : state -> nat -> Q.
  Variable proj : state -> nat -> bool -> state.
  Variable flipx : state -> nat -> state.
  Variable tol : Q.
  Notation branch := (Sim.branch state).
  Notation dict := (Sim.dict state).
  Notation prog := (Sim.prog gate).
  Notation split := (split_branch p1 proj flipx tol).
  Notation run := (Sim.run apply p1 proj flipx tol).
  Notation simulate := (Sim.simulate apply p1 proj flipx tol).

  Definition treeL (p : prog) (kb : N * branch) : list (N * branch) :=
    tree apply p1 proj flipx tol p (fst kb) (fst (snd kb)) (snd (snd kb)).

  Lemma treeL_nil (bs : list (N * branch)) : flat_map (treeL []) bs = bs.
  Proof. induction bs as [|[k [w s]] r IH]; [reflexivity|]. cbn [flat_map]. rewrite IH. reflexivity. Qed.

  Lemma split_tree_measure (r : prog) q c kb :
    flat_map (treeL r) (split q (N.shiftl 1 (N.of_nat c)) (fst kb) (snd kb)) = treeL (PMeasure q c :: r) kb.
  Proof.
    destruct kb as [k [w s]]. unfold split_branch, treeL. cbn [fst snd tree].
    rewrite flat_map_app, k0_clearbit, k1_setbit, shiftl1_nonzero.
    destruct (isclose0 tol (1 - p1 s q)), (isclose0 tol (p1 s q)); cbn [flat_map fst snd]; rewrite ?app_nil_r; reflexivity.
  Qed.

  Lemma split_tree_reset (r : prog) q kb :
    flat_map (treeL r) (split q 0%N (fst kb) (snd kb)) = treeL (PReset q :: r) kb.
  Proof.
    destruct kb as [k [w s]]. unfold split_branch, treeL. cbn [fst snd tree].
    rewrite flat_map_app, k0_reset, k1_reset. cbn [N.eqb].
    destruct (isclose0 tol (1 - p1 s q)), (isclose0 tol (p1 s q)); cbn [flat_map fst snd]; rewrite ?app_nil_r; reflexivity.
  Qed.

  (* the loop refines the tree: whatever the tolerance, the entries of the dictionary after the loop are, as a
     multiset and with Leibniz-equal weights and states, the leaves of the trees grown from the entries before *)
  Lemma run_tree : forall (p : prog) (d : dict) n, NoDup (keys d) -> existsb refusing p = false ->
    exists d' n', run p d n = Ok (d', n') /\ NoDup (keys d') /\
                  Permutation (branches d') (flat_map (treeL p) (branches d)).
  Proof.
    induction p as [|i r IH]; intros d n ND H.
    - exists d, n. repeat split; auto. now rewrite treeL_nil.
    - destruct i as [g qs|q c|q|qs| |]; cbn [existsb refusing orb] in H; try discriminate; cbn [Sim.run].
      + destruct (IH (evolve apply g qs d) n) as [d' [n' [E [ND' S]]]]; [now rewrite keys_evolve|assumption|].
        exists d', n'. repeat split; auto. rewrite S, branches_evolve, flat_map_map. reflexivity.
      + destruct (step_ok _ p1 proj flipx tol q (N.shiftl 1 (N.of_nat c)) d ND) as [d1 [E1 [ND1 [P1 _]]]]. rewrite E1.
        destruct (IH d1 (n + pruned_count p1 tol q d)%nat ND1 H) as [d' [n' [E [ND' S]]]].
        exists d', n'. repeat split; auto.
        rewrite S, P1, pending_insert_flat, flat_map_flat_map.
        rewrite (flat_map_ext _ _ (split_tree_measure r q c)). reflexivity.
      + destruct (step_ok _ p1 proj flipx tol q 0%N d ND) as [d1 [E1 [ND1 [P1 _]]]]. rewrite E1.
        destruct (IH d1 (n + pruned_count p1 tol q d)%nat ND1 H) as [d' [n' [E [ND' S]]]].
        exists d', n'. repeat split; auto.
        rewrite S, P1, pending_insert_flat, flat_map_flat_map.
        rewrite (flat_map_ext _ _ (split_tree_reset r q)). reflexivity.
      + destruct (IH d n ND H) as [d' [n' [E [ND' S]]]]. exists d', n'. repeat split; auto.
  Qed.

  Theorem simulate_tree : forall s0 (p : prog), existsb refusing p = false ->
    exists d, final_dict apply p1 proj flipx tol s0 p = Ok d /\ simulate s0 p = Ok (finalize d) /\
              NoDup (map fst d) /\
              Permutation (dict_items d) (tree apply p1 proj flipx tol p 0%N 1%Q s0).
  Proof.
    intros s0 p H. unfold final_dict, Sim.simulate.
    destruct (run_tree p (init_dict s0) 0%nat (init_keys _ s0) H) as [d' [n' [E [ND S]]]].
    rewrite E. exists d'. cbn [res_map fst]. repeat split; auto.
    rewrite dict_items_branches, S. unfold init_dict, treeL. cbn [branches flat_map map app fst snd]. now rewrite app_nil_r.
  Qed.

  Lemma ev_leaf_law phi (l : list (N * branch)) :
    (ev phi (leaf_law l) == qsum (fun kb => phi (fst kb) * fst (snd kb)) l)%Q.
  Proof. induction l as [|kb r IH]; [reflexivity|]. unfold leaf_law in *. cbn [map]. rewrite ev_cons. cbn [qsum fst snd]. now rewrite IH. Qed.

  (* hence, at ANY tolerance, the returned map is exactly the law of the truncated tree *)
  Theorem simulate_tree_law : forall s0 (p : prog), existsb refusing p = false ->
    exists out, simulate s0 p = Ok out /\ NoDup (map fst out) /\
      (forall phi, (ev phi out == ev phi (leaf_law (tree apply p1 proj flipx tol p 0%N 1%Q s0)))%Q) /\
      (forall k, (lookup out k == lookup (leaf_law (tree apply p1 proj flipx tol p 0%N 1%Q s0)) k)%Q).
  Proof.
    intros s0 p H. destruct (simulate_tree s0 p H) as [d [_ [E [ND P]]]].
    exists (finalize d). split; [assumption|]. split; [now rewrite keys_finalize|].
    assert (A : forall phi, (ev phi (finalize d) == ev phi (leaf_law (tree apply p1 proj flipx tol p 0%N 1%Q s0)))%Q).
    { intros phi. rewrite (finalize_ev _ _ apply p1 proj flipx), ev_leaf_law.
      rewrite dict_items_branches in P. rewrite (qsum_perm _ _ _ P). apply qsum_ext; intros kb _.
      destruct kb as [k [w s]]. unfold contrib. cbn [path_law fst snd]. unfold ev; cbn [fold_right fst snd]. ring. }
    split; [exact A|]. intros k. now rewrite !lookup_ev.
  Qed.

  (* ---- ExactSampler.run over several circuits ---- *)
  Lemma map_res_ok {A B} (f : A -> res B) l : (forall x, In x l -> exists y, f x = Ok y) ->
    exists ys, map_res f l = Ok ys /\ Forall2 (fun x y => f x = Ok y) l ys.
  Proof.
    induction l as [|x r IH]; intros H; cbn [map_res].
    - exists []. split; [reflexivity|constructor].
    - destruct (H x (or_introl eq_refl)) as [y Ey]. destruct IH as [ys [E F]]; [intros z Hz; apply H; now right|].
      rewrite Ey, E. exists (y :: ys). split; [reflexivity|now constructor].
  Qed.

  Lemma map_res_refused {A B} (f : A -> res B) l : (forall x, In x l -> f x <> Crashed) ->
    (exists x, In x l /\ f x = Refused) -> map_res f l = Refused.
  Proof.
    induction l as [|x r IH]; intros Hc [z [Hz Ez]]; [destruct Hz|]. cbn [map_res].
    destruct (f x) as [y| |] eqn:Ex; [|reflexivity|exfalso; apply (Hc x); [now left|assumption]].
    destruct Hz as [->|Hz]; [congruence|]. rewrite IH; [reflexivity| |eauto]. intros w Hw; apply Hc; now right.
  Qed.

  Theorem sampler_run_ok : forall cs, cs <> [] -> forallb sampler_valid cs = true ->
    (forall c, In c cs -> existsb refusing (snd c) = false) ->
    exists outs, sampler_run apply p1 proj flipx tol cs = Ok outs /\
                 Forall2 (fun c out => simulate (snd (fst c)) (snd c) = Ok out) cs outs.
  Proof.
    intros cs Hne Hv Hr. unfold sampler_run. destruct cs as [|c0 r]; [congruence|]. rewrite Hv.
    apply map_res_ok. intros c Hc. destruct (simulate_tree (snd (fst c)) (snd c) (Hr c Hc)) as [d [_ [E _]]]. eauto.
  Qed.

  Theorem sampler_run_refuses : forall cs,
    (cs = [] \/ exists c, In c cs /\ (sampler_valid c = false \/ existsb refusing (snd c) = true)) ->
    sampler_run apply p1 proj flipx tol cs = Refused.
  Proof.
    intros cs [->|[c [Hc Hb]]]; [reflexivity|]. unfold sampler_run. destruct cs as [|c0 r]; [destruct Hc|].
    destruct (forallb sampler_valid (c0 :: r)) eqn:Hv; [|reflexivity].
    destruct Hb as [Hb|Hb].
    - rewrite forallb_forall in Hv. rewrite (Hv c Hc) in Hb. discriminate.
    - apply map_res_refused.
      + intros x _. apply simulate_never_crashes.
      + exists c. split; [assumption|]. now apply simulate_refuses.
  Qed.

  Theorem sampler_run_single : forall ncl s0 (p : prog),
    sampler_run apply p1 proj flipx tol [(ncl, s0, p)] = res_map (fun x => [x]) (sampler apply p1 proj flipx tol ncl s0 p).
  Proof.
    intros ncl s0 p. unfold sampler_run, sampler. cbn [forallb sampler_valid map_res fst snd].
    destruct (Nat.eqb ncl 0); cbn [negb andb]; [reflexivity|].
    destruct (existsb is_measure p); cbn [negb andb]; [|reflexivity].
    destruct (Sim.simulate apply p1 proj flipx tol s0 p); reflexivity.
  Qed.
End TreeP.

(* ------------------------------------------------------------------------------------------ *)
(* QSim: the measurement step is the Born rule of the vector it holds                          *)
(* ------------------------------------------------------------------------------------------ *)
Definition q2eq (x y : q2) : Prop := (fst x == fst y)%Q /\ (snd x == snd y)%Q.

Lemma anorm2_azero : anorm2 azero = q2zero.
Proof. reflexivity. Qed.

(* the post-measurement vector is the projection P_b v, and its squared norm is the numerator used by qp1 *)
Lemma qproj_norm v q b : norm2 (qproj v q b) = norm2_bit v q b.
Proof.
  unfold norm2, qproj, tabulate, norm2_bit. rewrite map_map. f_equal. apply map_ext. intros i.
  destruct (Bool.eqb (Nat.testbit i q) b); [reflexivity|apply anorm2_azero].
Qed.

Lemma tabulate_id (v : vec) : map (fun i => vget v i) (seq 0 (length v)) = v.
Proof.
  apply (nth_ext _ _ azero azero); [now rewrite map_length, seq_length|].
  intros n Hn. rewrite map_length, seq_length in Hn.
  rewrite (nth_indep _ azero (vget v 0)) by now rewrite map_length, seq_length.
  rewrite (map_nth (fun i => vget v i)), seq_nth by assumption. reflexivity.
Qed.

Lemma q2sum_fst l : (fst (q2sum l) == qsum fst l)%Q.
Proof. induction l as [|x r IH]; [reflexivity|]. cbn [q2sum q2add fst qsum]. now rewrite Qred_correct, IH. Qed.

Lemma q2sum_snd l : (snd (q2sum l) == qsum snd l)%Q.
Proof. induction l as [|x r IH]; [reflexivity|]. cbn [q2sum q2add snd qsum]. now rewrite Qred_correct, IH. Qed.

Lemma qsum_eq_list {A} (f : A -> Q) l l' : l = l' -> (qsum f l == qsum f l')%Q.
Proof. now intros ->. Qed.

Lemma qsum_split (pr : q2 -> Q) (c : nat -> bool) (f : nat -> q2) l : pr q2zero = 0%Q ->
  (qsum pr (map (fun i => if c i then q2zero else f i) l) + qsum pr (map (fun i => if c i then f i else q2zero) l)
   == qsum pr (map f l))%Q.
Proof.
  intros Hz. induction l as [|i r IH]; cbn [map qsum]; [ring|].
  destruct (c i); rewrite ?Hz, <- IH; ring.
Qed.

(* completeness of the two projectors: |P0 v|^2 + |P1 v|^2 = |v|^2, exactly in Q(sqrt 2) *)
Lemma norm2_complete v q : q2eq (q2add (norm2_bit v q false) (norm2_bit v q true)) (norm2 v).
Proof.
  assert (E : norm2 v = q2sum (map (fun i => anorm2 (vget v i)) (seq 0 (length v)))).
  { unfold norm2. rewrite <- (tabulate_id v) at 1. now rewrite map_map. }
  rewrite E. unfold norm2_bit, q2eq, q2add. cbn [fst snd]. rewrite !Qred_correct, !q2sum_fst, !q2sum_snd.
  split.
  - rewrite <- (qsum_split fst (fun i => Nat.testbit i q) (fun i => anorm2 (vget v i))) by reflexivity.
    apply Qplus_comp; apply qsum_eq_list; apply map_ext; intros i; destruct (Nat.testbit i q); reflexivity.
  - rewrite <- (qsum_split snd (fun i => Nat.testbit i q) (fun i => anorm2 (vget v i))) by reflexivity.
    apply Qplus_comp; apply qsum_eq_list; apply map_ext; intros i; destruct (Nat.testbit i q); reflexivity.
Qed.

(* when the audit bit holds, the instrument's p1 is the exact quotient |P1 v|^2 / |v|^2 (an element of Q(sqrt2)
   whose sqrt2-part vanishes), unclamped *)
Lemma qp1_exact_value v q : qp1_is_exact v q = true ->
  (qp1 v q == fst (q2div (norm2 (qproj v q true)) (norm2 v)))%Q /\
  (snd (q2div (norm2 (qproj v q true)) (norm2 v)) == 0)%Q.
Proof.
  unfold qp1_is_exact, qp1, qp1_exact. rewrite qproj_norm. set (e := q2div (norm2_bit v q true) (norm2 v)).
  intros H. apply andb_prop in H as [H _]. apply andb_prop in H as [H H1]. apply andb_prop in H as [Hs H0].
  apply Qeq_bool_iff in Hs. apply Qle_bool_iff in H0, H1. split; [|assumption].
  unfold clamp01. destruct (Qle_bool (fst e) 0) eqn:A.
  - apply Qle_bool_iff in A. lra.
  - destruct (Qle_bool 1 (fst e)) eqn:B; [apply Qle_bool_iff in B; lra|reflexivity].
Qed.

(* q2div is division in Q(sqrt 2) *)
Lemma q2div_spec x y : ~ (fst y * fst y - (2 # 1) * (snd y * snd y) == 0)%Q -> q2eq (q2mul (q2div x y) y) x.
Proof.
  intros Hn. destruct x as [a b], y as [c d]. unfold q2eq, q2mul, q2div, q2mul. cbn [fst snd] in *.
  rewrite !Qred_correct. split; field; exact Hn.
Qed.

(* ------------------------------------------------------------------------------------------ *)
(* composed statements (correction round): distribution, sampler answer                         *)
(* ------------------------------------------------------------------------------------------ *)
Section Composed.
  Variable gate : Type.
  Variable state : Type.
  Variable apply : gate -> list nat -> state -> state.
  Variable p1 : state -> nat -> Q.
  Variable proj : state -> nat -> bool -> state.
  Variable flipx : state -> nat -> state.
  Variable tol : Q.
  Hypothesis p1_range : forall s q, (0 <= p1 s q <= 1)%Q.
  Open Scope Q_scope.

  Lemma in_le_total (l : list (N * Q)) : (forall k p, In (k, p) l -> 0 < p) -> forall k p, In (k, p) l -> p <= total l.
  Proof.
    induction l as [|[k' p'] r IH]; intros Hp k p HI; [destruct HI|]. cbn [total fold_right snd]. fold (total r).
    assert (0 <= total r).
    { clear IH HI. assert (Hr : forall k p, In (k, p) r -> 0 < p) by (intros; eapply Hp; right; eauto).
      induction r as [|[k2 p2] r2 IH2]; cbn; [lra|]. fold (total r2).
      assert (0 < p2) by (eapply Hr; left; reflexivity).
      assert (0 <= total r2) by (apply IH2; [intros; eapply Hp; destruct H0 as [E|H0]; [left; exact E|right; right; exact H0]|intros; eapply Hr; right; eauto]). lra. }
    assert (0 < p') by (eapply Hp; left; reflexivity).
    destruct HI as [E|HI]; [inversion E; subst; lra|].
    assert (p <= total r) by (eapply IH; [intros; eapply Hp; right; eauto|exact HI]). lra.
  Qed.

  (* tolerance 0 AND p1 a probability: the answer is a probability distribution (distinct outcomes, every value in
     (0,1], total 1) and it is the path law *)
  Theorem simulate_distribution : tol == 0 -> forall s0 (p : prog gate), existsb refusing p = false ->
    exists out, simulate apply p1 proj flipx tol s0 p = Ok out /\ NoDup (map fst out) /\
      (forall k pr, In (k, pr) out -> 0 < pr <= 1) /\ total out == 1 /\
      forall k, lookup out k == lookup (path_law apply p1 proj flipx p s0 0%N) k.
  Proof.
    intros Ht s0 p H. destruct (simulate_pushforward _ _ apply p1 proj flipx tol Ht s0 p H) as [out [E [ND L]]].
    assert (T : total out == 1) by (eapply simulate_total; eauto).
    assert (Ht0 : 0 <= tol) by (rewrite Ht; lra).
    assert (S : forall k pr, In (k, pr) out -> 0 < pr) by (eapply simulate_support; eauto).
    exists out. split; [assumption|]. split; [assumption|]. split; [|split; assumption].
    intros k pr HI. split; [eapply S; eauto|]. rewrite <- T. eapply in_le_total; eauto.
  Qed.

  (* the ExactSampler answer for ONE circuit that passes Qiskit's validation, composed down to the path law:
     every outcome within 2 * (#measure + #reset) * tol below its path-law probability, never above (equality at tol 0) *)
  Theorem sampler_answer : 0 <= tol -> forall ncl s0 (p : prog gate),
    ncl <> 0%nat -> existsb is_measure p = true -> existsb refusing p = false ->
    exists out, sampler apply p1 proj flipx tol ncl s0 p = Ok out /\ NoDup (map fst out) /\
      forall k, lookup (path_law apply p1 proj flipx p s0 0%N) k - (2 # 1) * inject_Z (Z.of_nat (count_nonunitary p)) * tol
                <= lookup out k <= lookup (path_law apply p1 proj flipx p s0 0%N) k.
  Proof.
    intros Ht ncl s0 p Hn Hm H. unfold sampler. apply Nat.eqb_neq in Hn. rewrite Hn, Hm. cbn [negb].
    destruct (simulate_tree_law _ _ apply p1 proj flipx tol s0 p H) as [out [E [ND _]]].
    exists out. repeat split; auto; eapply (simulate_outcome_bound_static _ _ apply p1 proj flipx tol p1_range Ht); eauto.
  Qed.
End Composed.

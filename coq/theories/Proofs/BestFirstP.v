(* Proofs/BestFirstP.v — lemmas for C08 about Model/CutFinderState.v (cost of the five actions),
   Model/CutFinderSearch.v (priority queue, best-first engine, CutOptimization, driver) and Model/CutFinder.v.

   Contents
     A. every action multiplies gamma_UB by a factor >= 1 ; levels ; at most one successor per action
     B. generic best-first (Dijkstra) lemmas over an abstract successor relation with monotone cost
     C. the priority queue: extract_min returns a cost-minimal entry and a permutation of the rest
     D. the frontier invariant of the engine and its preservation by pass_loop (repaired F3 behaviour)
     E. CutOptimization / driver loop / optimize / find_cuts_full: flag soundness relative to the guarded
        search space, the unrestricted search always sets the flag, the overhead does not depend on the tape. *)
From Coq Require Import QArith Qabs Permutation Lia.
From CKT Require Import Model.CutFinder.
Close Scope Q_scope.

(* ------------------------------------------------------------------------------------ *)
(* small facts about the boolean comparisons of CutFinderState.v                          *)
(* ------------------------------------------------------------------------------------ *)
Lemma Qltb_true a b : Qltb a b = true <-> (a < b)%Q.
Proof. unfold Qltb. rewrite Qlt_alt. destruct (a ?= b)%Q; split; congruence. Qed.

Lemma Qltb_false a b : Qltb a b = false <-> (b <= a)%Q.
Proof.
  split; intros H.
  - apply Qnot_lt_le. intros L. apply Qltb_true in L. congruence.
  - destruct (Qltb a b) eqn:E; auto. apply Qltb_true in E. exfalso. now apply (Qlt_not_le a b).
Qed.

Lemma Qleb_true a b : Qleb a b = true <-> (a <= b)%Q.
Proof. unfold Qleb. rewrite Qle_alt. destruct (a ?= b)%Q; split; congruence. Qed.

Lemma Qleb_false a b : Qleb a b = false <-> (b < a)%Q.
Proof.
  split; intros H.
  - apply Qnot_le_lt. intros L. apply Qleb_true in L. congruence.
  - destruct (Qleb a b) eqn:E; auto. apply Qleb_true in E. exfalso. now apply (Qlt_not_le b a).
Qed.

(* ------------------------------------------------------------------------------------ *)
(* A. the five actions                                                                    *)
(* ------------------------------------------------------------------------------------ *)
Ltac obind_inv H :=
  match type of H with
  | obind ?m _ = Val _ => let E := fresh "E" in destruct m eqn:E; cbn [obind] in H; try discriminate H
  end.

Lemma oassert_val b u : oassert b = Val u -> b = true.
Proof. destruct b; simpl; congruence. Qed.

Lemma merge_roots_fields s r1 r2 s' : merge_roots s r1 r2 = Val s' ->
  gamma_UB s' = gamma_UB s /\ level s' = level s /\ actions s' = actions s.
Proof.
  unfold merge_roots; intros H. obind_inv H. obind_inv H. inversion H; subst; simpl; auto.
Qed.

Lemma new_wire_fields s q s' w : new_wire s q = Val (s', w) ->
  gamma_UB s' = gamma_UB s /\ level s' = level s /\ actions s' = actions s.
Proof. unfold new_wire; intros H. obind_inv H. inversion H; subst; simpl; auto. Qed.

Lemma assert_dnm_fields s a b s' : assert_donot_merge_roots s a b = Val s' ->
  gamma_UB s' = gamma_UB s /\ level s' = level s /\ actions s' = actions s.
Proof. unfold assert_donot_merge_roots; intros H. obind_inv H. inversion H; subst; simpl; auto. Qed.

(* the factor by which an action multiplies gamma_UB *)
Definition factor_of (k : akind) (g : gate_spec) : Q :=
  match k with
  | KApply => 1
  | KGate => match g_gamma g with Some q => q | None => 1 end
  | KLeft => left_wire_mult
  | KRight => right_wire_mult
  | KBoth => both_wires_mult
  end%Q.

Ltac fields_of H :=
  match type of H with
  | merge_roots _ _ _ = Val _ => apply merge_roots_fields in H; destruct H as (?&?&?)
  | new_wire _ _ = Val _ => apply new_wire_fields in H; destruct H as (?&?&?)
  | assert_donot_merge_roots _ _ _ = Val _ => apply assert_dnm_fields in H; destruct H as (?&?&?)
  end.

(* every primitive returns at most one state; its gamma_UB is the old one times factor_of; level unchanged *)
Lemma primitive_spec k s g W l : next_state_primitive k s g W = Val l ->
  l = [] \/ exists s', l = [s'] /\ (gamma_UB s' == gamma_UB s * factor_of k g)%Q /\ level s' = level s.
Proof.
  destruct k; cbn [next_state_primitive factor_of]; intros H.
  - (* apply_gate *)
    unfold apply_gate in H.
    destruct (negb _ && _); [inversion H; auto|].
    obind_inv H. destruct v; [inversion H; auto|].
    obind_inv H. inversion H; subst. right. exists v; split; auto.
    destruct (negb _) in E0.
    + fields_of E0. split; [|congruence]. rewrite H0. now rewrite Qmult_1_r.
    + inversion E0; subst. split; auto. now rewrite Qmult_1_r.
  - (* cut_two_qubit_gate *)
    unfold cut_two_qubit_gate in H.
    destruct (negb _); [discriminate|].
    destruct (g_gamma g) as [gam|]; [|inversion H; auto].
    destruct (Nat.eqb _ _); [inversion H; auto|].
    obind_inv H. inversion H; subst. right. eexists; split; [reflexivity|].
    fields_of E. simpl. rewrite H0, H1. split; [reflexivity|auto].
  - (* cut_left_wire *)
    unfold cut_left_wire in H.
    destruct (negb (Nat.eqb _ 2)); [discriminate|].
    destruct (negb (can_add_wires s 1)); [inversion H; auto|].
    destruct (Nat.eqb _ _); [inversion H; auto|].
    destruct (negb (can_expand_subcircuit _ _ _ _)); [inversion H; auto|].
    obind_inv H. destruct v as [s1 rnew]. cbn beta iota in H.
    obind_inv H. obind_inv H. inversion H; subst. right. eexists; split; [reflexivity|].
    fields_of E. fields_of E0. fields_of E1. simpl. split; [|congruence].
    replace (gamma_UB v0) with (gamma_UB s) by congruence. reflexivity.
  - (* cut_right_wire *)
    unfold cut_right_wire in H.
    destruct (negb (Nat.eqb _ 2)); [discriminate|].
    destruct (negb (can_add_wires s 1)); [inversion H; auto|].
    destruct (Nat.eqb _ _); [inversion H; auto|].
    destruct (negb (can_expand_subcircuit _ _ _ _)); [inversion H; auto|].
    obind_inv H. destruct v as [s1 rnew]. cbn beta iota in H.
    obind_inv H. obind_inv H. inversion H; subst. right. eexists; split; [reflexivity|].
    fields_of E. fields_of E0. fields_of E1. simpl. split; [|congruence].
    replace (gamma_UB v0) with (gamma_UB s) by congruence. reflexivity.
  - (* cut_both_wires *)
    unfold cut_both_wires in H.
    destruct (negb (Nat.eqb _ 2)); [discriminate|].
    destruct (negb (can_add_wires s 2)); [inversion H; auto|].
    destruct (Nat.ltb W 2); [inversion H; auto|].
    obind_inv H. destruct v as [s1 rnew1]. cbn beta iota in H.
    obind_inv H. destruct v as [s2 rnew2]. cbn beta iota in H.
    obind_inv H. obind_inv H. obind_inv H. inversion H; subst. right. eexists; split; [reflexivity|].
    fields_of E. fields_of E0. fields_of E1. fields_of E2. fields_of E3. simpl. split; [|congruence].
    replace (gamma_UB v1) with (gamma_UB s) by congruence. reflexivity.
Qed.

Definition gamma_ok (g : gate_spec) : Prop := forall q, g_gamma g = Some q -> (1 <= q)%Q.
Definition gammas_ok (gs : list gate_spec) : Prop := forall g, In g gs -> gamma_ok g.

Lemma factor_ge_1 k g : gamma_ok g -> (1 <= factor_of k g)%Q.
Proof.
  intros G; destruct k; cbn [factor_of]; try (unfold left_wire_mult, right_wire_mult, both_wires_mult; discriminate).
  destruct (g_gamma g) eqn:E; [now apply G|discriminate].
Qed.

Lemma next_state_spec k s g W l : next_state k s g W = Val l ->
  l = [] \/ exists s', l = [s'] /\ (gamma_UB s' == gamma_UB s * factor_of k g)%Q /\ level s' = S (level s).
Proof.
  unfold next_state; intros H. obind_inv H. inversion H; subst.
  destruct (primitive_spec _ _ _ _ _ E) as [->|(s'&->&G&L)]; [left; reflexivity|].
  right; eexists; split; [reflexivity|]. simpl; auto.
Qed.

Lemma next_states_over_spec acts s g W l : next_states_over acts s g W = Val l ->
  length l <= length acts /\
  forall s', In s' l -> exists k, In k acts /\ (gamma_UB s' == gamma_UB s * factor_of k g)%Q /\ level s' = S (level s).
Proof.
  revert l; induction acts as [|k r IH]; simpl; intros l H.
  - inversion H; subst; simpl; split; [lia|contradiction].
  - obind_inv H. obind_inv H. inversion H; subst.
    destruct (IH _ eq_refl) as [Hl Hs].
    destruct (next_state_spec _ _ _ _ _ E) as [->|(s1&->&G&L)].
    + simpl; split; [lia|]. intros s' I. destruct (Hs s' I) as (k'&?&?&?). exists k'; auto.
    + simpl; split; [lia|]. intros s' [<-|I]; [exists k; auto|].
      destruct (Hs s' I) as (k'&?&?&?). exists k'; auto.
Qed.

(* the successor relation of the guarded search space *)
Definition succ (fa : fargs) (s s' : dstate) : Prop := exists l, next_states fa s = Val l /\ In s' l.

Lemma search_actions_length gl wl : length (search_actions gl wl) <= 5.
Proof. destruct gl, wl; vm_compute; lia. Qed.

Lemma next_states_spec fa s l : next_states fa s = Val l ->
  exists g, nth_error (fa_gates fa) (level s) = Some g /\ length l <= length (fa_actions fa) /\
  forall s', In s' l -> exists k, In k (fa_actions fa) /\ (gamma_UB s' == gamma_UB s * factor_of k g)%Q /\ level s' = S (level s).
Proof.
  unfold next_states; intros H. destruct (nth_error _ _) as [g|] eqn:E; [|discriminate].
  destruct (Nat.eqb _ 2); [|discriminate]. exists g; split; auto. eapply next_states_over_spec; eauto.
Qed.

(* C08 (1): along every edge of the search space the cost is multiplied by a factor >= 1 *)
Lemma succ_factor fa s s' : gammas_ok (fa_gates fa) -> succ fa s s' ->
  exists f, (1 <= f)%Q /\ (cost s' == cost s * f)%Q /\ level s' = S (level s) /\ level s < length (fa_gates fa).
Proof.
  intros G (l&H&I). destruct (next_states_spec _ _ _ H) as (g&Eg&_&Hs).
  destruct (Hs _ I) as (k&_&Hf&Hl). exists (factor_of k g). repeat split; auto.
  - apply factor_ge_1, G. eapply nth_error_In; eauto.
  - apply nth_error_Some. congruence.
Qed.

Lemma succ_mono fa s s' : gammas_ok (fa_gates fa) -> (0 <= cost s)%Q -> succ fa s s' -> (cost s <= cost s')%Q.
Proof.
  intros G P S. destruct (succ_factor _ _ _ G S) as (f&F&E&_). rewrite E.
  rewrite <- (Qmult_1_r (cost s)) at 1. rewrite !(Qmult_comm (cost s)). now apply Qmult_le_compat_r.
Qed.

(* ------------------------------------------------------------------------------------ *)
(* B. generic best-first lemmas                                                           *)
(* ------------------------------------------------------------------------------------ *)
Section Generic.
  Variable X : Type.
  Variable gcost : X -> Q.
  Variable step : X -> X -> Prop.
  Variable ok : X -> Prop.                     (* an invariant of the space (here: cost >= 0) *)
  Hypothesis ok_step : forall x y, ok x -> step x y -> ok y.
  Hypothesis mono : forall x y, ok x -> step x y -> (gcost x <= gcost y)%Q.

  Inductive greach : X -> X -> Prop :=
  | greach_refl x : greach x x
  | greach_step x y z : step x y -> greach y z -> greach x z.

  Lemma greach_trans x y z : greach x y -> greach y z -> greach x z.
  Proof. induction 1; intros; auto. econstructor; eauto. Qed.

  Lemma greach_snoc x y z : greach x y -> step y z -> greach x z.
  Proof. intros R S. eapply greach_trans; eauto. econstructor; eauto. constructor. Qed.

  Lemma greach_ok x y : ok x -> greach x y -> ok y.
  Proof. intros O R; induction R; eauto. Qed.

  Lemma greach_mono x y : ok x -> greach x y -> (gcost x <= gcost y)%Q.
  Proof.
    intros O R; induction R; [apply Qle_refl|].
    eapply Qle_trans; [apply mono; eauto|]. apply IHR. eauto.
  Qed.

  (* Dijkstra: a cost-minimal element of the frontier is not more expensive than anything below the frontier;
     in particular, if it is a goal, it is a cheapest goal below the frontier *)
  Lemma dijkstra_min (F : list X) (e : X) :
    (forall f, In f F -> ok f) -> (forall f, In f F -> (gcost e <= gcost f)%Q) ->
    forall g, (exists f, In f F /\ greach f g) -> (gcost e <= gcost g)%Q.
  Proof.
    intros O M g (f&I&R). eapply Qle_trans; [apply M; eauto|]. apply greach_mono; auto.
  Qed.

  (* pruning a child above the incumbent loses no goal that is at least as good as the incumbent *)
  Lemma prune_safe (u : Q) (c g : X) : ok c -> (u < gcost c)%Q -> greach c g -> (u < gcost g)%Q.
  Proof. intros O L R. eapply Qlt_le_trans; eauto. now apply greach_mono. Qed.

  (* expanding a non-goal keeps everything below it below its children *)
  Lemma expand_covers (x g : X) : greach x g -> x <> g -> exists y, step x y /\ greach y g.
  Proof. intros R N; destruct R; [congruence|eauto]. Qed.
End Generic.

(* ------------------------------------------------------------------------------------ *)
(* C. the priority queue                                                                  *)
(* ------------------------------------------------------------------------------------ *)
Lemma entry_lt_cost a b : entry_lt a b = true -> (q_cost a <= q_cost b)%Q.
Proof.
  unfold entry_lt. destruct (q_cost a ?= q_cost b)%Q eqn:E; intros H; try discriminate.
  - apply Qeq_alt in E. rewrite E. apply Qle_refl.
  - apply Qlt_alt in E. now apply Qlt_le_weak.
Qed.

Lemma entry_lt_false_cost a b : entry_lt a b = false -> (q_cost b <= q_cost a)%Q.
Proof.
  unfold entry_lt. destruct (q_cost a ?= q_cost b)%Q eqn:E; intros H; try discriminate.
  - apply Qeq_alt in E. rewrite E. apply Qle_refl.
  - apply Qgt_alt in E. now apply Qlt_le_weak.
Qed.

Lemma extract_min_from_spec l : forall best acc m rest,
  extract_min_from best acc l = (m, rest) ->
  Permutation (m :: rest) (best :: l ++ acc) /\
  (q_cost m <= q_cost best)%Q /\ forall x, In x l -> (q_cost m <= q_cost x)%Q.
Proof.
  induction l as [|e r IH]; simpl; intros best acc m rest H.
  - inversion H; subst. split; [reflexivity|]. split; [apply Qle_refl|contradiction].
  - destruct (entry_lt e best) eqn:L.
    + destruct (IH _ _ _ _ H) as (P&C&A). split; [|split].
      * rewrite P. simpl. rewrite <- Permutation_middle. apply perm_swap.
      * eapply Qle_trans; [exact C|]. now apply entry_lt_cost.
      * intros x [<-|I]; auto.
    + destruct (IH _ _ _ _ H) as (P&C&A). split; [|split].
      * rewrite P. simpl. rewrite <- Permutation_middle. reflexivity.
      * exact C.
      * intros x [<-|I]; auto. eapply Qle_trans; [exact C|]. now apply entry_lt_false_cost.
Qed.

Lemma extract_min_spec l e rest : extract_min l = Some (e, rest) ->
  Permutation (e :: rest) l /\ forall x, In x l -> (q_cost e <= q_cost x)%Q.
Proof.
  destruct l as [|b r]; simpl; [discriminate|]. intros H. inversion H as [H1]; clear H.
  destruct (extract_min_from_spec _ _ _ _ _ H1) as (P&C&A). rewrite app_nil_r in P.
  split; auto. intros x [<-|I]; auto.
Qed.

Lemma extract_min_none l : extract_min l = None -> l = [].
Proof. destruct l; simpl; congruence. Qed.

(* ------------------------------------------------------------------------------------ *)
(* D. the engine: frontier invariant                                                      *)
(* ------------------------------------------------------------------------------------ *)
Section Engine.
  Variable tape : nat -> Q.
  Variable fa : fargs.
  Variable max_gamma : Q.
  Variable max_backjumps : option nat.
  Variable s0 : dstate.                                (* the start state of the engine *)
  Hypothesis G : gammas_ok (fa_gates fa).
  Hypothesis s0_ok : (0 <= cost s0)%Q.

  Definition okc (s : dstate) : Prop := (0 <= cost s)%Q.
  Definition reach : dstate -> dstate -> Prop := greach dstate (succ fa).
  Definition goal (s : dstate) : Prop := goal_state fa s = true.

  Lemma okc_step x y : okc x -> succ fa x y -> okc y.
  Proof. intros O S. unfold okc in *. eapply Qle_trans; [exact O|]. eapply succ_mono; eauto. Qed.

  Lemma mono_step x y : okc x -> succ fa x y -> (cost x <= cost y)%Q.
  Proof. intros; eapply succ_mono; eauto. Qed.

  Lemma reach_ok x y : okc x -> reach x y -> okc y.
  Proof. apply greach_ok. exact okc_step. Qed.

  Lemma reach_mono x y : okc x -> reach x y -> (cost x <= cost y)%Q.
  Proof. apply (greach_mono dstate cost (succ fa) okc okc_step mono_step). Qed.

  (* a goal has no successors: next_states indexes the gate list at `level` *)
  Lemma goal_no_succ s s' : goal s -> ~ succ fa s s'.
  Proof.
    unfold goal, goal_state. intros Hg (l&H&_). apply Nat.leb_le in Hg.
    destruct (next_states_spec _ _ _ H) as (g&E&_). apply nth_error_None in Hg. congruence.
  Qed.

  Definition below_ub (b : bfs) (g : dstate) : Prop :=
    match upperbound b with Some u => (cost g < u)%Q | None => True end.
  Definition ub_le (b : bfs) (g : dstate) : Prop :=
    match upperbound b with Some u => (u <= cost g)%Q | None => False end.

  Lemma not_below_ub b g : ~ below_ub b g -> ub_le b g.
  Proof. unfold below_ub, ub_le. destruct (upperbound b); [apply Qnot_lt_le|tauto]. Qed.

  Record Inv (b : bfs) : Prop := mkInv {
    inv_cost : forall e, In e (pq b) -> q_cost e = cost (q_state e) ;
    inv_reach : forall e, In e (pq b) -> reach s0 (q_state e) ;
    (* the frontier invariant: while the flag is not set, every goal of the search space that is strictly
       better than the incumbent lies below some queued state *)
    inv_front : min_reached b = false -> forall g, reach s0 g -> goal g -> below_ub b g ->
                exists e, In e (pq b) /\ reach (q_state e) g ;
    (* once the flag is set, the incumbent is a lower bound for every goal of the search space *)
    inv_done : min_reached b = true -> forall g, reach s0 g -> goal g -> ub_le b g
  }.

  (* ---- put ---- *)
  Definition kept (b : bfs) (s : dstate) : Prop :=
    match upperbound b with Some u => (cost s <= u)%Q | None => True end.

  Lemma put_states_spec l : forall b d,
    let b' := put_states tape b l d in
    upperbound b' = upperbound b /\ min_reached b' = min_reached b /\
    (forall e, In e (pq b) -> In e (pq b')) /\
    (forall e, In e (pq b') -> In e (pq b) \/ (In (q_state e) l /\ q_cost e = cost (q_state e) /\ q_depth e = d)) /\
    (forall s, In s l -> kept b s -> exists e, In e (pq b') /\ q_state e = s).
  Proof.
    induction l as [|s r IH]; intros b d; cbn [put_states].
    - cbv zeta. repeat split; auto. contradiction.
    - set (b1 := match upperbound b with
                 | Some u => if Qleb (cost s) u then incr_enq (pq_put tape b s d (cost s)) else b
                 | None => incr_enq (pq_put tape b s d (cost s)) end).
      assert (B1 : upperbound b1 = upperbound b /\ min_reached b1 = min_reached b /\
                   (forall e, In e (pq b) -> In e (pq b1)) /\
                   (forall e, In e (pq b1) -> In e (pq b) \/ (q_state e = s /\ q_cost e = cost s /\ q_depth e = d)) /\
                   (kept b s -> exists e, In e (pq b1) /\ q_state e = s)).
      { unfold b1, kept. destruct (upperbound b) as [u|] eqn:EU.
        - destruct (Qleb (cost s) u) eqn:EL.
          + simpl. repeat split; auto.
            * intros e [<-|I]; auto.
            * intros _. eexists; split; [left; reflexivity|reflexivity].
          + rewrite EU. repeat split; auto. intros L. apply Qleb_false in EL. exfalso. now apply (Qlt_not_le _ _ EL).
        - simpl. repeat split; auto.
          + intros e [<-|I]; auto.
          + intros _. eexists; split; [left; reflexivity|reflexivity]. }
      destruct B1 as (U1&M1&S1&C1&K1). specialize (IH b1 d). cbv zeta in IH |- *.
      destruct IH as (U2&M2&S2&C2&K2). repeat split; try congruence.
      + auto.
      + intros e I. destruct (C2 e I) as [I1|(?&?&?)].
        * destruct (C1 e I1) as [?|(?&?&?)]; [auto|]. right; repeat split; auto. left; congruence. congruence.
        * right; repeat split; auto. now right.
      + intros x [<-|I] Kx.
        * destruct (K1 Kx) as (e&Ie&Es). exists e; split; auto.
        * apply K2; auto. unfold kept in *. now rewrite U1.
  Qed.

  Lemma bfs_put_spec l b d :
    let b' := bfs_put tape b l d in
    upperbound b' = upperbound b /\ min_reached b' = min_reached b /\
    (forall e, In e (pq b) -> In e (pq b')) /\
    (forall e, In e (pq b') -> In e (pq b) \/ (In (q_state e) l /\ q_cost e = cost (q_state e) /\ q_depth e = d)) /\
    (forall s, In s l -> kept b s -> exists e, In e (pq b') /\ q_state e = s).
  Proof.
    unfold bfs_put.
    set (b1 := mkB (pq b) (pushes b) (upperbound b) (min_reached b) (n_visited b) (n_next b + length l) (n_enq b)
                  (n_backjumps b) (pen_stats b) (n_pushback b)).
    exact (put_states_spec l b1 d).
  Qed.

  (* ---- one pass of the engine ---- *)
  Lemma front_min b e rest : Inv b -> min_reached b = false -> extract_min (pq b) = Some (e, rest) ->
    forall g, reach s0 g -> goal g -> below_ub b g -> (q_cost e <= cost g)%Q.
  Proof.
    intros I M E g R Gg B. destruct (extract_min_spec _ _ _ E) as (P&Mn).
    destruct (inv_front b I M g R Gg B) as (e'&Ie&Re).
    eapply Qle_trans; [apply Mn; exact Ie|]. rewrite (inv_cost b I e' Ie). apply reach_mono; auto.
    eapply reach_ok; [exact s0_ok|]. apply (inv_reach b I); auto.
  Qed.

  Definition ub_mono (b b' : bfs) : Prop :=
    forall u, upperbound b = Some u -> exists u', upperbound b' = Some u' /\ (u' <= u)%Q.

  Lemma ub_mono_refl b : ub_mono b b.
  Proof. intros u H; exists u; split; auto. apply Qle_refl. Qed.

  Lemma ub_mono_trans a b c : ub_mono a b -> ub_mono b c -> ub_mono a c.
  Proof.
    intros H1 H2 u Hu. destruct (H1 u Hu) as (u1&E1&L1). destruct (H2 u1 E1) as (u2&E2&L2).
    exists u2; split; auto. eapply Qle_trans; eauto.
  Qed.

  Definition res_ok (b' : bfs) (r : option (dstate * Q)) : Prop :=
    match r with
    | Some (s, c) => c = cost s /\ reach s0 s /\ goal s /\ min_reached b' = true /\
                     exists u', upperbound b' = Some u' /\ (u' == c)%Q
    | None => True
    end.

  (* the search is not cut short: no backjump limit, and some goal of the search space is within max_gamma *)
  Definition unrestricted : Prop :=
    max_backjumps = None /\ exists g, reach s0 g /\ goal g /\ (cost g <= max_gamma)%Q.

  Lemma loop_exit b : Inv b ->
    let b' := match pq b with [] => set_min_reached b true | _ => b end in
    Inv b' /\ ub_mono b b' /\
    (max_backjumps = None ->
     negb (match pq b with [] => false | _ => true end && negb (min_reached b) && backjumps_left max_backjumps b) = true ->
     min_reached b' = true) /\ upperbound b' = upperbound b.
  Proof.
    intros I. destruct (pq b) as [|e0 r0] eqn:EP; cbv zeta.
    - split; [|split; [intros u H; exists u; split; [exact H|apply Qle_refl]|split; reflexivity]].
      constructor; simpl; rewrite ?EP; try contradiction; try discriminate.
      intros _ g R Gg. destruct (min_reached b) eqn:M; [now apply (inv_done b I)|].
      apply not_below_ub. intros B. destruct (inv_front b I M g R Gg B) as (e&Ie&_). rewrite EP in Ie. contradiction.
    - split; [exact I|split; [apply ub_mono_refl|split; [|reflexivity]]]. intros MB. unfold backjumps_left. rewrite MB. simpl.
      destruct (min_reached b); simpl; congruence.
  Qed.

  Lemma mk_Inv x :
    (forall e, In e (pq x) -> q_cost e = cost (q_state e) /\ reach s0 (q_state e)) ->
    (min_reached x = true -> forall g, reach s0 g -> goal g -> ub_le x g) ->
    (min_reached x = false -> forall g, reach s0 g -> goal g -> below_ub x g -> exists e, In e (pq x) /\ reach (q_state e) g) ->
    Inv x.
  Proof. intros E A B. constructor; auto; intros e Ie; now destruct (E e Ie). Qed.

  Lemma pass_loop_inv fuel : forall b pd b' r, Inv b ->
    pass_loop tape fa max_gamma max_backjumps fuel b pd = Val (b', r) ->
    Inv b' /\ ub_mono b b' /\ res_ok b' r /\ (unrestricted -> r = None -> min_reached b' = true) /\
    (r = None -> upperbound b' = upperbound b).
  Proof.
    induction fuel as [|f IH]; intros b pd b' r I H.
    - cbn [pass_loop] in H. destruct (negb _) eqn:C; [|discriminate]. inversion H; subst.
      destruct (loop_exit b I) as (I'&U'&M'&E'). split; auto. split; auto. split; [exact Logic.I|]. split; [|auto].
      intros (MB&_) _. apply M'; auto.
    - cbn [pass_loop] in H. destruct (negb (_ && _ && _)) eqn:C.
      + inversion H; subst.
        destruct (loop_exit b I) as (I'&U'&M'&E'). split; auto. split; auto. split; [exact Logic.I|]. split; [|auto].
        intros (MB&_) _. apply M'; auto.
      + apply negb_false_iff in C. apply andb_prop in C as [C1 BJ]. apply andb_prop in C1 as [NE MR].
        apply negb_true_iff in MR.
        destruct (extract_min (pq b)) as [[e rest]|] eqn:EM; [|discriminate].
        destruct (extract_min_spec _ _ _ EM) as (P&Mn).
        assert (Ee : In e (pq b)) by (eapply Permutation_in; [exact P|left; reflexivity]).
        assert (Er : forall x, In x rest -> In x (pq b)) by (intros x Ix; eapply Permutation_in; [exact P|right; exact Ix]).
        assert (Eb : forall x, In x (pq b) -> x = e \/ In x rest).
        { intros x Ix. apply (Permutation_in x (Permutation_sym P)) in Ix. destruct Ix; auto. }
        pose proof (inv_cost b I e Ee) as Hc. pose proof (inv_reach b I e Ee) as Hr.
        assert (Hok : okc (q_state e)) by (eapply reach_ok; [exact s0_ok|exact Hr]).
        pose proof (front_min b e rest I MR EM) as FM.
        set (b0 := mkB rest (pushes b) (upperbound b) (min_reached b) (n_visited b) (n_next b) (n_enq b)
                       (n_backjumps b) (pen_stats b) (n_pushback b)) in H.
        set (b1 := update_minimum_reached b0 (q_cost e)) in H.
        assert (B1 : pq b1 = rest /\ upperbound b1 = upperbound b /\
                     (min_reached b1 = true -> exists u, upperbound b = Some u /\ (u <= q_cost e)%Q) /\
                     (min_reached b1 = false -> forall u, upperbound b = Some u -> (q_cost e < u)%Q)).
        { unfold b1, update_minimum_reached, b0; cbn [upperbound]. destruct (upperbound b) as [u|] eqn:EU.
          - destruct (Qleb u (q_cost e)) eqn:EL; simpl; rewrite ?EU, ?MR; repeat split; auto; try discriminate.
            + intros _. exists u; split; auto. now apply Qleb_true.
            + intros _ u' E'. inversion E'; subst. now apply Qleb_false.
          - simpl. rewrite ?EU, ?MR. repeat split; auto; discriminate. }
        destruct B1 as (Pq1&U1&M1&M0).
        assert (LB1 : min_reached b1 = true -> forall g, reach s0 g -> goal g -> ub_le b g).
        { intros M g R Gg. destruct (M1 M) as (u&EU&Lu). apply not_below_ub. intros B.
          pose proof (FM g R Gg B) as L. unfold below_ub in B. rewrite EU in B.
          apply (Qlt_not_le _ _ B). eapply Qle_trans; eauto. }
        assert (ENT : forall x, In x rest -> q_cost x = cost (q_state x) /\ reach s0 (q_state x)).
        { intros x Ix. split; [apply (inv_cost b I)|apply (inv_reach b I)]; auto. }
        destruct (cost_bounds_exceeded max_gamma b1 (q_cost e)) eqn:CB.
        * (* a bound is exceeded: the pass ends; repaired behaviour pushes the state back *)
          destruct (min_reached b1) eqn:M.
          -- inversion H; subst b' r. split; [|split; [|split; [exact Logic.I|split; [auto|intros _; exact U1]]]].
             ++ apply mk_Inv; rewrite ?Pq1; auto; try congruence.
                intros _ g R Gg. unfold ub_le. rewrite U1. now apply LB1.
             ++ intros u Hu. exists u. split; [rewrite U1; exact Hu|apply Qle_refl].
          -- inversion H; subst b' r. cbn [pq upperbound min_reached pq_put]. split; [|split; [|split; [exact Logic.I|split; [|intros _; exact U1]]]].
             ++ apply mk_Inv; cbn [pq upperbound min_reached]; rewrite ?Pq1, ?M; try discriminate.
                ** intros x [<-|Ix]; [simpl; auto|auto].
                ** intros _ g R Gg B. unfold below_ub in B; cbn [upperbound] in B. rewrite U1 in B.
                   destruct (inv_front b I MR g R Gg B) as (e'&Ie'&Re').
                   destruct (Eb e' Ie') as [->|Ix]; [eexists; split; [left; reflexivity|exact Re']|].
                   exists e'; split; [right; exact Ix|exact Re'].
             ++ intros u Hu. exists u. split; [rewrite U1; exact Hu|apply Qle_refl].
             ++ intros (MB&g&R&Gg&Lg) _. exfalso.
                unfold cost_bounds_exceeded in CB. rewrite U1 in CB.
                assert (X : Qltb max_gamma (q_cost e) = true).
                { destruct (Qltb max_gamma (q_cost e)); auto. simpl in CB.
                  destruct (upperbound b) as [u|] eqn:EU; [|discriminate].
                  apply Qltb_true in CB. exfalso. apply (Qlt_not_le _ _ CB). apply Qlt_le_weak. now apply M0. }
                apply Qltb_true in X.
                destruct (upperbound b) as [u|] eqn:EU.
                ** destruct (Qlt_le_dec (cost g) u) as [Lt|Le].
                   --- assert (B : below_ub b g) by (unfold below_ub; now rewrite EU).
                       pose proof (FM g R Gg B) as L. apply (Qlt_not_le _ _ X). eapply Qle_trans; eauto.
                   --- pose proof (M0 eq_refl u eq_refl) as L. apply (Qlt_not_le _ _ L).
                       eapply Qle_trans; [exact Le|]. eapply Qle_trans; [exact Lg|]. now apply Qlt_le_weak.
                ** assert (B : below_ub b g) by (unfold below_ub; now rewrite EU).
                   pose proof (FM g R Gg B) as L. apply (Qlt_not_le _ _ X). eapply Qle_trans; eauto.
        * (* within the bounds *)
          assert (CU : forall u, upperbound b = Some u -> (q_cost e <= u)%Q).
          { intros u EU. unfold cost_bounds_exceeded in CB. rewrite U1, EU in CB.
            apply orb_false_iff in CB as [_ CB]. now apply Qltb_false. }
          destruct (goal_state fa (q_state e)) eqn:GS.
          -- (* a goal is popped *)
             inversion H; subst b' r. clear H.
             set (b3 := mkB _ _ _ _ _ _ _ _ _ _).
             assert (B4 : exists u4, upperbound (update_upperbound b3 (q_state e)) = Some u4 /\ (u4 == q_cost e)%Q /\
                          (forall u, upperbound b = Some u -> (u4 <= u)%Q)).
             { unfold update_upperbound, b3; cbn [upperbound]. rewrite U1. destruct (upperbound b) as [u|] eqn:EU.
               - destruct (Qltb (cost (q_state e)) u) eqn:EL.
                 + eexists; split; [reflexivity|]. split; [now rewrite Hc|]. intros u' E'; injection E' as <-.
                   apply Qlt_le_weak. now apply Qltb_true.
                 + eexists; split; [reflexivity|]. split.
                   * apply Qle_antisym; [|now apply CU]. apply Qltb_false in EL. now rewrite Hc.
                   * intros u' E'; injection E' as <-. apply Qle_refl.
               - eexists; split; [reflexivity|]. split; [now rewrite Hc|discriminate]. }
             destruct B4 as (u4&E4&Q4&L4).
             assert (B5 : update_minimum_reached (update_upperbound b3 (q_state e)) (q_cost e)
                          = set_min_reached (update_upperbound b3 (q_state e)) true).
             { unfold update_minimum_reached. rewrite E4.
               assert (X : Qleb u4 (q_cost e) = true) by (apply Qleb_true; rewrite Q4; apply Qle_refl).
               now rewrite X. }
             rewrite B5. set (F := set_min_reached _ true).
             assert (PF : pq F = rest) by exact Pq1.
             assert (MF : min_reached F = true) by reflexivity.
             assert (UF : upperbound F = Some u4) by exact E4.
             split; [|split; [|split; [|split; [|discriminate]]]].
             ++ apply mk_Inv; rewrite ?PF, ?MF; auto; try discriminate.
                intros _ g R Gg. unfold ub_le. rewrite UF. apply Qnot_lt_le. intros Lt.
                assert (B : below_ub b g).
                { unfold below_ub. destruct (upperbound b) as [u|] eqn:EU; auto. eapply Qlt_le_trans; [exact Lt|]. now apply L4. }
                pose proof (FM g R Gg B) as L. apply (Qlt_not_le _ _ Lt). now rewrite Q4.
             ++ intros u Hu. exists u4. split; [exact UF|now apply L4].
             ++ cbn [res_ok]. repeat split; auto. exists u4. split; auto.
             ++ discriminate.
          -- (* expansion *)
             obind_inv H. rename v into l.
             set (b2 := mkB _ _ _ _ _ _ _ _ _ _) in H.
             destruct (bfs_put_spec l b2 (S (q_depth e))) as (U2&M2&S2&C2&K2).
             cbn [b2 upperbound min_reached pq] in U2, M2, S2, C2. rewrite Pq1 in S2, C2. rewrite U1 in U2.
             assert (I2 : Inv (bfs_put tape b2 l (S (q_depth e)))).
             { apply mk_Inv.
               - intros x Ix. destruct (C2 x Ix) as [Ir|(Il&Cx&_)]; [auto|]. split; auto.
                 eapply greach_snoc; [exact Hr|]. exists l; split; auto.
               - rewrite M2. intros M g R Gg. unfold ub_le. rewrite U2. now apply LB1.
               - rewrite M2. intros M g R Gg B. unfold below_ub in B. rewrite U2 in B.
                 destruct (inv_front b I MR g R Gg B) as (e'&Ie'&Re').
                 destruct (Eb e' Ie') as [->|Ix]; [|exists e'; split; auto].
                 assert (N : q_state e <> g) by (intros Eg; unfold goal in Gg; rewrite <- Eg in Gg; congruence).
                 destruct (expand_covers _ _ _ _ Re' N) as (y&(l'&El'&Iy)&Ry).
                 assert (l' = l) by congruence. subst l'.
                 assert (Oy : okc y) by (eapply okc_step; [exact Hok|exists l; split; auto]).
                 assert (Ky : kept b2 y).
                 { unfold kept, b2; cbn [upperbound]. rewrite U1. destruct (upperbound b) as [u|] eqn:EU; auto.
                   apply Qlt_le_weak. eapply Qle_lt_trans; [apply reach_mono; [exact Oy|exact Ry]|exact B]. }
                 destruct (K2 y Iy Ky) as (ey&Iey&Ey). exists ey; split; auto. now rewrite Ey. }
             destruct (IH _ _ _ _ I2 H) as (I'&UM&RO&UR&UE). split; auto. split; [|split; [auto|split; [auto|]]].
             ++ intros u Hu. apply UM. congruence.
             ++ intros N. rewrite (UE N). exact U2.
  Qed.

  (* ---- CutOptimization.optimization_pass and the driver loop ---- *)
  Definition acc_ok (gr : option dstate) (acc : list (Q * dstate)) : Prop :=
    forall x, In x acc -> (fst x == cost (snd x))%Q /\ (0 <= fst x)%Q /\
                          (gr = Some (snd x) \/ (reach s0 (snd x) /\ goal (snd x))).

  Record DInv (co : cutopt) (acc : list (Q * dstate)) : Prop := mkDInv {
    d_inv : Inv (co_engine co) ;
    d_acc : acc_ok (co_greedy co) acc ;
    d_gr : forall g, co_greedy co = Some g ->
             (0 <= cost g)%Q /\ exists u, upperbound (co_engine co) = Some u /\ (u <= cost g)%Q ;
    d_ret : co_returned co = true -> forall u, upperbound (co_engine co) = Some u -> exists x, In x acc /\ (fst x <= u)%Q ;
    d_first : co_returned co = false ->
              acc = [] /\ forall u, upperbound (co_engine co) = Some u -> exists g, co_greedy co = Some g /\ (cost g <= u)%Q
  }.

  Lemma cutopt_pass_inv fuel co acc co' r : DInv co acc ->
    cutopt_pass tape fa max_gamma max_backjumps fuel co = Val (co', r) ->
    co_returned co' = true /\ co_greedy co' = co_greedy co /\
    match r with
    | Some (s, c) => DInv co' (acc ++ [(c, s)])
    | None => DInv co' acc /\ (unrestricted -> min_reached (co_engine co') = true)
    end.
  Proof.
    intros D H. unfold cutopt_pass, engine_pass in H. obind_inv H. destruct v as [b r0]. cbn beta iota in H.
    destruct (pass_loop_inv _ _ _ _ _ (d_inv _ _ D) E) as (I'&UM&RO&UR&UE).
    assert (GR : forall g, co_greedy co = Some g ->
                 (0 <= cost g)%Q /\ exists u, upperbound b = Some u /\ (u <= cost g)%Q).
    { intros g Eg. destruct (d_gr _ _ D g Eg) as (P&u&Eu&Lu). split; auto.
      destruct (UM u Eu) as (u'&Eu'&Lu'). exists u'; split; auto. eapply Qle_trans; eauto. }
    destruct r0 as [[s c]|].
    - (* the engine returned a goal *)
      inversion H; subst co' r. cbn [co_returned co_greedy]. split; auto. split; auto.
      destruct RO as (Ec&Rs&Gs&Ms&u'&Eu'&Qu').
      constructor; cbn [co_engine co_greedy co_returned]; auto.
      + intros x Ix. apply in_app_or in Ix. destruct Ix as [Ix|[<-|[]]]; [now apply (d_acc _ _ D)|].
        cbn [fst snd]. split; [rewrite Ec; reflexivity|]. split; [|right; auto].
        rewrite Ec. eapply reach_ok; [exact s0_ok|exact Rs].
      + intros _ u Eu. exists (c, s). split; [apply in_or_app; right; left; reflexivity|].
        cbn [fst]. assert (u = u') by congruence. subst u'. rewrite Qu'. apply Qle_refl.
      + discriminate.
    - (* the engine returned nothing *)
      destruct (co_returned co) eqn:RT.
      + inversion H; subst co' r. cbn [co_returned co_greedy co_engine]. split; auto. split; auto. split; [|auto].
        constructor; cbn [co_engine co_greedy co_returned]; auto.
        * apply (d_acc _ _ D).
        * intros _ u Eu. apply (d_ret _ _ D RT). now rewrite <- (UE eq_refl).
        * discriminate.
      + destruct (co_greedy co) as [g|] eqn:EG; [|discriminate].
        inversion H; subst co' r. cbn [co_returned co_greedy co_engine]. split; auto. split; auto.
        destruct (d_first _ _ D RT) as (->&FG). cbn [app].
        constructor; cbn [co_engine co_greedy co_returned]; auto.
        * intros x [<-|[]]. cbn [fst snd]. split; [reflexivity|]. split; [|left; auto]. apply (GR g eq_refl).
        * intros _ u Eu. exists (cost g, g). split; [left; reflexivity|]. cbn [fst].
          rewrite (UE eq_refl) in Eu. destruct (FG u Eu) as (g'&Eg'&Lg'). assert (g' = g) by congruence. subst g'. exact Lg'.
        * discriminate.
  Qed.

  Lemma driver_loop_inv passes fuel : forall co acc co' acc', DInv co acc ->
    driver_loop tape fa max_gamma max_backjumps passes fuel co acc = Val (co', acc') ->
    DInv co' acc' /\ co_returned co' = true /\ co_greedy co' = co_greedy co /\
    (unrestricted -> min_reached (co_engine co') = true).
  Proof.
    induction passes as [|p IH]; intros co acc co' acc' D H; cbn [driver_loop] in H; [discriminate|].
    obind_inv H. destruct v as [co1 r]. cbn beta iota in H.
    destruct (cutopt_pass_inv _ _ _ _ _ D E) as (RT&GR&X).
    destruct r as [[s c]|].
    - destruct (IH _ _ _ _ X H) as (D'&RT'&GR'&UR'). split; [exact D'|split; [exact RT'|split; [congruence|exact UR']]].
    - inversion H; subst co' acc'. destruct X as (D'&UR'). split; [exact D'|split; [exact RT|split; [exact GR|exact UR']]].
  Qed.

  Lemma first_min_cost_spec l : forall best,
    let m := first_min_cost best l in
    In m (best :: l) /\ forall x, In x (best :: l) -> (fst m <= fst x)%Q.
  Proof.
    induction l as [|y r IH]; intros best; cbn [first_min_cost].
    - cbv zeta. split; [left; reflexivity|]. intros x [<-|[]]. apply Qle_refl.
    - destruct (Qltb (fst y) (fst best)) eqn:L.
      + destruct (IH y) as (I1&M1). cbv zeta. split.
        * destruct I1 as [I1|I1]; [right; left; exact I1|right; right; exact I1].
        * intros x [<-|[<-|Ix]].
          -- eapply Qle_trans; [apply M1; left; reflexivity|]. apply Qlt_le_weak. now apply Qltb_true.
          -- apply M1; left; reflexivity.
          -- apply M1; right; exact Ix.
      + destruct (IH best) as (I1&M1). cbv zeta. split.
        * destruct I1 as [I1|I1]; [left; exact I1|right; right; exact I1].
        * intros x [<-|[<-|Ix]].
          -- apply M1; left; reflexivity.
          -- eapply Qle_trans; [apply M1; left; reflexivity|]. now apply Qltb_false.
          -- apply M1; right; exact Ix.
  Qed.

  (* what the final state of the driver says about the cheapest collected goal *)
  Lemma driver_result co acc g0 r0 : DInv co acc -> co_returned co = true -> acc = g0 :: r0 ->
    let best := snd (first_min_cost g0 r0) in
    (0 <= cost best)%Q /\
    (co_greedy co = Some best \/ (reach s0 best /\ goal best)) /\
    (forall g, co_greedy co = Some g -> (cost best <= cost g)%Q) /\
    (min_reached (co_engine co) = true -> forall g, reach s0 g -> goal g -> (cost best <= cost g)%Q).
  Proof.
    intros D RT ->. destruct (first_min_cost_spec r0 g0) as (Im&Mm). cbv zeta in *.
    set (m := first_min_cost g0 r0) in *.
    destruct (d_acc _ _ D m Im) as (Em&Pm&Km).
    assert (UB : forall u, upperbound (co_engine co) = Some u -> (cost (snd m) <= u)%Q).
    { intros u Eu. destruct (d_ret _ _ D RT u Eu) as (x&Ix&Lx). rewrite <- Em.
      eapply Qle_trans; [apply Mm; exact Ix|exact Lx]. }
    split; [now rewrite <- Em|]. split; [exact Km|]. split.
    - intros g Eg. destruct (d_gr _ _ D g Eg) as (_&u&Eu&Lu). eapply Qle_trans; [apply UB; exact Eu|exact Lu].
    - intros MR g R Gg. pose proof (inv_done _ (d_inv _ _ D) MR g R Gg) as L. unfold ub_le in L.
      destruct (upperbound (co_engine co)) as [u|] eqn:Eu; [|contradiction].
      eapply Qle_trans; [apply UB; reflexivity|exact L].
  Qed.
End Engine.

(* ------------------------------------------------------------------------------------ *)
(* E. CutOptimization.__init__, LOCutsOptimizer.optimize, find_cuts                       *)
(* ------------------------------------------------------------------------------------ *)
(* the wire-cut budget and the start state of the best-first search, as computed by CutOptimization.__init__ *)
Definition search_budget (fa : fargs) (max_gamma : Q) (nq : nat) : nat :=
  let mwc_c := max_wire_cuts_circuit (fa_gates fa) in
  match greedy_cut_optimization nq fa with
  | Val (Some g) => Nat.min mwc_c (max_wire_cuts_gamma (gamma_UB g))
  | _ => Nat.min mwc_c (max_wire_cuts_gamma max_gamma)
  end.

Definition search_start (fa : fargs) (max_gamma : Q) (nq : nat) : dstate :=
  init_state nq (search_budget fa max_gamma nq).

(* the greedy incumbent (None: the greedy pass dead-ended, or did not return a value) *)
Definition greedy_of (fa : fargs) (nq : nat) : option dstate :=
  match greedy_cut_optimization nq fa with Val g => g | _ => None end.

Lemma first_min_in l : forall best, In (first_min best l) (best :: l).
Proof.
  induction l as [|s r IH]; intros best; cbn [first_min]; [left; reflexivity|].
  destruct (Qltb (cost s) (cost best)).
  - destruct (IH s) as [H|H]; [right; left; exact H|right; right; exact H].
  - destruct (IH best) as [H|H]; [left; exact H|right; right; exact H].
Qed.

Lemma greedy_cost fa : gammas_ok (fa_gates fa) -> forall fuel s g,
  greedy fuel fa s = Val (Some g) -> (0 <= cost s)%Q -> (0 <= cost g)%Q.
Proof.
  intros G. induction fuel as [|f IH]; intros s g H P; cbn [greedy] in H.
  - destruct (goal_state fa s); [inversion H; subst; auto|discriminate].
  - destruct (goal_state fa s); [inversion H; subst; auto|].
    obind_inv H. destruct v as [|s1 r]; [discriminate|].
    apply (IH _ _ H). eapply Qle_trans; [exact P|].
    eapply succ_mono; eauto. exists (s1 :: r); split; auto. apply first_min_in.
Qed.

Lemma init_state_cost nq k : cost (init_state nq k) = 1%Q.
Proof. reflexivity. Qed.

Lemma cutopt_init_inv tape fa mg nq co : gammas_ok (fa_gates fa) ->
  cutopt_init tape fa mg nq = Val co ->
  DInv fa (search_start fa mg nq) co [] /\ co_returned co = false /\ co_greedy co = greedy_of fa nq.
Proof.
  intros G H. unfold cutopt_init in H. obind_inv H. rename v into gr.
  unfold search_start, search_budget, greedy_of. rewrite E.
  assert (I0 : forall start b, pq b = [mkQE (cost start) 0 (tape 0) 0 start] -> min_reached b = false -> Inv fa start b).
  { intros start b Pb Mb. apply mk_Inv; rewrite ?Pb, ?Mb; try discriminate.
    - intros e [<-|[]]. simpl. split; auto. constructor.
    - intros _ g R _ _. eexists; split; [left; reflexivity|exact R]. }
  destruct gr as [g|]; inversion H; subst co; clear H; cbn [co_returned co_greedy]; (split; [|split; reflexivity]).
  - assert (Pg : (0 <= cost g)%Q).
    { unfold greedy_cut_optimization in E. eapply greedy_cost; eauto. rewrite init_state_cost. discriminate. }
    constructor; cbn [co_engine co_greedy co_returned]; try discriminate.
    + apply I0; reflexivity.
    + intros x [].
    + intros g' Eg'. injection Eg' as <-. split; auto. exists (cost g). split; [reflexivity|apply Qle_refl].
    + intros _. split; auto. intros u Eu. exists g. split; auto.
      assert (u = cost g) by (cbn in Eu; congruence). subst u. apply Qle_refl.
  - constructor; cbn [co_engine co_greedy co_returned]; try discriminate.
    + apply I0; reflexivity.
    + intros x [].
    + intros _. split; auto. intros u Eu. cbn in Eu. discriminate.
Qed.

(* everything the proofs need to know about a finished call of LOCutsOptimizer.optimize *)
Record opt_facts (fa : fargs) (mg : Q) (mb : option nat) (nq : nat) (r : opt_result) (best : dstate) : Prop := mkOF {
  of_pos : (0 <= cost best)%Q ;
  (* the returned state is the greedy incumbent or a goal of the guarded search space *)
  of_kind : greedy_of fa nq = Some best \/ (reach fa (search_start fa mg nq) best /\ goal fa best) ;
  (* it is never worse than the greedy incumbent *)
  of_greedy : forall g, greedy_of fa nq = Some g -> (cost best <= cost g)%Q ;
  (* flag soundness relative to the guarded search space *)
  of_flag : min_reached (co_engine (or_cutopt r)) = true ->
            forall g, reach fa (search_start fa mg nq) g -> goal fa g -> (cost best <= cost g)%Q ;
  (* an unrestricted search sets the flag *)
  of_unrestricted : unrestricted fa mg mb (search_start fa mg nq) -> min_reached (co_engine (or_cutopt r)) = true
}.

Lemma optimize_facts tape fa mg mb nq fuel r best : gammas_ok (fa_gates fa) ->
  optimize tape fa mg mb nq fuel = Val r -> or_best r = Some best -> opt_facts fa mg mb nq r best.
Proof.
  intros G H B. unfold optimize in H. obind_inv H. rename v into co. obind_inv H. destruct v as [co' goals].
  cbn beta iota in H.
  destruct (cutopt_init_inv _ _ _ _ _ G E) as (D0&R0&G0).
  assert (P0 : (0 <= cost (search_start fa mg nq))%Q) by (unfold search_start; rewrite init_state_cost; discriminate).
  destruct (driver_loop_inv _ _ _ _ _ G P0 _ _ _ _ _ _ D0 E0) as (D'&RT'&GR'&UR').
  destruct goals as [|g0 r0]; inversion H; subst r; clear H; cbn [or_best or_cutopt] in *; [discriminate|].
  injection B as <-.
  destruct (driver_result _ _ _ _ _ _ D' RT' eq_refl) as (F1&F2&F3&F4). cbv zeta in *.
  rewrite GR', G0 in F2, F3.
  constructor; cbn [or_cutopt]; auto.
Qed.

(* ---- find_cuts_full ---- *)
Definition fa_of (i : fc_input) : fargs :=
  let f0 := iface_init (qc_to_cco (fi_nq i) (fi_gtab i) (fi_circ i)) in
  mkF (get_multiqubit_gates (if_circuit f0)) (search_actions (fi_gate_lo i) (fi_wire_lo i)) (fi_W i).

Definition nq_of (i : fc_input) : nat :=
  if_num_qubits (iface_init (qc_to_cco (fi_nq i) (fi_gtab i) (fi_circ i))).

Definition mb_of (i : fc_input) : option nat := option_map Z.to_nat (fi_max_backjumps i).

Lemma find_cuts_full_unpack fuel i r : find_cuts_full fuel i = Val r ->
  exists ro, optimize (fi_tape i) (fa_of i) (fi_max_gamma i) (mb_of i) (nq_of i) fuel = Val ro /\
             or_best ro = Some (fr_best r) /\
             md_overhead (fr_meta r) = (gamma_UB (fr_best r) * gamma_UB (fr_best r))%Q /\
             md_minimum_reached (fr_meta r) = min_reached (co_engine (or_cutopt ro)).
Proof.
  unfold find_cuts_full. intros H.
  destruct (Nat.ltb (fi_W i) 1); [discriminate|].
  destruct (negb (settings_ok i)); [discriminate|].
  obind_inv H. rename v into ro. exists ro. split; [exact E|].
  destruct (or_best ro) as [best|] eqn:EB; [|discriminate].
  obind_inv H. obind_inv H. obind_inv H. inversion H; subst r; clear H. cbn [fr_best fr_meta md_overhead md_minimum_reached].
  repeat split; reflexivity.
Qed.

(* gate gammas of the request are >= 1 (kappa of every registered basis; proved for the real bases in C15,
   monitored by the harness on every generated case) *)
Definition gammas_ok_in (i : fc_input) : Prop := gammas_ok (fa_gates (fa_of i)).

Lemma sq_le a b : (0 <= a)%Q -> (a <= b)%Q -> (a * a <= b * b)%Q.
Proof. intros P L. apply Qmult_le_compat_nonneg; split; auto. Qed.

Lemma sq_eq a b : (a == b)%Q -> (a * a == b * b)%Q.
Proof. intros E. now rewrite E. Qed.

(* ---- the C08 statements about find_cuts, relative to the guarded search space ---- *)
Definition start_of (i : fc_input) : dstate := search_start (fa_of i) (fi_max_gamma i) (nq_of i).

(* the request i with another random tape *)
Definition with_tape (i : fc_input) (t : nat -> Q) : fc_input :=
  mkIn (fi_nq i) (fi_ncl i) (fi_circ i) (fi_gtab i) (fi_W i) (fi_gate_lo i) (fi_wire_lo i) (fi_max_gamma i)
       (fi_max_backjumps i) t.

Lemma find_cuts_facts fuel i r : gammas_ok_in i -> find_cuts_full fuel i = Val r ->
  exists ro, opt_facts (fa_of i) (fi_max_gamma i) (mb_of i) (nq_of i) ro (fr_best r) /\
             md_overhead (fr_meta r) = (cost (fr_best r) * cost (fr_best r))%Q /\
             md_minimum_reached (fr_meta r) = min_reached (co_engine (or_cutopt ro)).
Proof.
  intros G H. destruct (find_cuts_full_unpack _ _ _ H) as (ro&Ho&Hb&Hov&Hfl).
  exists ro. split; [|split; auto]. eapply optimize_facts; eauto.
Qed.

Lemma flag_sound_guarded fuel i r : gammas_ok_in i -> find_cuts_full fuel i = Val r ->
  md_minimum_reached (fr_meta r) = true ->
  forall g, reach (fa_of i) (start_of i) g -> goal (fa_of i) g ->
  (md_overhead (fr_meta r) <= cost g * cost g)%Q.
Proof.
  intros G H F g R Gg. destruct (find_cuts_facts _ _ _ G H) as (ro&OF&Hov&Hfl).
  rewrite Hov. apply sq_le; [apply (of_pos _ _ _ _ _ _ OF)|].
  apply (of_flag _ _ _ _ _ _ OF); auto. congruence.
Qed.

Lemma unrestricted_sets_flag fuel i r : gammas_ok_in i -> find_cuts_full fuel i = Val r ->
  fi_max_backjumps i = None ->
  (exists g, reach (fa_of i) (start_of i) g /\ goal (fa_of i) g /\ (cost g <= fi_max_gamma i)%Q) ->
  md_minimum_reached (fr_meta r) = true.
Proof.
  intros G H MB EX. destruct (find_cuts_facts _ _ _ G H) as (ro&OF&Hov&Hfl).
  rewrite Hfl. apply (of_unrestricted _ _ _ _ _ _ OF). split; [|exact EX].
  unfold mb_of. now rewrite MB.
Qed.

(* the returned state is the greedy incumbent or a goal of the guarded space, and never worse than the incumbent *)
Lemma result_attained fuel i r : gammas_ok_in i -> find_cuts_full fuel i = Val r ->
  (greedy_of (fa_of i) (nq_of i) = Some (fr_best r) \/ (reach (fa_of i) (start_of i) (fr_best r) /\ goal (fa_of i) (fr_best r))) /\
  (forall g, greedy_of (fa_of i) (nq_of i) = Some g -> (md_overhead (fr_meta r) <= cost g * cost g)%Q) /\
  (md_overhead (fr_meta r) == cost (fr_best r) * cost (fr_best r))%Q.
Proof.
  intros G H. destruct (find_cuts_facts _ _ _ G H) as (ro&OF&Hov&Hfl). split; [apply (of_kind _ _ _ _ _ _ OF)|]. split.
  - intros g Eg. rewrite Hov. apply sq_le; [apply (of_pos _ _ _ _ _ _ OF)|now apply (of_greedy _ _ _ _ _ _ OF)].
  - rewrite Hov. reflexivity.
Qed.

Lemma seed_independent fuel1 fuel2 i t1 t2 r1 r2 : gammas_ok_in i ->
  fi_max_backjumps i = None ->
  (exists g, reach (fa_of i) (start_of i) g /\ goal (fa_of i) g /\ (cost g <= fi_max_gamma i)%Q) ->
  find_cuts_full fuel1 (with_tape i t1) = Val r1 -> find_cuts_full fuel2 (with_tape i t2) = Val r2 ->
  (md_overhead (fr_meta r1) == md_overhead (fr_meta r2))%Q.
Proof.
  intros G MB EX H1 H2.
  destruct (find_cuts_facts fuel1 (with_tape i t1) r1 G H1) as (ro1&OF1&Hov1&Hfl1).
  destruct (find_cuts_facts fuel2 (with_tape i t2) r2 G H2) as (ro2&OF2&Hov2&Hfl2).
  change (fa_of (with_tape i t1)) with (fa_of i) in *. change (fa_of (with_tape i t2)) with (fa_of i) in *.
  change (nq_of (with_tape i t1)) with (nq_of i) in *. change (nq_of (with_tape i t2)) with (nq_of i) in *.
  change (mb_of (with_tape i t1)) with (mb_of i) in *. change (mb_of (with_tape i t2)) with (mb_of i) in *.
  change (fi_max_gamma (with_tape i t1)) with (fi_max_gamma i) in *.
  change (fi_max_gamma (with_tape i t2)) with (fi_max_gamma i) in *.
  assert (U : unrestricted (fa_of i) (fi_max_gamma i) (mb_of i) (search_start (fa_of i) (fi_max_gamma i) (nq_of i))).
  { split; [unfold mb_of; now rewrite MB|exact EX]. }
  pose proof (of_unrestricted _ _ _ _ _ _ OF1 U) as M1. pose proof (of_unrestricted _ _ _ _ _ _ OF2 U) as M2.
  assert (L12 : (cost (fr_best r1) <= cost (fr_best r2))%Q).
  { destruct (of_kind _ _ _ _ _ _ OF2) as [Eg|(R&Gg)].
    - now apply (of_greedy _ _ _ _ _ _ OF1).
    - now apply (of_flag _ _ _ _ _ _ OF1 M1). }
  assert (L21 : (cost (fr_best r2) <= cost (fr_best r1))%Q).
  { destruct (of_kind _ _ _ _ _ _ OF1) as [Eg|(R&Gg)].
    - now apply (of_greedy _ _ _ _ _ _ OF2).
    - now apply (of_flag _ _ _ _ _ _ OF2 M2). }
  rewrite Hov1, Hov2. apply sq_eq. now apply Qle_antisym.
Qed.

(* Proofs/ResetSimQ.v — the laws of Proofs/ResetSimP.v hold for the exact state-vector simulator
   Common/QSim.v (arbitrary n-qubit vectors, every gate of its gate set), hence the two state-by-state
   reset passes preserve the concrete branch law.  [Zq q v]: v is supported where bit q = 0. *)
From Coq Require Import QArith Lia ZifyBool.
From CKT Require Import Common.Base Common.Circ Common.QSim Model.ResetPasses Model.ResetSim
  Proofs.ResetPassesP Proofs.ResetPassesSem Proofs.ResetSimP.
Close Scope Q_scope.

Definition Zq (q : nat) (v : vec) : Prop := qZ q v.   (* Model/ResetSim.v *)

(* ---- vectors ---- *)
Lemma tabulate_length v f : length (tabulate v f) = length v.
Proof. unfold tabulate. now rewrite map_length, seq_length. Qed.

Lemma vget_tabulate v f i : vget (tabulate v f) i = if Nat.ltb i (length v) then f i else azero.
Proof.
  unfold vget, tabulate. destruct (Nat.ltb_spec i (length v)) as [L|L].
  - rewrite (nth_indep _ azero (f 0)) by (now rewrite map_length, seq_length).
    rewrite map_nth. now rewrite seq_nth.
  - apply nth_overflow. now rewrite map_length, seq_length.
Qed.

Lemma vget_overflow v i : length v <= i -> vget v i = azero.
Proof. intros L. unfold vget. now apply nth_overflow. Qed.

Lemma vec_ext (v w : vec) : length v = length w -> (forall i, i < length v -> vget v i = vget w i) -> v = w.
Proof. intros L E. apply (nth_ext v w azero azero L). exact E. Qed.

Lemma amp_is_azero_spec a : amp_is_azero a = true <-> a = azero.
Proof.
  split; [|intros ->; reflexivity].
  destruct a as [[[n1 d1] [n2 d2]] [[n3 d3] [n4 d4]]]. unfold amp_is_azero.
  destruct n1; try discriminate. destruct d1; try discriminate.
  destruct n2; try discriminate. destruct d2; try discriminate.
  destruct n3; try discriminate. destruct d3; try discriminate.
  destruct n4; try discriminate. destruct d4; try discriminate. reflexivity.
Qed.

Lemma vec_is_zero_intro v : (forall i, vget v i = azero) -> vec_is_zero v = true.
Proof.
  intros H. unfold vec_is_zero. apply forallb_forall. intros x I.
  apply (In_nth _ _ azero) in I as [i [_ <-]]. apply amp_is_azero_spec. apply H.
Qed.

Lemma vec_is_zero_elim v : vec_is_zero v = true -> forall i, vget v i = azero.
Proof.
  intros H i. destruct (Nat.ltb_spec i (length v)) as [L|L]; [|now apply vget_overflow].
  unfold vec_is_zero in H. rewrite forallb_forall in H. apply amp_is_azero_spec, H. unfold vget. now apply nth_In.
Qed.

(* ---- bits ---- *)
Lemma sub_pow2_bit i q k : Nat.testbit i q = true ->
  Nat.testbit (i - 2 ^ q) k = if Nat.eqb q k then false else Nat.testbit i k.
Proof.
  intros H. rewrite Nat.sub_nocarry_ldiff.
  - rewrite Nat.ldiff_spec, Nat.pow2_bits_eqb. destruct (Nat.eqb q k); simpl; [apply andb_false_r|apply andb_true_r].
  - apply Nat.bits_inj. intros m. rewrite Nat.ldiff_spec, Nat.pow2_bits_eqb, Nat.bits_0.
    destruct (Nat.eqb_spec q m) as [<-|]; [now rewrite H|reflexivity].
Qed.

Lemma add_pow2_bit i q k : Nat.testbit i q = false ->
  Nat.testbit (i + 2 ^ q) k = if Nat.eqb q k then true else Nat.testbit i k.
Proof.
  intros H. rewrite Nat.add_nocarry_lxor.
  - rewrite Nat.lxor_spec, Nat.pow2_bits_eqb. destruct (Nat.eqb_spec q k) as [<-|]; [now rewrite H|apply xorb_false_r].
  - apply Nat.bits_inj. intros m. rewrite Nat.land_spec, Nat.pow2_bits_eqb, Nat.bits_0.
    destruct (Nat.eqb_spec q m) as [<-|]; [now rewrite H|apply andb_false_r].
Qed.

Lemma lxor_pow2_bit i b k : Nat.testbit (Nat.lxor i (2 ^ b)) k = xorb (Nat.testbit i k) (Nat.eqb b k).
Proof. now rewrite Nat.lxor_spec, Nat.pow2_bits_eqb. Qed.

Lemma lxor_pow2_bit_other i b k : b <> k -> Nat.testbit (Nat.lxor i (2 ^ b)) k = Nat.testbit i k.
Proof. intros N. rewrite lxor_pow2_bit. destruct (Nat.eqb_spec b k); [contradiction|apply xorb_false_r]. Qed.

(* ---- arithmetic at zero (by computation) ---- *)
Lemma amul_azero_l x : amul azero x = azero.
Proof. destruct x as [[[? ?] [? ?]] [[? ?] [? ?]]]. reflexivity. Qed.

(* the two rows of a matrix send (0, 0) to 0 *)
Definition lin0 (m : amp * amp * amp * amp) : Prop :=
  let '(a, b, c, d) := m in
  aadd (amul a azero) (amul b azero) = azero /\ aadd (amul c azero) (amul d azero) = azero.

Lemma mat1_lin0 g m : mat1 g = Some m -> lin0 m.
Proof. destruct g; simpl; intros E; inversion E; subst; split; reflexivity. Qed.

Definition xmat : amp * amp * amp * amp := (azero, aone, aone, azero).
Lemma xmat_lin0 : lin0 xmat.
Proof. split; reflexivity. Qed.

(* ---- one-qubit matrices ---- *)
Lemma apply1_Z m q' q v : lin0 m -> q <> q' -> Zq q v -> Zq q (apply1 m q' v).
Proof.
  intros L N Z i Hi. destruct m as [[[a b] c] d]. destruct L as [L0 L1]. unfold apply1.
  rewrite vget_tabulate. destruct (Nat.ltb i (length v)); [|reflexivity].
  destruct (Nat.testbit i q') eqn:B.
  - rewrite (Z (i - 2 ^ q')), (Z i); [assumption|assumption|].
    rewrite (sub_pow2_bit _ _ _ B). destruct (Nat.eqb_spec q' q); [congruence|assumption].
  - rewrite (Z (i + 2 ^ q')), (Z i); [assumption|assumption|].
    rewrite (add_pow2_bit _ _ _ B). destruct (Nat.eqb_spec q' q); [congruence|assumption].
Qed.

Lemma apply1_zero m q v : lin0 m -> (forall i, vget v i = azero) -> forall i, vget (apply1 m q v) i = azero.
Proof.
  intros L Z i. destruct m as [[[a b] c] d]. destruct L as [L0 L1]. unfold apply1.
  rewrite vget_tabulate. destruct (Nat.ltb i (length v)); [|reflexivity].
  destruct (Nat.testbit i q); rewrite !Z; assumption.
Qed.

(* ---- projection and flip ---- *)
Lemma qproj0_id q v : Zq q v -> qproj v q false = v.
Proof.
  intros Z. unfold qproj. apply vec_ext; [apply tabulate_length|]. rewrite tabulate_length. intros i L.
  rewrite vget_tabulate. apply Nat.ltb_lt in L. rewrite L.
  destruct (Nat.testbit i q) eqn:B; simpl; [symmetry; now apply Z|reflexivity].
Qed.

Lemma qproj_true_zero q v : Zq q v -> forall i, vget (qproj v q true) i = azero.
Proof.
  intros Z i. unfold qproj. rewrite vget_tabulate. destruct (Nat.ltb i (length v)); [|reflexivity].
  destruct (Nat.testbit i q) eqn:B; simpl; [now apply Z|reflexivity].
Qed.

Lemma qproj1_zero q v : Zq q v -> vec_is_zero (qflipx (qproj v q true) q) = true.
Proof.
  intros Z. apply vec_is_zero_intro. apply (apply1_zero xmat q _ xmat_lin0). now apply qproj_true_zero.
Qed.

Lemma qreset_Z0 q v : Zq q (qproj v q false).
Proof.
  intros i B. unfold qproj. rewrite vget_tabulate. destruct (Nat.ltb i (length v)); [|reflexivity].
  now rewrite B.
Qed.

Lemma qreset_Z1 q v : Zq q (qflipx (qproj v q true) q).
Proof.
  intros i B. unfold qflipx, apply1. rewrite vget_tabulate.
  destruct (Nat.ltb i (length (qproj v q true))); [|reflexivity]. rewrite B.
  assert (E : vget (qproj v q true) (i - 2 ^ q) = azero).
  { unfold qproj. rewrite vget_tabulate. destruct (Nat.ltb _ (length v)); [|reflexivity].
    rewrite (sub_pow2_bit _ _ _ B), Nat.eqb_refl. reflexivity. }
  rewrite E, amul_azero_l. reflexivity.
Qed.

Lemma qproj_Z q q' b v : Zq q v -> Zq q (qproj v q' b).
Proof.
  intros Z i B. unfold qproj. rewrite vget_tabulate. destruct (Nat.ltb i (length v)); [|reflexivity].
  destruct (Bool.eqb _ b); [now apply Z|reflexivity].
Qed.

Lemma qflipx_Z q q' v : q <> q' -> Zq q v -> Zq q (qflipx v q').
Proof. intros N Z. now apply (apply1_Z xmat q' q v xmat_lin0). Qed.

Lemma qproj_zero v q b : vec_is_zero v = true -> vec_is_zero (qproj v q b) = true.
Proof.
  intros Z. apply vec_is_zero_intro. intros i. unfold qproj. rewrite vget_tabulate.
  destruct (Nat.ltb i (length v)); [|reflexivity]. destruct (Bool.eqb _ b); [now apply vec_is_zero_elim|reflexivity].
Qed.

Lemma qflipx_zero v q : vec_is_zero v = true -> vec_is_zero (qflipx v q) = true.
Proof.
  intros Z. apply vec_is_zero_intro. apply (apply1_zero xmat q v xmat_lin0). now apply vec_is_zero_elim.
Qed.

(* ---- the gate set ---- *)
Lemma tab_perm_Z q v (p : nat -> nat) : (forall i, Nat.testbit i q = true -> Nat.testbit (p i) q = true) ->
  Zq q v -> Zq q (tabulate v (fun i => vget v (p i))).
Proof.
  intros P Z i B. rewrite vget_tabulate. destruct (Nat.ltb i (length v)); [|reflexivity]. apply Z. now apply P.
Qed.

Lemma qapply_Z g qs q v : ~ In q qs -> Zq q v -> Zq q (qapply g qs v).
Proof.
  intros N Z. unfold qapply.
  destruct (mat1 g) as [m|] eqn:M.
  - destruct qs as [|a [|? ?]]; try assumption.
    apply apply1_Z; [now apply (mat1_lin0 g)|intros ->; apply N; now left|assumption].
  - destruct qs as [|a [|b [|c [|? ?]]]]; try assumption.
    + assert (q <> a) by (intros ->; apply N; now left).
      assert (q <> b) by (intros ->; apply N; right; now left).
      destruct g; try assumption.
      * apply tab_perm_Z; [|assumption]. intros i B. destruct (Nat.testbit i a); [|assumption].
        rewrite lxor_pow2_bit_other by congruence. assumption.
      * intros i B. rewrite vget_tabulate. destruct (Nat.ltb i (length v)); [|reflexivity].
        rewrite (Z i B). destruct (_ && _); reflexivity.
      * apply tab_perm_Z; [|assumption]. intros i B. destruct (Bool.eqb _ _); [assumption|].
        rewrite !lxor_pow2_bit_other by congruence. assumption.
    + assert (q <> c) by (intros ->; apply N; right; right; now left).
      destruct g; try assumption.
      apply tab_perm_Z; [|assumption]. intros i B. destruct (_ && _); [|assumption].
      rewrite lxor_pow2_bit_other by congruence. assumption.
Qed.

Lemma qapply_zero g qs v : vec_is_zero v = true -> vec_is_zero (qapply g qs v) = true.
Proof.
  intros Z0. pose proof (vec_is_zero_elim v Z0) as Z. unfold qapply.
  destruct (mat1 g) as [m|] eqn:M.
  - destruct qs as [|a [|? ?]]; try assumption.
    apply vec_is_zero_intro. apply apply1_zero; [now apply (mat1_lin0 g)|assumption].
  - destruct qs as [|a [|b [|c [|? ?]]]]; try assumption.
    + destruct g; try assumption; apply vec_is_zero_intro; intros i; rewrite vget_tabulate;
        destruct (Nat.ltb i (length v)); try reflexivity; rewrite ?Z; try reflexivity.
      destruct (_ && _); reflexivity.
    + destruct g; try assumption; apply vec_is_zero_intro; intros i; rewrite vget_tabulate;
        destruct (Nat.ltb i (length v)); try reflexivity; now rewrite ?Z.
Qed.

Lemma init_vec_Z nq q : Zq q (init_vec nq).
Proof.
  intros i B. unfold vget, init_vec. destruct i as [|i]; [rewrite Nat.bits_0 in B; discriminate|].
  simpl. apply nth_repeat.
Qed.

(* ---- the instance ---- *)
Section Instance.
  Variable gi : nat -> option qgate.

  Lemma qg_Z g qs q v : ~ In q qs -> Zq q v -> Zq q (qgapply gi g qs v).
  Proof. unfold qgapply. destruct (gi g); [apply qapply_Z|auto]. Qed.

  Lemma qg_zero g qs v : vec_is_zero v = true -> vec_is_zero (qgapply gi g qs v) = true.
  Proof. unfold qgapply. destruct (gi g); [apply qapply_zero|auto]. Qed.

  (* from any list of branches (any registers, any n-qubit vectors) *)
  Theorem q_consolidate_any nq nc c l : wf nq nc c = true ->
    clean vec_is_zero (brun (qgapply gi) qproj qflipx (consolidate_resets nq c) l)
    = clean vec_is_zero (brun (qgapply gi) qproj qflipx c l).
  Proof.
    intros W.
    apply (consolidate_sim vec (qgapply gi) qproj qflipx vec_is_zero Zq
             qproj0_id qproj1_zero qreset_Z0 qreset_Z1 qg_Z
             (fun q q' b s _ Z => qproj_Z q q' b s Z) qflipx_Z qg_zero qproj_zero qflipx_zero nq nc c l W).
  Qed.

  Theorem q_consolidate nq nc c : wf nq nc c = true ->
    qbrun gi nq nc (consolidate_resets nq c) = qbrun gi nq nc c.
  Proof. intros W. unfold qbrun. now apply (q_consolidate_any nq nc). Qed.

  Theorem q_zero nq nc c : wf nq nc c = true ->
    qbrun gi nq nc (remove_resets_in_zero_state nq c) = qbrun gi nq nc c.
  Proof.
    intros W. unfold qbrun.
    apply (zero_sim vec (qgapply gi) qproj qflipx vec_is_zero Zq
             qproj0_id qproj1_zero qreset_Z0 qreset_Z1 qg_Z
             (fun q q' b s _ Z => qproj_Z q q' b s Z) qflipx_Z qg_zero qproj_zero qflipx_zero nq nc c _ _ W).
    intros q. apply init_vec_Z.
  Qed.
End Instance.

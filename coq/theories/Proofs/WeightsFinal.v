(* Proofs/WeightsFinal.v — corrections after the proof audit: positivity of the weights, entry count without the
   cut-off hypothesis, the tape law and existence of an admissible tape, the sampled weight in the FINAL dictionary,
   unbiasedness with the success premise discharged, composed statements for the public function. *)
From Coq Require Import QArith Qabs Qround Lia ZifyBool Lqa Permutation Sorted.
From CKT Require Import Common.Base Extracted.Facts Model.Weights.
From CKT Require Import Proofs.WeightsP Proofs.WeightsDfs Proofs.WeightsGen Proofs.WeightsTab Proofs.WeightsSum
                        Proofs.WeightsCount Proofs.WeightsUnb Proofs.WeightsSort Proofs.WeightsTotal Proofs.WeightsBridge
                        Proofs.WeightsNDraw Proofs.WeightsPublic.
Open Scope Q_scope.

(* ---------- the dictionary after sampling, as a list ---------- *)
Definition sample_entry (ssw : Q) (kc : key * nat) : key * (Q * wtype) :=
  (fst kc, (inject_Z (Z.of_nat (snd kc)) * ssw, SAMPLED)).

Lemma insert_samples_list ssw : forall s ret r, insert_samples ret ssw s = Some r -> r = ret ++ map (sample_entry ssw) s.
Proof.
  induction s as [|[k c] s IH]; intros ret r H; simpl in H.
  - inversion H. now rewrite app_nil_r.
  - destruct (dmem ret k) eqn:M; [discriminate|].
    assert (dget ret k = None) as G by (unfold dmem in M; destruct (dget ret k); [discriminate|reflexivity]).
    rewrite (dset_fresh _ _ _ G) in H. rewrite (IH _ _ H), <- app_assoc. reflexivity.
Qed.

Lemma dget_app_none {V} (a b : list (key * V)) k : dget a k = None -> dget (a ++ b) k = dget b k.
Proof.
  induction a as [|[k' v] a IH]; simpl; [reflexivity|]. destruct (key_eqb k k'); [discriminate|]. exact IH.
Qed.

Lemma weight_of_samples ssw ids : forall s, NoDup (map fst s) ->
  weight_of (map (sample_entry ssw) s) ids == nq (cntk key_eqb ids s) * ssw.
Proof.
  unfold weight_of. induction s as [|[k c] s IH]; intros N; simpl.
  - unfold nq. simpl. ring.
  - inversion N as [|? ? Nk Ns]; subst. destruct (key_eqb ids k) eqn:E.
    + apply key_eqb_eq in E. subst k.
      assert (cntk key_eqb ids s = 0%nat) as ->.
      { clear -Nk. induction s as [|[k' c'] s IH]; simpl; [reflexivity|].
        destruct (key_eqb ids k') eqn:E; [apply key_eqb_eq in E; subst; exfalso; apply Nk; now left|].
        apply IH. intros I. apply Nk. now right. }
      unfold nq. rewrite Nat.add_0_r. reflexivity.
    + rewrite (IH Ns). simpl. reflexivity.
Qed.

(* ---------- every reported weight is positive ---------- *)
Lemma all_exact_pos probs m e : 0 < m -> In e (all_exact probs m) -> 0 < fst (snd e).
Proof.
  intros Hm I. rewrite all_exact_list in I. apply in_map_iff in I. destruct I as [ids [<- I]].
  apply filter_In in I. destruct I as [_ K]. apply negb_true_iff in K. apply Qltb_ge in K.
  simpl. pose proof atol_pos. nra.
Qed.

Theorem weights_positive probs perms N tape r :
  sorting_perms_b probs perms = true -> gen_weights probs perms N tape = Some (Ok r) ->
  forall e, In e r -> 0 < fst (snd e).
Proof.
  intros S G e I. destruct N as [q| | |]; try discriminate.
  - apply gen_weights_fin_inv in G. destruct G as [Hq F].
    assert (forall ret cond wts0, dfs_acc probs perms q = (ret, cond, wts0) -> In e ret -> 0 < fst (snd e)) as RetPos.
    { intros ret cond wts0 Eacc Ie. destruct e as [k v].
      pose proof (In_dget_NoDup ret k v (dfs_acc_nodup _ _ _ _ _ _ Eacc) Ie) as Gk.
      destruct (dfs_ret_keys probs perms q ret cond wts0 k v S Hq Eacc Gk) as [_ [Vw [T _]]].
      destruct (thr_facts q Hq) as [T0 _]. simpl. rewrite Vw. nra. }
    assert (forall wts0, (1 <= Qceiling (wts0 * q))%Z -> 0 < wts0 * q) as WtsPos.
    { intros wts0 Hs. pose proof (Qceiling_lt (wts0 * q)) as Lc.
      assert (inject_Z 0 <= inject_Z (Qceiling (wts0 * q) - 1)) as X by (rewrite <- Zle_Qle; lia).
      change (inject_Z 0) with 0 in X. lra. }
    destruct F as [mins Em Ae ->|mins ret cond wts0 Em Na Eacc Hs ->|mins ret cond wts0 rs Em Na Eacc Hs Cn Lw Dn ->
                  |mins ret cond wts0 s t' lg Em Na Eacc Hs Cc Pp Is].
    + apply (all_exact_pos probs q); auto. lra.
    + eapply RetPos; eauto.
    + rewrite (dset_fresh _ _ _ Dn) in I. apply in_app_iff in I. destruct I as [I|[<-|[]]]; [eapply RetPos; eauto|].
      simpl. now apply WtsPos.
    + rewrite (insert_samples_list _ _ _ _ Is) in I. apply in_app_iff in I. destruct I as [I|I]; [eapply RetPos; eauto|].
      apply in_map_iff in I. destruct I as [[k c] [<- Ic]]. simpl.
      assert (probs <> []) as Ne.
      { intros ->. simpl in Em. inversion Em; subst. simpl in Na. destruct (thr_facts q Hq). lra. }
      destruct (populate_counts cond probs [] _ _ _ _ _ Ne Pp) as [_ Cf]. rewrite Forall_forall in Cf.
      specialize (Cf _ Ic). simpl in Cf. pose proof (WtsPos wts0 Hs) as Wp.
      assert (0 < inject_Z (Qceiling (wts0 * q))) as Sp.
      { assert (inject_Z 1 <= inject_Z (Qceiling (wts0 * q))) as X by (rewrite <- Zle_Qle; exact Hs).
        change (inject_Z 1) with 1 in X. lra. }
      assert (inject_Z 1 <= inject_Z (Z.of_nat c)) as Cq by (rewrite <- Zle_Qle; lia). change (inject_Z 1) with 1 in Cq.
      assert (0 < wts0 * q / inject_Z (Qceiling (wts0 * q))) as Sw by (apply Qlt_shift_div_l; lra).
      nra.
  - unfold gen_weights, gen_core in G. destruct (all_some _); [|discriminate]. destruct (Qle_bool 0 _); [|discriminate].
    inversion G; subst. apply (all_exact_pos probs 1); auto. lra.
Qed.

(* ---------- entry count WITHOUT the cut-off hypothesis ---------- *)
Lemma jointp_le_entry probs : forall ids k, Forall unit_entries probs -> idx_ok probs ids -> length ids = length probs ->
  (k < length ids)%nat -> jointp probs ids <= nth (nth k ids 0%nat) (nth k probs []) 0.
Proof.
  induction probs as [|v r IH]; intros [|j c] k U O L Hk; simpl in *; try lia.
  destruct O as [Hj O]. inversion U as [|? ? Uv Ur]; subst.
  destruct (jointp_unit r c Ur) as [J0 J1].
  assert (0 <= nth j v 0 /\ nth j v 0 <= 1) as [A0 A1].
  { unfold unit_entries in Uv. rewrite Forall_forall in Uv. apply Uv. now apply nth_In. }
  destruct k as [|k]; [nra|].
  assert (jointp r c <= nth (nth k c 0%nat) (nth k r []) 0) as Hr by (apply IH; auto; lia).
  nra.
Qed.

Definition no_entry_at_cutoff (probs : list (list Q)) : Prop := Forall (Forall (fun x => ~ x == nonzero_atol)) probs.

Lemma all_exact_count probs q mins :
  valid probs -> no_entry_at_cutoff probs -> 1 <= q ->
  all_some (map min_filter_nonzero probs) = Some mins -> 1 / q <= qprod mins ->
  (Z.of_nat (length (all_exact probs q)) <= Qceiling q)%Z.
Proof.
  intros V NA Hq Em Ae. pose proof atol_pos as Ap. destruct (thr_facts q Hq) as [T0 T1].
  pose proof (valid_nonneg _ V) as Nn. pose proof (valid_unit _ V) as Un.
  rewrite all_exact_list, map_length.
  set (cs := cart (map (@length Q) probs)).
  set (keep := fun ids => negb (Qltb (jointp probs ids) nonzero_atol)).
  assert (forall ids, In ids (filter keep cs) -> 1 / q <= jointp probs ids) as Hk.
  { intros ids I. apply filter_In in I. destruct I as [I K]. unfold keep in K. apply negb_true_iff in K. apply Qltb_ge in K.
    apply In_cart in I. destruct I as [O L].
    destruct (jointp_ge_mins probs mins ids Em Nn O L) as [_ G]; [|lra].
    intros k Hkk. pose proof (jointp_le_entry probs ids k Un O L Hkk) as Le.
    destruct (Qlt_le_dec nonzero_atol (nth (nth k ids 0%nat) (nth k probs []) 0)) as [B|B]; auto. exfalso.
    assert (nth (nth k ids 0%nat) (nth k probs []) 0 == nonzero_atol) as E by lra.
    unfold no_entry_at_cutoff in NA. rewrite Forall_forall in NA.
    assert (In (nth k probs []) probs) as Ip.
    { apply nth_In. rewrite <- L. exact Hkk. }
    specialize (NA _ Ip). rewrite Forall_forall in NA. apply (NA (nth (nth k ids 0%nat) (nth k probs []) 0)); auto.
    apply nth_In. clear -O Hkk. revert k ids O Hkk. induction probs as [|v r IH]; intros k [|j c] O Hk; simpl in *; try lia.
    destruct O as [Hj O]. destruct k; [exact Hj|]. apply IH; auto. lia. }
  apply nq_le_ceil.
  pose proof (qsumf_lower (jointp probs) (1 / q) (filter keep cs) Hk) as Lw.
  assert (qsumf (jointp probs) cs == 1) as Tot by (unfold cs; rewrite cart_sum; now apply qprod_ones).
  pose proof (qsumf_filter_split (jointp probs) keep cs) as Sp. rewrite Tot in Sp.
  destruct (qsumf_bounds (jointp probs) 1 (filter (fun x => negb (keep x)) cs)) as [Sk0 _].
  { intros ids _. destruct (jointp_unit probs ids Un). lra. }
  assert (q * (1 / q * nq (length (filter keep cs))) == nq (length (filter keep cs))) as E1 by (field; lra).
  assert (q * (1 / q * nq (length (filter keep cs))) <= q * qsumf (jointp probs) (filter keep cs)) as E2
    by (apply Qmult_le_l_nonneg; [lra|exact Lw]).
  assert (qsumf (jointp probs) (filter keep cs) <= 1) by lra. nra.
Qed.

(* at most ceil(N) entries for EVERY valid input without an entry bit-equal to the cut-off (observation O2); entries
   below the cut-off, zeroed table entries and the repaired F9 branch are all covered *)
Theorem count_general probs perms q tape r :
  valid probs -> sorting_perms_b probs perms = true -> no_entry_at_cutoff probs ->
  gen_weights probs perms (Fin q) tape = Some (Ok r) -> (Z.of_nat (length r) <= Qceiling q)%Z.
Proof.
  intros V HS NA G. apply gen_weights_fin_inv in G. destruct G as [Hq F].
  assert (forall mins, all_some (map min_filter_nonzero probs) = Some mins -> ~ 1 / q <= qprod mins -> probs <> []) as NeP.
  { intros mins Em Na ->. simpl in Em. inversion Em; subst. simpl in Na. destruct (thr_facts q Hq). lra. }
  assert (forall ret cond wts0 mins (n' : nat),
            all_some (map min_filter_nonzero probs) = Some mins -> ~ 1 / q <= qprod mins ->
            dfs_acc probs perms q = (ret, cond, wts0) -> (Z.of_nat n' <= Qceiling (wts0 * q))%Z ->
            (Z.of_nat (length ret + n') <= Qceiling q)%Z) as Core.
  { intros ret cond wts0 mins n' Em Na Eacc Ln.
    destruct (dfs_acc_mass probs perms q ret cond wts0 V HS Hq (NeP mins Em Na) Eacc) as [lost [L0 [_ [Eq [W0 [Cn _]]]]]].
    assert (0 <= q * lost) as QL by nra.
    assert (nq (length ret) + wts0 * q <= q) as Hle by lra.
    pose proof (ceil_add_le (length ret) (wts0 * q) q Hle). lia. }
  destruct F as [mins Em Ae ->|mins ret cond wts0 Em Na Eacc Hs ->|mins ret cond wts0 rs Em Na Eacc Hs Cn Lw Dn ->
                |mins ret cond wts0 s t' lg Em Na Eacc Hs Cc Pp Is].
  - now apply (all_exact_count probs q mins).
  - destruct (dfs_acc_mass probs perms q ret cond wts0 V HS Hq (NeP mins Em Na) Eacc) as [lost [L0 [_ [Eq [W0 [Cn _]]]]]].
    apply nq_le_ceil. assert (0 <= q * lost) by nra. assert (0 <= q * wts0) by nra. lra.
  - rewrite (dset_fresh _ _ _ Dn), app_length. simpl. apply (Core ret cond wts0 mins 1%nat); auto.
  - destruct (insert_samples_sum _ _ _ _ Is) as [_ Ls]. rewrite Ls.
    destruct (populate_counts cond probs [] _ _ _ _ _ (NeP mins Em Na) Pp) as [Cs Cf].
    pose proof (counts_length s Cf) as Lc. rewrite Cs in Lc.
    apply (Core ret cond wts0 mins (length s)); auto. lia.
Qed.

(* ---------- the tape law (no cut-off hypothesis) and the existence of an admissible tape ---------- *)
Lemma qsumf_nonzero_exists {A} (F : A -> Q) l : ~ qsumf F l == 0 -> exists t, In t l /\ ~ F t == 0.
Proof.
  unfold qsumf. induction l as [|a l IH]; simpl; intros H; [exfalso; apply H; reflexivity|].
  destruct (Qeq_dec (F a) 0) as [E|E].
  - destruct IH as [t [I N]]; [intros Z; apply H; rewrite E, Z; ring|]. exists t. split; auto.
  - exists a. split; auto.
Qed.

Lemma csample_context probs perms q ret cond nd ssw :
  gen_core probs perms (Fin q) = Ok (CSample ret cond nd ssw) ->
  1 <= q /\ exists mins wts0,
    all_some (map min_filter_nonzero probs) = Some mins /\ ~ 1 / q <= qprod mins /\
    dfs_acc probs perms q = (ret, cond, wts0) /\ (1 <= Qceiling (wts0 * q))%Z /\
    nd = Z.to_nat (Qceiling (wts0 * q)) /\ ssw = wts0 * q / inject_Z (Qceiling (wts0 * q)) /\ probs <> [].
Proof.
  intros G. destruct (gen_core_fin_inv _ _ _ _ G) as [Hq F]. split; auto.
  destruct F as [mins Em Ae Ec0|mins ret0 cond0 wts0 Em Na Eacc Hs Ec0|mins ret0 cond0 wts0 rs Em Na Eacc Hs Lw Dn0 Ec0
                |mins ret0 cond0 wts0 Em Na Eacc Hs Ec0]; try discriminate.
  inversion Ec0; subst. exists mins, wts0. repeat split; auto.
  intros ->. simpl in Em. inversion Em; subst. simpl in Na. destruct (thr_facts q Hq). lra.
Qed.

Theorem tape_law probs perms q ret cond nd ssw :
  valid probs -> sorting_perms_b probs perms = true ->
  gen_core probs perms (Fin q) = Ok (CSample ret cond nd ssw) ->
  expect (maxlen probs) cond probs [] nd (fun _ => 1) == 1 /\
  (forall tape s t lg, populate probs cond [] nd tape = Some (s, t, lg) ->
      gen_weights probs perms (Fin q) tape = Some (Ok (final_dict ret ssw s)) /\
      insert_samples ret ssw s = Some (final_dict ret ssw s)) /\
  exists tape r, gen_weights probs perms (Fin q) tape = Some (Ok r).
Proof.
  intros V S G. destruct (csample_context _ _ _ _ _ _ _ G) as [Hq [mins [wts0 [Em [Na [Eacc [Hs [En [Es Ne]]]]]]]]].
  pose proof (sampler_tables probs perms q mins ret cond wts0 V S Hq Em Na Eacc Hs) as Tb.
  destruct (n_draw (maxlen probs) cond (length probs) Tb probs Ne (valid_vec_good probs V) [] nd eq_refl) as [Ms _].
  assert (forall tape s t lg, populate probs cond [] nd tape = Some (s, t, lg) ->
            gen_weights probs perms (Fin q) tape = Some (Ok (final_dict ret ssw s)) /\
            insert_samples ret ssw s = Some (final_dict ret ssw s)) as Path.
  { intros tape s t lg P. pose proof (never_crashes probs perms (Fin q) tape) as Nc.
    unfold gen_weights in *. rewrite G, P in *. unfold final_dict.
    destruct (insert_samples ret ssw s) as [r|]; [auto|]. exfalso. now apply (Nc Crashed V S eq_refl). }
  split; [exact Ms|]. split; [exact Path|].
  assert (~ expect (maxlen probs) cond probs [] nd (fun _ => 1) == 0) as Nz by (rewrite Ms; discriminate).
  unfold expect, tsum in Nz. apply qsumf_nonzero_exists in Nz. destruct Nz as [tape [_ Nt]].
  unfold integrand in Nt. destruct (populate probs cond [] nd tape) as [[[s t] lg]|] eqn:P; [|exfalso; apply Nt; reflexivity].
  exists tape, (final_dict ret ssw s). now apply (Path tape s t lg).
Qed.

(* the weight a sampled joint map has in the RETURNED dictionary is count * single_sample_weight *)
Lemma final_dict_weight probs cond ret ssw rs nd tape s t lg ids :
  probs <> [] -> populate probs cond rs nd tape = Some (s, t, lg) ->
  insert_samples ret ssw s = Some (final_dict ret ssw s) -> dget ret ids = None ->
  weight_of (final_dict ret ssw s) ids == ssw * nq (cntk key_eqb ids s).
Proof.
  intros Ne P I Dn. rewrite (insert_samples_list _ _ _ _ I). unfold weight_of. rewrite (dget_app_none _ _ _ Dn).
  destruct (populate_nodup cond probs rs nd tape s t lg Ne P) as [Nd _].
  pose proof (weight_of_samples ssw ids s Nd) as W. unfold weight_of in W. rewrite W. ring.
Qed.

(* unbiasedness on the FINAL dictionary: expectation over all oracle tapes of the weight that the dictionary returned by
   _generate_qpd_weights gives to a joint map that was not evaluated exactly *)
Theorem sampler_unbiased_final probs perms q ret cond nd ssw ids :
  valid probs -> sorting_perms_b probs perms = true -> nonzero_atol * q <= 1 ->
  no_entry_in_cutoff probs perms (1 / q) ->
  gen_core probs perms (Fin q) = Ok (CSample ret cond nd ssw) ->
  in_range probs ids -> dget ret ids = None ->
  expect (maxlen probs) cond probs [] nd (fun s => weight_of (final_dict ret ssw s) ids) == q * jointp probs ids.
Proof.
  intros V S A NC G R Dn.
  destruct (sampler_unbiased probs perms q ret cond nd ssw ids V S A NC G R Dn) as [_ U]. rewrite <- U.
  destruct (tape_law probs perms q ret cond nd ssw V S G) as [_ [Path _]].
  destruct (csample_context _ _ _ _ _ _ _ G) as [_ [mins [wts0 [_ [_ [_ [_ [_ [_ Ne]]]]]]]]].
  unfold expect. apply tsum_ext. intros tape _. unfold integrand.
  destruct (populate probs cond [] nd tape) as [[[s t] lg]|] eqn:P; [|reflexivity].
  destruct (Path tape s t lg P) as [_ I].
  rewrite (final_dict_weight probs cond ret ssw [] nd tape s t lg ids Ne P I Dn). reflexivity.
Qed.

(* ---------- a valid clean request is always answered: the success premise of `unbiased` is discharged ---------- *)
Lemma pos_entry v : nonneg v -> 0 < qsum v -> exists x, In x v /\ 0 < x.
Proof.
  induction 1 as [|a r Ha Hr IH]; simpl; intros P; [lra|].
  destruct (Qlt_le_dec 0 a) as [Pa|Pa]; [exists a; split; [now left|auto]|].
  destruct IH as [x [I Px]]; [lra|]. exists x. split; [now right|auto].
Qed.

Lemma clean_has_big probs : valid probs -> Forall (Forall band_free) probs ->
  Forall (fun v => exists x, In x v /\ nonzero_atol < x) probs.
Proof.
  intros V C. unfold valid in V. rewrite Forall_forall in *. intros v I. destruct (V v I) as [Nn Sv]. specialize (C v I).
  destruct (pos_entry v Nn) as [x [Ix Px]]; [lra|].
  exists x. split; auto. rewrite Forall_forall in C. destruct (C x Ix) as [Z|B]; [rewrite Z in Px; lra|exact B].
Qed.

Lemma gen_core_ok probs perms q : valid probs -> Forall (fun v => exists x, In x v /\ nonzero_atol < x) probs ->
  sorting_perms_b probs perms = true -> 1 <= q -> exists c, gen_core probs perms (Fin q) = Ok c.
Proof.
  intros V B S Hq. destruct (gen_core probs perms (Fin q)) as [c| |] eqn:G; [eauto| |].
  - exfalso. simpl in G. assert (Qltb q 1 = false) as E1 by now apply Qltb_ge. rewrite E1 in G.
    destruct (all_some_mins probs (valid_nonneg _ V) B) as [mins [Em _]]. rewrite Em in G.
    destruct (Qle_bool (1 / q) (qprod mins)); [discriminate|].
    fold (dfs_acc probs perms q) in G. destruct (dfs_acc probs perms q) as [[ret cond] wts0].
    destruct (Z.ltb _ 1); [discriminate|]. destruct cond; [discriminate|].
    destruct (leftover_walk _ _ _) as [[rs|]|]; try discriminate. destruct (dmem ret rs); discriminate.
  - exfalso. now apply (gen_core_never_crashes probs perms (Fin q) V S).
Qed.

Theorem unbiased_q probs perms q ids :
  valid probs -> sorting_perms_b probs perms = true -> 1 <= q -> nonzero_atol * q <= 1 ->
  no_entry_in_cutoff probs perms (1 / q) -> in_range probs ids ->
  expected_weight probs perms (Fin q) ids == q * jointp probs ids.
Proof.
  intros V S Hq A NC R. destruct NC as [Cl Ct].
  destruct (gen_core_ok probs perms q V (clean_has_big probs V Cl) S Hq) as [c G].
  apply (unbiased probs perms q ids c); auto. split; auto.
Qed.

(* ---------- every clause, through the public function ---------- *)
Theorem public_all bases perms q tape r :
  Forall (fun c => ~ qsum (map Qabs c) == 0) bases ->
  let probs := map basis_probs bases in
  sorting_perms_b probs perms = true ->
  generate_qpd_weights bases perms (Fin q) tape = Some (Ok r) ->
  (* exact above threshold *)
  (nonzero_atol * q <= 1 -> forall ids, in_range probs ids -> 1 / q <= jointp probs ids ->
      exists w, dget r ids = Some (w, EXACT) /\ w == q * jointp probs ids) /\
  (* every entry: a joint map of positive probability, with a positive weight *)
  (forall k w t, dget r k = Some (w, t) -> 0 < jointp probs k /\ in_range probs k /\ 0 < w) /\
  (* number of entries and sum of the weights *)
  (no_entry_at_cutoff probs -> (Z.of_nat (length r) <= Qceiling q)%Z) /\
  wsum r <= q /\ q - wsum r <= q * (nonzero_atol * nq (S (tree_size probs))) /\
  (no_entry_in_cutoff probs perms (1 / q) -> nonzero_atol * q <= 1 -> wsum r == q) /\
  (* order and distinctness *)
  StronglySorted sle r /\ NoDup (map fst r).
Proof.
  intros Hk probs S G.
  destruct (public_wrapper bases perms (Fin q) tape r Hk G) as [V [r0 [G0 [Er [P [Srt [Nd [Dg [Ws Ln]]]]]]]]].
  fold probs in V, G0. pose proof (valid_nonneg _ V) as Nn.
  destruct (count_sum probs perms q tape r0 V S G0) as [C1 [C2 C3]].
  split; [|split; [|split; [|split; [|split; [|split; [|split]]]]]].
  - intros A ids R T. rewrite Dg. now apply (exact_complete probs perms q tape r0 ids).
  - intros k w t D. rewrite Dg in D. destruct (no_zero probs perms (Fin q) tape r0 k w t Nn S G0 D) as [P0 R0].
    split; [exact P0|split; [exact R0|]]. apply (weights_positive probs perms (Fin q) tape r0 S G0 (k, (w, t))). now apply dget_In.
  - intros NA. rewrite Ln. now apply (count_general probs perms q tape r0).
  - now rewrite Ws.
  - now rewrite Ws.
  - intros NC A. rewrite Ws. now destruct (C3 NC A).
  - exact Srt.
  - eapply Permutation_NoDup; [apply Permutation_map; symmetry; exact P|exact Nd].
Qed.

Theorem public_total bases perms N tape res :
  Forall (fun c => ~ qsum (map Qabs c) == 0) bases ->
  sorting_perms_b (map basis_probs bases) perms = true ->
  generate_qpd_weights bases perms N tape = Some res -> res <> Crashed.
Proof.
  intros Hk S G. unfold generate_qpd_weights in G.
  destruct (gen_weights (map basis_probs bases) perms N tape) as [r0|] eqn:E; [|discriminate].
  pose proof (never_crashes _ _ _ _ _ (bases_valid bases Hk) S E) as Nc. inversion G; subst.
  destruct r0; simpl; try discriminate. contradiction.
Qed.

(* ---------- the sum deficit in terms of the tables actually popped ---------- *)
Definition tabsize (t : list (key * list Q)) : nat := fold_right (fun kt a => (length (snd kt) + a)%nat) 0%nat t.

Lemma tabsize_app a b : tabsize (a ++ b) = (tabsize a + tabsize b)%nat.
Proof. induction a as [|x a IH]; simpl; lia. Qed.

Lemma nq_add a b : nq (a + b) == nq a + nq b.
Proof. unfold nq. rewrite Nat2Z.inj_add, inject_Z_plus. reflexivity. Qed.

Definition node_mass_t (node : key -> Q -> list yield * sub) (nraw : key -> Q -> list (key * list Q)) : Prop :=
  forall pf r, 0 <= r ->
    exists lost, 0 <= lost /\ lost <= nonzero_atol * nq (tabsize (nraw pf r)) /\
      ymass (fst (node pf r)) + r * resid (snd (node pf r)) + r * lost == r /\ 0 <= resid (snd (node pf r)).

Lemma kids_mass_t thr node nraw prefix rp : 0 <= rp -> node_mass_t node nraw ->
  forall l i, unit_entries l ->
    exists lost, 0 <= lost /\ lost <= nonzero_atol * nq (tabsize (kids_raw thr nraw prefix rp i l)) /\
      ymass (fst (fst (kids thr node prefix rp i l))) + rp * qsum (snd (fst (kids thr node prefix rp i l))) + rp * lost
        == rp * qsum l /\
      nonneg (snd (fst (kids thr node prefix rp i l))) /\
      (snd (kids thr node prefix rp i l) = false -> snd (fst (kids thr node prefix rp i l)) = l).
Proof.
  intros Hrp Hn l; induction l as [|p l' IH]; intros i U.
  - exists 0. simpl. assert (nq 0 == 0) as E0 by reflexivity.
    split; [lra|]. split; [rewrite E0; lra|]. split; [ring|]. split; [constructor|reflexivity].
  - inversion U as [|? ? [P0 P1] U']; subst. rewrite kids_cons. cbn [kids_raw].
    destruct (Qltb (rp * p) thr).
    { exists 0. cbn [fst snd ymass tabsize fold_right]. assert (nq 0 == 0) as E0 by reflexivity.
      split; [lra|]. split; [rewrite E0; lra|]. split; [ring|]. split; [|reflexivity].
      unfold nonneg. constructor; auto. eapply Forall_impl; [|exact U']. simpl. tauto. }
    assert (0 <= rp * p) as Hrpp by nra.
    destruct (Hn (prefix ++ [i]) (rp * p) Hrpp) as [lc [Lc0 [LcB [Ec Rc]]]].
    destruct (node (prefix ++ [i]) (rp * p)) as [ys s] eqn:En. cbn [fst snd] in Ec, Rc.
    destruct (IH (S i) U') as [lk [Lk0 [LkB [Ek [Nk Fk]]]]].
    destruct (kids thr node prefix rp (S i) l') as [[ys' tab] fnd] eqn:Ekk. cbn [fst snd] in Ek, Nk, Fk.
    exists (p * lc + lk).
    assert (0 <= p * lc + lk) as G1 by nra.
    assert (p * lc + lk <= nonzero_atol * nq (tabsize (nraw (prefix ++ [i]) (rp * p) ++ kids_raw thr nraw prefix rp (S i) l'))) as G2.
    { rewrite tabsize_app, nq_add. assert (p * lc <= lc) by nra. lra. }
    destruct s as [| |n]; cbn [fst snd resid] in *.
    + split; auto. split; auto. split; [|split; [constructor; auto|intros F; now rewrite (Fk F)]].
      rewrite ymass_app. cbn [qsum fold_right]. fold (qsum tab). fold (qsum l'). lra.
    + split; auto. split; auto. split; [|split; [constructor; auto; lra|discriminate]].
      rewrite ymass_app. cbn [qsum fold_right]. fold (qsum tab). fold (qsum l'). lra.
    + split; auto. split; auto. split; [|split; [constructor; auto; nra|discriminate]].
      rewrite ymass_app. cbn [qsum fold_right]. fold (qsum tab). fold (qsum l'). lra.
Qed.

Lemma node_mass_t_all thr bases : Forall vec_ok bases -> node_mass_t (dfs_node thr bases) (node_raw thr bases).
Proof.
  pose proof atol_pos as Ap.
  induction bases as [|cur rest IH]; intros V pf r Hr.
  - exists 0. simpl. assert (nq 0 == 0) as E0 by reflexivity.
    split; [lra|]. split; [rewrite E0; lra|]. split; [ring|lra].
  - inversion V as [|? ? [Nc Sc] Vr]; subst. specialize (IH Vr).
    destruct (kids_mass_t thr (dfs_node thr rest) (node_raw thr rest) pf r Hr IH cur 0%nat
                (vec_ok_unit cur (conj Nc Sc))) as [lk [Lk0 [LkB [Ek [Nk Fk]]]]].
    rewrite dfs_node_cons, node_raw_cons.
    destruct (kids thr (dfs_node thr rest) pf r 0%nat cur) as [[ys tab] fnd] eqn:Ekk. cbn [fst snd] in *.
    unfold finish. destruct fnd.
    + destruct (qsum_zero_small tab Nk) as [N0 [D0 [D1 _]]].
      pose proof (qsum_nonneg _ N0) as Qn.
      exists (lk + (qsum tab - qsum (map zero_small tab))).
      assert (lk + (qsum tab - qsum (map zero_small tab)) <=
              nonzero_atol * nq (tabsize (kids_raw thr (node_raw thr rest) pf r 0%nat cur ++ [(pf, tab)]))) as G2.
      { rewrite tabsize_app, nq_add. simpl tabsize. rewrite Nat.add_0_r. lra. }
      destruct pf as [|a pf']; cbn [fst snd resid].
      * split; [lra|]. split; auto. split; [rewrite ymass_snoc_cond; rewrite Sc in Ek; lra|auto].
      * split; [lra|]. split; auto. split; [|auto].
        destruct (Qeq_bool (qsum (map zero_small tab)) 0); [rewrite app_nil_r|rewrite ymass_snoc_cond];
          rewrite Sc in Ek; lra.
    + exists lk. cbn [fst snd resid]. rewrite (Fk eq_refl) in Ek. rewrite Sc in Ek. rewrite app_nil_r.
      split; auto. split; auto. split; lra.
Qed.

Lemma dfs_acc_deficit probs perms q ret cond wts0 :
  valid probs -> sorting_perms_b probs perms = true -> 1 <= q -> probs <> [] ->
  dfs_acc probs perms q = (ret, cond, wts0) ->
  q - (wsum ret + wts0 * q) <= q * (nonzero_atol * nq (tabsize (raw_tables (sorted_probs probs perms) (1 / q)))).
Proof.
  intros V S Hq Ne E. destruct (thr_facts q Hq) as [T0 T1]. pose proof atol_pos as Ap.
  pose proof (nq_nonneg (tabsize (raw_tables (sorted_probs probs perms) (1 / q)))) as Tn.
  unfold dfs_acc in E. destruct (Qle_bool (1 / q) (qprod (map qmax probs))).
  - destruct (dfs_loop_result probs perms q S Ne T1 ret cond wts0 E) as [Hw [_ Hr]].
    destruct (sorted_vec_ok probs perms V S) as [Vs _].
    destruct (node_mass_t_all (1 / q) (sorted_probs probs perms) Vs [] 1) as [lost [L0 [LB [Em R0]]]]; [lra|].
    unfold raw_tables. rewrite Hw, Hr. unfold dfs_spec.
    set (Y := ymass (fst (dfs_node (1 / q) (sorted_probs probs perms) [] 1))) in *.
    set (Rr := resid (snd (dfs_node (1 / q) (sorted_probs probs perms) [] 1))) in *.
    clearbody Y Rr. assert (lost == 1 - Y - Rr) as El by (rewrite <- Em; ring).
    assert (q - (q * Y + Rr * q) == q * lost) as -> by (rewrite El; ring).
    apply Qmult_le_l_nonneg; [lra|exact LB].
  - inversion E; subst. assert (wsum [] == 0) as -> by reflexivity.
    assert (0 <= nonzero_atol * nq (tabsize (raw_tables (sorted_probs probs perms) (1 / q)))) as B1 by (apply Qmult_le_0_compat; lra).
    assert (0 <= q * (nonzero_atol * nq (tabsize (raw_tables (sorted_probs probs perms) (1 / q))))) as B2 by (apply Qmult_le_0_compat; lra).
    lra.
Qed.

(* outside the all-exact branch the deficit is bounded by the number of entries of the tables that were actually popped *)
Theorem sum_deficit_visited probs perms q tape r mins :
  valid probs -> sorting_perms_b probs perms = true ->
  gen_weights probs perms (Fin q) tape = Some (Ok r) ->
  all_some (map min_filter_nonzero probs) = Some mins -> ~ 1 / q <= qprod mins ->
  q - wsum r <= q * (nonzero_atol * nq (tabsize (raw_tables (sorted_probs probs perms) (1 / q)))).
Proof.
  intros V S G Em0 Na0. apply gen_weights_fin_inv in G. destruct G as [Hq F].
  assert (probs <> []) as Ne.
  { intros ->. simpl in Em0. inversion Em0; subst. simpl in Na0. destruct (thr_facts q Hq). lra. }
  assert (forall ret cond wts0 (r' : wdict), dfs_acc probs perms q = (ret, cond, wts0) -> wsum r' == wsum ret + wts0 * q ->
            q - wsum r' <= q * (nonzero_atol * nq (tabsize (raw_tables (sorted_probs probs perms) (1 / q))))) as Core.
  { intros ret cond wts0 r' Eacc W. rewrite W. now apply (dfs_acc_deficit probs perms q ret cond wts0). }
  destruct F as [mins' Em Ae ->|mins' ret cond wts0 Em Na Eacc Hs ->|mins' ret cond wts0 rs Em Na Eacc Hs Cn Lw Dn ->
                |mins' ret cond wts0 s t' lg Em Na Eacc Hs Cc Pp Is].
  - rewrite Em0 in Em. inversion Em; subst. contradiction.
  - apply (Core ret cond wts0 ret Eacc). apply ceil_le_zero in Hs.
    destruct (dfs_acc_mass probs perms q ret cond wts0 V S Hq Ne Eacc) as [lost [L0 [_ [_ [W0 _]]]]].
    assert (wts0 * q == 0) as -> by nra. ring.
  - apply (Core ret cond wts0 _ Eacc). rewrite (dset_fresh _ _ _ Dn). apply wsum_snoc.
  - apply (Core ret cond wts0 r Eacc). destruct (insert_samples_sum _ _ _ _ Is) as [Ws _].
    destruct (populate_counts cond probs [] _ _ _ _ _ Ne Pp) as [Cs _]. rewrite Ws, Cs, nq_to_nat by exact Hs.
    assert (inject_Z 1 <= inject_Z (Qceiling (wts0 * q))) as X by (rewrite <- Zle_Qle; exact Hs).
    change (inject_Z 1) with 1 in X. field. lra.
Qed.

(* Proofs/GroupingGreedyP.v — the greedy reference oracle satisfies grouping_contract for every input of equal width. *)
From Coq Require Import Permutation.
From CKT Require Import Common.Base Model.Observables Model.Grouping Model.GroupingGreedy Proofs.GroupingP.

(* ---------- dedup ---------- *)
Lemma dedup_In p : forall l, In p (dedup l) <-> In p l.
Proof.
  induction l as [|x r IH]; simpl; [tauto|].
  destruct (mem_pauli x r) eqn:E.
  - apply mem_pauli_In in E. rewrite IH. split; [now right|]. intros [<-|H]; assumption.
  - simpl. rewrite IH. tauto.
Qed.

Lemma dedup_NoDup : forall l, NoDup (dedup l).
Proof.
  induction l as [|x r IH]; simpl; [constructor|].
  destruct (mem_pauli x r) eqn:E; [assumption|].
  constructor; [|assumption]. rewrite dedup_In. intros H. apply mem_pauli_In in H. congruence.
Qed.

Lemma count_pauli_notin p l : ~ In p l -> count_pauli p l = 0.
Proof.
  intros H. destruct (count_pauli p l) eqn:E; [reflexivity|].
  exfalso. apply H. apply count_pauli_pos. lia.
Qed.

Lemma count_pauli_cons p x l :
  count_pauli p (x :: l) = (if pauli_beq p x then 1 else 0) + count_pauli p l.
Proof. unfold count_pauli. simpl. destruct (pauli_beq p x); reflexivity. Qed.

Lemma count_pauli_NoDup p : forall l, NoDup l -> In p l -> count_pauli p l = 1.
Proof.
  induction l as [|x r IH]; intros ND H; [contradiction|].
  inversion ND as [|? ? Hn ND']; subst. rewrite count_pauli_cons.
  destruct (pauli_beq p x) eqn:E.
  - apply pauli_beq_eq in E. subst x. rewrite count_pauli_notin by assumption. reflexivity.
  - apply pauli_beq_neq in E. destruct H as [H|H]; [congruence|]. rewrite IH by assumption. reflexivity.
Qed.

Lemma count_pauli_perm p l l' : Permutation l l' -> count_pauli p l = count_pauli p l'.
Proof.
  induction 1 as [|x l l' _ IH|x y l|l l' l'' _ IH1 _ IH2]; try reflexivity.
  - rewrite !count_pauli_cons, IH. reflexivity.
  - rewrite !count_pauli_cons. lia.
  - congruence.
Qed.

(* ---------- place / greedy ---------- *)
Lemma place_perm p : forall gs, Permutation (concat (place p gs)) (p :: concat gs).
Proof.
  induction gs as [|g r IH]; simpl; [reflexivity|].
  destruct (fits p g); simpl.
  - rewrite <- app_assoc. simpl. symmetry. apply Permutation_middle.
  - rewrite IH. symmetry. apply Permutation_middle.
Qed.

Lemma greedy_perm : forall u gs,
  Permutation (concat (fold_left (fun gs p => place p gs) u gs)) (u ++ concat gs).
Proof.
  induction u as [|p r IH]; intros gs; simpl; [reflexivity|].
  rewrite IH, place_perm. symmetry. apply Permutation_middle.
Qed.

Lemma pairwise_compat_snoc p : forall g,
  pairwise_compat (g ++ [p]) = pairwise_compat g && fits p g.
Proof.
  induction g as [|x r IH]; simpl; [reflexivity|].
  rewrite forallb_app, IH. simpl. unfold fits. simpl.
  destruct (forallb _ r), (letters_compat (plets x) (plets p)), (pairwise_compat r), (forallb _ r); reflexivity.
Qed.

Definition good_groups (gs : list (list pauli)) : Prop :=
  forall g, In g gs -> g <> [] /\ pairwise_compat g = true.

Lemma place_good p : forall gs, good_groups gs -> good_groups (place p gs).
Proof.
  induction gs as [|g r IH]; intros G x Hx; simpl in Hx.
  - destruct Hx as [<-|[]]. split; [discriminate|reflexivity].
  - destruct (fits p g) eqn:E.
    + destruct Hx as [<-|Hx]; [|apply G; now right].
      split; [destruct g; discriminate|].
      rewrite pairwise_compat_snoc, E, (proj2 (G g (or_introl eq_refl))). reflexivity.
    + destruct Hx as [<-|Hx]; [apply G; now left|].
      apply IH; [|assumption]. intros y Hy. apply G. now right.
Qed.

Lemma greedy_good : forall u gs, good_groups gs -> good_groups (fold_left (fun gs p => place p gs) u gs).
Proof.
  induction u as [|p r IH]; intros gs G; simpl; [assumption|]. apply IH. apply place_good. assumption.
Qed.

(* ---------- the contract is inhabited ---------- *)
Lemma greedy_contract obs :
  same_width (match obs with [] => 0 | p :: _ => length (plets p) end) obs = true ->
  grouping_contract obs (greedy_oracle obs) = true.
Proof.
  intros W. unfold grouping_contract, greedy_oracle. cbn [o_unique o_groups].
  set (n := match obs with [] => 0 | p :: _ => length (plets p) end) in *.
  set (u := dedup obs).
  assert (P : Permutation (concat (greedy_groups u)) u).
  { unfold greedy_groups. rewrite greedy_perm. simpl. rewrite app_nil_r. reflexivity. }
  assert (G : good_groups (greedy_groups u)).
  { apply greedy_good. intros g []. }
  assert (Uin : forall p, In p u <-> In p obs) by (intros p; apply dedup_In).
  repeat (apply andb_true_intro; split).
  - exact W.
  - apply forallb_forall. intros p Hp. apply Uin in Hp. exact (forallb_In _ _ W p Hp).
  - apply forallb_forall. intros p Hp. apply mem_pauli_In, Uin. assumption.
  - apply forallb_forall. intros p Hp. apply mem_pauli_In, Uin. assumption.
  - apply forallb_forall. intros p Hp. apply Nat.eqb_eq. apply count_pauli_NoDup; [apply dedup_NoDup|assumption].
  - apply Nat.eqb_eq. apply Permutation_length. assumption.
  - apply forallb_forall. intros p Hp. apply Nat.eqb_eq. rewrite (count_pauli_perm p _ _ P).
    apply count_pauli_NoDup; [apply dedup_NoDup|assumption].
  - apply forallb_forall. intros p Hp. apply mem_pauli_In. apply (Permutation_in _ P). assumption.
  - apply forallb_forall. intros g Hg. destruct (G g Hg) as [NE _]. destruct g; [congruence|reflexivity].
  - apply forallb_forall. intros g Hg. apply (G g Hg).
Qed.

(* so, with the reference oracle, the collection of ANY non-empty phase-free list of equally wide observables is built
   and covers every observable: no oracle hypothesis is left *)
Lemma greedy_collection obs :
  obs <> [] -> (forall p, In p obs -> pphase p = 0) ->
  same_width (match obs with [] => 0 | p :: _ => length (plets p) end) obs = true ->
  exists cogs lk, collection obs (greedy_oracle obs) = Ok (cogs, lk) /\
    forall p, In p obs -> exists locs, lookup_find p lk = Some locs /\ locs <> [] /\
      forall i j, In (i, j) locs -> exists c, nth_error cogs i = Some c /\ nth_error (cg_members c) j = Some p.
Proof.
  intros NE PH W. pose proof (greedy_contract obs W) as K.
  destruct (collection_total obs (greedy_oracle obs) NE PH K) as [cogs [lk E]].
  exists cogs, lk. split; [assumption|]. intros p Hp. apply (collection_cover _ _ _ _ E K p Hp).
Qed.

(* Proofs/ReconstructExtP.v — correction round: dict-shaped V1 twin, non-empty lookups, public-level closure. *)
From Coq Require Import QArith Ascii String Lia ZifyBool.
From CKT Require Import Common.Base Model.Reconstruct Proofs.ReconstructP Model.ReconstructExt.
Close Scope Q_scope.
Open Scope nat_scope.

(* ---- res_Qeq plumbing ---- *)
Lemma res_Qeq_via (a b : res (list Q)) (f g : nat -> Q) n :
  res_Qeq a (Ok (map f (seq 0 n))) -> res_Qeq b (Ok (map g (seq 0 n))) ->
  (forall k, k < n -> (f k == g k)%Q) -> res_Qeq a b.
Proof.
  intros Ha Hb E. destruct a as [x| |], b as [y| |]; cbn in *; try contradiction.
  assert (Fg : Forall2 Qeq (map f (seq 0 n)) (map g (seq 0 n))).
  { assert (G : forall l, (forall k, In k l -> k < n) -> Forall2 Qeq (map f l) (map g l)).
    { induction l as [|k r IH]; intros H; [constructor|]. cbn. constructor; [apply E, H; left; reflexivity|].
      apply IH. intros j Hj. apply H. right. exact Hj. }
    apply G. intros k Hk. apply in_seq in Hk. lia. }
  revert Ha Hb Fg. generalize (map f (seq 0 n)) (map g (seq 0 n)). clear.
  intros u v Ha Hb Fg.
  assert (T : forall (x u : list Q), Forall2 Qeq x u -> forall v, Forall2 Qeq u v -> Forall2 Qeq x v).
  { induction 1 as [|a b l l' Hab F IH]; intros v0 H; inversion H; subst; constructor.
    - etransitivity; eassumption. - apply IH; assumption. }
  assert (S : forall (x y : list Q), Forall2 Qeq x y -> Forall2 Qeq y x).
  { induction 1; constructor; [symmetry|]; assumption. }
  apply (T x u Ha). apply (T u v Fg). apply S, Hb.
Qed.

(* ---- merging ---- *)
Local Open Scope Q_scope.

Lemma merge_add_sum (f : N -> Q) o p : forall acc,
  Qsum (map (fun op => snd op * f (fst op)) (merge_add o p acc))
  == Qsum (map (fun op => snd op * f (fst op)) acc) + p * f o.
Proof.
  induction acc as [|[o' p'] r IH]; cbn [merge_add].
  - cbn. ring.
  - destruct (N.eqb_spec o o') as [->|NE]; cbn [map fst snd]; rewrite !Qsum_cons.
    + ring.
    + rewrite IH. ring.
Qed.

Lemma merge_fold_sum (f : N -> Q) : forall l acc,
  Qsum (map (fun op => snd op * f (fst op)) (fold_left (fun a op => merge_add (fst op) (snd op) a) l acc))
  == Qsum (map (fun op => snd op * f (fst op)) acc) + Qsum (map (fun op => snd op * f (fst op)) l).
Proof.
  induction l as [|[o p] r IH]; intros acc; cbn [fold_left map].
  - cbn. ring.
  - rewrite IH, merge_add_sum, Qsum_cons. cbn [fst snd]. ring.
Qed.

Lemma merge_ints_sum (f : N -> Q) l :
  Qsum (map (fun op => snd op * f (fst op)) (merge_ints l)) == Qsum (map (fun op => snd op * f (fst op)) l).
Proof. unfold merge_ints. rewrite merge_fold_sum. cbn. ring. Qed.

Local Close Scope Q_scope.

Lemma merge_add_keys o p : forall acc, NoDup (map fst acc) ->
  NoDup (map fst (merge_add o p acc)) /\ forall x, In x (map fst (merge_add o p acc)) <-> In x (map fst acc) \/ x = o.
Proof.
  induction acc as [|[o' p'] r IH]; intros ND; cbn [merge_add].
  - split; [repeat constructor; intros []|]. intros x. cbn. intuition.
  - inversion ND as [|? ? Hn ND']; subst. destruct (N.eqb_spec o o') as [->|NE]; cbn [map fst].
    + split; [exact ND|]. intros x. cbn. intuition.
    + destruct (IH ND') as [A B]. split.
      * constructor; [|exact A]. intros H. apply B in H as [H|H]; [contradiction|congruence].
      * intros x. cbn. rewrite B. intuition.
Qed.

Lemma merge_ints_NoDup l : NoDup (map fst (merge_ints l)).
Proof.
  unfold merge_ints. assert (G : forall l acc, NoDup (map fst acc) ->
    NoDup (map fst (fold_left (fun a op => merge_add (fst op) (snd op) a) l acc))).
  { clear. induction l as [|op r IH]; intros acc ND; [exact ND|]. cbn [fold_left]. apply IH.
    apply merge_add_keys, ND. }
  apply G. constructor.
Qed.

Section Merge.
  Variable pyint0 : list ascii -> option N.
  Let den := den_of pyint0.

  Lemma parse_all_spec : forall qd l, parse_all pyint0 qd = Some l ->
    l = map (fun kp => (den (fst kp), snd kp)) qd /\
    forall kp, In kp qd -> outcome_to_int pyint0 (fst kp) = Some (den (fst kp)).
  Proof.
    induction qd as [|[k p] r IH]; intros l H; cbn [parse_all] in H.
    - inversion H. split; [reflexivity|intros kp []].
    - destruct (outcome_to_int pyint0 k) as [o|] eqn:E; [|discriminate].
      destruct (parse_all pyint0 r) as [l'|]; [|discriminate]. inversion H; subst l. destruct (IH l' eq_refl) as [A B].
      assert (D : den k = o) by (unfold den, den_of; rewrite E; reflexivity).
      split; [cbn [map fst snd]; rewrite D, A; reflexivity|].
      intros kp [<-|Hkp]; [cbn [fst]; rewrite D; exact E|apply B, Hkp].
  Qed.

  Lemma parse_all_total : forall qd,
    (forall kp, In kp qd -> outcome_to_int pyint0 (fst kp) <> None) -> exists l, parse_all pyint0 qd = Some l.
  Proof.
    induction qd as [|[k p] r IH]; intros H; [eexists; reflexivity|]. cbn [parse_all].
    destruct (outcome_to_int pyint0 k) eqn:E; [|exfalso; apply (H (k, p)); [left; reflexivity|exact E]].
    destruct IH as [l ->]; [intros kp Hkp; apply H; right; exact Hkp|]. eexists; reflexivity.
  Qed.

  (* a merged distribution has the same weighted sum of any function of the denoted integer *)
  Lemma merge_dist_sum (f : N -> Q) qd :
    (forall kp, In kp qd -> outcome_to_int pyint0 (fst kp) <> None) ->
    (Qsum (map (fun kp => snd kp * f (den (fst kp))) (merge_dist pyint0 qd))
     == Qsum (map (fun kp => snd kp * f (den (fst kp))) qd))%Q.
  Proof.
    intros H. unfold merge_dist. destruct (parse_all_total qd H) as [l Hl]. rewrite Hl.
    destruct (parse_all_spec qd l Hl) as [A _]. rewrite map_map. cbn [fst snd].
    assert (D : forall o, den (KInt o) = o) by reflexivity.
    rewrite (map_ext (fun x => (snd x * f (den (KInt (fst x))))%Q) (fun op => (snd op * f (fst op))%Q))
      by (intros op; rewrite D; reflexivity).
    rewrite merge_ints_sum, A, map_map. reflexivity.
  Qed.

  Lemma merge_dist_keys qd kp : In kp (merge_dist pyint0 qd) ->
    (forall x, In x qd -> outcome_to_int pyint0 (fst x) <> None) -> outcome_to_int pyint0 (fst kp) <> None.
  Proof.
    intros H K. unfold merge_dist in H. destruct (parse_all pyint0 qd); [|apply K, H].
    apply in_map_iff in H as [op [<- _]]. cbn. discriminate.
  Qed.

  Lemma merge_dist_shape qd : (forall x, In x qd -> outcome_to_int pyint0 (fst x) <> None) ->
    exists l, merge_dist pyint0 qd = map (fun op => (KInt (fst op), snd op)) l /\ NoDup (map fst l).
  Proof.
    intros K. unfold merge_dist. destruct (parse_all_total qd K) as [l ->].
    exists (merge_ints l). split; [reflexivity|apply merge_ints_NoDup].
  Qed.

  Definition all_keys_parse (d : pdata) : Prop :=
    forall k, In k (keys_of d) -> outcome_to_int pyint0 k <> None.

  Lemma keys_in_dist qds qd kp : In qd qds -> In kp qd -> In (fst kp) (keys_of (DV1 qds)).
  Proof. intros A B. cbn [keys_of]. apply in_map, in_concat. exists qd. split; assumption. Qed.

  Lemma merge_data_keys d : all_keys_parse d -> all_keys_parse (merge_data pyint0 d).
  Proof.
    destruct d as [qds|p]; [|intros _ k []]. intros K k Hk. cbn [merge_data keys_of] in Hk.
    apply in_map_iff in Hk as [kp [<- Hkp]]. apply in_concat in Hkp as [qd' [Hq Hkp]].
    apply in_map_iff in Hq as [qd [<- Hqd]]. apply (merge_dist_keys qd kp Hkp).
    intros x Hx. apply K, (keys_in_dist qds qd x Hqd Hx).
  Qed.

  Lemma merge_data_dict d : all_keys_parse d -> dict_shaped (merge_data pyint0 d).
  Proof.
    destruct d as [qds|p]; [|intros _; exact I]. intros K qd' Hq. cbn [merge_data] in Hq.
    apply in_map_iff in Hq as [qd [<- Hqd]]. apply merge_dist_shape.
    intros x Hx. apply K, (keys_in_dist qds qd x Hqd Hx).
  Qed.

  Lemma merge_data_len d : data_len (merge_data pyint0 d) = data_len d.
  Proof. destruct d; cbn; [apply map_length|reflexivity]. Qed.

  Lemma E_exp_merge c n d idx : all_keys_parse d ->
    (E_exp den c n (merge_data pyint0 d) idx == E_exp den c n d idx)%Q.
  Proof.
    destruct d as [qds|p]; [|reflexivity]. intros K. cbn [merge_data E_exp].
    assert (M0 : merge_dist pyint0 [] = []) by reflexivity.
    rewrite <- M0 at 1. rewrite map_nth.
    apply (merge_dist_sum (fun o => inject_Z (outcome_value_v1 (num_meas_bits c) (nth n (cog_masks c) 0%N) o))).
    intros kp Hkp. destruct (Nat.lt_ge_cases idx (length qds)) as [L|G].
    - apply K, (keys_in_dist qds (nth idx qds []) kp (nth_In _ _ L) Hkp).
    - rewrite nth_overflow in Hkp by exact G. destruct Hkp.
  Qed.

  Definition merge_pd (pd : part * pdata) : part * pdata := (fst pd, merge_data pyint0 (snd pd)).

  Lemma estimator_merge coeffs pds k :
    (forall pd, In pd pds -> all_keys_parse (snd pd)) ->
    (estimator den coeffs (map merge_pd pds) k == estimator den coeffs pds k)%Q.
  Proof.
    intros K. unfold estimator. apply Qsum_ext_in. intros ic _. rewrite map_map.
    rewrite (Qprod_ext_in (fun x => E den (merge_pd x) (fst ic) k) (fun pd => E den pd (fst ic) k)); [reflexivity|].
    intros pd Hpd. unfold E. cbn [merge_pd fst snd]. apply Qmean_ext_in. intros mn _.
    apply E_exp_merge, K, Hpd.
  Qed.

  (* merging keys that denote the same integer does not change the result *)
  Lemma v1_merge nobs coeffs pds :
    (forall pd, In pd pds -> data_len (snd pd) = length coeffs * length (pgroups (fst pd))) ->
    (forall pd, In pd pds -> length (plookup (fst pd)) = nobs /\ locs_ok (fst pd)) ->
    (forall pd, In pd pds -> all_keys_parse (snd pd)) ->
    res_Qeq (reconstruct_parts pyint0 nobs coeffs (map merge_pd pds)) (reconstruct_parts pyint0 nobs coeffs pds) /\
    forall pd, In pd (map merge_pd pds) -> dict_shaped (snd pd).
  Proof.
    intros C S K. split.
    - apply (res_Qeq_via _ _ (estimator den coeffs (map merge_pd pds)) (estimator den coeffs pds) nobs).
      + apply estimator_full.
        * intros pd Hpd. apply in_map_iff in Hpd as [pd0 [<- H0]]. cbn [merge_pd fst snd].
          rewrite merge_data_len. apply C, H0.
        * intros pd Hpd. apply in_map_iff in Hpd as [pd0 [<- H0]]. exact (S pd0 H0).
        * intros pd k Hpd Hk. apply in_map_iff in Hpd as [pd0 [<- H0]]. cbn [merge_pd snd] in Hk.
          pose proof (merge_data_keys (snd pd0) (K pd0 H0) k Hk) as P. unfold den, den_of.
          destruct (outcome_to_int pyint0 k); [reflexivity|congruence].
      + apply estimator_full; [exact C|exact S|].
        intros pd k Hpd Hk. pose proof (K pd Hpd k Hk) as P. unfold den, den_of.
        destruct (outcome_to_int pyint0 k); [reflexivity|congruence].
      + intros k _. apply estimator_merge, K.
    - intros pd Hpd. apply in_map_iff in Hpd as [pd0 [<- H0]]. apply merge_data_dict, K, H0.
  Qed.
End Merge.

(* V2 data vs the DICT-shaped V1 description of the same shots *)
Lemma pack_keys_parse p d k : In k (keys_of (pack p d)) -> In k (keys_of d) \/ exists n, k = KInt n.
Proof.
  destruct d as [q|pubs]; [left; assumption|]. intros H. right. cbn [pack keys_of] in H.
  apply in_map_iff in H as [kp [<- Hkp]]. apply in_concat in Hkp as [qd [Hq Hkp]].
  apply in_map_iff in Hq as [ix [<- _]]. unfold pack_shots in Hkp. apply in_map_iff in Hkp as [s [<- _]].
  eexists. reflexivity.
Qed.

Lemma v1_v2_dict pyint0 nobs coeffs pds :
  (forall pd, In pd pds -> data_len (snd pd) = length coeffs * length (pgroups (fst pd))) ->
  (forall pd, In pd pds -> length (plookup (fst pd)) = nobs /\ locs_ok (fst pd)) ->
  (forall pd k, In pd pds -> In k (keys_of (snd pd)) -> outcome_to_int pyint0 k <> None) ->
  (forall pd, In pd pds -> obs_in_range (fst pd) (snd pd)) ->
  let twin := map (fun pd => merge_pd pyint0 (fst pd, pack (fst pd) (snd pd))) pds in
  res_Qeq (reconstruct_parts pyint0 nobs coeffs twin) (reconstruct_parts pyint0 nobs coeffs pds) /\
  forall pd, In pd twin -> dict_shaped (snd pd) /\ exists q, snd pd = DV1 q.
Proof.
  intros C S K R twin.
  set (packed := map (fun pd => (fst pd, pack (fst pd) (snd pd))) pds).
  assert (Tw : twin = map (merge_pd pyint0) packed) by (unfold twin, packed; rewrite map_map; reflexivity).
  assert (KP : forall pd, In pd packed -> all_keys_parse pyint0 (snd pd)).
  { intros pd Hpd k Hk. apply in_map_iff in Hpd as [pd0 [<- H0]]. cbn [snd] in Hk.
    destruct (pack_keys_parse _ _ _ Hk) as [H|[n ->]]; [apply (K pd0 k H0 H)|cbn; discriminate]. }
  destruct (v1_merge pyint0 nobs coeffs packed) as [A B].
  - intros pd Hpd. apply in_map_iff in Hpd as [pd0 [<- H0]]. cbn [fst snd].
    destruct (exp_equiv_pack pyint0 (fst pd0) (snd pd0) (R pd0 H0)) as [L _]. rewrite L. apply C, H0.
  - intros pd Hpd. apply in_map_iff in Hpd as [pd0 [<- H0]]. exact (S pd0 H0).
  - exact KP.
  - rewrite Tw. split.
    + rewrite <- (v1_v2_full pyint0 nobs coeffs pds R). exact A.
    + intros pd Hpd. split; [apply B, Hpd|].
      apply in_map_iff in Hpd as [pk [<- Hpk]]. apply in_map_iff in Hpk as [pd0 [<- _]].
      cbn [merge_pd fst snd]. destruct (snd pd0); cbn; eexists; reflexivity.
Qed.

(* ---- the estimator theorem with the non-empty-lookup premise (no 0/0 mean) ---- *)
Lemma estimator_ne pyint0 den nobs coeffs pds :
  (forall pd, In pd pds -> data_len (snd pd) = length coeffs * length (pgroups (fst pd))) ->
  (forall pd, In pd pds -> length (plookup (fst pd)) = nobs /\ locs_ok_ne (fst pd)) ->
  (forall pd k, In pd pds -> In k (keys_of (snd pd)) -> outcome_to_int pyint0 k = Some (den k)) ->
  res_Qeq (reconstruct_parts pyint0 nobs coeffs pds)
          (Ok (map (estimator den coeffs pds) (seq 0 nobs))).
Proof.
  intros C S K. apply estimator_full; [exact C| |exact K].
  intros pd Hpd. destruct (S pd Hpd) as [A [B _]]. split; assumption.
Qed.

(* ---- a count mismatch is refused by the PUBLIC function, both call forms, no validity premise ---- *)
Lemma same_keys_incl a b : same_keys a b = true -> forall x, In x a -> In x b.
Proof.
  unfold same_keys. intros H x Hx. apply andb_prop in H as [H _].
  rewrite forallb_forall in H. specialize (H x Hx). apply existsb_exists in H as [y [Hy E]].
  apply Nat.eqb_eq in E. subst. exact Hy.
Qed.

Lemma attach_In m : forall ps pds, attach ps m = Some pds ->
  forall p, In p ps -> exists d, In (p, d) pds /\ assoc m (plabel p) = Some d.
Proof.
  induction ps as [|q r IH]; intros pds H p Hp; [destruct Hp|]. cbn [attach] in H.
  destruct (assoc m (plabel q)) as [d|] eqn:E; [|discriminate].
  destruct (attach r m) as [t|] eqn:Et; [|discriminate]. inversion H; subst pds.
  destruct Hp as [<-|Hp]; [exists d; split; [left; reflexivity|exact E]|].
  destruct (IH t eq_refl p Hp) as [d' [A B]]. exists d'. split; [right; exact A|exact B].
Qed.

Lemma public_count_refused pyint0 coeffs :
  (forall p d, data_len d <> length coeffs * length (pgroups p) ->
     reconstruct pyint0 (RLeaf d) coeffs (OList p) = Refused) /\
  (forall ps m, (exists p d, In p ps /\ assoc m (plabel p) = Some d /\
                             data_len d <> length coeffs * length (pgroups p)) ->
     reconstruct pyint0 (RMap m) coeffs (OMap ps) = Refused).
Proof.
  split.
  - intros p d H. unfold reconstruct. destruct (phases_bad (pphases p)); [reflexivity|].
    apply reconstruct_parts_count_refused. exists (p, d). split; [left; reflexivity|exact H].
  - intros ps m [p [d [Hp [Hd H]]]]. unfold reconstruct.
    destruct (same_keys (map plabel ps) (map fst m)) eqn:SK; [|reflexivity]. cbn [negb].
    destruct (existsb (fun q => phases_bad (pphases q)) ps); [reflexivity|].
    destruct ps as [|p0 r]; [destruct Hp|].
    destruct (attach_spec m (p0 :: r)) as [pds [A _]].
    { intros q Hq. apply (same_keys_incl _ _ SK). apply in_map, Hq. }
    rewrite A. destruct (attach_In m _ _ A p Hp) as [d' [I1 I2]].
    assert (d' = d) by congruence. subst d'.
    apply reconstruct_parts_count_refused. exists (p, d). split; [exact I1|exact H].
Qed.

(* _process_outcome returns, entry by entry, the declarative value of the outcome *)
Lemma process_outcome_spec pyint0 c k o : outcome_to_int pyint0 k = Some o ->
  exists v, process_outcome pyint0 c k = Ok v /\ length v = length (cog_masks c) /\
    forall n, n < length (cog_masks c) ->
      nth n v 0%Z = outcome_value_v1 (num_meas_bits c) (nth n (cog_masks c) 0%N) o.
Proof.
  intros H. unfold process_outcome. rewrite H. eexists. split; [reflexivity|].
  split; [apply process_outcome_v2_length|]. intros n Hn.
  rewrite process_outcome_v2_nth by exact Hn. unfold outcome_value_v1.
  rewrite parity_high_v1, parity_on_v1. reflexivity.
Qed.

Lemma estimator_parser_ne nobs coeffs pds :
  (forall pd, In pd pds -> data_len (snd pd) = length coeffs * length (pgroups (fst pd))) ->
  (forall pd, In pd pds -> length (plookup (fst pd)) = nobs /\ locs_ok_ne (fst pd)) ->
  (forall pd k, In pd pds -> In k (keys_of (snd pd)) -> outcome_to_int pyint0_ref k <> None) ->
  res_Qeq (reconstruct_parts pyint0_ref nobs coeffs pds)
          (Ok (map (estimator ref_den coeffs pds) (seq 0 nobs))).
Proof.
  intros C S K. apply estimator_parser; [exact C| |exact K].
  intros pd Hpd. destruct (S pd Hpd) as [A [B _]]. split; assumption.
Qed.

Lemma public_estimator_ne pyint0 den m coeffs p0 ps :
  (forall l, In l (map plabel (p0 :: ps)) <-> In l (map fst m)) ->
  (forall p x, In p (p0 :: ps) -> In x (pphases p) -> x = 0) ->
  (forall p, In p (p0 :: ps) -> length (plookup p) = length (plookup p0) /\ locs_ok_ne p) ->
  (forall p d, In p (p0 :: ps) -> assoc m (plabel p) = Some d ->
     data_len d = length coeffs * length (pgroups p) /\
     forall k, In k (keys_of d) -> outcome_to_int pyint0 k = Some (den k)) ->
  exists pds, map fst pds = p0 :: ps /\
    (forall pd, In pd pds -> assoc m (plabel (fst pd)) = Some (snd pd)) /\
    res_Qeq (reconstruct pyint0 (RMap m) coeffs (OMap (p0 :: ps)))
            (Ok (map (estimator den coeffs pds) (seq 0 (length (plookup p0))))).
Proof.
  intros K PH S DA. apply public_estimator; [exact K|exact PH| |exact DA].
  intros p Hp. destruct (S p Hp) as [A [B _]]. split; assumption.
Qed.

Lemma v1_merge_ne pyint0 nobs coeffs pds :
  (forall pd, In pd pds -> data_len (snd pd) = length coeffs * length (pgroups (fst pd))) ->
  (forall pd, In pd pds -> length (plookup (fst pd)) = nobs /\ locs_ok_ne (fst pd)) ->
  (forall pd k, In pd pds -> In k (keys_of (snd pd)) -> outcome_to_int pyint0 k <> None) ->
  res_Qeq (reconstruct_parts pyint0 nobs coeffs (map (merge_pd pyint0) pds)) (reconstruct_parts pyint0 nobs coeffs pds) /\
  forall pd, In pd (map (merge_pd pyint0) pds) -> dict_shaped (snd pd).
Proof.
  intros C S K. apply v1_merge; [exact C| |].
  - intros pd Hpd. destruct (S pd Hpd) as [A [B _]]. split; assumption.
  - intros pd Hpd k Hk. apply (K pd k Hpd Hk).
Qed.

Lemma v1_v2_dict_ne pyint0 nobs coeffs pds :
  (forall pd, In pd pds -> data_len (snd pd) = length coeffs * length (pgroups (fst pd))) ->
  (forall pd, In pd pds -> length (plookup (fst pd)) = nobs /\ locs_ok_ne (fst pd)) ->
  (forall pd k, In pd pds -> In k (keys_of (snd pd)) -> outcome_to_int pyint0 k <> None) ->
  (forall pd, In pd pds -> obs_in_range (fst pd) (snd pd)) ->
  let twin := map (fun pd => merge_pd pyint0 (fst pd, pack (fst pd) (snd pd))) pds in
  res_Qeq (reconstruct_parts pyint0 nobs coeffs twin) (reconstruct_parts pyint0 nobs coeffs pds) /\
  forall pd, In pd twin -> dict_shaped (snd pd) /\ exists q, snd pd = DV1 q.
Proof.
  intros C S K R. apply v1_v2_dict; [exact C| |exact K|exact R].
  intros pd Hpd. destruct (S pd Hpd) as [A [B _]]. split; assumption.
Qed.

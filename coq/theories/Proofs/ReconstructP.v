(* Proofs/ReconstructP.v — lemmas about Model/Reconstruct.v (property C06). *)
From Coq Require Import QArith Ascii String Lia ZifyBool.
From CKT Require Import Common.Base Model.Reconstruct.
Close Scope Q_scope.
Open Scope nat_scope.

(* ------------------------------------------------------------------------------------------ *)
(* A. bits: popcount parity = xor of the bits                                                  *)
(* ------------------------------------------------------------------------------------------ *)

Lemma bit_count_div2 x : bit_count x = (if N.odd x then 1 else 0) + bit_count (N.div2 x).
Proof. destruct x as [|[p|p|]]; reflexivity. Qed.

Lemma xor_list_false l : (forall b, In b l -> b = false) -> xor_list l = false.
Proof.
  induction l as [|b r IH]; intros H; [reflexivity|]. cbn [xor_list fold_right].
  rewrite (H b (or_introl eq_refl)). fold (xor_list r). rewrite IH; [reflexivity|].
  intros c Hc; apply H; right; exact Hc.
Qed.

Lemma xor_bits_odd w : forall x, (forall j, (N.of_nat w <= j)%N -> N.testbit x j = false) ->
  xor_list (map (bit x) (seq 0 w)) = Nat.odd (bit_count x).
Proof.
  induction w as [|w IH]; intros x H.
  - assert (E : x = 0%N). { apply N.bits_inj_0. intros n. apply H. lia. }
    subst x. reflexivity.
  - cbn [seq map xor_list fold_right]. fold (xor_list (map (bit x) (seq 1 w))).
    rewrite <- seq_shift, map_map.
    rewrite (map_ext (fun j => bit x (S j)) (bit (N.div2 x))).
    + rewrite (IH (N.div2 x)).
      * rewrite (bit_count_div2 x). unfold bit. cbn [N.of_nat]. rewrite N.bit0_odd.
        destruct (N.odd x); cbn [Nat.add].
        -- rewrite Nat.odd_succ, <- Nat.negb_odd. apply xorb_true_l.
        -- apply xorb_false_l.
      * intros j Hj. rewrite <- N.testbit_succ_r_div2 by lia. apply H. lia.
    + intros j. unfold bit. rewrite Nat2N.inj_succ. apply N.testbit_succ_r_div2. lia.
Qed.

Lemma testbit_above_size x j : (N.size x <= j)%N -> N.testbit x j = false.
Proof.
  intros H. destruct (N.eq_dec x 0) as [->|NZ]; [apply N.bits_0|].
  apply N.bits_above_log2. rewrite N.size_log2 in H by exact NZ. lia.
Qed.

Lemma pm1_sgn n : pm1 n = sgn (Nat.odd n).
Proof. unfold pm1, sgn. destruct (Nat.odd n); reflexivity. Qed.

Lemma parity_all_spec x : Nat.odd (bit_count x) = parity_all x.
Proof.
  unfold parity_all, nbits_of. symmetry. apply xor_bits_odd.
  intros j Hj. apply testbit_above_size. lia.
Qed.

Lemma bit_land a b j : bit (N.land a b) j = bit a j && bit b j.
Proof. unfold bit. apply N.land_spec. Qed.

(* V2: parity of the observable-register bits selected by the mask *)
Lemma parity_on_v2 obs mask :
  Nat.odd (bit_count (N.land obs mask)) = parity_on (nbits_of obs) obs mask.
Proof.
  unfold parity_on. rewrite <- (xor_bits_odd (nbits_of obs) (N.land obs mask)).
  - f_equal. apply map_ext. intros j. apply bit_land.
  - intros j Hj. rewrite N.land_spec, (testbit_above_size obs j); [reflexivity|].
    unfold nbits_of in Hj. lia.
Qed.

(* V1: low nb bits of the packed outcome *)
Lemma parity_on_v1 nb o mask :
  Nat.odd (bit_count (N.land (N.land o (N.ones (N.of_nat nb))) mask)) = parity_on nb o mask.
Proof.
  unfold parity_on. rewrite <- (xor_bits_odd nb (N.land (N.land o (N.ones (N.of_nat nb))) mask)).
  - apply f_equal. apply map_ext_in. intros j Hj. apply in_seq in Hj.
    rewrite !bit_land. unfold bit at 2. rewrite N.ones_spec_low by lia.
    rewrite andb_true_r. reflexivity.
  - intros j Hj. rewrite !N.land_spec, N.ones_spec_high by lia.
    rewrite andb_false_r. reflexivity.
Qed.

Lemma seq_add a k : seq a k = map (fun j => j + a) (seq 0 k).
Proof.
  revert a; induction k as [|k IH]; intros a; [reflexivity|].
  cbn [seq map Nat.add]. f_equal. rewrite <- (seq_shift k 0), map_map, (IH (S a)).
  apply map_ext. intros j. lia.
Qed.

(* V1: the bits above nb of the packed outcome *)
Lemma parity_high_v1 nb o :
  Nat.odd (bit_count (N.shiftr o (N.of_nat nb))) = parity_high nb o.
Proof.
  unfold parity_high.
  rewrite <- (xor_bits_odd (nbits_of o - nb) (N.shiftr o (N.of_nat nb))).
  - f_equal. rewrite (seq_add nb), map_map. apply map_ext. intros j.
    unfold bit. rewrite N.shiftr_spec by lia. f_equal. lia.
  - intros j Hj. rewrite N.shiftr_spec by lia. apply testbit_above_size.
    unfold nbits_of in Hj. lia.
Qed.

Lemma nth_map_lt {A B} (f : A -> B) l n d d' : n < length l -> nth n (map f l) d' = f (nth n l d).
Proof.
  revert n; induction l as [|x r IH]; intros [|n] H; cbn [length] in H; try lia; cbn [map nth]; auto.
  apply IH. lia.
Qed.

(* every processed value is the product of the two declarative signs *)
Lemma process_outcome_v2_nth masks obs qpd n : n < length masks ->
  nth n (process_outcome_v2 masks obs qpd) 0%Z
  = (sgn (Nat.odd (bit_count qpd)) * sgn (Nat.odd (bit_count (N.land obs (nth n masks 0%N)))))%Z.
Proof.
  intros Hn. unfold process_outcome_v2.
  rewrite (nth_map_lt _ masks n 0%N) by exact Hn. rewrite !pm1_sgn. reflexivity.
Qed.

Lemma process_outcome_v2_length masks obs qpd : length (process_outcome_v2 masks obs qpd) = length masks.
Proof. apply map_length. Qed.

Lemma sign_values masks obs qpd v : In v (process_outcome_v2 masks obs qpd) -> v = 1%Z \/ v = (-1)%Z.
Proof.
  unfold process_outcome_v2. intros H. apply in_map_iff in H as [m [<- _]].
  rewrite !pm1_sgn. unfold sgn. destruct (Nat.odd _), (Nat.odd _); auto.
Qed.

(* ------------------------------------------------------------------------------------------ *)
(* B. packing: split_pack, bytes                                                               *)
(* ------------------------------------------------------------------------------------------ *)

Lemma split_pack (n obs qpd : N) : (obs < 2 ^ n)%N ->
  N.land (qpd * 2 ^ n + obs) (N.ones n) = obs /\ N.shiftr (qpd * 2 ^ n + obs) n = qpd.
Proof.
  intros H. assert (P : (2 ^ n <> 0)%N) by (apply N.pow_nonzero; lia).
  split.
  - rewrite N.land_ones, N.add_comm, N.mod_add by exact P. apply N.mod_small, H.
  - rewrite N.shiftr_div_pow2, N.add_comm, N.div_add by exact P.
    rewrite N.div_small by exact H. reflexivity.
Qed.

Lemma from_bytes_acc row : forall acc,
  fold_left (fun a b => (a * 256 + b)%N) row acc = (acc * 256 ^ N.of_nat (length row) + bytes_value row)%N.
Proof.
  induction row as [|b r IH]; intros acc; cbn [fold_left bytes_value length].
  - cbn. lia.
  - rewrite IH, Nat2N.inj_succ, N.pow_succ_r'. lia.
Qed.

(* int.from_bytes(row, "big") is the big-endian value, for rows of ANY length *)
Lemma from_bytes_big_spec row : from_bytes_big row = bytes_value row.
Proof. unfold from_bytes_big. rewrite from_bytes_acc. lia. Qed.

(* ------------------------------------------------------------------------------------------ *)
(* C. outcome keys                                                                             *)
(* ------------------------------------------------------------------------------------------ *)

Lemma digit_ok2_is01 c : digit_ok 2 c = is01 c.
Proof. destruct c as [[] [] [] [] [] [] [] []]; reflexivity. Qed.

Lemma parse_radix_from_value radix ds : forall acc,
  forallb (digit_ok radix) ds = true ->
  parse_radix_from radix ds acc
  = Some (fold_left (fun a c => (a * radix + match digit_val c with Some v => v | None => 0 end)%N) ds acc).
Proof.
  induction ds as [|c r IH]; intros acc H; [reflexivity|].
  cbn [forallb] in H. apply andb_prop in H as [H1 H2].
  cbn [parse_radix_from fold_left]. unfold digit_ok in H1.
  destruct (digit_val c) as [v|]; [|discriminate]. rewrite H1. apply IH, H2.
Qed.

Lemma parse_radix_value radix ds : ds <> [] -> forallb (digit_ok radix) ds = true ->
  parse_radix radix ds = Some (radix_value radix ds).
Proof.
  intros NE H. unfold parse_radix, radix_value. destruct ds as [|c r]; [congruence|].
  apply parse_radix_from_value, H.
Qed.

(* the reference oracle satisfies the assumed contract (the contract is not vacuous) *)
Lemma pyint0_ref_contract : pyint0_contract pyint0_ref.
Proof.
  split; intros c ds [->| ->] NE H; unfold pyint0_ref; cbn; apply parse_radix_value; assumption.
Qed.

Section Keys.
  Variable pyint0 : list ascii -> option N.
  Hypothesis contract : pyint0_contract pyint0.

  Lemma key_int n : outcome_to_int pyint0 (KInt n) = Some n.
  Proof. reflexivity. Qed.

  (* a plain digit string of 0/1 (spaces anywhere) goes to the binary branch *)
  Lemma key_binary s : key_chars s <> [] -> forallb (digit_ok 2) (key_chars s) = true ->
    outcome_to_int pyint0 (KStr s) = Some (radix_value 2 (key_chars s)).
  Proof.
    intros NE H. unfold outcome_to_int. fold (key_chars s).
    destruct contract as [CB _].
    assert (B : (length (key_chars s) <? 2)
                || match nth_error (key_chars s) 1 with Some c => is01 c | None => false end = true).
    { destruct (key_chars s) as [|a [|b r]]; [reflexivity|reflexivity|].
      cbn [length nth_error]. cbn [forallb] in H.
      apply andb_prop in H as [_ H]. apply andb_prop in H as [H _].
      rewrite digit_ok2_is01 in H. rewrite H. apply orb_true_r. }
    rewrite B. apply (CB "b"%char); auto.
  Qed.

  (* "0b..." / "0B..." go to int(s, 0) *)
  Lemma key_0b s c ds : c = "b"%char \/ c = "B"%char -> key_chars s = "0"%char :: c :: ds -> ds <> [] ->
    forallb (digit_ok 2) ds = true ->
    outcome_to_int pyint0 (KStr s) = Some (radix_value 2 ds).
  Proof.
    intros Hc E NE H. unfold outcome_to_int. fold (key_chars s). rewrite E.
    destruct contract as [CB _]. cbn [length nth_error].
    replace (is01 c) with false by (destruct Hc as [->| ->]; reflexivity).
    replace (S (S (length ds)) <? 2) with false by (symmetry; apply Nat.ltb_ge; lia).
    cbn [orb]. apply CB; assumption.
  Qed.

  (* "0x..." / "0X..." go to int(s, 0) *)
  Lemma key_0x s c hs : c = "x"%char \/ c = "X"%char -> key_chars s = "0"%char :: c :: hs -> hs <> [] ->
    forallb (digit_ok 16) hs = true ->
    outcome_to_int pyint0 (KStr s) = Some (radix_value 16 hs).
  Proof.
    intros Hc E NE H. unfold outcome_to_int. fold (key_chars s). rewrite E.
    destruct contract as [_ CX]. cbn [length nth_error].
    replace (is01 c) with false by (destruct Hc as [->| ->]; reflexivity).
    replace (S (S (length hs)) <? 2) with false by (symmetry; apply Nat.ltb_ge; lia).
    cbn [orb]. apply CX; assumption.
  Qed.

  (* keys denoting the same integer are processed identically *)
  Lemma process_outcome_key c k k' :
    outcome_to_int pyint0 k = outcome_to_int pyint0 k' ->
    process_outcome pyint0 c k = process_outcome pyint0 c k'.
  Proof. intros E. unfold process_outcome. rewrite E. reflexivity. Qed.
End Keys.

(* ------------------------------------------------------------------------------------------ *)
(* D. vectors over Q                                                                           *)
(* ------------------------------------------------------------------------------------------ *)
Local Open Scope Q_scope.

Lemma vadd_length a : forall b, length a = length b -> length (vadd a b) = length a.
Proof.
  induction a as [|x xs IH]; intros [|y ys] H; cbn [length] in *; try lia; [reflexivity|].
  cbn [vadd length]. f_equal. apply IH. lia.
Qed.

Lemma vadd_nth a : forall b k, length a = length b -> nth k (vadd a b) 0 == nth k a 0 + nth k b 0.
Proof.
  induction a as [|x xs IH]; intros [|y ys] k H; cbn [length] in *; try lia.
  - destruct k; cbn; reflexivity.
  - destruct k as [|k]; cbn [vadd nth].
    + apply Qred_correct.
    + apply IH. lia.
Qed.

Lemma vscale_length c v : length (vscale c v) = length v.
Proof. apply map_length. Qed.

Lemma vscale_nth c v : forall k, nth k (vscale c v) 0 == c * nth k v 0.
Proof.
  induction v as [|x xs IH]; intros [|k]; cbn [vscale map nth]; try ring.
  apply IH.
Qed.

Lemma vmul_length a : forall b, length a = length b -> length (vmul a b) = length a.
Proof.
  induction a as [|x xs IH]; intros [|y ys] H; cbn [length] in *; try lia; [reflexivity|].
  cbn [vmul length]. f_equal. apply IH. lia.
Qed.

Lemma vmul_nth a : forall b k, length a = length b -> nth k (vmul a b) 0 == nth k a 0 * nth k b 0.
Proof.
  induction a as [|x xs IH]; intros [|y ys] k H; cbn [length] in *; try lia.
  - destruct k; cbn; reflexivity.
  - destruct k as [|k]; cbn [vmul nth].
    + apply Qred_correct.
    + apply IH. lia.
Qed.

Lemma zvec_nth v k : nth k (zvec v) 0 = inject_Z (nth k v 0%Z).
Proof. unfold zvec. change 0 with (inject_Z 0). apply map_nth. Qed.

Lemma zvec_length v : length (zvec v) = length v.
Proof. apply map_length. Qed.

Lemma nth_repeat_any {A} (a : A) n k : nth k (repeat a n) a = a.
Proof. revert k; induction n as [|n IH]; intros [|k]; cbn; auto. Qed.

Lemma zeros_length n : length (zeros n) = n.
Proof. apply repeat_length. Qed.
Lemma zeros_nth n k : nth k (zeros n) 0 = 0.
Proof. apply nth_repeat_any. Qed.
Lemma ones_length n : length (ones n) = n.
Proof. apply repeat_length. Qed.
Lemma ones_nth n k : (k < n)%nat -> nth k (ones n) 0 = 1.
Proof.
  revert k; induction n as [|n IH]; intros [|k] H; cbn; try lia; auto. apply IH. lia.
Qed.

Lemma Qsum_cons x l : Qsum (x :: l) = x + Qsum l.
Proof. reflexivity. Qed.
Lemma Qprod_cons x l : Qprod (x :: l) = x * Qprod l.
Proof. reflexivity. Qed.

Lemma Qsum_ext_in {A} (f g : A -> Q) l : (forall x, In x l -> f x == g x) ->
  Qsum (map f l) == Qsum (map g l).
Proof.
  induction l as [|x r IH]; intros H; cbn [map Qsum fold_right]; [reflexivity|].
  fold (Qsum (map f r)). fold (Qsum (map g r)).
  rewrite (H x (or_introl eq_refl)), IH; [reflexivity|]. intros y Hy. apply H. right. exact Hy.
Qed.

Lemma Qprod_ext_in {A} (f g : A -> Q) l : (forall x, In x l -> f x == g x) ->
  Qprod (map f l) == Qprod (map g l).
Proof.
  induction l as [|x r IH]; intros H; cbn [map Qprod fold_right]; [reflexivity|].
  fold (Qprod (map f r)). fold (Qprod (map g r)).
  rewrite (H x (or_introl eq_refl)), IH; [reflexivity|]. intros y Hy. apply H. right. exact Hy.
Qed.

Lemma Qmean_ext_in {A} (f g : A -> Q) l : (forall x, In x l -> f x == g x) ->
  Qmean (map f l) == Qmean (map g l).
Proof.
  intros H. unfold Qmean. rewrite !map_length, (Qsum_ext_in f g l H). reflexivity.
Qed.

Lemma Forall2_of_nth (a : list Q) (f : nat -> Q) n :
  length a = n -> (forall k, (k < n)%nat -> nth k a 0 == f k) -> Forall2 Qeq a (map f (seq 0 n)).
Proof.
  revert a f; induction n as [|n IH]; intros a f L H.
  - destruct a; [constructor|discriminate].
  - destruct a as [|x xs]; [discriminate|]. cbn [seq map]. constructor.
    + apply (H 0%nat). lia.
    + rewrite <- seq_shift, map_map. apply IH; [cbn in L; lia|].
      intros k Hk. apply (H (S k)). lia.
Qed.

(* ------------------------------------------------------------------------------------------ *)
(* E. the loops compute the declarative estimator                                              *)
(* ------------------------------------------------------------------------------------------ *)

Section Estimator.
  Variable pyint0 : list ascii -> option N.
  Variable den : key -> N.

  Lemma process_outcome_value c k n : outcome_to_int pyint0 k = Some (den k) ->
    (n < length (cog_masks c))%nat ->
    exists v, process_outcome pyint0 c k = Ok v /\ length v = length (cog_masks c) /\
      nth n v 0%Z = outcome_value_v1 (num_meas_bits c) (nth n (cog_masks c) 0%N) (den k).
  Proof.
    intros Hk Hn. unfold process_outcome. rewrite Hk. eexists; split; [reflexivity|]. split.
    - apply process_outcome_v2_length.
    - rewrite process_outcome_v2_nth by exact Hn.
      unfold outcome_value_v1. rewrite parity_high_v1, parity_on_v1. reflexivity.
  Qed.

  Lemma exp_v1_spec c : forall qd acc,
    (forall kp, In kp qd -> outcome_to_int pyint0 (fst kp) = Some (den (fst kp))) ->
    length acc = length (cog_masks c) ->
    exists v, exp_v1 pyint0 c qd acc = Ok v /\ length v = length (cog_masks c) /\
      forall n, (n < length (cog_masks c))%nat ->
        nth n v 0 == nth n acc 0
          + Qsum (map (fun kp => snd kp * inject_Z (outcome_value_v1 (num_meas_bits c) (nth n (cog_masks c) 0%N) (den (fst kp)))) qd).
  Proof.
    induction qd as [|[k p] r IH]; intros acc Hk Hl.
    - exists acc. split; [reflexivity|]. split; [exact Hl|]. intros n _. cbn. ring.
    - cbn [exp_v1].
      assert (Hk0 := Hk (k, p) (or_introl eq_refl)). cbn [fst] in Hk0.
      unfold process_outcome at 1. rewrite Hk0.
      set (v := process_outcome_v2 (cog_masks c) _ _).
      assert (Lv : length v = length (cog_masks c)) by apply process_outcome_v2_length.
      destruct (IH (vadd acc (vscale p (zvec v)))) as [w [E1 [E2 E3]]].
      + intros kp Hkp. apply Hk. right. exact Hkp.
      + rewrite vadd_length; [exact Hl|]. rewrite vscale_length, zvec_length. lia.
      + exists w. split; [exact E1|]. split; [exact E2|]. intros n Hn.
        rewrite (E3 n Hn). cbn [map fst snd]. rewrite Qsum_cons.
        rewrite vadd_nth by (rewrite vscale_length, zvec_length; lia).
        rewrite vscale_nth, zvec_nth.
        unfold v. rewrite process_outcome_v2_nth by exact Hn.
        rewrite parity_high_v1, parity_on_v1.
        fold (outcome_value_v1 (num_meas_bits c) (nth n (cog_masks c) 0%N) (den k)).
        ring.
  Qed.

  Lemma exp_v2_spec c w : forall shots acc,
    length acc = length (cog_masks c) ->
    length (exp_v2 c w shots acc) = length (cog_masks c) /\
    forall n, (n < length (cog_masks c))%nat ->
      nth n (exp_v2 c w shots acc) 0 == nth n acc 0
        + Qsum (map (fun s => w * inject_Z (outcome_value_v2 (nth n (cog_masks c) 0%N) (bytes_value (fst s)) (bytes_value (snd s)))) shots).
  Proof.
    induction shots as [|[ob qp] r IH]; intros acc Hl.
    - split; [exact Hl|]. intros n _. cbn. ring.
    - cbn [exp_v2].
      set (v := process_outcome_v2 (cog_masks c) _ _).
      assert (Lv : length v = length (cog_masks c)) by apply process_outcome_v2_length.
      destruct (IH (vadd acc (vscale w (zvec v)))) as [E2 E3].
      + rewrite vadd_length; [exact Hl|]. rewrite vscale_length, zvec_length. lia.
      + split; [exact E2|]. intros n Hn.
        rewrite (E3 n Hn). cbn [map fst snd]. rewrite Qsum_cons.
        rewrite vadd_nth by (rewrite vscale_length, zvec_length; lia).
        rewrite vscale_nth, zvec_nth. unfold v.
        rewrite process_outcome_v2_nth by exact Hn.
        rewrite !from_bytes_big_spec, parity_all_spec, parity_on_v2.
        fold (outcome_value_v2 (nth n (cog_masks c) 0%N) (bytes_value ob) (bytes_value qp)).
        ring.
  Qed.

  Definition keys_ok (d : pdata) : Prop :=
    forall k, In k (keys_of d) -> outcome_to_int pyint0 k = Some (den k).

  Lemma experiment_spec d idx c : keys_ok d ->
    exists v, experiment pyint0 d idx c = Ok v /\ length v = length (cog_masks c) /\
      forall n, (n < length (cog_masks c))%nat -> nth n v 0 == E_exp den c n d idx.
  Proof.
    intros K. destruct d as [qds|pubs]; cbn [experiment E_exp].
    - destruct (exp_v1_spec c (nth idx qds []) (zeros (length (cog_masks c)))) as [v [E1 [E2 E3]]].
      + intros kp Hkp. apply K. cbn [keys_of]. apply in_map. apply in_concat.
        exists (nth idx qds []). split; [|exact Hkp].
        destruct (Nat.lt_ge_cases idx (length qds)) as [L|G].
        * apply nth_In, L.
        * rewrite nth_overflow in Hkp by exact G. destruct Hkp.
      + apply zeros_length.
      + exists v. split; [exact E1|]. split; [exact E2|]. intros n Hn.
        rewrite (E3 n Hn), zeros_nth. ring.
    - eexists. split; [reflexivity|].
      destruct (exp_v2_spec c (1 / Qnat (length (nth idx pubs []))) (nth idx pubs []) (zeros (length (cog_masks c))))
        as [E2 E3]; [apply zeros_length|].
      split; [exact E2|]. intros n Hn. rewrite (E3 n Hn), zeros_nth. ring.
  Qed.

  (* mapM over a list on which f always succeeds *)
  Lemma mapM_spec {A B} (f : A -> res B) (P : A -> B -> Prop) l :
    (forall x, In x l -> exists y, f x = Ok y /\ P x y) ->
    exists ys, mapM f l = Ok ys /\ Forall2 P l ys.
  Proof.
    induction l as [|x r IH]; intros H.
    - exists []. split; [reflexivity|constructor].
    - destruct (H x (or_introl eq_refl)) as [y [Hy Py]].
      destruct IH as [ys [Hys Pys]]; [intros z Hz; apply H; right; exact Hz|].
      exists (y :: ys). cbn [mapM]. rewrite Hy, Hys. split; [reflexivity|]. constructor; assumption.
  Qed.

  Lemma Forall2_nth_both {A B} (P : A -> B -> Prop) l ys da db :
    Forall2 P l ys -> length l = length ys /\
      forall m, (m < length l)%nat -> P (nth m l da) (nth m ys db).
  Proof.
    induction 1 as [|x y l ys Pxy F IH]; [split; [reflexivity|intros m Hm; cbn in Hm; lia]|].
    destruct IH as [L N]. split; [cbn; lia|]. intros [|m] Hm; cbn [nth]; [exact Pxy|].
    apply N. cbn in Hm. lia.
  Qed.

  Lemma enumerate_nth {A} (l : list A) m d : (m < length l)%nat ->
    nth m (enumerate l) (0%nat, d) = (m, nth m l d).
  Proof.
    intros H. unfold enumerate. rewrite combine_nth by apply seq_length.
    rewrite seq_nth by exact H. reflexivity.
  Qed.

  Lemma enumerate_length {A} (l : list A) : length (enumerate l) = length l.
  Proof. unfold enumerate. rewrite combine_length, seq_length. lia. Qed.

  Lemma part_factors_spec i p d : keys_ok d -> locs_ok p ->
    exists f, part_factors pyint0 i p d = Ok f /\ length f = length (plookup p) /\
      forall k, (k < length (plookup p))%nat -> nth k f 0 == E den (p, d) i k.
  Proof.
    intros K LO. unfold part_factors, subsystem_expvals.
    destruct (mapM_spec
                (fun kc => experiment pyint0 d (i * length (pgroups p) + fst kc) (snd kc))
                (fun kc v => length v = length (cog_masks (snd kc)) /\
                   forall n, (n < length (cog_masks (snd kc)))%nat ->
                     nth n v 0 == E_exp den (snd kc) n d (i * length (pgroups p) + fst kc))
                (enumerate (pgroups p))) as [sub [Hs Fs]].
    { intros kc _. destruct (experiment_spec d (i * length (pgroups p) + fst kc) (snd kc) K) as [v [E1 E2]].
      exists v. split; [exact E1|exact E2]. }
    rewrite Hs. eexists. split; [reflexivity|]. split; [apply map_length|].
    intros k Hk.
    rewrite (nth_map_lt _ (plookup p) k []) by exact Hk.
    unfold E. cbn [fst snd]. apply Qmean_ext_in. intros [m n] Hmn. cbn [fst snd].
    destruct (LO (nth k (plookup p) []) m n (nth_In _ _ Hk) Hmn) as [Hm Hn].
    destruct (Forall2_nth_both _ _ _ (0%nat, dcog) [] Fs) as [_ Nth].
    specialize (Nth m). rewrite enumerate_length in Nth. specialize (Nth Hm).
    rewrite enumerate_nth in Nth by exact Hm. cbn [fst snd] in Nth.
    destruct Nth as [_ Nth]. apply Nth, Hn.
  Qed.

  Definition part_ok (nobs : nat) (pd : part * pdata) : Prop :=
    length (plookup (fst pd)) = nobs /\ locs_ok (fst pd) /\ keys_ok (snd pd).

  Lemma term_loop_spec nobs i : forall pds cur,
    Forall (part_ok nobs) pds -> length cur = nobs ->
    exists v, term_loop pyint0 i pds cur = Ok v /\ length v = nobs /\
      forall k, (k < nobs)%nat -> nth k v 0 == nth k cur 0 * Qprod (map (fun pd => E den pd i k) pds).
  Proof.
    induction pds as [|[p d] r IH]; intros cur F L.
    - exists cur. split; [reflexivity|]. split; [exact L|]. intros k _. cbn. ring.
    - inversion F as [|? ? [P1 [P2 P3]] F']; subst. cbn [fst snd] in *.
      destruct (part_factors_spec i p d P3 P2) as [f [F1 [F2 F3]]].
      cbn [term_loop]. rewrite F1.
      destruct (IH (vmul cur f) F') as [v [V1 [V2 V3]]].
      + rewrite vmul_length; lia.
      + exists v. split; [exact V1|]. split; [exact V2|]. intros k Hk.
        rewrite (V3 k Hk), vmul_nth by lia. rewrite F3 by lia.
        cbn [map]. rewrite Qprod_cons. ring.
  Qed.

  Lemma coeff_loop_spec nobs pds : Forall (part_ok nobs) pds ->
    forall cs i expvals, length expvals = nobs ->
    exists v, coeff_loop pyint0 i cs pds expvals = Ok v /\ length v = nobs /\
      forall k, (k < nobs)%nat ->
        nth k v 0 == nth k expvals 0
          + Qsum (map (fun ic => snd ic * Qprod (map (fun pd => E den pd (fst ic) k) pds))
                      (combine (seq i (length cs)) cs)).
  Proof.
    intros F. induction cs as [|c r IH]; intros i expvals L.
    - exists expvals. split; [reflexivity|]. split; [exact L|]. intros k _. cbn. ring.
    - cbn [coeff_loop].
      destruct (term_loop_spec nobs i pds (ones (length expvals)) F) as [cur [C1 [C2 C3]]].
      { rewrite ones_length. exact L. }
      rewrite C1.
      destruct (IH (S i) (vadd expvals (vscale c cur))) as [v [V1 [V2 V3]]].
      + rewrite vadd_length; [exact L|]. rewrite vscale_length. lia.
      + exists v. split; [exact V1|]. split; [exact V2|]. intros k Hk.
        rewrite (V3 k Hk), vadd_nth by (rewrite vscale_length; lia).
        rewrite vscale_nth, (C3 k Hk), ones_nth by lia.
        cbn [length seq combine map fst snd]. rewrite Qsum_cons. ring.
  Qed.

  Lemma count_ok_existsb ncoeff pds :
    Forall (fun pd => data_len (snd pd) = (ncoeff * length (pgroups (fst pd)))%nat) pds ->
    existsb (count_bad ncoeff) pds = false.
  Proof.
    induction 1 as [|pd r H F IH]; [reflexivity|]. cbn [existsb]. rewrite IH.
    unfold count_bad. rewrite H, Nat.eqb_refl. reflexivity.
  Qed.

  Lemma reconstruct_parts_estimator nobs coeffs pds :
    Forall (fun pd => data_len (snd pd) = (length coeffs * length (pgroups (fst pd)))%nat) pds ->
    Forall (part_ok nobs) pds ->
    res_Qeq (reconstruct_parts pyint0 nobs coeffs pds)
            (Ok (map (estimator den coeffs pds) (seq 0 nobs))).
  Proof.
    intros C F. unfold reconstruct_parts. rewrite (count_ok_existsb _ _ C).
    destruct (coeff_loop_spec nobs pds F coeffs 0%nat (zeros nobs) (zeros_length nobs)) as [v [V1 [V2 V3]]].
    rewrite V1. cbn [res_Qeq]. apply Forall2_of_nth; [exact V2|]. intros k Hk.
    rewrite (V3 k Hk), zeros_nth. unfold estimator, enumerate. ring.
  Qed.
End Estimator.

(* ------------------------------------------------------------------------------------------ *)
(* F. refusals, V1 = V2, equivalent keys, the public wrapper                                   *)
(* ------------------------------------------------------------------------------------------ *)
Local Close Scope Q_scope.

Section Wrapper.
  Variable pyint0 : list ascii -> option N.

  Lemma reconstruct_parts_count_refused nobs coeffs pds :
    (exists pd, In pd pds /\ data_len (snd pd) <> length coeffs * length (pgroups (fst pd))) ->
    reconstruct_parts pyint0 nobs coeffs pds = Refused.
  Proof.
    intros [pd [I H]]. unfold reconstruct_parts.
    replace (existsb (count_bad (length coeffs)) pds) with true; [reflexivity|].
    symmetry. apply existsb_exists. exists pd. split; [exact I|].
    unfold count_bad. apply negb_true_iff, Nat.eqb_neq, H.
  Qed.

  (* two data sets of a partition that yield the same experiment vectors *)
  Definition exp_equiv (p : part) (d d' : pdata) : Prop :=
    data_len d = data_len d' /\
    forall i k, k < length (pgroups p) ->
      experiment pyint0 d (i * length (pgroups p) + k) (nth k (pgroups p) dcog)
      = experiment pyint0 d' (i * length (pgroups p) + k) (nth k (pgroups p) dcog).

  Definition pd_equiv (pd pd' : part * pdata) : Prop :=
    fst pd = fst pd' /\ exp_equiv (fst pd) (snd pd) (snd pd').

  Lemma mapM_ext_in {A B} (f g : A -> res B) l : (forall x, In x l -> f x = g x) -> mapM f l = mapM g l.
  Proof.
    induction l as [|x r IH]; intros H; [reflexivity|]. cbn [mapM].
    rewrite (H x (or_introl eq_refl)), IH; [reflexivity|]. intros y Hy; apply H; right; exact Hy.
  Qed.

  Lemma enumerate_In {A} (l : list A) k x d : In (k, x) (enumerate l) -> k < length l /\ x = nth k l d.
  Proof.
    intros H. apply (In_nth _ _ (0, d)) in H as [m [Hm E]].
    rewrite enumerate_length in Hm. rewrite enumerate_nth in E by exact Hm.
    inversion E; subst. split; [exact Hm|reflexivity].
  Qed.

  Lemma part_factors_equiv i p d d' : exp_equiv p d d' ->
    part_factors pyint0 i p d = part_factors pyint0 i p d'.
  Proof.
    intros [_ H]. unfold part_factors, subsystem_expvals.
    rewrite (mapM_ext_in _ (fun kc => experiment pyint0 d' (i * length (pgroups p) + fst kc) (snd kc))); [reflexivity|].
    intros [k c] Hkc. cbn [fst snd]. destruct (enumerate_In _ _ _ dcog Hkc) as [Hk ->]. apply H, Hk.
  Qed.

  Lemma term_loop_equiv i pds pds' : Forall2 pd_equiv pds pds' ->
    forall cur, term_loop pyint0 i pds cur = term_loop pyint0 i pds' cur.
  Proof.
    induction 1 as [|[p d] [p' d'] r r' [E1 E2] F IH]; intros cur; [reflexivity|].
    cbn [fst snd] in *. subst p'. cbn [term_loop]. rewrite (part_factors_equiv i p d d' E2).
    destruct (part_factors pyint0 i p d'); try reflexivity. apply IH.
  Qed.

  Lemma coeff_loop_equiv pds pds' : Forall2 pd_equiv pds pds' ->
    forall cs i expvals, coeff_loop pyint0 i cs pds expvals = coeff_loop pyint0 i cs pds' expvals.
  Proof.
    intros F. induction cs as [|c r IH]; intros i expvals; [reflexivity|].
    cbn [coeff_loop]. rewrite (term_loop_equiv i pds pds' F).
    destruct (term_loop pyint0 i pds' _); try reflexivity. apply IH.
  Qed.

  Lemma count_bad_equiv n pds pds' : Forall2 pd_equiv pds pds' ->
    existsb (count_bad n) pds = existsb (count_bad n) pds'.
  Proof.
    induction 1 as [|[p d] [p' d'] r r' [E1 [E2 _]] F IH]; [reflexivity|].
    cbn [fst snd] in *. subst p'. cbn [existsb]. rewrite IH. unfold count_bad. cbn [fst snd].
    rewrite E2. reflexivity.
  Qed.

  Lemma reconstruct_parts_equiv nobs coeffs pds pds' : Forall2 pd_equiv pds pds' ->
    reconstruct_parts pyint0 nobs coeffs pds = reconstruct_parts pyint0 nobs coeffs pds'.
  Proof.
    intros F. unfold reconstruct_parts. rewrite (count_bad_equiv _ _ _ F).
    destruct (existsb _ pds'); [reflexivity|]. apply coeff_loop_equiv, F.
  Qed.

  (* ---- V1 = V2 ---- *)
  Lemma exp_pack_gen c w : forall shots acc,
    (forall s, In s shots -> (from_bytes_big (fst s) < 2 ^ N.of_nat (num_meas_bits c))%N) ->
    exp_v1 pyint0 c
      (map (fun s => (KInt (from_bytes_big (snd s) * 2 ^ N.of_nat (num_meas_bits c) + from_bytes_big (fst s))%N, w)) shots) acc
    = Ok (exp_v2 c w shots acc).
  Proof.
    induction shots as [|[ob qp] r IH]; intros acc H; [reflexivity|].
    cbn [map exp_v1 exp_v2 fst snd]. unfold process_outcome. cbn [outcome_to_int].
    destruct (split_pack (N.of_nat (num_meas_bits c)) (from_bytes_big ob) (from_bytes_big qp)) as [S1 S2].
    { apply (H (ob, qp)). left. reflexivity. }
    rewrite S1, S2. apply IH. intros s Hs. apply H. right. exact Hs.
  Qed.

  Lemma exp_equiv_pack p d : obs_in_range p d -> exp_equiv p (pack p d) d.
  Proof.
    intros R. destruct d as [q|pubs]; [split; reflexivity|].
    split.
    - cbn [pack data_len]. rewrite map_length, enumerate_length. reflexivity.
    - intros i k Hk. cbn [pack experiment].
      set (G := length (pgroups p)) in *. set (idx := i * G + k).
      assert (M : idx mod G = k).
      { unfold idx. rewrite Nat.add_comm, Nat.mod_add by lia. apply Nat.mod_small, Hk. }
      destruct (Nat.lt_ge_cases idx (length pubs)) as [L|Ge].
      + rewrite (nth_map_lt _ (enumerate pubs) idx (0, [])) by (rewrite enumerate_length; exact L).
        rewrite enumerate_nth by exact L. cbn [fst snd]. rewrite M.
        unfold pack_shots. apply exp_pack_gen.
        intros s Hs. specialize (R idx s L Hs). cbn beta in R. fold G in R. rewrite M in R. exact R.
      + rewrite (nth_overflow pubs) by exact Ge.
        rewrite (nth_overflow (map _ (enumerate pubs))) by (rewrite map_length, enumerate_length; exact Ge).
        reflexivity.
  Qed.

  Definition pack_pd (pd : part * pdata) : part * pdata := (fst pd, pack (fst pd) (snd pd)).

  Lemma reconstruct_parts_pack nobs coeffs pds :
    Forall (fun pd => obs_in_range (fst pd) (snd pd)) pds ->
    reconstruct_parts pyint0 nobs coeffs (map pack_pd pds) = reconstruct_parts pyint0 nobs coeffs pds.
  Proof.
    intros F. apply reconstruct_parts_equiv.
    induction F as [|pd r H F IH]; [constructor|]. cbn [map]. constructor; [|exact IH].
    split; [reflexivity|]. cbn [pack_pd fst snd]. apply exp_equiv_pack, H.
  Qed.

  (* ---- equivalent keys ---- *)
  Lemma exp_v1_keys c qd qd' : Forall2 (kp_equiv pyint0) qd qd' ->
    forall acc, exp_v1 pyint0 c qd acc = exp_v1 pyint0 c qd' acc.
  Proof.
    induction 1 as [|[k p] [k' p'] r r' [E1 E2] F IH]; intros acc; [reflexivity|].
    cbn [fst snd] in *. subst p'. cbn [exp_v1]. rewrite (process_outcome_key pyint0 c k k' E1).
    destruct (process_outcome pyint0 c k'); try reflexivity. apply IH.
  Qed.

  Lemma Forall2_nth_default {A} (P : A -> A -> Prop) (l l' : list A) d : P d d -> Forall2 P l l' ->
    forall n, P (nth n l d) (nth n l' d).
  Proof.
    intros Pd. induction 1 as [|x y r r' Pxy F IH]; intros [|n]; cbn [nth]; auto.
  Qed.

  Lemma exp_equiv_keys p d d' : data_equiv pyint0 d d' -> exp_equiv p d d'.
  Proof.
    destruct d as [q|pb], d' as [q'|pb']; cbn [data_equiv]; intros H; try contradiction.
    - split.
      + cbn [data_len]. destruct (Forall2_nth_both _ _ _ [] [] H) as [L _]. exact L.
      + intros i k _. cbn [experiment]. apply exp_v1_keys.
        apply Forall2_nth_default; [constructor|exact H].
    - subst pb'. split; reflexivity.
  Qed.

  Lemma reconstruct_parts_keys nobs coeffs pds pds' :
    Forall2 (fun pd pd' => fst pd = fst pd' /\ data_equiv pyint0 (snd pd) (snd pd')) pds pds' ->
    reconstruct_parts pyint0 nobs coeffs pds = reconstruct_parts pyint0 nobs coeffs pds'.
  Proof.
    intros F. apply reconstruct_parts_equiv.
    induction F as [|pd pd' r r' [E1 E2] F IH]; constructor; [|exact IH].
    split; [exact E1|]. apply exp_equiv_keys, E2.
  Qed.

  (* ---- the public wrapper ---- *)
  Lemma same_keys_false a b :
    (exists l, In l a /\ ~ In l b) \/ (exists l, In l b /\ ~ In l a) -> same_keys a b = false.
  Proof.
    assert (G : forall a b, (exists l, In l a /\ ~ In l b) ->
                 forallb (fun x => existsb (Nat.eqb x) b) a = false).
    { clear. intros a b [l [I NI]]. destruct (forallb _ a) eqn:E; [|reflexivity]. exfalso.
      rewrite forallb_forall in E. specialize (E l I). apply existsb_exists in E as [y [Hy Ey]].
      apply Nat.eqb_eq in Ey. subst y. contradiction. }
    intros [H|H]; unfold same_keys; rewrite (G _ _ H); [reflexivity|apply andb_false_r].
  Qed.

  Lemma phases_bad_true ph : (exists x, In x ph /\ x <> 0) -> phases_bad ph = true.
  Proof.
    intros [x [I NZ]]. apply existsb_exists. exists x. split; [exact I|].
    apply negb_true_iff, Nat.eqb_neq, NZ.
  Qed.

  Lemma phases_bad_false ph : (forall x, In x ph -> x = 0) -> phases_bad ph = false.
  Proof.
    intros H. unfold phases_bad. destruct (existsb _ ph) eqn:E; [|reflexivity].
    apply existsb_exists in E as [x [I B]]. rewrite (H x I) in B. discriminate.
  Qed.

  Lemma attach_spec m : forall ps,
    (forall p, In p ps -> In (plabel p) (map fst m)) ->
    exists pds, attach ps m = Some pds /\ map fst pds = ps /\
      forall pd, In pd pds -> assoc m (plabel (fst pd)) = Some (snd pd).
  Proof.
    assert (A : forall l, In l (map fst m) -> exists d, assoc m l = Some d).
    { induction m as [|[l' d'] r IH]; intros l H; [destruct H|]. cbn [assoc].
      destruct (Nat.eqb_spec l l') as [->|NE]; [eexists; reflexivity|].
      apply IH. destruct H as [H|H]; [cbn in H; congruence|exact H]. }
    induction ps as [|p r IH]; intros H.
    - exists []. repeat split. intros pd [].
    - destruct (A (plabel p) (H p (or_introl eq_refl))) as [d Hd].
      destruct IH as [pds [I1 [I2 I3]]]; [intros q Hq; apply H; right; exact Hq|].
      exists ((p, d) :: pds). cbn [attach]. rewrite Hd, I1. repeat split.
      + cbn [map fst]. rewrite I2. reflexivity.
      + intros pd [<-|Hpd]; [exact Hd|apply I3, Hpd].
  Qed.

  Lemma reconstruct_map_valid m coeffs p0 ps :
    (forall l, In l (map plabel (p0 :: ps)) <-> In l (map fst m)) ->
    (forall p x, In p (p0 :: ps) -> In x (pphases p) -> x = 0) ->
    exists pds, map fst pds = p0 :: ps /\
      (forall pd, In pd pds -> assoc m (plabel (fst pd)) = Some (snd pd)) /\
      reconstruct pyint0 (RMap m) coeffs (OMap (p0 :: ps))
      = reconstruct_parts pyint0 (length (plookup p0)) coeffs pds.
  Proof.
    intros K PH.
    destruct (attach_spec m (p0 :: ps)) as [pds [A1 [A2 A3]]].
    { intros p Hp. apply K. apply in_map, Hp. }
    exists pds. split; [exact A2|]. split; [exact A3|].
    unfold reconstruct.
    replace (same_keys (map plabel (p0 :: ps)) (map fst m)) with true.
    - cbn [negb].
      replace (existsb (fun p => phases_bad (pphases p)) (p0 :: ps)) with false.
      + rewrite A1. reflexivity.
      + symmetry. destruct (existsb _ (p0 :: ps)) eqn:E; [|reflexivity].
        apply existsb_exists in E as [p [Hp B]].
        rewrite phases_bad_false in B; [discriminate|]. intros x Hx. apply (PH p x Hp Hx).
    - symmetry. unfold same_keys. apply andb_true_intro. split; apply forallb_forall; intros l Hl;
        apply existsb_exists; exists l; (split; [apply K, Hl|apply Nat.eqb_refl]).
  Qed.
End Wrapper.

Section PublicRefusals.
  Variable pyint0 : list ascii -> option N.

  Lemma reconstruct_types_refused coeffs :
    (forall p m, reconstruct pyint0 (RMap m) coeffs (OList p) = Refused) /\
    (forall p, reconstruct pyint0 ROther coeffs (OList p) = Refused) /\
    (forall ps d, reconstruct pyint0 (RLeaf d) coeffs (OMap ps) = Refused) /\
    (forall ps, reconstruct pyint0 ROther coeffs (OMap ps) = Refused) /\
    (forall r, reconstruct pyint0 r coeffs OOther = Refused).
  Proof. repeat split; reflexivity. Qed.

  Lemma reconstruct_keyset_refused coeffs ps m :
    (exists l, In l (map plabel ps) /\ ~ In l (map fst m)) \/
    (exists l, In l (map fst m) /\ ~ In l (map plabel ps)) ->
    reconstruct pyint0 (RMap m) coeffs (OMap ps) = Refused.
  Proof. intros H. unfold reconstruct. rewrite (same_keys_false _ _ H). reflexivity. Qed.

  Lemma reconstruct_phase_refused coeffs :
    (forall p d, (exists x, In x (pphases p) /\ x <> 0) ->
       reconstruct pyint0 (RLeaf d) coeffs (OList p) = Refused) /\
    (forall ps m, (exists p x, In p ps /\ In x (pphases p) /\ x <> 0) ->
       reconstruct pyint0 (RMap m) coeffs (OMap ps) = Refused).
  Proof.
    split.
    - intros p d H. unfold reconstruct. rewrite (phases_bad_true _ H). reflexivity.
    - intros ps m [p [x [Hp [Hx NZ]]]]. unfold reconstruct.
      destruct (negb (same_keys _ _)); [reflexivity|].
      replace (existsb (fun p => phases_bad (pphases p)) ps) with true; [reflexivity|].
      symmetry. apply existsb_exists. exists p. split; [exact Hp|].
      apply phases_bad_true. exists x. split; assumption.
  Qed.

  Lemma reconstruct_list_valid coeffs p d : (forall x, In x (pphases p) -> x = 0) ->
    reconstruct pyint0 (RLeaf d) coeffs (OList p)
    = reconstruct_parts pyint0 (length (plookup p)) coeffs [(p, d)].
  Proof. intros H. unfold reconstruct. rewrite (phases_bad_false _ H). reflexivity. Qed.
End PublicRefusals.

(* the estimator theorem with its hypotheses spelled out *)
Lemma estimator_full pyint0 den nobs coeffs pds :
  (forall pd, In pd pds -> data_len (snd pd) = length coeffs * length (pgroups (fst pd))) ->
  (forall pd, In pd pds -> length (plookup (fst pd)) = nobs /\ locs_ok (fst pd)) ->
  (forall pd k, In pd pds -> In k (keys_of (snd pd)) -> outcome_to_int pyint0 k = Some (den k)) ->
  res_Qeq (reconstruct_parts pyint0 nobs coeffs pds)
          (Ok (map (estimator den coeffs pds) (seq 0 nobs))).
Proof.
  intros H1 H2 H3. apply reconstruct_parts_estimator.
  - apply Forall_forall. exact H1.
  - apply Forall_forall. intros pd Hpd. destruct (H2 pd Hpd) as [A B].
    split; [exact A|]. split; [exact B|]. intros k Hk. apply (H3 pd k Hpd Hk).
Qed.

Lemma v1_v2_full pyint0 nobs coeffs pds :
  (forall pd, In pd pds -> obs_in_range (fst pd) (snd pd)) ->
  reconstruct_parts pyint0 nobs coeffs (map (fun pd => (fst pd, pack (fst pd) (snd pd))) pds)
  = reconstruct_parts pyint0 nobs coeffs pds.
Proof. intros H. apply (reconstruct_parts_pack pyint0). apply Forall_forall. exact H. Qed.

Lemma keys_full pyint0 : pyint0_contract pyint0 ->
  (forall n, outcome_to_int pyint0 (KInt n) = Some n) /\
  (forall s, key_chars s <> [] -> forallb (digit_ok 2) (key_chars s) = true ->
     outcome_to_int pyint0 (KStr s) = Some (radix_value 2 (key_chars s))) /\
  (forall s c ds, c = "b"%char \/ c = "B"%char -> key_chars s = "0"%char :: c :: ds -> ds <> [] ->
     forallb (digit_ok 2) ds = true -> outcome_to_int pyint0 (KStr s) = Some (radix_value 2 ds)) /\
  (forall s c hs, c = "x"%char \/ c = "X"%char -> key_chars s = "0"%char :: c :: hs -> hs <> [] ->
     forallb (digit_ok 16) hs = true -> outcome_to_int pyint0 (KStr s) = Some (radix_value 16 hs)).
Proof.
  intros C. split; [reflexivity|]. split; [apply key_binary, C|]. split; [apply key_0b, C|apply key_0x, C].
Qed.

(* ------------------------------------------------------------------------------------------ *)
(* G. masks and lookup from Pauli letters                                                      *)
(* ------------------------------------------------------------------------------------------ *)

Lemma pauli_indices_from_spec g : forall i,
  pauli_indices_from i g = filter (fun q => acts_on g (q - i)) (seq i (length g)).
Proof.
  induction g as [|l r IH]; intros i; [reflexivity|].
  cbn [pauli_indices_from length seq filter]. rewrite Nat.sub_diag. unfold acts_on at 1. cbn [nth].
  rewrite (IH (S i)).
  assert (E : filter (fun q => acts_on r (q - S i)) (seq (S i) (length r))
            = filter (fun q => acts_on (l :: r) (q - i)) (seq (S i) (length r))).
  { apply filter_ext_in. intros q Hq. apply in_seq in Hq. unfold acts_on.
    replace (q - i) with (S (q - S i)) by lia. reflexivity. }
  rewrite E. destruct (l =? 0); reflexivity.
Qed.

(* the measured qubits are exactly the qubits on which the general observable acts, ascending *)
Lemma pauli_indices_of_spec g :
  pauli_indices_of g = filter (acts_on g) (seq 0 (length g)).
Proof.
  unfold pauli_indices_of. rewrite pauli_indices_from_spec. apply filter_ext. intros q.
  rewrite Nat.sub_0_r. reflexivity.
Qed.

Lemma bit_shiftl1 i j : bit (N.shiftl 1 (N.of_nat i)) j = (j =? i).
Proof.
  unfold bit. rewrite N.shiftl_1_l, N.pow2_bits_eqb.
  destruct (Nat.eqb_spec j i) as [->|NE]; [apply N.eqb_refl|]. apply N.eqb_neq. lia.
Qed.

Lemma bitmask_from_bit member : forall idx i v j,
  bit (bitmask_from i idx member v) j
  = bit v j || ((i <=? j) && (j - i <? length idx) && acts_on member (nth (j - i) idx 0)).
Proof.
  induction idx as [|q r IH]; intros i v j.
  - cbn [bitmask_from length]. rewrite Nat.ltb_irrefl || idtac.
    replace (j - i <? 0) with false by (symmetry; apply Nat.ltb_ge; lia).
    rewrite andb_false_r. cbn [andb]. rewrite orb_false_r. reflexivity.
  - cbn [bitmask_from]. rewrite IH. cbn [length].
    assert (V : bit (if nth q member 0 =? 0 then v else N.lor v (N.shiftl 1 (N.of_nat i))) j
                = bit v j || (acts_on member q && (j =? i))).
    { unfold acts_on. destruct (nth q member 0 =? 0); cbn [negb andb].
      - rewrite orb_false_r. reflexivity.
      - unfold bit at 1. rewrite N.lor_spec. fold (bit v j). fold (bit (N.shiftl 1 (N.of_nat i)) j).
        rewrite bit_shiftl1. reflexivity. }
    rewrite V. clear V.
    destruct (Nat.eqb_spec j i) as [->|NE].
    + rewrite Nat.sub_diag. cbn [nth].
      replace (S i <=? i) with false by (symmetry; apply Nat.leb_gt; lia).
      rewrite Nat.leb_refl. cbn [andb]. rewrite andb_true_r, orb_false_r. reflexivity.
    + rewrite andb_false_r, orb_false_r.
      destruct (Nat.leb_spec (S i) j) as [L|G].
      * replace (i <=? j) with true by (symmetry; apply Nat.leb_le; lia).
        replace (j - i) with (S (j - S i)) by lia. cbn [nth andb].
        replace (S (j - S i) <? S (length r)) with (j - S i <? length r); [reflexivity|].
        destruct (Nat.ltb_spec (j - S i) (length r)), (Nat.ltb_spec (S (j - S i)) (S (length r))); try reflexivity; lia.
      * cbn [andb]. replace (i <=? j) with false by (symmetry; apply Nat.leb_gt; lia). reflexivity.
Qed.

(* bit j of the mask is set iff j indexes a measured qubit on which the observable acts *)
Lemma bitmask_of_bit idx member j :
  bit (bitmask_of idx member) j = (j <? length idx) && acts_on member (nth j idx 0).
Proof.
  unfold bitmask_of. rewrite bitmask_from_bit. unfold bit at 1. rewrite N.bits_0.
  cbn [orb Nat.leb andb]. rewrite Nat.sub_0_r. reflexivity.
Qed.

Lemma lookup_in_group_spec p m : forall members n0 a b,
  In (a, b) (lookup_in_group m n0 members p) <->
  a = m /\ n0 <= b /\ exists x, nth_error members (b - n0) = Some x /\ letters_eqb x p = true.
Proof.
  induction members as [|x r IH]; intros n0 a b; cbn [lookup_in_group].
  - split; [intros []|]. intros [_ [_ [y [H _]]]]. destruct (b - n0); discriminate.
  - assert (R : In (a, b) (lookup_in_group m (S n0) r p) <->
              a = m /\ S n0 <= b /\ exists y, nth_error (x :: r) (b - n0) = Some y /\ letters_eqb y p = true).
    { rewrite IH. split; intros [A [B [y [C D]]]]; (split; [exact A|]); (split; [exact B|]); exists y; (split; [|exact D]).
      - replace (b - n0) with (S (b - S n0)) by lia. exact C.
      - replace (b - n0) with (S (b - S n0)) in C by lia. exact C. }
    destruct (letters_eqb x p) eqn:E.
    + cbn [In]. rewrite R. split.
      * intros [H|[A [B C]]].
        -- inversion H; subst. split; [reflexivity|]. split; [lia|]. exists x. rewrite Nat.sub_diag. split; [reflexivity|exact E].
        -- split; [exact A|]. split; [lia|exact C].
      * intros [A [B [y [C D]]]]. destruct (Nat.eq_dec b n0) as [->|NE]; [left; subst; reflexivity|].
        right. split; [exact A|]. split; [lia|]. exists y. split; assumption.
    + rewrite R. split.
      * intros [A [B C]]. split; [exact A|]. split; [lia|exact C].
      * intros [A [B [y [C D]]]]. destruct (Nat.eq_dec b n0) as [->|NE].
        -- rewrite Nat.sub_diag in C. cbn in C. inversion C; subst. congruence.
        -- split; [exact A|]. split; [lia|]. exists y. split; assumption.
Qed.

Lemma lookup_from_spec p : forall groups m0 a b,
  In (a, b) (lookup_from m0 groups p) <->
  m0 <= a /\ exists g x, nth_error groups (a - m0) = Some g /\ nth_error (snd g) b = Some x /\ letters_eqb x p = true.
Proof.
  induction groups as [|g r IH]; intros m0 a b; cbn [lookup_from].
  - split; [intros []|]. intros [_ [g [x [H _]]]]. destruct (a - m0); discriminate.
  - rewrite in_app_iff, lookup_in_group_spec, IH. split.
    + intros [[A [_ [x [C D]]]]|[A [g' [x [B [C D]]]]]].
      * subst a. split; [lia|]. exists g, x. rewrite Nat.sub_diag, Nat.sub_0_r in *. repeat split; assumption.
      * split; [lia|]. exists g', x. replace (a - m0) with (S (a - S m0)) by lia. repeat split; assumption.
    + intros [A [g' [x [B [C D]]]]]. destruct (Nat.eq_dec a m0) as [->|NE].
      * left. rewrite Nat.sub_diag in B. cbn in B. inversion B; subst g'.
        split; [reflexivity|]. split; [lia|]. exists x. rewrite Nat.sub_0_r. split; assumption.
      * right. split; [lia|]. exists g', x. replace (a - m0) with (S (a - S m0)) in B by lia.
        repeat split; assumption.
Qed.

(* the lookup of P lists exactly the (group, member) positions that hold P *)
Lemma lookup_of_spec groups p a b :
  In (a, b) (lookup_of groups p) <->
  exists g x, nth_error groups a = Some g /\ nth_error (snd g) b = Some x /\ letters_eqb x p = true.
Proof.
  unfold lookup_of. rewrite lookup_from_spec, Nat.sub_0_r. split; [intros [_ H]; exact H|]. intros H. split; [lia|exact H].
Qed.

(* partitions built from letters satisfy the shape hypotheses of the estimator theorem *)
Lemma part_of_letters_ok label phases groups subobs :
  length (plookup (part_of_letters label phases groups subobs)) = length subobs /\
  locs_ok (part_of_letters label phases groups subobs).
Proof.
  split; [apply map_length|].
  intros locs m n HL HM. cbn [part_of_letters plookup pgroups] in *.
  apply in_map_iff in HL as [p [<- _]]. apply lookup_of_spec in HM as [g [x [G [X _]]]].
  assert (Lm : m < length groups) by (apply nth_error_Some; congruence).
  split; [rewrite map_length; exact Lm|].
  rewrite (nth_map_lt cog_of_letters groups m (([], []) : lgroup)) by exact Lm.
  rewrite (nth_error_nth groups m _ G). unfold cog_of_letters, cog_masks. cbn [snd].
  rewrite map_length. apply nth_error_Some. congruence.
Qed.

(* ------------------------------------------------------------------------------------------ *)
(* H. totality: the loops never crash, and refuse only for a count mismatch or a bad key       *)
(* ------------------------------------------------------------------------------------------ *)
Section Total.
  Variable pyint0 : list ascii -> option N.

  Definition bad_key (d : pdata) : Prop := exists k, In k (keys_of d) /\ outcome_to_int pyint0 k = None.
  Definition ok_or_badkey {A} (r : res A) (d : pdata) : Prop :=
    (exists v, r = Ok v) \/ (r = Refused /\ bad_key d).

  Lemma exp_v1_total c : forall qd acc,
    (exists v, exp_v1 pyint0 c qd acc = Ok v) \/
    (exp_v1 pyint0 c qd acc = Refused /\ exists kp, In kp qd /\ outcome_to_int pyint0 (fst kp) = None).
  Proof.
    induction qd as [|[k p] r IH]; intros acc; [left; eexists; reflexivity|].
    cbn [exp_v1]. unfold process_outcome. destruct (outcome_to_int pyint0 k) eqn:E.
    - destruct (IH (vadd acc (vscale p (zvec (process_outcome_v2 (cog_masks c)
                  (N.land n (N.ones (N.of_nat (num_meas_bits c)))) (N.shiftr n (N.of_nat (num_meas_bits c))))))))
        as [H|[H [kp [I B]]]]; [left; exact H|].
      right. split; [exact H|]. exists kp. split; [right; exact I|exact B].
    - right. split; [reflexivity|]. exists (k, p). split; [left; reflexivity|exact E].
  Qed.

  Lemma experiment_total d idx c : ok_or_badkey (experiment pyint0 d idx c) d.
  Proof.
    destruct d as [qds|pubs]; cbn [experiment]; [|left; eexists; reflexivity].
    destruct (exp_v1_total c (nth idx qds []) (zeros (length (cog_masks c)))) as [H|[H [kp [I B]]]]; [left; exact H|].
    right. split; [exact H|]. exists (fst kp). split; [|exact B]. cbn [keys_of]. apply in_map, in_concat.
    exists (nth idx qds []). split; [|exact I].
    destruct (Nat.lt_ge_cases idx (length qds)) as [L|G]; [apply nth_In, L|].
    rewrite nth_overflow in I by exact G. destruct I.
  Qed.

  Lemma mapM_total {X Y} (f : X -> res Y) d l :
    (forall x, ok_or_badkey (f x) d) -> ok_or_badkey (mapM f l) d.
  Proof.
    intros H. induction l as [|x r IH]; [left; eexists; reflexivity|]. cbn [mapM].
    destruct (H x) as [[y ->]|[-> B]]; [|right; split; [reflexivity|exact B]].
    destruct IH as [[ys ->]|[-> B]]; [left; eexists; reflexivity|right; split; [reflexivity|exact B]].
  Qed.

  Lemma part_factors_total i p d : ok_or_badkey (part_factors pyint0 i p d) d.
  Proof.
    unfold part_factors, subsystem_expvals.
    destruct (mapM_total (fun kc => experiment pyint0 d (i * length (pgroups p) + fst kc) (snd kc)) d
                (enumerate (pgroups p)) (fun kc => experiment_total d _ _)) as [[v ->]|[-> B]];
      [left; eexists; reflexivity|right; split; [reflexivity|exact B]].
  Qed.

  Definition ok_or_somebad {A} (r : res A) (pds : list (part * pdata)) : Prop :=
    (exists v, r = Ok v) \/ (r = Refused /\ exists pd, In pd pds /\ bad_key (snd pd)).

  Lemma term_loop_total i : forall pds cur, ok_or_somebad (term_loop pyint0 i pds cur) pds.
  Proof.
    induction pds as [|[p d] r IH]; intros cur; [left; eexists; reflexivity|]. cbn [term_loop].
    destruct (part_factors_total i p d) as [[f ->]|[-> B]].
    - destruct (IH (vmul cur f)) as [H|[H [pd [I B]]]]; [left; exact H|].
      right. split; [exact H|]. exists pd. split; [right; exact I|exact B].
    - right. split; [reflexivity|]. exists (p, d). split; [left; reflexivity|exact B].
  Qed.

  Lemma coeff_loop_total pds : forall cs i expvals, ok_or_somebad (coeff_loop pyint0 i cs pds expvals) pds.
  Proof.
    induction cs as [|c r IH]; intros i expvals; [left; eexists; reflexivity|]. cbn [coeff_loop].
    destruct (term_loop_total i pds (ones (length expvals))) as [[cur ->]|[-> B]]; [apply IH|].
    right. split; [reflexivity|exact B].
  Qed.

  Lemma reconstruct_parts_total nobs coeffs pds :
    (exists v, reconstruct_parts pyint0 nobs coeffs pds = Ok v) \/
    (reconstruct_parts pyint0 nobs coeffs pds = Refused /\
       ((exists pd, In pd pds /\ data_len (snd pd) <> length coeffs * length (pgroups (fst pd))) \/
        (exists pd k, In pd pds /\ In k (keys_of (snd pd)) /\ outcome_to_int pyint0 k = None))).
  Proof.
    unfold reconstruct_parts. destruct (existsb (count_bad (length coeffs)) pds) eqn:E.
    - right. split; [reflexivity|]. left. apply existsb_exists in E as [pd [I B]]. exists pd. split; [exact I|].
      unfold count_bad in B. apply negb_true_iff, Nat.eqb_neq in B. exact B.
    - destruct (coeff_loop_total pds coeffs 0 (zeros nobs)) as [H|[H [pd [I [k [K1 K2]]]]]]; [left; exact H|].
      right. split; [exact H|]. right. exists pd, k. repeat split; assumption.
  Qed.
End Total.

(* ------------------------------------------------------------------------------------------ *)
(* I. extension round: executable parser, per-pub shot count, the public wrapper               *)
(* ------------------------------------------------------------------------------------------ *)

(* the integer a key denotes under the executable parser (0 for a rejected key) *)
Definition ref_den (k : key) : N :=
  match outcome_to_int pyint0_ref k with Some n => n | None => 0%N end.

Lemma ref_den_ok k : outcome_to_int pyint0_ref k <> None -> outcome_to_int pyint0_ref k = Some (ref_den k).
Proof. unfold ref_den. destruct (outcome_to_int pyint0_ref k); [reflexivity|congruence]. Qed.

(* no oracle, no contract hypothesis: the three key syntaxes under the executable parser *)
Lemma keys_parser :
  (forall n, outcome_to_int pyint0_ref (KInt n) = Some n) /\
  (forall s, key_chars s <> [] -> forallb (digit_ok 2) (key_chars s) = true ->
     outcome_to_int pyint0_ref (KStr s) = Some (radix_value 2 (key_chars s))) /\
  (forall s c ds, c = "b"%char \/ c = "B"%char -> key_chars s = "0"%char :: c :: ds -> ds <> [] ->
     forallb (digit_ok 2) ds = true -> outcome_to_int pyint0_ref (KStr s) = Some (radix_value 2 ds)) /\
  (forall s c hs, c = "x"%char \/ c = "X"%char -> key_chars s = "0"%char :: c :: hs -> hs <> [] ->
     forallb (digit_ok 16) hs = true -> outcome_to_int pyint0_ref (KStr s) = Some (radix_value 16 hs)).
Proof. exact (keys_full pyint0_ref pyint0_ref_contract). Qed.

Lemma estimator_parser nobs coeffs pds :
  (forall pd, In pd pds -> data_len (snd pd) = length coeffs * length (pgroups (fst pd))) ->
  (forall pd, In pd pds -> length (plookup (fst pd)) = nobs /\ locs_ok (fst pd)) ->
  (forall pd k, In pd pds -> In k (keys_of (snd pd)) -> outcome_to_int pyint0_ref k <> None) ->
  res_Qeq (reconstruct_parts pyint0_ref nobs coeffs pds)
          (Ok (map (estimator ref_den coeffs pds) (seq 0 nobs))).
Proof.
  intros H1 H2 H3. apply estimator_full; [exact H1|exact H2|].
  intros pd k Hpd Hk. apply ref_den_ok, (H3 pd k Hpd Hk).
Qed.

Local Open Scope Q_scope.

Lemma Qsum_scale {A} (a : Q) (f : A -> Q) l : Qsum (map (fun x => a * f x) l) == a * Qsum (map f l).
Proof.
  induction l as [|x r IH]; cbn [map]; [cbn; ring|]. rewrite !Qsum_cons, IH. ring.
Qed.

(* the V2 average is taken with the shot count of THAT pub *)
Lemma E_exp_v2_average den c n pubs idx :
  E_exp den c n (DV2 pubs) idx
  == Qsum (map (fun s => inject_Z (outcome_value_v2 (nth n (cog_masks c) 0%N) (bytes_value (fst s)) (bytes_value (snd s))))
               (nth idx pubs []))
     / Qnat (length (nth idx pubs [])).
Proof.
  cbn [E_exp].
  rewrite (Qsum_scale (1 / Qnat (length (nth idx pubs [])))
             (fun s => inject_Z (outcome_value_v2 (nth n (cog_masks c) 0%N) (bytes_value (fst s)) (bytes_value (snd s))))).
  unfold Qdiv. ring.
Qed.

Lemma experiment_v2_own_shots pyint0 pubs idx c n : (n < length (cog_masks c))%nat ->
  exists v, experiment pyint0 (DV2 pubs) idx c = Ok v /\
    nth n v 0
    == Qsum (map (fun s => inject_Z (outcome_value_v2 (nth n (cog_masks c) 0%N) (bytes_value (fst s)) (bytes_value (snd s))))
                 (nth idx pubs []))
       / Qnat (length (nth idx pubs [])).
Proof.
  intros Hn.
  destruct (experiment_spec pyint0 (fun _ => 0%N) (DV2 pubs) idx c) as [v [E1 [_ E3]]]; [intros k []|].
  exists v. split; [exact E1|]. rewrite (E3 n Hn). apply E_exp_v2_average.
Qed.

Local Close Scope Q_scope.

(* the public wrapper (dict form) computes the estimator *)
Lemma public_estimator pyint0 den m coeffs p0 ps :
  (forall l, In l (map plabel (p0 :: ps)) <-> In l (map fst m)) ->
  (forall p x, In p (p0 :: ps) -> In x (pphases p) -> x = 0) ->
  (forall p, In p (p0 :: ps) -> length (plookup p) = length (plookup p0) /\ locs_ok p) ->
  (forall p d, In p (p0 :: ps) -> assoc m (plabel p) = Some d ->
     data_len d = length coeffs * length (pgroups p) /\
     forall k, In k (keys_of d) -> outcome_to_int pyint0 k = Some (den k)) ->
  exists pds, map fst pds = p0 :: ps /\
    (forall pd, In pd pds -> assoc m (plabel (fst pd)) = Some (snd pd)) /\
    res_Qeq (reconstruct pyint0 (RMap m) coeffs (OMap (p0 :: ps)))
            (Ok (map (estimator den coeffs pds) (seq 0 (length (plookup p0))))).
Proof.
  intros K PH SH DA.
  destruct (reconstruct_map_valid pyint0 m coeffs p0 ps K PH) as [pds [A1 [A2 A3]]].
  exists pds. split; [exact A1|]. split; [exact A2|]. rewrite A3.
  assert (IN : forall pd, In pd pds -> In (fst pd) (p0 :: ps)).
  { intros pd Hpd. rewrite <- A1. apply in_map, Hpd. }
  apply estimator_full.
  - intros pd Hpd. apply (DA (fst pd) (snd pd) (IN pd Hpd) (A2 pd Hpd)).
  - intros pd Hpd. apply SH, IN, Hpd.
  - intros pd k Hpd Hk. apply (proj2 (DA (fst pd) (snd pd) (IN pd Hpd) (A2 pd Hpd)) k Hk).
Qed.

(* Proofs/ProcessP.v — lemmas about the process-state model (Model/Process.v). *)
From Coq Require Import String QArith Qabs.
From CKT Require Import Common.Base Model.Process.
Close Scope Q_scope.
Open Scope string_scope.
Open Scope list_scope.

(* ---------------- the greedy pass writes back what it read ---------------- *)

Lemma greedy_writes_id : forall t, greedy_writes t = t.
Proof. intros [c n g u m]; reflexivity. Qed.

(* ---------------- ActionNames.copy ---------------- *)

Lemma gname_eqb_refl : forall k, gname_eqb k k = true.
Proof. intros [s|]; simpl; [apply String.eqb_refl|reflexivity]. Qed.

Lemma gname_eqb_eq : forall a b, gname_eqb a b = true <-> a = b.
Proof.
  intros [a|] [b|]; simpl; split; intro H; try discriminate; try reflexivity.
  - apply String.eqb_eq in H; now subst.
  - inversion H; apply String.eqb_refl.
Qed.

Lemma dict_mem_In {V} : forall k (d : list (gname * V)), dict_mem k d = true <-> In k (map fst d).
Proof.
  intros k d; induction d as [|[k' v] r IH]; simpl.
  - split; [discriminate|tauto].
  - rewrite orb_true_iff, IH, gname_eqb_eq. split; intros [H|H]; auto.
Qed.

Lemma group_add_keys_incl : forall gd k a k0, In k0 (map fst gd) -> In k0 (map fst (group_add gd k a)).
Proof.
  intros gd k a k0 H; unfold group_add. destruct (dict_mem k gd).
  - induction gd as [|[k' l] r IH]; simpl in *; [tauto|].
    destruct (gname_eqb k k'); simpl; destruct H as [H|H]; auto.
  - rewrite map_app, in_app_iff; auto.
Qed.

(* define_all over actions with pairwise distinct names, none already present, never asserts and appends the
   names in order *)
Lemma define_all_ok : forall l c,
  NoDup (map fst (action_dict c) ++ map a_name l) ->
  exists c', define_all (Ok c) l = Ok c' /\
             map fst (action_dict c') = map fst (action_dict c) ++ map a_name l /\
             map snd (action_dict c') = map snd (action_dict c) ++ l.
Proof.
  induction l as [|a l IH]; intros c ND; simpl in *.
  - exists c; rewrite !app_nil_r; auto.
  - unfold define_all in *; simpl. unfold define_action.
    destruct (dict_mem (a_name a) (action_dict c)) eqn:E.
    + exfalso. apply dict_mem_In in E. apply NoDup_remove_2 in ND. apply ND. apply in_or_app; auto.
    + simpl.
      set (c1 := mkAN (action_dict c ++ [(a_name a, a)])
                      (fold_left (fun gd g => group_add gd g a) (a_groups a) (group_dict c))).
      destruct (IH c1) as [c' [H1 [H2 H3]]].
      * subst c1; simpl. rewrite map_app; simpl. rewrite <- app_assoc; simpl. exact ND.
      * exists c'; split; [exact H1|]. subst c1; simpl in *.
        rewrite H2, H3, !map_app; simpl. rewrite <- !app_assoc; simpl; auto.
Qed.

Lemma NoDup_map_filter {A B} (f : A -> B) (p : A -> bool) : forall l, NoDup (map f l) -> NoDup (map f (filter p l)).
Proof.
  induction l as [|x l IH]; simpl; intros ND; [constructor|].
  inversion ND as [|? ? Hn ND']; subst. destruct (p x); simpl; auto.
  constructor; auto. intro Hin; apply Hn.
  apply in_map_iff in Hin as [y [Hy Hf]]. apply filter_In in Hf as [Hf _]. apply in_map_iff; eauto.
Qed.

(* copy never asserts on a well-formed registry; it returns the selected actions in registry order *)
Lemma an_copy_ok : forall an groups, wf_registry an ->
  exists c, an_copy an groups = Ok c /\
            map snd (action_dict c) = get_action_subset (map snd (action_dict an)) groups /\
            map fst (action_dict c) = map a_name (get_action_subset (map snd (action_dict an)) groups).
Proof.
  intros an groups [ND NM]. unfold an_copy.
  destruct (define_all_ok (get_action_subset (map snd (action_dict an)) groups) an_empty) as [c [H1 [H2 H3]]].
  - simpl. destruct groups as [gs|]; simpl.
    + apply NoDup_map_filter. rewrite NM; exact ND.
    + rewrite NM; exact ND.
  - exists c; simpl in *; auto.
Qed.

Lemma import_actions_ok : exists an, import_actions = Ok an /\ wf_registry an.
Proof. eexists; split; [reflexivity|]. split; simpl; [|reflexivity]. repeat constructor; simpl; intuition discriminate. Qed.

(* ---------------- one step ---------------- *)

(* ---------------- probabilities are non-negative ---------------- *)

Lemma qsum_abs_nonneg : forall l, (0 <= qsum (map Qabs l))%Q.
Proof.
  induction l as [|x l IH]; simpl; [apply Qle_refl|].
  rewrite <- (Qplus_0_l 0). apply Qplus_le_compat; [apply Qabs_nonneg|exact IH].
Qed.

Lemma probabilities_nonneg : forall coeffs v, In v (probabilities coeffs) -> (0 <= v)%Q.
Proof.
  intros coeffs v H. unfold probabilities in H. apply in_map_iff in H as [c [<- _]].
  unfold Qdiv. apply Qmult_le_0_compat; [apply Qabs_nonneg|]. apply Qinv_le_0_compat, qsum_abs_nonneg.
Qed.

Lemma fold_qmin_nonneg : forall l v, (0 <= v)%Q -> (forall x, In x l -> (0 <= x)%Q) -> (0 <= fold_left qmin l v)%Q.
Proof.
  induction l as [|x l IH]; intros v Hv H; simpl; [exact Hv|].
  apply IH; [|intros y Hy; apply H; now right].
  unfold qmin. destruct (Qle_bool v x); [exact Hv|apply H; now left].
Qed.

Lemma min_filter_nonzero_nonneg : forall vals m, (forall v, In v vals -> (0 <= v)%Q) ->
  min_filter_nonzero vals = Some m -> (0 <= m)%Q.
Proof.
  intros vals m H E. unfold min_filter_nonzero in E.
  destruct (filter _ vals) as [|v r] eqn:F; [discriminate|]. inversion E; subst m.
  assert (HF : forall x, In x (v :: r) -> (0 <= x)%Q).
  { intros x Hx. rewrite <- F in Hx. apply filter_In in Hx as [Hx _]. now apply H. }
  apply fold_qmin_nonneg; [apply HF; now left|intros x Hx; apply HF; now right].
Qed.

Lemma prod_min_nonzero_nonneg : forall bases p, prod_min_nonzero bases = Some p -> (0 <= p)%Q.
Proof.
  induction bases as [|b r IH]; intros p E; simpl in E.
  - inversion E; subst. discriminate.
  - destruct (min_filter_nonzero (probabilities b)) as [m|] eqn:Em; [|discriminate].
    destruct (prod_min_nonzero r) as [q|] eqn:Eq; [|discriminate]. inversion E; subst p.
    apply Qmult_le_0_compat; [|now apply IH].
    eapply min_filter_nonzero_nonneg; [|exact Em]. apply probabilities_nonneg.
Qed.

Section ProcessP.
Variable O : oracles.

Lemma step_registries : forall g c, registries (fst (step O g c)) = registries g.
Proof.
  intros g [a s|a ns|a]; simpl.
  - unfold registries; simpl. now rewrite greedy_writes_id.
  - destruct (reaches_sampler O a ns); reflexivity.
  - reflexivity.
Qed.

Lemma estep_registries : forall g e, registries (estep O g e) = registries g.
Proof. intros g [c|np py]; simpl; [apply step_registries|reflexivity]. Qed.

Lemma run_registries : forall h g, registries (run O g h) = registries g.
Proof.
  induction h as [|e h IH]; intros g; simpl; [reflexivity|].
  unfold run in *; simpl. rewrite IH. apply estep_registries.
Qed.

Lemma step_py : forall g c, py_global (fst (step O g c)) = py_global g.
Proof.
  intros g [a s|a ns|a]; simpl; try reflexivity.
  destruct (reaches_sampler O a ns); reflexivity.
Qed.

Lemma exact_gen : forall a ns, exact_class O (Gen O a ns) = true -> reaches_sampler O a ns = false.
Proof. intros a ns E; simpl in E. now destruct (reaches_sampler O a ns). Qed.

Lemma step_np : forall g c, exact_class O c = true -> np_global (fst (step O g c)) = np_global g.
Proof.
  intros g [a s|a ns|a] E; try reflexivity.
  cbn [step]. now rewrite (exact_gen _ _ E).
Qed.

(* the state after a call of the three classes is the state before, literally *)
Lemma step_state_id : forall g c, exact_class O c = true -> fst (step O g c) = g.
Proof.
  intros g [a s|a ns|a] E; try reflexivity.
  - cbn [step fst]. rewrite greedy_writes_id. now destruct g.
  - cbn [step]. now rewrite (exact_gen _ _ E).
Qed.

(* only a generation that reaches the sampler moves numpy's global state *)
Lemma np_writer : forall g c, np_global (fst (step O g c)) <> np_global g ->
  exists a ns, c = Gen O a ns /\ reaches_sampler O a ns = true.
Proof.
  intros g [a s|a ns|a] H.
  - exfalso; apply H; reflexivity.
  - cbn [step] in H. destruct (reaches_sampler O a ns) eqn:E; [eauto|].
    exfalso; apply H; reflexivity.
  - exfalso; apply H; reflexivity.
Qed.

(* the result of a call of the three classes reads the registries and nothing else of the state *)
Lemma result_reads_registries : forall g g' c, exact_class O c = true ->
  registries g = registries g' -> snd (step O g c) = snd (step O g' c).
Proof.
  intros g g' [a s|a ns|a] E R;
    unfold registries in R; inversion R as [[R1 R2 R3 R4]].
  - cbn [step snd]. now rewrite R1, R3, R4.
  - cbn [step]. rewrite (exact_gen _ _ E). cbn [snd]. now rewrite R4.
  - cbn [step snd]. now rewrite R4.
Qed.

Lemma history_independent : forall g0 h1 h2 c, exact_class O c = true ->
  snd (step O (run O g0 h1) c) = snd (step O (run O g0 h2) c).
Proof.
  intros g0 h1 h2 c E. apply result_reads_registries; [exact E|].
  now rewrite !run_registries.
Qed.

(* closed form: the result of a seeded find_cuts after ANY history is a function of the registries the
   process started with, the arguments and the integer seed *)
Lemma seeded_closed_form : forall g0 h a s,
  snd (step O (run O g0 h) (FindCuts O a (Seeded s))) =
  RFind O (find_cuts_pure O
            (an_copy (action_registry g0) (Some (cut_search_groups (fc_gate_lo O a) (fc_wire_lo O a))))
            (funcs_lo g0) (basis_registry g0) a (seeded_tape O s)).
Proof.
  intros g0 h a s.
  pose proof (run_registries h g0) as R. unfold registries in R. inversion R as [[R1 R2 R3 R4]].
  simpl. now rewrite greedy_writes_id, R1, R3, R4.
Qed.

(* any generation that does not reach the sampler (finite num_samples included) *)
Lemma gen_nosampler_closed_form : forall g0 h a ns, reaches_sampler O a ns = false ->
  snd (step O (run O g0 h) (Gen O a ns)) = RGen O (gen_exact_pure O (basis_registry g0) a ns).
Proof.
  intros g0 h a ns E.
  pose proof (run_registries h g0) as R. unfold registries in R. inversion R as [[R1 R2 R3 R4]].
  cbn [step]. rewrite E. cbn [snd]. now rewrite R4.
Qed.

(* weights.py: finite num_samples >= 1 whose threshold 1/num_samples lies below the smallest probability by the rounding
   margin: the all-exact branch *)
Lemma finite_exact_margin : forall a n p, smallest_probability O a = Some p ->
  (1 / n * (1 + float_margin) <= p)%Q -> reaches_sampler O a (NFin n) = false.
Proof.
  intros a n p Hp H. unfold reaches_sampler. destruct (negb (ns_valid (NFin n))); [reflexivity|]. rewrite Hp.
  assert (E : clearly_all_exact (threshold (NFin n)) p = true) by (apply Qle_bool_iff; exact H).
  now rewrite E.
Qed.

(* num_samples < 1 is refused before anything is read or written *)
Lemma invalid_never_samples : forall a n, (n < 1)%Q -> reaches_sampler O a (NFin n) = false.
Proof.
  intros a n H. unfold reaches_sampler, ns_valid.
  destruct (Qle_bool 1 n) eqn:E; [|reflexivity].
  apply Qle_bool_iff in E. exfalso. apply (Qlt_not_le _ _ H E).
Qed.

Lemma from_instruction_closed_form : forall g0 h a,
  snd (step O (run O g0 h) (FromInstruction O a)) = RBasis O (from_instruction_pure O (basis_registry g0) a).
Proof.
  intros g0 h a.
  pose proof (run_registries h g0) as R. unfold registries in R. inversion R as [[R1 R2 R3 R4]].
  simpl. now rewrite R4.
Qed.

(* histories made of calls of the three classes only: the whole state is invariant *)
Lemma run_exact_state : forall h g, forallb (exact_event O) h = true -> run O g h = g.
Proof.
  induction h as [|e h IH]; intros g H; simpl in *; [reflexivity|].
  apply andb_prop in H as [H1 H2]. unfold run in *; simpl.
  destruct e as [c|np py]; simpl in *; [|discriminate].
  rewrite step_state_id by exact H1. now apply IH.
Qed.

(* a fresh interpreter: same registries, arbitrary generator states, empty history *)
Lemma fresh_interpreter : forall actions basis np py np' py' h c, exact_class O c = true ->
  snd (step O (run O (fresh_process actions basis np py) h) c) =
  snd (step O (fresh_process actions basis np' py') c).
Proof.
  intros. apply result_reads_registries; [assumption|]. now rewrite run_registries.
Qed.

(* ---- num_samples = inf ---- *)
(* threshold 0 <= smallest probability (a product of minima of |coeff|/kappa: smallest_nonneg): the all-exact branch returns *)
Lemma exact_never_samples : forall a, reaches_sampler O a NInf = false.
Proof.
  intros a; unfold reaches_sampler; simpl.
  destruct (smallest_probability O a) as [p|] eqn:E; [|reflexivity].
  assert (E' : clearly_all_exact 0 p = true).
  { apply Qle_bool_iff. rewrite Qmult_0_l. exact (prod_min_nonzero_nonneg _ _ E). }
  now rewrite E'.
Qed.

Lemma inf_exact_class : forall a, exact_class O (GenExact O a) = true.
Proof. intros a; unfold GenExact; simpl. now rewrite exact_never_samples. Qed.

Lemma gen_exact_closed_form : forall g0 h a,
  snd (step O (run O g0 h) (GenExact O a)) = RGen O (gen_exact_pure O (basis_registry g0) a NInf).
Proof. intros; apply gen_nosampler_closed_form, exact_never_samples. Qed.

End ProcessP.

(* Proofs/WeightsSort.v — generate_qpd_weights: the final sort is a sorted rearrangement of the dictionary. *)
From Coq Require Import QArith Lia ZifyBool Lqa Permutation Sorted.
From CKT Require Import Common.Base Extracted.Facts Model.Weights Proofs.WeightsP Proofs.WeightsDfs Proofs.WeightsGen.
Open Scope Q_scope.

Lemma sort_insert_perm x : forall l, Permutation (sort_insert x l) (x :: l).
Proof.
  induction l as [|y r IH]; simpl; [reflexivity|].
  destruct (sort_le x y); [reflexivity|]. rewrite IH. apply perm_swap.
Qed.

Lemma final_sort_perm d : Permutation (final_sort d) d.
Proof.
  unfold final_sort. induction d as [|x d IH]; simpl; [reflexivity|].
  rewrite sort_insert_perm. now constructor.
Qed.

Definition sle (a b : key * (Q * wtype)) : Prop := sort_le a b = true.

Lemma sort_le_spec a b :
  sort_le a b = true <->
  (wt_value (snd (snd a)) < wt_value (snd (snd b)))%nat \/
  (wt_value (snd (snd a)) = wt_value (snd (snd b)) /\ fst (snd b) <= fst (snd a)).
Proof.
  unfold sort_le. rewrite orb_true_iff, andb_true_iff, Nat.ltb_lt, Nat.eqb_eq. now rewrite Qle_bool_iff.
Qed.

Lemma sort_le_total a b : sort_le a b = false -> sle b a.
Proof.
  intros H. unfold sle. apply sort_le_spec.
  destruct (Nat.lt_trichotomy (wt_value (snd (snd a))) (wt_value (snd (snd b)))) as [L|[E|L]].
  - exfalso. assert (sort_le a b = true) by (apply sort_le_spec; now left). congruence.
  - right. split; auto. destruct (Qlt_le_dec (fst (snd a)) (fst (snd b))) as [Q1|Q1]; [lra|].
    exfalso. assert (sort_le a b = true) by (apply sort_le_spec; right; split; auto). congruence.
  - now left.
Qed.

Lemma sle_trans a b c : sle a b -> sle b c -> sle a c.
Proof.
  unfold sle. rewrite !sort_le_spec. intros [L1|[E1 Q1]] [L2|[E2 Q2]].
  - left. lia.
  - left. lia.
  - left. lia.
  - right. split; [lia|lra].
Qed.

Lemma sort_insert_sorted x : forall l, StronglySorted sle l -> StronglySorted sle (sort_insert x l).
Proof.
  induction l as [|y r IH]; intros S; simpl; [repeat constructor|].
  inversion S as [|? ? Sr Fy]; subst.
  destruct (sort_le x y) eqn:E.
  - constructor; auto. constructor; auto.
    eapply Forall_impl; [|exact Fy]. intros z Hz. eapply sle_trans; eauto.
  - constructor; auto.
    assert (Forall (sle y) (x :: r)) as F by (constructor; auto; now apply sort_le_total).
    eapply Permutation_Forall; [symmetry; apply sort_insert_perm|exact F].
Qed.

Lemma final_sort_sorted d : StronglySorted sle (final_sort d).
Proof.
  unfold final_sort. induction d as [|x d IH]; simpl; [constructor|]. now apply sort_insert_sorted.
Qed.

(* lookups are not affected when the keys are distinct *)
Lemma final_sort_keys d : Permutation (map fst (final_sort d)) (map fst d).
Proof. apply Permutation_map, final_sort_perm. Qed.

Lemma final_sort_dget d k : NoDup (map fst d) -> dget (final_sort d) k = dget d k.
Proof.
  intros ND. assert (NoDup (map fst (final_sort d))) as ND' by (eapply Permutation_NoDup; [symmetry; apply final_sort_keys|exact ND]).
  destruct (dget d k) as [v|] eqn:E.
  - apply In_dget_NoDup; auto. apply dget_In in E. eapply Permutation_in; [symmetry; apply final_sort_perm|exact E].
  - destruct (dget (final_sort d) k) as [v|] eqn:E'; [|reflexivity].
    apply dget_In in E'. apply (Permutation_in _ (final_sort_perm d)) in E'.
    rewrite (In_dget_NoDup _ _ _ ND E') in E. discriminate.
Qed.

(* the returned dictionary has pairwise distinct keys (it is only ever built with d[k] = v) *)
Lemma fold_dset_nodup {A} (f : wdict -> A -> wdict) :
  (forall d a, NoDup (map fst d) -> NoDup (map fst (f d a))) ->
  forall l d, NoDup (map fst d) -> NoDup (map fst (fold_left f l d)).
Proof. intros H l; induction l as [|a l IH]; intros d N; simpl; auto. Qed.

Lemma insert_samples_nodup ssw : forall s ret r, insert_samples ret ssw s = Some r ->
  NoDup (map fst ret) -> NoDup (map fst r).
Proof.
  induction s as [|[k c] s IH]; intros ret r H N; simpl in H.
  - now inversion H; subst.
  - destruct (dmem ret k); [discriminate|]. eapply IH; eauto. now apply dset_NoDup.
Qed.

Lemma all_exact_nodup probs m : NoDup (map fst (all_exact probs m)).
Proof.
  unfold all_exact. apply fold_dset_nodup; [|constructor].
  intros d a N. cbv zeta. destruct (Qltb _ _); auto. now apply dset_NoDup.
Qed.

Lemma dfs_acc_nodup probs perms q ret cond wts0 : dfs_acc probs perms q = (ret, cond, wts0) -> NoDup (map fst ret).
Proof.
  unfold dfs_acc. destruct (Qle_bool _ _).
  - intros E.
    assert (ret = fold_left (ret_step q) (gen_unsorted probs perms (1 / q)) []) as ->.
    { transitivity (fst (fst (fold_left (absorb (length probs) q) (gen_unsorted probs perms (1 / q))
                                  (([] : wdict), ([] : list (key * list Q)), 1)))).
      - apply (f_equal (fun t => fst (fst t))) in E. symmetry. exact E.
      - apply absorb_ret. }
    apply fold_dset_nodup; [|constructor]. intros d [s p|s v] N; simpl; auto. now apply dset_NoDup.
  - intros [= <- _ _]. constructor.
Qed.

Lemma result_nodup probs perms N tape r : gen_weights probs perms N tape = Some (Ok r) -> NoDup (map fst r).
Proof.
  destruct N as [q| | |]; try discriminate.
  - intros G. apply gen_weights_fin_inv in G. destruct G as [_ F].
    destruct F as [mins Em Ae ->|mins ret cond wts0 Em Na Eacc Hs ->|mins ret cond wts0 rs Em Na Eacc Hs Cn Lw Dn ->
                  |mins ret cond wts0 s t' lg Em Na Eacc Hs Cc Pp Is].
    + apply all_exact_nodup.
    + eapply dfs_acc_nodup; eauto.
    + apply dset_NoDup. eapply dfs_acc_nodup; eauto.
    + eapply insert_samples_nodup; eauto. eapply dfs_acc_nodup; eauto.
  - unfold gen_weights, gen_core. destruct (all_some _); [|discriminate]. destruct (Qle_bool 0 _); [|discriminate].
    intros [= <-]. apply all_exact_nodup.
Qed.

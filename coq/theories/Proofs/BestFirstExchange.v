(* Proofs/BestFirstExchange.v — C08, unbounded pruning soundness, part 1: the SPECIFICATION side of the exchange argument.

   For an assignment A (Proofs/BestFirstSpec.v) that meets the width limit, let F be the final component labelling of
   its wire segments.  norm F A replaces every USELESS cut of A (a cut whose two sides lie in the same FINAL component)
   by a cheaper kind:
       gate cut / left / right cut with both sides in one final component        ->  leave
       both-wires cut whose new pair lies in the final component of the old segment of q1 (q2)
                                                                                  ->  right (left) cut, or leave if both
   This file proves everything about norm that does not mention the search state:
     - the joins of A are respected by F, prefixes refine F (replay_final)
     - per-kind facts about F at a step, according to the outcome of norm_kind (norm_*_facts)
     - norm keeps kinds permitted, does not increase the per-step factor, and 4^(wire cuts of norm A) <= cost A
     - no wire cut survives when wire cuts are not permitted or W < 2
     - counting lemmas (cntb) and the wire budget: 4^k <= gamma -> k <= max_wire_cuts_gamma gamma.
   Part 2 (BestFirstExchangeSim.v) shows that the search can follow norm F A through all guards. *)
From Coq Require Import QArith Lia.
From CKT Require Import Model.CutFinder Proofs.BestFirstP Proofs.BestFirstSpec.
Close Scope Q_scope.

(* ------------------------------------------------------------------------------------ *)
(* counting indices below n that satisfy a boolean predicate                              *)
(* ------------------------------------------------------------------------------------ *)
Fixpoint cntb (p : nat -> bool) (n : nat) : nat :=
  match n with
  | O => 0
  | S m => (if p m then 1 else 0) + cntb p m
  end.

Lemma cntb_ext p q n : (forall x, x < n -> p x = q x) -> cntb p n = cntb q n.
Proof.
  induction n as [|n IH]; intros H; cbn [cntb]; [reflexivity|].
  rewrite (H n) by lia. rewrite IH; [reflexivity|]. intros x Hx; apply H; lia.
Qed.

Lemma cntb_le p q n : (forall x, x < n -> p x = true -> q x = true) -> cntb p n <= cntb q n.
Proof.
  induction n as [|n IH]; intros H; cbn [cntb]; [lia|].
  assert (L : cntb p n <= cntb q n) by (apply IH; intros x Hx; apply H; lia).
  destruct (p n) eqn:Pn; [rewrite (H n) by (auto; lia)|destruct (q n)]; lia.
Qed.

Lemma cntb_mono p n m : n <= m -> cntb p n <= cntb p m.
Proof. induction 1; [lia|]. cbn [cntb]. destruct (p m); lia. Qed.

Lemma cntb_sum p q r n :
  (forall x, x < n -> p x = true -> r x = true) -> (forall x, x < n -> q x = true -> r x = true) ->
  (forall x, x < n -> p x = true -> q x = true -> False) -> cntb p n + cntb q n <= cntb r n.
Proof.
  induction n as [|n IH]; intros H1 H2 H3; cbn [cntb]; [lia|].
  assert (L : cntb p n + cntb q n <= cntb r n).
  { apply IH; intros x Hx; [apply H1|apply H2|apply H3]; lia. }
  destruct (p n) eqn:Pn, (q n) eqn:Qn.
  - exfalso. apply (H3 n); auto.
  - rewrite (H1 n) by (auto; lia). lia.
  - rewrite (H2 n) by (auto; lia). lia.
  - destruct (r n); lia.
Qed.

Lemma cntb_trunc p m n : m <= n -> (forall x, m <= x < n -> p x = false) -> cntb p n = cntb p m.
Proof.
  induction 1 as [|n Hle IH]; intros H; [reflexivity|]. cbn [cntb].
  rewrite (H n) by lia. rewrite IH; [reflexivity|]. intros x Hx; apply H; lia.
Qed.

Lemma cntb_le_n p n : cntb p n <= n.
Proof. induction n; cbn [cntb]; [lia|]. destruct (p n); lia. Qed.

(* number of x < n with f x = L *)
Definition cnt (f : nat -> nat) (n L : nat) : nat := cntb (fun x => Nat.eqb (f x) L) n.

Definition fupd (f : nat -> nat) (i v : nat) : nat -> nat := fun x => if Nat.eqb x i then v else f x.

Lemma cnt_S f n L : cnt f (S n) L = (if Nat.eqb (f n) L then 1 else 0) + cnt f n L.
Proof. reflexivity. Qed.

Lemma cnt_fupd_out f i v n L : n <= i -> cnt (fupd f i v) n L = cnt f n L.
Proof.
  intros H. apply cntb_ext. intros x Hx. unfold fupd. destruct (Nat.eqb_spec x i); [lia|reflexivity].
Qed.

Lemma cnt_mono f n m L : n <= m -> cnt f n L <= cnt f m L.
Proof. apply cntb_mono. Qed.

(* the labels of a list *)
Definition Fl (F : list nat) (x : nat) : nat := nth x F 0.

Lemma cnt_filter l L : cnt (Fl l) (length l) L = length (filter (Nat.eqb L) l).
Proof.
  induction l as [|a l IH] using rev_ind; [reflexivity|].
  rewrite app_length, Nat.add_comm. cbn [length plus]. rewrite cnt_S.
  rewrite filter_app, app_length. cbn [filter]. unfold Fl at 1. rewrite app_nth2 by lia. rewrite Nat.sub_diag. cbn [nth].
  rewrite (Nat.eqb_sym a L).
  replace (cnt (Fl (l ++ [a])) (length l) L) with (cnt (Fl l) (length l) L).
  - rewrite IH. destruct (Nat.eqb L a); cbn [length]; lia.
  - apply cntb_ext. intros x Hx. unfold Fl. now rewrite app_nth1.
Qed.

(* every component of a state that meets the width limit has at most W segments *)
Lemma widths_ok_cnt W st L : widths_ok W st = true -> cnt (Fl (sg_comp st)) (length (sg_comp st)) L <= W.
Proof.
  intros H. rewrite cnt_filter. unfold widths_ok in H. rewrite forallb_forall in H.
  destruct (filter (Nat.eqb L) (sg_comp st)) as [|x r] eqn:E; [cbn; lia|].
  assert (I : In x (filter (Nat.eqb L) (sg_comp st))) by (rewrite E; left; reflexivity).
  apply filter_In in I. destruct I as [I EL]. apply Nat.eqb_eq in EL. subst x.
  specialize (H L I). apply Nat.leb_le in H. unfold comp_size in H. rewrite E in H. exact H.
Qed.

(* ------------------------------------------------------------------------------------ *)
(* states of the specification                                                            *)
(* ------------------------------------------------------------------------------------ *)
Definition curq (st : segs) (q : nat) : nat := nth q (sg_cur st) 0.
Definition lab (st : segs) (x : nat) : nat := nth x (sg_comp st) 0.
Definition slen (st : segs) : nat := length (sg_comp st).

Definition segs_ok (nq : nat) (st : segs) : Prop :=
  length (sg_cur st) = nq /\ forall q, q < nq -> curq st q < slen st.

(* number of new wire segments of a kind *)
Definition kw (k : kind) : nat :=
  match k with Leave | CutGate => 0 | CutLeft | CutRight => 1 | CutBoth => 2 end.

Fixpoint wcount (A : list kind) : nat :=
  match A with [] => 0 | k :: r => kw k + wcount r end.

Lemma segs_init_ok nq : segs_ok nq (segs_init nq).
Proof.
  split; cbn; [apply seq_length|]. intros q Hq. unfold curq, slen. cbn. rewrite seq_nth, seq_length by lia. lia.
Qed.

Lemma fresh_seg_ok nq st q : segs_ok nq st -> segs_ok nq (fresh_seg st q).
Proof.
  intros [H1 H2]. split; cbn.
  - now rewrite upd_length.
  - intros x Hx. unfold curq, slen. cbn. rewrite app_length. cbn.
    destruct (Nat.eq_dec x q) as [->|N].
    + rewrite nth_upd_same by lia. lia.
    + rewrite nth_upd_other by auto. specialize (H2 x Hx). unfold curq, slen in H2. lia.
Qed.

Lemma join_ok nq st q1 q2 : segs_ok nq st -> segs_ok nq (join st q1 q2).
Proof.
  intros [H1 H2]. split; cbn; [exact H1|]. intros x Hx. unfold curq, slen. cbn. rewrite map_length. now apply H2.
Qed.

Lemma apply_kind_ok nq st q1 q2 k : segs_ok nq st -> segs_ok nq (apply_kind st q1 q2 k).
Proof.
  intros H. destruct k; cbn [apply_kind]; auto using join_ok, fresh_seg_ok.
Qed.

Lemma slen_join st q1 q2 : slen (join st q1 q2) = slen st.
Proof. unfold slen. cbn. apply map_length. Qed.

Lemma slen_fresh st q : slen (fresh_seg st q) = S (slen st).
Proof. unfold slen. cbn. rewrite app_length. cbn. lia. Qed.

Lemma slen_apply_kind st q1 q2 k : slen (apply_kind st q1 q2 k) = slen st + kw k.
Proof. destruct k; cbn [apply_kind kw]; rewrite ?slen_join, ?slen_fresh; lia. Qed.

Lemma curq_join st q1 q2 q : curq (join st q1 q2) q = curq st q.
Proof. reflexivity. Qed.

Lemma curq_fresh st q0 q : q0 < length (sg_cur st) ->
  curq (fresh_seg st q0) q = if Nat.eqb q q0 then slen st else curq st q.
Proof.
  intros H. unfold curq, slen. cbn. destruct (Nat.eqb_spec q q0) as [->|N].
  - now apply nth_upd_same.
  - apply nth_upd_other. auto.
Qed.

Lemma curq_apply_kind nq st q1 q2 k q : segs_ok nq st -> q1 < nq -> q2 < nq ->
  curq (apply_kind st q1 q2 k) q =
    match k with
    | Leave | CutGate => curq st q
    | CutLeft => if Nat.eqb q q1 then slen st else curq st q
    | CutRight => if Nat.eqb q q2 then slen st else curq st q
    | CutBoth => if Nat.eqb q q2 then S (slen st) else if Nat.eqb q q1 then slen st else curq st q
    end.
Proof.
  intros [H1 H2] Q1 Q2. destruct k; cbn [apply_kind]; rewrite ?curq_join; auto.
  - apply curq_fresh. lia.
  - apply curq_fresh. lia.
  - rewrite curq_fresh by (cbn; rewrite upd_length; lia). rewrite slen_fresh.
    destruct (Nat.eqb q q2); [reflexivity|]. apply curq_fresh. lia.
Qed.

(* labels: joining and cutting keep equal labels equal *)
Lemma nth_map_lt {A B} (f : A -> B) (l : list A) x d d' : x < length l -> nth x (map f l) d = f (nth x l d').
Proof. revert x; induction l as [|a l IH]; intros [|x] H; cbn in *; try lia; auto. apply IH. lia. Qed.

Lemma lab_join st q1 q2 x : x < slen st ->
  lab (join st q1 q2) x = if Nat.eqb (lab st x) (comp_of st q2) then comp_of st q1 else lab st x.
Proof.
  intros H. unfold lab. cbn [join sg_comp].
  now rewrite (nth_map_lt (fun y => if Nat.eqb y (comp_of st q2) then comp_of st q1 else y) _ _ 0 0) by exact H.
Qed.

Lemma lab_fresh_old st q x : x < slen st -> lab (fresh_seg st q) x = lab st x.
Proof. intros H. unfold lab. cbn. now apply app_nth1. Qed.

Lemma join_refine st q1 q2 x y : x < slen st -> y < slen st -> lab st x = lab st y ->
  lab (join st q1 q2) x = lab (join st q1 q2) y.
Proof. intros Hx Hy E. rewrite !lab_join by auto. now rewrite E. Qed.

Lemma fresh_refine st q x y : x < slen st -> y < slen st -> lab st x = lab st y ->
  lab (fresh_seg st q) x = lab (fresh_seg st q) y.
Proof. intros Hx Hy E. now rewrite !lab_fresh_old. Qed.

Lemma apply_kind_refine st q1 q2 k x y : x < slen st -> y < slen st -> lab st x = lab st y ->
  lab (apply_kind st q1 q2 k) x = lab (apply_kind st q1 q2 k) y.
Proof.
  intros Hx Hy E. destruct k; cbn [apply_kind]; auto.
  - now apply join_refine.
  - apply join_refine; rewrite ?slen_fresh; try lia. now apply fresh_refine.
  - apply join_refine; rewrite ?slen_fresh; try lia. now apply fresh_refine.
  - apply join_refine; rewrite ?slen_fresh; try lia. apply fresh_refine; rewrite ?slen_fresh; try lia. now apply fresh_refine.
Qed.

(* after a join the current segments of the two qubits carry the same label *)
Lemma join_joined nq st q1 q2 : segs_ok nq st -> q1 < nq -> q2 < nq ->
  lab (join st q1 q2) (curq st q1) = lab (join st q1 q2) (curq st q2).
Proof.
  intros [H1 H2] Q1 Q2. rewrite !lab_join by auto.
  change (lab st (curq st q2)) with (comp_of st q2). change (lab st (curq st q1)) with (comp_of st q1).
  rewrite Nat.eqb_refl. destruct (Nat.eqb (comp_of st q1) (comp_of st q2)); reflexivity.
Qed.

Lemma apply_kind_joined nq st q1 q2 k : segs_ok nq st -> q1 < nq -> q2 < nq -> k <> CutGate ->
  let st1 := apply_kind st q1 q2 k in lab st1 (curq st1 q1) = lab st1 (curq st1 q2).
Proof.
  intros H Q1 Q2 N st1. subst st1.
  destruct k; cbn [apply_kind]; try congruence; rewrite !curq_join; eapply join_joined; eauto using fresh_seg_ok.
Qed.

Lemma curq_apply_kind_12 nq st q1 q2 k : segs_ok nq st -> q1 < nq -> q2 < nq -> q1 <> q2 ->
  curq (apply_kind st q1 q2 k) q1 = match k with Leave | CutGate | CutRight => curq st q1 | CutLeft | CutBoth => slen st end /\
  curq (apply_kind st q1 q2 k) q2 =
    match k with Leave | CutGate | CutLeft => curq st q2 | CutRight => slen st | CutBoth => S (slen st) end.
Proof.
  intros OK Q1 Q2 NQ. rewrite !(curq_apply_kind nq) by auto.
  assert (E21 : Nat.eqb q2 q1 = false) by (apply Nat.eqb_neq; auto).
  assert (E12 : Nat.eqb q1 q2 = false) by (apply Nat.eqb_neq; auto).
  rewrite !Nat.eqb_refl, E12, E21. destruct k; auto.
Qed.

(* replace the current segments after the step by variables x1, x2 with their values C1, C2 *)
Ltac cur12 OK Q1 Q2 NQ SE :=
  match goal with
  | |- context [apply_kind ?st ?q1 ?q2 ?k] =>
      let C1 := fresh "C1" in let C2 := fresh "C2" in
      destruct (curq_apply_kind_12 _ st q1 q2 k OK Q1 Q2 NQ) as [C1 C2];
      revert SE C1 C2;
      generalize (curq (apply_kind st q1 q2 k) q1), (curq (apply_kind st q1 q2 k) q2);
      intros x1 x2 SE C1 C2
  end.

(* well-formed gate lists of the specification *)
Definition sgates_wf (nq : nat) (gs : list sgate) : Prop :=
  forall q1 q2 gam, In (q1, q2, gam) gs -> q1 < nq /\ q2 < nq /\ q1 <> q2.

(* the final labelling F refines nothing away: prefixes are finer than F *)
Lemma replay_final gl wl nq : forall gs A st c stn cn, sgates_wf nq gs -> segs_ok nq st ->
  replay gl wl gs A st c = Some (stn, cn) ->
  slen st <= slen stn /\ segs_ok nq stn /\
  forall x y, x < slen st -> y < slen st -> lab st x = lab st y -> lab stn x = lab stn y.
Proof.
  induction gs as [|[[q1 q2] gam] gs IH]; intros [|k A] st c stn cn WF OK H; cbn [replay] in H; try discriminate.
  - inversion H; subst. auto.
  - destruct (permitted gl wl gam k); [|discriminate].
    assert (WF' : sgates_wf nq gs) by (intros a b g I; apply (WF a b g); right; exact I).
    destruct (IH _ _ _ _ _ WF' (apply_kind_ok nq st q1 q2 k OK) H) as (L & OKn & R).
    rewrite slen_apply_kind in L, R. split; [lia|]. split; [exact OKn|].
    intros x y Hx Hy E. apply R; try lia. now apply apply_kind_refine.
Qed.

(* ------------------------------------------------------------------------------------ *)
(* normalisation                                                                          *)
(* ------------------------------------------------------------------------------------ *)
Definition norm_kind (F : list nat) (st : segs) (q1 q2 : nat) (k : kind) : kind :=
  let s1 := curq st q1 in let s2 := curq st q2 in
  let n := slen st in
  match k with
  | Leave => Leave
  | CutGate | CutLeft | CutRight => if Nat.eqb (Fl F s1) (Fl F s2) then Leave else k
  | CutBoth => let a := Nat.eqb (Fl F s1) (Fl F n) in let b := Nat.eqb (Fl F s2) (Fl F n) in
      if a then (if b then Leave else CutRight) else (if b then CutLeft else CutBoth)
  end.

Fixpoint norm (F : list nat) (gs : list sgate) (A : list kind) (st : segs) : list kind :=
  match gs, A with
  | (q1, q2, gam) :: gs', k :: A' => norm_kind F st q1 q2 k :: norm F gs' A' (apply_kind st q1 q2 k)
  | _, _ => []
  end.

(* what the first step of a replay tells about the final labelling *)
Record step_facts (F : list nat) (nq : nat) (st : segs) (q1 q2 : nat) (k : kind) : Prop := {
  sf_len : slen (apply_kind st q1 q2 k) <= length F ;
  sf_edge : k <> CutGate ->
            Fl F (curq (apply_kind st q1 q2 k) q1) = Fl F (curq (apply_kind st q1 q2 k) q2)
}.

Lemma replay_step_facts gl wl nq gs A st c stn cn q1 q2 gam k :
  sgates_wf nq ((q1, q2, gam) :: gs) -> segs_ok nq st ->
  replay gl wl ((q1, q2, gam) :: gs) (k :: A) st c = Some (stn, cn) ->
  permitted gl wl gam k = true /\
  replay gl wl gs A (apply_kind st q1 q2 k) (Qmult c (kind_factor gam k)) = Some (stn, cn) /\
  step_facts (sg_comp stn) nq st q1 q2 k.
Proof.
  intros WF OK H. cbn [replay] in H. destruct (permitted gl wl gam k) eqn:P; [|discriminate].
  split; [reflexivity|]. split; [exact H|].
  destruct (WF q1 q2 gam (or_introl eq_refl)) as (Q1 & Q2 & NQ).
  assert (WF' : sgates_wf nq gs) by (intros a b g I; apply (WF a b g); right; exact I).
  pose proof (apply_kind_ok nq st q1 q2 k OK) as OK1.
  destruct (replay_final gl wl nq _ _ _ _ _ _ WF' OK1 H) as (L & _ & R).
  constructor; [exact L|]. intros N.
  destruct OK1 as [_ B]. apply R; try (apply B; assumption).
  now apply (apply_kind_joined nq).
Qed.

(* facts according to the outcome of norm_kind; a1, a2: current segments of q1, q2 before the step, n: next fresh one *)
Lemma norm_leave_facts F nq st q1 q2 k : segs_ok nq st -> q1 < nq -> q2 < nq -> q1 <> q2 ->
  step_facts F nq st q1 q2 k -> norm_kind F st q1 q2 k = Leave ->
  let st1 := apply_kind st q1 q2 k in
  Fl F (curq st q1) = Fl F (curq st q2) /\
  Fl F (curq st1 q1) = Fl F (curq st q1) /\ Fl F (curq st1 q2) = Fl F (curq st q2).
Proof.
  intros OK Q1 Q2 NQ [_ SE] N st1. subst st1. cur12 OK Q1 Q2 NQ SE.
  destruct k; unfold norm_kind in N; cbn beta iota zeta in N; subst x1 x2.
  - specialize (SE ltac:(discriminate)). auto.
  - destruct (Nat.eqb_spec (Fl F (curq st q1)) (Fl F (curq st q2))) as [E|]; [|discriminate]. auto.
  - destruct (Nat.eqb_spec (Fl F (curq st q1)) (Fl F (curq st q2))) as [E|]; [|discriminate].
    specialize (SE ltac:(discriminate)). split; [exact E|]. split; congruence.
  - destruct (Nat.eqb_spec (Fl F (curq st q1)) (Fl F (curq st q2))) as [E|]; [|discriminate].
    specialize (SE ltac:(discriminate)). split; [exact E|]. split; congruence.
  - destruct (Nat.eqb_spec (Fl F (curq st q1)) (Fl F (slen st))) as [Ea|]; [|destruct (Nat.eqb _ _); discriminate].
    destruct (Nat.eqb_spec (Fl F (curq st q2)) (Fl F (slen st))) as [Eb|]; [|discriminate].
    specialize (SE ltac:(discriminate)). split; [congruence|]. split; congruence.
Qed.

Lemma norm_gate_facts F st q1 q2 k : norm_kind F st q1 q2 k = CutGate ->
  k = CutGate /\ Fl F (curq st q1) <> Fl F (curq st q2).
Proof.
  unfold norm_kind. cbn zeta. destruct k; try discriminate.
  - destruct (Nat.eqb_spec (Fl F (curq st q1)) (Fl F (curq st q2))); [discriminate|auto].
  - destruct (Nat.eqb _ _); discriminate.
  - destruct (Nat.eqb _ _); discriminate.
  - destruct (Nat.eqb _ _), (Nat.eqb _ _); discriminate.
Qed.

(* outcome left cut: the first fresh segment slen st and the (new) current segment of q2 lie in the final
   component of the old segment of q2, the old segment of q1 does not *)
Lemma norm_left_facts F nq st q1 q2 k : segs_ok nq st -> q1 < nq -> q2 < nq -> q1 <> q2 ->
  step_facts F nq st q1 q2 k -> norm_kind F st q1 q2 k = CutLeft ->
  let st1 := apply_kind st q1 q2 k in
  1 <= kw k /\
  Fl F (curq st q1) <> Fl F (curq st q2) /\ Fl F (slen st) = Fl F (curq st q2) /\
  Fl F (curq st1 q1) = Fl F (curq st q2) /\ Fl F (curq st1 q2) = Fl F (curq st q2).
Proof.
  intros OK Q1 Q2 NQ [_ SE] N st1. subst st1. cur12 OK Q1 Q2 NQ SE.
  destruct k; unfold norm_kind in N; cbn beta iota zeta in N; subst x1 x2; try discriminate.
  - destruct (Nat.eqb _ _); discriminate.
  - destruct (Nat.eqb_spec (Fl F (curq st q1)) (Fl F (curq st q2))) as [|NE]; [discriminate|].
    specialize (SE ltac:(discriminate)). cbn [kw]. auto.
  - destruct (Nat.eqb _ _); discriminate.
  - destruct (Nat.eqb_spec (Fl F (curq st q1)) (Fl F (slen st))) as [|Na]; [destruct (Nat.eqb _ _); discriminate|].
    destruct (Nat.eqb_spec (Fl F (curq st q2)) (Fl F (slen st))) as [Eb|]; [|discriminate].
    specialize (SE ltac:(discriminate)). cbn [kw].
    repeat split; try lia; congruence.
Qed.

(* outcome right cut: the first fresh segment slen st lies in the final component of the old segment of q1 *)
Lemma norm_right_facts F nq st q1 q2 k : segs_ok nq st -> q1 < nq -> q2 < nq -> q1 <> q2 ->
  step_facts F nq st q1 q2 k -> norm_kind F st q1 q2 k = CutRight ->
  let st1 := apply_kind st q1 q2 k in
  1 <= kw k /\
  Fl F (curq st q1) <> Fl F (curq st q2) /\ Fl F (slen st) = Fl F (curq st q1) /\
  Fl F (curq st1 q1) = Fl F (curq st q1) /\ Fl F (curq st1 q2) = Fl F (curq st q1).
Proof.
  intros OK Q1 Q2 NQ [_ SE] N st1. subst st1. cur12 OK Q1 Q2 NQ SE.
  destruct k; unfold norm_kind in N; cbn beta iota zeta in N; subst x1 x2; try discriminate.
  - destruct (Nat.eqb _ _); discriminate.
  - destruct (Nat.eqb _ _); discriminate.
  - destruct (Nat.eqb_spec (Fl F (curq st q1)) (Fl F (curq st q2))) as [|NE]; [discriminate|].
    specialize (SE ltac:(discriminate)). cbn [kw]. auto.
  - destruct (Nat.eqb_spec (Fl F (curq st q1)) (Fl F (slen st))) as [Ea|]; [|destruct (Nat.eqb _ _); discriminate].
    destruct (Nat.eqb_spec (Fl F (curq st q2)) (Fl F (slen st))) as [|Nb]; [discriminate|].
    specialize (SE ltac:(discriminate)). cbn [kw].
    repeat split; try lia; congruence.
Qed.

Lemma norm_both_facts F nq st q1 q2 k : segs_ok nq st -> q1 < nq -> q2 < nq -> q1 <> q2 ->
  step_facts F nq st q1 q2 k -> norm_kind F st q1 q2 k = CutBoth ->
  let st1 := apply_kind st q1 q2 k in
  k = CutBoth /\ Fl F (S (slen st)) = Fl F (slen st) /\
  Fl F (curq st q1) <> Fl F (slen st) /\ Fl F (curq st q2) <> Fl F (slen st) /\
  curq st1 q1 = slen st /\ curq st1 q2 = S (slen st).
Proof.
  intros OK Q1 Q2 NQ [_ SE] N st1. subst st1. cur12 OK Q1 Q2 NQ SE.
  destruct k; unfold norm_kind in N; cbn beta iota zeta in N; subst x1 x2; try discriminate; try (destruct (Nat.eqb _ _); discriminate).
  destruct (Nat.eqb_spec (Fl F (curq st q1)) (Fl F (slen st))) as [|Na]; [destruct (Nat.eqb _ _); discriminate|].
  destruct (Nat.eqb_spec (Fl F (curq st q2)) (Fl F (slen st))) as [|Nb]; [discriminate|].
  specialize (SE ltac:(discriminate)). repeat split; auto.
Qed.

(* the current segments of the other qubits do not move *)
Lemma curq_apply_kind_other nq st q1 q2 k q : segs_ok nq st -> q1 < nq -> q2 < nq -> q <> q1 -> q <> q2 ->
  curq (apply_kind st q1 q2 k) q = curq st q.
Proof.
  intros OK Q1 Q2 N1 N2. rewrite (curq_apply_kind nq) by auto.
  apply Nat.eqb_neq in N1, N2. destruct k; rewrite ?N1, ?N2; reflexivity.
Qed.

(* ------------------------------------------------------------------------------------ *)
(* permitted kinds, factors, number of wire cuts                                          *)
(* ------------------------------------------------------------------------------------ *)
Lemma norm_kind_permitted gl wl gam F st q1 q2 k :
  permitted gl wl gam k = true -> permitted gl wl gam (norm_kind F st q1 q2 k) = true.
Proof.
  intros P. unfold norm_kind. cbn zeta. destruct k; auto.
  - destruct (Nat.eqb _ _); auto.
  - destruct (Nat.eqb _ _); auto.
  - destruct (Nat.eqb _ _); auto.
  - destruct (Nat.eqb _ _), (Nat.eqb _ _); auto.
Qed.

Lemma kind_factor_nonneg gam k : (forall q, gam = Some q -> (1 <= q)%Q) -> (0 <= kind_factor gam k)%Q.
Proof. intros H. eapply Qle_trans; [|apply kind_factor_ge_1; exact H]. discriminate. Qed.

Lemma norm_kind_factor gam F st q1 q2 k : (forall q, gam = Some q -> (1 <= q)%Q) ->
  (kind_factor gam (norm_kind F st q1 q2 k) <= kind_factor gam k)%Q.
Proof.
  intros H. unfold norm_kind. cbn zeta.
  assert (L : forall k', (kind_factor gam Leave <= kind_factor gam k')%Q) by (intros k'; apply (kind_factor_ge_1 gam k' H)).
  destruct k; try apply Qle_refl.
  - destruct (Nat.eqb _ _); [apply L|apply Qle_refl].
  - destruct (Nat.eqb _ _); [apply L|apply Qle_refl].
  - destruct (Nat.eqb _ _); [apply L|apply Qle_refl].
  - destruct (Nat.eqb _ _), (Nat.eqb _ _); try apply L; try apply Qle_refl; cbn; discriminate.
Qed.

Definition pow4 (w : nat) : Q := inject_Z (4 ^ Z.of_nat w).

Lemma pow4_add a b : (pow4 (a + b) == pow4 a * pow4 b)%Q.
Proof.
  unfold pow4. rewrite Nat2Z.inj_add, Z.pow_add_r by lia. unfold Qeq, inject_Z, Qmult. cbn. lia.
Qed.

Lemma pow4_pos w : (0 < pow4 w)%Q.
Proof. unfold pow4, Qlt, inject_Z. cbn. rewrite Z.mul_1_r. apply Z.pow_pos_nonneg; lia. Qed.

Lemma pow4_kw_le gam F st q1 q2 k : (forall q, gam = Some q -> (1 <= q)%Q) ->
  (pow4 (kw (norm_kind F st q1 q2 k)) <= kind_factor gam k)%Q.
Proof.
  intros H. unfold norm_kind. cbn zeta.
  assert (L : forall k', (pow4 0 <= kind_factor gam k')%Q) by (intros k'; apply (kind_factor_ge_1 gam k' H)).
  destruct k; cbn [kw]; try apply L.
  - destruct (Nat.eqb _ _); cbn [kw]; apply L.
  - destruct (Nat.eqb _ _); cbn [kw]; [apply L|]. cbn. discriminate.
  - destruct (Nat.eqb _ _); cbn [kw]; [apply L|]. cbn. discriminate.
  - destruct (Nat.eqb _ _), (Nat.eqb _ _); cbn [kw]; try apply L; cbn; discriminate.
Qed.

(* 4^(wire cuts of the normalised assignment) is at most the cost of the assignment *)
Lemma norm_cost gl wl F : forall gs A st c stn cn, sgammas_ok gs -> (0 <= c)%Q ->
  replay gl wl gs A st c = Some (stn, cn) -> (c * pow4 (wcount (norm F gs A st)) <= cn)%Q.
Proof.
  induction gs as [|[[q1 q2] gam] gs IH]; intros [|k A] st c stn cn G P H; cbn [replay] in H; try discriminate.
  - inversion H; subst. cbn [norm wcount]. unfold pow4. cbn. rewrite Qmult_1_r. apply Qle_refl.
  - destruct (permitted gl wl gam k); [|discriminate]. cbn [norm wcount].
    assert (Gg : forall q, gam = Some q -> (1 <= q)%Q) by (intros q ->; apply (G q1 q2 q); left; reflexivity).
    assert (G' : sgammas_ok gs) by (intros a b q I; apply (G a b q); right; exact I).
    assert (P' : (0 <= c * kind_factor gam k)%Q) by (apply Qmult_le_0_compat; [exact P|now apply kind_factor_nonneg]).
    specialize (IH _ _ _ _ _ G' P' H).
    eapply Qle_trans; [|exact IH]. rewrite pow4_add, Qmult_assoc.
    apply Qmult_le_compat_r; [|apply Qlt_le_weak, pow4_pos].
    rewrite !(Qmult_comm c). apply Qmult_le_compat_r; [|exact P]. now apply pow4_kw_le.
Qed.

(* no wire cut survives if wire cuts are not permitted *)
Lemma norm_kind_kw F st q1 q2 k : kw (norm_kind F st q1 q2 k) <= kw k.
Proof.
  unfold norm_kind. cbn zeta. destruct k; cbn [kw]; auto.
  - destruct (Nat.eqb _ _); cbn [kw]; lia.
  - destruct (Nat.eqb _ _); cbn [kw]; lia.
  - destruct (Nat.eqb _ _); cbn [kw]; lia.
  - destruct (Nat.eqb _ _), (Nat.eqb _ _); cbn [kw]; lia.
Qed.

Lemma norm_wcount_le F : forall gs A st, wcount (norm F gs A st) <= wcount A.
Proof.
  induction gs as [|[[q1 q2] gam] gs IH]; intros [|k A] st; cbn [norm wcount]; try lia.
  pose proof (norm_kind_kw F st q1 q2 k). specialize (IH A (apply_kind st q1 q2 k)). lia.
Qed.

Lemma replay_no_wires gl gs : forall A st c r, replay gl false gs A st c = Some r -> wcount A = 0.
Proof.
  induction gs as [|[[q1 q2] gam] gs IH]; intros [|k A] st c r H; cbn [replay] in H; try discriminate; [reflexivity|].
  destruct (permitted gl false gam k) eqn:P; [|discriminate]. cbn [wcount]. rewrite (IH _ _ _ _ H).
  destruct k; cbn in P; try discriminate; reflexivity.
Qed.

(* two different segments with the same final label need W >= 2 *)
Lemma two_same_label F W x y : (forall L, cnt (Fl F) (length F) L <= W) ->
  x < y -> y < length F -> Fl F x = Fl F y -> 2 <= W.
Proof.
  intros H Hxy Hy E. specialize (H (Fl F y)).
  assert (L : 2 <= cnt (Fl F) (S y) (Fl F y)).
  { rewrite cnt_S, Nat.eqb_refl.
    assert (1 <= cnt (Fl F) y (Fl F y)); [|lia].
    eapply Nat.le_trans; [|apply (cnt_mono _ (S x) y); lia]. rewrite cnt_S, E, Nat.eqb_refl. lia. }
  pose proof (cnt_mono (Fl F) (S y) (length F) (Fl F y) ltac:(lia)). lia.
Qed.

(* with W < 2 an assignment that meets the width limit has no wire cut at all *)
Lemma replay_small_W gl wl nq F W : (forall L, cnt (Fl F) (length F) L <= W) -> W < 2 ->
  forall gs A st c stn cn, sgates_wf nq gs -> segs_ok nq st ->
  replay gl wl gs A st c = Some (stn, cn) -> sg_comp stn = F -> wcount A = 0.
Proof.
  intros HF HW. induction gs as [|[[q1 q2] gam] gs IH]; intros [|k A] st c stn cn WF OK H EF; try (cbn [replay] in H; discriminate); [reflexivity|].
  destruct (replay_step_facts _ _ _ _ _ _ _ _ _ _ _ _ _ WF OK H) as (_ & H' & [SL SE]). rewrite EF in SL, SE.
  destruct (WF q1 q2 gam (or_introl eq_refl)) as (Q1 & Q2 & NQ).
  assert (WF' : sgates_wf nq gs) by (intros a b g I; apply (WF a b g); right; exact I).
  cbn [wcount]. rewrite (IH _ _ _ _ _ WF' (apply_kind_ok nq st q1 q2 k OK) H' EF).
  destruct (curq_apply_kind_12 nq st q1 q2 k OK Q1 Q2 NQ) as [C1 C2]. rewrite C1, C2 in SE.
  rewrite slen_apply_kind in SL. destruct OK as [_ B]. pose proof (B q1 Q1) as B1. pose proof (B q2 Q2) as B2.
  destruct k; cbn [kw] in *; try reflexivity; exfalso; specialize (SE ltac:(discriminate)).
  - assert (2 <= W); [|lia]. apply (two_same_label F W (curq st q2) (slen st)); auto; lia.
  - assert (2 <= W); [|lia]. apply (two_same_label F W (curq st q1) (slen st)); auto; lia.
  - assert (2 <= W); [|lia]. apply (two_same_label F W (slen st) (S (slen st))); auto; lia.
Qed.

(* ------------------------------------------------------------------------------------ *)
(* the wire budget derived from a gamma                                                   *)
(* ------------------------------------------------------------------------------------ *)
Lemma least_pow2_ge fuel : forall j x, j <= least_pow2 fuel j x.
Proof.
  induction fuel as [|f IH]; intros j x; cbn [least_pow2]; [lia|].
  destruct (Qleb x _); [lia|]. specialize (IH (S j) x). lia.
Qed.

Lemma least_pow2_gt k x : (forall i, i <= k -> Qleb x (inject_Z (2 ^ Z.of_nat i)) = false) ->
  forall fuel j, j <= S k -> k < j + fuel -> k < least_pow2 fuel j x.
Proof.
  intros H. induction fuel as [|f IH]; intros j Hj Hk; cbn [least_pow2]; [lia|].
  destruct (Nat.eq_dec j (S k)) as [->|N].
  - destruct (Qleb x _); [lia|]. pose proof (least_pow2_ge f (S (S k)) x). lia.
  - rewrite H by lia. apply IH; lia.
Qed.

(* 4^k <= g  ->  k <= ceil(log2(g+1)) - 1 *)
Lemma max_wire_cuts_gamma_ge k g : (pow4 k <= g)%Q -> k <= max_wire_cuts_gamma g.
Proof.
  intros H. unfold max_wire_cuts_gamma. cbv zeta.
  set (x := Qplus g 1). set (fuel := S (Z.to_nat (Z.log2_up (Qnum x)))).
  assert (P2 : forall i, i <= k -> (inject_Z (2 ^ Z.of_nat i) < x)%Q).
  { intros i Hi. apply Qle_lt_trans with g.
    - eapply Qle_trans; [|exact H]. unfold pow4. rewrite <- Zle_Qle.
      apply Z.le_trans with (2 ^ Z.of_nat k)%Z; [apply Z.pow_le_mono_r; lia|apply Z.pow_le_mono_l; lia].
    - unfold x. rewrite <- (Qplus_0_r g) at 1. apply Qplus_lt_r. reflexivity. }
  assert (LT : k < least_pow2 fuel 0 x).
  { apply least_pow2_gt; try lia.
    - intros i Hi. apply Qleb_false. now apply P2.
    - (* enough fuel: 2^k < x <= Qnum x *)
      specialize (P2 k (le_n _)). unfold Qlt, inject_Z in P2. cbn [Qnum Qden] in P2. rewrite Z.mul_1_r in P2.
      assert (L : (2 ^ Z.of_nat k < Qnum x)%Z).
      { assert (Hp : (0 < 2 ^ Z.of_nat k)%Z) by (apply Z.pow_pos_nonneg; lia).
        assert (Hd : (1 <= Z.pos (Qden x))%Z) by lia. nia. }
      assert (Hx : (0 < Qnum x)%Z) by (assert (0 < 2 ^ Z.of_nat k)%Z by (apply Z.pow_pos_nonneg; lia); lia).
      apply Z.log2_up_lt_pow2 in L; [|exact Hx]. unfold fuel. lia. }
  lia.
Qed.

(* Proofs/ProcessCFP.v — the process-state model with the executable cut-finder model plugged in (Model/ProcessCF.v). *)
From Coq Require Import String QArith.
From CKT Require Import Model.CutFinder.
From CKT Require Import Model.Process Model.ProcessCF Proofs.ProcessP.
Close Scope Q_scope.
Open Scope string_scope.
Open Scope list_scope.

Lemma import_actions_eq : import_actions = Ok import_registry.
Proof. reflexivity. Qed.

(* The action list the search model hard-codes (CutFinderState.search_actions: its own five-element registry filtered by
   the cut groups, then the TwoQubitGates group) IS what get_group("TwoQubitGates") returns on the fresh copy of the
   import-time process registry, for all four option settings. *)
Lemma copy_group_std : forall gl wl, exists c,
  an_copy import_registry (Some (Process.cut_search_groups gl wl)) = Ok c /\
  two_qubit_group c = Some (Some (search_actions gl wl)).
Proof. intros [|] [|]; eexists; split; reflexivity. Qed.

Lemma full_acts_std : forall fuel i,
  find_cuts_full_acts fuel (search_actions (fi_gate_lo i) (fi_wire_lo i)) i = find_cuts_full fuel i.
Proof. reflexivity. Qed.

Lemma public_result_std : forall fuel i, public_result (find_cuts_full fuel i) = find_cuts fuel i.
Proof. intros; unfold find_cuts, public_result. now destruct (find_cuts_full fuel i). Qed.

Lemma ft_beq_refl : forall t, ft_beq t t = true.
Proof.
  intros t; unfold ft_beq. apply list_beq_refl. intros [s|]; simpl; [apply String.eqb_refl|reflexivity].
Qed.

(* with the import-time registry and function table, find_cuts_reg is the cut-finder model of C07 *)
Lemma find_cuts_reg_std : forall fuel a basis t,
  find_cuts_reg fuel
    (an_copy import_registry (Some (Process.cut_search_groups (fi_gate_lo (ca_in a)) (fi_wire_lo (ca_in a)))))
    import_funcs basis a t
  = find_cuts fuel (input_of a basis t).
Proof.
  intros fuel a basis t. unfold find_cuts_reg. rewrite ft_beq_refl; simpl negb; cbv iota.
  destruct (copy_group_std (fi_gate_lo (ca_in a)) (fi_wire_lo (ca_in a))) as [c [E1 E2]].
  rewrite E1, E2.
  change (search_actions (fi_gate_lo (ca_in a)) (fi_wire_lo (ca_in a)))
    with (search_actions (fi_gate_lo (input_of a basis t)) (fi_wire_lo (input_of a basis t))).
  now rewrite full_acts_std, public_result_std.
Qed.

Section CF.
Variable fuel : nat.
Variable st : Z -> nat -> Q.
Variable O : oracles.
Let OC := O_cf fuel st O.

Lemma import_state_run : forall g h, import_state g -> import_state (run OC g h).
Proof.
  intros g h [H1 H2]. pose proof (run_registries OC h g) as R. unfold registries in R.
  inversion R as [[R1 R2 R3 R4]]. split; congruence.
Qed.

Lemma fresh_is_import_state : forall basis np py, import_state (fresh_process import_registry basis np py).
Proof. intros; split; reflexivity. Qed.

(* any tape (seeded or OS entropy): after any history the result is the cut-finder model run on that tape *)
Lemma search_model_any_tape : forall g0 h a s, import_state g0 ->
  snd (step OC (run OC g0 h) (FindCuts OC a s)) =
  RFind OC (find_cuts fuel (input_of a (basis_registry g0) (tape_of OC s))).
Proof.
  intros g0 h a s [H1 H2].
  pose proof (run_registries OC h g0) as R. unfold registries in R. inversion R as [[R1 R2 R3 R4]].
  cbn [step snd]. rewrite greedy_writes_id, R1, R3, R4, H1, H2.
  f_equal. apply (find_cuts_reg_std fuel a (basis_registry g0) (tape_of OC s)).
Qed.

Lemma seeded_search_model : forall g0 h a s, import_state g0 ->
  snd (step OC (run OC g0 h) (FindCuts OC a (Seeded s))) =
  RFind OC (find_cuts fuel (input_of a (basis_registry g0) (st s))).
Proof. intros; now rewrite search_model_any_tape. Qed.

(* same circuit, constraints and seed => same result in every reachable state of every process *)
Lemma seeded_same_everywhere : forall basis np py np' py' h h' a s,
  snd (step OC (run OC (fresh_process import_registry basis np py) h) (FindCuts OC a (Seeded s))) =
  snd (step OC (run OC (fresh_process import_registry basis np' py') h') (FindCuts OC a (Seeded s))).
Proof.
  intros. rewrite !seeded_search_model by apply fresh_is_import_state. reflexivity.
Qed.

End CF.

(* Proofs/DecomposeEqP.v — QPDBasis equality modelled explicitly: what the validation guarantees about the bases of a
   decomposition, and the refinement  decompose_r (object handles, explicit __eq__)  =  decompose (quotient). *)
From CKT Require Import Common.Base Common.Circ Model.Decompose Model.DecomposeEq Proofs.DecomposeP.

(* ====================================================================== *)
(* A. rbasis_eqb decides equality of (qubit count, maps, coefficients)     *)
(* ====================================================================== *)

Lemma bop_beq_eq a b : bop_beq a b = true -> a = b.
Proof. destruct a, b; simpl; try discriminate; auto. intros H; apply Nat.eqb_eq in H; now subst. Qed.
Lemma bop_beq_refl a : bop_beq a a = true.
Proof. destruct a; simpl; auto using Nat.eqb_refl. Qed.

Lemma map_eqb_eq a b : map_eqb a b = true -> a = b.
Proof.
  destruct a as [a0 a1], b as [b0 b1]; unfold map_eqb; simpl. intros H. apply andb_prop in H as [H0 H1].
  f_equal; eapply list_beq_eq; eauto using bop_beq_eq.
Qed.
Lemma map_eqb_refl a : map_eqb a a = true.
Proof. unfold map_eqb. rewrite !list_beq_refl; auto using bop_beq_refl. Qed.

Lemma coeff_eqb_eq a b : coeff_eqb a b = true -> a = b.
Proof.
  destruct a, b; unfold coeff_eqb; simpl. intros H. apply andb_prop in H as [H0 H1].
  apply Z.eqb_eq in H0. apply Pos.eqb_eq in H1. now subst.
Qed.
Lemma coeff_eqb_refl a : coeff_eqb a a = true.
Proof. unfold coeff_eqb. now rewrite Z.eqb_refl, Pos.eqb_refl. Qed.

Theorem rbasis_eqb_spec x y : rbasis_eqb x y = true <-> x = y.
Proof.
  split.
  - destruct x as [n m k], y as [n' m' k']; unfold rbasis_eqb; simpl. intros H.
    apply andb_prop in H as [H Hk]. apply andb_prop in H as [_ H]. apply andb_prop in H as [Hn Hm].
    apply Nat.eqb_eq in Hn. f_equal; [assumption| |]; eapply list_beq_eq; eauto using map_eqb_eq, coeff_eqb_eq.
  - intros <-. unfold rbasis_eqb. rewrite !Nat.eqb_refl. simpl.
    rewrite !list_beq_refl; auto using map_eqb_refl, coeff_eqb_refl.
Qed.

Lemma rbasis_eqb_refl x : rbasis_eqb x x = true.
Proof. now apply rbasis_eqb_spec. Qed.

(* ====================================================================== *)
(* B. accepted => the members of every decomposition carry EQUAL bases     *)
(* ====================================================================== *)

Definition basis_obj_at (re : renv) (c : circ) (p : nat) : option rbasis :=
  match nth_error c p with
  | Some ins => option_map (basis_at re) (basis_of ins)
  | None => None
  end.

Lemma validate_members_r_ok re c b0 pair g :
  validate_members_r re c b0 pair g = Ok tt ->
  forall p, In p g -> basis_obj_at re c p = Some (basis_at re b0).
Proof.
  induction g as [|a g IH]; simpl; intros H p Hin; [contradiction|].
  destruct (nth_error c a) as [i|] eqn:E; [|discriminate].
  destruct (basis_of i) as [b|] eqn:Eb; [|discriminate].
  destruct (rbasis_eqb (basis_at re b0) (basis_at re b)) eqn:Ee; [|discriminate].
  destruct (pair && is_qpd2 i); [discriminate|].
  destruct Hin as [<-|Hin]; [|now apply IH].
  unfold basis_obj_at. rewrite E, Eb. simpl. apply rbasis_eqb_spec in Ee. now rewrite Ee.
Qed.

Lemma validate_group_r_ok re c g :
  validate_group_r re c g = Ok tt -> exists B, forall p, In p g -> basis_obj_at re c p = Some B.
Proof.
  unfold validate_group_r. destruct (negb _); [discriminate|]. destruct g as [|p0 r]; [discriminate|].
  destruct (nth_error c p0) as [i|]; [|discriminate]. destruct (basis_of i) as [b0|]; [|discriminate].
  intros H. exists (basis_at re b0). now apply validate_members_r_ok with (pair := Nat.eqb (length (p0 :: r)) 2).
Qed.

Lemma validate_groups_r_ok re c ids :
  validate_groups_r re c ids = Ok tt ->
  forall g, In g ids -> exists B, forall p, In p g -> basis_obj_at re c p = Some B.
Proof.
  induction ids as [|g0 ids IH]; simpl; intros H g Hg; [contradiction|].
  destruct (validate_group_r re c g0) as [[]| |] eqn:E; simpl in H; try discriminate.
  destruct Hg as [<-|Hg]; [now apply validate_group_r_ok|now apply IH].
Qed.

(* the halves of every accepted decomposition have the same qubit count, the same maps and the same coefficients *)
Theorem accepted_pair_same_basis re c ids :
  validate_r re c ids = Ok tt ->
  forall g p q, In g ids -> In p g -> In q g ->
  exists B, basis_obj_at re c p = Some B /\ basis_obj_at re c q = Some B.
Proof.
  unfold validate_r. destruct (validate_groups_r re c ids) as [[]| |] eqn:E; simpl; try discriminate.
  intros _ g p q Hg Hp Hq. destruct (validate_groups_r_ok re c ids E g Hg) as (B & HB).
  exists B. split; now apply HB.
Qed.

(* ... and a group whose members carry bases that differ in maps OR in coefficients is refused *)
Theorem differing_basis_refused re c nc ids maps g p q Bp Bq :
  ids_in_range c ids -> In g ids -> In p g -> In q g ->
  basis_obj_at re c p = Some Bp -> basis_obj_at re c q = Some Bq ->
  (rmaps Bp <> rmaps Bq \/ rcoeffs Bp <> rcoeffs Bq \/ rnq Bp <> rnq Bq) ->
  decompose_r re c nc ids maps = Refused.
Proof.
  intros Hr Hg Hp Hq HBp HBq Hd. unfold decompose_r.
  assert (Hnc : validate_r re c ids <> Crashed).
  { unfold validate_r.
    assert (Hgs : validate_groups_r re c ids <> Crashed).
    { clear Hg. induction ids as [|g0 ids IH]; simpl; [discriminate|].
      assert (H0 : validate_group_r re c g0 <> Crashed).
      { unfold validate_group_r. destruct (negb _); [discriminate|]. destruct g0 as [|p0 r0] eqn:Eg; [discriminate|].
        assert (Hin : forall x, In x (p0 :: r0) -> x < length c) by (intros x Hx; apply (Hr (p0 :: r0) x); [now left|assumption]).
        destruct (nth_error c p0) as [i|] eqn:E; [|apply nth_error_None in E; specialize (Hin p0 (or_introl eq_refl)); lia].
        destruct (basis_of i) as [b0|]; [|discriminate].
        generalize (Nat.eqb (length (p0 :: r0)) 2). intros pair. revert Hin. generalize (p0 :: r0). clear.
        induction l as [|a l IHl]; simpl; intros Hin; [discriminate|].
        destruct (nth_error c a) as [j|] eqn:Ej; [|apply nth_error_None in Ej; specialize (Hin a (or_introl eq_refl)); lia].
        destruct (basis_of j); [|discriminate]. destruct (rbasis_eqb _ _); [|discriminate].
        destruct (pair && is_qpd2 j); [discriminate|]. apply IHl; auto. }
      destruct (validate_group_r re c g0) as [[]| |]; simpl; try discriminate; [|congruence].
      apply IH. intros g' x Hg' Hx. apply (Hr g' x); [now right|assumption]. }
    destruct (validate_groups_r re c ids) as [[]| |]; simpl; try discriminate; [|congruence].
    destruct (negb _); [discriminate|]. destruct (Nat.eqb _ _); discriminate. }
  destruct (validate_r re c ids) as [[]| |] eqn:Ev; [|reflexivity|congruence].
  exfalso. destruct (accepted_pair_same_basis re c ids Ev g p q Hg Hp Hq) as (B & H1 & H2).
  rewrite HBp in H1. rewrite HBq in H2. inversion H1; inversion H2; subst.
  destruct Hd as [H|[H|H]]; now apply H.
Qed.

(* ====================================================================== *)
(* C. the quotient handle                                                  *)
(* ====================================================================== *)

Lemma first_match_Some x l k j :
  first_match x l k = Some j -> k <= j /\ nth (j - k) l rb_none = x.
Proof.
  revert k; induction l as [|y l IH]; simpl; intros k H; [discriminate|].
  destruct (rbasis_eqb y x) eqn:E.
  - inversion H; subst. rewrite Nat.sub_diag. apply rbasis_eqb_spec in E. split; [lia|exact E].
  - destruct (IH (S k) H) as [H1 H2]. split; [lia|]. replace (j - k) with (S (j - S k)) by lia. exact H2.
Qed.

Lemma first_match_None x l k : first_match x l k = None -> ~ In x l.
Proof.
  revert k; induction l as [|y l IH]; simpl; intros k H; [tauto|].
  destruct (rbasis_eqb y x) eqn:E; [discriminate|]. intros [->|Hin]; [now rewrite rbasis_eqb_refl in E|exact (IH _ H Hin)].
Qed.

Lemma canon_same_object re b : basis_at re (canon_handle re b) = basis_at re b.
Proof.
  unfold canon_handle. destruct (first_match (basis_at re b) re 0) as [j|] eqn:E.
  - apply first_match_Some in E as [_ E]. rewrite Nat.sub_0_r in E. exact E.
  - apply first_match_None in E. unfold basis_at in *.
    rewrite (nth_overflow re rb_none (le_n _)).
    destruct (Nat.lt_ge_cases b (length re)) as [Hlt|Hge]; [exfalso; apply E, nth_In, Hlt|now rewrite nth_overflow].
Qed.

(* equal handles after the quotient <=> QPDBasis.__eq__ on the objects *)
Lemma canon_eqb re b0 b :
  Nat.eqb (canon_handle re b0) (canon_handle re b) = rbasis_eqb (basis_at re b0) (basis_at re b).
Proof.
  apply Bool.eq_iff_eq_true. rewrite Nat.eqb_eq, rbasis_eqb_spec. split.
  - intros H. rewrite <- (canon_same_object re b0), <- (canon_same_object re b). now rewrite H.
  - intros H. unfold canon_handle. now rewrite H.
Qed.

Lemma canon_env re b : nth (canon_handle re b) (map rmaps re) [] = nth b (map rmaps re) [].
Proof.
  change (@nil (list bop * list bop)) with (rmaps rb_none). rewrite !map_nth.
  f_equal. apply canon_same_object.
Qed.

(* ====================================================================== *)
(* D. renaming handles without changing the maps they denote               *)
(* ====================================================================== *)

Lemma basis_of_ren rho i : basis_of (ren rho i) = option_map rho (basis_of i).
Proof. unfold basis_of, ren; simpl. destruct (iop i); reflexivity. Qed.
Lemma is_qpd_ren rho i : is_qpd (ren rho i) = is_qpd i.
Proof. unfold is_qpd, ren; simpl. destruct (iop i); reflexivity. Qed.
Lemma is_qpd2_ren rho i : is_qpd2 (ren rho i) = is_qpd2 i.
Proof. unfold is_qpd2, ren; simpl. destruct (iop i); reflexivity. Qed.
Lemma has_bid_ren rho i : has_bid (ren rho i) = has_bid i.
Proof. unfold has_bid, ren; simpl. destruct (iop i) as [| | | | | |b [m|] l|b h [m|] l|]; reflexivity. Qed.
Lemma set_bid_ren rho m i : set_bid m (ren rho i) = ren rho (set_bid m i).
Proof. unfold set_bid, ren; simpl. destruct (iop i); reflexivity. Qed.

Section Rename.
  Variable env : benv.
  Variable rho : nat -> nat.
  Hypothesis Hrho : forall b, nth (rho b) env [] = nth b env [].
  Let R := ren rho.

  Lemma wfb_ren i : wfb env (R i) = wfb env i.
  Proof.
    unfold wfb, R, ren; simpl. destruct (iop i) as [| | | | | |b [m|] l|b h [m|] l|]; simpl; try reflexivity; now rewrite Hrho.
  Qed.

  Lemma splice_ren i : has_bid i = true -> splice env (R i) = splice env i.
  Proof.
    unfold has_bid, splice, R, ren. destruct i as [o qs cs]; simpl.
    destruct o as [| | | | | |b [m|] l|b h [m|] l|]; simpl; intros H; try reflexivity; try discriminate; now rewrite Hrho.
  Qed.

  Lemma in_range_b_ren c p m : in_range_b env (map R c) p m = in_range_b env c p m.
  Proof.
    unfold in_range_b. rewrite nth_error_map'. destruct (nth_error c p) as [i|]; simpl; [|reflexivity].
    unfold R. rewrite basis_of_ren. destruct (basis_of i) as [b|]; simpl; [|reflexivity]. now rewrite Hrho.
  Qed.

  Lemma maps_in_range_ren c gm : maps_in_range env (map R c) gm = maps_in_range env c gm.
  Proof.
    unfold maps_in_range. apply forallb_ext. intros x. apply forallb_ext. intros p. apply in_range_b_ren.
  Qed.

  Lemma forallb_map_ren (f : instr -> bool) c : (forall i, f (R i) = f i) -> forallb f (map R c) = forallb f c.
  Proof. intros H. induction c as [|x c IH]; simpl; [reflexivity|]. now rewrite H, IH. Qed.

  Lemma mapi_map_ren (f : nat -> instr -> instr) c k :
    (forall j i, f j (R i) = R (f j i)) -> mapi_from k f (map R c) = map R (mapi_from k f c).
  Proof. intros H. revert k; induction c as [|x c IH]; intros k; simpl; [reflexivity|]. now rewrite H, IH. Qed.

  Lemma assign_gm_ren c gm : assign_gm (map R c) gm = map R (assign_gm c gm).
  Proof.
    unfold assign_gm. apply mapi_map_ren. intros j i. destruct (chosen gm j); [apply set_bid_ren|reflexivity].
  Qed.

  Lemma assigned_ren c ids maps : assigned (map R c) ids maps = map R (assigned c ids maps).
  Proof.
    unfold assigned. destruct maps as [mos|]; [|reflexivity]. destruct (all_some mos); [apply assign_gm_ren|reflexivity].
  Qed.

  Lemma spec_ren nc c1 : forallb has_bid c1 = true -> spec env nc (map R c1) = spec env nc c1.
  Proof.
    intros H. unfold spec.
    assert (E : flat_map (splice env) (map R c1) = flat_map (splice env) c1).
    { induction c1 as [|x c1 IH]; simpl in *; [reflexivity|]. apply andb_prop in H as [Hx Hc].
      now rewrite (splice_ren x Hx), (IH Hc). }
    now rewrite E.
  Qed.
End Rename.

(* ====================================================================== *)
(* E. validation: explicit __eq__ on object handles = handle equality on the quotient *)
(* ====================================================================== *)

Lemma validate_members_quot re c b0 pair g :
  validate_members (quotient re c) (canon_handle re b0) pair g = validate_members_r re c b0 pair g.
Proof.
  unfold quotient. induction g as [|a g IH]; simpl; [reflexivity|].
  rewrite nth_error_map'. destruct (nth_error c a) as [i|]; simpl; [|reflexivity].
  rewrite basis_of_ren. destruct (basis_of i) as [b|]; simpl; [|reflexivity].
  rewrite canon_eqb, is_qpd2_ren. destruct (rbasis_eqb _ _); [|reflexivity].
  destruct (pair && is_qpd2 i); [reflexivity|exact IH].
Qed.

Lemma filter_is_qpd_ren rho c : length (filter is_qpd (map (ren rho) c)) = length (filter is_qpd c).
Proof. induction c as [|x c IH]; simpl; [reflexivity|]. rewrite is_qpd_ren. destruct (is_qpd x); simpl; now rewrite IH. Qed.

Theorem validate_quotient re c ids : validate (quotient re c) ids = validate_r re c ids.
Proof.
  unfold validate, validate_r.
  assert (Hg : validate_groups (quotient re c) ids = validate_groups_r re c ids).
  { induction ids as [|g ids IH]; simpl; [reflexivity|]. rewrite IH. f_equal.
    unfold validate_group, validate_group_r. destruct (negb _); [reflexivity|]. destruct g as [|p0 r]; [reflexivity|].
    unfold quotient at 1. rewrite nth_error_map'. destruct (nth_error c p0) as [i|]; cbn [option_map]; [|reflexivity].
    rewrite basis_of_ren. destruct (basis_of i) as [b0|]; cbn [option_map]; [|reflexivity]. apply validate_members_quot. }
  rewrite Hg. unfold quotient. now rewrite filter_is_qpd_ren.
Qed.

(* ====================================================================== *)
(* F. the refinement                                                       *)
(* ====================================================================== *)

(* what happens after an accepted validation, for a circuit c that has the placeholder kinds of an accepted c' *)
Lemma after_validation env c' c nc ids maps :
  valid_grouping c' ids -> map is_qpd2 c = map is_qpd2 c' ->
  (forall g p, In g ids -> In p g -> exists b, placeholder_with c b p) ->
  forallb (wfb env) c = true ->
  res_bind (set_basis_ids env c ids maps) (fun c1 => finish env c1 nc ids) =
  if match maps with
     | None => true
     | Some mos => Nat.eqb (length ids) (length mos) &&
                   match all_some mos with Some ms => maps_in_range env c (combine ids ms) | None => false end
     end && forallb has_bid (assigned c ids maps)
  then Ok (spec env nc (assigned c ids maps)) else Refused.
Proof.
  intros Hv Hk Hp Hw. destruct maps as [mos|]; unfold set_basis_ids, assigned.
  - destruct (Nat.eqb (length ids) (length mos)); cbn [negb andb]; [|reflexivity].
    destruct (all_some mos) as [ms|] eqn:Ea; [|reflexivity].
    rewrite assign_loop_char by (intros g m p Hin Hpg; apply (Hp g p); [now apply in_combine_l in Hin|assumption]).
    destruct (maps_in_range env c (combine ids ms)) eqn:Em; cbn [res_bind andb]; [|reflexivity].
    apply (finish_spec env c' (assign_gm c (combine ids ms)) nc ids Hv); [|exact (assign_wfb env c _ Hw Em)].
    now rewrite assign_kinds.
  - cbn [res_bind andb]. exact (finish_spec env c' c nc ids Hv Hk Hw).
Qed.

Theorem decompose_r_refines re c nc ids maps :
  forallb (wfb (map rmaps re)) c = true ->
  decompose_r re c nc ids maps = decompose (map rmaps re) (quotient re c) nc ids maps.
Proof.
  intros Hw. unfold decompose_r, decompose. rewrite validate_quotient.
  destruct (validate_r re c ids) as [[]| |] eqn:Ev; try reflexivity. cbn [res_bind].
  set (env := map rmaps re). set (rho := canon_handle re).
  assert (Hrho : forall b, nth (rho b) env [] = nth b env []) by (intros b; apply canon_env).
  assert (Hvq : valid_grouping (quotient re c) ids) by (unfold valid_grouping; now rewrite validate_quotient).
  assert (Hk : map is_qpd2 c = map is_qpd2 (quotient re c)).
  { unfold quotient. rewrite map_map. apply map_ext. intros i. now rewrite is_qpd2_ren. }
  assert (Hp : forall g p, In g ids -> In p g -> exists b, placeholder_with c b p).
  { intros g p Hg Hpg. pose proof (validate_ok _ _ Hvq) as (HF & _). rewrite Forall_forall in HF.
    destruct (HF g Hg) as (_ & b' & Hb). destruct (Hb p Hpg) as (i' & Hi' & Hbi').
    unfold quotient in Hi'. rewrite nth_error_map' in Hi'. destruct (nth_error c p) as [i|] eqn:Ei; [|discriminate].
    simpl in Hi'. inversion Hi'; subst i'. rewrite basis_of_ren in Hbi'. destruct (basis_of i) as [b|] eqn:Eb; [|discriminate].
    exists b, i. auto. }
  assert (Hwq : forallb (wfb env) (quotient re c) = true).
  { unfold quotient. fold rho. rewrite (forallb_map_ren rho (wfb env) c (wfb_ren env rho Hrho)). exact Hw. }
  assert (Hpq : forall g p, In g ids -> In p g -> exists b, placeholder_with (quotient re c) b p).
  { intros g p Hg Hpg. pose proof (validate_ok _ _ Hvq) as (HF & _). rewrite Forall_forall in HF.
    destruct (HF g Hg) as (_ & b' & Hb). exists b'. now apply Hb. }
  rewrite (after_validation env (quotient re c) c nc ids maps Hvq Hk Hp Hw).
  rewrite (after_validation env (quotient re c) (quotient re c) nc ids maps Hvq eq_refl Hpq Hwq).
  unfold quotient. fold rho.
  rewrite (assigned_ren rho c ids maps), (forallb_map_ren rho has_bid _ (has_bid_ren rho)).
  assert (Em : match maps with
               | None => true
               | Some mos => Nat.eqb (length ids) (length mos) &&
                   match all_some mos with Some ms => maps_in_range env (map (ren rho) c) (combine ids ms) | None => false end
               end =
               match maps with
               | None => true
               | Some mos => Nat.eqb (length ids) (length mos) &&
                   match all_some mos with Some ms => maps_in_range env c (combine ids ms) | None => false end
               end).
  { destruct maps as [mos|]; [|reflexivity]. destruct (all_some mos); [|reflexivity]. now rewrite (maps_in_range_ren env rho Hrho). }
  rewrite Em. destruct (_ && forallb has_bid (assigned c ids maps)) eqn:Eacc; [|reflexivity].
  apply andb_prop in Eacc as [_ Hb]. now rewrite (spec_ren env rho Hrho nc _ Hb).
Qed.

(* ====================================================================== *)
(* G. the first loop splits EVERY two-qubit placeholder, whatever the listing order *)
(* ====================================================================== *)

Lemma split2_no_2q i x : In x (split2 i) -> is_qpd2 x = false.
Proof.
  unfold split2, halves. destruct i as [o qs cs]; simpl.
  destruct o; simpl; intros H; repeat (destruct H as [<-|H]; [reflexivity|]); try contradiction.
Qed.

Theorem all_2q_split c ids :
  valid_grouping c ids ->
  (forall p, qpd2_at c p -> In p (ids_2q c ids)) /\             (* collected, wherever its group stands in instruction_ids *)
  expand_2q c ids = Ok (flat_map split2 c) /\                   (* each replaced in place by its two halves *)
  (forall x, In x (flat_map split2 c) -> is_qpd2 x = false).    (* none is left *)
Proof.
  intros Hvg. destruct (vg_parts c ids Hvg) as (Hv & Hd & H2). apply validate_ok in Hv as (Hg & Hc).
  split; [|split].
  - intros p (i & Hi & Hq). apply ids_2q_In. split; [|exists i; auto].
    pose proof (covered c ids Hg Hd Hc p i Hi (is_qpd2_is_qpd _ Hq)) as Hin.
    apply in_concat in Hin as (g & Hgi & Hpg).
    assert (Hl : length g = 1) by (apply (H2 g p Hgi Hpg); exists i; auto).
    destruct g as [|a [|? ?]]; simpl in Hl; try lia. destruct Hpg as [->|[]]. exact Hgi.
  - unfold expand_2q. rewrite (ids_2q_sorted c ids Hg Hd Hc H2).
    pose proof (loop_2q_spec c [] 0 0 eq_refl) as L2. cbn [app] in L2. exact L2.
  - intros x Hx. apply in_flat_map in Hx as (i & _ & Hx). exact (split2_no_2q i x Hx).
Qed.

(* in particular two accepted listings of the same circuit (any order of the groups, any order inside a pair) split alike *)
Theorem expand_2q_order_irrelevant c ids ids' :
  valid_grouping c ids -> valid_grouping c ids' -> expand_2q c ids = expand_2q c ids'.
Proof.
  intros H H'. destruct (all_2q_split c ids H) as (_ & -> & _). destruct (all_2q_split c ids' H') as (_ & -> & _). reflexivity.
Qed.

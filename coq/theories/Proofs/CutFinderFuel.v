(* Proofs/CutFinderFuel.v — an explicit fuel bound: with fuel >= tree_size(#multi-qubit gates) + 3 the model of
   find_cuts never runs out of fuel (so the out-of-fuel value is not an outcome that has to be considered), i.e. the
   best-first search and the repeat-until-None driver loop of the implementation terminate.
   Measure: every queue entry at depth d weighs the size of a complete 5-ary tree of height G - d. *)
From Coq Require Import QArith Relations Lia.
From CKT Require Import Model.CutFinder Proofs.UFP Proofs.ConnP Proofs.CutFinderSpec Proofs.CutFinderInv
  Proofs.CutFinderPlan Proofs.CutFinderSearchP Proofs.CutFinderOut Proofs.CutFinderCirc.
Close Scope Q_scope.

Fixpoint tree_size (h : nat) : nat := match h with O => 1 | S h' => 1 + 5 * tree_size h' end.

Definition fuel_bound (ngates : nat) : nat := tree_size ngates + 3.

Lemma tree_size_pos h : 1 <= tree_size h.
Proof. destruct h; simpl; lia. Qed.

(* every action yields at most one successor *)
Lemma prim_len k s g W l : next_state_primitive k s g W = Val l -> length l <= 1.
Proof.
  destruct k; cbn [next_state_primitive];
    [unfold apply_gate|unfold cut_two_qubit_gate|unfold cut_left_wire|unfold cut_right_wire|unfold cut_both_wires];
    intros H;
    repeat (match type of H with
            | context [obind ?m _] => destruct m as [?| | |]; cbn [obind] in H
            | context [if ?b then _ else _] => destruct b
            | context [match ?x with _ => _ end] => destruct x
            end);
    try discriminate; inversion H; simpl; lia.
Qed.

Lemma next_states_over_len acts s g W l : next_states_over acts s g W = Val l -> length l <= length acts.
Proof.
  revert l; induction acts as [|k r IH]; intros l H; simpl in H; [inversion H; simpl; lia|].
  unfold next_state in H at 1.
  destruct (next_state_primitive k s g W) as [l0| | |] eqn:E0; cbn [obind] in H; try discriminate.
  destruct (next_states_over r s g W) as [l1| | |] eqn:E1; cbn [obind] in H; try discriminate.
  inversion H; subst. rewrite app_length, map_length. pose proof (prim_len _ _ _ _ _ E0). specialize (IH _ eq_refl). simpl. lia.
Qed.

Lemma search_actions_len gl wl : length (search_actions gl wl) <= 5.
Proof. destruct gl, wl; simpl; lia. Qed.

Lemma next_states_len fa s l gl wl : fa_actions fa = search_actions gl wl -> next_states fa s = Val l -> length l <= 5.
Proof.
  intros Ha H. unfold next_states in H. destruct (nth_error _ _); [|discriminate].
  destruct (Nat.eqb _ 2); [|discriminate]. apply next_states_over_len in H. rewrite Ha in H.
  pose proof (search_actions_len gl wl). lia.
Qed.

(* weights *)
Definition msum (G : nat) (l : list qentry) : nat := fold_right (fun e acc => tree_size (G - q_depth e) + acc) 0 l.

Lemma msum_cons G e r : msum G (e :: r) = tree_size (G - q_depth e) + msum G r.
Proof. reflexivity. Qed.

Lemma msum_app G l1 l2 : msum G (l1 ++ l2) = msum G l1 + msum G l2.
Proof. induction l1; simpl; lia. Qed.

Lemma extract_min_from_sum G : forall l best acc e rest,
  extract_min_from best acc l = (e, rest) ->
  tree_size (G - q_depth e) + msum G rest = tree_size (G - q_depth best) + msum G acc + msum G l.
Proof.
  induction l as [|x l IH]; intros best acc e rest H; simpl in H.
  - inversion H; subst. simpl. lia.
  - destruct (entry_lt x best); apply IH in H; simpl in *; lia.
Qed.

(* ---------------- comparisons ---------------- *)
Lemma Qleb_refl a : Qleb a a = true.
Proof. unfold Qleb. now rewrite (proj1 (Qeq_alt a a) (Qeq_refl a)). Qed.

Lemma Qltb_false_leb a b : Qltb a b = false -> Qleb b a = true.
Proof.
  unfold Qltb, Qleb. rewrite <- (Qcompare_antisym a b). destruct (Qcompare a b); simpl; auto; discriminate.
Qed.

Section Fuel.
  Variable names : list nat.
  Variable W : nat.
  Hypothesis HW : 1 <= W.
  Hypothesis Hnames : NoDup names.
  Variable gates : list gate_spec.
  Hypothesis Hgates : forall g, In g gates -> gate_wf names g.
  Variables gl wl : bool.
  Variable fa : fargs.
  Hypothesis Hfa_g : fa_gates fa = gates.
  Hypothesis Hfa_W : fa_W fa = W.
  Hypothesis Hfa_a : fa_actions fa = search_actions gl wl.
  Variable tape : nat -> Q.
  Variable max_gamma : Q.
  Variable max_backjumps : option nat.
  Variable M : nat.

  Notation acts := (search_actions gl wl).
  Notation Good := (Good names W gates acts M).
  Notation G := (length gates).

  Definition EOK (e : qentry) : Prop :=
    Good (q_state e) /\ level (q_state e) = q_depth e /\ q_cost e = cost (q_state e).
  Definition BG (b : bfs) : Prop := forall e, In e (pq b) -> EOK e.

  Lemma put_states_meas : forall l b d,
    BG b -> (forall s, In s l -> Good s /\ level s = d) ->
    BG (put_states tape b l d) /\
    msum G (pq (put_states tape b l d)) <= msum G (pq b) + length l * tree_size (G - d) /\
    min_reached (put_states tape b l d) = min_reached b /\ upperbound (put_states tape b l d) = upperbound b.
  Proof.
    induction l as [|s r IH]; intros b d B H; cbn [put_states].
    - split; [exact B|split; [simpl; lia|split; reflexivity]].
    - destruct (H s (or_introl eq_refl)) as [Gs Ls].
      assert (Hr : forall x, In x r -> Good x /\ level x = d) by (intros x Hx; apply H; now right).
      set (bp := incr_enq (pq_put tape b s d (cost s))).
      assert (Bp : BG bp).
      { intros e [<-|He]; [repeat split; auto|now apply B]. }
      assert (Mp : msum G (pq bp) = tree_size (G - d) + msum G (pq b)) by reflexivity.
      destruct (upperbound b) as [u|] eqn:Eu.
      + destruct (Qleb (cost s) u).
        * destruct (IH bp d Bp Hr) as (B' & M' & R' & U'). split; [exact B'|split; [|split]].
          -- rewrite Mp in M'. simpl. lia.
          -- exact R'.
          -- rewrite U'. exact Eu.
        * destruct (IH b d B Hr) as (B' & M' & R' & U'). split; [exact B'|split; [simpl; lia|split; [exact R'|]]].
          rewrite U'. exact Eu.
      + destruct (IH bp d Bp Hr) as (B' & M' & R' & U'). split; [exact B'|split; [|split]].
        -- rewrite Mp in M'. simpl. lia.
        -- exact R'.
        -- rewrite U'. exact Eu.
  Qed.

  Lemma pass_loop_fuel : forall fuel b pd,
    BG b -> msum G (pq b) < fuel ->
    exists b' r, pass_loop tape fa max_gamma max_backjumps fuel b pd = Val (b', r) /\
      BG b' /\ msum G (pq b') <= msum G (pq b) /\
      (r <> None -> min_reached b' = true) /\
      (min_reached b = true -> r = None /\ min_reached b' = true).
  Proof.
    induction fuel as [|f IH]; intros b pd B Hm; [lia|]. cbn [pass_loop].
    destruct (negb _) eqn:Ec.
    { eexists; eexists; split; [reflexivity|]. split; [|split; [|split; [congruence|]]].
      - destruct (pq b) eqn:Ep; [intros e He; cbn in He; rewrite Ep in He; destruct He|exact B].
      - destruct (pq b) eqn:Ep; cbn [pq set_min_reached]; rewrite ?Ep; lia.
      - intros Hmr. split; [reflexivity|]. destruct (pq b); cbn; auto. }
    apply negb_false_iff in Ec. apply andb_prop in Ec as [Ec Hbj]. apply andb_prop in Ec as [Hne Hmr].
    apply negb_true_iff in Hmr.
    destruct (pq b) as [|x l] eqn:Ep; [discriminate|].
    cbn [extract_min]. destruct (extract_min_from x [] l) as [e rest] eqn:Ex.
    pose proof (extract_min_from_sum G _ _ _ _ _ Ex) as Hsum. change (msum G []) with 0 in Hsum.
    destruct (extract_min_from_spec _ _ _ _ _ Ex) as (He & Hrest & _). cbn [app] in Hrest.
    assert (Ee : EOK e) by (apply B; rewrite Ep; exact He).
    destruct Ee as (Ge & Le & Ce).
    set (b0 := mkB rest (pushes b) (upperbound b) (min_reached b) (n_visited b) (n_next b) (n_enq b)
                   (n_backjumps b) (pen_stats b) (n_pushback b)) in *.
    assert (B0 : BG b0) by (intros y Hy; apply B; rewrite Ep; apply Hrest; exact Hy).
    set (b1 := update_minimum_reached b0 (q_cost e)) in *.
    assert (P1 : pq b1 = rest) by (unfold b1, update_minimum_reached; destruct (upperbound b0); [destruct (Qleb _ _)|]; reflexivity).
    assert (B1 : BG b1) by (intros y Hy; rewrite P1 in Hy; apply B0; exact Hy).
    assert (Mb : msum G (x :: l) = tree_size (G - q_depth e) + msum G rest).
    { rewrite msum_cons. lia. }
    destruct (cost_bounds_exceeded max_gamma b1 (q_cost e)).
    { eexists; eexists; split; [reflexivity|]. split; [|split; [|split; [congruence|rewrite Hmr; discriminate]]].
      - destruct (min_reached b1); [exact B1|]. intros y [<-|Hy]; [repeat split; auto|].
        cbn in Hy. rewrite P1 in Hy. apply B0; exact Hy.
      - rewrite Mb. destruct (min_reached b1); cbn [pq pq_put]; rewrite ?msum_cons, P1; cbn [q_depth]; lia. }
    set (b2 := mkB (pq b1) (pushes b1) (upperbound b1) (min_reached b1) (S (n_visited b1)) (n_next b1) (n_enq b1) _ (pen_stats b1) (n_pushback b1)).
    destruct (goal_state fa (q_state e)) eqn:Eg.
    { eexists; eexists; split; [reflexivity|]. split; [|split; [|split; [|rewrite Hmr; discriminate]]].
      - intros y Hy. apply B0. revert Hy. unfold update_minimum_reached, update_upperbound. cbn.
        repeat match goal with |- context [match ?z with _ => _ end] => destruct z end; cbn; rewrite ?P1; auto.
      - rewrite Mb. unfold update_minimum_reached, update_upperbound. cbn [pq upperbound].
        repeat match goal with |- context [match ?z with _ => _ end] => destruct z end; cbn [pq set_min_reached b2]; rewrite ?P1; lia.
      - intros _. unfold update_minimum_reached at 1. unfold update_upperbound. cbn [upperbound].
        destruct (upperbound b2) as [u|].
        + destruct (Qltb (cost (q_state e)) u) eqn:El.
          * rewrite Ce, Qleb_refl. reflexivity.
          * rewrite Ce, (Qltb_false_leb _ _ El). reflexivity.
        + rewrite Ce, Qleb_refl. reflexivity. }
    destruct Ge as [pl Iv].
    destruct (next_states_ok names W HW Hnames gates Hgates acts fa Hfa_g Hfa_W Hfa_a M _ pl Iv Eg) as (l0 & Hl0 & Hall).
    rewrite Hl0. cbn [obind].
    assert (Hch : forall s, In s l0 -> Good s /\ level s = S (q_depth e)).
    { intros s Hs. destruct (Hall s Hs) as (k & _ & I'). split; [eexists; eauto|].
      pose proof (inv_len _ _ _ _ _ _ _ I') as L1. pose proof (inv_len _ _ _ _ _ _ _ Iv) as L0.
      rewrite app_length in L1. simpl in L1. lia. }
    pose proof (next_states_len fa _ _ gl wl Hfa_a Hl0) as Hl5.
    unfold bfs_put.
    set (b3 := mkB (pq b2) (pushes b2) (upperbound b2) (min_reached b2) (n_visited b2) (n_next b2 + length l0) (n_enq b2)
                   (n_backjumps b2) (pen_stats b2) (n_pushback b2)).
    assert (B3 : BG b3) by (intros y Hy; cbn in Hy; rewrite P1 in Hy; apply B0; exact Hy).
    destruct (put_states_meas l0 b3 (S (q_depth e)) B3 Hch) as (B4 & M4 & R4 & U4).
    assert (Hlt : q_depth e < G).
    { unfold goal_state in Eg. rewrite Hfa_g in Eg. apply Nat.leb_gt in Eg. lia. }
    assert (Hts : tree_size (G - q_depth e) = 1 + 5 * tree_size (G - S (q_depth e))).
    { replace (G - q_depth e) with (S (G - S (q_depth e))) by lia. reflexivity. }
    assert (M3 : msum G (pq b3) = msum G rest) by (cbn [pq b3 b2]; rewrite P1; reflexivity).
    assert (Hm' : msum G (pq (put_states tape b3 l0 (S (q_depth e)))) < f) by (rewrite Mb in Hm; nia).
    destruct (IH _ (Some (q_depth e)) B4 Hm') as (b' & r & Hr & B' & M' & R1 & R2).
    exists b', r. split; [exact Hr|]. split; [exact B'|]. split; [rewrite Mb; nia|]. split; [exact R1|].
    rewrite Hmr. discriminate.
  Qed.

  (* ---------------- CutOptimization.optimization_pass and the driver loop ---------------- *)
  Lemma cutopt_pass_fuel fuel co :
    BG (co_engine co) -> msum G (pq (co_engine co)) < fuel ->
    cutopt_pass tape fa max_gamma max_backjumps fuel co = Ref \/
    exists co' r, cutopt_pass tape fa max_gamma max_backjumps fuel co = Val (co', r) /\
      BG (co_engine co') /\ msum G (pq (co_engine co')) <= msum G (pq (co_engine co)) /\
      co_returned co' = true /\
      (co_returned co = true -> r <> None -> min_reached (co_engine co') = true) /\
      (co_returned co = true -> min_reached (co_engine co) = true -> r = None).
  Proof.
    intros B Hm. unfold cutopt_pass, engine_pass.
    destruct (pass_loop_fuel fuel (co_engine co) None B Hm) as (b' & r & Hr & B' & M' & R1 & R2).
    rewrite Hr. cbn [obind].
    destruct r as [[s c]|].
    - right. eexists; eexists; split; [reflexivity|]. cbn [co_engine co_returned].
      split; [exact B'|]. split; [exact M'|]. split; [reflexivity|]. split.
      + intros _ _. apply R1. discriminate.
      + intros _ Hmr. destruct (R2 Hmr) as [C _]. discriminate.
    - destruct (co_returned co) eqn:Eret.
      + right. eexists; eexists; split; [reflexivity|]. cbn [co_engine co_returned].
        split; [exact B'|]. split; [exact M'|]. split; [reflexivity|]. split; [intros _ C; congruence|reflexivity].
      + destruct (co_greedy co) as [g|]; [|now left].
        right. eexists; eexists; split; [reflexivity|]. cbn [co_engine co_returned].
        split; [exact B'|]. split; [exact M'|]. split; [reflexivity|]. split; discriminate.
  Qed.

  Lemma driver_fuel3 fuel : forall p co acc,
    BG (co_engine co) -> msum G (pq (co_engine co)) < fuel ->
    co_returned co = true -> min_reached (co_engine co) = true ->
    driver_loop tape fa max_gamma max_backjumps (S p) fuel co acc <> NoFuel.
  Proof.
    intros p co acc B Hm Hret Hmr. cbn [driver_loop].
    destruct (cutopt_pass_fuel fuel co B Hm) as [E|(co' & r & E & _ & _ & _ & _ & R)]; rewrite E; cbn [obind]; [discriminate|].
    rewrite (R Hret Hmr). discriminate.
  Qed.

  Lemma driver_fuel2 fuel : forall p co acc,
    BG (co_engine co) -> msum G (pq (co_engine co)) < fuel -> co_returned co = true ->
    driver_loop tape fa max_gamma max_backjumps (S (S p)) fuel co acc <> NoFuel.
  Proof.
    intros p co acc B Hm Hret. cbn [driver_loop].
    destruct (cutopt_pass_fuel fuel co B Hm) as [E|(co' & r & E & B' & M' & Hret' & R1 & _)]; rewrite E; cbn [obind]; [discriminate|].
    destruct r as [[s c]|]; [|discriminate].
    apply driver_fuel3; auto; [lia|]. apply R1; [exact Hret|discriminate].
  Qed.

  Lemma driver_fuel1 fuel : forall p co acc,
    BG (co_engine co) -> msum G (pq (co_engine co)) < fuel ->
    driver_loop tape fa max_gamma max_backjumps (S (S (S p))) fuel co acc <> NoFuel.
  Proof.
    intros p co acc B Hm. cbn [driver_loop].
    destruct (cutopt_pass_fuel fuel co B Hm) as [E|(co' & r & E & B' & M' & Hret' & _ & _)]; rewrite E; cbn [obind]; [discriminate|].
    destruct r as [[s c]|]; [|discriminate].
    apply driver_fuel2; auto. lia.
  Qed.
End Fuel.

(* ---------------- optimize ---------------- *)
Lemma optimize_fuel names W (HW : 1 <= W) (Hnames : NoDup names) gates
      (Hgates : forall g, In g gates -> gate_wf names g) gl wl tape mg mb fuel :
  fuel_bound (length gates) <= fuel ->
  optimize tape {| fa_gates := gates; fa_actions := search_actions gl wl; fa_W := W |} mg mb (length names) fuel <> NoFuel.
Proof.
  intros Hf. unfold fuel_bound in Hf.
  set (fa := {| fa_gates := gates; fa_actions := search_actions gl wl; fa_W := W |}).
  unfold optimize.
  destruct (cutopt_init tape fa mg (length names)) as [co| | |] eqn:Ei; cbn [obind]; try discriminate.
  - assert (Hco : exists M, BG names W gates gl wl M (co_engine co) /\ msum (length gates) (pq (co_engine co)) < fuel).
    { unfold cutopt_init in Ei. destruct (greedy_cut_optimization (length names) fa) as [gr| | |]; cbn [obind] in Ei; try discriminate.
      inversion Ei; subst co; clear Ei. cbn [co_engine].
      set (m := match gr with Some g => Nat.min _ _ | None => Nat.min _ _ end).
      exists (length names + m).
      assert (Hb : BG names W gates gl wl (length names + m) (bfs_initialize tape (init_state (length names) m)) /\
                   msum (length gates) (pq (bfs_initialize tape (init_state (length names) m))) = tree_size (length gates)).
      { unfold bfs_initialize, bfs_put. cbn [put_states upperbound]. split.
        - intros e [<-|[]]. split; [|split; reflexivity]. exists []. apply Inv_init; auto.
        - cbn. rewrite Nat.sub_0_r. lia. }
      destruct Hb as [Hb1 Hb2]. destruct gr; cbn [update_upperbound pq]; split; auto; try lia. }
    destruct Hco as (M & B & Hm).
    destruct fuel as [|[|[|f]]]; try (pose proof (tree_size_pos (length gates)); lia).
    pose proof (driver_fuel1 names W HW Hnames gates Hgates gl wl fa eq_refl eq_refl eq_refl tape mg mb M (S (S (S f))) (S f) co [] B Hm) as Hd.
    destruct (driver_loop _ _ _ _ _ _ _ _) as [[co' goals]| | |]; cbn [obind]; try discriminate; [|contradiction].
    destruct goals; discriminate.
  - exfalso. unfold cutopt_init, greedy_cut_optimization in Ei. cbn [fa fa_gates] in Ei. fold fa in Ei.
    destruct (greedy_total names W HW Hnames gates Hgates fa eq_refl eq_refl (search_actions gl wl) eq_refl
                (length names + max_wire_cuts_circuit gates) (length gates)
                (init_state (length names) (max_wire_cuts_circuit gates))) as (r & Hr).
    + exists []. apply Inv_init; auto.
    + cbn. lia.
    + rewrite Hr in Ei. discriminate.
Qed.

(* Proofs/CutFinderPlan.v — the global invariant of reachable search states: a state at level j corresponds to a
   plan (one decision per processed gate); its union-find structure simulates the segment graph of that plan,
   its action list and gamma_UB are those of the plan.  Closed under next_states; holds for everything the greedy
   pass and the best-first search ever touch. *)
From Coq Require Import QArith Relations Lia.
From CKT Require Import Model.CutFinder Proofs.UFP Proofs.ConnP Proofs.CutFinderSpec Proofs.CutFinderInv.
Close Scope Q_scope.

Definition kind_of (k : akind) : ckind :=
  match k with KApply => Leave | KGate => KGateCut | KLeft => KLeftCut | KRight => KRightCut | KBoth => KBothCut end.

(* the actions a decision appends *)
Definition new_actions (k : akind) (s : dstate) (g : gate_spec) : list action :=
  match k with
  | KApply => []
  | KGate => [mkA CutTwoQubitGate g [[1; get_wire s (q1_of g)]; [2; get_wire s (q2_of g)]]]
  | KLeft => [mkA CutLeftWire g [[1; get_wire s (q1_of g); num_wires s]]]
  | KRight => [mkA CutRightWire g [[2; get_wire s (q2_of g); num_wires s]]]
  | KBoth => [mkA CutBothWires g [[1; get_wire s (q1_of g); num_wires s]; [2; get_wire s (q2_of g); S (num_wires s)]]]
  end.

Definition gamma_or_1 (g : gate_spec) : Q := match g_gamma g with Some x => x | None => 1%Q end.

Definition kind_mult (k : ckind) (g : gate_spec) : Q :=
  match k with
  | Leave => 1%Q
  | KGateCut => gamma_or_1 g
  | KLeftCut => left_wire_mult
  | KRightCut => right_wire_mult
  | KBothCut => both_wires_mult
  end.

(* replaying the recorded actions on (wiremap, num_wires): the wire ids stored in the arguments are the ones the
   state had when the action was taken *)
Definition astep (st : option (list nat * nat)) (a : action) : option (list nat * nat) :=
  match st with
  | None => None
  | Some (wm, nw) =>
      let g := a_gate a in
      match a_name a, a_args a with
      | CutTwoQubitGate, _ => Some (wm, nw)
      | CutLeftWire, [[1; w; r]] =>
          if Nat.eqb w (nth (q1_of g) wm 0) && Nat.eqb r nw then Some (upd wm (q1_of g) nw, S nw) else None
      | CutRightWire, [[2; w; r]] =>
          if Nat.eqb w (nth (q2_of g) wm 0) && Nat.eqb r nw then Some (upd wm (q2_of g) nw, S nw) else None
      | CutBothWires, [[1; w; r]; [2; w'; r']] =>
          if Nat.eqb w (nth (q1_of g) wm 0) && Nat.eqb r nw && Nat.eqb w' (nth (q2_of g) wm 0) && Nat.eqb r' (S nw)
          then Some (upd (upd wm (q1_of g) nw) (q2_of g) (S nw), S (S nw)) else None
      | _, _ => None
      end
  end.

Definition replay (A : list action) (wm : list nat) (nw : nat) := fold_left astep A (Some (wm, nw)).

Lemma InvU_set_level names W s cur E l : InvU names W s cur E -> InvU names W (set_level s l) cur E.
Proof.
  intros I. destruct I. constructor; cbn; auto.
  destruct iu_sim as [phi P]. exists phi. destruct P; constructor; cbn; auto.
Qed.

Section Step.
  Variable names : list nat.
  Variable W : nat.
  Hypothesis HW : 1 <= W.
  Hypothesis Hnames : NoDup names.

  Notation InvU := (InvU names W).
  Notation gate_wf := (gate_wf names).
  Notation Q1 := (Q1 names).
  Notation Q2 := (Q2 names).

  Lemma next_state_ok s cur E g k :
    InvU s cur E -> gate_wf g ->
    exists l, next_state k s g W = Val l /\
      forall s', In s' l ->
        InvU s' (fst (kind_step (Q1 g) (Q2 g) (kind_of k) (cur, E))) (snd (kind_step (Q1 g) (Q2 g) (kind_of k) (cur, E))) /\
        level s' = S (level s) /\ length (uptree s') = length (uptree s) /\
        num_wires s <= num_wires s' /\ num_wires s' <= num_wires s + 2 /\
        (gamma_UB s' == gamma_UB s * kind_mult (kind_of k) g)%Q /\
        (k = KGate -> g_gamma g <> None) /\
        actions s' = actions s ++ new_actions k s g /\
        fold_left astep (new_actions k s g) (Some (wiremap s, num_wires s)) = Some (wiremap s', num_wires s') /\
        (k = KApply -> no_merge s' = no_merge s).
  Proof.
    intros I G. unfold next_state. destruct k; cbn [next_state_primitive kind_of kind_step fst snd new_actions kind_mult].
    - destruct (apply_gate_ok names W HW Hnames s cur E g I G) as (l & Hl & Hall & _).
      rewrite Hl. cbn [obind]. eexists; split; [reflexivity|].
      intros s' Hin. apply in_map_iff in Hin as (s0 & <- & Hin).
      destruct (Hall s0 Hin) as (IU & Enm & Enw & Elen & Eg & Ea & El & Ewm).
      split; [now apply InvU_set_level|]. cbn. rewrite Enw, Elen, Eg, Ea, app_nil_r, Ewm.
      repeat match goal with |- _ /\ _ => split end; auto; try lia; try (intros; discriminate); try reflexivity; try ring.
    - destruct (gate_cut_ok names W HW Hnames s cur E g I G) as (l & Hl & Hall & _).
      rewrite Hl. cbn [obind]. eexists; split; [reflexivity|].
      intros s' Hin. apply in_map_iff in Hin as (s0 & <- & Hin).
      destruct (Hall s0 Hin) as (gam & Eg & _ & IU & Enw & Elen & Egam & Ea & El & Ewm).
      split; [now apply InvU_set_level|]. cbn. rewrite Enw, Elen, Egam, Ea, Ewm. unfold gamma_or_1. rewrite Eg.
      repeat match goal with |- _ /\ _ => split end; auto; try lia; try (intros; discriminate); try reflexivity; try ring.
    - destruct (left_cut_ok names W HW Hnames s cur E g I G) as (l & Hl & Hall & _).
      rewrite Hl. cbn [obind]. eexists; split; [reflexivity|].
      intros s' Hin. apply in_map_iff in Hin as (s0 & <- & Hin).
      destruct (Hall s0 Hin) as (IU & Enw & Elen & Egam & Ea & El & Ewm).
      split; [now apply InvU_set_level|]. cbn. rewrite Enw, Elen, Egam, Ea, Ewm. unfold get_wire. rewrite !Nat.eqb_refl. cbn.
      repeat match goal with |- _ /\ _ => split end; auto; try lia; try (intros; discriminate); try reflexivity; try ring.
    - destruct (right_cut_ok names W HW Hnames s cur E g I G) as (l & Hl & Hall & _).
      rewrite Hl. cbn [obind]. eexists; split; [reflexivity|].
      intros s' Hin. apply in_map_iff in Hin as (s0 & <- & Hin).
      destruct (Hall s0 Hin) as (IU & Enw & Elen & Egam & Ea & El & Ewm).
      split; [now apply InvU_set_level|]. cbn. rewrite Enw, Elen, Egam, Ea, Ewm. unfold get_wire. rewrite !Nat.eqb_refl. cbn.
      repeat match goal with |- _ /\ _ => split end; auto; try lia; try (intros; discriminate); try reflexivity; try ring.
    - destruct (both_cut_ok names W HW Hnames s cur E g I G) as (l & Hl & Hall & _).
      rewrite Hl. cbn [obind]. eexists; split; [reflexivity|].
      intros s' Hin. apply in_map_iff in Hin as (s0 & <- & Hin).
      destruct (Hall s0 Hin) as (IU & Enw & Elen & Egam & Ea & El & Ewm).
      split; [now apply InvU_set_level|]. cbn. rewrite Enw, Elen, Egam, Ea, Ewm. unfold get_wire. rewrite !Nat.eqb_refl. cbn.
      repeat match goal with |- _ /\ _ => split end; auto; try lia; try (intros; discriminate); try reflexivity; try ring.
  Qed.
End Step.

(* ---------------- plans as lists: one decision per processed gate ---------------- *)
Definition akey (a : action) : aname * gate_spec := (a_name a, a_gate a).

Definition kind_names (k : ckind) (g : gate_spec) : list (aname * gate_spec) :=
  match k with
  | Leave => []
  | KGateCut => [(CutTwoQubitGate, g)]
  | KLeftCut => [(CutLeftWire, g)]
  | KRightCut => [(CutRightWire, g)]
  | KBothCut => [(CutBothWires, g)]
  end.

Fixpoint plan_actions (gk : list (gate_spec * ckind)) : list (aname * gate_spec) :=
  match gk with
  | [] => []
  | (g, k) :: r => kind_names k g ++ plan_actions r
  end.

Fixpoint plan_gamma (gk : list (gate_spec * ckind)) : Q :=
  match gk with
  | [] => 1%Q
  | (g, k) :: r => (kind_mult k g * plan_gamma r)%Q
  end.

Definition args_ok (a : action) : Prop :=
  match a_name a with
  | CutTwoQubitGate => g_gamma (a_gate a) <> None
  | CutLeftWire => exists w r, a_args a = [[1; w; r]]
  | CutRightWire => exists w r, a_args a = [[2; w; r]]
  | CutBothWires => exists w r w' r', a_args a = [[1; w; r]; [2; w'; r']]
  end.

Lemma plan_actions_app l1 l2 : plan_actions (l1 ++ l2) = plan_actions l1 ++ plan_actions l2.
Proof. induction l1 as [|[g k] r IH]; simpl; [reflexivity|]. now rewrite IH, app_assoc. Qed.

Lemma plan_gamma_app l1 l2 : (plan_gamma (l1 ++ l2) == plan_gamma l1 * plan_gamma l2)%Q.
Proof. induction l1 as [|[g k] r IH]; simpl; [ring|]. rewrite IH. ring. Qed.

Lemma combine_snoc {A B} (l : list A) (pl : list B) (k : B) (d : A) :
  length pl < length l -> combine l (pl ++ [k]) = combine l pl ++ [(nth (length pl) l d, k)].
Proof.
  revert pl; induction l as [|x l IH]; intros pl H; simpl in H; [lia|].
  destruct pl as [|p pl]; simpl.
  - destruct l; reflexivity.
  - f_equal. apply IH. simpl in H; lia.
Qed.

Section Global.
  Variable names : list nat.
  Variable W : nat.
  Hypothesis HW : 1 <= W.
  Hypothesis Hnames : NoDup names.
  Variable gates : list gate_spec.
  Hypothesis Hgates : forall g, In g gates -> gate_wf names g.
  Variable acts : list akind.          (* the permitted actions (search_actions gate_lo wire_lo) *)

  Fixpoint arun (gk : list (gate_spec * ckind)) (ce : (nat -> nat) * list (node * node)) :=
    match gk with
    | [] => ce
    | (g, k) :: r => arun r (kind_step (Q1 names g) (Q2 names g) k ce)
    end.

  Lemma arun_app l1 l2 ce : arun (l1 ++ l2) ce = arun l2 (arun l1 ce).
  Proof. revert ce; induction l1 as [|[g k] r IH]; intros ce; simpl; [reflexivity|apply IH]. Qed.

  Definition abs_of (pl : list ckind) := arun (combine gates pl) (cur0, []).

  Record Inv (M : nat) (s : dstate) (pl : list ckind) : Prop := {
    inv_len : length pl = level s ;
    inv_lvl : level s <= length gates ;
    inv_u : InvU names W s (fst (abs_of pl)) (snd (abs_of pl)) ;
    inv_acts : map akey (actions s) = plan_actions (combine gates pl) ;
    inv_args : Forall args_ok (actions s) ;
    inv_gamma : (gamma_UB s == plan_gamma (combine gates pl))%Q ;
    inv_nw : num_wires s <= length names + 2 * level s ;
    inv_len_u : length (uptree s) = M ;
    inv_kinds : Forall (fun kd => exists k, In k acts /\ kind_of k = kd) pl ;
    inv_trace : replay (actions s) (seq 0 (length names)) (length names) = Some (wiremap s, num_wires s) ;
    inv_nm : (forall kd, In kd pl -> kd = Leave) -> no_merge s = []
  }.

  Lemma Inv_init m : Inv (length names + m) (init_state (length names) m) [].
  Proof.
    constructor; cbn; try reflexivity; try lia.
    - unfold abs_of. destruct gates; cbn; apply InvU_init; auto.
    - unfold abs_of. destruct gates; reflexivity.
    - constructor.
    - destruct gates; reflexivity.
    - unfold uf_init. now rewrite seq_length.
    - constructor.
  Qed.

  Lemma Inv_step M s pl k l s' (dg : gate_spec) :
    Inv M s pl -> level s < length gates -> In k acts ->
    next_state k s (nth (level s) gates dg) W = Val l -> In s' l ->
    Inv M s' (pl ++ [kind_of k]).
  Proof.
    intros I Hlvl Hk Hns Hin.
    set (g := nth (level s) gates dg) in *.
    assert (Hg : In g gates) by (apply nth_In; auto).
    destruct (next_state_ok names W HW Hnames s _ _ g k (inv_u _ _ _ I) (Hgates g Hg)) as (l0 & Hl0 & Hall).
    rewrite Hns in Hl0. inversion Hl0; subst l0.
    destruct (Hall s' Hin) as (IU & El & Elen & Hnw1 & Hnw2 & Egam & Hgc & Ea & Etr & Hnm).
    assert (Ec : combine gates (pl ++ [kind_of k]) = combine gates pl ++ [(g, kind_of k)]).
    { unfold g. rewrite <- (inv_len _ _ _ I). apply combine_snoc. rewrite (inv_len _ _ _ I). exact Hlvl. }
    assert (Eabs : abs_of (pl ++ [kind_of k]) = kind_step (Q1 names g) (Q2 names g) (kind_of k) (abs_of pl)).
    { unfold abs_of. rewrite Ec, arun_app. reflexivity. }
    constructor.
    - rewrite app_length, (inv_len _ _ _ I), El. simpl. lia.
    - rewrite El. lia.
    - rewrite Eabs. destruct (abs_of pl) as [cur E]. exact IU.
    - rewrite Ea, map_app, (inv_acts _ _ _ I), Ec, plan_actions_app. f_equal.
      destruct k; reflexivity.
    - rewrite Ea. apply Forall_app; split; [apply (inv_args _ _ _ I)|].
      destruct k; cbn; repeat constructor; unfold args_ok; cbn; eauto.
    - rewrite Egam, (inv_gamma _ _ _ I), Ec, plan_gamma_app. simpl. ring.
    - pose proof (inv_nw _ _ _ I). rewrite El. lia.
    - rewrite Elen. apply (inv_len_u _ _ _ I).
    - apply Forall_app; split; [apply (inv_kinds _ _ _ I)|]. constructor; [eauto|constructor].
    - unfold replay. rewrite Ea, fold_left_app. fold (replay (actions s) (seq 0 (length names)) (length names)).
      rewrite (inv_trace _ _ _ I). exact Etr.
    - intros Hall'. assert (Ek : kind_of k = Leave) by (apply Hall'; apply in_or_app; right; now left).
      destruct k; try discriminate. rewrite (Hnm eq_refl). apply (inv_nm _ _ _ I).
      intros kd Hkd. apply Hall'. apply in_or_app. now left.
  Qed.

  Variable fa : fargs.
  Hypothesis Hfa_g : fa_gates fa = gates.
  Hypothesis Hfa_W : fa_W fa = W.
  Hypothesis Hfa_a : fa_actions fa = acts.

  Lemma next_states_over_ok M s pl acts' (dg : gate_spec) :
    Inv M s pl -> level s < length gates -> incl acts' acts ->
    exists l, next_states_over acts' s (nth (level s) gates dg) W = Val l /\
      forall s', In s' l -> exists k, In k acts' /\ Inv M s' (pl ++ [kind_of k]).
  Proof.
    intros I Hlvl. induction acts' as [|k r IH]; intros Hincl; simpl.
    - exists []; split; [reflexivity|intros s' []].
    - set (g := nth (level s) gates dg) in *.
      assert (Hg : In g gates) by (apply nth_In; auto).
      destruct (next_state_ok names W HW Hnames s _ _ g k (inv_u _ _ _ I) (Hgates g Hg)) as (l0 & Hl0 & _).
      rewrite Hl0. cbn [obind]. destruct IH as (l1 & Hl1 & Hall1); [intros x Hx; apply Hincl; now right|].
      rewrite Hl1. cbn [obind].
      eexists; split; [reflexivity|]. intros s' Hin. apply in_app_or in Hin as [Hin|Hin].
      + exists k; split; [now left|]. eapply Inv_step; eauto. apply Hincl; now left.
      + destruct (Hall1 s' Hin) as (k' & Hk' & I'). exists k'; split; [now right|exact I'].
  Qed.

  Lemma next_states_ok M s pl :
    Inv M s pl -> goal_state fa s = false ->
    exists l, next_states fa s = Val l /\
      forall s', In s' l -> exists k, In k (fa_actions fa) /\ Inv M s' (pl ++ [kind_of k]).
  Proof.
    intros I Hgoal. unfold goal_state in Hgoal. rewrite Hfa_g in Hgoal.
    apply Nat.leb_gt in Hgoal. unfold next_states. rewrite Hfa_g, Hfa_W.
    destruct (nth_error gates (level s)) as [g|] eqn:Eg; [|apply nth_error_None in Eg; lia].
    assert (Hg : In g gates) by (eapply nth_error_In; eauto).
    destruct (Hgates g Hg) as (GL & _). rewrite GL. simpl.
    rewrite <- (nth_error_nth _ _ g Eg). rewrite Hfa_a. apply next_states_over_ok; auto. apply incl_refl.
  Qed.

  Definition Good (M : nat) (s : dstate) : Prop := exists pl, Inv M s pl.

  Lemma Good_next M s l : Good M s -> goal_state fa s = false -> next_states fa s = Val l ->
    forall s', In s' l -> Good M s'.
  Proof.
    intros [pl I] Hg Hl s' Hin. destruct (next_states_ok M s pl I Hg) as (l0 & Hl0 & Hall).
    rewrite Hl in Hl0; inversion Hl0; subst l0. destruct (Hall s' Hin) as (k & _ & I'). eexists; eauto.
  Qed.
End Global.

(* Proofs/ExperimentsC.v — C05 composed with the models of its two oracles:
     the weights dictionary  = what the C04 model (Model/Weights.v: gen_weights, final_sort) returns,
     the observable groups   = what the C11 model (Model/Grouping.v: collection) returns,
   plus the per-partition projection for any number of partitions.
   Names of the C04/C11 developments are used qualified (WeightsGen.valid / DecomposeP.valid etc. would clash). *)
From Coq Require Import QArith Qabs Sorted Permutation Lia.
From CKT Require Import Common.Base Common.Circ Model.Decompose Model.Measurement Model.Observables Model.Grouping
  Model.Experiments Proofs.DecomposeP Proofs.ExperimentsP.
From CKT Require Extracted.Facts Model.Weights Proofs.WeightsP Proofs.WeightsGen Proofs.WeightsTab Proofs.WeightsSort
  Proofs.GroupingP Proofs.RoundtripP.
Close Scope Q_scope.

(* ====================================================================== *)
(* A. the probability vectors handed to the C04 model                      *)
(* ====================================================================== *)
Lemma probs_of_nonneg C : Forall WeightsTab.nonneg (probs_of C).
Proof.
  unfold probs_of. apply Forall_forall. intros v Hv. apply in_map_iff in Hv as (cs & <- & _).
  unfold WeightsTab.nonneg. apply Forall_forall. intros x Hx. apply in_map_iff in Hx as (c & <- & _).
  unfold Qdiv. apply Qmult_le_0_compat; [apply Qabs_nonneg|]. apply Qinv_le_0_compat, kappa_of_nonneg.
Qed.

Lemma probs_of_nonneg' C : Forall (Forall (fun x => (0 <= x)%Q)) (probs_of C).
Proof. exact (probs_of_nonneg C). Qed.

Lemma nth_probs_of_length C k : length (nth k (probs_of C) []) = length (nth k C []).
Proof.
  unfold probs_of.
  change (@nil Q) with ((fun cs : list Q => map (fun c => (Qabs c / kappa_of cs)%Q) cs) []) at 1.
  rewrite map_nth. apply map_length.
Qed.

(* a key that is in range for the probability vectors selects a coefficient in every basis *)
Lemma in_range_chosen : forall C ids,
  length ids = length C -> (forall k, k < length ids -> nth k ids 0 < length (nth k C [])) ->
  exists cs, chosen_coeffs C ids = Ok cs.
Proof.
  induction C as [|v C IH]; intros [|i ids] Hl Hr; try discriminate.
  - exists []. reflexivity.
  - cbn [chosen_coeffs]. pose proof (Hr 0 (Nat.lt_0_succ _)) as H0. cbn [nth] in H0.
    destruct (nth_error v i) as [c|] eqn:E; [|apply nth_error_None in E; lia].
    destruct (IH ids) as (cs & Hcs).
    + simpl in Hl. lia.
    + intros k Hk. apply (Hr (S k)). simpl. lia.
    + exists (c :: cs). now rewrite Hcs.
Qed.

(* ====================================================================== *)
(* B. every dictionary the C04 model returns is acceptable to `core`:      *)
(*    distinct keys, each key selects coefficients, no chosen product is 0 *)
(* ====================================================================== *)
Theorem c04_dictionary_ok C perms N tape r :
  (forall v, In v C -> ~ (kappa_of v == 0)%Q) ->
  Weights.sorting_perms_b (probs_of C) perms = true ->
  Weights.gen_weights (probs_of C) perms N tape = Some (Ok r) ->
  let W := of_wdict (Weights.final_sort r) in
  NoDup (map s_ids W) /\
  forall s, In s W -> exists cs, chosen_coeffs C (s_ids s) = Ok cs /\ ~ (prodQ cs == 0)%Q.
Proof.
  intros Hk Hs Hg W. pose proof (WeightsSort.result_nodup _ _ _ _ _ Hg) as Hnd.
  split.
  - unfold W. rewrite bridge_keys.
    eapply Permutation_NoDup; [apply Permutation_sym, Permutation_map, WeightsSort.final_sort_perm|exact Hnd].
  - intros s Hin. unfold W, of_wdict in Hin. apply in_map_iff in Hin as ([ids [w t]] & <- & Hin).
    cbn [s_ids fst snd].
    apply (Permutation_in _ (WeightsSort.final_sort_perm r)) in Hin.
    pose proof (WeightsP.In_dget_NoDup r ids (w, t) Hnd Hin) as Hd.
    destruct (WeightsTab.no_zero (probs_of C) perms N tape r ids w t (probs_of_nonneg C) Hs Hg Hd) as (Hpos & Hl & Hr).
    destruct (in_range_chosen C ids) as (cs & Hcs).
    + rewrite Hl. unfold probs_of. apply map_length.
    + intros k Hkk. rewrite <- nth_probs_of_length. now apply Hr.
    + exists cs. split; [exact Hcs|]. intros H0.
      pose proof (jointp_probs C ids cs Hcs Hk) as Hj. rewrite bridge_joint_prob in Hj.
      assert (Ha : (Qabs (prodQ cs) == 0)%Q) by (rewrite H0; reflexivity).
      rewrite qprod_abs, <- Hj in Ha.
      apply Qmult_integral in Ha as [Ha|Ha].
      * rewrite Ha in Hpos. exact (Qlt_irrefl _ Hpos).
      * revert Ha. clear -Hk. unfold kappa_all. induction C as [|v C IH]; [discriminate|].
        cbn [map prodQ fold_right]. fold (prodQ (map kappa_of C)). intros H.
        apply Qmult_integral in H as [H|H]; [apply (Hk v); [now left|exact H]|].
        apply IH; [intros; apply Hk; now right|exact H].
Qed.

(* any budget: with a dictionary of the C04 model the hypothesis "no chosen product is 0" of sum|coeff| = kappa is
   discharged; what remains is positivity of the returned weights (proved below for the infinite budget only) *)
Theorem sum_kappa_c04 gh gsx env C table og perms N tape r out coeffs :
  (forall v, In v C -> ~ (kappa_of v == 0)%Q) ->
  Weights.sorting_perms_b (probs_of C) perms = true ->
  Weights.gen_weights (probs_of C) perms N tape = Some (Ok r) ->
  let W := of_wdict (Weights.final_sort r) in
  core gh gsx env C table og W = Ok (out, coeffs) ->
  W <> [] -> (forall s, In s W -> (0 < s_w s)%Q) ->
  (sumQ (map (fun c => Qabs (fst c)) coeffs) == kappa_all C)%Q.
Proof.
  intros Hk Hs Hg W Hc Hne Hpos.
  destruct (c04_dictionary_ok C perms N tape r Hk Hs Hg) as (_ & Hnz). fold W in Hnz.
  pose proof (core_coeffs _ _ _ _ _ _ _ _ _ Hc) as HF.
  assert (Htot : (0 < total_weight W)%Q).
  { rewrite total_weight_eq. destruct W as [|a W']; [congruence|]. cbn [map sumQ fold_right]. fold (sumQ (map s_w W')).
    apply Qlt_le_trans with (s_w a + 0)%Q; [rewrite Qplus_0_r; apply Hpos; now left|].
    apply Qplus_le_r, qsum_nonneg. intros x Hx. apply in_map_iff in Hx as (y & <- & Hy).
    apply Qlt_le_weak, Hpos. now right. }
  rewrite (sum_abs_coeffs C _ _ _ HF Htot).
  - rewrite <- (qsum_perm _ _ (Permutation_map s_w (sort_perm W))), <- total_weight_eq. field.
    intros E. rewrite E in Htot. exact (Qlt_irrefl _ Htot).
  - intros s Hin. apply Qlt_le_weak, Hpos. eapply Permutation_in; [apply Permutation_sym, sort_perm|exact Hin].
  - intros s cs Hin Hcs. assert (Hin' : In s W) by (eapply Permutation_in; [apply Permutation_sym, sort_perm|exact Hin]).
    destruct (Hnz s Hin') as (cs' & Hcs' & Hn). rewrite Hcs in Hcs'. inversion Hcs'; subst. exact Hn.
Qed.

(* ====================================================================== *)
(* C. infinite budget, end to end for the coefficients                     *)
(* ====================================================================== *)
Lemma sumQ_pos {A} (f : A -> Q) l : l <> [] -> (forall x, In x l -> (0 < f x)%Q) -> (0 < sumQ (map f l))%Q.
Proof.
  destruct l as [|a l]; [congruence|]. intros _ H. cbn [map sumQ fold_right].
  fold (sumQ (map f l)).
  apply Qlt_le_trans with (f a + 0)%Q; [rewrite Qplus_0_r; apply H; now left|].
  apply Qplus_le_r. apply qsum_nonneg. intros x Hx. apply in_map_iff in Hx as (y & <- & Hy).
  apply Qlt_le_weak, H. now right.
Qed.

(* the weights of the infinite-budget dictionary of the C04 model are positive *)
Lemma inf_weights_pos C perms tape r :
  Forall (fun v => exists x, In x v /\ (Facts.nonzero_atol < x)%Q) (probs_of C) ->
  Weights.gen_weights (probs_of C) perms Weights.PInf tape = Some (Ok r) ->
  forall s, In s (of_wdict (Weights.final_sort r)) -> (0 < s_w s)%Q.
Proof.
  intros Hbig Hg s Hin.
  rewrite (WeightsGen.infinite_budget (probs_of C) perms tape (probs_of_nonneg' C) Hbig) in Hg.
  inversion Hg; subst r; clear Hg.
  unfold of_wdict in Hin. apply in_map_iff in Hin as ([ids [w t]] & <- & Hin). cbn [s_w fst snd].
  apply (Permutation_in _ (WeightsSort.final_sort_perm _)) in Hin.
  assert (Hnd : NoDup (map fst (Weights.all_exact (probs_of C) 1))).
  { apply (WeightsSort.result_nodup (probs_of C) perms Weights.PInf tape).
    apply WeightsGen.infinite_budget; [apply probs_of_nonneg'|exact Hbig]. }
  pose proof (WeightsP.In_dget_NoDup _ ids (w, t) Hnd Hin) as Hd.
  destruct (proj2 (WeightsGen.all_exact_spec (probs_of C) 1 ids) w t Hd) as (_ & _ & Hge & _ & ->).
  eapply Qlt_le_trans; [apply WeightsGen.atol_pos|].
  eapply Qle_trans; [exact Hge|]. rewrite Qmult_1_l. apply Qle_refl.
Qed.

Lemma kappa_all_pos C : (forall v, In v C -> ~ (kappa_of v == 0)%Q) -> (0 < kappa_all C)%Q.
Proof.
  intros Hk. unfold kappa_all. induction C as [|v C IH]; [reflexivity|].
  cbn [map prodQ fold_right]. fold (prodQ (map kappa_of C)).
  apply Qmult_lt_0_compat; [|apply IH; intros; apply Hk; now right].
  destruct (Qle_lt_or_eq _ _ (kappa_of_nonneg v)) as [H|H]; [exact H|].
  exfalso. apply (Hk v); [now left|]. now symmetry.
Qed.

(* infinite budget: with the dictionary of the C04 model (no oracle hypothesis on the weights left)
   sum |coeff| = prod kappa, and every coefficient has the sign of the product of its maps' coefficients *)
Theorem inf_budget_coefficients gh gsx env C table og perms tape r out coeffs :
  (forall v, In v C -> ~ (kappa_of v == 0)%Q) ->
  Forall (fun v => exists x, In x v /\ (Facts.nonzero_atol < x)%Q) (probs_of C) ->
  Weights.gen_weights (probs_of C) perms Weights.PInf tape = Some (Ok r) -> r <> [] ->
  let W := of_wdict (Weights.final_sort r) in
  core gh gsx env C table og W = Ok (out, coeffs) ->
  length coeffs = length r /\
  (sumQ (map (fun c => Qabs (fst c)) coeffs) == kappa_all C)%Q /\
  Forall2 (fun s c => exists cs, chosen_coeffs C (s_ids s) = Ok cs /\ qsign (fst c) = qsign (prodQ cs))
          (sort_samples W) coeffs.
Proof.
  intros Hk Hbig Hg Hne W Hc.
  pose proof (inf_weights_pos C perms tape r Hbig Hg) as Hpos. fold W in Hpos.
  assert (HWne : W <> []).
  { unfold W, of_wdict. intros E. apply map_eq_nil in E.
    apply Hne. apply Permutation_nil. rewrite <- E. apply WeightsSort.final_sort_perm. }
  assert (Htot : (0 < sumQ (map s_w W))%Q) by (apply sumQ_pos; assumption).
  pose proof (core_coeffs _ _ _ _ _ _ _ _ _ Hc) as HF.
  split; [|split].
  - rewrite <- (Forall2_length' _ _ _ HF), sort_length. unfold W, of_wdict. rewrite map_length.
    apply Permutation_length, WeightsSort.final_sort_perm.
  - assert (Hnz : forall s cs, In s W -> chosen_coeffs C (s_ids s) = Ok cs -> ~ (prodQ cs == 0)%Q).
    { intros s cs Hs Hcs H0.
      pose proof (jointp_probs C (s_ids s) cs Hcs Hk) as Hj.
      (* the weight of s is 1 * jointp, which is >= atol > 0 *)
      pose proof Hg as Hg'.
      rewrite (WeightsGen.infinite_budget (probs_of C) perms tape (probs_of_nonneg' C) Hbig) in Hg'.
      inversion Hg'; subst r; clear Hg'.
      unfold W, of_wdict in Hs. apply in_map_iff in Hs as ([ids [w t]] & <- & Hin). cbn [s_ids fst snd] in *.
      apply (Permutation_in _ (WeightsSort.final_sort_perm _)) in Hin.
      assert (Hnd : NoDup (map fst (Weights.all_exact (probs_of C) 1))).
      { apply (WeightsSort.result_nodup (probs_of C) perms Weights.PInf tape).
        apply WeightsGen.infinite_budget; [apply probs_of_nonneg'|exact Hbig]. }
      pose proof (WeightsP.In_dget_NoDup _ ids (w, t) Hnd Hin) as Hd.
      destruct (proj2 (WeightsGen.all_exact_spec (probs_of C) 1 ids) w t Hd) as (_ & _ & Hge & _ & _).
      rewrite <- bridge_joint_prob in Hge.
      assert (Ha : (Qabs (prodQ cs) == 0)%Q) by (rewrite H0; reflexivity).
      rewrite qprod_abs, <- Hj in Ha.
      pose proof (kappa_all_pos C Hk) as Hkp.
      apply Qmult_integral in Ha as [Ha|Ha].
      - rewrite Ha in Hge. pose proof WeightsGen.atol_pos as Hap.
        exact (Qlt_irrefl _ (Qlt_le_trans _ _ _ Hap Hge)).
      - rewrite Ha in Hkp. exact (Qlt_irrefl _ Hkp). }
    rewrite <- total_weight_eq in Htot.
    rewrite (sum_abs_coeffs C _ _ _ HF Htot).
    + rewrite <- (qsum_perm _ _ (Permutation_map s_w (sort_perm W))), <- total_weight_eq. field.
      intros E. rewrite E in Htot. exact (Qlt_irrefl _ Htot).
    + intros s Hs. apply Qlt_le_weak, Hpos. eapply Permutation_in; [apply Permutation_sym, sort_perm|exact Hs].
    + intros s cs Hs. apply Hnz. eapply Permutation_in; [apply Permutation_sym, sort_perm|exact Hs].
  - assert (Hin : forall s, In s (sort_samples W) -> In s W)
      by (intros s Hs; eapply Permutation_in; [apply Permutation_sym, sort_perm|exact Hs]).
    clear Hc. revert Hin. induction HF as [|s c S cf (cs & Hcs & ->) HF IH]; intros Hin; constructor.
    + exists cs. split; [exact Hcs|]. cbn [fst]. apply sign_coeff.
      * apply Hpos, Hin. now left.
      * rewrite total_weight_eq. exact Htot.
      * now apply kappa_all_pos.
    + apply IH. intros s' Hs'. apply Hin. now right.
Qed.

(* ====================================================================== *)
(* D. the groups the C11 model builds                                      *)
(* ====================================================================== *)
(* ObservableCollection(obs).groups as `generate` consumes them *)
Definition groups_of_collection (obs : list pauli) (o : grouping_oracle) : res (list ogroup) :=
  res_map (fun cl => map og_of_cog (fst cl)) (collection obs o).

Theorem groups_of_collection_spec obs o gs :
  groups_of_collection obs o = Ok gs ->
  length gs = length (o_groups o) /\
  forall j g, nth_error gs j = Some g ->
    exists members, nth_error (o_groups o) j = Some members /\
      most_general_observable members None = Ok (mkP 0 (og_general g)) /\
      og_indices g = filter (GroupingP.nonid (og_general g)) (seq 0 (length (og_general g))) /\
      StronglySorted lt (og_indices g) /\
      (forall q, In q (og_indices g) <-> q < length (og_general g) /\ nth q (og_general g) 0 <> 0).
Proof.
  unfold groups_of_collection. intros H. apply res_map_ok in H as ([cogs lk] & Hc & ->). cbn [fst].
  destruct (GroupingP.collection_spec _ _ _ _ Hc) as (_ & M & B & _).
  split.
  - rewrite map_length, <- M. now rewrite map_length.
  - intros j g Hg. rewrite nth_error_map in Hg. destruct (nth_error cogs j) as [c|] eqn:Ec; [|discriminate].
    inversion Hg; subst g; clear Hg. destruct (B j c Ec) as (Hm & Hp).
    exists (cg_members c). split; [rewrite <- M, nth_error_map, Ec; reflexivity|].
    cbn [og_of_cog og_general og_indices].
    destruct (GroupingP.cog_post_init_spec _ _ _ _ Hp) as (A1 & A2 & A3 & _).
    assert (Hph : cg_general c = mkP 0 (plets (cg_general c))).
    { unfold most_general_observable in Hm. destruct (cg_members c) as [|f rest]; [discriminate|].
      apply res_map_ok in Hm as (lets & _ & ->). reflexivity. }
    split; [now rewrite <- Hph|]. auto.
Qed.

(* ====================================================================== *)
(* E. the projection, for every partition of a separated problem           *)
(* ====================================================================== *)
Theorem projection_all_partitions gh gsx env d M joint l g e :
  mapping_by_partition d = Ok M -> built gh gsx env (table_of d M) joint l g e ->
  exists qc ids sfx ms,
    alookup d l = Some qc /\ mapping_scan 0 (mdata qc) = Ok (ids, sfx) /\ project joint sfx = Ok ms /\
    e = spec_exp gh gsx env qc ids ms g /\
    forall p x k, nth_error (mdata qc) p = Some x -> suffix_of x = Some (Some k) ->
      exists m, nth_error joint k = Some m /\
                nth_error (assign (mdata qc) ids (Some (map Z.of_nat ms))) p = Some (set_bid m x).
Proof.
  intros HM Hb.
  destruct (built_shape _ _ _ _ _ _ _ _ (table_of_wf d M HM) Hb) as (p & ms & Hp & Hms & Hv & _ & _ & He).
  destruct (table_lookup d M l p HM Hp) as (qc & ids & sfx & Hq & Hs & ->). cbn [pi_qc pi_ids pi_sfx] in *.
  exists qc, ids, sfx, ms. repeat (split; [assumption|]).
  intros pos x k Hx Hk.
  destruct (projection_gen joint (mdata qc) 0 ids sfx ms pos x k Hs Hms Hx Hk) as (m & Hm & Hin).
  exists m. split; [exact Hm|]. rewrite <- (Nat2Z.id m).
  apply (assign_member env (mdata qc) ids (map Z.of_nat ms) [pos] (Z.of_nat m) pos x Hv); [|now left|exact Hx].
  now apply In_combine_map.
Qed.

(* ====================================================================== *)
(* F. corrections after the proof audit                                    *)
(* ====================================================================== *)
(* the sign law on the coefficients `core` returns (any dictionary with positive weights) *)
Theorem sign_core gh gsx env C table og W out coeffs :
  core gh gsx env C table og W = Ok (out, coeffs) ->
  (forall v, In v C -> ~ (kappa_of v == 0)%Q) ->
  (forall s, In s W -> (0 < s_w s)%Q) ->
  Forall2 (fun s c => exists cs, chosen_coeffs C (s_ids s) = Ok cs /\ qsign (fst c) = qsign (prodQ cs))
          (sort_samples W) coeffs.
Proof.
  intros Hc Hk Hpos. pose proof (core_coeffs _ _ _ _ _ _ _ _ _ Hc) as HF. clear Hc.
  assert (Hin : forall s, In s (sort_samples W) -> In s W)
    by (intros s Hs; eapply Permutation_in; [apply Permutation_sym, sort_perm|exact Hs]).
  assert (Htot : forall s, In s W -> (0 < total_weight W)%Q).
  { intros s Hs. rewrite total_weight_eq. apply sumQ_pos; [intros E; rewrite E in Hs; destruct Hs|exact Hpos]. }
  revert Hin. induction HF as [|s c S cf (cs & Hcs & ->) HF IH]; intros Hin; constructor.
  - exists cs. split; [exact Hcs|]. cbn [fst]. apply sign_coeff.
    + apply Hpos, Hin. now left.
    + apply (Htot s), Hin. now left.
    + now apply kappa_all_pos.
  - apply IH. intros s' Hs'. apply Hin. now right.
Qed.

(* exact_weights does not depend on the order of the dictionary *)
Lemma exact_weights_perm C W W' : Permutation W W' -> exact_weights C W -> exact_weights C W'.
Proof.
  intros HP (Hnd & Hin & Hall). split; [|split].
  - eapply Permutation_NoDup; [apply Permutation_map, HP|exact Hnd].
  - intros s Hs. apply Hin. eapply Permutation_in; [apply Permutation_sym, HP|exact Hs].
  - intros ids Hi Hnz. eapply Permutation_in; [apply Permutation_map, HP|]. now apply Hall.
Qed.

(* infinite budget, exactness: when no joint map has a probability strictly between 0 and the cut-off, the dictionary
   generate_qpd_weights returns (final_sort of the C04 model's result) satisfies exact_weights, and every
   coefficient `core` returns EQUALS the product of its maps' coefficients *)
Theorem inf_budget_exact gh gsx env C table og perms tape r out coeffs :
  (forall v, In v C -> ~ (kappa_of v == 0)%Q) ->
  Forall (fun v => exists x, In x v /\ (Facts.nonzero_atol < x)%Q) (probs_of C) ->
  RoundtripP.no_subcutoff_map C ->
  Weights.gen_weights (probs_of C) perms Weights.PInf tape = Some (Ok r) ->
  let W := of_wdict (Weights.final_sort r) in
  exact_weights C W /\
  (core gh gsx env C table og W = Ok (out, coeffs) ->
   Forall2 (fun s c => exists cs, chosen_coeffs C (s_ids s) = Ok cs /\ (fst c == prodQ cs)%Q) (sort_samples W) coeffs).
Proof.
  intros Hk Hbig Hno Hg W.
  rewrite (WeightsGen.infinite_budget (probs_of C) perms tape (probs_of_nonneg' C) Hbig) in Hg.
  inversion Hg; subst r; clear Hg.
  assert (HW : exact_weights C W).
  { eapply exact_weights_perm; [|apply (RoundtripP.all_exact_is_exact_weights C Hno)].
    unfold W, of_wdict. apply Permutation_map, Permutation_sym, WeightsSort.final_sort_perm. }
  split; [exact HW|]. intros Hc. pose proof (core_coeffs _ _ _ _ _ _ _ _ _ Hc) as HF. clear Hc.
  assert (Hin : forall s, In s (sort_samples W) -> In s W)
    by (intros s Hs; eapply Permutation_in; [apply Permutation_sym, sort_perm|exact Hs]).
  revert Hin. induction HF as [|s c S cf (cs & Hcs & ->) HF IH]; intros Hin; constructor.
  - exists cs. split; [exact Hcs|]. cbn [fst]. apply (exact_coeff C W s cs Hk HW); [apply Hin; now left|exact Hcs].
  - apply IH. intros s' Hs'. apply Hin. now right.
Qed.

(* ---------------- totality of generate (separated form) ---------------- *)
Definition circuit_ok (qc : mcirc) : Prop :=
  existsb fst (mcregs qc) = false /\
  forall x, In x (mdata qc) -> is_qpd2 x = false /\ suffix_of x <> Some None.
Definition group_ok (qc : mcirc) (g : ogroup) : Prop :=
  length (og_general g) = mnq qc /\ forall s, In s (pauli_indices_or_dummy (og_indices g)) -> s < mnq qc.
(* a joint map selects a coefficient in every basis, and for every placeholder its cut id indexes the joint map at an
   id that is in range for the placeholder's own basis *)
Definition sample_ok (env : benv) (C : list (list Q)) (d : list (nat * mcirc)) (ids : jkey) : Prop :=
  (exists cs, chosen_coeffs C ids = Ok cs) /\
  forall x k b, In x (all_instrs d) -> cut_of x = Some (k, b) ->
    exists m, nth_error ids k = Some m /\ m < length (nth b env []).

Lemma alookup_In {V} (d : list (nat * V)) l v : alookup d l = Some v -> In (l, v) d.
Proof.
  induction d as [|[l0 v0] d IH]; cbn [alookup]; [discriminate|].
  destruct (Nat.eqb_spec l l0) as [->|]; [intros H; inversion H; now left|intros H; right; auto].
Qed.

Lemma project_total joint : forall sfx,
  (forall k, In k sfx -> exists m, nth_error joint k = Some m) -> exists ms, project joint sfx = Ok ms.
Proof.
  induction sfx as [|k r IH]; intros H; [eexists; reflexivity|]. cbn [project].
  destruct (H k (or_introl eq_refl)) as (m & ->). destruct IH as (ms & ->); [intros; apply H; now right|].
  eexists; reflexivity.
Qed.

Theorem generate_total gh gsx env cenv d od og N W :
  ge1 N = true -> all_groups od = Ok og ->
  (forall l qc, In (l, qc) d -> circuit_ok qc) ->
  (forall l gs, In (l, gs) og -> exists qc, alookup d l = Some qc /\ forall g, In g gs -> group_ok qc g) ->
  (forall s, In s W -> sample_ok env (map (fun b => nth b cenv []) (bases_by_partition d)) d (s_ids s)) ->
  exists dd coeffs, generate gh gsx env cenv (CDict d) (ODict od) N W = Ok (OutDict dd, coeffs).
Proof.
  intros HN Hog Hd Hg HW.
  destruct (mapping_by_partition_total d) as (M & HM).
  { intros l qc x Hin Hx. destruct (Hd l qc Hin) as (_ & H). now apply H. }
  unfold generate. rewrite HN. cbn [negb]. rewrite HM. cbn [res_bind]. rewrite Hog. cbn [res_bind].
  set (C := map (fun b => nth b cenv []) (bases_by_partition d)) in *.
  assert (Hcore : exists r, core gh gsx env C (table_of d M) og W = Ok r).
  { unfold core.
    destruct (mapM_total (fun s : sample =>
                res_bind (chosen_coeffs C (s_ids s)) (fun cs =>
                res_bind (mapM (per_label gh gsx env (table_of d M) (s_ids s)) og) (fun row =>
                Ok ((coeff_value (total_weight W) (kappa_all C) (s_w s) cs, s_t s), row)))) (sort_samples W)) as (rows & Hrows).
    - intros s Hs. assert (HsW : In s W) by (eapply Permutation_in; [apply Permutation_sym, sort_perm|exact Hs]).
      destruct (HW s HsW) as ((cs & Hcs) & Hr). rewrite Hcs. cbn [res_bind].
      destruct (mapM_total (per_label gh gsx env (table_of d M) (s_ids s)) og) as (row & Hrow).
      + intros [l gs] Hl. destruct (Hg l gs Hl) as (qc & Hq & Hgs).
        destruct (table_lookup_conv d M l qc HM Hq) as (ids & sfx & Hscan & Htab).
        unfold per_label. cbn [fst snd]. rewrite Htab. cbn [pi_sfx pi_qc pi_ids].
        pose proof (alookup_In d l qc Hq) as Hin. destruct (Hd l qc Hin) as (Hreg & Hx).
        assert (Hall : forall x, In x (mdata qc) -> In x (all_instrs d))
          by (intros x Hxx; unfold all_instrs; apply in_flat_map; exists (l, qc); auto).
        destruct (project_total (s_ids s) sfx) as (ms & Hms).
        { intros k Hk. destruct (mapping_scan_spec _ _ _ _ Hscan) as (_ & -> & _).
          unfold suffixes in Hk. apply in_flat_map in Hk as (x & Hxin & Hk).
          destruct (suffix_of x) as [[k'|]|] eqn:E; [|destruct Hk|destruct Hk]. destruct Hk as [<-|[]].
          apply cut_of_suffix in E as (b & Hc). destruct (Hr x k' b (Hall x Hxin) Hc) as (m & Hm & _). eauto. }
        rewrite Hms. cbn [res_bind].
        apply mapM_total. intros g Hgin. destruct (Hgs g Hgin) as (Hw & Hi).
        eexists. apply build1_total; [|exact Hreg|exact Hw|exact Hi].
        apply (scan_valid env (mdata qc) ids sfx (s_ids s) ms Hscan Hms).
        * intros x Hxin. apply (Hx x Hxin).
        * intros x k b Hxin Hc. apply (Hr x k b (Hall x Hxin) Hc).
      + rewrite Hrow. cbn [res_bind]. eexists; reflexivity.
    - rewrite Hrows. cbn [res_bind]. eexists; reflexivity. }
  destruct Hcore as ([dd cf] & ->). cbn [res_bind fst snd]. eauto.
Qed.

(* "one coefficient per DISTINCT joint map": for a dictionary (distinct keys) with positive weights the total is
   positive (so the division in the coefficient formula is a real one) and the sorted samples still have distinct keys *)
Theorem coeffs_distinct gh gsx env C table og W out coeffs :
  core gh gsx env C table og W = Ok (out, coeffs) ->
  NoDup (map s_ids W) -> W <> [] -> (forall s, In s W -> (0 < s_w s)%Q) ->
  length coeffs = length W /\
  NoDup (map s_ids (sort_samples W)) /\
  (0 < total_weight W)%Q /\
  Forall2 (coeff_ok C (total_weight W)) (sort_samples W) coeffs.
Proof.
  intros Hc Hnd Hne Hpos. pose proof (core_coeffs _ _ _ _ _ _ _ _ _ Hc) as HF.
  split; [rewrite <- (Forall2_length' _ _ _ HF); apply sort_length|].
  split; [eapply Permutation_NoDup; [apply Permutation_map, sort_perm|exact Hnd]|].
  split; [rewrite total_weight_eq; now apply sumQ_pos|exact HF].
Qed.

(* section 8 tied together on the public model function: budget = inf, bases = those of the problem, dictionary =
   final_sort of the C04 model's result on the probabilities of exactly those bases *)
Theorem generate_inf_dict gh gsx env cenv d od perms tape r dd coeffs :
  let C := map (fun b => nth b cenv []) (bases_by_partition d) in
  let W := of_wdict (Weights.final_sort r) in
  (forall v, In v C -> ~ (kappa_of v == 0)%Q) ->
  Forall (fun v => exists x, In x v /\ (Facts.nonzero_atol < x)%Q) (probs_of C) ->
  Weights.gen_weights (probs_of C) perms (Weights.PInf) tape = Some (Ok r) -> r <> [] ->
  generate gh gsx env cenv (CDict d) (ODict od) (of_num Weights.PInf) W = Ok (OutDict dd, coeffs) ->
  length coeffs = length r /\
  (sumQ (map (fun c => Qabs (fst c)) coeffs) == kappa_all C)%Q /\
  Forall2 (fun s c => exists cs, chosen_coeffs C (s_ids s) = Ok cs /\ qsign (fst c) = qsign (prodQ cs))
          (sort_samples W) coeffs /\
  (RoundtripP.no_subcutoff_map C ->
   Forall2 (fun s c => exists cs, chosen_coeffs C (s_ids s) = Ok cs /\ (fst c == prodQ cs)%Q) (sort_samples W) coeffs).
Proof.
  intros C W Hk Hbig Hg Hne H.
  destruct (generate_dict_inv _ _ _ _ _ _ _ _ _ H) as (_ & M & og & dd' & _ & _ & Hc & Hr).
  cbn [fst snd] in *. inversion Hr; subst dd'. fold C in Hc.
  destruct (inf_budget_coefficients gh gsx env C (table_of d M) og perms tape r dd coeffs Hk Hbig Hg Hne Hc) as (H1 & H2 & H3).
  repeat (split; [assumption|]). intros Hno.
  exact (proj2 (inf_budget_exact gh gsx env C (table_of d M) og perms tape r dd coeffs Hk Hbig Hno Hg) Hc).
Qed.

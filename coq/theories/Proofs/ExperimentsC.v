(* Proofs/ExperimentsC.v — C05 composed with the models of its two oracles:
     the weights dictionary  = what the C04 model (Model/Weights.v: gen_weights, final_sort) returns,
     the observable groups   = what the C11 model (Model/Grouping.v: collection) returns,
   plus the per-partition projection for any number of partitions.
   Names of the C04/C11 developments are used qualified (WeightsGen.valid / DecomposeP.valid etc. would clash). *)
From Coq Require Import QArith Qabs Sorted Permutation Lia.
From CKT Require Import Common.Base Common.Circ Model.Decompose Model.Measurement Model.Observables Model.Grouping
  Model.Experiments Proofs.DecomposeP Proofs.ExperimentsP.
From CKT Require Extracted.Facts Model.Weights Proofs.WeightsP Proofs.WeightsGen Proofs.WeightsTab Proofs.WeightsSort
  Proofs.GroupingP.
Close Scope Q_scope.

(* ====================================================================== *)
(* A. the probability vectors handed to the C04 model                      *)
(* ====================================================================== *)
Lemma probs_of_nonneg C : Forall WeightsTab.nonneg (probs_of C).
Proof.
  unfold probs_of. apply Forall_forall. intros v Hv. apply in_map_iff in Hv as (cs & <- & _).
  unfold WeightsTab.nonneg. apply Forall_forall. intros x Hx. apply in_map_iff in Hx as (c & <- & _).
  unfold Qdiv. apply Qmult_le_0_compat; [apply Qabs_nonneg|]. apply Qinv_le_0_compat, kappa_of_nonneg.
Qed.

Lemma probs_of_nonneg' C : Forall (Forall (fun x => (0 <= x)%Q)) (probs_of C).
Proof. exact (probs_of_nonneg C). Qed.

Lemma nth_probs_of_length C k : length (nth k (probs_of C) []) = length (nth k C []).
Proof.
  unfold probs_of.
  change (@nil Q) with ((fun cs : list Q => map (fun c => (Qabs c / kappa_of cs)%Q) cs) []) at 1.
  rewrite map_nth. apply map_length.
Qed.

(* a key that is in range for the probability vectors selects a coefficient in every basis *)
Lemma in_range_chosen : forall C ids,
  length ids = length C -> (forall k, k < length ids -> nth k ids 0 < length (nth k C [])) ->
  exists cs, chosen_coeffs C ids = Ok cs.
Proof.
  induction C as [|v C IH]; intros [|i ids] Hl Hr; try discriminate.
  - exists []. reflexivity.
  - cbn [chosen_coeffs]. pose proof (Hr 0 (Nat.lt_0_succ _)) as H0. cbn [nth] in H0.
    destruct (nth_error v i) as [c|] eqn:E; [|apply nth_error_None in E; lia].
    destruct (IH ids) as (cs & Hcs).
    + simpl in Hl. lia.
    + intros k Hk. apply (Hr (S k)). simpl. lia.
    + exists (c :: cs). now rewrite Hcs.
Qed.

(* ====================================================================== *)
(* B. every dictionary the C04 model returns is acceptable to `core`:      *)
(*    distinct keys, each key selects coefficients, no chosen product is 0 *)
(* ====================================================================== *)
Theorem c04_dictionary_ok C perms N tape r :
  (forall v, In v C -> ~ (kappa_of v == 0)%Q) ->
  Weights.sorting_perms_b (probs_of C) perms = true ->
  Weights.gen_weights (probs_of C) perms N tape = Some (Ok r) ->
  let W := of_wdict (Weights.final_sort r) in
  NoDup (map s_ids W) /\
  forall s, In s W -> exists cs, chosen_coeffs C (s_ids s) = Ok cs /\ ~ (prodQ cs == 0)%Q.
Proof.
  intros Hk Hs Hg W. pose proof (WeightsSort.result_nodup _ _ _ _ _ Hg) as Hnd.
  split.
  - unfold W. rewrite bridge_keys.
    eapply Permutation_NoDup; [apply Permutation_sym, Permutation_map, WeightsSort.final_sort_perm|exact Hnd].
  - intros s Hin. unfold W, of_wdict in Hin. apply in_map_iff in Hin as ([ids [w t]] & <- & Hin).
    cbn [s_ids fst snd].
    apply (Permutation_in _ (WeightsSort.final_sort_perm r)) in Hin.
    pose proof (WeightsP.In_dget_NoDup r ids (w, t) Hnd Hin) as Hd.
    destruct (WeightsTab.no_zero (probs_of C) perms N tape r ids w t (probs_of_nonneg C) Hs Hg Hd) as (Hpos & Hl & Hr).
    destruct (in_range_chosen C ids) as (cs & Hcs).
    + rewrite Hl. unfold probs_of. apply map_length.
    + intros k Hkk. rewrite <- nth_probs_of_length. now apply Hr.
    + exists cs. split; [exact Hcs|]. intros H0.
      pose proof (jointp_probs C ids cs Hcs Hk) as Hj. rewrite bridge_joint_prob in Hj.
      assert (Ha : (Qabs (prodQ cs) == 0)%Q) by (rewrite H0; reflexivity).
      rewrite qprod_abs, <- Hj in Ha.
      apply Qmult_integral in Ha as [Ha|Ha].
      * rewrite Ha in Hpos. exact (Qlt_irrefl _ Hpos).
      * revert Ha. clear -Hk. unfold kappa_all. induction C as [|v C IH]; [discriminate|].
        cbn [map prodQ fold_right]. fold (prodQ (map kappa_of C)). intros H.
        apply Qmult_integral in H as [H|H]; [apply (Hk v); [now left|exact H]|].
        apply IH; [intros; apply Hk; now right|exact H].
Qed.

(* any budget: with a dictionary of the C04 model the hypothesis "no chosen product is 0" of sum|coeff| = kappa is
   discharged; what remains is positivity of the returned weights (proved below for the infinite budget only) *)
Theorem sum_kappa_c04 gh gsx env C table og perms N tape r out coeffs :
  (forall v, In v C -> ~ (kappa_of v == 0)%Q) ->
  Weights.sorting_perms_b (probs_of C) perms = true ->
  Weights.gen_weights (probs_of C) perms N tape = Some (Ok r) ->
  let W := of_wdict (Weights.final_sort r) in
  core gh gsx env C table og W = Ok (out, coeffs) ->
  W <> [] -> (forall s, In s W -> (0 < s_w s)%Q) ->
  (sumQ (map (fun c => Qabs (fst c)) coeffs) == kappa_all C)%Q.
Proof.
  intros Hk Hs Hg W Hc Hne Hpos.
  destruct (c04_dictionary_ok C perms N tape r Hk Hs Hg) as (_ & Hnz). fold W in Hnz.
  pose proof (core_coeffs _ _ _ _ _ _ _ _ _ Hc) as HF.
  assert (Htot : (0 < total_weight W)%Q).
  { rewrite total_weight_eq. destruct W as [|a W']; [congruence|]. cbn [map sumQ fold_right]. fold (sumQ (map s_w W')).
    apply Qlt_le_trans with (s_w a + 0)%Q; [rewrite Qplus_0_r; apply Hpos; now left|].
    apply Qplus_le_r, qsum_nonneg. intros x Hx. apply in_map_iff in Hx as (y & <- & Hy).
    apply Qlt_le_weak, Hpos. now right. }
  rewrite (sum_abs_coeffs C _ _ _ HF Htot).
  - rewrite <- (qsum_perm _ _ (Permutation_map s_w (sort_perm W))), <- total_weight_eq. field.
    intros E. rewrite E in Htot. exact (Qlt_irrefl _ Htot).
  - intros s Hin. apply Qlt_le_weak, Hpos. eapply Permutation_in; [apply Permutation_sym, sort_perm|exact Hin].
  - intros s cs Hin Hcs. assert (Hin' : In s W) by (eapply Permutation_in; [apply Permutation_sym, sort_perm|exact Hin]).
    destruct (Hnz s Hin') as (cs' & Hcs' & Hn). rewrite Hcs in Hcs'. inversion Hcs'; subst. exact Hn.
Qed.

(* ====================================================================== *)
(* C. infinite budget, end to end for the coefficients                     *)
(* ====================================================================== *)
Lemma sumQ_pos {A} (f : A -> Q) l : l <> [] -> (forall x, In x l -> (0 < f x)%Q) -> (0 < sumQ (map f l))%Q.
Proof.
  destruct l as [|a l]; [congruence|]. intros _ H. cbn [map sumQ fold_right].
  fold (sumQ (map f l)).
  apply Qlt_le_trans with (f a + 0)%Q; [rewrite Qplus_0_r; apply H; now left|].
  apply Qplus_le_r. apply qsum_nonneg. intros x Hx. apply in_map_iff in Hx as (y & <- & Hy).
  apply Qlt_le_weak, H. now right.
Qed.

(* the weights of the infinite-budget dictionary of the C04 model are positive *)
Lemma inf_weights_pos C perms tape r :
  Forall (fun v => exists x, In x v /\ (Facts.nonzero_atol < x)%Q) (probs_of C) ->
  Weights.gen_weights (probs_of C) perms Weights.PInf tape = Some (Ok r) ->
  forall s, In s (of_wdict (Weights.final_sort r)) -> (0 < s_w s)%Q.
Proof.
  intros Hbig Hg s Hin.
  rewrite (WeightsGen.infinite_budget (probs_of C) perms tape (probs_of_nonneg' C) Hbig) in Hg.
  inversion Hg; subst r; clear Hg.
  unfold of_wdict in Hin. apply in_map_iff in Hin as ([ids [w t]] & <- & Hin). cbn [s_w fst snd].
  apply (Permutation_in _ (WeightsSort.final_sort_perm _)) in Hin.
  assert (Hnd : NoDup (map fst (Weights.all_exact (probs_of C) 1))).
  { apply (WeightsSort.result_nodup (probs_of C) perms Weights.PInf tape).
    apply WeightsGen.infinite_budget; [apply probs_of_nonneg'|exact Hbig]. }
  pose proof (WeightsP.In_dget_NoDup _ ids (w, t) Hnd Hin) as Hd.
  destruct (proj2 (WeightsGen.all_exact_spec (probs_of C) 1 ids) w t Hd) as (_ & _ & Hge & _ & ->).
  eapply Qlt_le_trans; [apply WeightsGen.atol_pos|].
  eapply Qle_trans; [exact Hge|]. rewrite Qmult_1_l. apply Qle_refl.
Qed.

Lemma kappa_all_pos C : (forall v, In v C -> ~ (kappa_of v == 0)%Q) -> (0 < kappa_all C)%Q.
Proof.
  intros Hk. unfold kappa_all. induction C as [|v C IH]; [reflexivity|].
  cbn [map prodQ fold_right]. fold (prodQ (map kappa_of C)).
  apply Qmult_lt_0_compat; [|apply IH; intros; apply Hk; now right].
  destruct (Qle_lt_or_eq _ _ (kappa_of_nonneg v)) as [H|H]; [exact H|].
  exfalso. apply (Hk v); [now left|]. now symmetry.
Qed.

(* infinite budget: with the dictionary of the C04 model (no oracle hypothesis on the weights left)
   sum |coeff| = prod kappa, and every coefficient has the sign of the product of its maps' coefficients *)
Theorem inf_budget_coefficients gh gsx env C table og perms tape r out coeffs :
  (forall v, In v C -> ~ (kappa_of v == 0)%Q) ->
  Forall (fun v => exists x, In x v /\ (Facts.nonzero_atol < x)%Q) (probs_of C) ->
  Weights.gen_weights (probs_of C) perms Weights.PInf tape = Some (Ok r) -> r <> [] ->
  let W := of_wdict (Weights.final_sort r) in
  core gh gsx env C table og W = Ok (out, coeffs) ->
  length coeffs = length r /\
  (sumQ (map (fun c => Qabs (fst c)) coeffs) == kappa_all C)%Q /\
  Forall2 (fun s c => exists cs, chosen_coeffs C (s_ids s) = Ok cs /\ qsign (fst c) = qsign (prodQ cs))
          (sort_samples W) coeffs.
Proof.
  intros Hk Hbig Hg Hne W Hc.
  pose proof (inf_weights_pos C perms tape r Hbig Hg) as Hpos. fold W in Hpos.
  assert (HWne : W <> []).
  { unfold W, of_wdict. intros E. apply map_eq_nil in E.
    apply Hne. apply Permutation_nil. rewrite <- E. apply WeightsSort.final_sort_perm. }
  assert (Htot : (0 < sumQ (map s_w W))%Q) by (apply sumQ_pos; assumption).
  pose proof (core_coeffs _ _ _ _ _ _ _ _ _ Hc) as HF.
  split; [|split].
  - rewrite <- (Forall2_length' _ _ _ HF), sort_length. unfold W, of_wdict. rewrite map_length.
    apply Permutation_length, WeightsSort.final_sort_perm.
  - assert (Hnz : forall s cs, In s W -> chosen_coeffs C (s_ids s) = Ok cs -> ~ (prodQ cs == 0)%Q).
    { intros s cs Hs Hcs H0.
      pose proof (jointp_probs C (s_ids s) cs Hcs Hk) as Hj.
      (* the weight of s is 1 * jointp, which is >= atol > 0 *)
      pose proof Hg as Hg'.
      rewrite (WeightsGen.infinite_budget (probs_of C) perms tape (probs_of_nonneg' C) Hbig) in Hg'.
      inversion Hg'; subst r; clear Hg'.
      unfold W, of_wdict in Hs. apply in_map_iff in Hs as ([ids [w t]] & <- & Hin). cbn [s_ids fst snd] in *.
      apply (Permutation_in _ (WeightsSort.final_sort_perm _)) in Hin.
      assert (Hnd : NoDup (map fst (Weights.all_exact (probs_of C) 1))).
      { apply (WeightsSort.result_nodup (probs_of C) perms Weights.PInf tape).
        apply WeightsGen.infinite_budget; [apply probs_of_nonneg'|exact Hbig]. }
      pose proof (WeightsP.In_dget_NoDup _ ids (w, t) Hnd Hin) as Hd.
      destruct (proj2 (WeightsGen.all_exact_spec (probs_of C) 1 ids) w t Hd) as (_ & _ & Hge & _ & _).
      rewrite <- bridge_joint_prob in Hge.
      assert (Ha : (Qabs (prodQ cs) == 0)%Q) by (rewrite H0; reflexivity).
      rewrite qprod_abs, <- Hj in Ha.
      pose proof (kappa_all_pos C Hk) as Hkp.
      apply Qmult_integral in Ha as [Ha|Ha].
      - rewrite Ha in Hge. pose proof WeightsGen.atol_pos as Hap.
        exact (Qlt_irrefl _ (Qlt_le_trans _ _ _ Hap Hge)).
      - rewrite Ha in Hkp. exact (Qlt_irrefl _ Hkp). }
    rewrite <- total_weight_eq in Htot.
    rewrite (sum_abs_coeffs C _ _ _ HF Htot).
    + rewrite <- (qsum_perm _ _ (Permutation_map s_w (sort_perm W))), <- total_weight_eq. field.
      intros E. rewrite E in Htot. exact (Qlt_irrefl _ Htot).
    + intros s Hs. apply Qlt_le_weak, Hpos. eapply Permutation_in; [apply Permutation_sym, sort_perm|exact Hs].
    + intros s cs Hs. apply Hnz. eapply Permutation_in; [apply Permutation_sym, sort_perm|exact Hs].
  - assert (Hin : forall s, In s (sort_samples W) -> In s W)
      by (intros s Hs; eapply Permutation_in; [apply Permutation_sym, sort_perm|exact Hs]).
    clear Hc. revert Hin. induction HF as [|s c S cf (cs & Hcs & ->) HF IH]; intros Hin; constructor.
    + exists cs. split; [exact Hcs|]. cbn [fst]. apply sign_coeff.
      * apply Hpos, Hin. now left.
      * rewrite total_weight_eq. exact Htot.
      * now apply kappa_all_pos.
    + apply IH. intros s' Hs'. apply Hin. now right.
Qed.

(* ====================================================================== *)
(* D. the groups the C11 model builds                                      *)
(* ====================================================================== *)
(* ObservableCollection(obs).groups as `generate` consumes them *)
Definition groups_of_collection (obs : list pauli) (o : grouping_oracle) : res (list ogroup) :=
  res_map (fun cl => map og_of_cog (fst cl)) (collection obs o).

Theorem groups_of_collection_spec obs o gs :
  groups_of_collection obs o = Ok gs ->
  length gs = length (o_groups o) /\
  forall j g, nth_error gs j = Some g ->
    exists members, nth_error (o_groups o) j = Some members /\
      most_general_observable members None = Ok (mkP 0 (og_general g)) /\
      og_indices g = filter (GroupingP.nonid (og_general g)) (seq 0 (length (og_general g))) /\
      StronglySorted lt (og_indices g) /\
      (forall q, In q (og_indices g) <-> q < length (og_general g) /\ nth q (og_general g) 0 <> 0).
Proof.
  unfold groups_of_collection. intros H. apply res_map_ok in H as ([cogs lk] & Hc & ->). cbn [fst].
  destruct (GroupingP.collection_spec _ _ _ _ Hc) as (_ & M & B & _).
  split.
  - rewrite map_length, <- M. now rewrite map_length.
  - intros j g Hg. rewrite nth_error_map in Hg. destruct (nth_error cogs j) as [c|] eqn:Ec; [|discriminate].
    inversion Hg; subst g; clear Hg. destruct (B j c Ec) as (Hm & Hp).
    exists (cg_members c). split; [rewrite <- M, nth_error_map, Ec; reflexivity|].
    cbn [og_of_cog og_general og_indices].
    destruct (GroupingP.cog_post_init_spec _ _ _ _ Hp) as (A1 & A2 & A3 & _).
    assert (Hph : cg_general c = mkP 0 (plets (cg_general c))).
    { unfold most_general_observable in Hm. destruct (cg_members c) as [|f rest]; [discriminate|].
      apply res_map_ok in Hm as (lets & _ & ->). reflexivity. }
    split; [now rewrite <- Hph|]. auto.
Qed.

(* ====================================================================== *)
(* E. the projection, for every partition of a separated problem           *)
(* ====================================================================== *)
Theorem projection_all_partitions gh gsx env d M joint l g e :
  mapping_by_partition d = Ok M -> built gh gsx env (table_of d M) joint l g e ->
  exists qc ids sfx ms,
    alookup d l = Some qc /\ mapping_scan 0 (mdata qc) = Ok (ids, sfx) /\ project joint sfx = Ok ms /\
    e = spec_exp gh gsx env qc ids ms g /\
    forall p x k, nth_error (mdata qc) p = Some x -> suffix_of x = Some (Some k) ->
      exists m, nth_error joint k = Some m /\
                nth_error (assign (mdata qc) ids (Some (map Z.of_nat ms))) p = Some (set_bid m x).
Proof.
  intros HM Hb.
  destruct (built_shape _ _ _ _ _ _ _ _ (table_of_wf d M HM) Hb) as (p & ms & Hp & Hms & Hv & _ & _ & He).
  destruct (table_lookup d M l p HM Hp) as (qc & ids & sfx & Hq & Hs & ->). cbn [pi_qc pi_ids pi_sfx] in *.
  exists qc, ids, sfx, ms. repeat (split; [assumption|]).
  intros pos x k Hx Hk.
  destruct (projection_gen joint (mdata qc) 0 ids sfx ms pos x k Hs Hms Hx Hk) as (m & Hm & Hin).
  exists m. split; [exact Hm|]. rewrite <- (Nat2Z.id m).
  apply (assign_member env (mdata qc) ids (map Z.of_nat ms) [pos] (Z.of_nat m) pos x Hv); [|now left|exact Hx].
  now apply In_combine_map.
Qed.

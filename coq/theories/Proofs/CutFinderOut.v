(* Proofs/CutFinderOut.v — list surgery of find_cuts: cut_gates at the chosen ids, the stable sort of the wire-cut
   actions, the insertion loop with its running counter, and the metadata scan, related to the declarative
   rendering of a plan (Proofs/CutFinderSpec.v). *)
From Coq Require Import QArith Lia.
From CKT Require Import Model.CutFinder Proofs.CutFinderSpec.
Close Scope Q_scope.

(* strictly increasing list of naturals, all >= k *)
Fixpoint incr_from (k : nat) (l : list nat) : Prop :=
  match l with
  | [] => True
  | x :: r => k <= x /\ incr_from (S x) r
  end.

Lemma incr_from_weaken k k' l : k' <= k -> incr_from k l -> incr_from k' l.
Proof. destruct l; simpl; intros; [auto|]. destruct H0; split; [lia|auto]. Qed.

Lemma incr_from_ge k l x : incr_from k l -> In x l -> k <= x.
Proof.
  revert k; induction l as [|y r IH]; intros k H Hin; [destruct Hin|].
  destruct H as [H1 H2]. destruct Hin as [->|Hin]; [exact H1|]. specialize (IH _ H2 Hin). lia.
Qed.

Lemma incr_from_NoDup k l : incr_from k l -> NoDup l.
Proof.
  revert k; induction l as [|y r IH]; intros k H; constructor.
  - destruct H as [_ H2]. intros Hin. pose proof (incr_from_ge _ _ _ H2 Hin). lia.
  - destruct H as [_ H2]. eapply IH; eauto.
Qed.

Lemma incr_from_filter k l (f : nat -> bool) : incr_from k l -> incr_from k (filter f l).
Proof.
  revert k; induction l as [|y r IH]; intros k H; simpl; [auto|]. destruct H as [H1 H2].
  destruct (f y); simpl.
  - split; [exact H1|]. apply IH; exact H2.
  - apply IH. eapply incr_from_weaken; [|exact H2]. lia.
Qed.

(* ---------------- insert_at ---------------- *)
Lemma insert_at_app {A} (pre c : list A) d x :
  insert_at (pre ++ c) (length pre + d) x = pre ++ insert_at c d x.
Proof. induction pre as [|p pre IH]; simpl; [destruct d, c; reflexivity|]. now rewrite IH. Qed.

Lemma insert_at_0 {A} (c : list A) x : insert_at c 0 x = x :: c.
Proof. destruct c; reflexivity. Qed.

Lemma insert_at_split {A} (c : list A) d x : d <= length c ->
  insert_at c d x = firstn d c ++ x :: skipn d c.
Proof.
  revert c; induction d as [|d IH]; intros c H.
  - destruct c; reflexivity.
  - destruct c as [|y c]; simpl in H; [lia|]. simpl. rewrite IH by lia. reflexivity.
Qed.

(* ---------------- sorting ---------------- *)
Definition inst (a : action) : nat := g_inst (a_gate a).

Lemma sort_sorted k l : incr_from k (map inst l) -> sort_actions l = l.
Proof.
  revert k; induction l as [|a r IH]; intros k H; simpl; [reflexivity|].
  destruct H as [_ H2]. unfold sort_actions in *. simpl. rewrite (IH _ H2).
  destruct r as [|b r']; simpl; [reflexivity|].
  destruct H2 as [H2 _]. fold (inst a) (inst b).
  destruct (Nat.ltb_spec (inst b) (inst a)); [lia|reflexivity].
Qed.

(* ---------------- the weave ---------------- *)
Fixpoint weave (mk : action -> list instr) (k : nat) (c : circ) (l : list action) : circ :=
  match c with
  | [] => []
  | i :: r =>
      match l with
      | a :: l' => if Nat.eqb (inst a) k then mk a ++ i :: weave mk (S k) r l'
                   else i :: weave mk (S k) r l
      | [] => i :: weave mk (S k) r []
      end
  end.

Lemma weave_nil mk k c : weave mk k c [] = c.
Proof. revert k; induction c as [|i r IH]; intros k; simpl; [reflexivity|]. now rewrite IH. Qed.

Lemma weave_skip mk k c a l d :
  inst a = k + d -> d < length c -> incr_from (S (inst a)) (map inst l) ->
  weave mk k c (a :: l) = firstn d c ++ mk a ++ weave mk (k + d) (skipn d c) l.
Proof.
  revert k c; induction d as [|d IH]; intros k c Ha Hd Hl.
  - rewrite Nat.add_0_r in *. destruct c as [|i r]; simpl in Hd; [lia|]. simpl.
    rewrite Ha, Nat.eqb_refl. f_equal.
    destruct l as [|b l']; [reflexivity|]. simpl in Hl. destruct Hl as [Hl _]. fold (inst b) in Hl.
    destruct (Nat.eqb_spec (inst b) k); [lia|reflexivity].
  - destruct c as [|i r]; simpl in Hd; [lia|]. simpl.
    destruct (Nat.eqb_spec (inst a) k); [lia|]. f_equal.
    rewrite (IH (S k) r) by (auto; lia). now rewrite Nat.add_succ_r.
Qed.

(* markers put before a gate by a wire-cut action *)
Definition markers_of (n : aname) (qs : list nat) : list instr :=
  match n with
  | CutTwoQubitGate => []
  | CutLeftWire => [cut_wire_instr (nth 0 qs 0)]
  | CutRightWire => [cut_wire_instr (nth 1 qs 0)]
  | CutBothWires => [cut_wire_instr (nth 0 qs 0); cut_wire_instr (nth 1 qs 0)]
  end.

Definition dI : instr := mkI Measure [] [].

Definition mk_of (orig : circ) (a : action) : list instr :=
  markers_of (a_name a) (iqs (nth (inst a) orig dI)).

(* the shape of the arguments recorded by the wire-cut actions (what find_cuts reads: args[k][0]) *)
Definition wire_args_ok (a : action) : Prop :=
  match a_name a with
  | CutTwoQubitGate => False
  | CutLeftWire => exists w r, a_args a = [[1; w; r]]
  | CutRightWire => exists w r, a_args a = [[2; w; r]]
  | CutBothWires => exists w r w' r', a_args a = [[1; w; r]; [2; w'; r']]
  end.

Lemma insert_wire_cuts_weave orig :
  forall l pre c k counter,
    length pre = k + counter ->
    incr_from k (map inst l) ->
    (forall a, In a l -> inst a < k + length c /\ wire_args_ok a /\ 2 <= length (iqs (nth (inst a) orig dI)) /\
                         inst a < length orig) ->
    insert_wire_cuts orig (pre ++ c) counter l = Val (pre ++ weave (mk_of orig) k c l).
Proof.
  induction l as [|a l IH]; intros pre c k counter Hpre Hinc Hall.
  - simpl. now rewrite weave_nil.
  - destruct Hinc as [Hk Hinc]. fold (inst a) in Hk, Hinc.
    destruct (Hall a (or_introl eq_refl)) as (Hlt & Hargs & Hq & Horig).
    set (d := inst a - k). assert (Hd : inst a = k + d) by (unfold d; lia).
    assert (Hdc : d < length c) by lia.
    rewrite (weave_skip _ k c a l d Hd Hdc Hinc).
    assert (Hnth : nth_error orig (inst a) = Some (nth (inst a) orig dI)) by (apply nth_error_nth'; exact Horig).
    set (qs := iqs (nth (inst a) orig dI)) in *.
    assert (Q0 : nth_error qs 0 = Some (nth 0 qs 0)) by (apply nth_error_nth'; lia).
    assert (Q1 : nth_error qs 1 = Some (nth 1 qs 0)) by (apply nth_error_nth'; lia).
    assert (Epos : forall m, inst a + (counter + m) = length (pre ++ firstn d c) + m).
    { intros m. rewrite app_length, firstn_length, Nat.min_l by lia. lia. }
    assert (Esplit : pre ++ c = (pre ++ firstn d c) ++ skipn d c) by (now rewrite <- app_assoc, firstn_skipn).
    assert (Hrest : forall pre' counter', length pre' = inst a + counter' ->
              insert_wire_cuts orig (pre' ++ skipn d c) counter' l =
              Val (pre' ++ weave (mk_of orig) (k + d) (skipn d c) l)).
    { intros pre' counter' Hp. rewrite <- Hd. apply IH; auto.
      - eapply incr_from_weaken; [|exact Hinc]. lia.
      - intros b Hb. destruct (Hall b (or_intror Hb)) as (B1 & B2 & B3 & B4). repeat split; auto.
        rewrite skipn_length. lia. }
    cbn [insert_wire_cuts]. fold (inst a). unfold orig_qubit. rewrite Hnth. fold qs.
    unfold wire_args_ok in Hargs. unfold mk_of. fold qs.
    destruct (a_name a) eqn:En; [contradiction| | |].
    + destruct Hargs as (w & r & Ea). unfold arg_qubit. rewrite Ea. cbn [nth Nat.sub]. rewrite Q0. cbn [obind aname_beq].
      cbn [aname_beq markers_of].
      rewrite Esplit. replace (inst a + counter) with (length (pre ++ firstn d c) + 0) by (rewrite <- Epos; lia).
      rewrite insert_at_app, insert_at_0.
      replace ((pre ++ firstn d c) ++ cut_wire_instr (nth 0 qs 0) :: skipn d c)
        with ((pre ++ firstn d c ++ [cut_wire_instr (nth 0 qs 0)]) ++ skipn d c)
        by (rewrite <- !app_assoc; reflexivity).
      rewrite Hrest.
      * rewrite <- !app_assoc. reflexivity.
      * rewrite !app_length, firstn_length, Nat.min_l by lia. simpl. lia.
    + destruct Hargs as (w & r & Ea). unfold arg_qubit. rewrite Ea. cbn [nth Nat.sub]. rewrite Q1. cbn [obind aname_beq].
      cbn [aname_beq markers_of].
      rewrite Esplit. replace (inst a + counter) with (length (pre ++ firstn d c) + 0) by (rewrite <- Epos; lia).
      rewrite insert_at_app, insert_at_0.
      replace ((pre ++ firstn d c) ++ cut_wire_instr (nth 1 qs 0) :: skipn d c)
        with ((pre ++ firstn d c ++ [cut_wire_instr (nth 1 qs 0)]) ++ skipn d c)
        by (rewrite <- !app_assoc; reflexivity).
      rewrite Hrest.
      * rewrite <- !app_assoc. reflexivity.
      * rewrite !app_length, firstn_length, Nat.min_l by lia. simpl. lia.
    + destruct Hargs as (w & r & w' & r' & Ea). unfold arg_qubit. rewrite Ea. cbn [nth Nat.sub length]. rewrite Q0. cbn [obind].
      cbn [aname_beq markers_of Nat.eqb oassert obind]. rewrite Q1. cbn [obind].
      rewrite Esplit. replace (inst a + counter) with (length (pre ++ firstn d c) + 0) by (rewrite <- Epos; lia).
      rewrite insert_at_app, insert_at_0.
      replace (inst a + S counter) with (length (pre ++ firstn d c) + 1) by (rewrite <- Epos; lia).
      rewrite insert_at_app. cbn [insert_at]. rewrite insert_at_0.
      replace ((pre ++ firstn d c) ++ cut_wire_instr (nth 0 qs 0) :: cut_wire_instr (nth 1 qs 0) :: skipn d c)
        with ((pre ++ firstn d c ++ [cut_wire_instr (nth 0 qs 0); cut_wire_instr (nth 1 qs 0)]) ++ skipn d c)
        by (rewrite <- !app_assoc; reflexivity).
      rewrite Hrest.
      * rewrite <- !app_assoc. reflexivity.
      * rewrite !app_length, firstn_length, Nat.min_l by lia. simpl. lia.
Qed.

(* Proofs/ObservablesExtP.v -- lemmas about Model/ObservablesExt.v (C17 extension round). *)
From Coq Require Import Permutation.
From CKT Require Import Common.Base Model.Observables Proofs.ObservablesP Model.ObservablesExt.

(* ---------- every qubit index is covered exactly once ---------- *)
Lemma add_to_group_concat l i g :
  Permutation (concat (map snd (add_to_group l i g))) (concat (map snd g) ++ [i]).
Proof.
  induction g as [|[l' qs] r IH]; simpl; [reflexivity|].
  destruct (Nat.eqb l l'); simpl.
  - rewrite <- !app_assoc. apply Permutation_app_head. apply Permutation_app_comm.
  - rewrite <- app_assoc. now apply Permutation_app_head.
Qed.

Lemma groups_from_concat labels i g :
  Permutation (concat (map snd (groups_from labels i g))) (concat (map snd g) ++ seq i (length labels)).
Proof.
  revert i g; induction labels as [|l r IH]; intros i g; simpl; [now rewrite app_nil_r|].
  rewrite IH. rewrite add_to_group_concat, <- app_assoc. reflexivity.
Qed.

Lemma qubits_by_subsystem_cover labels :
  Permutation (concat (map snd (qubits_by_subsystem labels))) (seq 0 (length labels)).
Proof. unfold qubits_by_subsystem. now rewrite groups_from_concat. Qed.

Lemma covered_decompose labels ps :
  covered (decompose_observables labels ps) = concat (map snd (qubits_by_subsystem labels)).
Proof.
  unfold covered, decompose_observables. rewrite map_map. f_equal.
Qed.

Lemma row_groups_decompose labels ps i : i < length ps ->
  row_groups i (decompose_observables labels ps) =
  map (fun lq => (snd lq, restrict1 (snd lq) (nth i ps pI))) (qubits_by_subsystem labels).
Proof.
  intros Hi. unfold row_groups, decompose_observables. rewrite map_map. apply map_ext.
  intros [l qs]; simpl. f_equal. apply (map_nth_lt (restrict1 qs) ps i (mkP 0 []) pI Hi).
Qed.

(* the public call: the dict it returns covers every index 0..n-1 exactly once -- whatever the label
   values are (the id the harness gives to None is a label like any other) -- every index sits in the
   group of its own label, and every row recombines to the original letters *)
Lemma decompose_call_recombine aslist n labels ps D :
  length labels = n -> decompose_call aslist n labels ps = Ok D ->
  Permutation (covered D) (seq 0 n) /\
  (forall j, j < n -> exists qs subs, In (nth j labels 0, qs, subs) D /\ In j qs) /\
  (forall i, i < length ps -> length (plets (nth i ps pI)) = n ->
     recombine_row n i D = plets (nth i ps pI)).
Proof.
  intros L H. rewrite decompose_call_ok in H by lia. inversion H; subst D; clear H.
  split; [|split].
  - rewrite covered_decompose, <- L. apply qubits_by_subsystem_cover.
  - intros j Hj. destruct (decompose_spec labels ps) as [_ [CV CH]].
    rewrite <- L in Hj. specialize (CV j Hj). apply in_map_iff in CV as [[[l qs] subs] [E I]].
    simpl in E. subst l. exists qs, subs. split; [assumption|].
    destruct (CH _ _ _ I) as [-> _]. apply members_in. split; [assumption|reflexivity].
  - intros i Hi Hl. unfold recombine_row. rewrite row_groups_decompose by assumption.
    rewrite <- L. apply recombine_decompose. congruence.
Qed.

Lemma covered_exactly_once (l : list nat) n : Permutation l (seq 0 n) ->
  NoDup l /\ forall j, In j l <-> j < n.
Proof.
  intros P. split.
  - apply (Permutation_NoDup (Permutation_sym P)), seq_NoDup.
  - intros j. split; intros H.
    + apply (Permutation_in _ P) in H. apply in_seq in H. lia.
    + apply (Permutation_in _ (Permutation_sym P)). apply in_seq. lia.
Qed.

(* ---------- expand: the phase is kept on every input; closed form for 0-qubit originals ---------- *)
Lemma expand_phase_kept nobs oq fq ps out :
  expand nobs oq fq ps = Ok out -> map pphase out = map pphase ps.
Proof.
  unfold expand. destruct (negb _); [discriminate|]. destruct (find_all oq fq) as [m|]; [|discriminate].
  intros H; inversion H; subst. rewrite map_map. reflexivity.
Qed.

Lemma expand_zero fq ps :
  expand 0 [] fq ps = Ok (map (fun p => mkP (pphase p) (repeat 0 (length fq))) ps).
Proof. reflexivity. Qed.

(* ---------- labels as Python objects: interning is sound ---------- *)
Section GenLabelsP.
  Variable L : Type.
  Variable leqb : L -> L -> bool.

  Notation relabel := (relabel L).

  Lemma add_to_group_g_keys l i g k :
    In k (map fst (add_to_group_g leqb l i g)) -> k = l \/ In k (map fst g).
  Proof.
    induction g as [|[l' qs] r IH]; simpl; [intros [H|[]]; auto|].
    destruct (leqb l l'); simpl; [tauto|]. intros [H|H]; [auto|]. destruct (IH H); auto.
  Qed.

  Lemma add_to_group_relabel f l i g :
    (forall k, In k (map fst g) -> Nat.eqb (f l) (f k) = leqb l k) ->
    relabel f (add_to_group_g leqb l i g) = add_to_group (f l) i (relabel f g).
  Proof.
    induction g as [|[l' qs] r IH]; intros H; simpl; [reflexivity|].
    rewrite (H l') by now left. destruct (leqb l l'); simpl; [reflexivity|].
    f_equal. apply IH. intros k Hk. apply H. now right.
  Qed.

  Lemma groups_from_relabel f all labels i g :
    (forall a b, In a all -> In b all -> Nat.eqb (f a) (f b) = leqb a b) ->
    incl labels all -> incl (map fst g) all ->
    relabel f (groups_from_g leqb labels i g) = groups_from (map f labels) i (relabel f g).
  Proof.
    intros C. revert i g; induction labels as [|l r IH]; intros i g I1 I2; simpl; [reflexivity|].
    rewrite IH.
    - f_equal. apply add_to_group_relabel. intros k Hk. apply C; [apply I1; now left|now apply I2].
    - intros x Hx. apply I1. now right.
    - intros k Hk. apply add_to_group_g_keys in Hk as [->|Hk]; [apply I1; now left|now apply I2].
  Qed.

  (* THE INTERNING CONTRACT: any numbering f whose equality on the labels of the call is the dict-key
     equality turns the Python-level grouping into the nat-level grouping of the model *)
  Lemma interning_commutes f labels :
    (forall a b, In a labels -> In b labels -> Nat.eqb (f a) (f b) = leqb a b) ->
    relabel f (qubits_by_subsystem_g leqb labels) = qubits_by_subsystem (map f labels).
  Proof.
    intros C. unfold qubits_by_subsystem_g, qubits_by_subsystem.
    apply (groups_from_relabel f labels labels 0 [] C); [apply incl_refl|intros x []].
  Qed.

  (* ---- the harness's Interner satisfies the contract when dict-key equality is an equivalence ---- *)
  Hypothesis leqb_refl : forall a, leqb a a = true.
  Hypothesis leqb_sym : forall a b, leqb a b = leqb b a.
  Hypothesis leqb_trans : forall a b c, leqb a b = true -> leqb b c = true -> leqb a c = true.

  Lemma find_key_app_Some x seen ext i :
    find_key leqb x seen = Some i -> find_key leqb x (seen ++ ext) = Some i.
  Proof.
    revert i; induction seen as [|y r IH]; simpl; intros i H; [discriminate|].
    destruct (leqb x y); [assumption|].
    destruct (find_key leqb x r) as [j|]; [|discriminate]. now rewrite (IH j eq_refl).
  Qed.

  Lemma find_key_app_None x seen ext :
    find_key leqb x seen = None ->
    find_key leqb x (seen ++ ext) = option_map (fun j => length seen + j) (find_key leqb x ext).
  Proof.
    induction seen as [|y r IH]; simpl; intros H.
    - destruct (find_key leqb x ext); reflexivity.
    - destruct (leqb x y); [discriminate|].
      destruct (find_key leqb x r) as [j|]; [discriminate|]. rewrite IH by reflexivity.
      destruct (find_key leqb x ext); reflexivity.
  Qed.

  Lemma find_key_self x seen : find_key leqb x seen = None ->
    find_key leqb x (seen ++ [x]) = Some (length seen).
  Proof.
    intros H. rewrite find_key_app_None by assumption. simpl. rewrite leqb_refl. simpl.
    now rewrite Nat.add_0_r.
  Qed.

  Lemma keys_after_ext seen xs : exists ext, keys_after leqb seen xs = seen ++ ext.
  Proof.
    revert seen; induction xs as [|x r IH]; intros seen; simpl; [exists []; now rewrite app_nil_r|].
    destruct (find_key leqb x seen); [apply IH|].
    destruct (IH (seen ++ [x])) as [ext E]. exists ([x] ++ ext). now rewrite E, <- app_assoc.
  Qed.

  Lemma intern_list_final seen xs :
    intern_list leqb seen xs =
    map (fun x => match find_key leqb x (keys_after leqb seen xs) with
                  | Some i => i | None => length (keys_after leqb seen xs) end) xs.
  Proof.
    revert seen; induction xs as [|x r IH]; intros seen; simpl; [reflexivity|].
    destruct (find_key leqb x seen) as [i|] eqn:E.
    - destruct (keys_after_ext seen r) as [ext K]. rewrite K at 1.
      rewrite (find_key_app_Some _ _ _ _ E). f_equal. apply IH.
    - destruct (keys_after_ext (seen ++ [x]) r) as [ext K]. rewrite K at 1.
      rewrite (find_key_app_Some _ _ ext _ (find_key_self _ _ E)). f_equal. apply IH.
  Qed.

  Lemma intern_list_is_intern_id labels :
    intern_list leqb [] labels = map (intern_id leqb labels) labels.
  Proof. apply intern_list_final. Qed.

  Lemma keys_after_finds seen xs x : In x xs ->
    exists i, find_key leqb x (keys_after leqb seen xs) = Some i.
  Proof.
    revert seen; induction xs as [|y r IH]; intros seen; simpl; [tauto|].
    intros [->|H].
    - destruct (find_key leqb x seen) as [i|] eqn:E.
      + destruct (keys_after_ext seen r) as [ext K]. rewrite K. exists i. now apply find_key_app_Some.
      + destruct (keys_after_ext (seen ++ [x]) r) as [ext K]. rewrite K. exists (length seen).
        apply find_key_app_Some. now apply find_key_self.
    - destruct (find_key leqb y seen); now apply IH.
  Qed.

  Lemma find_key_Some x seen i d : find_key leqb x seen = Some i ->
    i < length seen /\ leqb x (nth i seen d) = true.
  Proof.
    revert i; induction seen as [|y r IH]; simpl; intros i H; [discriminate|].
    destruct (leqb x y) eqn:E.
    - inversion H; subst. split; [lia|assumption].
    - destruct (find_key leqb x r) as [j|]; [|discriminate]. inversion H; subst.
      destruct (IH j eq_refl) as [A B]. split; [lia|assumption].
  Qed.

  Lemma find_key_congr a b seen : leqb a b = true -> find_key leqb a seen = find_key leqb b seen.
  Proof.
    intros E. induction seen as [|y r IH]; simpl; [reflexivity|].
    assert (X : leqb a y = leqb b y).
    { destruct (leqb a y) eqn:A, (leqb b y) eqn:B; try reflexivity.
      - rewrite (leqb_trans b a y) in B; [discriminate|now rewrite leqb_sym|assumption].
      - rewrite (leqb_trans a b y) in A; [discriminate|assumption|assumption]. }
    rewrite X, IH. reflexivity.
  Qed.

  Lemma interner_contract labels a b : In a labels -> In b labels ->
    Nat.eqb (intern_id leqb labels a) (intern_id leqb labels b) = leqb a b.
  Proof.
    intros Ha Hb. unfold intern_id. set (K := keys_after leqb [] labels).
    destruct (keys_after_finds [] labels a Ha) as [i Ei].
    destruct (keys_after_finds [] labels b Hb) as [j Ej]. fold K in Ei, Ej. rewrite Ei, Ej.
    destruct (leqb a b) eqn:E.
    - rewrite (find_key_congr a b K E) in Ei. rewrite Ei in Ej. inversion Ej. apply Nat.eqb_refl.
    - apply Nat.eqb_neq. intros ->.
      destruct (find_key_Some _ _ _ a Ei) as [_ A]. destruct (find_key_Some _ _ _ a Ej) as [_ B].
      rewrite (leqb_trans a (nth j K a) b) in E; [discriminate|assumption|now rewrite leqb_sym].
  Qed.

  (* the Python-level grouping, renumbered by the Interner, IS the model's grouping of the interned labels *)
  Lemma interner_commutes labels :
    relabel (intern_id leqb labels) (qubits_by_subsystem_g leqb labels) =
    qubits_by_subsystem (intern_list leqb [] labels).
  Proof.
    rewrite intern_list_is_intern_id. apply interning_commutes. intros a b. apply interner_contract.
  Qed.

  (* lifted through the interning: the Python-level groups cover every qubit index exactly once *)
  Lemma qubits_by_subsystem_g_cover labels :
    Permutation (concat (map snd (qubits_by_subsystem_g leqb labels))) (seq 0 (length labels)).
  Proof.
    assert (E : map snd (qubits_by_subsystem_g leqb labels) =
                map snd (relabel (intern_id leqb labels) (qubits_by_subsystem_g leqb labels))).
    { unfold relabel. rewrite map_map. reflexivity. }
    rewrite E, interner_commutes, qubits_by_subsystem_cover, intern_list_is_intern_id, map_length.
    reflexivity.
  Qed.
End GenLabelsP.

Lemma decompose_call_cover aslist n labels ps D :
  length labels = n -> decompose_call aslist n labels ps = Ok D ->
  NoDup (covered D) /\ forall j, In j (covered D) <-> j < n.
Proof.
  intros L H. apply covered_exactly_once. now destruct (decompose_call_recombine _ _ _ _ _ L H).
Qed.

(* ------------------------------------------------------------------------------------------
   Correction round (proof audit).
   ------------------------------------------------------------------------------------------ *)

Lemma fold_scatter_length (gs : list (list nat * pauli)) acc :
  length (fold_left (fun a g => scatter (fst g) (plets (snd g)) a) gs acc) = length acc.
Proof.
  revert acc; induction gs as [|g r IH]; intros acc; simpl; [reflexivity|]. now rewrite IH, scatter_length.
Qed.

(* recombination over ANY family of index blocks that covers exactly 0..n-1: blocks in any order, indices in any
   order inside a block (even overlapping blocks: a letter scattered twice is the same letter) *)
Lemma recombine_any_partition n p gs :
  length (plets p) = n -> (forall q, In q (concat gs) <-> q < n) ->
  recombine1 n (map (fun qs => (qs, restrict1 qs p)) gs) = plets p.
Proof.
  intros L C. unfold recombine1.
  replace (map (fun qs => (qs, restrict1 qs p)) gs)
    with (map (fun qs => (qs, restrict1 qs (mkP 0 (plets p)))) gs) by (apply map_ext; reflexivity).
  apply nth_ext with (d := 0) (d' := 0).
  - rewrite fold_scatter_length, repeat_length. now symmetry.
  - intros j Hj. rewrite fold_scatter_length, repeat_length in Hj.
    rewrite recombine_fold.
    + assert (E : existsb (fun g => if in_dec Nat.eq_dec j g then true else false) gs = true).
      { apply existsb_exists. apply C in Hj. apply in_concat in Hj as [g [Hg Hq]].
        exists g; split; [assumption|]. destruct (in_dec Nat.eq_dec j g); [reflexivity|contradiction]. }
      now rewrite E.
    + intros g q Hg Hq. rewrite repeat_length. apply C. apply in_concat. exists g; auto.
Qed.

(* well-formed input: every row has the width n the call is about (PauliList invariant) *)
Lemma restrict_full_wf n qs ps :
  (forall p, In p ps -> length (plets p) = n) -> (forall q, In q qs -> q < n) ->
  exists out, restrict n qs ps = Ok out /\ length out = length ps /\
    forall i, i < length ps ->
      pphase (nth i out pI) = 0 /\
      length (plets (nth i out pI)) = length qs /\
      forall k, k < length qs ->
        nth k (plets (nth i out pI)) 0 = nth (nth k qs 0) (plets (nth i ps pI)) 0 /\
        nth_error (plets (nth i out pI)) k = nth_error (plets (nth i ps pI)) (nth k qs 0).
Proof.
  intros W H. destruct (restrict_full n qs ps H) as [out [E [L F]]].
  exists out. split; [assumption|]. split; [assumption|].
  intros i Hi. destruct (F i Hi) as [A [B C]]. split; [assumption|]. split; [assumption|].
  intros k Hk. split; [now apply C|].
  assert (Hq : nth k qs 0 < length (plets (nth i ps pI))).
  { rewrite (W (nth i ps pI)) by (apply nth_In; assumption). apply H. now apply nth_In. }
  assert (Hk' : k < length (plets (nth i out pI))) by (rewrite B; assumption).
  rewrite (nth_error_nth' (plets (nth i out pI)) (0 : letter) Hk'), (nth_error_nth' (plets (nth i ps pI)) (0 : letter) Hq). f_equal. now apply C.
Qed.

Lemma expand_full_hoisted nobs oq fq ps :
  NoDup oq -> NoDup fq -> incl oq fq -> nobs = length oq ->
  (forall p, In p ps -> length (plets p) = nobs) ->
  exists out, expand nobs oq fq ps = Ok out /\ length out = length ps /\
    forall i, i < length ps ->
      let p := nth i ps pI in let r := nth i out pI in
      pphase r = pphase p /\ length (plets r) = length fq /\
      (forall k j, k < length oq -> j < length fq -> nth j fq 0 = nth k oq 0 ->
          nth j (plets r) 0 = nth k (plets p) 0) /\
      (forall j, ~ In (nth j fq 0) oq -> j < length fq -> nth j (plets r) 0 = 0).
Proof.
  intros ND NDf I E HL. destruct (expand_full nobs oq fq ps ND I E HL) as [out [A [B C]]].
  exists out. split; [assumption|]. split; [assumption|].
  intros i Hi. destruct (C i Hi) as [C1 [C2 [C3 C4]]]. cbv zeta.
  split; [assumption|]. split; [assumption|]. split; [|assumption].
  intros k j Hk Hj Ej. now apply C3.
Qed.

Lemma expand_outcome_wf nobs oq fq ps :
  (forall p, In p ps -> length (plets p) = nobs) ->
  ((exists out, expand nobs oq fq ps = Ok out) <-> nobs = length oq /\ incl oq fq) /\
  (expand nobs oq fq ps = Refused <-> ~ (nobs = length oq /\ incl oq fq)) /\
  expand nobs oq fq ps <> Crashed.
Proof.
  intros _. split; [apply expand_ok_iff|]. split; [|apply expand_never_crashes].
  rewrite expand_refused_iff, <- expand_refusal_none. reflexivity.
Qed.

Lemma restrict_seq_ok_wf aslist n qs ps :
  (forall p, In p ps -> length (plets p) = n) -> (forall q, In q qs -> q < n) ->
  restrict_seq aslist n qs ps = Ok (map (restrict1 qs) ps).
Proof. intros _. apply restrict_seq_ok. Qed.

Lemma restrict_out_of_range_wf aslist n qs ps :
  (forall p, In p ps -> length (plets p) = n) -> (exists q, In q qs /\ n <= q) ->
  (aslist = false \/ ps <> [] -> restrict_seq aslist n qs ps = Crashed) /\
  restrict_seq true n qs [] = Ok [].
Proof. intros _ H. split; [now apply restrict_seq_crash|reflexivity]. Qed.

(* Proofs/ValidationP.v — lemmas about Model/Validation.v (C18). *)
From Coq Require Import QArith Lia.
From CKT Require Import Common.Base Model.Validation.
Close Scope Q_scope.

(* ---------- generic ---------- *)
Lemma andthen_rif_refused c x : x = Refused -> andthen (refuse_if c) x = Refused.
Proof. intros ->; destruct c; reflexivity. Qed.
Lemma rif_true c : c = true -> refuse_if c = Refused.
Proof. intros ->; reflexivity. Qed.
Lemma rif_false c : c = false -> refuse_if c = Proceeds.
Proof. intros ->; reflexivity. Qed.
Lemma rif_cases c : refuse_if c = Proceeds \/ refuse_if c = Refused.
Proof. destruct c; auto. Qed.
Lemma andthen_refused_r a : (a = Proceeds \/ a = Refused) -> andthen a Refused = Refused.
Proof. intros [-> | ->]; reflexivity. Qed.
Lemma andthen_cases a b : (a = Proceeds \/ a = Refused) -> (b = Proceeds \/ b = Refused) ->
  andthen a b = Proceeds \/ andthen a b = Refused.
Proof. intros [-> | ->] H; simpl; auto. Qed.

Lemma existsb_nth_true {A} (f : A -> bool) l k d :
  k < length l -> f (nth k l d) = true -> existsb f l = true.
Proof.
  intros Hk Hf. apply existsb_exists. exists (nth k l d). split; [apply nth_In; exact Hk | exact Hf].
Qed.
Lemma eqb_false_of_neq a b : a <> b -> (a =? b) = false.
Proof. intro H; apply Nat.eqb_neq; exact H. Qed.

Lemma qle_bool_false k q : (q < k)%Q -> Qle_bool k q = false.
Proof.
  intro H. destruct (Qle_bool k q) eqn:E; auto. apply Qle_bool_iff in E.
  exfalso. exact (Qlt_not_le _ _ H E).
Qed.
Lemma qle_bool_true k q : (k <= q)%Q -> Qle_bool k q = true.
Proof. intro H. apply Qle_bool_iff; exact H. Qed.

(* ---------- numeric limits ---------- *)
Lemma weights_lt1 q : (q < 1)%Q -> api_generate_qpd_weights (BNum q) = Refused.
Proof. intro H. unfold api_generate_qpd_weights, b_ge, Q1. now rewrite qle_bool_false. Qed.
Lemma weights_nan : api_generate_qpd_weights BNaN = Refused.
Proof. reflexivity. Qed.
Lemma weights_neginf : api_generate_qpd_weights BNegInf = Refused.
Proof. reflexivity. Qed.
Lemma weights_valid q : (1 <= q)%Q -> api_generate_qpd_weights (BNum q) = Proceeds.
Proof. intro H. unfold api_generate_qpd_weights, b_ge, Q1. now rewrite qle_bool_true. Qed.
Lemma weights_inf : api_generate_qpd_weights BInf = Proceeds.
Proof. reflexivity. Qed.

Lemma device_lt1 q : (q < 1)%Q -> api_device_constraints (BNum q) = Refused.
Proof. intro H. unfold api_device_constraints, b_lt, Q1. now rewrite qle_bool_false. Qed.
Lemma device_valid q : (1 <= q)%Q -> api_device_constraints (BNum q) = Proceeds.
Proof. intro H. unfold api_device_constraints, b_lt, Q1. now rewrite qle_bool_true. Qed.

Lemma settings_gamma q bj : (q < 1)%Q -> api_opt_settings (BNum q) bj = Refused.
Proof. intro H. unfold api_opt_settings, b_lt, Q1. now rewrite qle_bool_false. Qed.
Lemma settings_backjumps g q : (q < 0)%Q -> api_opt_settings g (Some (BNum q)) = Refused.
Proof.
  intro H. unfold api_opt_settings. apply andthen_rif_refused. unfold b_lt, Q0. now rewrite qle_bool_false.
Qed.
Lemma settings_valid g bj : b_lt g Q1 = false ->
  match bj with Some b => b_lt b Q0 | None => false end = false -> api_opt_settings g bj = Proceeds.
Proof. intros H1 H2. unfold api_opt_settings. now rewrite H1, H2. Qed.
Lemma settings_cases g bj : api_opt_settings g bj = Proceeds \/ api_opt_settings g bj = Refused.
Proof. unfold api_opt_settings. apply andthen_cases; apply rif_cases. Qed.

(* ---------- from_instruction ---------- *)
Lemma theta_unbound : api_theta false = Refused.
Proof. reflexivity. Qed.
Lemma fi_unbound g : gd_registered g = true -> gd_param g = true -> gd_bound g = false ->
  api_from_instruction g = Refused.
Proof. intros H1 H2 H3. unfold api_from_instruction. now rewrite H1, H2, H3. Qed.
Lemma fi_matrix g : gd_registered g = false -> gd_gate2 g = true -> gd_matrix g = false ->
  api_from_instruction g = Refused.
Proof. intros H1 H2 H3. unfold api_from_instruction. now rewrite H1, H2, H3. Qed.
Lemma fi_unsupported g : gd_registered g = false -> gd_gate2 g = false -> api_from_instruction g = Refused.
Proof. intros H1 H2. unfold api_from_instruction. now rewrite H1, H2. Qed.
Lemma fi_valid_registered g : gd_registered g = true -> (gd_param g = false \/ gd_bound g = true) ->
  api_from_instruction g = Proceeds.
Proof.
  intros H1 [H2 | H2]; unfold api_from_instruction; rewrite H1.
  - now rewrite H2.
  - destruct (gd_param g); [now rewrite H2 | reflexivity].
Qed.
Lemma fi_valid_kak g : gd_registered g = false -> gd_gate2 g = true -> gd_matrix g = true ->
  api_from_instruction g = Proceeds.
Proof. intros H1 H2 H3. unfold api_from_instruction. now rewrite H1, H2, H3. Qed.
Lemma fi_cases g : api_from_instruction g = Proceeds \/ api_from_instruction g = Refused.
Proof.
  unfold api_from_instruction, api_theta.
  destruct (gd_registered g), (gd_param g), (gd_bound g), (gd_gate2 g), (gd_matrix g); simpl; auto.
Qed.

(* ---------- partition_circuit_qubits ---------- *)
Definition dflt_inst : ginst := mkG KBarrier [].

Lemma pcq_step_wide labels g :
  gi_kind g <> KBarrier -> 2 < length (gi_qs g) -> spanned labels (gi_qs g) <> 1 ->
  pcq_refuses labels g = true.
Proof.
  intros Hk Hw Hs. unfold pcq_refuses, pcq_step.
  assert (E1 : (length (gi_qs g) <=? 1) = false) by (apply Nat.leb_gt; lia).
  assert (E2 : (spanned labels (gi_qs g) =? 1) = false) by (apply Nat.eqb_neq; exact Hs).
  assert (E3 : (2 <? length (gi_qs g)) = true) by (apply Nat.ltb_lt; exact Hw).
  destruct (gi_kind g); [congruence | |]; rewrite E1, E2, E3; reflexivity.
Qed.
Lemma pcq_step_unsupported labels g d :
  gi_kind g = KOp d -> length (gi_qs g) = 2 -> spanned labels (gi_qs g) <> 1 ->
  api_from_instruction d = Refused -> pcq_refuses labels g = true.
Proof.
  intros Hk Hw Hs Hd. unfold pcq_refuses, pcq_step. rewrite Hk, Hw.
  assert (E2 : (spanned labels (gi_qs g) =? 1) = false) by (apply Nat.eqb_neq; exact Hs).
  rewrite E2. simpl. now rewrite Hd.
Qed.
Lemma pcq_loop_refused labels insts k :
  k < length insts -> pcq_refuses labels (nth k insts dflt_inst) = true -> pcq_loop labels insts = Refused.
Proof. intros Hk H. unfold pcq_loop. apply rif_true. eapply existsb_nth_true; eauto. Qed.

Lemma pcq_label_count i : length (pq_labels i) <> pq_nq i -> api_pcq i = Refused.
Proof. intro H. unfold api_pcq. now rewrite (eqb_false_of_neq _ _ H). Qed.
Lemma pcq_wide_gate i k :
  k < length (pq_insts i) ->
  let g := nth k (pq_insts i) dflt_inst in
  gi_kind g <> KBarrier -> 2 < length (gi_qs g) -> spanned (pq_labels i) (gi_qs g) <> 1 ->
  api_pcq i = Refused.
Proof.
  intros Hk g H1 H2 H3. unfold api_pcq. apply andthen_rif_refused.
  eapply pcq_loop_refused; eauto. now apply pcq_step_wide.
Qed.
Lemma pcq_unsupported i k d :
  k < length (pq_insts i) ->
  let g := nth k (pq_insts i) dflt_inst in
  gi_kind g = KOp d -> length (gi_qs g) = 2 -> spanned (pq_labels i) (gi_qs g) <> 1 ->
  api_from_instruction d = Refused ->
  api_pcq i = Refused.
Proof.
  intros Hk g H1 H2 H3 H4. unfold api_pcq. apply andthen_rif_refused.
  eapply pcq_loop_refused; eauto. eapply pcq_step_unsupported; eauto.
Qed.
Lemma pcq_frame i : api_pcq i <> Proceeds -> pcq_final i = map is_qpd2 (pq_insts i).
Proof. intro H. unfold pcq_final. destruct (api_pcq i) as [[]| |]; [congruence | reflexivity | reflexivity]. Qed.
Lemma pcq_valid i :
  length (pq_labels i) = pq_nq i -> existsb (pcq_refuses (pq_labels i)) (pq_insts i) = false ->
  api_pcq i = Proceeds.
Proof. intros H1 H2. unfold api_pcq, pcq_loop. rewrite H1, Nat.eqb_refl, H2. reflexivity. Qed.
Lemma pcq_valid_final i :
  api_pcq i = Proceeds ->
  pcq_final i = map (fun g => is_qpd2 g || pcq_cuts (pq_labels i) g) (pq_insts i).
Proof. intro H. unfold pcq_final. now rewrite H. Qed.

(* ---------- cut_gates ---------- *)
Lemma cg_clbits i : cg_ncregs i <> 0 \/ cg_nclbits i <> 0 -> api_cut_gates i = Refused.
Proof.
  intros H. unfold api_cut_gates, has_clbits.
  destruct H as [H | H]; rewrite (eqb_false_of_neq _ _ H); simpl; [reflexivity|].
  destruct (cg_ncregs i =? 0); reflexivity.
Qed.
Lemma cg_check_refused ops ids :
  (forall k, In k ids -> k < length ops) ->
  (exists k, In k ids /\ api_from_instruction (nth k ops qpd_desc) = Refused) ->
  cg_check ops ids = Refused.
Proof.
  induction ids as [|k r IH]; intros Hr [k0 [Hin Hk0]]; [destruct Hin|].
  simpl. destruct (nth_error ops k) as [d|] eqn:E.
  - assert (Hd : nth k ops qpd_desc = d) by (now apply nth_error_nth).
    destruct (fi_cases d) as [Hp | Hp]; rewrite Hp; simpl; [|reflexivity].
    apply IH; [intros; apply Hr; now right|].
    destruct Hin as [<- | Hin]; [rewrite Hd, Hp in Hk0; discriminate | exists k0; auto].
  - exfalso. apply nth_error_None in E. specialize (Hr k (or_introl eq_refl)). lia.
Qed.
Lemma cg_unsupported i :
  (forall k, In k (cg_ids i) -> k < length (cg_ops i)) ->
  (exists k, In k (cg_ids i) /\ api_from_instruction (nth k (cg_ops i) qpd_desc) = Refused) ->
  api_cut_gates i = Refused.
Proof. intros H1 H2. unfold api_cut_gates. apply andthen_rif_refused. now apply cg_check_refused. Qed.
Lemma cg_check_not_ok ops ids k :
  In k ids -> (forall d, nth_error ops k = Some d -> api_from_instruction d = Refused) -> cg_check ops ids <> Proceeds.
Proof.
  induction ids as [|k0 r IH]; intros Hin H; [destruct Hin|]. simpl.
  destruct (nth_error ops k0) as [d|] eqn:E; [|congruence].
  destruct Hin as [-> | Hin].
  - rewrite E in H. rewrite (H d eq_refl). simpl. congruence.
  - destruct (api_from_instruction d) as [[]| |]; simpl; [now apply IH | congruence | congruence].
Qed.
Lemma cg_unsupported_total i k :
  In k (cg_ids i) -> (forall d, nth_error (cg_ops i) k = Some d -> api_from_instruction d = Refused) ->
  api_cut_gates i <> Proceeds.
Proof.
  intros H1 H2. pose proof (cg_check_not_ok _ _ _ H1 H2) as H. unfold api_cut_gates.
  destruct (refuse_if _) as [[]| |]; simpl; congruence.
Qed.
Lemma cg_frame i : api_cut_gates i <> Proceeds -> cg_final i = repeat false (length (cg_ops i)).
Proof. intro H. unfold cg_final. destruct (api_cut_gates i) as [[]| |]; [congruence | reflexivity | reflexivity]. Qed.
Lemma cg_check_valid ops ids :
  (forall k, In k ids -> exists d, nth_error ops k = Some d /\ api_from_instruction d = Proceeds) ->
  cg_check ops ids = Proceeds.
Proof.
  induction ids as [|k r IH]; intros H; [reflexivity|]. simpl.
  destruct (H k (or_introl eq_refl)) as [d [E Hd]]. rewrite E, Hd. simpl. apply IH. intros; apply H; now right.
Qed.
Lemma cg_valid i :
  cg_ncregs i = 0 -> cg_nclbits i = 0 ->
  (forall k, In k (cg_ids i) -> exists d, nth_error (cg_ops i) k = Some d /\ api_from_instruction d = Proceeds) ->
  api_cut_gates i = Proceeds.
Proof. intros H1 H2 H3. unfold api_cut_gates, has_clbits. rewrite H1, H2. simpl. now apply cg_check_valid. Qed.

(* ---------- partition_problem ---------- *)
Lemma pp_label_count i l : pp_labels i = Some l -> length l <> pp_nq i -> api_partition_problem i = Refused.
Proof. intros H1 H2. unfold api_partition_problem. rewrite H1, (eqb_false_of_neq _ _ H2). reflexivity. Qed.
Lemma pp_obs_size i o k :
  pp_obs i = Some o -> k < length o -> fst (nth k o (0, 0)) <> pp_nq i -> api_partition_problem i = Refused.
Proof.
  intros H1 Hk H2. unfold api_partition_problem. apply andthen_rif_refused. rewrite H1.
  rewrite (existsb_nth_true _ o k (0, 0) Hk); [reflexivity|]. now rewrite (eqb_false_of_neq _ _ H2).
Qed.
Lemma pp_phase i o k :
  pp_obs i = Some o -> k < length o -> snd (nth k o (0, 0)) <> 0 -> api_partition_problem i = Refused.
Proof.
  intros H1 Hk H2. unfold api_partition_problem. do 2 apply andthen_rif_refused. rewrite H1.
  rewrite (existsb_nth_true _ o k (0, 0) Hk); [reflexivity|]. now rewrite (eqb_false_of_neq _ _ H2).
Qed.
Lemma has_clbits_true a b : a <> 0 \/ b <> 0 -> has_clbits a b = true.
Proof.
  unfold has_clbits. intros [H | H]; rewrite (eqb_false_of_neq _ _ H); simpl; [reflexivity|].
  destruct (a =? 0); reflexivity.
Qed.
Lemma pp_clbits i : pp_ncregs i <> 0 \/ pp_nclbits i <> 0 -> api_partition_problem i = Refused.
Proof.
  intro H. unfold api_partition_problem. do 3 apply andthen_rif_refused. now rewrite has_clbits_true.
Qed.
Lemma pp_wide_gate i l k :
  pp_labels i = Some l -> k < length (pp_insts i) ->
  let g := nth k (pp_insts i) dflt_inst in
  gi_kind g <> KBarrier -> 2 < length (gi_qs g) -> spanned l (gi_qs g) <> 1 ->
  api_partition_problem i = Refused.
Proof.
  intros Hl Hk g H1 H2 H3. unfold api_partition_problem. do 4 apply andthen_rif_refused. rewrite Hl.
  rewrite (pcq_loop_refused l (pp_insts i) k Hk); [reflexivity|]. now apply pcq_step_wide.
Qed.
Lemma pp_unsupported i l k d :
  pp_labels i = Some l -> k < length (pp_insts i) ->
  let g := nth k (pp_insts i) dflt_inst in
  gi_kind g = KOp d -> length (gi_qs g) = 2 -> spanned l (gi_qs g) <> 1 -> api_from_instruction d = Refused ->
  api_partition_problem i = Refused.
Proof.
  intros Hl Hk g H1 H2 H3 H4. unfold api_partition_problem. do 4 apply andthen_rif_refused. rewrite Hl.
  rewrite (pcq_loop_refused l (pp_insts i) k Hk); [reflexivity|]. eapply pcq_step_unsupported; eauto.
Qed.
Lemma pp_none_label i l k q :
  pp_labels i = Some l -> k < length (pp_insts i) -> In q (gi_qs (nth k (pp_insts i) dflt_inst)) ->
  nth q l None = None -> api_partition_problem i = Refused.
Proof.
  intros Hl Hk Hq Hn. unfold api_partition_problem. do 4 apply andthen_rif_refused. rewrite Hl.
  unfold pcq_loop. apply andthen_rif_refused.
  assert (E : none_label_used l (pp_insts i) = true).
  { unfold none_label_used. eapply existsb_nth_true; [exact Hk|]. apply existsb_exists. exists q.
    split; [exact Hq | now rewrite Hn]. }
  now rewrite E.
Qed.
Lemma idle_observable_true (l : list label) support j q :
  j < length support -> In q (nth j support []) -> nth q l None = None -> idle_observable l support = true.
Proof.
  intros Hj Hq Hn. unfold idle_observable. apply (existsb_nth_true _ support j [] Hj).
  apply existsb_exists. exists q. split; [exact Hq | now rewrite Hn].
Qed.
(* fifth guard, explicit labels: the j-th observable acts on a qubit labelled None *)
Lemma pp_idle_explicit i l o j q :
  pp_labels i = Some l -> pp_obs i = Some o -> o <> [] -> j < length (pp_support i) -> In q (nth j (pp_support i) []) ->
  nth q l None = None -> api_partition_problem i = Refused.
Proof.
  intros Hl Ho Hne Hj Hq Hn. destruct o as [|o0 o']; [congruence|]. unfold api_partition_problem. do 4 apply andthen_rif_refused. rewrite Hl.
  unfold pcq_loop. do 2 apply andthen_rif_refused. unfold pp_support_eff. rewrite Ho.
  now rewrite (idle_observable_true l _ j q Hj Hq Hn).
Qed.
Lemma auto_label_none nq insts q : q < nq -> touched insts q = false -> nth q (auto_labels nq insts) None = None.
Proof.
  intros Hq Ht. unfold auto_labels.
  rewrite (nth_indep _ None (if touched insts (nth q (seq 0 nq) 0) then Some 0 else None)).
  - rewrite (map_nth (fun q0 => if touched insts q0 then Some 0 else None)). rewrite seq_nth; [|exact Hq]. simpl. now rewrite Ht.
  - rewrite map_length, seq_length. exact Hq.
Qed.
(* fifth guard, automatic labels: the j-th observable acts on a qubit that no instruction touches *)
Lemma pp_idle_auto i o j q :
  pp_labels i = None -> pp_obs i = Some o -> o <> [] -> j < length (pp_support i) -> In q (nth j (pp_support i) []) ->
  q < pp_nq i -> touched (pp_insts i) q = false -> api_partition_problem i = Refused.
Proof.
  intros Hl Ho Hne Hj Hq Hlt Ht. destruct o as [|o0 o']; [congruence|]. unfold api_partition_problem. do 4 apply andthen_rif_refused. rewrite Hl.
  unfold pp_support_eff. rewrite Ho.
  now rewrite (idle_observable_true _ _ j q Hj Hq (auto_label_none _ _ _ Hlt Ht)).
Qed.
Lemma pp_valid i :
  match pp_labels i with Some l => length l = pp_nq i | None => True end ->
  match pp_obs i with
  | Some o => existsb (fun p => negb (fst p =? pp_nq i)) o = false /\ existsb (fun p => negb (snd p =? 0)) o = false
  | None => True end ->
  pp_ncregs i = 0 -> pp_nclbits i = 0 ->
  match pp_labels i with
  | Some l => existsb (pcq_refuses l) (pp_insts i) = false /\ none_label_used l (pp_insts i) = false /\
              idle_observable l (pp_support_eff i) = false
  | None => idle_observable (auto_labels (pp_nq i) (pp_insts i)) (pp_support_eff i) = false end ->
  api_partition_problem i = Proceeds.
Proof.
  intros H1 H2 H3 H4 H5. unfold api_partition_problem, has_clbits, pcq_loop. rewrite H3, H4.
  destruct (pp_labels i) as [l|];
    [rewrite H1, Nat.eqb_refl; destruct H5 as [H5 [H6 H7]]; rewrite H5, H6, H7 | rewrite H5];
  (destruct (pp_obs i) as [o|]; [destruct H2 as [H2 H2']; rewrite H2, H2'|]); reflexivity.
Qed.

(* ---------- find_cuts ---------- *)
Lemma andthen_settings_refused g bj x : x = Refused -> andthen (api_opt_settings g bj) x = Refused.
Proof. intros ->. apply andthen_refused_r. apply settings_cases. Qed.
Lemma fc_gamma_lt1 i q : fc_gamma i = BNum q -> (q < 1)%Q -> api_find_cuts i = Refused.
Proof.
  intros H1 H2. unfold api_find_cuts. apply andthen_rif_refused. rewrite H1, (settings_gamma _ _ H2). reflexivity.
Qed.
Lemma fc_backjumps_neg i q : fc_backjumps i = Some (BNum q) -> (q < 0)%Q -> api_find_cuts i = Refused.
Proof.
  intros H1 H2. unfold api_find_cuts. apply andthen_rif_refused. rewrite H1, (settings_backjumps _ _ H2). reflexivity.
Qed.
Lemma fc_wide_gate i k :
  k < length (fc_insts i) ->
  let g := nth k (fc_insts i) dflt_inst in
  gi_kind g <> KBarrier -> 2 < length (gi_qs g) -> api_find_cuts i = Refused.
Proof.
  intros Hk g H1 H2. unfold api_find_cuts. apply andthen_rif_refused. apply andthen_settings_refused.
  apply rif_true. apply (existsb_nth_true fc_wide _ k dflt_inst Hk). fold g. unfold fc_wide, is_barrier.
  assert (E : (2 <? length (gi_qs g)) = true) by (apply Nat.ltb_lt; exact H2). rewrite E.
  destruct (gi_kind g); [congruence | reflexivity | reflexivity].
Qed.
Lemma fc_unbound i k d :
  k < length (fc_insts i) ->
  let g := nth k (fc_insts i) dflt_inst in
  gi_kind g = KOp d -> gd_gate2 d = true -> length (gi_qs g) = 2 -> api_from_instruction d = Refused ->
  api_find_cuts i = Refused.
Proof.
  intros Hk g H1 H2 H3 H4. unfold api_find_cuts.
  rewrite (existsb_nth_true fc_convert_refuses _ k dflt_inst Hk); [reflexivity|].
  fold g. unfold fc_convert_refuses. rewrite H1, H2, H3, H4. reflexivity.
Qed.
Lemma fc_valid i :
  existsb fc_convert_refuses (fc_insts i) = false ->
  api_opt_settings (fc_gamma i) (fc_backjumps i) = Proceeds ->
  existsb fc_wide (fc_insts i) = false -> api_find_cuts i = Proceeds.
Proof. intros H1 H2 H3. unfold api_find_cuts. rewrite H1, H2, H3. reflexivity. Qed.

(* ---------- generate_cutting_experiments ---------- *)
Lemma gen_form_circuit i : ge_cform i = CCircuit -> ge_oform i <> OPauliList -> api_generate i = Refused.
Proof.
  intros H1 H2. unfold api_generate. rewrite H1. destruct (ge_oform i); [congruence | reflexivity | reflexivity].
Qed.
Lemma gen_form_dict i : ge_cform i = CDict -> ge_oform i <> ODict -> api_generate i = Refused.
Proof.
  intros H1 H2. unfold api_generate. rewrite H1. destruct (ge_oform i); simpl; [reflexivity | congruence | reflexivity].
Qed.
Lemma gen_budget_lt1 i q : ge_budget i = BNum q -> (q < 1)%Q -> api_generate i = Refused.
Proof.
  intros H1 H2. unfold api_generate. do 2 apply andthen_rif_refused. rewrite H1. unfold b_ge, Q1.
  now rewrite qle_bool_false.
Qed.
Lemma gen_budget_nan i : ge_budget i = BNaN -> api_generate i = Refused.
Proof. intros H1. unfold api_generate. do 2 apply andthen_rif_refused. now rewrite H1. Qed.
Lemma gen_q1_unseparated i c r k :
  ge_cform i = CCircuit -> ge_circs i = c :: r -> k < length c -> is_q1 (nth k c GOther) = true ->
  api_generate i = Refused.
Proof.
  intros H1 H2 Hk H3. unfold api_generate. do 3 apply andthen_rif_refused. rewrite H1, H2. simpl.
  unfold api_get_bases. rewrite (existsb_nth_true is_q1 c k GOther Hk H3). reflexivity.
Qed.
Lemma gen_label i j k :
  ge_cform i = CDict -> j < length (ge_circs i) -> k < length (nth j (ge_circs i) []) ->
  bad_label (nth k (nth j (ge_circs i) []) GOther) = true ->
  api_generate i = Refused.
Proof.
  intros H1 Hj Hk H3. unfold api_generate. do 3 apply andthen_rif_refused. rewrite H1.
  unfold api_mapping_ids.
  assert (E : existsb (existsb bad_label) (ge_circs i) = true).
  { apply (existsb_nth_true _ _ j [] Hj). eapply existsb_nth_true; eauto. }
  now rewrite E.
Qed.
(* a phased observable in the dictionary form: subsystem j, position k *)
Lemma gen_phase_dict i j k :
  ge_cform i = CDict -> j < length (ge_phases i) -> k < length (nth j (ge_phases i) []) ->
  nth k (nth j (ge_phases i) []) 0 <> 0 -> api_generate i = Refused.
Proof.
  intros H1 Hj Hk H3. unfold api_generate. do 3 apply andthen_rif_refused. rewrite H1.
  unfold api_mapping_ids. apply andthen_rif_refused.
  assert (E : existsb any_phase (ge_phases i) = true).
  { apply (existsb_nth_true any_phase _ j [] Hj). unfold any_phase.
    apply (existsb_nth_true _ _ k 0 Hk). apply Bool.negb_true_iff. apply Nat.eqb_neq. exact H3. }
  now rewrite E.
Qed.
Lemma gen_tail_size t : forall k, k < length t ->
  (forall j, j <= k -> fst (nth j t (true, true)) = true) -> snd (nth k t (true, true)) = false ->
  gen_tail t = Refused.
Proof.
  induction t as [|[h z] r IH]; intros k Hk Hkeys Hs; [simpl in Hk; lia|].
  simpl. pose proof (Hkeys 0 (Nat.le_0_l k)) as H0. simpl in H0. subst h. simpl.
  destruct k as [|k]; [simpl in Hs; subst z; reflexivity|].
  destruct z; simpl; [|reflexivity].
  apply (IH k); [simpl in Hk; lia | | exact Hs].
  intros j Hj. apply (Hkeys (S j)). lia.
Qed.
(* observable width differs from the (sub)circuit width, for the k-th observables label; all labels up to k
   are keys of `circuits` (otherwise a KeyError comes first) *)
Lemma gen_obs_size i k :
  ge_cform i <> COther -> k < length (ge_tail i) ->
  (forall j, j <= k -> fst (nth j (ge_tail i) (true, true)) = true) ->
  snd (nth k (ge_tail i) (true, true)) = false -> api_generate i = Refused.
Proof.
  intros Hc Hk Hkeys Hs. unfold api_generate. do 3 apply andthen_rif_refused.
  rewrite (gen_tail_size _ k Hk Hkeys Hs).
  destruct (ge_cform i); [| |congruence]; unfold api_get_bases, api_mapping_ids;
    repeat apply andthen_rif_refused; reflexivity.
Qed.
Lemma gen_valid_circuit i :
  ge_cform i = CCircuit -> ge_oform i = OPauliList -> b_ge (ge_budget i) Q1 = true ->
  existsb is_q1 (hd [] (ge_circs i)) = false -> gen_tail (ge_tail i) = Proceeds -> api_generate i = Proceeds.
Proof. intros H1 H2 H3 H4 H5. unfold api_generate, api_get_bases. rewrite H1, H2, H3, H4, H5. reflexivity. Qed.
Lemma gen_valid_dict i :
  ge_cform i = CDict -> ge_oform i = ODict -> b_ge (ge_budget i) Q1 = true ->
  existsb (existsb bad_label) (ge_circs i) = false -> existsb any_phase (ge_phases i) = false ->
  gen_tail (ge_tail i) = Proceeds -> api_generate i = Proceeds.
Proof. intros H1 H2 H3 H4 H5 H6. unfold api_generate, api_mapping_ids. rewrite H1, H2, H3, H4, H5, H6. reflexivity. Qed.

(* ---------- reconstruct_expectation_values ---------- *)
Lemma any_phase_nth l k : k < length l -> nth k l 0 <> 0 -> any_phase l = true.
Proof.
  intros Hk H. unfold any_phase. apply (existsb_nth_true _ l k 0 Hk). now rewrite (eqb_false_of_neq _ _ H).
Qed.
Lemma rc_form_plist i : rc_oform i = OPauliList -> rc_rform i <> RResult -> api_reconstruct i = Refused.
Proof.
  intros H1 H2. unfold api_reconstruct. rewrite H1. destruct (rc_rform i); [congruence | reflexivity | reflexivity].
Qed.
Lemma rc_form_dict i : rc_oform i = ODict -> rc_rform i <> RDict -> api_reconstruct i = Refused.
Proof.
  intros H1 H2. unfold api_reconstruct. rewrite H1. destruct (rc_rform i); [reflexivity | congruence | reflexivity].
Qed.
Lemma rc_form_other i : rc_oform i = OOther -> api_reconstruct i = Refused.
Proof. intros H1. unfold api_reconstruct. now rewrite H1. Qed.
Lemma rc_keys i : rc_oform i = ODict -> rc_keys_match i = false -> api_reconstruct i = Refused.
Proof.
  intros H1 H2. unfold api_reconstruct. rewrite H1. apply andthen_rif_refused. now rewrite H2.
Qed.
Lemma rc_phase_plist i l r k :
  rc_oform i = OPauliList -> rc_phases i = l :: r -> k < length l -> nth k l 0 <> 0 ->
  api_reconstruct i = Refused.
Proof.
  intros H1 H2 Hk H3. unfold api_reconstruct. rewrite H1, H2. apply andthen_rif_refused. simpl.
  now rewrite (any_phase_nth l k Hk H3).
Qed.
Lemma rc_phase_dict i j k :
  rc_oform i = ODict -> j < length (rc_phases i) -> k < length (nth j (rc_phases i) []) ->
  nth k (nth j (rc_phases i) []) 0 <> 0 -> api_reconstruct i = Refused.
Proof.
  intros H1 Hj Hk H3. unfold api_reconstruct. rewrite H1. do 2 apply andthen_rif_refused.
  rewrite (existsb_nth_true any_phase _ j [] Hj); [reflexivity|]. now apply (any_phase_nth _ k).
Qed.
Lemma rc_counts_mismatch i j :
  j < length (rc_counts i) -> fst (nth j (rc_counts i) (0, 0)) <> rc_ncoef i * snd (nth j (rc_counts i) (0, 0)) ->
  api_reconstruct i = Refused.
Proof.
  intros Hj H. assert (E : rc_count_guard i = Refused).
  { unfold rc_count_guard. apply rif_true. apply (existsb_nth_true _ _ j (0, 0) Hj).
    now rewrite (eqb_false_of_neq _ _ H). }
  unfold api_reconstruct. destruct (rc_oform i); [| |reflexivity]; rewrite E; repeat apply andthen_rif_refused; reflexivity.
Qed.
Lemma rc_valid_plist i :
  rc_oform i = OPauliList -> rc_rform i = RResult -> any_phase (hd [] (rc_phases i)) = false ->
  existsb (fun p => negb (fst p =? rc_ncoef i * snd p)) (rc_counts i) = false -> api_reconstruct i = Proceeds.
Proof. intros H1 H2 H3 H4. unfold api_reconstruct, rc_count_guard. rewrite H1, H2, H3, H4. reflexivity. Qed.
Lemma rc_valid_dict i :
  rc_oform i = ODict -> rc_rform i = RDict -> rc_keys_match i = true -> existsb any_phase (rc_phases i) = false ->
  existsb (fun p => negb (fst p =? rc_ncoef i * snd p)) (rc_counts i) = false -> api_reconstruct i = Proceeds.
Proof. intros H1 H2 H3 H4 H5. unfold api_reconstruct, rc_count_guard. rewrite H1, H2, H3, H4, H5. reflexivity. Qed.

(* ---------- QPDBasis ---------- *)
Lemma set_maps_cases ar : api_set_maps ar = Proceeds \/ api_set_maps ar = Refused.
Proof. destruct ar as [|a0 r]; simpl; [auto|]. apply andthen_cases; apply rif_cases. Qed.
Lemma basis_empty nco : api_qpdbasis [] nco = Refused.
Proof. reflexivity. Qed.
Lemma basis_wide ar nco : 2 < nth 0 ar 0 -> api_qpdbasis ar nco = Refused.
Proof.
  intro H. destruct ar as [|a0 r]; simpl in H; [lia|]. unfold api_qpdbasis. simpl.
  assert (E : (2 <? a0) = true) by (apply Nat.ltb_lt; exact H). now rewrite E.
Qed.
Lemma basis_ragged ar nco k : 0 < k < length ar -> nth k ar 0 <> nth 0 ar 0 -> api_qpdbasis ar nco = Refused.
Proof.
  intros [Hk1 Hk2] H. destruct ar as [|a0 r]; [simpl in Hk2; lia|]. destruct k as [|k]; [lia|].
  simpl in *. unfold api_qpdbasis. simpl.
  assert (E : existsb (fun a => negb (a =? a0)) r = true).
  { apply (existsb_nth_true _ r k 0); [lia|]. now rewrite (eqb_false_of_neq _ _ H). }
  rewrite E. destruct (2 <? a0); reflexivity.
Qed.
Lemma basis_coeffs ar nco : nco <> length ar -> api_qpdbasis ar nco = Refused.
Proof.
  intro H. unfold api_qpdbasis, api_set_coeffs. rewrite (eqb_false_of_neq _ _ H). simpl.
  apply andthen_refused_r. apply set_maps_cases.
Qed.
Lemma set_coeffs_mismatch nmaps nco : nco <> nmaps -> api_set_coeffs nmaps nco = Refused.
Proof. intro H. unfold api_set_coeffs. now rewrite (eqb_false_of_neq _ _ H). Qed.
Lemma basis_valid a0 r :
  a0 <= 2 -> (forall a, In a r -> a = a0) -> api_qpdbasis (a0 :: r) (S (length r)) = Proceeds.
Proof.
  intros H1 H2. unfold api_qpdbasis, api_set_coeffs. simpl.
  assert (E1 : (2 <? a0) = false) by (apply Nat.ltb_ge; exact H1).
  assert (E2 : existsb (fun a => negb (a =? a0)) r = false).
  { destruct (existsb _ r) eqn:E; [|reflexivity]. apply existsb_exists in E as [a [Ha Hn]].
    rewrite (H2 a Ha), Nat.eqb_refl in Hn. discriminate. }
  rewrite E1, E2, Nat.eqb_refl. reflexivity.
Qed.

(* ---------- QPD gates ---------- *)
Lemma in_range_false m n : (m < 0 \/ Z.of_nat n <= m)%Z -> in_range m n = false.
Proof.
  intro H. unfold in_range. destruct H as [H | H].
  - assert (E : (0 <=? m)%Z = false) by (apply Z.leb_gt; exact H). now rewrite E.
  - assert (E : (m <? Z.of_nat n)%Z = false) by (apply Z.ltb_ge; exact H). rewrite E. apply andb_false_r.
Qed.
Lemma in_range_true m n : (0 <= m < Z.of_nat n)%Z -> in_range m n = true.
Proof.
  intros [H1 H2]. unfold in_range. apply andb_true_intro. split; [apply Z.leb_le | apply Z.ltb_lt]; assumption.
Qed.
Lemma bid_range nmaps b : (b < 0 \/ Z.of_nat nmaps <= b)%Z -> api_set_basis_id nmaps (Some b) = Refused.
Proof. intro H. unfold api_set_basis_id. now rewrite (in_range_false _ _ H). Qed.
Lemma bid_valid nmaps b : (0 <= b < Z.of_nat nmaps)%Z -> api_set_basis_id nmaps (Some b) = Proceeds.
Proof. intro H. unfold api_set_basis_id. now rewrite (in_range_true _ _ H). Qed.
Lemma q1_half nq nmaps qid bid : (Z.of_nat nq <= qid)%Z -> api_q1gate nq nmaps qid bid = Refused.
Proof.
  intro H. unfold api_q1gate, api_set_basis_id. apply andthen_rif_refused. unfold api_set_qubit_id.
  assert (E : (Z.of_nat nq <=? qid)%Z = true) by (apply Z.leb_le; exact H). now rewrite E.
Qed.
Lemma q1_bid nq nmaps qid b : (b < 0 \/ Z.of_nat nmaps <= b)%Z -> api_q1gate nq nmaps qid (Some b) = Refused.
Proof. intro H. unfold api_q1gate. now rewrite (bid_range _ _ H). Qed.
Lemma q1_valid nq nmaps qid bid :
  (qid < Z.of_nat nq)%Z -> match bid with Some b => (0 <= b < Z.of_nat nmaps)%Z | None => True end ->
  api_q1gate nq nmaps qid bid = Proceeds.
Proof.
  intros H1 H2. unfold api_q1gate, api_set_qubit_id.
  assert (E : (Z.of_nat nq <=? qid)%Z = false) by (apply Z.leb_gt; exact H1). rewrite E.
  destruct bid as [b|]; [now rewrite (bid_valid _ _ H2) | reflexivity].
Qed.
Lemma q2_arity nq nmaps bid : nq <> 2 -> api_q2gate nq nmaps bid = Refused.
Proof. intro H. unfold api_q2gate. now rewrite (eqb_false_of_neq _ _ H). Qed.
Lemma q2_bid nq nmaps b : (b < 0 \/ Z.of_nat nmaps <= b)%Z -> api_q2gate nq nmaps (Some b) = Refused.
Proof. intro H. unfold api_q2gate. apply andthen_rif_refused. now apply bid_range. Qed.
Lemma q2_valid nmaps bid :
  match bid with Some b => (0 <= b < Z.of_nat nmaps)%Z | None => True end -> api_q2gate 2 nmaps bid = Proceeds.
Proof. intro H. unfold api_q2gate. simpl. destruct bid as [b|]; [now apply bid_valid | reflexivity]. Qed.

(* ---------- decompose_qpd_instructions ---------- *)
Definition ids_in_range (c : list dq_inst) (ids : list (list nat)) : Prop :=
  forall g k, In g ids -> In k g -> k < length c.

Lemma nth_error_in_range {A} (c : list A) k : k < length c -> exists x, nth_error c k = Some x.
Proof.
  intro H. destruct (nth_error c k) eqn:E; [eauto|]. apply nth_error_None in E. lia.
Qed.

Section DqValidateP.
Variable two : list nat.
Local Notation dq_group := (Validation.dq_group two).
Local Notation dq_groups := (Validation.dq_groups two).
Local Notation api_validate_qpd := (Validation.api_validate_qpd two).
Section MembersP.
Variable pair : bool.
Local Notation dq_members := (Validation.dq_members two pair).
Lemma dq_members_cases c b0 g : (forall k, In k g -> k < length c) ->
  dq_members c b0 g = Proceeds \/ dq_members c b0 g = Refused.
Proof.
  induction g as [|k r IH]; intro H; simpl; [auto|].
  destruct (nth_error_in_range c k (H k (or_introl eq_refl))) as [x E]. rewrite E.
  destruct x as [b n bid|]; [|auto]. destruct (negb (b =? b0)); [auto|].
  destruct (pair && dq_is_two two k); [auto|]. apply IH; intros; apply H; now right.
Qed.
Lemma dq_members_other c b0 g k :
  (forall k', In k' g -> k' < length c) -> In k g -> nth_error c k = Some DOther -> dq_members c b0 g = Refused.
Proof.
  induction g as [|k1 r IH]; intros H Hin E; [destruct Hin|]. simpl.
  destruct Hin as [-> | Hin]; [now rewrite E|].
  destruct (nth_error_in_range c k1 (H k1 (or_introl eq_refl))) as [x E1]. rewrite E1.
  destruct x as [b n bid|]; [|reflexivity]. destruct (negb (b =? b0)); [reflexivity|].
  destruct (pair && dq_is_two two k1); [reflexivity|].
  apply IH; auto. intros; apply H; now right.
Qed.
Lemma dq_members_mismatch c b0 g k b n bid :
  (forall k', In k' g -> k' < length c) -> In k g -> nth_error c k = Some (DQ b n bid) -> b <> b0 ->
  dq_members c b0 g = Refused.
Proof.
  induction g as [|k1 r IH]; intros H Hin E Hb; [destruct Hin|]. simpl.
  destruct Hin as [-> | Hin]; [now rewrite E, (eqb_false_of_neq _ _ Hb)|].
  destruct (nth_error_in_range c k1 (H k1 (or_introl eq_refl))) as [x E1]. rewrite E1.
  destruct x as [b' n' bid'|]; [|reflexivity]. destruct (negb (b' =? b0)); [reflexivity|].
  destruct (pair && dq_is_two two k1); [reflexivity|].
  eapply IH; eauto. intros; apply H; now right.
Qed.
(* 50945eb: a TwoQubitQPDGate at any position of a two-element decomposition *)
Lemma dq_members_two c b0 g k :
  pair = true -> (forall k', In k' g -> k' < length c) -> In k g -> dq_is_two two k = true ->
  dq_members c b0 g = Refused.
Proof.
  intro Hp. induction g as [|k1 r IH]; intros H Hin E; [destruct Hin|]. simpl.
  destruct (nth_error_in_range c k1 (H k1 (or_introl eq_refl))) as [x E1]. rewrite E1.
  destruct x as [b' n' bid'|]; [|reflexivity]. destruct (negb (b' =? b0)); [reflexivity|].
  destruct Hin as [-> | Hin]; [now rewrite Hp, E|].
  destruct (pair && dq_is_two two k1); [reflexivity|].
  apply IH; auto. intros; apply H; now right.
Qed.
Lemma dq_members_other_total c b0 g k :
  In k g -> nth_error c k = Some DOther -> dq_members c b0 g <> Proceeds.
Proof.
  induction g as [|k1 r IH]; intros Hin E; [destruct Hin|]. simpl.
  destruct Hin as [-> | Hin]; [rewrite E; congruence|].
  destruct (nth_error c k1) as [[b n bid|]|]; try congruence.
  destruct (negb (b =? b0)); [congruence|]. destruct (pair && dq_is_two two k1); [congruence | now apply IH].
Qed.
End MembersP.

Lemma dq_group_cases c g : (forall k, In k g -> k < length c) ->
  dq_group c g = Proceeds \/ dq_group c g = Refused.
Proof.
  intro H. unfold Validation.dq_group. destruct (negb _); [auto|]. destruct g as [|k0 r]; [auto|].
  destruct (nth_error_in_range c k0 (H k0 (or_introl eq_refl))) as [x E]. rewrite E.
  destruct x; [now apply dq_members_cases | auto].
Qed.
Lemma dq_groups_cases c ids : ids_in_range c ids -> dq_groups c ids = Proceeds \/ dq_groups c ids = Refused.
Proof.
  induction ids as [|g r IH]; intro H; simpl; [auto|].
  apply andthen_cases.
  - apply dq_group_cases. intros k Hk. apply (H g k); [now left | exact Hk].
  - apply IH. intros g' k Hg Hk. apply (H g' k); [now right | exact Hk].
Qed.
Lemma dq_groups_refused c ids g :
  ids_in_range c ids -> In g ids -> dq_group c g = Refused -> dq_groups c ids = Refused.
Proof.
  induction ids as [|g0 r IH]; intros H Hin Hg; [destruct Hin|]. simpl.
  assert (Hr : ids_in_range c r) by (intros g' k Hg' Hk; apply (H g' k); [now right | exact Hk]).
  destruct Hin as [-> | Hin]; [now rewrite Hg|].
  rewrite (IH Hr Hin Hg). apply andthen_refused_r. apply dq_group_cases.
  intros k Hk. apply (H g0 k); [now left | exact Hk].
Qed.
Lemma validate_refused_of_group c ids g :
  ids_in_range c ids -> In g ids -> dq_group c g = Refused -> api_validate_qpd c ids = Refused.
Proof. intros H1 H2 H3. unfold Validation.api_validate_qpd. now rewrite (dq_groups_refused c ids g H1 H2 H3). Qed.
Lemma dq_group_size c g : length g <> 1 -> length g <> 2 -> dq_group c g = Refused.
Proof.
  intros H1 H2. unfold Validation.dq_group. now rewrite (eqb_false_of_neq _ _ H1), (eqb_false_of_neq _ _ H2).
Qed.
Lemma dq_group_non_qpd c g k :
  (forall k', In k' g -> k' < length c) -> In k g -> nth_error c k = Some DOther -> dq_group c g = Refused.
Proof.
  intros H Hin E. unfold Validation.dq_group. destruct (negb _); [reflexivity|].
  destruct g as [|k0 r]; [reflexivity|].
  destruct (nth_error_in_range c k0 (H k0 (or_introl eq_refl))) as [x E0]. rewrite E0.
  destruct x; [|reflexivity]. eapply dq_members_other; eauto.
Qed.
Lemma dq_group_mismatch c k0 r k b0 n0 bid0 b n bid :
  (forall k', In k' (k0 :: r) -> k' < length c) -> In k (k0 :: r) ->
  nth_error c k0 = Some (DQ b0 n0 bid0) -> nth_error c k = Some (DQ b n bid) -> b <> b0 ->
  dq_group c (k0 :: r) = Refused.
Proof.
  intros H Hin E0 E Hb. unfold Validation.dq_group. destruct (negb _); [reflexivity|]. rewrite E0.
  eapply dq_members_mismatch; eauto.
Qed.
Lemma dq_group_two c g k :
  (forall k', In k' g -> k' < length c) -> length g = 2 -> In k g -> dq_is_two two k = true ->
  dq_group c g = Refused.
Proof.
  intros H HL Hin E. unfold Validation.dq_group. rewrite HL. simpl.
  destruct g as [|k0 r]; [reflexivity|].
  destruct (nth_error_in_range c k0 (H k0 (or_introl eq_refl))) as [x E0]. rewrite E0.
  destruct x; [|reflexivity]. eapply dq_members_two; eauto.
Qed.
Lemma dq_repeated_refused c ids :
  ids_in_range c ids -> dq_repeated ids = true -> api_validate_qpd c ids = Refused.
Proof.
  intros H1 H2. unfold Validation.api_validate_qpd. rewrite H2. simpl.
  apply andthen_refused_r. now apply dq_groups_cases.
Qed.
Lemma dq_total c ids : ids_in_range c ids -> dq_total_mismatch c ids = true -> api_validate_qpd c ids = Refused.
Proof.
  intros H1 H2. unfold Validation.api_validate_qpd. rewrite H2.
  rewrite (andthen_rif_refused (dq_repeated ids) (refuse_if true) eq_refl).
  apply andthen_refused_r. now apply dq_groups_cases.
Qed.
(* totality: without the in-range hypothesis the call still never proceeds (ValueError or IndexError) *)
Lemma dq_groups_not_ok c ids g : In g ids -> dq_group c g <> Proceeds -> dq_groups c ids <> Proceeds.
Proof.
  induction ids as [|g0 r IH]; intros Hin Hg; [destruct Hin|]. simpl.
  destruct Hin as [-> | Hin].
  - destruct (dq_group c g) as [[]| |]; simpl; congruence.
  - destruct (dq_group c g0) as [[]| |]; simpl; [now apply IH | congruence | congruence].
Qed.
Lemma dq_group_non_qpd_total c g k : In k g -> nth_error c k = Some DOther -> dq_group c g <> Proceeds.
Proof.
  intros Hin E. unfold Validation.dq_group. destruct (negb _); [congruence|].
  destruct g as [|k0 r]; [congruence|].
  destruct (nth_error c k0) as [[b n bid|]|]; try congruence. eapply dq_members_other_total; eauto.
Qed.
End DqValidateP.

Lemma has_dup_nth l : forall a b, a < b -> b < length l -> nth a l 0 = nth b l 0 -> has_dup l = true.
Proof.
  induction l as [|x r IH]; intros a b Hab Hb E; [simpl in Hb; lia|]. simpl.
  destruct a as [|a].
  - destruct b as [|b]; [lia|]. simpl in E, Hb.
    assert (X : existsb (Nat.eqb x) r = true).
    { apply existsb_exists. exists (nth b r 0). split; [apply nth_In; lia | apply Nat.eqb_eq; exact E]. }
    now rewrite X.
  - destruct b as [|b]; [lia|]. simpl in E, Hb. rewrite (IH a b); [apply orb_true_r | lia | lia | exact E].
Qed.
Lemma decompose_of_validate_refused i : dq_validate i = Refused -> api_decompose i = Refused.
Proof. intro H. unfold api_decompose, dq_run. now rewrite H. Qed.
Lemma decompose_not_ok_of_group i g :
  In g (dq_ids i) -> Validation.dq_group (dq_two i) (dq_circ i) g <> Proceeds -> api_decompose i <> Proceeds.
Proof.
  intros H1 H2. pose proof (dq_groups_not_ok _ _ _ _ H1 H2) as H.
  unfold api_decompose, dq_run, dq_validate, api_validate_qpd.
  destruct (dq_groups (dq_two i) (dq_circ i) (dq_ids i)) as [[]| |]; simpl; congruence.
Qed.
Lemma validate_cases i : ids_in_range (dq_circ i) (dq_ids i) -> dq_validate i = Proceeds \/ dq_validate i = Refused.
Proof.
  intro H. unfold dq_validate, api_validate_qpd. apply andthen_cases; [now apply dq_groups_cases|].
  apply andthen_cases; apply rif_cases.
Qed.
Lemma dq_map_count i ms :
  dq_validate i = Proceeds -> dq_maps i = Some ms ->
  length (dq_ids i) <> length ms -> api_decompose i = Refused.
Proof.
  intros H1 H2 H3. unfold api_decompose, dq_run. rewrite H1, H2, (eqb_false_of_neq _ _ H3). reflexivity.
Qed.
Lemma dq_check_false c ids ms j k b n bid :
  length ids = length ms -> j < length ids -> In k (nth j ids []) ->
  nth_error c k = Some (DQ b n bid) -> map_ok (nth j ms None) n = false ->
  dq_check c (combine ids ms) = false.
Proof.
  intros Hl Hj Hk E Hr. unfold dq_check.
  destruct (forallb _ (combine ids ms)) eqn:F; [|reflexivity]. exfalso.
  rewrite forallb_forall in F.
  assert (Hin : In (nth j ids [], nth j ms None) (combine ids ms)).
  { rewrite <- (combine_nth ids ms j [] None Hl). apply nth_In. rewrite combine_length. lia. }
  specialize (F _ Hin). simpl in F. rewrite forallb_forall in F. specialize (F k Hk).
  unfold dq_gate_ok in F. rewrite E, Hr in F. discriminate.
Qed.
Lemma dq_map_bad i ms j k b n bid :
  dq_validate i = Proceeds -> dq_maps i = Some ms ->
  j < length (dq_ids i) -> In k (nth j (dq_ids i) []) -> nth_error (dq_circ i) k = Some (DQ b n bid) ->
  map_ok (nth j ms None) n = false ->
  api_decompose i = Refused.
Proof.
  intros H1 H2 Hj Hk E Hr. unfold api_decompose, dq_run. rewrite H1, H2.
  destruct (length (dq_ids i) =? length ms) eqn:L; simpl; [|reflexivity].
  apply Nat.eqb_eq in L.
  rewrite (dq_check_false _ _ _ j k b n bid L Hj Hk E Hr). reflexivity.
Qed.
Lemma dq_map_range i ms j k b n bid z :
  dq_validate i = Proceeds -> dq_maps i = Some ms ->
  j < length (dq_ids i) -> In k (nth j (dq_ids i) []) -> nth_error (dq_circ i) k = Some (DQ b n bid) ->
  nth j ms None = Some z -> (z < 0 \/ Z.of_nat n <= z)%Z ->
  api_decompose i = Refused.
Proof.
  intros H1 H2 Hj Hk E Hz Hr. eapply dq_map_bad; eauto. rewrite Hz. simpl. now apply in_range_false.
Qed.
Lemma dq_map_none i ms j k b n bid :
  dq_validate i = Proceeds -> dq_maps i = Some ms ->
  j < length (dq_ids i) -> In k (nth j (dq_ids i) []) -> nth_error (dq_circ i) k = Some (DQ b n bid) ->
  nth j ms None = None -> api_decompose i = Refused.
Proof. intros H1 H2 Hj Hk E Hz. eapply dq_map_bad; eauto. now rewrite Hz. Qed.
(* unset basis_id with map_ids omitted: refused, and nothing was touched *)
Lemma dq_unset_no_maps i k b n :
  dq_validate i = Proceeds -> dq_maps i = None ->
  nth_error (dq_circ i) k = Some (DQ b n None) ->
  api_decompose i = Refused /\ dq_final i = dq_circ i.
Proof.
  intros H1 H2 E. unfold api_decompose, dq_final, dq_run, dq_stage3. rewrite H1, H2. simpl. split; [|reflexivity].
  apply rif_true. apply existsb_exists. exists (DQ b n None). split; [eapply nth_error_In; eauto | reflexivity].
Qed.
Lemma dq_frame_no_maps i : dq_maps i = None -> dq_final i = dq_circ i.
Proof.
  intro H. unfold dq_final, dq_run, dq_stage3. rewrite H.
  destruct (dq_validate i) as [[]| |]; reflexivity.
Qed.
(* the same with the weaker premise "all indices in range" (then the validation either passes or refuses) *)
Lemma dq_map_count_r i ms :
  ids_in_range (dq_circ i) (dq_ids i) -> dq_maps i = Some ms -> length (dq_ids i) <> length ms -> api_decompose i = Refused.
Proof.
  intros H1 H2 H3. destruct (validate_cases i H1) as [V | V];
    [now apply (dq_map_count i ms) | now apply decompose_of_validate_refused].
Qed.
Lemma dq_map_range_r i ms j k b n bid z :
  ids_in_range (dq_circ i) (dq_ids i) -> dq_maps i = Some ms ->
  j < length (dq_ids i) -> In k (nth j (dq_ids i) []) -> nth_error (dq_circ i) k = Some (DQ b n bid) ->
  nth j ms None = Some z -> (z < 0 \/ Z.of_nat n <= z)%Z -> api_decompose i = Refused.
Proof.
  intros H1 H2 Hj Hk E Hz Hr. destruct (validate_cases i H1) as [V | V];
    [eapply dq_map_range; eauto | now apply decompose_of_validate_refused].
Qed.
Lemma dq_map_none_r i ms j k b n bid :
  ids_in_range (dq_circ i) (dq_ids i) -> dq_maps i = Some ms ->
  j < length (dq_ids i) -> In k (nth j (dq_ids i) []) -> nth_error (dq_circ i) k = Some (DQ b n bid) ->
  nth j ms None = None -> api_decompose i = Refused.
Proof.
  intros H1 H2 Hj Hk E Hz. destruct (validate_cases i H1) as [V | V];
    [eapply dq_map_none; eauto | now apply decompose_of_validate_refused].
Qed.
Lemma dq_unset_no_maps_r i k b n :
  ids_in_range (dq_circ i) (dq_ids i) -> dq_maps i = None -> nth_error (dq_circ i) k = Some (DQ b n None) ->
  api_decompose i = Refused /\ dq_final i = dq_circ i.
Proof.
  intros H1 H2 E. split;
    [|unfold dq_final, dq_run, dq_stage3; rewrite H2; destruct (dq_validate i) as [[]| |]; reflexivity].
  destruct (validate_cases i H1) as [V | V]; [now apply (dq_unset_no_maps i k b n) | now apply decompose_of_validate_refused].
Qed.
(* everything up to and including the map-id pre-validation leaves the argument untouched *)
Lemma dq_frame_partial i :
  api_decompose i <> Proceeds ->
  (dq_maps i = None \/
   forall ms, dq_maps i = Some ms -> existsb dq_unset (dq_assign (dq_circ i) (combine (dq_ids i) ms)) = false) ->
  dq_final i = dq_circ i.
Proof.
  intros Hn [H | H]; [now apply dq_frame_no_maps|].
  revert Hn. unfold api_decompose, dq_final, dq_run, dq_stage3.
  destruct (dq_validate i) as [[]| |]; simpl; auto.
  destruct (dq_maps i) as [ms|] eqn:M; simpl; auto.
  destruct (negb _); simpl; auto. destruct (dq_check _ _); simpl; auto.
  rewrite (H ms eq_refl). simpl. congruence.
Qed.
Lemma dq_valid_no_maps i :
  dq_validate i = Proceeds -> dq_maps i = None -> existsb dq_unset (dq_circ i) = false ->
  api_decompose i = Proceeds /\ dq_final i = dq_circ i.
Proof. intros H1 H2 H3. unfold api_decompose, dq_final, dq_run, dq_stage3. rewrite H1, H2, H3. auto. Qed.
Lemma dq_valid_maps i ms :
  dq_validate i = Proceeds -> dq_maps i = Some ms ->
  length (dq_ids i) = length ms -> dq_check (dq_circ i) (combine (dq_ids i) ms) = true ->
  existsb dq_unset (dq_assign (dq_circ i) (combine (dq_ids i) ms)) = false ->
  api_decompose i = Proceeds /\ dq_final i = dq_assign (dq_circ i) (combine (dq_ids i) ms).
Proof.
  intros H1 H2 H3 H4 H5. unfold api_decompose, dq_final, dq_run, dq_stage3.
  rewrite H1, H2, H3, Nat.eqb_refl, H4, H5. auto.
Qed.
(* ----- coverage: when every QPD gate occurs in instruction_ids and the pre-check passed, the assignment loop
   leaves no gate unset, so the unset-basis_id check cannot fire after the argument was modified ----- *)
Definition dq_shape (x : dq_inst) : option (nat * nat) := match x with DQ b n _ => Some (b, n) | DOther => None end.
Lemma nth_DQ_nth_error c j b n bid : nth j c DOther = DQ b n bid -> nth_error c j = Some (DQ b n bid).
Proof.
  intro H. destruct (Nat.lt_ge_cases j (length c)) as [L | L].
  - rewrite (nth_error_nth' c DOther L). now rewrite H.
  - rewrite (nth_overflow c DOther L) in H. discriminate.
Qed.
Lemma dq_set_other c k m j : j <> k -> nth j (dq_set c k m) DOther = nth j c DOther.
Proof.
  intro H. unfold dq_set. destruct (nth_error c k) as [[b n bid|]|]; try reflexivity.
  apply nth_upd_other. congruence.
Qed.
Lemma dq_set_same c k m b n bid :
  nth k c DOther = DQ b n bid -> nth k (dq_set c k m) DOther = DQ b n (bid_of_map m).
Proof.
  intro H. pose proof (nth_DQ_nth_error _ _ _ _ _ H) as E. unfold dq_set. rewrite E.
  apply nth_upd_same. apply nth_error_Some. congruence.
Qed.
Lemma dq_set_shape c k m j : dq_shape (nth j (dq_set c k m) DOther) = dq_shape (nth j c DOther).
Proof.
  destruct (Nat.eq_dec j k) as [-> | N]; [|now rewrite dq_set_other].
  destruct (nth k c DOther) as [b n bid|] eqn:E.
  - now rewrite (dq_set_same _ _ m _ _ _ E).
  - unfold dq_set. destruct (nth_error c k) as [[b n bid|]|] eqn:E2; try now rewrite E.
    apply nth_error_nth with (d := DOther) in E2. congruence.
Qed.
Lemma assign_group_shape g : forall c m j,
  dq_shape (nth j (dq_assign_group c g m) DOther) = dq_shape (nth j c DOther).
Proof.
  induction g as [|k r IH]; intros c m j; [reflexivity|].
  unfold dq_assign_group in *. simpl. rewrite IH. apply dq_set_shape.
Qed.
Lemma assign_group_notin g : forall c m j, ~ In j g -> nth j (dq_assign_group c g m) DOther = nth j c DOther.
Proof.
  induction g as [|k r IH]; intros c m j H; [reflexivity|].
  unfold dq_assign_group in *. simpl. rewrite IH; [|intro; apply H; now right].
  apply dq_set_other. intro; subst; apply H; now left.
Qed.
Lemma assign_group_in g : forall c m j b n bid,
  nth j c DOther = DQ b n bid -> In j g -> nth j (dq_assign_group c g m) DOther = DQ b n (bid_of_map m).
Proof.
  induction g as [|k r IH]; intros c m j b n bid E Hin; [destruct Hin|].
  change (dq_assign_group c (k :: r) m) with (dq_assign_group (dq_set c k m) r m).
  destruct (Nat.eq_dec j k) as [-> | N].
  - pose proof (dq_set_same c k m b n bid E) as E1.
    destruct (in_dec Nat.eq_dec k r) as [I | I]; [exact (IH _ m k b n _ E1 I)|].
    rewrite (assign_group_notin r _ m k I). exact E1.
  - destruct Hin as [-> | Hin]; [congruence|].
    apply (IH _ m j b n bid); [rewrite (dq_set_other c k m j N); exact E | exact Hin].
Qed.
Lemma assign_shape gm : forall c j, dq_shape (nth j (dq_assign c gm) DOther) = dq_shape (nth j c DOther).
Proof.
  induction gm as [|p r IH]; intros c j; [reflexivity|]. simpl. rewrite IH. apply assign_group_shape.
Qed.
Lemma assign_notin gm : forall c j, (forall p, In p gm -> ~ In j (fst p)) -> nth j (dq_assign c gm) DOther = nth j c DOther.
Proof.
  induction gm as [|p r IH]; intros c j H; [reflexivity|]. simpl.
  rewrite IH; [|intros; apply H; now right]. apply assign_group_notin. apply H. now left.
Qed.
Lemma assign_in gm : forall c j b n bid,
  nth j c DOther = DQ b n bid -> (exists p, In p gm /\ In j (fst p)) ->
  exists p, In p gm /\ In j (fst p) /\ nth j (dq_assign c gm) DOther = DQ b n (bid_of_map (snd p)).
Proof.
  induction gm as [|p0 r IH]; intros c j b n bid E [p [Hp Hj]]; [destruct Hp|]. simpl.
  destruct (existsb (fun q => existsb (Nat.eqb j) (fst q)) r) eqn:X.
  - apply existsb_exists in X as [q [Hq Hq2]]. apply existsb_exists in Hq2 as [j' [Hj' Ej]].
    apply Nat.eqb_eq in Ej. subst j'.
    pose proof (assign_group_shape (fst p0) c (snd p0) j) as S. rewrite E in S. simpl in S.
    destruct (nth j (dq_assign_group c (fst p0) (snd p0)) DOther) as [b' n' bid'|] eqn:E1; [|discriminate].
    inversion S; subst b' n'.
    destruct (IH _ j b n bid' E1 (ex_intro _ q (conj Hq Hj'))) as [p' [H1 [H2 H3]]].
    exists p'. split; [now right | split; assumption].
  - assert (Hn : forall q, In q r -> ~ In j (fst q)).
    { intros q Hq Hin. assert (T : existsb (fun q => existsb (Nat.eqb j) (fst q)) r = true).
      { apply existsb_exists. exists q. split; [exact Hq|]. apply existsb_exists. exists j. split; [exact Hin | apply Nat.eqb_refl]. }
      congruence. }
    destruct Hp as [<- | Hp]; [|exfalso; exact (Hn p Hp Hj)].
    exists p0. split; [now left | split; [exact Hj|]].
    rewrite (assign_notin r _ j Hn). eapply assign_group_in; eauto.
Qed.
Definition dq_covers (c : list dq_inst) (ids : list (list nat)) : Prop :=
  forall k b n bid, nth_error c k = Some (DQ b n bid) -> exists g, In g ids /\ In k g.
Lemma in_combine_of_in {A B} (l : list A) (l' : list B) x : length l = length l' -> In x l -> exists y, In (x, y) (combine l l').
Proof.
  revert l'. induction l as [|a r IH]; intros l' HL Hin; [destruct Hin|].
  destruct l' as [|b r']; [simpl in HL; lia|]. simpl in HL. simpl.
  destruct Hin as [-> | Hin]; [exists b; now left|].
  destruct (IH r' (eq_add_S _ _ HL) Hin) as [y Hy]. exists y. now right.
Qed.
Lemma assign_leaves_none_unset c ids ms :
  dq_covers c ids -> length ids = length ms -> dq_check c (combine ids ms) = true ->
  existsb dq_unset (dq_assign c (combine ids ms)) = false.
Proof.
  intros Hcov HL Hchk. destruct (existsb _ _) eqn:X; [|reflexivity]. exfalso.
  apply existsb_exists in X as [x [Hx Hu]]. destruct (In_nth _ _ DOther Hx) as [j [Hjl Hj]].
  destruct x as [b n [bid|]|]; try discriminate.
  pose proof (assign_shape (combine ids ms) c j) as S. rewrite Hj in S. simpl in S.
  destruct (nth j c DOther) as [b0 n0 bid0|] eqn:E; [|discriminate]. inversion S; subst b0 n0.
  pose proof (nth_DQ_nth_error _ _ _ _ _ E) as E'.
  destruct (Hcov j b n bid0 E') as [g [Hg Hjg]].
  destruct (in_combine_of_in ids ms g HL Hg) as [m Hm].
  destruct (assign_in (combine ids ms) c j b n bid0 E (ex_intro _ (g, m) (conj Hm Hjg))) as [p [Hp [Hjp Hfin]]].
  unfold dq_check in Hchk. rewrite forallb_forall in Hchk. specialize (Hchk p Hp).
  rewrite forallb_forall in Hchk. specialize (Hchk j Hjp). unfold dq_gate_ok in Hchk. rewrite E' in Hchk.
  destruct (snd p) as [z|]; [|discriminate]. rewrite Hj in Hfin. discriminate.
Qed.
(* F7 frame, full statement *)
Lemma dq_frame i : api_decompose i <> Proceeds -> dq_covers (dq_circ i) (dq_ids i) -> dq_final i = dq_circ i.
Proof.
  intros Hn Hcov. revert Hn. unfold api_decompose, dq_final, dq_run, dq_stage3.
  destruct (dq_validate i) as [[]| |]; simpl; auto.
  destruct (dq_maps i) as [ms|]; simpl; auto.
  destruct (length (dq_ids i) =? length ms) eqn:L; simpl; auto.
  destruct (dq_check _ _) eqn:C; simpl; auto.
  apply Nat.eqb_eq in L. rewrite (assign_leaves_none_unset _ _ _ Hcov L C). simpl. congruence.
Qed.

(* ----- since 50945eb: a circuit/instruction_ids pair that passes _validate_qpd_instructions covers every QPD gate
   (no index repeated, every index a QPD gate, as many indices as QPD gates), hence the frame holds unconditionally ----- *)
Lemma dq_members_ok_DQ two pair c b0 g :
  dq_members two pair c b0 g = Proceeds -> forall k, In k g -> exists b n bid, nth_error c k = Some (DQ b n bid).
Proof.
  induction g as [|k1 r IH]; intros H k Hin; [destruct Hin|]. simpl in H.
  destruct (nth_error c k1) as [[b n bid|]|] eqn:E; try discriminate.
  destruct (negb (b =? b0)); [discriminate|]. destruct (pair && dq_is_two two k1); [discriminate|].
  destruct Hin as [<- | Hin]; [eauto | now apply IH].
Qed.
Lemma dq_group_ok_DQ two c g :
  dq_group two c g = Proceeds -> forall k, In k g -> exists b n bid, nth_error c k = Some (DQ b n bid).
Proof.
  unfold dq_group. destruct (negb _); [discriminate|]. destruct g as [|k0 r]; [discriminate|].
  destruct (nth_error c k0) as [[b0 n0 bid0|]|]; try discriminate. apply dq_members_ok_DQ.
Qed.
Lemma dq_groups_ok_DQ two c ids :
  dq_groups two c ids = Proceeds -> forall g k, In g ids -> In k g -> exists b n bid, nth_error c k = Some (DQ b n bid).
Proof.
  induction ids as [|g0 r IH]; intros H g k Hg Hk; [destruct Hg|]. simpl in H.
  destruct (dq_group two c g0) as [[]| |] eqn:E; try discriminate. simpl in H.
  destruct Hg as [<- | Hg]; [eapply dq_group_ok_DQ; eauto | eapply IH; eauto].
Qed.
Lemma has_dup_false_NoDup l : has_dup l = false -> NoDup l.
Proof.
  induction l as [|x r IH]; intro H; [constructor|]. simpl in H. apply orb_false_elim in H as [H1 H2].
  constructor; [|now apply IH]. intro Hin.
  assert (T : existsb (Nat.eqb x) r = true) by (apply existsb_exists; exists x; split; [exact Hin | apply Nat.eqb_refl]).
  congruence.
Qed.
Definition qpos (c : list dq_inst) : list nat := filter (fun k => dq_is_qpd (nth k c DOther)) (seq 0 (length c)).
Lemma filter_map_S_length (g : nat -> bool) L : length (filter g (map S L)) = length (filter (fun k => g (S k)) L).
Proof. induction L as [|a r IH]; [reflexivity|]. simpl. destruct (g (S a)); simpl; now rewrite IH. Qed.
Lemma qpos_length c : length (qpos c) = length (filter dq_is_qpd c).
Proof.
  unfold qpos. induction c as [|x r IH]; [reflexivity|].
  change (length (x :: r)) with (S (length r)). rewrite <- cons_seq, <- seq_shift.
  cbn [filter nth].
  destruct (dq_is_qpd x); cbn [length]; rewrite filter_map_S_length; cbn beta iota; rewrite IH; reflexivity.
Qed.
Lemma qpos_in c k b n bid : nth_error c k = Some (DQ b n bid) -> In k (qpos c).
Proof.
  intro E. unfold qpos. apply filter_In. split.
  - apply in_seq. split; [lia|]. simpl. apply nth_error_Some. congruence.
  - now rewrite (nth_error_nth c k DOther E).
Qed.
Lemma list_sum_length_concat (ids : list (list nat)) : list_sum (map (@length nat) ids) = length (concat ids).
Proof. induction ids as [|g r IH]; [reflexivity|]. simpl. rewrite app_length. now rewrite IH. Qed.
Lemma validate_covers i : dq_validate i = Proceeds -> dq_covers (dq_circ i) (dq_ids i).
Proof.
  unfold dq_validate, api_validate_qpd. intro H.
  destruct (dq_groups (dq_two i) (dq_circ i) (dq_ids i)) as [[]| |] eqn:G; try discriminate. simpl in H.
  destruct (dq_repeated (dq_ids i)) eqn:R; [discriminate|]. simpl in H.
  destruct (dq_total_mismatch (dq_circ i) (dq_ids i)) eqn:T; [discriminate|].
  unfold dq_total_mismatch in T. apply Bool.negb_false_iff in T. apply Nat.eqb_eq in T.
  rewrite list_sum_length_concat, <- qpos_length in T.
  assert (ND : NoDup (concat (dq_ids i))) by (apply has_dup_false_NoDup; exact R).
  assert (I1 : incl (concat (dq_ids i)) (qpos (dq_circ i))).
  { intros k Hk. apply in_concat in Hk as [g [Hg Hk]].
    destruct (dq_groups_ok_DQ _ _ _ G g k Hg Hk) as [b [n [bid E]]]. eapply qpos_in; eauto. }
  assert (I2 : incl (qpos (dq_circ i)) (concat (dq_ids i))).
  { apply NoDup_length_incl; [exact ND | lia | exact I1]. }
  intros k b n bid E. specialize (I2 k (qpos_in _ _ _ _ _ E)). apply in_concat in I2 as [g [Hg Hk]]. eauto.
Qed.
(* F7 frame, unconditional *)
Lemma dq_frame_total i : api_decompose i <> Proceeds -> dq_final i = dq_circ i.
Proof.
  intro Hn. destruct (dq_validate i) as [[]| |] eqn:V.
  - apply dq_frame; [exact Hn | now apply validate_covers].
  - unfold dq_final, dq_run. now rewrite V.
  - unfold dq_final, dq_run. now rewrite V.
Qed.

(* ---------- separate_circuit ---------- *)
Lemma distinct_nonempty l : l <> [] -> distinct l <> [].
Proof.
  induction l as [|x r IH]; intro H; [congruence|]. simpl.
  destruct (existsb (label_beq x) r) eqn:E; [|discriminate].
  apply IH. intro Hr; subst r; discriminate.
Qed.
Lemma spanned_pos (labels : list label) qs : qs <> [] -> spanned labels qs <> 0.
Proof.
  intros H. unfold spanned. intro E. apply length_zero_iff_nil in E.
  apply (distinct_nonempty (map (fun q => nth q labels None) qs)); [|exact E].
  destruct qs; [congruence | discriminate].
Qed.
Lemma sep_instructions_cases (labels : list label) insts : (forall qs, In qs insts -> qs <> []) ->
  api_sep_instructions labels insts = Proceeds \/ api_sep_instructions labels insts = Refused.
Proof.
  induction insts as [|qs r IH]; intro H; simpl; [auto|].
  destruct (existsb _ qs); [auto|].
  pose proof (spanned_pos labels qs (H qs (or_introl eq_refl))) as Hp.
  destruct (spanned labels qs) as [|[|n]]; [congruence | apply IH; intros; apply H; now right | auto].
Qed.
Lemma sep_instructions_none (labels : list label) insts qs q :
  (forall qs', In qs' insts -> qs' <> []) -> In qs insts -> In q qs -> nth q labels None = None ->
  api_sep_instructions labels insts = Refused.
Proof.
  induction insts as [|qs0 r IH]; intros H Hin Hq Hn; [destruct Hin|]. cbn [api_sep_instructions].
  destruct Hin as [-> | Hin].
  - assert (E : existsb (fun q => is_none (nth q labels None)) qs = true).
    { apply existsb_exists. exists q. split; [exact Hq | now rewrite Hn]. }
    now rewrite E.
  - destruct (existsb _ qs0); [reflexivity|].
    pose proof (spanned_pos labels qs0 (H qs0 (or_introl eq_refl))) as Hp.
    destruct (spanned labels qs0) as [|[|n]]; [congruence | | reflexivity].
    eapply IH; eauto. intros; apply H; now right.
Qed.
Lemma sep_instructions_spans (labels : list label) insts qs :
  (forall qs', In qs' insts -> qs' <> []) -> In qs insts -> 1 < spanned labels qs ->
  api_sep_instructions labels insts = Refused.
Proof.
  induction insts as [|qs0 r IH]; intros H Hin Hs; [destruct Hin|]. cbn [api_sep_instructions].
  destruct Hin as [-> | Hin].
  - destruct (existsb _ qs); [reflexivity|]. destruct (spanned labels qs) as [|[|n]]; [lia | lia | reflexivity].
  - destruct (existsb _ qs0); [reflexivity|].
    pose proof (spanned_pos labels qs0 (H qs0 (or_introl eq_refl))) as Hp.
    destruct (spanned labels qs0) as [|[|n]]; [congruence | | reflexivity].
    eapply IH; eauto. intros; apply H; now right.
Qed.
Lemma sep_label_count i l : sp_labels i = Some l -> length l <> sp_nq i -> api_separate i = Refused.
Proof. intros H1 H2. unfold api_separate. now rewrite H1, (eqb_false_of_neq _ _ H2). Qed.
Lemma sep_none_used i l qs q :
  sp_labels i = Some l -> (forall qs', In qs' (sp_split (sp_insts i)) -> qs' <> []) ->
  In qs (sp_split (sp_insts i)) -> In q qs -> nth q l None = None -> api_separate i = Refused.
Proof.
  intros H1 H2 H3 H4 H5. unfold api_separate. rewrite H1. apply andthen_rif_refused.
  eapply sep_instructions_none; eauto.
Qed.
Lemma sep_spans i l qs :
  sp_labels i = Some l -> (forall qs', In qs' (sp_split (sp_insts i)) -> qs' <> []) ->
  In qs (sp_split (sp_insts i)) -> 1 < spanned l qs -> api_separate i = Refused.
Proof.
  intros H1 H2 H3 H4. unfold api_separate. rewrite H1. apply andthen_rif_refused.
  eapply sep_instructions_spans; eauto.
Qed.
Lemma sp_split_gate insts qs : In (false, qs) insts -> In qs (sp_split insts).
Proof. intro H. unfold sp_split. apply in_flat_map. exists (false, qs). split; [exact H | now left]. Qed.
Lemma sp_split_barrier insts qs q : In (true, qs) insts -> In q qs -> In [q] (sp_split insts).
Proof.
  intros H Hq. unfold sp_split. apply in_flat_map. exists (true, qs). split; [exact H|]. simpl.
  apply in_map_iff. exists q. auto.
Qed.
Lemma sep_instructions_valid (labels : list label) insts :
  (forall qs, In qs insts -> existsb (fun q => is_none (nth q labels None)) qs = false /\ spanned labels qs = 1) ->
  api_sep_instructions labels insts = Proceeds.
Proof.
  induction insts as [|qs r IH]; intro H; [reflexivity|]. simpl.
  destruct (H qs (or_introl eq_refl)) as [E1 E2]. rewrite E1, E2. apply IH. intros; apply H; now right.
Qed.
Lemma sep_valid i l :
  sp_labels i = Some l -> length l = sp_nq i ->
  (forall qs, In qs (sp_split (sp_insts i)) ->
     existsb (fun q => is_none (nth q l None)) qs = false /\ spanned l qs = 1) ->
  api_separate i = Proceeds.
Proof.
  intros H1 H2 H3. unfold api_separate. rewrite H1, H2, Nat.eqb_refl. simpl. now apply sep_instructions_valid.
Qed.

(* ---------- expand_observables / simulate / observable grouping ---------- *)
Lemma exp_count n oq fq : n <> length oq -> api_expand n oq fq = Refused.
Proof. intro H. unfold api_expand. now rewrite (eqb_false_of_neq _ _ H). Qed.
Lemma exp_missing n oq fq q : In q oq -> ~ In q fq -> api_expand n oq fq = Refused.
Proof.
  intros H1 H2. unfold api_expand. apply andthen_rif_refused. apply rif_true.
  apply existsb_exists. exists q. split; [exact H1|].
  destruct (existsb (Nat.eqb q) fq) eqn:E; [|reflexivity].
  apply existsb_exists in E as [x [Hx Hq]]. apply Nat.eqb_eq in Hq. subst x. contradiction.
Qed.
Lemma exp_valid oq fq : incl oq fq -> api_expand (length oq) oq fq = Proceeds.
Proof.
  intro H. unfold api_expand. rewrite Nat.eqb_refl. simpl. apply rif_false.
  destruct (existsb _ oq) eqn:E; [|reflexivity]. apply existsb_exists in E as [q [Hq Hn]].
  assert (F : existsb (Nat.eqb q) fq = true).
  { apply existsb_exists. exists q. split; [apply H; exact Hq | apply Nat.eqb_refl]. }
  rewrite F in Hn. discriminate.
Qed.
Definition dflt_sim : sim_inst := mkSim false true 0.
Lemma sim_conditioned insts k : k < length insts -> si_cond (nth k insts dflt_sim) = true -> api_simulate insts = Refused.
Proof.
  intros Hk H. unfold api_simulate. apply rif_true. apply (existsb_nth_true _ _ k dflt_sim Hk).
  unfold sim_refuses. now rewrite H.
Qed.
Lemma sim_clbits insts k : k < length insts ->
  si_nonunitary (nth k insts dflt_sim) = false -> si_nclbits (nth k insts dflt_sim) <> 0 -> api_simulate insts = Refused.
Proof.
  intros Hk H1 H2. unfold api_simulate. apply rif_true. apply (existsb_nth_true _ _ k dflt_sim Hk).
  unfold sim_refuses. rewrite H1, (eqb_false_of_neq _ _ H2). apply orb_true_r.
Qed.
Lemma sim_valid insts : existsb sim_refuses insts = false -> api_simulate insts = Proceeds.
Proof. intro H. unfold api_simulate. now rewrite H. Qed.

Lemma mgo_empty n : api_mgo [] n = Refused.
Proof. reflexivity. Qed.
Lemma mgo_loop_not_pauli nq obs : forall rv, In None obs -> mgo_loop nq rv obs = Refused.
Proof.
  induction obs as [|o r IH]; intros rv H; [destruct H|]. simpl.
  destruct o as [l|]; [|reflexivity]. destruct H as [H | H]; [discriminate|].
  destruct (negb _); [reflexivity|]. destruct (mgo_merge rv l); [now apply IH | reflexivity].
Qed.
Lemma mgo_loop_size nq obs l : forall rv, In (Some l) obs -> length l <> nq -> mgo_loop nq rv obs = Refused.
Proof.
  induction obs as [|o r IH]; intros rv H Hl; [destruct H|]. simpl.
  destruct o as [l'|]; [|reflexivity]. destruct H as [H | H].
  - inversion H; subst l'. now rewrite (eqb_false_of_neq _ _ Hl).
  - destruct (negb _); [reflexivity|]. destruct (mgo_merge rv l'); [now apply IH | reflexivity].
Qed.
Lemma mgo_not_pauli obs n : In None obs -> api_mgo obs n = Refused.
Proof. intro H. destruct obs as [|o r]; [destruct H|]. unfold api_mgo. now apply mgo_loop_not_pauli. Qed.
Lemma mgo_size obs n l : In (Some l) obs -> length l <> n -> api_mgo obs (Some n) = Refused.
Proof. intros H Hl. destruct obs as [|o r]; [destruct H|]. unfold api_mgo. eapply mgo_loop_size; eauto. Qed.
Lemma cog_phase l k : k < length l -> nth k l 0 <> 0 -> api_cog l = Refused.
Proof. intros Hk H. unfold api_cog. now rewrite (any_phase_nth l k Hk H). Qed.
Lemma cog_valid l : any_phase l = false -> api_cog l = Proceeds.
Proof. intro H. unfold api_cog. now rewrite H. Qed.

(* Proofs/ResetPassesDropped.v — which wires the final-reset passes excuse: exactly the wires
   q < nq whose last instruction is a reset. *)
From Coq Require Import Lia ZifyBool.
From CKT Require Import Common.Base Common.Circ Common.Herbrand Model.ResetPasses
  Proofs.ResetPassesP Proofs.ResetPassesSem Proofs.ResetPassesDag.

(* last instruction on wire q *)
Fixpoint lastw (q : nat) (c : circ) : option instr :=
  match c with
  | [] => None
  | x :: r => match lastw q r with Some y => Some y | None => if on_wire q x then Some x else None end
  end.

Lemma low_lastw q c :
  match low q c with Some i => Some (nth i c dummy_instr) | None => None end = lastw q c.
Proof.
  induction c as [|x r IH]; simpl; [reflexivity|].
  rewrite <- IH. destruct (low q r); [reflexivity|]. destruct (on_wire q x); reflexivity.
Qed.

Lemma ends_in_reset_lastw q c :
  ends_in_reset q c = match lastw q c with Some y => is_reset y | None => false end.
Proof.
  unfold ends_in_reset. rewrite last_on_wire_low, <- low_lastw. now destruct (low q c).
Qed.

Lemma find_app {A} (f : A -> bool) a b :
  find f (a ++ b) = match find f a with Some y => Some y | None => find f b end.
Proof. induction a as [|x a IH]; simpl; [reflexivity|]. destruct (f x); [reflexivity|assumption]. Qed.

Lemma lastw_find_rev q c : lastw q c = find (on_wire q) (rev c).
Proof.
  induction c as [|x r IH]; simpl; [reflexivity|].
  rewrite find_app, <- IH. simpl. destruct (lastw q r); [reflexivity|]. now destruct (on_wire q x).
Qed.

(* ---- _remove_final_resets ---- *)

Lemma fdropped_iff nq nc q rc : wf nq nc rc = true -> forall f,
  In q (fdropped f rc) <->
  nth q f false = true /\ exists y, find (on_wire q) rc = Some y /\ is_reset y = true.
Proof.
  induction rc as [|x r IH]; intros W f.
  - simpl. split; [intros []|intros [_ [y [E _]]]; discriminate].
  - apply wf_cons in W as [Wx W]. specialize (IH W). unfold fdropped in *. cbn [fmask find].
    destruct (is_reset x) eqn:R.
    + rewrite (wf_reset_on_wire _ _ _ q Wx R).
      destruct (nth (rq x) f false) eqn:F; cbn [sel_mask map In].
      * destruct (Nat.eqb_spec q (rq x)) as [->|Nq].
        -- split; [intros _; split; [assumption|now exists x]|intros _; now left].
        -- rewrite IH.
           split; [intros [E|H]; [congruence|exact H]|intros H; now right].
      * rewrite IH. destruct (Nat.eqb_spec q (rq x)) as [->|Nq]; [|reflexivity].
        split; intros [Fq _]; congruence.
    + cbv zeta. destruct (Nat.eqb _ 0) eqn:Z; cbn [sel_mask map].
      * rewrite sel_mask_repeat_false. simpl. split; [intros []|].
        intros [Fq [y [E Ry]]]. destruct (on_wire q x) eqn:O; [inversion E; subst; congruence|].
        apply Nat.eqb_eq in Z. pose proof (count_true_0 _ q Z) as Cq.
        rewrite set_flags_nth in Cq. fold (on_wire q x) in Cq. rewrite O in Cq. simpl in Cq. congruence.
      * rewrite IH, set_flags_nth. fold (on_wire q x).
        destruct (on_wire q x) eqn:O; cbn [andb].
        -- split.
           ++ intros [Fq _]. destruct (Nat.ltb_spec q (length f)); [discriminate|].
              rewrite nth_overflow in Fq by assumption. discriminate.
           ++ intros [_ [y [E Ry]]]. inversion E; subst. congruence.
        -- reflexivity.
Qed.

Theorem final_dropped_iff nq nc c q : wf nq nc c = true ->
  (In q (final_dropped nq c) <-> q < nq /\ ends_in_reset q c = true).
Proof.
  intros W. rewrite final_dropped_as_mask.
  assert (W' : wf nq nc (rev c) = true).
  { unfold wf in *. rewrite forallb_forall in *. intros x I. apply W. now apply in_rev. }
  change (map rq (sel_mask (fmask (repeat true nq) (rev c)) (rev c))) with (fdropped (repeat true nq) (rev c)).
  rewrite (fdropped_iff nq nc q (rev c) W'), nth_repeat_true, Nat.ltb_lt.
  rewrite ends_in_reset_lastw, lastw_find_rev.
  split; intros [L H]; (split; [assumption|]).
  - destruct H as [y [E Ry]]. now rewrite E.
  - destruct (find (on_wire q) (rev c)) as [y|]; [now exists y|discriminate].
Qed.

(* ---- one run of RemoveFinalReset ---- *)

Definition ends' (q : nat) (c : circ) : bool :=
  match lastw q c with Some y => is_reset y | None => false end.

Lemma low_none_lastw q c : low q c = None <-> lastw q c = None.
Proof. rewrite <- low_lastw. destruct (low q c); split; congruence. Qed.

Lemma rfrw_changes q c : length (rfrw q c) = length c <-> ends' q c = false.
Proof.
  unfold ends'. induction c as [|x r IH]; simpl; [tauto|].
  destruct (low q r) eqn:E.
  - assert (lastw q r <> None) by (rewrite <- low_none_lastw; congruence).
    destruct (lastw q r); [|congruence]. simpl. rewrite <- IH. lia.
  - apply low_none_lastw in E. rewrite E.
    destruct (on_wire q x); simpl; [|tauto].
    destruct (is_reset x); simpl; [split; [lia|discriminate]|tauto].
Qed.

Lemma lastw_rfrw_other nq nc q q' c : wf nq nc c = true -> q' <> q -> lastw q' (rfrw q c) = lastw q' c.
Proof.
  intros W N. induction c as [|x r IH]; [reflexivity|].
  apply wf_cons in W as [Wx W]. specialize (IH W). cbn [rfrw].
  destruct (low q r).
  - simpl. now rewrite IH.
  - destruct (on_wire q x && is_reset x) eqn:OR; [|reflexivity].
    apply andb_prop in OR as [O R]. simpl.
    rewrite (wf_reset_on_wire _ _ _ q Wx R) in O. apply Nat.eqb_eq in O.
    rewrite (wf_reset_on_wire _ _ _ q' Wx R).
    destruct (Nat.eqb_spec q' (rq x)); [congruence|]. now destruct (lastw q' r).
Qed.

Lemma dropped_from_iff nq nc qs : NoDup qs -> forall c q, wf nq nc c = true ->
  (In q (dag_rfr_dropped_from c qs) <-> In q qs /\ ends' q c = true).
Proof.
  induction qs as [|a qs IH]; intros ND c q W; [simpl; tauto|].
  inversion ND as [|? ? Na ND']; subst. cbn [dag_rfr_dropped_from].
  assert (D : del_resets c (rfr_wire c a)) by (rewrite rfr_wire_rfrw; apply rfrw_only_resets).
  pose proof (del_resets_wf _ _ _ _ D W) as W1.
  destruct (Nat.eqb_spec (length (rfr_wire c a)) (length c)) as [L|L].
  - rewrite (del_resets_same_length _ _ D L) in *. rewrite (IH ND' c q W).
    rewrite rfr_wire_rfrw in L. apply rfrw_changes in L.
    split; [intros [I E]; split; [now right|assumption]|].
    intros [[<-|I] E]; [congruence|now split].
  - assert (Ea : ends' a c = true).
    { destruct (ends' a c) eqn:E; [reflexivity|]. apply rfrw_changes in E. rewrite <- rfr_wire_rfrw in E. contradiction. }
    cbn [In]. rewrite (IH ND' _ q W1). split.
    + intros [<-|[I E]]; [split; [now left|assumption]|].
      split; [now right|]. assert (q <> a) by congruence.
      unfold ends' in *. now rewrite rfr_wire_rfrw, (lastw_rfrw_other nq nc a q c W) in E.
    + intros [[<-|I] E]; [now left|right]. split; [assumption|].
      assert (q <> a) by congruence.
      unfold ends' in *. now rewrite rfr_wire_rfrw, (lastw_rfrw_other nq nc a q c W).
Qed.

Theorem dag_rfr_dropped_iff nq nc c q : wf nq nc c = true ->
  (In q (dag_rfr_dropped nq c) <-> q < nq /\ ends_in_reset q c = true).
Proof.
  intros W. unfold dag_rfr_dropped. rewrite (dropped_from_iff nq nc (seq 0 nq) (seq_NoDup nq 0) c q W).
  rewrite in_seq, ends_in_reset_lastw. unfold ends'. split; intros [H1 H2]; (split; [lia|assumption]).
Qed.

(* after the full pass no wire q < nq ends in a reset *)
Theorem final_complete nq nc c q : wf nq nc c = true -> q < nq ->
  ends_in_reset q (remove_final_resets nq c) = false.
Proof.
  intros W Lq. rewrite <- (dag_equiv_final nq nc c W).
  pose proof (dag_rfr_fix_is_fixed_point nq c) as Fx.
  pose proof (fold_rfr_fixed (seq 0 nq) _ Fx q ltac:(apply in_seq; lia)) as E.
  rewrite ends_in_reset_lastw. apply (f_equal (@length instr)) in E. apply rfrw_changes in E. exact E.
Qed.

(* Proofs/BestFirstExchangeMain.v — C08, unbounded pruning soundness, part 3: the induction along the gate list.

   follow:  from a search state s that simulates the prefix state st of an assignment A (invariant of
            BestFirstExchangeSim.v) the guarded search reaches a goal whose cost is at most the cost of A, provided the
            wire budget B of the start state covers the wire cuts of norm F A.
   forward: the same from the start state init_state nq B. *)
From Coq Require Import QArith Lia.
From CKT Require Import Model.CutFinder Proofs.UFP Proofs.ConnP Proofs.CutFinderSpec Proofs.CutFinderInv Proofs.CutFinderPlan.
From CKT Require Import Proofs.BestFirstP Proofs.BestFirstSpec Proofs.BestFirstExchange Proofs.BestFirstExchangeSim.
Close Scope Q_scope.

Lemma skipn_cons {A} (l : list A) : forall n x r, skipn n l = x :: r -> nth_error l n = Some x /\ skipn (S n) l = r.
Proof.
  induction l as [|a l IH]; intros [|n] x r H; cbn in *; try discriminate.
  - injection H as -> ->. split; reflexivity.
  - destruct (IH n x r H) as [H1 H2]. split; [exact H1|]. destruct l; [destruct n; discriminate|exact H2].
Qed.

Lemma skipn_nil_len {A} (l : list A) : forall n, skipn n l = [] -> length l <= n.
Proof. induction l as [|a l IH]; intros [|n] H; cbn in *; try discriminate; try lia. specialize (IH n H). lia. Qed.

Lemma qle_mul1 c f : (0 <= c)%Q -> (1 <= f)%Q -> (c <= c * f)%Q.
Proof.
  intros P F. rewrite <- (Qmult_1_r c) at 1. rewrite !(Qmult_comm c). now apply Qmult_le_compat_r.
Qed.

Lemma cost_step x c f' f : (0 <= x)%Q -> (x <= c)%Q -> (0 <= f')%Q -> (f' <= f)%Q -> (x * f' <= c * f)%Q.
Proof.
  intros P L P' L'. apply Qle_trans with (c * f')%Q.
  - apply Qmult_le_compat_r; assumption.
  - rewrite !(Qmult_comm c). apply Qmult_le_compat_r; [exact L'|]. apply Qle_trans with x; assumption.
Qed.

Section Follow.
  Variable nq : nat.
  Variable W : nat.
  Hypothesis HW : 1 <= W.
  Variables gl wl : bool.
  Variable gs : list gate_spec.
  Hypothesis Hwf : forall g, In g gs -> gwf nq g.
  Hypothesis Hgam : gammas_ok gs.
  Variable B : nat.                      (* the wire budget of the start state *)

  Let names := seq 0 nq.
  Let ND : NoDup names := seq_NoDup nq 0.
  Let fa := mkF gs (search_actions gl wl) W.

  Notation IU := (IU nq W).

  Lemma IU_set_level s l : IU s -> IU (set_level s l).
  Proof. intros (cur & E & I). exists cur, E. now apply InvU_set_level. Qed.

  (* one guarded action yields an edge of the search space *)
  Lemma over_member s cur E g : InvU names W s cur E -> gate_wf names g ->
    forall acts ak lk s', In ak acts -> next_state ak s g W = Val lk -> In s' lk ->
    exists l, next_states_over acts s g W = Val l /\ In s' l.
  Proof.
    intros I Gw. induction acts as [|k r IH]; intros ak lk s' Hin Hk Hs; [destruct Hin|].
    cbn [next_states_over].
    destruct (next_state_ok names W HW ND s cur E g k I Gw) as (l0 & Hl0 & _). rewrite Hl0. cbn [obind].
    assert (T : exists l1, next_states_over r s g W = Val l1).
    { clear IH Hin. induction r as [|k1 r1 IH1]; cbn [next_states_over]; [eauto|].
      destruct (next_state_ok names W HW ND s cur E g k1 I Gw) as (l2 & Hl2 & _). rewrite Hl2. cbn [obind].
      destruct IH1 as (l3 & ->). cbn [obind]. eauto. }
    destruct Hin as [->|Hin].
    - destruct T as (l1 & ->). cbn [obind]. eexists; split; [reflexivity|]. apply in_or_app. left. congruence.
    - destruct (IH _ _ _ Hin Hk Hs) as (l1 & -> & I1). cbn [obind]. eexists; split; [reflexivity|]. apply in_or_app. now right.
  Qed.

  Lemma succ_of_prim s g ak s1 : IU s -> nth_error gs (level s) = Some g -> In ak (search_actions gl wl) ->
    next_state_primitive ak s g W = Val [s1] -> succ fa s (set_level s1 (S (level s))).
  Proof.
    intros (cur & E & I) Eg Hin Hp.
    assert (Gw : gwf nq g) by (apply Hwf; eapply nth_error_In; eauto).
    unfold succ, next_states. cbn [fa fa_gates fa_actions fa_W]. rewrite Eg.
    destruct Gw as (GL & Gr). rewrite GL. cbn [Nat.eqb].
    apply (over_member s cur E g I (gwf_gate_wf nq g (conj GL Gr)) _ ak [set_level s1 (S (level s))]); auto.
    - unfold next_state. rewrite Hp. reflexivity.
    - left; reflexivity.
  Qed.

  Lemma sgates_of_wf l : (forall g, In g l -> In g gs) -> sgates_wf nq (sgates_of l).
  Proof.
    intros H q1 q2 gam I. unfold sgates_of in I. apply in_map_iff in I. destruct I as (g & Eg & Ig).
    injection Eg as <- <- <-. destruct (Hwf g (H g Ig)) as (_ & N & Q1 & Q2). auto.
  Qed.

  Lemma sgates_of_gammas l : (forall g, In g l -> In g gs) -> sgammas_ok (sgates_of l).
  Proof.
    intros H q1 q2 q I. unfold sgates_of in I. apply in_map_iff in I. destruct I as (g & Eg & Ig).
    injection Eg as _ _ Eq. exact (Hgam g (H g Ig) q Eq).
  Qed.

  Section WithF.
    Variable F : list nat.               (* the final labelling of the assignment *)
    Hypothesis HF : forall L, cnt (Fl F) (length F) L <= W.

    Lemma follow : forall rest A st c s G stn cn,
      skipn (level s) gs = rest ->
      replay gl wl (sgates_of rest) A st c = Some (stn, cn) -> sg_comp stn = F ->
      segs_ok nq st -> IU s -> length (uptree s) = nq + B ->
      (forall q, q < nq -> G (get_wire s q) = Fl F (curq st q)) ->
      J3 s G -> J4 s G ->
      (forall L, cnt G (num_wires s) L <= cnt (Fl F) (slen st) L) ->
      num_wires s + wcount (norm F (sgates_of rest) A st) <= nq + B ->
      (0 <= gamma_UB s)%Q -> (gamma_UB s <= c)%Q ->
      exists g, reach fa s g /\ goal fa g /\ (cost g <= cn)%Q.
    Proof.
      induction rest as [|g rest IH]; intros A st c s G stn cn Hsk Hrep EF OK HIU Hlen H2 H3 H4 H5 Hb P0 Pc.
      - (* all gates decided *)
        destruct A; cbn [sgates_of map replay] in Hrep; [|discriminate]. injection Hrep as <- <-.
        exists s. split; [constructor|]. split; [|exact Pc].
        unfold goal, goal_state. cbn [fa fa_gates]. apply Nat.leb_le. now apply skipn_nil_len.
      - destruct (skipn_cons _ _ _ _ Hsk) as [Eg Hsk'].
        assert (Hin : forall x, In x (g :: rest) -> In x gs).
        { intros x Hx. rewrite <- Hsk in Hx. clear - Hx. revert Hx. generalize (level s) as n.
          induction gs as [|a l IHl]; intros [|n] Hx; cbn in Hx; auto. right. eapply IHl; eauto. }
        assert (Gw : gwf nq g) by (apply Hwf, Hin; left; reflexivity).
        pose proof (gwf_gate_wf nq g Gw) as Gw'. fold names in Gw'.
        destruct Gw as (GL & NQ & Q1 & Q2).
        destruct A as [|k A]; [cbn [sgates_of map replay] in Hrep; discriminate|].
        cbn [sgates_of map] in Hrep, Hb. fold (sgates_of rest) in Hrep, Hb.
        set (q1 := q1_of g) in *. set (q2 := q2_of g) in *. set (gam := g_gamma g) in *.
        assert (WFs : sgates_wf nq ((q1, q2, gam) :: sgates_of rest)) by (apply (sgates_of_wf (g :: rest)); exact Hin).
        destruct (replay_step_facts gl wl nq _ _ _ _ _ _ _ _ _ _ WFs OK Hrep) as (Pk & Hrep' & SF). rewrite EF in SF.
        cbn [norm wcount] in Hb.
        set (st1 := apply_kind st q1 q2 k) in *. set (k' := norm_kind F st q1 q2 k) in *.
        pose proof (apply_kind_ok nq st q1 q2 k OK) as OK1. fold st1 in OK1.
        assert (Gg : forall x, gam = Some x -> (1 <= x)%Q).
        { intros x Ex. apply (Hgam g (Hin g (or_introl eq_refl)) x Ex). }
        assert (Pk' : In (akind_of k') (search_actions gl wl)).
        { eapply permitted_action. apply norm_kind_permitted. exact Pk. }
        assert (Pc0 : (0 <= c)%Q) by (eapply Qle_trans; eauto).
        assert (SL : slen st <= slen st1 /\ slen st1 <= length F).
        { split; [unfold st1; rewrite slen_apply_kind; lia|exact (sf_len _ _ _ _ _ _ SF)]. }
        assert (SL1 : slen st1 = slen st + kw k) by (unfold st1; apply slen_apply_kind).
        destruct HIU as (cur & E & I).
        assert (Ew1 : G (get_wire s q1) = Fl F (curq st q1)) by (apply H2; exact Q1).
        assert (Ew2 : G (get_wire s q2) = Fl F (curq st q2)) by (apply H2; exact Q2).
        assert (Lwm : length (wiremap s) = nq) by (rewrite (iu_len_wm _ _ _ _ _ I); apply seq_length).
        assert (Hgw : forall q, q < nq -> get_wire s q < num_wires s).
        { intros q Hq. apply (iu_wm _ _ _ _ _ I). unfold names. now rewrite seq_length. }
        assert (Oth : forall q, q < nq -> q <> q1 -> q <> q2 -> curq st1 q = curq st q).
        { intros q Hq N1 N2. unfold st1. now apply (curq_apply_kind_other nq). }
        assert (CF : forall n L, n <= length F -> cnt (Fl F) n L <= W).
        { intros n L Hn. eapply Nat.le_trans; [apply cnt_mono; exact Hn|apply HF]. }
        (* the cost of the successor *)
        assert (CS : forall s1 s', (gamma_UB s1 == gamma_UB s * kind_factor gam k')%Q ->
                       s' = set_level s1 (S (level s)) ->
                       (0 <= gamma_UB s')%Q /\ (gamma_UB s' <= c * kind_factor gam k)%Q).
        { intros s1 s' Eg1 ->. cbn [set_level gamma_UB]. rewrite Eg1. split.
          - apply Qmult_le_0_compat; [exact P0|now apply kind_factor_nonneg].
          - apply cost_step; auto; [now apply kind_factor_nonneg|now apply norm_kind_factor]. }
        destruct k' eqn:EK; subst k'.
        + (* ---- leave: ApplyGate ---- *)
          destruct (norm_leave_facts F nq st q1 q2 k OK Q1 Q2 NQ SF EK) as (E12 & C1 & C2). fold st1 in C1, C2.
          destruct (step_apply nq W HW s cur E g G I Gw' H3 H4) as (s1 & Hp & IU1 & A3 & A4 & Ewm & Enw & Elu & Egam & Elv).
          { fold q1 q2. congruence. }
          { fold q1. rewrite Ew1. eapply Nat.le_trans; [apply H5|]. apply CF. lia. }
          set (s' := set_level s1 (S (level s))).
          assert (SU : succ fa s s') by (apply (succ_of_prim s g KApply s1); auto; exists cur, E; exact I).
          destruct (CS s1 s') as [P0' Pc']; [rewrite Egam; cbn [kind_factor]; now rewrite Qmult_1_r|reflexivity|].
          destruct (IH A st1 (Qmult c (kind_factor gam k)) s' G stn cn) as (gg & R & Gg' & Lg); auto.
          * now apply IU_set_level.
          * cbn. lia.
          * intros q Hq. change (get_wire s' q) with (nth q (wiremap s1) 0). rewrite Ewm. fold (get_wire s q).
            destruct (Nat.eq_dec q q1) as [->|N1]; [congruence|]. destruct (Nat.eq_dec q q2) as [->|N2]; [congruence|].
            rewrite Oth by auto. now apply H2.
          * intros L. change (num_wires s') with (num_wires s1). rewrite Enw.
            eapply Nat.le_trans; [apply H5|]. apply cnt_mono. lia.
          * change (num_wires s') with (num_wires s1). cbn [kw] in Hb. lia.
          * exists gg. split; [econstructor; eauto|auto].
        + (* ---- gate cut ---- *)
          destruct (norm_gate_facts F st q1 q2 k EK) as (-> & NE).
          cbn [permitted] in Pk. apply andb_prop in Pk as [_ Pg]. destruct gam as [x|] eqn:Egm; [|discriminate].
          destruct (step_gate nq W HW s cur E g G x I Gw' H3 H4 Egm) as (s1 & Hp & IU1 & A3 & A4 & Ewm & Enw & Elu & Egam & Elv).
          { fold q1 q2. congruence. }
          set (s' := set_level s1 (S (level s))).
          assert (SU : succ fa s s') by (apply (succ_of_prim s g KGate s1); auto; exists cur, E; exact I).
          destruct (CS s1 s') as [P0' Pc']; [rewrite Egam; reflexivity|reflexivity|].
          destruct (IH A st1 (Qmult c (kind_factor (Some x) CutGate)) s' G stn cn) as (gg & R & Gg' & Lg); auto.
          * now apply IU_set_level.
          * cbn. lia.
          * intros q Hq. change (get_wire s' q) with (nth q (wiremap s1) 0). rewrite Ewm. fold (get_wire s q). now apply H2.
          * intros L. change (num_wires s') with (num_wires s1). rewrite Enw. apply H5.
          * change (num_wires s') with (num_wires s1). cbn [kw] in Hb. lia.
          * exists gg. split; [econstructor; eauto|auto].
        + (* ---- left wire cut ---- *)
          destruct (norm_left_facts F nq st q1 q2 k OK Q1 Q2 NQ SF EK) as (Kw & NE & En & C1 & C2). fold st1 in C1, C2.
          cbn [kw] in Hb.
          assert (HC : cnt G (num_wires s) (G (get_wire s q2)) + 1 <= W).
          { rewrite Ew2. pose proof (H5 (Fl F (curq st q2))) as H5'.
            pose proof (CF (S (slen st)) (Fl F (curq st q2)) ltac:(lia)) as CF'.
            rewrite cnt_S, En, Nat.eqb_refl in CF'. lia. }
          destruct (step_left nq W HW s cur E g G I Gw' H3 H4) as (s1 & Hp & IU1 & A3 & A4 & Ewm & Enw & Elu & Egam & Elv).
          { fold q1 q2. congruence. } { lia. } { exact HC. }
          fold q1 q2 in A3, A4, Ewm. rewrite Ew2 in A3, A4.
          set (G' := fupd G (num_wires s) (Fl F (curq st q2))) in *.
          set (s' := set_level s1 (S (level s))).
          assert (SU : succ fa s s') by (apply (succ_of_prim s g KLeft s1); auto; exists cur, E; exact I).
          destruct (CS s1 s') as [P0' Pc']; [rewrite Egam; reflexivity|reflexivity|].
          destruct (IH A st1 (Qmult c (kind_factor gam k)) s' G' stn cn) as (gg & R & Gg' & Lg); auto.
          * now apply IU_set_level.
          * cbn. lia.
          * intros q Hq. change (get_wire s' q) with (nth q (wiremap s1) 0). rewrite Ewm.
            destruct (Nat.eq_dec q q1) as [->|N1].
            { rewrite nth_upd_same by lia. unfold G', fupd. rewrite Nat.eqb_refl. congruence. }
            rewrite nth_upd_other by auto. fold (get_wire s q). pose proof (Hgw q Hq).
            unfold G', fupd. destruct (Nat.eqb_spec (get_wire s q) (num_wires s)); [lia|].
            destruct (Nat.eq_dec q q2) as [->|N2]; [congruence|]. rewrite Oth by auto. now apply H2.
          * intros L. change (num_wires s') with (num_wires s1). rewrite Enw, cnt_S.
            unfold G' at 1, fupd at 1. rewrite Nat.eqb_refl. unfold G'. rewrite cnt_fupd_out by lia.
            eapply Nat.le_trans; [|apply (cnt_mono _ (S (slen st))); lia]. rewrite cnt_S, En. specialize (H5 L). lia.
          * change (num_wires s') with (num_wires s1). lia.
          * exists gg. split; [econstructor; eauto|auto].
        + (* ---- right wire cut ---- *)
          destruct (norm_right_facts F nq st q1 q2 k OK Q1 Q2 NQ SF EK) as (Kw & NE & En & C1 & C2). fold st1 in C1, C2.
          cbn [kw] in Hb.
          assert (HC : cnt G (num_wires s) (G (get_wire s q1)) + 1 <= W).
          { rewrite Ew1. pose proof (H5 (Fl F (curq st q1))) as H5'.
            pose proof (CF (S (slen st)) (Fl F (curq st q1)) ltac:(lia)) as CF'.
            rewrite cnt_S, En, Nat.eqb_refl in CF'. lia. }
          destruct (step_right nq W HW s cur E g G I Gw' H3 H4) as (s1 & Hp & IU1 & A3 & A4 & Ewm & Enw & Elu & Egam & Elv).
          { fold q1 q2. congruence. } { lia. } { exact HC. }
          fold q1 q2 in A3, A4, Ewm. rewrite Ew1 in A3, A4.
          set (G' := fupd G (num_wires s) (Fl F (curq st q1))) in *.
          set (s' := set_level s1 (S (level s))).
          assert (SU : succ fa s s') by (apply (succ_of_prim s g KRight s1); auto; exists cur, E; exact I).
          destruct (CS s1 s') as [P0' Pc']; [rewrite Egam; reflexivity|reflexivity|].
          destruct (IH A st1 (Qmult c (kind_factor gam k)) s' G' stn cn) as (gg & R & Gg' & Lg); auto.
          * now apply IU_set_level.
          * cbn. lia.
          * intros q Hq. change (get_wire s' q) with (nth q (wiremap s1) 0). rewrite Ewm.
            destruct (Nat.eq_dec q q2) as [->|N2].
            { rewrite nth_upd_same by lia. unfold G', fupd. rewrite Nat.eqb_refl. congruence. }
            rewrite nth_upd_other by auto. fold (get_wire s q). pose proof (Hgw q Hq).
            unfold G', fupd. destruct (Nat.eqb_spec (get_wire s q) (num_wires s)); [lia|].
            destruct (Nat.eq_dec q q1) as [->|N1]; [congruence|]. rewrite Oth by auto. now apply H2.
          * intros L. change (num_wires s') with (num_wires s1). rewrite Enw, cnt_S.
            unfold G' at 1, fupd at 1. rewrite Nat.eqb_refl. unfold G'. rewrite cnt_fupd_out by lia.
            eapply Nat.le_trans; [|apply (cnt_mono _ (S (slen st))); lia]. rewrite cnt_S, En. specialize (H5 L). lia.
          * change (num_wires s') with (num_wires s1). lia.
          * exists gg. split; [econstructor; eauto|auto].
        + (* ---- both wires ---- *)
          destruct (norm_both_facts F nq st q1 q2 k OK Q1 Q2 NQ SF EK) as (-> & En & N1 & N2 & C1 & C2). fold st1 in C1, C2.
          cbn [kw] in Hb, SL1.
          assert (HW2 : 2 <= W) by (apply (two_same_label F W (slen st) (S (slen st))); auto; lia).
          destruct (step_both nq W HW s cur E g G (Fl F (slen st)) I Gw' H3 H4)
            as (s1 & Hp & IU1 & A3 & A4 & Ewm & Enw & Elu & Egam & Elv).
          { fold q1. congruence. } { fold q2. congruence. } { lia. } { exact HW2. }
          fold q1 q2 in Ewm.
          set (G' := fupd (fupd G (num_wires s) (Fl F (slen st))) (S (num_wires s)) (Fl F (slen st))) in *.
          set (s' := set_level s1 (S (level s))).
          assert (SU : succ fa s s') by (apply (succ_of_prim s g KBoth s1); auto; exists cur, E; exact I).
          destruct (CS s1 s') as [P0' Pc']; [rewrite Egam; reflexivity|reflexivity|].
          destruct (IH A st1 (Qmult c (kind_factor gam CutBoth)) s' G' stn cn) as (gg & R & Gg' & Lg); auto.
          * now apply IU_set_level.
          * cbn. lia.
          * intros q Hq. change (get_wire s' q) with (nth q (wiremap s1) 0). rewrite Ewm.
            destruct (Nat.eq_dec q q2) as [->|Nq2].
            { rewrite nth_upd_same by (rewrite upd_length; lia). unfold G', fupd. rewrite Nat.eqb_refl. congruence. }
            rewrite nth_upd_other by auto.
            destruct (Nat.eq_dec q q1) as [->|Nq1].
            { rewrite nth_upd_same by lia. unfold G', fupd.
              destruct (Nat.eqb_spec (num_wires s) (S (num_wires s))); [lia|]. rewrite Nat.eqb_refl. congruence. }
            rewrite nth_upd_other by auto. fold (get_wire s q). pose proof (Hgw q Hq).
            unfold G', fupd. destruct (Nat.eqb_spec (get_wire s q) (S (num_wires s))); [lia|].
            destruct (Nat.eqb_spec (get_wire s q) (num_wires s)); [lia|]. rewrite Oth by auto. now apply H2.
          * intros L. change (num_wires s') with (num_wires s1). rewrite Enw, SL1.
            replace (slen st + 2) with (S (S (slen st))) by lia. rewrite !cnt_S.
            unfold G' at 1, fupd at 1. rewrite Nat.eqb_refl.
            unfold G' at 1, fupd at 1 2. destruct (Nat.eqb_spec (num_wires s) (S (num_wires s))); [lia|]. rewrite Nat.eqb_refl.
            unfold G'. rewrite cnt_fupd_out by lia. rewrite cnt_fupd_out by lia. rewrite En. specialize (H5 L). lia.
          * change (num_wires s') with (num_wires s1). lia.
          * exists gg. split; [econstructor; eauto|auto].
    Qed.
  End WithF.

  (* from the start state with wire budget B *)
  Theorem forward A c stn : replay gl wl (sgates_of gs) A (segs_init nq) 1%Q = Some (stn, c) -> widths_ok W stn = true ->
    wcount (norm (sg_comp stn) (sgates_of gs) A (segs_init nq)) <= B ->
    exists g, reach fa (init_state nq B) g /\ goal fa g /\ (cost g <= c)%Q.
  Proof.
    intros Hrep Wk Hb.
    apply (follow (sg_comp stn) (fun L => widths_ok_cnt W stn L Wk) gs A (segs_init nq) 1%Q (init_state nq B)
             (Fl (sg_comp stn)) stn c).
    - reflexivity.
    - exact Hrep.
    - reflexivity.
    - apply segs_init_ok.
    - exists cur0, []. pose proof (InvU_init names W HW ND B) as I. unfold names in I at 2. rewrite seq_length in I. exact I.
    - cbn. unfold uf_init. now rewrite seq_length.
    - intros q Hq. reflexivity.
    - intros x y _ _. cbn [init_state uptree]. rewrite !find_init. now intros ->.
    - intros a b [].
    - intros L. cbn [init_state num_wires]. unfold slen. cbn [segs_init sg_comp]. rewrite seq_length. apply Nat.le_refl.
    - cbn [init_state num_wires]. lia.
    - discriminate.
    - cbn. apply Qle_refl.
  Qed.
End Follow.

(* Proofs/BestFirstSpec.v — the declarative SPECIFICATION of C08 (independent of the search) and the
   finite-domain proof that the guards / the wire-cut budget of the search lose no optimum.

   Specification.  A circuit is seen through its two-qubit gates (q1, q2, gamma).  An ASSIGNMENT gives every gate
   one of the kinds  leave / cut the gate / cut its first (left) / second (right) / both input wires.
   Wire-segment semantics: every qubit has a current segment; cutting a wire starts a fresh segment; a gate that is
   not gate-cut joins the components of the current segments of its two qubits.  An assignment of permitted kinds
   MEETS THE WIDTH LIMIT W iff at the end every component holds at most W segments (= qubits of that subcircuit).
   Its cost (gamma) is the product of the per-cut factors  gamma(gate), 4, 4, 16 ; the sampling overhead is cost^2.
   No union-find, no widths array, no no-merge clauses, no wire budget: none of the search's data structures. *)
From Coq Require Import QArith Lia.
From CKT Require Import Model.CutFinder Proofs.BestFirstP.
Close Scope Q_scope.

Inductive kind := Leave | CutGate | CutLeft | CutRight | CutBoth.

Record segs := mkSeg { sg_cur : list nat ;      (* qubit -> its current wire segment *)
                       sg_comp : list nat }.    (* segment -> label of its component *)

Definition segs_init (nq : nat) : segs := mkSeg (seq 0 nq) (seq 0 nq).

Definition comp_of (st : segs) (q : nat) : nat := nth (nth q (sg_cur st) 0) (sg_comp st) 0.

(* a wire cut on qubit q: a fresh segment, alone in a fresh component *)
Definition fresh_seg (st : segs) (q : nat) : segs :=
  let n := length (sg_comp st) in mkSeg (upd (sg_cur st) q n) (sg_comp st ++ [n]).

(* an uncut gate on q1, q2: their components become one *)
Definition join (st : segs) (q1 q2 : nat) : segs :=
  let a := comp_of st q1 in let b := comp_of st q2 in
  mkSeg (sg_cur st) (map (fun x => if Nat.eqb x b then a else x) (sg_comp st)).

Definition apply_kind (st : segs) (q1 q2 : nat) (k : kind) : segs :=
  match k with
  | Leave => join st q1 q2
  | CutGate => st
  | CutLeft => join (fresh_seg st q1) q1 q2
  | CutRight => join (fresh_seg st q2) q1 q2
  | CutBoth => join (fresh_seg (fresh_seg st q1) q2) q1 q2
  end.

Definition comp_size (st : segs) (l : nat) : nat := length (filter (Nat.eqb l) (sg_comp st)).

Definition widths_ok (W : nat) (st : segs) : bool :=
  forallb (fun l => Nat.leb (comp_size st l) W) (sg_comp st).

(* which kinds the caller permits (gate_lo / wire_lo); a gate without a gamma cannot be gate-cut *)
Definition permitted (gl wl : bool) (gam : option Q) (k : kind) : bool :=
  match k with
  | Leave => true
  | CutGate => gl && match gam with Some _ => true | None => false end
  | CutLeft | CutRight | CutBoth => wl
  end.

Definition kind_factor (gam : option Q) (k : kind) : Q :=
  match k with
  | Leave => 1
  | CutGate => match gam with Some q => q | None => 1 end
  | CutLeft | CutRight => 4
  | CutBoth => 16
  end%Q.

Definition sgate := (nat * nat * option Q)%type.

Fixpoint replay (gl wl : bool) (gs : list sgate) (A : list kind) (st : segs) (c : Q) : option (segs * Q) :=
  match gs, A with
  | [], [] => Some (st, c)
  | (q1, q2, gam) :: gs', k :: A' =>
      if permitted gl wl gam k then replay gl wl gs' A' (apply_kind st q1 q2 k) (Qmult c (kind_factor gam k)) else None
  | _, _ => None
  end.

(* Some c: the assignment A uses permitted kinds only, meets the width limit W, and costs c *)
Definition assignment_cost (nq W : nat) (gl wl : bool) (gs : list sgate) (A : list kind) : option Q :=
  match replay gl wl gs A (segs_init nq) 1%Q with
  | Some (st, c) => if widths_ok W st then Some c else None
  | None => None
  end.

(* the specification's view of the search's gate list *)
Definition sgates_of (gs : list gate_spec) : list sgate := map (fun g => (q1_of g, q2_of g, g_gamma g)) gs.

(* ------------------------------------------------------------------------------------ *)
(* the hypothesis that connects the guarded search space with the specification           *)
(* ------------------------------------------------------------------------------------ *)
(* c08_pruning_sound for one request: every assignment that meets the width limit is matched (cost-wise) by a goal that
   the guarded actions reach from the start state of the search, i.e. under the wire-cut budget derived from the greedy
   incumbent: neither the guards / no-merge clauses nor the budget exclude an optimum *)
Definition pruning_sound_for (gs : list gate_spec) (gl wl : bool) (W : nat) (mg : Q) (nq : nat) : Prop :=
  let fa := mkF gs (search_actions gl wl) W in
  forall A c, assignment_cost nq W gl wl (sgates_of gs) A = Some c ->
    exists g, reach fa (search_start fa mg nq) g /\ goal fa g /\ (cost g <= c)%Q.

(* ------------------------------------------------------------------------------------ *)
(* complete enumeration of the guarded search space and of the assignments                *)
(* ------------------------------------------------------------------------------------ *)
Fixpoint all_goals (fuel : nat) (fa : fargs) (s : dstate) : list dstate :=
  if goal_state fa s then [s]
  else match fuel with
       | O => []
       | S f => match next_states fa s with
                | Val l => flat_map (all_goals f fa) l
                | _ => []
                end
       end.

Lemma all_goals_sound fa : forall fuel s g, In g (all_goals fuel fa s) -> reach fa s g /\ goal fa g.
Proof.
  induction fuel as [|f IH]; intros s g H; cbn [all_goals] in H.
  - destruct (goal_state fa s) eqn:Gs; [|contradiction]. destruct H as [<-|[]]. split; [constructor|exact Gs].
  - destruct (goal_state fa s) eqn:Gs.
    + destruct H as [<-|[]]. split; [constructor|exact Gs].
    + destruct (next_states fa s) as [l| | |] eqn:E; try contradiction.
      apply in_flat_map in H. destruct H as (s'&Is'&Ig). destruct (IH _ _ Ig) as (R&Gg).
      split; auto. econstructor; [exists l; split; eauto|exact R].
Qed.

Definition kinds : list kind := [Leave; CutGate; CutLeft; CutRight; CutBoth].

Fixpoint all_assignments (n : nat) : list (list kind) :=
  match n with
  | O => [[]]
  | S m => flat_map (fun A => map (fun k => k :: A) kinds) (all_assignments m)
  end.

Lemma all_assignments_complete : forall A, In A (all_assignments (length A)).
Proof.
  induction A as [|k A IH]; cbn [length all_assignments]; [left; reflexivity|].
  apply in_flat_map. exists A; split; auto. apply (in_map (fun k => k :: A)). destruct k; cbv; tauto.
Qed.

Lemma replay_length gl wl : forall gs A st c r, replay gl wl gs A st c = Some r -> length A = length gs.
Proof.
  induction gs as [|[[q1 q2] gam] gs IH]; intros [|k A] st c r H; cbn [replay] in H; try discriminate; auto.
  destruct (permitted gl wl gam k); [|discriminate]. cbn [length]. f_equal. eapply IH; eauto.
Qed.

(* the costs of all assignments of permitted kinds that meet the width limit (depth-first, prefixes shared) *)
Fixpoint all_costs (gl wl : bool) (W : nat) (gs : list sgate) (st : segs) (c : Q) : list Q :=
  match gs with
  | [] => if widths_ok W st then [c] else []
  | (q1, q2, gam) :: gs' =>
      flat_map (fun k => if permitted gl wl gam k
                         then all_costs gl wl W gs' (apply_kind st q1 q2 k) (Qmult c (kind_factor gam k)) else []) kinds
  end.

Lemma kinds_complete k : In k kinds.
Proof. destruct k; cbv; tauto. Qed.

Lemma all_costs_complete gl wl W : forall gs A st c st' c',
  replay gl wl gs A st c = Some (st', c') -> widths_ok W st' = true -> In c' (all_costs gl wl W gs st c).
Proof.
  induction gs as [|[[q1 q2] gam] gs IH]; intros [|k A] st c st' c' H Wk; cbn [replay] in H; try discriminate.
  - inversion H; subst. cbn [all_costs]. rewrite Wk. left; reflexivity.
  - cbn [all_costs]. apply in_flat_map. exists k. split; [apply kinds_complete|].
    destruct (permitted gl wl gam k); [|discriminate]. eapply IH; eauto.
Qed.

(* ---- cost-bounded variants (the enumeration only has to look below the incumbent) ---- *)
(* goals of the guarded space, not descending into children that cost more than ub *)
Fixpoint goals_upto (ub : Q) (fuel : nat) (fa : fargs) (s : dstate) : list dstate :=
  if goal_state fa s then [s]
  else match fuel with
       | O => []
       | S f => match next_states fa s with
                | Val l => flat_map (fun s' => if Qleb (cost s') ub then goals_upto ub f fa s' else []) l
                | _ => []
                end
       end.

Lemma goals_upto_sound ub fa : forall fuel s g, In g (goals_upto ub fuel fa s) -> reach fa s g /\ goal fa g.
Proof.
  induction fuel as [|f IH]; intros s g H; cbn [goals_upto] in H.
  - destruct (goal_state fa s) eqn:Gs; [|contradiction]. destruct H as [<-|[]]. split; [constructor|exact Gs].
  - destruct (goal_state fa s) eqn:Gs.
    + destruct H as [<-|[]]. split; [constructor|exact Gs].
    + destruct (next_states fa s) as [l| | |] eqn:E; try contradiction.
      apply in_flat_map in H. destruct H as (s'&Is'&Ig). destruct (Qleb (cost s') ub); [|contradiction].
      destruct (IH _ _ Ig) as (R&Gg). split; auto. econstructor; [exists l; split; eauto|exact R].
Qed.

(* gammas of the specification's gate list are >= 1 *)
Definition sgammas_ok (gs : list sgate) : Prop := forall q1 q2 q, In (q1, q2, Some q) gs -> (1 <= q)%Q.

Lemma sgates_of_ok gs : gammas_ok gs -> sgammas_ok (sgates_of gs).
Proof.
  intros G q1 q2 q I. unfold sgates_of in I. apply in_map_iff in I. destruct I as (g&E&Ig).
  injection E as _ _ Eg. exact (G g Ig q Eg).
Qed.

Lemma kind_factor_ge_1 gam k : (forall q, gam = Some q -> (1 <= q)%Q) -> (1 <= kind_factor gam k)%Q.
Proof. intros H. destruct k; cbn [kind_factor]; try discriminate. destruct gam as [q|]; [now apply H|discriminate]. Qed.

Lemma replay_cost_ge gl wl : forall gs A st c st' c', sgammas_ok gs -> (0 <= c)%Q ->
  replay gl wl gs A st c = Some (st', c') -> (c <= c')%Q.
Proof.
  induction gs as [|[[q1 q2] gam] gs IH]; intros [|k A] st c st' c' G P H; cbn [replay] in H; try discriminate.
  - inversion H; subst. apply Qle_refl.
  - destruct (permitted gl wl gam k); [|discriminate].
    assert (F : (1 <= kind_factor gam k)%Q).
    { apply kind_factor_ge_1. intros q ->. apply (G q1 q2 q). left; reflexivity. }
    assert (L : (c <= c * kind_factor gam k)%Q).
    { rewrite <- (Qmult_1_r c) at 1. rewrite !(Qmult_comm c). now apply Qmult_le_compat_r. }
    eapply Qle_trans; [exact L|]. eapply IH; [| |exact H].
    + intros a b q I. apply (G a b q). right; exact I.
    + eapply Qle_trans; [exact P|exact L].
Qed.

(* true: no assignment of permitted kinds that meets the width limit extends the prefix (st, c) to a cost below bound *)
Fixpoint none_below (gl wl : bool) (W : nat) (bound : Q) (gs : list sgate) (st : segs) (c : Q) : bool :=
  if Qleb bound c then true
  else match gs with
       | [] => negb (widths_ok W st)
       | (q1, q2, gam) :: gs' =>
           forallb (fun k => if permitted gl wl gam k
                             then none_below gl wl W bound gs' (apply_kind st q1 q2 k) (Qmult c (kind_factor gam k))
                             else true) kinds
       end.

Lemma none_below_sound gl wl W bound : forall gs A st c st' c', sgammas_ok gs -> (0 <= c)%Q ->
  none_below gl wl W bound gs st c = true ->
  replay gl wl gs A st c = Some (st', c') -> widths_ok W st' = true -> (bound <= c')%Q.
Proof.
  induction gs as [|[[q1 q2] gam] gs IH]; intros A st c st' c' G P N H Wk.
  - cbn [none_below] in N. destruct (Qleb bound c) eqn:B.
    + apply Qleb_true in B. eapply Qle_trans; [exact B|]. eapply replay_cost_ge; eauto.
    + destruct A; cbn [replay] in H; [|discriminate]. inversion H; subst. rewrite Wk in N. discriminate.
  - cbn [none_below] in N. destruct (Qleb bound c) eqn:B.
    + apply Qleb_true in B. eapply Qle_trans; [exact B|]. eapply replay_cost_ge; eauto.
    + destruct A as [|k A]; cbn [replay] in H; [discriminate|].
      destruct (permitted gl wl gam k) eqn:Pk; [|discriminate].
      rewrite forallb_forall in N. specialize (N k (kinds_complete k)). rewrite Pk in N.
      assert (F : (1 <= kind_factor gam k)%Q).
      { apply kind_factor_ge_1. intros q ->. apply (G q1 q2 q). left; reflexivity. }
      eapply IH; [| |exact N|exact H|exact Wk].
      * intros a b q I. apply (G a b q). right; exact I.
      * eapply Qle_trans; [exact P|]. rewrite <- (Qmult_1_r c) at 1. rewrite !(Qmult_comm c). now apply Qmult_le_compat_r.
Qed.

(* the boolean check of pruning soundness for one request *)
Definition min_goal (l : list dstate) : option dstate :=
  match l with [] => None | s :: r => Some (first_min s r) end.

Definition pruning_check (gs : list gate_spec) (gl wl : bool) (W nq : nat) : bool :=
  let fa := mkF gs (search_actions gl wl) W in
  match greedy_of fa nq with
  | None => (* greedy dead-ended: then there must be no assignment that meets the width limit at all *)
      match all_costs gl wl W (sgates_of gs) (segs_init nq) 1%Q with [] => true | _ => false end
  | Some g =>
      let budget := Nat.min (max_wire_cuts_circuit gs) (max_wire_cuts_gamma (gamma_UB g)) in
      (* the cheapest goal of the guarded space that is not worse than the greedy incumbent (one must exist: the
         incumbent's own cuts fit into the budget derived from its gamma) *)
      match min_goal (goals_upto (cost g) (length gs) fa (init_state nq budget)) with
      | Some b => none_below gl wl W (cost b) (sgates_of gs) (segs_init nq) 1%Q
      | None => false
      end
  end.

Lemma pruning_check_sound gs gl wl W mg nq : gammas_ok gs ->
  pruning_check gs gl wl W nq = true -> pruning_sound_for gs gl wl W mg nq.
Proof.
  unfold pruning_check, pruning_sound_for. cbv zeta. intros G H A c HA.
  unfold assignment_cost in HA. destruct (replay _ _ _ _ _ _) as [[st c']|] eqn:E; [|discriminate].
  destruct (widths_ok W st) eqn:Wk; [|discriminate]. inversion HA; subst c'. clear HA.
  set (fa := mkF gs (search_actions gl wl) W) in *.
  destruct (greedy_of fa nq) as [g|] eqn:EG.
  - assert (SS : search_start fa mg nq = init_state nq (Nat.min (max_wire_cuts_circuit gs) (max_wire_cuts_gamma (gamma_UB g)))).
    { unfold search_start, search_budget. unfold greedy_of in EG.
      destruct (greedy_cut_optimization nq fa) as [o| | |]; try discriminate. subst o. reflexivity. }
    rewrite SS.
    destruct (goals_upto _ _ _ _) as [|s r] eqn:EA; cbn [min_goal] in H; [discriminate|].
    assert (P1 : (0 <= 1)%Q) by discriminate.
    pose proof (none_below_sound _ _ _ _ _ _ _ _ _ _ (sgates_of_ok _ G) P1 H E Wk) as L.
    pose proof (first_min_in r s) as I. rewrite <- EA in I. apply goals_upto_sound in I. destruct I as (R&Gg).
    exists (first_min s r). split; [exact R|split; [exact Gg|exact L]].
  - exfalso. pose proof (all_costs_complete _ _ _ _ _ _ _ _ _ E Wk) as I.
    destruct (all_costs _ _ _ _ _ _); [contradiction|discriminate].
Qed.

(* ------------------------------------------------------------------------------------ *)
(* the finite domain: circuits up to qubit relabelling (qubits numbered in order of first use)            *)
(* ------------------------------------------------------------------------------------ *)
(* all ways to append one gate: ordered pairs (a, b), a <> b, over the `used` qubits plus fresh ones in first-use
   order, at most maxq qubits, each with one of the gammas *)
Definition next_gates (maxq used : nat) (gammas : list Q) : list (nat * nat * Q * nat) :=
  flat_map (fun a =>
    let ua := Nat.max used (S a) in
    flat_map (fun b =>
      if Nat.eqb a b then [] else map (fun gam => (a, b, gam, Nat.max ua (S b))) gammas)
      (seq 0 (Nat.min (S ua) maxq)))
    (seq 0 (Nat.min (S used) maxq)).

(* all canonical circuits with exactly n gates: (gates in order, number of qubits used) *)
Fixpoint circuits_exact (maxq : nat) (gammas : list Q) (n : nat) : list (list (nat * nat * Q) * nat) :=
  match n with
  | O => [([], 0)]
  | S m => flat_map (fun cu => let '(c, used) := cu in
                       map (fun x => let '(a, b, gam, u) := x in (c ++ [(a, b, gam)], u)) (next_gates maxq used gammas))
                    (circuits_exact maxq gammas m)
  end.

Definition circuits_upto (maxq : nat) (gammas : list Q) (n : nat) : list (list (nat * nat * Q) * nat) :=
  flat_map (circuits_exact maxq gammas) (seq 1 n).

(* the search's gate list for a shape; lab k = (instruction id, name) of the k-th gate: arbitrary, never inspected *)
Fixpoint gates_from (lab : nat -> nat * nat) (k : nat) (c : list (nat * nat * Q)) : list gate_spec :=
  match c with
  | [] => []
  | (a, b, gam) :: r => mkGS (fst (lab k)) (snd (lab k)) [a; b] (Some gam) :: gates_from lab (S k) r
  end.

Definition lo_combos : list (bool * bool) := [(true, false); (false, true); (true, true)].

(* the check over a list of (circuit, #qubits used): idle qubits up to maxq, every W in 1..maxq, every cut-kind combination *)
Definition list_check (lab : nat -> nat * nat) (maxq : nat) (l : list (list (nat * nat * Q) * nat)) : bool :=
  forallb (fun cu => let '(c, used) := cu in
    let gs := gates_from lab 0 c in
    forallb (fun nq =>
      forallb (fun W =>
        forallb (fun lo => pruning_check gs (fst lo) (snd lo) W nq) lo_combos)
        (seq 1 maxq))
      (seq used (S maxq - used))) l.

Lemma list_check_sound lab maxq l : list_check lab maxq l = true ->
  forall c used, In (c, used) l -> gammas_ok (gates_from lab 0 c) ->
  forall nq W gl wl mg, used <= nq <= maxq -> 1 <= W <= maxq -> In (gl, wl) lo_combos ->
  pruning_sound_for (gates_from lab 0 c) gl wl W mg nq.
Proof.
  unfold list_check. intros H c used Ic Gk nq W gl wl mg Hn HW Ilo.
  rewrite forallb_forall in H. specialize (H _ Ic). cbn beta iota in H.
  rewrite forallb_forall in H. assert (In nq (seq used (S maxq - used))) as Inq by (apply in_seq; lia).
  specialize (H _ Inq). rewrite forallb_forall in H.
  assert (In W (seq 1 maxq)) as IW by (apply in_seq; lia).
  specialize (H _ IW). rewrite forallb_forall in H. specialize (H _ Ilo). cbn [fst snd] in H.
  now apply pruning_check_sound.
Qed.

(* the gammas of a list of circuits are >= 1 *)
Definition list_gammas_check (l : list (list (nat * nat * Q) * nat)) : bool :=
  forallb (fun cu => forallb (fun g => Qleb 1 (snd g)) (fst cu)) l.

Lemma gates_from_gammas_ok lab : forall c k, forallb (fun g => Qleb 1 (snd g)) c = true -> gammas_ok (gates_from lab k c).
Proof.
  induction c as [|[[a b] gam] r IH]; intros k H g Ig; cbn [gates_from] in Ig; [contradiction|].
  cbn [forallb snd] in H. apply andb_prop in H as [H1 H2]. destruct Ig as [<-|Ig].
  - intros q Eq. cbn [g_gamma] in Eq. injection Eq as <-. now apply Qleb_true.
  - eapply IH; eauto.
Qed.

Lemma list_gammas_ok lab l c used : list_gammas_check l = true -> In (c, used) l -> gammas_ok (gates_from lab 0 c).
Proof.
  intros H I. apply gates_from_gammas_ok. unfold list_gammas_check in H. rewrite forallb_forall in H. exact (H _ I).
Qed.

(* splitting a long list into chunks (the 4-gate part of the domain is checked in several files) *)
Fixpoint chunks {A} (n k : nat) (l : list A) : list (list A) :=
  match k with O => [l] | S k' => firstn n l :: chunks n k' (skipn n l) end.

Lemma in_chunks {A} (n : nat) (x : A) : forall k l, In x l -> exists c, In c (chunks n k l) /\ In x c.
Proof.
  induction k as [|k IH]; intros l I; cbn [chunks].
  - exists l; split; [left; reflexivity|exact I].
  - rewrite <- (firstn_skipn n l) in I. apply in_app_or in I. destruct I as [I|I].
    + exists (firstn n l); split; [left; reflexivity|exact I].
    + destruct (IH _ I) as (c&Ic&Ix). exists c; split; [right; exact Ic|exact Ix].
Qed.

(* ---- the finite domain of C08: <= 4 qubits, <= 4 two-qubit gates, gammas {3, 7} ---- *)
Definition c08_gammas : list Q := [3%Q; 7%Q].
Definition c08_domain3 : list (list (nat * nat * Q) * nat) := circuits_upto 4 c08_gammas 3.
Definition c08_exact4 : list (list (nat * nat * Q) * nat) := circuits_exact 4 c08_gammas 4.
Definition c08_chunks4 : list (list (list (nat * nat * Q) * nat)) := chunks 2320 5 c08_exact4.
Definition c08_domain : list (list (nat * nat * Q) * nat) := circuits_upto 4 c08_gammas 4.

Lemma c08_domain3_checked : forall lab, list_check lab 4 c08_domain3 = true.
Proof. intros lab. vm_compute. reflexivity. Qed.

Lemma c08_domain_gammas : list_gammas_check c08_domain = true.
Proof. vm_compute. reflexivity. Qed.

Lemma c08_domain_split x : In x c08_domain -> In x c08_domain3 \/ In x c08_exact4.
Proof.
  unfold c08_domain, c08_domain3, c08_exact4, circuits_upto. intros I.
  apply in_flat_map in I. destruct I as (n&In_&Ix). apply in_seq in In_.
  destruct (Nat.eq_dec n 4) as [->|N]; [right; exact Ix|left].
  apply in_flat_map. exists n; split; [apply in_seq; lia|exact Ix].
Qed.

(* ------------------------------------------------------------------------------------ *)
(* flag soundness against the specification                                               *)
(* ------------------------------------------------------------------------------------ *)
Lemma flag_sound_spec fuel i r : gammas_ok_in i ->
  pruning_sound_for (fa_gates (fa_of i)) (fi_gate_lo i) (fi_wire_lo i) (fi_W i) (fi_max_gamma i) (nq_of i) ->
  find_cuts_full fuel i = Val r -> md_minimum_reached (fr_meta r) = true ->
  forall A c, assignment_cost (nq_of i) (fi_W i) (fi_gate_lo i) (fi_wire_lo i) (sgates_of (fa_gates (fa_of i))) A = Some c ->
  (md_overhead (fr_meta r) <= c * c)%Q.
Proof.
  intros G PS H F A c HA. destruct (PS A c HA) as (g&R&Gg&Lg).
  eapply Qle_trans; [exact (flag_sound_guarded fuel i r G H F g R Gg)|].
  assert (P : (0 <= cost g)%Q).
  { eapply (reach_ok (fa_of i)); [exact G| |exact R]. unfold okc, search_start. rewrite init_state_cost. discriminate. }
  apply sq_le; auto.
Qed.

(* "max_gamma is at least the optimum" in terms of the specification: some assignment meets the width limit within max_gamma *)
Definition spec_within (i : fc_input) : Prop :=
  exists A c, assignment_cost (nq_of i) (fi_W i) (fi_gate_lo i) (fi_wire_lo i) (sgates_of (fa_gates (fa_of i))) A = Some c /\
              (c <= fi_max_gamma i)%Q.

Lemma spec_within_guarded i :
  pruning_sound_for (fa_gates (fa_of i)) (fi_gate_lo i) (fi_wire_lo i) (fi_W i) (fi_max_gamma i) (nq_of i) ->
  spec_within i ->
  exists g, reach (fa_of i) (start_of i) g /\ goal (fa_of i) g /\ (cost g <= fi_max_gamma i)%Q.
Proof.
  intros PS (A&c&HA&Lc). destruct (PS A c HA) as (g&R&Gg&Lg). exists g. split; [exact R|split; [exact Gg|]].
  eapply Qle_trans; eauto.
Qed.

Lemma unrestricted_spec fuel i r : gammas_ok_in i ->
  pruning_sound_for (fa_gates (fa_of i)) (fi_gate_lo i) (fi_wire_lo i) (fi_W i) (fi_max_gamma i) (nq_of i) ->
  find_cuts_full fuel i = Val r -> fi_max_backjumps i = None -> spec_within i ->
  md_minimum_reached (fr_meta r) = true.
Proof. intros G PS H MB SW. eapply unrestricted_sets_flag; eauto. now apply spec_within_guarded. Qed.

Lemma seed_independent_spec fuel1 fuel2 i t1 t2 r1 r2 : gammas_ok_in i ->
  pruning_sound_for (fa_gates (fa_of i)) (fi_gate_lo i) (fi_wire_lo i) (fi_W i) (fi_max_gamma i) (nq_of i) ->
  fi_max_backjumps i = None -> spec_within i ->
  find_cuts_full fuel1 (with_tape i t1) = Val r1 -> find_cuts_full fuel2 (with_tape i t2) = Val r2 ->
  (md_overhead (fr_meta r1) == md_overhead (fr_meta r2))%Q.
Proof. intros G PS MB SW. eapply seed_independent; eauto. now apply spec_within_guarded. Qed.

(* ---- the finite-domain theorems for <= 3 gates (the part of the enumeration that is in the cone of Properties/C08.v;
        the 4-gate part is in Proofs/BestFirstSpec4*.v) ---- *)
Lemma c08_domain3_gammas : list_gammas_check c08_domain3 = true.
Proof. vm_compute. reflexivity. Qed.

Lemma c08_domain3_gammas_ok lab c used : In (c, used) c08_domain3 -> gammas_ok (gates_from lab 0 c).
Proof. intros I. exact (list_gammas_ok lab _ c used c08_domain3_gammas I). Qed.

Lemma pruning_sound_bounded3 lab c used : In (c, used) c08_domain3 ->
  forall nq W gl wl mg, used <= nq <= 4 -> 1 <= W <= 4 -> In (gl, wl) lo_combos ->
  pruning_sound_for (gates_from lab 0 c) gl wl W mg nq.
Proof.
  intros I. exact (list_check_sound lab 4 _ (c08_domain3_checked lab) c used I (c08_domain3_gammas_ok lab c used I)).
Qed.

Lemma flag_sound_bounded3 fuel i r lab c used : In (c, used) c08_domain3 ->
  fa_gates (fa_of i) = gates_from lab 0 c -> used <= nq_of i <= 4 -> 1 <= fi_W i <= 4 ->
  In (fi_gate_lo i, fi_wire_lo i) lo_combos ->
  find_cuts_full fuel i = Val r -> md_minimum_reached (fr_meta r) = true ->
  forall A k, assignment_cost (nq_of i) (fi_W i) (fi_gate_lo i) (fi_wire_lo i) (sgates_of (fa_gates (fa_of i))) A = Some k ->
  (md_overhead (fr_meta r) <= k * k)%Q.
Proof.
  intros I Eg Hn HW Ilo H F. apply (flag_sound_spec fuel i r); auto.
  - unfold gammas_ok_in. rewrite Eg. eapply c08_domain3_gammas_ok; eauto.
  - rewrite Eg. eapply pruning_sound_bounded3; eauto.
Qed.

Lemma unrestricted_bounded3 fuel i r lab c used : In (c, used) c08_domain3 ->
  fa_gates (fa_of i) = gates_from lab 0 c -> used <= nq_of i <= 4 -> 1 <= fi_W i <= 4 ->
  In (fi_gate_lo i, fi_wire_lo i) lo_combos ->
  find_cuts_full fuel i = Val r -> fi_max_backjumps i = None -> spec_within i ->
  md_minimum_reached (fr_meta r) = true.
Proof.
  intros I Eg Hn HW Ilo H MB SW. apply (unrestricted_spec fuel i r); auto.
  - unfold gammas_ok_in. rewrite Eg. eapply c08_domain3_gammas_ok; eauto.
  - rewrite Eg. eapply pruning_sound_bounded3; eauto.
Qed.

Lemma seed_independent_bounded3 fuel1 fuel2 i t1 t2 r1 r2 lab c used : In (c, used) c08_domain3 ->
  fa_gates (fa_of i) = gates_from lab 0 c -> used <= nq_of i <= 4 -> 1 <= fi_W i <= 4 ->
  In (fi_gate_lo i, fi_wire_lo i) lo_combos ->
  fi_max_backjumps i = None -> spec_within i ->
  find_cuts_full fuel1 (with_tape i t1) = Val r1 -> find_cuts_full fuel2 (with_tape i t2) = Val r2 ->
  (md_overhead (fr_meta r1) == md_overhead (fr_meta r2))%Q.
Proof.
  intros I Eg Hn HW Ilo MB SW. apply (seed_independent_spec fuel1 fuel2 i t1 t2 r1 r2); auto.
  - unfold gammas_ok_in. rewrite Eg. eapply c08_domain3_gammas_ok; eauto.
  - rewrite Eg. eapply pruning_sound_bounded3; eauto.
Qed.


(* Proofs/SimP.v — lemmas about Model/Sim.v (C13). *)
From Coq Require Import QArith Qabs Permutation Lqa Lia.
From CKT Require Import Common.Base Common.QSim Model.Sim Model.SimTree.
Close Scope Q_scope.

(* ------------------------------------------------------------------------------------------ *)
(* finite sums in Q                                                                            *)
(* ------------------------------------------------------------------------------------------ *)
Fixpoint qsum {A} (f : A -> Q) (l : list A) : Q :=
  match l with [] => 0%Q | x :: r => (f x + qsum f r)%Q end.

Section QSum.
  Open Scope Q_scope.
  Context {A : Type}.

  Lemma qsum_app (f : A -> Q) l1 l2 : qsum f (l1 ++ l2) == qsum f l1 + qsum f l2.
  Proof. induction l1 as [|x r IH]; simpl; [ring|]. rewrite IH; ring. Qed.

  Lemma qsum_ext (f g : A -> Q) l : (forall x, In x l -> f x == g x) -> qsum f l == qsum g l.
  Proof.
    induction l as [|x r IH]; simpl; intros H; [reflexivity|].
    rewrite (H x (or_introl eq_refl)), IH; [reflexivity|]. intros y Hy; apply H; now right.
  Qed.

  Lemma qsum_perm (f : A -> Q) l l' : Permutation l l' -> qsum f l == qsum f l'.
  Proof.
    induction 1 as [|x l l' _ IH|x y l|l l' l'' _ IH1 _ IH2]; simpl.
    - reflexivity.
    - now rewrite IH.
    - ring.
    - now rewrite IH1.
  Qed.

  Lemma qsum_le (f g : A -> Q) l : (forall x, In x l -> f x <= g x) -> qsum f l <= qsum g l.
  Proof.
    induction l as [|x r IH]; simpl; intros H; [apply Qle_refl|].
    apply Qplus_le_compat; [apply H; now left|apply IH; intros y Hy; apply H; now right].
  Qed.

  Lemma qsum_zero (l : list A) : qsum (fun _ => 0) l == 0.
  Proof. induction l as [|x r IH]; simpl; [reflexivity|]. rewrite IH; ring. Qed.

  Lemma qsum_nonneg (f : A -> Q) l : (forall x, In x l -> 0 <= f x) -> 0 <= qsum f l.
  Proof. intros H. rewrite <- (qsum_zero l). now apply qsum_le. Qed.

  Lemma qsum_plus (f g : A -> Q) l : qsum (fun x => f x + g x) l == qsum f l + qsum g l.
  Proof. induction l as [|x r IH]; simpl; [ring|]. rewrite IH; ring. Qed.

  Lemma qsum_minus (f g : A -> Q) l : qsum (fun x => f x - g x) l == qsum f l - qsum g l.
  Proof. induction l as [|x r IH]; simpl; [ring|]. rewrite IH; ring. Qed.

  Lemma qsum_scal (c : Q) (f : A -> Q) l : qsum (fun x => f x * c) l == qsum f l * c.
  Proof. induction l as [|x r IH]; simpl; [ring|]. rewrite IH; ring. Qed.

  Lemma qsum_In_le (f : A -> Q) l x : (forall y, In y l -> 0 <= f y) -> In x l -> f x <= qsum f l.
  Proof.
    induction l as [|y r IH]; simpl; intros H HI; [tauto|]. destruct HI as [E|I]; [subst|].
    - assert (0 <= qsum f r) by (apply qsum_nonneg; intros; apply H; now right). lra.
    - assert (f x <= qsum f r) by (apply IH; auto). assert (0 <= f y) by (apply H; now left). lra.
  Qed.
End QSum.

Lemma qsum_flat_map {A B} (f : B -> Q) (g : A -> list B) l :
  (qsum f (flat_map g l) == qsum (fun x => qsum f (g x)) l)%Q.
Proof. induction l as [|x r IH]; simpl; [reflexivity|]. now rewrite qsum_app, IH. Qed.

Lemma qsum_map {A B} (f : B -> Q) (g : A -> B) l : qsum f (map g l) = qsum (fun x => f (g x)) l.
Proof. induction l as [|x r IH]; simpl; [reflexivity|]. now rewrite IH. Qed.

Lemma qsum_nat {A} (c : A -> nat) l :
  (qsum (fun x => inject_Z (Z.of_nat (c x))) l == inject_Z (Z.of_nat (fold_right (fun x a => (c x + a)%nat) 0%nat l)))%Q.
Proof.
  induction l as [|x r IH]; simpl; [reflexivity|].
  rewrite IH, Nat2Z.inj_add, inject_Z_plus. reflexivity.
Qed.

(* ------------------------------------------------------------------------------------------ *)
(* outcome maps                                                                                *)
(* ------------------------------------------------------------------------------------------ *)
Definition indic (k k' : N) : Q := if N.eqb k' k then 1%Q else 0%Q.

Lemma lookup_ev l k : (lookup l k == ev (indic k) l)%Q.
Proof.
  induction l as [|[k' p] r IH]; simpl; [reflexivity|]. unfold indic at 1.
  destruct (N.eqb k' k); rewrite IH; ring.
Qed.

Lemma total_ev l : (total l == ev (fun _ => 1%Q) l)%Q.
Proof. induction l as [|[k' p] r IH]; simpl; [reflexivity|]. rewrite IH; ring. Qed.

Lemma ev_cons phi k p l : ev phi ((k, p) :: l) = (phi k * p + ev phi l)%Q.
Proof. reflexivity. Qed.

Lemma ev_app phi l1 l2 : (ev phi (l1 ++ l2) == ev phi l1 + ev phi l2)%Q.
Proof. induction l1 as [|x r IH]; simpl; [ring|]. rewrite IH; ring. Qed.

Lemma ev_scale phi c l : (ev phi (scale c l) == c * ev phi l)%Q.
Proof. induction l as [|x r IH]; simpl; [ring|]. rewrite IH; ring. Qed.

Lemma lookup_notin l k : ~ In k (map fst l) -> lookup l k = 0%Q.
Proof.
  induction l as [|[k' p] r IH]; simpl; intros H; [reflexivity|].
  destruct (N.eqb_spec k' k) as [->|N]; [tauto|]. apply IH; tauto.
Qed.

Lemma lookup_in_nodup l k p : NoDup (map fst l) -> In (k, p) l -> (lookup l k == p)%Q.
Proof.
  induction l as [|[k' p'] r IH]; simpl; intros ND HI; [tauto|]. destruct HI as [E|I].
  - inversion E; subst. rewrite N.eqb_refl. inversion ND; subst. rewrite lookup_notin by assumption. ring.
  - inversion ND as [|? ? Hn ND']; subst. destruct (N.eqb_spec k' k) as [->|Nq].
    + exfalso; apply Hn. change k with (fst (k, p)). now apply in_map.
    + now apply IH.
Qed.

(* ------------------------------------------------------------------------------------------ *)
(* bit arithmetic: the implementation's masks are set/clear of one bit                          *)
(* ------------------------------------------------------------------------------------------ *)
Lemma k1_setbit k c : N.lor k (N.shiftl 1 c) = N.setbit k c.
Proof. now rewrite N.setbit_spec', N.shiftl_1_l. Qed.

Lemma k0_clearbit k c : N.lxor k (N.land k (N.shiftl 1 c)) = N.clearbit k c.
Proof.
  rewrite N.clearbit_spec', <- N.shiftl_1_l. apply N.bits_inj; intros n.
  rewrite N.lxor_spec, N.land_spec, N.ldiff_spec.
  destruct (N.testbit k n), (N.testbit (N.shiftl 1 c) n); reflexivity.
Qed.

Lemma shiftl1_nonzero c : N.eqb (N.shiftl 1 c) 0 = false.
Proof.
  apply N.eqb_neq. rewrite N.shiftl_1_l. apply N.pow_nonzero. discriminate.
Qed.

Lemma k0_reset k : N.lxor k (N.land k 0) = k.
Proof. now rewrite N.land_0_r, N.lxor_0_r. Qed.

Lemma k1_reset k : N.lor k 0 = k.
Proof. apply N.lor_0_r. Qed.

(* ------------------------------------------------------------------------------------------ *)
(* the dictionary                                                                              *)
(* ------------------------------------------------------------------------------------------ *)
Section DictP.
  Variable state : Type.
  Notation branch := (Sim.branch state).
  Notation dict := (Sim.dict state).

  Definition keys (d : dict) : list N := map fst d.
  (* the multiset of (outcome, (prob, state)) held by a dictionary *)
  Definition branches (d : dict) : list (N * branch) :=
    flat_map (fun kl => map (fun b => (fst kl, b)) (snd kl)) d.
  Definition emptied (d : dict) : dict := map (fun kl => (fst kl, @nil branch)) d.

  Lemma branches_cons k l (r : dict) : branches ((k, l) :: r) = map (fun b => (k, b)) l ++ branches r.
  Proof. reflexivity. Qed.

  Lemma branches_append (d : dict) k v : Permutation (branches (dict_append d k v)) (branches d ++ [(k, v)]).
  Proof.
    induction d as [|[k' l] r IH]; cbn [dict_append].
    - reflexivity.
    - destruct (N.eqb_spec k k') as [->|Nk]; rewrite !branches_cons.
      + rewrite map_app, <- !app_assoc. apply Permutation_app_head. cbn [map app].
        apply Permutation_cons_append.
      + rewrite <- app_assoc. now apply Permutation_app_head.
  Qed.

  Lemma keys_append_in (d : dict) k v x : In x (keys (dict_append d k v)) -> x = k \/ In x (keys d).
  Proof.
    induction d as [|[k' l] r IH]; cbn [dict_append keys map fst In].
    - intros [E|[]]; auto.
    - destruct (N.eqb_spec k k') as [->|Nk]; cbn [map fst In]; intros [E|I]; auto.
      destruct (IH I); auto.
  Qed.

  Lemma keys_append_nodup (d : dict) k v : NoDup (keys d) -> NoDup (keys (dict_append d k v)).
  Proof.
    induction d as [|[k' l] r IH]; cbn [dict_append keys map fst]; intros ND.
    - constructor; [intros []|constructor].
    - inversion ND as [|? ? Hn ND']; subst.
      destruct (N.eqb_spec k k') as [->|Nk]; cbn [map fst]; [now constructor|].
      constructor; [|now apply IH]. intros HI. destruct (keys_append_in _ _ _ _ HI); [congruence|auto].
  Qed.

  Lemma branches_inserts ins (d : dict) : Permutation (branches (apply_inserts ins d)) (branches d ++ ins).
  Proof.
    revert d; induction ins as [|[k v] r IH]; intros d; cbn [apply_inserts].
    - now rewrite app_nil_r.
    - rewrite IH, branches_append, <- app_assoc. reflexivity.
  Qed.

  Lemma keys_inserts_nodup ins (d : dict) : NoDup (keys d) -> NoDup (keys (apply_inserts ins d)).
  Proof.
    revert d; induction ins as [|[k v] r IH]; intros d ND; cbn [apply_inserts]; auto.
    apply IH. now apply keys_append_nodup.
  Qed.

  Lemma branches_cleanup (d : dict) : branches (cleanup d) = branches d.
  Proof.
    induction d as [|[k l] r IH]; [reflexivity|]. unfold cleanup in *; cbn [filter snd].
    destruct l as [|b l]; rewrite ?branches_cons, IH; reflexivity.
  Qed.

  Lemma keys_cleanup_in (d : dict) x : In x (keys (cleanup d)) -> In x (keys d).
  Proof.
    unfold keys, cleanup. intros H. apply in_map_iff in H as [kl [E HI]]. apply filter_In in HI as [HI _].
    apply in_map_iff; eauto.
  Qed.

  Lemma keys_cleanup_nodup (d : dict) : NoDup (keys d) -> NoDup (keys (cleanup d)).
  Proof.
    induction d as [|[k l] r IH]; intros ND; [constructor|]. inversion ND as [|? ? Hn ND']; subst.
    unfold cleanup; cbn [filter snd]. fold (cleanup r).
    destruct l as [|b l]; [now apply IH|]. cbn [keys map fst]. constructor; [|now apply IH].
    intros HI; apply Hn. now apply keys_cleanup_in.
  Qed.

  Lemma cleanup_nonempty (d : dict) kl : In kl (cleanup d) -> snd kl <> [].
  Proof. unfold cleanup; intros H. apply filter_In in H as [_ H]. destruct (snd kl); [discriminate|discriminate]. Qed.

  Lemma branches_emptied (d : dict) : branches (emptied d) = [].
  Proof. induction d as [|[k l] r IH]; [reflexivity|]. cbn [emptied map fst]. now rewrite branches_cons. Qed.

  Lemma keys_emptied (d : dict) : keys (emptied d) = keys d.
  Proof. unfold keys, emptied. rewrite map_map. reflexivity. Qed.

  (* deleting in reversed order of recording never goes out of range and empties every list *)
  Lemma del_last {A} (l : list A) n : length l = S n -> del_at l n = Some (firstn n l).
  Proof.
    revert n; induction l as [|x r IH]; intros n H; [discriminate|].
    destruct n as [|n]; cbn [del_at firstn].
    - destruct r; [reflexivity|discriminate].
    - rewrite IH by (simpl in H; lia). reflexivity.
  Qed.

  Lemma deletes_one_key n : forall (l : list branch) k (r : dict), length l = n ->
    apply_deletes (map (fun i => (k, i)) (rev (seq 0 n))) ((k, l) :: r) = Some ((k, []) :: r).
  Proof.
    induction n as [|n IH]; intros l k r H.
    - destruct l; [reflexivity|discriminate].
    - rewrite seq_S, rev_app_distr. cbn [rev app map plus apply_deletes dict_del].
      rewrite N.eqb_refl, (del_last l n H). cbn [option_map]. apply IH.
      rewrite firstn_length. lia.
  Qed.

  Lemma deletes_app a b (d : dict) :
    apply_deletes (a ++ b) d = match apply_deletes a d with None => None | Some d' => apply_deletes b d' end.
  Proof.
    revert d; induction a as [|[k i] r IH]; intros d; cbn [app apply_deletes]; [reflexivity|].
    destruct (dict_del d k i); [apply IH|reflexivity].
  Qed.

  Lemma deletes_skip dels k l (r : dict) : (forall x, In x dels -> fst x <> k) ->
    apply_deletes dels ((k, l) :: r) = option_map (cons (k, l)) (apply_deletes dels r).
  Proof.
    revert r; induction dels as [|[k' i] ds IH]; intros r H; cbn [apply_deletes dict_del]; [reflexivity|].
    assert (Nk : k' <> k) by (apply (H (k', i)); now left).
    apply N.eqb_neq in Nk; rewrite Nk.
    destruct (dict_del r k' i); cbn [option_map]; [|reflexivity].
    apply IH. intros x Hx; apply H; now right.
  Qed.

  Lemma pending_delete_keys (d : dict) x : In x (pending_delete d) -> In (fst x) (keys d).
  Proof.
    unfold pending_delete. intros H. apply in_flat_map in H as [kl [Hkl Hx]].
    apply in_map_iff in Hx as [i [E _]]; subst x. cbn [fst]. unfold keys. now apply in_map.
  Qed.

  Lemma deletes_all (d : dict) : NoDup (keys d) -> apply_deletes (rev (pending_delete d)) d = Some (emptied d).
  Proof.
    induction d as [|[k l] r IH]; intros ND; [reflexivity|]. inversion ND as [|? ? Hn ND']; subst.
    change (pending_delete ((k, l) :: r)) with (map (fun i => (k, i)) (seq 0 (length l)) ++ pending_delete r).
    rewrite rev_app_distr, deletes_app, deletes_skip.
    - rewrite IH by assumption. cbn [option_map]. rewrite <- map_rev. now apply deletes_one_key.
    - intros x Hx E. apply in_rev in Hx. apply pending_delete_keys in Hx. congruence.
  Qed.
End DictP.

Arguments keys {state} d.
Arguments branches {state} d.
Arguments emptied {state} d.

(* ------------------------------------------------------------------------------------------ *)
(* the simulation loop over an arbitrary instrument                                            *)
(* ------------------------------------------------------------------------------------------ *)
Section SimP.
  Variable gate : Type.
  Variable state : Type.
  Variable apply : gate -> list nat -> state -> state.
  Variable p1 : state -> nat -> Q.
  Variable proj : state -> nat -> bool -> state.
  Variable flipx : state -> nat -> state.
  Variable tol : Q.
  Notation branch := (Sim.branch state).
  Notation dict := (Sim.dict state).
  Notation prog := (Sim.prog gate).
  Notation split := (split_branch p1 proj flipx tol).
  Notation step := (nonunitary_step p1 proj flipx tol).
  Notation run := (Sim.run apply p1 proj flipx tol).
  Notation path := (path_law apply p1 proj flipx).
  Open Scope Q_scope.

  Lemma pending_insert_flat q kf (d : dict) :
    pending_insert p1 proj flipx tol q kf d = flat_map (fun kb => split q kf (fst kb) (snd kb)) (branches d).
  Proof.
    unfold pending_insert. induction d as [|[k l] r IH]; [reflexivity|].
    cbn [flat_map fst snd]. rewrite branches_cons, flat_map_app, IH. f_equal.
    clear. induction l as [|b l IH]; [reflexivity|]. cbn [map flat_map fst snd]. now rewrite IH.
  Qed.

  (* the measure/reset arm never raises, keeps keys unique, removes empty lists, and holds exactly the
     children recorded in pending_insert *)
  Lemma step_ok q kf (d : dict) : NoDup (keys d) ->
    exists d', step q kf d = Some d' /\ NoDup (keys d') /\
               Permutation (branches d') (pending_insert p1 proj flipx tol q kf d) /\
               (forall kl, In kl d' -> snd kl <> []) /\
               d' = cleanup (apply_inserts (pending_insert p1 proj flipx tol q kf d) (emptied d)).
  Proof.
    intros ND. unfold nonunitary_step. rewrite deletes_all by assumption.
    eexists; split; [reflexivity|]. repeat split.
    - apply keys_cleanup_nodup, keys_inserts_nodup. now rewrite keys_emptied.
    - rewrite branches_cleanup, branches_inserts, branches_emptied. reflexivity.
    - apply cleanup_nonempty.
  Qed.

  Lemma keys_evolve g qs (d : dict) : keys (evolve apply g qs d) = keys d.
  Proof. unfold keys, evolve. rewrite map_map. reflexivity. Qed.

  Lemma branches_evolve g qs (d : dict) :
    branches (evolve apply g qs d) = map (fun kb => (fst kb, (fst (snd kb), apply g qs (snd (snd kb))))) (branches d).
  Proof.
    induction d as [|[k l] r IH]; [reflexivity|].
    change (evolve apply g qs ((k, l) :: r)) with ((k, map (fun b => (fst b, apply g qs (snd b))) l) :: evolve apply g qs r).
    rewrite !branches_cons, map_app, IH, !map_map. reflexivity.
  Qed.

  (* ---- refusals and absence of other exceptions ---- *)
  Lemma run_refuses (p : prog) : forall (d : dict) n, NoDup (keys d) ->
    existsb refusing p = true -> run p d n = Refused.
  Proof.
    induction p as [|i r IH]; intros d n ND H; [discriminate|].
    destruct i as [g qs|q c|q|qs| |]; cbn [existsb refusing orb] in H; cbn [Sim.run]; try reflexivity.
    - apply IH; [now rewrite keys_evolve|assumption].
    - destruct (step_ok q (N.shiftl 1 (N.of_nat c)) d ND) as [d' [E [ND' _]]]. rewrite E. now apply IH.
    - destruct (step_ok q 0%N d ND) as [d' [E [ND' _]]]. rewrite E. now apply IH.
    - now apply IH.
  Qed.

  (* ---- value ---- *)
  Lemma sum_probs_acc (l : list branch) a : fold_left (fun acc b => acc + fst b) l a == a + qsum fst l.
  Proof.
    revert a; induction l as [|b l IH]; intros a; cbn [fold_left qsum]; [ring|]. rewrite IH; ring.
  Qed.

  Lemma sum_probs_qsum (l : list branch) : sum_probs l == qsum fst l.
  Proof. unfold sum_probs. rewrite sum_probs_acc. ring. Qed.

  (* contribution of one held branch to the expectation of phi after running the rest r *)
  Definition contrib (phi : N -> Q) (r : prog) (kb : N * branch) : Q :=
    fst (snd kb) * ev phi (path r (snd (snd kb)) (fst kb)).

  Lemma finalize_ev phi (d : dict) : ev phi (finalize d) == qsum (contrib phi []) (branches d).
  Proof.
    induction d as [|[k l] r IH]; [reflexivity|].
    change (finalize ((k, l) :: r)) with ((k, sum_probs l) :: finalize r).
    rewrite ev_cons, branches_cons, qsum_app, IH, qsum_map.
    apply Qplus_comp; [|reflexivity]. rewrite sum_probs_qsum.
    unfold contrib; cbn [fst snd path_law]. unfold ev; cbn [fold_right fst snd]. clear. induction l as [|b l IH]; cbn [qsum]; [ring|].
    rewrite <- IH. ring.
  Qed.

  Lemma isclose0_zero p : tol == 0 -> isclose0 tol p = true -> p == 0.
  Proof.
    intros Ht H. unfold isclose0 in H. apply Qle_bool_iff in H. rewrite Ht in H.
    apply Qabs_Qle_condition in H. lra.
  Qed.

  Lemma split_contrib phi (r : prog) q kf k (b : branch) X0 X1 : tol == 0 ->
    (isclose0 tol (1 - p1 (snd b) q) = false ->
       contrib phi r (N.lxor k (N.land k kf), (fst b * (1 - p1 (snd b) q), proj (snd b) q false)) == fst b * ((1 - p1 (snd b) q) * X0)) ->
    (isclose0 tol (p1 (snd b) q) = false ->
       contrib phi r (N.lor k kf, (fst b * p1 (snd b) q,
                        if N.eqb kf 0 then flipx (proj (snd b) q true) q else proj (snd b) q true)) == fst b * (p1 (snd b) q * X1)) ->
    qsum (contrib phi r) (split q kf k b) == fst b * ((1 - p1 (snd b) q) * X0 + p1 (snd b) q * X1).
  Proof.
    intros Ht H0 H1. unfold split_branch. rewrite qsum_app.
    destruct (isclose0 tol (1 - p1 (snd b) q)) eqn:Z0, (isclose0 tol (p1 (snd b) q)) eqn:Z1; cbn [qsum].
    - apply (isclose0_zero _ Ht) in Z0, Z1. rewrite Z0, Z1. ring.
    - apply (isclose0_zero _ Ht) in Z0. rewrite (H1 eq_refl), Z0. ring.
    - apply (isclose0_zero _ Ht) in Z1. rewrite (H0 eq_refl), Z1. ring.
    - rewrite (H0 eq_refl), (H1 eq_refl). ring.
  Qed.

  Lemma split_measure phi (r : prog) q c kb : tol == 0 ->
    qsum (contrib phi r) (split q (N.shiftl 1 (N.of_nat c)) (fst kb) (snd kb)) == contrib phi (PMeasure q c :: r) kb.
  Proof.
    intros Ht. destruct kb as [k b]. cbn [fst snd].
    unfold contrib at 2. cbn [fst snd path_law]. rewrite ev_app, !ev_scale.
    apply split_contrib; [assumption| |]; intros _; unfold contrib; cbn [fst snd].
    - rewrite k0_clearbit. ring.
    - rewrite shiftl1_nonzero, k1_setbit. ring.
  Qed.

  Lemma split_reset phi (r : prog) q kb : tol == 0 ->
    qsum (contrib phi r) (split q 0%N (fst kb) (snd kb)) == contrib phi (PReset q :: r) kb.
  Proof.
    intros Ht. destruct kb as [k b]. cbn [fst snd].
    unfold contrib at 2. cbn [fst snd path_law]. rewrite ev_app, !ev_scale.
    apply split_contrib; [assumption| |]; intros _; unfold contrib; cbn [fst snd].
    - rewrite k0_reset. ring.
    - rewrite k1_reset. cbn [N.eqb]. ring.
  Qed.

  (* main lemma: with tolerance 0 the dictionary after the loop carries, for every function phi of the
     outcome, exactly the expectation of phi under the path semantics of the remaining program started
     from every held branch *)
  Lemma run_sem phi : tol == 0 -> forall (p : prog) (d : dict) n, NoDup (keys d) -> existsb refusing p = false ->
    exists d' n', run p d n = Ok (d', n') /\ NoDup (keys d') /\
                  ev phi (finalize d') == qsum (contrib phi p) (branches d).
  Proof.
    intros Ht. induction p as [|i r IH]; intros d n ND H.
    - exists d, n. repeat split; auto. apply finalize_ev.
    - destruct i as [g qs|q c|q|qs| |]; cbn [existsb refusing orb] in H; try discriminate; cbn [Sim.run].
      + destruct (IH (evolve apply g qs d) n) as [d' [n' [E [ND' S]]]]; [now rewrite keys_evolve|assumption|].
        exists d', n'. repeat split; auto. rewrite S, branches_evolve, qsum_map. reflexivity.
      + destruct (step_ok q (N.shiftl 1 (N.of_nat c)) d ND) as [d1 [E1 [ND1 [P1 _]]]]. rewrite E1.
        destruct (IH d1 (n + pruned_count p1 tol q d)%nat ND1 H) as [d' [n' [E [ND' S]]]].
        exists d', n'. repeat split; auto.
        rewrite S, (qsum_perm _ _ _ P1), pending_insert_flat, qsum_flat_map.
        apply qsum_ext; intros kb _. now apply split_measure.
      + destruct (step_ok q 0%N d ND) as [d1 [E1 [ND1 [P1 _]]]]. rewrite E1.
        destruct (IH d1 (n + pruned_count p1 tol q d)%nat ND1 H) as [d' [n' [E [ND' S]]]].
        exists d', n'. repeat split; auto.
        rewrite S, (qsum_perm _ _ _ P1), pending_insert_flat, qsum_flat_map.
        apply qsum_ext; intros kb _. now apply split_reset.
      + destruct (IH d n ND H) as [d' [n' [E [ND' S]]]]. exists d', n'. repeat split; auto.
  Qed.

  Lemma init_keys (s0 : state) : NoDup (keys (init_dict s0)).
  Proof. constructor; [intros []|constructor]. Qed.

  Lemma keys_finalize (d : dict) : map fst (finalize d) = keys d.
  Proof. unfold finalize, keys. rewrite map_map. reflexivity. Qed.

  Theorem simulate_expectation : tol == 0 -> forall s0 (p : prog), existsb refusing p = false ->
    exists out, simulate apply p1 proj flipx tol s0 p = Ok out /\ NoDup (map fst out) /\
                forall phi, ev phi out == ev phi (path p s0 0%N).
  Proof.
    intros Ht s0 p H. unfold simulate.
    destruct (run_sem (fun _ => 0) Ht p (init_dict s0) 0%nat (init_keys s0) H) as [d' [n' [E [ND' _]]]].
    rewrite E. cbn [res_map fst]. eexists; split; [reflexivity|]. split; [now rewrite keys_finalize|].
    intros phi. destruct (run_sem phi Ht p (init_dict s0) 0%nat (init_keys s0) H) as [d2 [n2 [E2 [_ S]]]].
    rewrite E in E2; inversion E2; subst. rewrite S. unfold init_dict, contrib; cbn [branches flat_map map app qsum fst snd]. ring.
  Qed.

  Theorem simulate_pushforward : tol == 0 -> forall s0 (p : prog), existsb refusing p = false ->
    exists out, simulate apply p1 proj flipx tol s0 p = Ok out /\ NoDup (map fst out) /\
                forall k, lookup out k == lookup (path p s0 0%N) k.
  Proof.
    intros Ht s0 p H. destruct (simulate_expectation Ht s0 p H) as [out [E [ND S]]].
    exists out. repeat split; auto. intros k. now rewrite !lookup_ev.
  Qed.

  Lemma path_total (p : prog) : forall s k, ev (fun _ => 1) (path p s k) == 1.
  Proof.
    induction p as [|i r IH]; intros s k; [cbn; ring|].
    destruct i as [g qs|q c|q|qs| |]; cbn [path_law]; rewrite ?ev_app, ?ev_scale, ?IH; try reflexivity; ring.
  Qed.

  Theorem simulate_total : tol == 0 -> forall s0 (p : prog) out,
    simulate apply p1 proj flipx tol s0 p = Ok out -> total out == 1.
  Proof.
    intros Ht s0 p out E.
    destruct (existsb refusing p) eqn:H.
    - unfold simulate in E. rewrite (run_refuses p _ _ (init_keys s0) H) in E. discriminate.
    - destruct (simulate_expectation Ht s0 p H) as [out' [E' [_ S]]]. rewrite E in E'; inversion E'; subst.
      rewrite total_ev, S. apply path_total.
  Qed.

  Theorem simulate_refuses s0 (p : prog) :
    existsb refusing p = true -> simulate apply p1 proj flipx tol s0 p = Refused.
  Proof. intros H. unfold simulate. now rewrite (run_refuses p _ _ (init_keys s0) H). Qed.

  Theorem simulate_never_crashes s0 (p : prog) : simulate apply p1 proj flipx tol s0 p <> Crashed.
  Proof.
    unfold simulate. generalize (init_keys s0). generalize (init_dict s0), 0%nat.
    induction p as [|i r IH]; intros d n ND; [discriminate|].
    destruct i as [g qs|q c|q|qs| |]; cbn [Sim.run]; try discriminate.
    - apply IH. now rewrite keys_evolve.
    - destruct (step_ok q (N.shiftl 1 (N.of_nat c)) d ND) as [d' [E [ND' _]]]. rewrite E. now apply IH.
    - destruct (step_ok q 0%N d ND) as [d' [E [ND' _]]]. rewrite E. now apply IH.
    - now apply IH.
  Qed.
End SimP.

(* ------------------------------------------------------------------------------------------ *)
(* instruments whose p1 is a probability: truncation bound and support                          *)
(* ------------------------------------------------------------------------------------------ *)
Section SimBound.
  Variable gate : Type.
  Variable state : Type.
  Variable apply : gate -> list nat -> state -> state.
  Variable p1 : state -> nat -> Q.
  Variable proj : state -> nat -> bool -> state.
  Variable flipx : state -> nat -> state.
  Variable tol : Q.
  Hypothesis p1_range : forall s q, (0 <= p1 s q <= 1)%Q.
  Notation branch := (Sim.branch state).
  Notation dict := (Sim.dict state).
  Notation prog := (Sim.prog gate).
  Notation split := (split_branch p1 proj flipx tol).
  Notation step := (nonunitary_step p1 proj flipx tol).
  Notation run := (Sim.run apply p1 proj flipx tol).
  Open Scope Q_scope.

  Definition bprob (kb : N * branch) : Q := fst (snd kb).
  Definition mass (bs : list (N * branch)) : Q := qsum bprob bs.
  Definition qn (n : nat) : Q := inject_Z (Z.of_nat n).

  Lemma qn_add a b : qn (a + b) == qn a + qn b.
  Proof. unfold qn. now rewrite Nat2Z.inj_add, inject_Z_plus. Qed.

  Lemma isclose0_small p : 0 <= p -> isclose0 tol p = true -> p <= tol.
  Proof.
    intros Hp H. unfold isclose0 in H. apply Qle_bool_iff in H. now rewrite Qabs_pos in H.
  Qed.

  Lemma isclose0_pos p : 0 <= tol -> 0 <= p -> isclose0 tol p = false -> 0 < p.
  Proof.
    intros Ht Hp H. unfold isclose0 in H. destruct (Qlt_le_dec 0 p) as [L|L]; [assumption|].
    exfalso. assert (E : Qle_bool (Qabs p) tol = true); [|congruence].
    apply Qle_bool_iff. rewrite Qabs_pos by assumption. lra.
  Qed.

  (* one branch: what is kept is at most the parent's mass and misses at most tol per truncated child *)
  Lemma split_mass q kf k (b : branch) : 0 <= fst b <= 1 ->
    fst b - qn (pruned_here p1 tol q b) * tol <= mass (split q kf k b) <= fst b /\
    (forall kb, In kb (split q kf k b) -> 0 <= bprob kb).
  Proof.
    intros [Hb0 Hb1]. destruct (p1_range (snd b) q) as [Hp0 Hp1].
    unfold split_branch, pruned_here, mass. rewrite qsum_app.
    set (P := p1 (snd b) q) in *. set (pb := fst b) in *.
    assert (Hx0 : 0 <= pb * (1 - P)) by (apply Qmult_le_0_compat; lra).
    assert (Hx1 : 0 <= pb * P) by (apply Qmult_le_0_compat; lra).
    assert (Hy0 : pb * (1 - P) <= 1 - P).
    { setoid_replace (1 - P) with (1 * (1 - P)) at 2 by ring. apply Qmult_le_compat_r; lra. }
    assert (Hy1 : pb * P <= P).
    { setoid_replace P with (1 * P) at 2 by ring. apply Qmult_le_compat_r; lra. }
    assert (Hs : pb * (1 - P) + pb * P == pb) by ring.
    destruct (isclose0 tol (1 - P)) eqn:Z0, (isclose0 tol P) eqn:Z1; cbn [qsum bprob fst snd plus]; unfold qn; cbn [Z.of_nat Pos.of_succ_nat Pos.succ app]; unfold inject_Z;
      try (apply isclose0_small in Z0; [|lra]); try (apply isclose0_small in Z1; [|lra]).
    - split; [split; lra|intros kb []].
    - split; [split; lra|]. intros kb [E|[]]; subst; cbn [bprob fst snd]; assumption.
    - split; [split; lra|]. intros kb [E|[]]; subst; cbn [bprob fst snd]; assumption.
    - split; [split; lra|]. intros kb [E|[E|[]]]; subst; cbn [bprob fst snd]; assumption.
  Qed.

  Lemma pruned_count_sum q (d : dict) :
    qsum (fun kb => qn (pruned_here p1 tol q (snd kb))) (branches d) == qn (pruned_count p1 tol q d).
  Proof.
    induction d as [|[k l] r IH]; [reflexivity|].
    rewrite branches_cons, qsum_app, IH, qsum_map. cbn [pruned_count fold_right snd].
    fold (pruned_count p1 tol q r). rewrite qn_add. apply Qplus_comp; [|reflexivity].
    cbn [snd]. clear. induction l as [|b l IH]; [reflexivity|]. cbn [qsum fold_right]. now rewrite qn_add, IH.
  Qed.

  Lemma step_mass q kf (d d' : dict) : NoDup (keys d) -> step q kf d = Some d' ->
    (forall kb, In kb (branches d) -> 0 <= bprob kb) -> mass (branches d) <= 1 ->
    mass (branches d) - qn (pruned_count p1 tol q d) * tol <= mass (branches d') <= mass (branches d) /\
    (forall kb, In kb (branches d') -> 0 <= bprob kb).
  Proof.
    intros ND E Hpos Hm.
    destruct (step_ok _ p1 proj flipx tol q kf d ND) as [d1 [E1 [_ [P1 _]]]].
    rewrite E in E1; inversion E1; subst d1; clear E1.
    assert (Hb : forall kb, In kb (branches d) -> 0 <= fst (snd kb) <= 1).
    { intros kb HI. split; [now apply Hpos|]. apply Qle_trans with (mass (branches d)); [|assumption].
      apply (qsum_In_le bprob); assumption. }
    rewrite pending_insert_flat in P1. split.
    - assert (Hd' : mass (branches d') == qsum (fun kb => mass (split q kf (fst kb) (snd kb))) (branches d)).
      { unfold mass at 1. rewrite (qsum_perm _ _ _ P1), qsum_flat_map. reflexivity. }
      assert (Hlow : mass (branches d) - qn (pruned_count p1 tol q d) * tol ==
                     qsum (fun kb => bprob kb - qn (pruned_here p1 tol q (snd kb)) * tol) (branches d)).
      { rewrite (qsum_minus bprob (fun kb => qn (pruned_here p1 tol q (snd kb)) * tol)).
        rewrite (qsum_scal tol (fun kb => qn (pruned_here p1 tol q (snd kb)))), pruned_count_sum. reflexivity. }
      rewrite Hd', Hlow. split; apply qsum_le; intros kb HI;
        destruct (split_mass q kf (fst kb) (snd kb) (Hb kb HI)) as [[L U] _]; assumption.
    - intros kb HI. apply (Permutation_in _ P1) in HI. apply in_flat_map in HI as [kb0 [HI0 HI]].
      destruct (split_mass q kf (fst kb0) (snd kb0) (Hb kb0 HI0)) as [_ Hp]. now apply Hp.
  Qed.

  Lemma mass_evolve g qs (d : dict) : mass (branches (evolve apply g qs d)) = mass (branches d).
  Proof. unfold mass. rewrite branches_evolve, qsum_map. reflexivity. Qed.

  Lemma run_mass : 0 <= tol -> forall (p : prog) (d : dict) n d' n', NoDup (keys d) ->
    (forall kb, In kb (branches d) -> 0 <= bprob kb) -> mass (branches d) <= 1 ->
    run p d n = Ok (d', n') ->
    mass (branches d) + qn n * tol <= mass (branches d') + qn n' * tol /\ mass (branches d') <= mass (branches d).
  Proof.
    intros Ht. induction p as [|i r IH]; intros d n d' n' ND Hpos Hm E.
    - inversion E; subst. split; apply Qle_refl.
    - destruct i as [g qs|q c|q|qs| |]; cbn [Sim.run] in E; try discriminate.
      + apply IH in E; [| now rewrite keys_evolve | | now rewrite mass_evolve].
        * now rewrite mass_evolve in E.
        * intros kb HI. rewrite branches_evolve in HI. apply in_map_iff in HI as [kb0 [E0 HI]]. subst kb.
          cbn [bprob fst snd]. now apply Hpos.
      + destruct (step q (N.shiftl 1 (N.of_nat c)) d) as [d1|] eqn:E1; [|discriminate].
        destruct (step_ok _ p1 proj flipx tol q (N.shiftl 1 (N.of_nat c)) d ND) as [d1' [E1' [ND1 _]]]. rewrite E1 in E1'; inversion E1'; subst d1'.
        destruct (step_mass q (N.shiftl 1 (N.of_nat c)) d d1 ND E1 Hpos Hm) as [[L U] Hpos1].
        apply IH in E; auto; [|lra]. rewrite qn_add in E. lra.
      + destruct (step q 0%N d) as [d1|] eqn:E1; [|discriminate].
        destruct (step_ok _ p1 proj flipx tol q 0%N d ND) as [d1' [E1' [ND1 _]]]. rewrite E1 in E1'; inversion E1'; subst d1'.
        destruct (step_mass q 0%N d d1 ND E1 Hpos Hm) as [[L U] Hpos1].
        apply IH in E; auto; [|lra]. rewrite qn_add in E. lra.
      + now apply IH in E.
  Qed.

  Lemma total_finalize (d : dict) : total (finalize d) == mass (branches d).
  Proof.
    rewrite total_ev, (finalize_ev _ _ apply p1 proj flipx). apply qsum_ext; intros kb _.
    unfold contrib, bprob. cbn [path_law]. unfold ev; cbn [fold_right fst snd]. ring.
  Qed.

  Theorem simulate_pruned_bound : 0 <= tol -> forall s0 (p : prog) out n,
    simulate apply p1 proj flipx tol s0 p = Ok out -> pruned_total apply p1 proj flipx tol s0 p = Ok n ->
    1 - qn n * tol <= total out <= 1.
  Proof.
    intros Ht s0 p out n E En. unfold simulate, pruned_total in *.
    destruct (run p (init_dict s0) 0%nat) as [[d' n']| |] eqn:R; try discriminate.
    cbn [res_map fst snd] in *. inversion E; inversion En; subst. clear E En.
    assert (M0 : mass (branches (init_dict s0)) == 1) by (unfold mass, init_dict; cbn; ring).
    apply run_mass in R; auto.
    - rewrite total_finalize. destruct R as [L U]. rewrite M0 in *. unfold qn at 1 in L. cbn [Z.of_nat] in L. unfold inject_Z in L. split; lra.
    - apply init_keys.
    - intros kb [E|[]]; subst; cbn; lra.
    - rewrite M0. apply Qle_refl.
  Qed.

  (* ---- support: with tolerance 0 every reported outcome has positive probability ---- *)
  Definition posdict (d : dict) : Prop := forall kl, In kl d -> forall b, In b (snd kl) -> 0 < fst b.

  Lemma posdict_append (d : dict) k v : posdict d -> 0 < fst v -> posdict (dict_append d k v).
  Proof.
    induction d as [|[k' l] r IH]; intros Hd Hv; cbn [dict_append].
    - intros kl [E|[]] b Hb; subst; cbn [snd] in Hb. destruct Hb as [E|[]]; now subst.
    - assert (Hr : posdict r) by (intros kl HI; apply Hd; now right).
      destruct (N.eqb k k').
      + intros kl [E|HI] b Hb; [subst; cbn [snd] in Hb|now apply (Hr kl)].
        apply in_app_or in Hb as [Hb|[E|[]]]; [|now subst]. apply (Hd (k', l)); [now left|assumption].
      + intros kl [E|HI] b Hb; [subst; apply (Hd (k', l)); [now left|assumption]|].
        now apply (IH Hr Hv kl).
  Qed.

  Lemma posdict_inserts ins (d : dict) : posdict d -> (forall kv, In kv ins -> 0 < fst (snd kv)) ->
    posdict (apply_inserts ins d).
  Proof.
    revert d; induction ins as [|[k v] r IH]; intros d Hd Hi; cbn [apply_inserts]; [assumption|].
    apply IH; [apply posdict_append; [assumption|apply (Hi (k, v)); now left]|].
    intros kv HI; apply Hi; now right.
  Qed.

  Lemma posdict_branches (d : dict) kb : posdict d -> In kb (branches d) -> 0 < bprob kb.
  Proof.
    intros Hd HI. apply in_flat_map in HI as [kl [Hkl HI]]. apply in_map_iff in HI as [b [E Hb]]. subst kb.
    cbn [bprob fst snd]. now apply (Hd kl).
  Qed.

  Lemma split_pos q kf k (b : branch) : 0 <= tol -> 0 < fst b -> forall kv, In kv (split q kf k b) -> 0 < fst (snd kv).
  Proof.
    intros Ht Hb kv HI. destruct (p1_range (snd b) q) as [Hp0 Hp1]. unfold split_branch in HI.
    apply in_app_or in HI as [HI|HI].
    - destruct (isclose0 tol (1 - p1 (snd b) q)) eqn:Z; [destruct HI|]. destruct HI as [E|[]]; subst kv; cbn [fst snd].
      apply isclose0_pos in Z; [|assumption|lra]. now apply Qmult_lt_0_compat.
    - destruct (isclose0 tol (p1 (snd b) q)) eqn:Z; [destruct HI|]. destruct HI as [E|[]]; subst kv; cbn [fst snd].
      apply isclose0_pos in Z; [|assumption|lra]. now apply Qmult_lt_0_compat.
  Qed.

  Definition gooddict (d : dict) : Prop := posdict d /\ forall kl, In kl d -> snd kl <> [].

  Lemma step_good q kf (d d' : dict) : 0 <= tol -> NoDup (keys d) -> gooddict d -> step q kf d = Some d' -> gooddict d'.
  Proof.
    intros Ht ND [Hd _] E. destruct (step_ok _ p1 proj flipx tol q kf d ND) as [d1 [E1 [_ [_ [Hne Ed]]]]].
    rewrite E in E1. injection E1 as ->. split; [|assumption].
    rewrite Ed. intros kl HI. unfold cleanup in HI. apply filter_In in HI as [HI _]. revert kl HI.
    apply posdict_inserts.
    - intros kl HI b Hb. unfold emptied in HI. apply in_map_iff in HI as [kl0 [E0 _]]. subst kl. destruct Hb.
    - intros kv HI. rewrite pending_insert_flat in HI. apply in_flat_map in HI as [kb [Hkb HI]].
      apply (split_pos q kf (fst kb) (snd kb)); auto. now apply (posdict_branches d kb).
  Qed.

  Lemma evolve_good g qs (d : dict) : gooddict d -> gooddict (evolve apply g qs d).
  Proof.
    intros [Hd Hne]. split; intros kl HI; unfold evolve in HI; apply in_map_iff in HI as [kl0 [E HI]]; subst kl; cbn [snd].
    - intros b Hb. apply in_map_iff in Hb as [b0 [E Hb]]. subst b. cbn [fst]. now apply (Hd kl0).
    - specialize (Hne kl0 HI). destruct kl0 as [k0 l0]. cbn [snd] in *. destruct l0 as [|b0 l0]; [now exfalso; apply Hne|cbn [map]; discriminate].
  Qed.

  Lemma run_good : 0 <= tol -> forall (p : prog) (d : dict) n d' n', NoDup (keys d) -> gooddict d ->
    run p d n = Ok (d', n') -> gooddict d'.
  Proof.
    intros Ht. induction p as [|i r IH]; intros d n d' n' ND G E.
    - now inversion E; subst.
    - destruct i as [g qs|q c|q|qs| |]; cbn [Sim.run] in E; try discriminate.
      + apply IH in E; auto; [now rewrite keys_evolve|now apply evolve_good].
      + destruct (step q (N.shiftl 1 (N.of_nat c)) d) as [d1|] eqn:E1; [|discriminate].
        destruct (step_ok _ p1 proj flipx tol q (N.shiftl 1 (N.of_nat c)) d ND) as [d1' [E1' [ND1 _]]]. rewrite E1 in E1'; inversion E1'; subst d1'.
        apply IH in E; auto. now apply (step_good q (N.shiftl 1 (N.of_nat c)) d d1).
      + destruct (step q 0%N d) as [d1|] eqn:E1; [|discriminate].
        destruct (step_ok _ p1 proj flipx tol q 0%N d ND) as [d1' [E1' [ND1 _]]]. rewrite E1 in E1'; inversion E1'; subst d1'.
        apply IH in E; auto. now apply (step_good q 0%N d d1).
      + now apply IH in E.
  Qed.

  Lemma sum_probs_pos (l : list branch) : l <> [] -> (forall b, In b l -> 0 < fst b) -> 0 < sum_probs l.
  Proof.
    intros Hne Hp. rewrite (sum_probs_qsum _ l). destruct l as [|b l]; [congruence|]. cbn [qsum].
    assert (0 < fst b) by (apply Hp; now left).
    assert (0 <= qsum fst l) by (apply qsum_nonneg; intros x Hx; apply Qlt_le_weak, Hp; now right). lra.
  Qed.

  Theorem simulate_support : 0 <= tol -> forall s0 (p : prog) out,
    simulate apply p1 proj flipx tol s0 p = Ok out -> forall k pr, In (k, pr) out -> 0 < pr.
  Proof.
    intros Ht s0 p out E k pr HI. unfold simulate in E.
    destruct (run p (init_dict s0) 0%nat) as [[d' n']| |] eqn:R; try discriminate.
    cbn [res_map fst] in E. inversion E; subst; clear E.
    apply run_good in R; auto; [|apply init_keys|].
    - destruct R as [Hd Hne]. unfold finalize in HI. apply in_map_iff in HI as [kl [E HI]]. inversion E; subst.
      apply sum_probs_pos; [now apply Hne|now apply Hd].
    - split; intros kl [E|[]]; subst; cbn [snd]; [|discriminate]. intros b [E|[]]; subst; cbn; lra.
  Qed.

  (* ---- per-event / per-outcome truncation bound (any tolerance >= 0) ---- *)
  Notation path := (path_law apply p1 proj flipx).
  Notation ctr := (contrib gate state apply p1 proj flipx).

  Lemma mul01 a x : 0 <= a -> 0 <= x <= 1 -> 0 <= a * x <= a.
  Proof.
    intros Ha [H0 H1]. split; [now apply Qmult_le_0_compat|].
    setoid_replace a with (1 * a) at 2 by ring. rewrite (Qmult_comm a x). apply Qmult_le_compat_r; assumption.
  Qed.

  Lemma path_ev_range phi : (forall k, 0 <= phi k <= 1) -> forall (r : prog) s k, 0 <= ev phi (path r s k) <= 1.
  Proof.
    intros Hphi. induction r as [|i r IH]; intros s k.
    - cbn [path_law]. unfold ev; cbn [fold_right fst snd]. destruct (Hphi k). split; lra.
    - destruct i as [g qs|q c|q|qs| |]; cbn [path_law]; try apply IH.
      + rewrite ev_app, !ev_scale. destruct (p1_range s q) as [P0 P1].
        destruct (mul01 (1 - p1 s q) _ ltac:(lra) (IH (proj s q false) (N.clearbit k (N.of_nat c)))).
        destruct (mul01 (p1 s q) _ P0 (IH (proj s q true) (N.setbit k (N.of_nat c)))). split; lra.
      + rewrite ev_app, !ev_scale. destruct (p1_range s q) as [P0 P1].
        destruct (mul01 (1 - p1 s q) _ ltac:(lra) (IH (proj s q false) k)).
        destruct (mul01 (p1 s q) _ P0 (IH (flipx (proj s q true) q) k)). split; lra.
  Qed.

  Lemma split_event phi (r : prog) q kf k (b : branch) X0 X1 :
    0 <= fst b <= 1 -> 0 <= X0 <= 1 -> 0 <= X1 <= 1 ->
    ctr phi r (N.lxor k (N.land k kf), (fst b * (1 - p1 (snd b) q), proj (snd b) q false)) == fst b * ((1 - p1 (snd b) q) * X0) ->
    ctr phi r (N.lor k kf, (fst b * p1 (snd b) q,
                 if N.eqb kf 0 then flipx (proj (snd b) q true) q else proj (snd b) q true)) == fst b * (p1 (snd b) q * X1) ->
    fst b * ((1 - p1 (snd b) q) * X0 + p1 (snd b) q * X1) - qn (pruned_here p1 tol q b) * tol
      <= qsum (ctr phi r) (split q kf k b) <= fst b * ((1 - p1 (snd b) q) * X0 + p1 (snd b) q * X1).
  Proof.
    intros Hb HX0 HX1 H0 H1. destruct (p1_range (snd b) q) as [Hp0 Hp1].
    unfold split_branch, pruned_here. rewrite qsum_app.
    set (P := p1 (snd b) q) in *. set (pb := fst b) in *.
    destruct (mul01 (1 - P) X0 ltac:(lra) HX0) as [Y0a Y0b]. destruct (mul01 P X1 Hp0 HX1) as [Y1a Y1b].
    destruct (mul01 _ pb Y0a Hb) as [A0a A0b]. destruct (mul01 _ pb Y1a Hb) as [A1a A1b].
    assert (E0 : pb * ((1 - P) * X0) == (1 - P) * X0 * pb) by ring.
    assert (E1 : pb * (P * X1) == P * X1 * pb) by ring.
    assert (Es : pb * ((1 - P) * X0 + P * X1) == (1 - P) * X0 * pb + P * X1 * pb) by ring.
    set (A0 := (1 - P) * X0 * pb) in *. set (A1 := P * X1 * pb) in *.
    set (Y0 := (1 - P) * X0) in *. set (Y1 := P * X1) in *.
    rewrite Es.
    destruct (isclose0 tol (1 - P)) eqn:Z0, (isclose0 tol P) eqn:Z1; cbn [qsum plus]; unfold qn; cbn [Z.of_nat Pos.of_succ_nat Pos.succ]; unfold inject_Z;
      try (apply isclose0_small in Z0; [|lra]); try (apply isclose0_small in Z1; [|lra]);
      rewrite ?H0, ?H1, ?E0, ?E1; split; lra.
  Qed.

  Lemma split_event_measure phi (r : prog) q c kb : (forall k, 0 <= phi k <= 1) -> 0 <= bprob kb <= 1 ->
    ctr phi (PMeasure q c :: r) kb - qn (pruned_here p1 tol q (snd kb)) * tol
      <= qsum (ctr phi r) (split q (N.shiftl 1 (N.of_nat c)) (fst kb) (snd kb)) <= ctr phi (PMeasure q c :: r) kb.
  Proof.
    intros Hphi Hb. destruct kb as [k b]. cbn [fst snd]. unfold bprob in Hb; cbn [fst snd] in Hb.
    unfold contrib at 1 4. cbn [fst snd path_law]. rewrite ev_app, !ev_scale.
    apply split_event; auto; try apply path_ev_range; auto; unfold contrib; cbn [fst snd].
    - rewrite k0_clearbit. ring.
    - rewrite shiftl1_nonzero, k1_setbit. ring.
  Qed.

  Lemma split_event_reset phi (r : prog) q kb : (forall k, 0 <= phi k <= 1) -> 0 <= bprob kb <= 1 ->
    ctr phi (PReset q :: r) kb - qn (pruned_here p1 tol q (snd kb)) * tol
      <= qsum (ctr phi r) (split q 0%N (fst kb) (snd kb)) <= ctr phi (PReset q :: r) kb.
  Proof.
    intros Hphi Hb. destruct kb as [k b]. cbn [fst snd]. unfold bprob in Hb; cbn [fst snd] in Hb.
    unfold contrib at 1 4. cbn [fst snd path_law]. rewrite ev_app, !ev_scale.
    apply split_event; auto; try apply path_ev_range; auto; unfold contrib; cbn [fst snd].
    - rewrite k0_reset. ring.
    - rewrite k1_reset. cbn [N.eqb]. ring.
  Qed.

  Lemma step_event phi (r r' : prog) q kf (d d1 : dict) : NoDup (keys d) -> step q kf d = Some d1 ->
    (forall kb, In kb (branches d) -> 0 <= bprob kb) -> mass (branches d) <= 1 ->
    (forall kb, 0 <= bprob kb <= 1 ->
       ctr phi r' kb - qn (pruned_here p1 tol q (snd kb)) * tol
         <= qsum (ctr phi r) (split q kf (fst kb) (snd kb)) <= ctr phi r' kb) ->
    qsum (ctr phi r') (branches d) - qn (pruned_count p1 tol q d) * tol
      <= qsum (ctr phi r) (branches d1) <= qsum (ctr phi r') (branches d).
  Proof.
    intros ND E Hpos Hm Hsplit.
    destruct (step_ok _ p1 proj flipx tol q kf d ND) as [d1' [E1 [_ [P1 _]]]].
    rewrite E in E1; inversion E1; subst d1'; clear E1.
    assert (Hb : forall kb, In kb (branches d) -> 0 <= bprob kb <= 1).
    { intros kb HI. split; [now apply Hpos|]. apply Qle_trans with (mass (branches d)); [|assumption].
      apply (qsum_In_le bprob); assumption. }
    rewrite pending_insert_flat in P1.
    assert (Hd1 : qsum (ctr phi r) (branches d1) == qsum (fun kb => qsum (ctr phi r) (split q kf (fst kb) (snd kb))) (branches d)).
    { rewrite (qsum_perm _ _ _ P1), qsum_flat_map. reflexivity. }
    assert (Hlow : qsum (ctr phi r') (branches d) - qn (pruned_count p1 tol q d) * tol ==
                   qsum (fun kb => ctr phi r' kb - qn (pruned_here p1 tol q (snd kb)) * tol) (branches d)).
    { rewrite (qsum_minus (ctr phi r') (fun kb => qn (pruned_here p1 tol q (snd kb)) * tol)).
      rewrite (qsum_scal tol (fun kb => qn (pruned_here p1 tol q (snd kb)))), pruned_count_sum. reflexivity. }
    rewrite Hd1, Hlow. split; apply qsum_le; intros kb HI; destruct (Hsplit kb (Hb kb HI)); assumption.
  Qed.

  Lemma run_event phi : 0 <= tol -> (forall k, 0 <= phi k <= 1) -> forall (p : prog) (d : dict) n d' n', NoDup (keys d) ->
    (forall kb, In kb (branches d) -> 0 <= bprob kb) -> mass (branches d) <= 1 ->
    run p d n = Ok (d', n') ->
    qsum (ctr phi p) (branches d) + qn n * tol <= ev phi (finalize d') + qn n' * tol /\
    ev phi (finalize d') <= qsum (ctr phi p) (branches d).
  Proof.
    intros Ht Hphi. induction p as [|i r IH]; intros d n d' n' ND Hpos Hm E.
    - inversion E; subst. rewrite (finalize_ev _ _ apply p1 proj flipx). split; apply Qle_refl.
    - destruct i as [g qs|q c|q|qs| |]; cbn [Sim.run] in E; try discriminate.
      + apply IH in E; [| now rewrite keys_evolve | | now rewrite mass_evolve].
        * rewrite branches_evolve, qsum_map in E. exact E.
        * intros kb HI. rewrite branches_evolve in HI. apply in_map_iff in HI as [kb0 [E0 HI]]. subst kb.
          cbn [bprob fst snd]. now apply Hpos.
      + destruct (step q (N.shiftl 1 (N.of_nat c)) d) as [d1|] eqn:E1; [|discriminate].
        destruct (step_ok _ p1 proj flipx tol q (N.shiftl 1 (N.of_nat c)) d ND) as [d1' [E1' [ND1 _]]]. rewrite E1 in E1'; inversion E1'; subst d1'.
        destruct (step_mass q (N.shiftl 1 (N.of_nat c)) d d1 ND E1 Hpos Hm) as [[L U] Hpos1].
        destruct (step_event phi r (PMeasure q c :: r) q _ d d1 ND E1 Hpos Hm) as [L2 U2].
        { intros kb Hb. now apply split_event_measure. }
        apply IH in E; auto; [|lra]. rewrite qn_add in E. destruct E as [E3 E4]. split; lra.
      + destruct (step q 0%N d) as [d1|] eqn:E1; [|discriminate].
        destruct (step_ok _ p1 proj flipx tol q 0%N d ND) as [d1' [E1' [ND1 _]]]. rewrite E1 in E1'; inversion E1'; subst d1'.
        destruct (step_mass q 0%N d d1 ND E1 Hpos Hm) as [[L U] Hpos1].
        destruct (step_event phi r (PReset q :: r) q _ d d1 ND E1 Hpos Hm) as [L2 U2].
        { intros kb Hb. now apply split_event_reset. }
        apply IH in E; auto; [|lra]. rewrite qn_add in E. destruct E as [E3 E4]. split; lra.
      + now apply IH in E.
  Qed.

  Theorem simulate_event_bound : 0 <= tol -> forall phi, (forall k, 0 <= phi k <= 1) -> forall s0 (p : prog) out n,
    simulate apply p1 proj flipx tol s0 p = Ok out -> pruned_total apply p1 proj flipx tol s0 p = Ok n ->
    ev phi (path p s0 0%N) - qn n * tol <= ev phi out <= ev phi (path p s0 0%N).
  Proof.
    intros Ht phi Hphi s0 p out n E En. unfold simulate, pruned_total in *.
    destruct (run p (init_dict s0) 0%nat) as [[d' n']| |] eqn:R; try discriminate.
    cbn [res_map fst snd] in *. inversion E; inversion En; subst. clear E En.
    assert (M0 : mass (branches (init_dict s0)) == 1) by (unfold mass, init_dict; cbn; ring).
    apply (run_event phi Ht Hphi) in R.
    - assert (C0 : qsum (ctr phi p) (branches (init_dict s0)) == ev phi (path p s0 0%N)).
      { unfold init_dict, contrib; cbn [branches flat_map map app qsum fst snd]. ring. }
      destruct R as [L U]. rewrite C0 in *. unfold qn at 1 in L. cbn [Z.of_nat] in L. unfold inject_Z in L. split; lra.
    - apply init_keys.
    - intros kb [E|[]]; subst; cbn; lra.
    - rewrite M0. apply Qle_refl.
  Qed.

  Lemma indic_range k k' : 0 <= indic k k' <= 1.
  Proof. unfold indic. destruct (N.eqb k' k); split; lra. Qed.

  Theorem simulate_outcome_bound : 0 <= tol -> forall s0 (p : prog) out n,
    simulate apply p1 proj flipx tol s0 p = Ok out -> pruned_total apply p1 proj flipx tol s0 p = Ok n ->
    forall k, lookup (path p s0 0%N) k - qn n * tol <= lookup out k <= lookup (path p s0 0%N) k.
  Proof.
    intros Ht s0 p out n E En k. rewrite !lookup_ev.
    apply (simulate_event_bound Ht (indic k) (indic_range k) s0 p out n E En).
  Qed.

  (* ---- the same bounds with an A-PRIORI loss: at most 2 * tol per measure/reset instruction ----
     (each live branch loses at most 2 * tol * its weight at a step, and the live weights sum to <= 1) *)
  Lemma split_event2 phi (r : prog) q kf k (b : branch) X0 X1 : 0 <= tol ->
    0 <= fst b <= 1 -> 0 <= X0 <= 1 -> 0 <= X1 <= 1 ->
    ctr phi r (N.lxor k (N.land k kf), (fst b * (1 - p1 (snd b) q), proj (snd b) q false)) == fst b * ((1 - p1 (snd b) q) * X0) ->
    ctr phi r (N.lor k kf, (fst b * p1 (snd b) q,
                 if N.eqb kf 0 then flipx (proj (snd b) q true) q else proj (snd b) q true)) == fst b * (p1 (snd b) q * X1) ->
    fst b * ((1 - p1 (snd b) q) * X0 + p1 (snd b) q * X1) - (2 # 1) * tol * fst b
      <= qsum (ctr phi r) (split q kf k b) <= fst b * ((1 - p1 (snd b) q) * X0 + p1 (snd b) q * X1).
  Proof.
    intros Ht Hb HX0 HX1 H0 H1. destruct (p1_range (snd b) q) as [Hp0 Hp1].
    unfold split_branch. rewrite qsum_app.
    set (P := p1 (snd b) q) in *. set (pb := fst b) in *.
    destruct (mul01 (1 - P) X0 ltac:(lra) HX0) as [Y0a Y0b]. destruct (mul01 P X1 Hp0 HX1) as [Y1a Y1b].
    destruct (mul01 _ pb Y0a Hb) as [A0a A0b]. destruct (mul01 _ pb Y1a Hb) as [A1a A1b].
    assert (E0 : pb * ((1 - P) * X0) == (1 - P) * X0 * pb) by ring.
    assert (E1 : pb * (P * X1) == P * X1 * pb) by ring.
    assert (Es : pb * ((1 - P) * X0 + P * X1) == (1 - P) * X0 * pb + P * X1 * pb) by ring.
    assert (Tn : 0 <= tol * pb) by (apply Qmult_le_0_compat; lra).
    assert (T0 : 1 - P <= tol -> (1 - P) * X0 * pb <= tol * pb) by (intros; apply Qmult_le_compat_r; lra).
    assert (T1 : P <= tol -> P * X1 * pb <= tol * pb) by (intros; apply Qmult_le_compat_r; lra).
    set (A0 := (1 - P) * X0 * pb) in *. set (A1 := P * X1 * pb) in *.
    set (Y0 := (1 - P) * X0) in *. set (Y1 := P * X1) in *. set (TP := tol * pb) in *.
    assert (ET : (2 # 1) * tol * pb == (2 # 1) * TP) by (unfold TP; ring).
    rewrite Es, ET.
    destruct (isclose0 tol (1 - P)) eqn:Z0, (isclose0 tol P) eqn:Z1; cbn [qsum];
      try (apply isclose0_small in Z0; [specialize (T0 Z0)|lra]); try (apply isclose0_small in Z1; [specialize (T1 Z1)|lra]);
      rewrite ?H0, ?H1, ?E0, ?E1; split; lra.
  Qed.

  Lemma split_event_measure2 phi (r : prog) q c kb : 0 <= tol -> (forall k, 0 <= phi k <= 1) -> 0 <= bprob kb <= 1 ->
    ctr phi (PMeasure q c :: r) kb - (2 # 1) * tol * bprob kb
      <= qsum (ctr phi r) (split q (N.shiftl 1 (N.of_nat c)) (fst kb) (snd kb)) <= ctr phi (PMeasure q c :: r) kb.
  Proof.
    intros Ht Hphi Hb. destruct kb as [k b]. cbn [fst snd]. unfold bprob in *; cbn [fst snd] in *.
    unfold contrib at 1 4. cbn [fst snd path_law]. rewrite ev_app, !ev_scale.
    apply split_event2; auto; try apply path_ev_range; auto; unfold contrib; cbn [fst snd].
    - rewrite k0_clearbit. ring.
    - rewrite shiftl1_nonzero, k1_setbit. ring.
  Qed.

  Lemma split_event_reset2 phi (r : prog) q kb : 0 <= tol -> (forall k, 0 <= phi k <= 1) -> 0 <= bprob kb <= 1 ->
    ctr phi (PReset q :: r) kb - (2 # 1) * tol * bprob kb
      <= qsum (ctr phi r) (split q 0%N (fst kb) (snd kb)) <= ctr phi (PReset q :: r) kb.
  Proof.
    intros Ht Hphi Hb. destruct kb as [k b]. cbn [fst snd]. unfold bprob in *; cbn [fst snd] in *.
    unfold contrib at 1 4. cbn [fst snd path_law]. rewrite ev_app, !ev_scale.
    apply split_event2; auto; try apply path_ev_range; auto; unfold contrib; cbn [fst snd].
    - rewrite k0_reset. ring.
    - rewrite k1_reset. cbn [N.eqb]. ring.
  Qed.

  Lemma step_event2 phi (r r' : prog) q kf (d d1 : dict) : 0 <= tol -> NoDup (keys d) -> step q kf d = Some d1 ->
    (forall kb, In kb (branches d) -> 0 <= bprob kb) -> mass (branches d) <= 1 ->
    (forall kb, 0 <= bprob kb <= 1 ->
       ctr phi r' kb - (2 # 1) * tol * bprob kb <= qsum (ctr phi r) (split q kf (fst kb) (snd kb)) <= ctr phi r' kb) ->
    qsum (ctr phi r') (branches d) - (2 # 1) * tol <= qsum (ctr phi r) (branches d1) <= qsum (ctr phi r') (branches d).
  Proof.
    intros Ht ND E Hpos Hm Hsplit.
    destruct (step_ok _ p1 proj flipx tol q kf d ND) as [d1' [E1 [_ [P1 _]]]].
    rewrite E in E1; inversion E1; subst d1'; clear E1.
    assert (Hb : forall kb, In kb (branches d) -> 0 <= bprob kb <= 1).
    { intros kb HI. split; [now apply Hpos|]. apply Qle_trans with (mass (branches d)); [|assumption].
      apply (qsum_In_le bprob); assumption. }
    rewrite pending_insert_flat in P1.
    assert (Hd1 : qsum (ctr phi r) (branches d1) == qsum (fun kb => qsum (ctr phi r) (split q kf (fst kb) (snd kb))) (branches d)).
    { rewrite (qsum_perm _ _ _ P1), qsum_flat_map. reflexivity. }
    assert (Hlow : qsum (ctr phi r') (branches d) - (2 # 1) * tol * mass (branches d) ==
                   qsum (fun kb => ctr phi r' kb - (2 # 1) * tol * bprob kb) (branches d)).
    { rewrite (qsum_minus (ctr phi r') (fun kb => (2 # 1) * tol * bprob kb)).
      assert (X : qsum (fun kb => (2 # 1) * tol * bprob kb) (branches d) == mass (branches d) * ((2 # 1) * tol)).
      { unfold mass. rewrite <- (qsum_scal ((2 # 1) * tol) bprob). apply qsum_ext; intros; ring. }
      rewrite X. ring. }
    assert (M0 : 0 <= mass (branches d)) by (apply qsum_nonneg; assumption).
    assert (TM : tol * mass (branches d) <= tol).
    { setoid_replace tol with (tol * 1) at 2 by ring. rewrite !(Qmult_comm tol). apply Qmult_le_compat_r; assumption. }
    rewrite Hd1. split.
    - apply Qle_trans with (qsum (ctr phi r') (branches d) - (2 # 1) * tol * mass (branches d)); [lra|].
      rewrite Hlow. apply qsum_le; intros kb HI. destruct (Hsplit kb (Hb kb HI)); assumption.
    - apply qsum_le; intros kb HI. destruct (Hsplit kb (Hb kb HI)); assumption.
  Qed.

  Lemma qn_S n : qn (S n) == qn n + 1.
  Proof. unfold qn. rewrite Nat2Z.inj_succ. unfold Z.succ. rewrite inject_Z_plus. reflexivity. Qed.

  Lemma run_event2 phi : 0 <= tol -> (forall k, 0 <= phi k <= 1) -> forall (p : prog) (d : dict) n d' n', NoDup (keys d) ->
    (forall kb, In kb (branches d) -> 0 <= bprob kb) -> mass (branches d) <= 1 ->
    run p d n = Ok (d', n') ->
    qsum (ctr phi p) (branches d) - (2 # 1) * qn (count_nonunitary p) * tol <= ev phi (finalize d') <= qsum (ctr phi p) (branches d).
  Proof.
    intros Ht Hphi. induction p as [|i r IH]; intros d n d' n' ND Hpos Hm E.
    - inversion E; subst. rewrite (finalize_ev _ _ apply p1 proj flipx). cbn [count_nonunitary]. unfold qn; cbn [Z.of_nat]; unfold inject_Z. split; lra.
    - destruct i as [g qs|q c|q|qs| |]; cbn [Sim.run] in E; try discriminate; cbn [count_nonunitary].
      + apply IH in E; [| now rewrite keys_evolve | | now rewrite mass_evolve].
        * rewrite branches_evolve, qsum_map in E. exact E.
        * intros kb HI. rewrite branches_evolve in HI. apply in_map_iff in HI as [kb0 [E0 HI]]. subst kb.
          cbn [bprob fst snd]. now apply Hpos.
      + destruct (step q (N.shiftl 1 (N.of_nat c)) d) as [d1|] eqn:E1; [|discriminate].
        destruct (step_ok _ p1 proj flipx tol q (N.shiftl 1 (N.of_nat c)) d ND) as [d1' [E1' [ND1 _]]]. rewrite E1 in E1'; inversion E1'; subst d1'.
        destruct (step_mass q (N.shiftl 1 (N.of_nat c)) d d1 ND E1 Hpos Hm) as [[L U] Hpos1].
        destruct (step_event2 phi r (PMeasure q c :: r) q _ d d1 Ht ND E1 Hpos Hm) as [L2 U2].
        { intros kb Hb. now apply split_event_measure2. }
        apply IH in E; auto; [|lra]. rewrite qn_S. destruct E as [E3 E4]. split; lra.
      + destruct (step q 0%N d) as [d1|] eqn:E1; [|discriminate].
        destruct (step_ok _ p1 proj flipx tol q 0%N d ND) as [d1' [E1' [ND1 _]]]. rewrite E1 in E1'; inversion E1'; subst d1'.
        destruct (step_mass q 0%N d d1 ND E1 Hpos Hm) as [[L U] Hpos1].
        destruct (step_event2 phi r (PReset q :: r) q _ d d1 Ht ND E1 Hpos Hm) as [L2 U2].
        { intros kb Hb. now apply split_event_reset2. }
        apply IH in E; auto; [|lra]. rewrite qn_S. destruct E as [E3 E4]. split; lra.
      + now apply IH in E.
  Qed.

  (* no ghost counter: the loss of any event is at most 2 * (#measure + #reset) * tol *)
  Theorem simulate_event_bound_static : 0 <= tol -> forall phi, (forall k, 0 <= phi k <= 1) -> forall s0 (p : prog) out,
    simulate apply p1 proj flipx tol s0 p = Ok out ->
    ev phi (path p s0 0%N) - (2 # 1) * qn (count_nonunitary p) * tol <= ev phi out <= ev phi (path p s0 0%N).
  Proof.
    intros Ht phi Hphi s0 p out E. unfold simulate in *.
    destruct (run p (init_dict s0) 0%nat) as [[d' n']| |] eqn:R; try discriminate.
    cbn [res_map fst snd] in *. inversion E; subst. clear E.
    assert (M0 : mass (branches (init_dict s0)) == 1) by (unfold mass, init_dict; cbn; ring).
    apply (run_event2 phi Ht Hphi) in R.
    - assert (C0 : qsum (ctr phi p) (branches (init_dict s0)) == ev phi (path p s0 0%N)).
      { unfold init_dict, contrib; cbn [branches flat_map map app qsum fst snd]. ring. }
      rewrite C0 in R. exact R.
    - apply init_keys.
    - intros kb [E|[]]; subst; cbn; lra.
    - rewrite M0. apply Qle_refl.
  Qed.

  Theorem simulate_outcome_bound_static : 0 <= tol -> forall s0 (p : prog) out,
    simulate apply p1 proj flipx tol s0 p = Ok out ->
    forall k, lookup (path p s0 0%N) k - (2 # 1) * qn (count_nonunitary p) * tol <= lookup out k <= lookup (path p s0 0%N) k.
  Proof.
    intros Ht s0 p out E k. rewrite !lookup_ev.
    apply (simulate_event_bound_static Ht (indic k) (indic_range k) s0 p out E).
  Qed.

  Theorem simulate_total_bound_static : 0 <= tol -> forall s0 (p : prog) out,
    simulate apply p1 proj flipx tol s0 p = Ok out ->
    1 - (2 # 1) * qn (count_nonunitary p) * tol <= total out <= 1.
  Proof.
    intros Ht s0 p out E. rewrite total_ev.
    assert (H1 : forall k : N, 0 <= (fun _ : N => 1) k <= 1) by (intros; split; lra).
    pose proof (simulate_event_bound_static Ht (fun _ => 1) H1 s0 p out E) as B.
    rewrite (path_total _ _ apply p1 proj flipx) in B. exact B.
  Qed.
End SimBound.

(* ------------------------------------------------------------------------------------------ *)
(* the QSim instance satisfies the only hypothesis                                              *)
(* ------------------------------------------------------------------------------------------ *)
Lemma clamp01_range x : (0 <= clamp01 x <= 1)%Q.
Proof.
  unfold clamp01. destruct (Qle_bool x 0) eqn:A; [split; lra|].
  destruct (Qle_bool 1 x) eqn:B; [split; lra|].
  assert (~ (x <= 0)%Q) by (intros H; apply Qle_bool_iff in H; congruence).
  assert (~ (1 <= x)%Q) by (intros H'; apply Qle_bool_iff in H'; congruence).
  split; lra.
Qed.

Lemma qp1_range : forall s q, (0 <= qp1 s q <= 1)%Q.
Proof. intros; apply clamp01_range. Qed.

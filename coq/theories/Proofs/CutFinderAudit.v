(* Proofs/CutFinderAudit.v — correction round after the proof audit:
   render_injective (the plan is determined by the output), one bundled correctness statement with ONE plan,
   classical bits are always refused, the W >= 1 premise is redundant, and the index-range facts of every state the
   search can reach (so that the totalised lookups nth/upd of the model never use their defaults). *)
From Coq Require Import QArith Relations Lia.
From CKT Require Import Model.CutFinder Proofs.UFP Proofs.ConnP Proofs.CutFinderSpec Proofs.CutFinderInv
  Proofs.CutFinderPlan Proofs.CutFinderSearchP Proofs.CutFinderOut Proofs.CutFinderCirc Proofs.CutFinderRender
  Proofs.CutFinderP Proofs.CutFinderFail Proofs.CutFinderFuel Proofs.CutFinderTotal Proofs.CutFinderExt.
Close Scope Q_scope.

(* ---------------- the plan can be read off the output ---------------- *)
Definition decode_kind (l : circ) (i : instr) : ckind :=
  match l with
  | x :: rest =>
      if is_cut_wire x then
        match rest with
        | y :: _ => if is_cut_wire y then KBothCut
                    else if Nat.eqb (nth 0 (iqs x) 0) (nth 0 (iqs i) 0) then KLeftCut else KRightCut
        | [] => KLeftCut
        end
      else if is_qpd2 x then KGateCut else Leave
  | [] => Leave
  end.

(* what plan_permitted says about one position *)
Definition kind_ok (t : gtab) (kd : ckind) (i : instr) : Prop :=
  kd <> Leave -> is_multi i = true /\ length (iqs i) = 2 /\ (kd = KGateCut -> kappa_of t i <> None).

Lemma decode_render t kd i tail :
  gtab_ok t -> plain_instr i = true -> (is_multi i = true -> NoDup (iqs i)) -> kind_ok t kd i ->
  decode_kind (render_instr t kd i ++ tail) i = kd.
Proof.
  intros Htab Hpl Hnd Hok.
  assert (Hnc : is_cut_wire i = false /\ is_qpd2 i = false).
  { unfold plain_instr in Hpl. unfold is_cut_wire, is_qpd2. destruct (iop i); try discriminate; auto. }
  destruct Hnc as [Hnc Hnq].
  destruct kd; cbn [render_instr app decode_kind].
  - now rewrite Hnc, Hnq.
  - destruct Hok as (_ & L2 & Hk); [discriminate|]. specialize (Hk eq_refl).
    unfold kappa_of, op_gamma in Hk. unfold wrap_op.
    destruct (iop i) as [g0| | | | | | | |] eqn:Eop; try congruence.
    destruct (Nat.eqb (length (iqs i)) 2); [|congruence].
    destruct (glookup g0 t) as [[kap o]|] eqn:Elk; [|simpl in Hk; congruence].
    pose proof (Htab _ _ _ Elk) as Hq. unfold is_cut_wire, is_qpd2. cbn [iop]. destruct o; try discriminate. reflexivity.
  - cbn [is_cut_wire cut_wire_instr iop iqs nth]. rewrite Hnc, Nat.eqb_refl. reflexivity.
  - destruct Hok as (Hm & L2 & _); [discriminate|]. specialize (Hnd Hm).
    cbn [is_cut_wire cut_wire_instr iop iqs nth]. rewrite Hnc.
    destruct (iqs i) as [|a [|b [|? ?]]]; simpl in L2; try lia. cbn [nth].
    destruct (Nat.eqb_spec b a) as [->|]; [|reflexivity].
    inversion Hnd as [|? ? Hn _]. exfalso; apply Hn; now left.
  - cbn [is_cut_wire cut_wire_instr iop]. reflexivity.
Qed.

Lemma render_instr_length t kd i : length (render_instr t kd i) = nmark kd + 1.
Proof. destruct kd; reflexivity. Qed.

Lemma render_from_inj t p p' : gtab_ok t -> forall c k0,
  (forall i, In i c -> plain_instr i = true /\ (is_multi i = true -> NoDup (iqs i))) ->
  (forall j i, nth_error c j = Some i -> kind_ok t (p (k0 + j)) i /\ kind_ok t (p' (k0 + j)) i) ->
  render_from t p k0 c = render_from t p' k0 c ->
  forall j, j < length c -> p (k0 + j) = p' (k0 + j).
Proof.
  intros Htab. induction c as [|i r IH]; intros k0 Hc Hk Heq j Hj; [simpl in Hj; lia|].
  cbn [render_from] in Heq.
  destruct (Hc i (or_introl eq_refl)) as [Hpl Hnd].
  destruct (Hk 0 i eq_refl) as [K1 K2]. rewrite Nat.add_0_r in K1, K2.
  assert (E0 : p k0 = p' k0).
  { rewrite <- (decode_render t (p k0) i (render_from t p (S k0) r) Htab Hpl Hnd K1).
    rewrite Heq. apply (decode_render t (p' k0) i _ Htab Hpl Hnd K2). }
  destruct j as [|j]; [now rewrite Nat.add_0_r|].
  rewrite E0 in Heq. apply app_inv_head in Heq.
  replace (k0 + S j) with (S k0 + j) by lia. apply (IH (S k0)); auto.
  - intros x Hx. apply Hc. now right.
  - intros j' x Hx. replace (S k0 + j') with (k0 + S j') by lia. apply (Hk (S j') x Hx).
  - simpl in Hj. lia.
Qed.

Lemma permitted_kind_ok t gl wl c p k i : plan_permitted t gl wl c p -> nth_error c k = Some i -> kind_ok t (p k) i.
Proof.
  intros Hp Hi Hne. destruct (Hp k Hne) as (x & Hx & Hm & L2 & Hk). rewrite Hi in Hx. inversion Hx; subst x.
  split; [exact Hm|]. split; [exact L2|]. intros E. rewrite E in Hk. tauto.
Qed.

Theorem render_injective t gl wl c p p' :
  circ_wf c -> circ_plain c -> gtab_ok t ->
  plan_permitted t gl wl c p -> plan_permitted t gl wl c p' ->
  render t p c = render t p' c -> forall k, p k = p' k.
Proof.
  intros WFc Hpl Htab Hp Hp' Heq k.
  destruct (Nat.lt_ge_cases k (length c)) as [Hlt|Hge].
  - apply (render_from_inj t p p' Htab c 0); auto.
    + intros i Hi. split; [now apply Hpl|]. intros Hm. now apply (WFc i Hi Hm).
    + intros j i Hi. cbn [Nat.add]. split; eapply permitted_kind_ok; eauto.
  - assert (N : forall q, plan_permitted t gl wl c q -> q k = Leave).
    { intros q Hq. destruct (q k) eqn:E; [reflexivity| | | |];
        (destruct (Hq k) as (x & Hx & _); [congruence|]; apply nth_error_None in Hge; congruence). }
    now rewrite (N p Hp), (N p' Hp').
Qed.

(* ---------------- ONE plan for all clauses ---------------- *)
Lemma plan_overhead_from_ext t p p' : forall c k, (forall j, k <= j -> p j = p' j) ->
  plan_overhead_from t p k c = plan_overhead_from t p' k c.
Proof.
  induction c as [|i r IH]; intros k H; simpl; [reflexivity|].
  rewrite (H k) by lia. f_equal. apply IH. intros j Hj; apply H; lia.
Qed.

Theorem correct_bundle fuel i r :
  find_cuts_full fuel i = Val r ->
  let t := fi_gtab i in let c := fi_circ i in
  circ_wf c -> circ_plain c -> gtab_ok t ->
  exists p : plan,
    (* only markers *)
    fr_circ r = render t p c /\ plan_permitted t (fi_gate_lo i) (fi_wire_lo i) c p /\
    (* the plan is THE plan: any permitted plan with the same rendering agrees with it everywhere *)
    (forall p', plan_permitted t (fi_gate_lo i) (fi_wire_lo i) c p' -> fr_circ r = render t p' c -> forall k, p' k = p k) /\
    (* accounting *)
    (md_overhead (fr_meta r) == plan_overhead t p c)%Q /\
    (* feasibility *)
    feasible (fi_W i) (fr_circ r) /\
    (* positions and metadata *)
    (forall k x, nth_error c k = Some x ->
       let o := k + offset p 0 k in
       nth_error (fr_circ r) (o + nmark (p k)) = Some (placed t (p k) x) /\
       (p k = KGateCut -> In (GateCut, o) (md_cuts (fr_meta r))) /\
       (forall m, m < nmark (p k) ->
          nth_error (fr_circ r) (o + m) = Some (cut_wire_instr (marker_qubit (p k) x m)) /\
          In (WireCut, o + m) (md_cuts (fr_meta r)))) /\
    (forall kd pos, In (kd, pos) (md_cuts (fr_meta r)) ->
       exists k x, nth_error c k = Some x /\
         ((kd = GateCut /\ p k = KGateCut /\ pos = k + offset p 0 k) \/
          (kd = WireCut /\ exists m, m < nmark (p k) /\ pos = k + offset p 0 k + m))).
Proof.
  intros H t c WFc Hpl Htab.
  destruct (find_cuts_correct fuel i r H WFc) as (p1 & Hc1 & Hp1 & _ & Hov & Hfe). fold t c in Hc1, Hp1, Hov, Hfe.
  destruct (cut_positions fuel i r H WFc Hpl Htab) as (p & Hc & Hp & Hpos & Hall). fold t c in Hc, Hp, Hpos, Hall.
  assert (E : forall k, p1 k = p k).
  { apply (render_injective t _ _ c p1 p WFc Hpl Htab Hp1 Hp). now rewrite <- Hc1, <- Hc. }
  exists p. split; [exact Hc|]. split; [exact Hp|]. split; [|split; [|split; [exact (Hfe Hpl Htab)|split; [exact Hpos|exact Hall]]]].
  - intros p' Hp' Hc'. apply (render_injective t _ _ c p' p WFc Hpl Htab Hp' Hp). now rewrite <- Hc', <- Hc.
  - rewrite Hov. unfold plan_overhead. rewrite (plan_overhead_from_ext t p1 p c 0); [reflexivity|]. intros j _. apply E.
Qed.

(* ---------------- classical bits: always refused ---------------- *)
Theorem clbits_not_val fuel i r : fi_ncl i <> 0 -> find_cuts_full fuel i <> Val r.
Proof.
  intros Hn H. unfold find_cuts_full in H.
  destruct (Nat.ltb (fi_W i) 1); [discriminate|]. destruct (negb (settings_ok i)); [discriminate|].
  destruct (optimize _ _ _ _ _ _) as [ro| | |]; cbn [obind] in H; try discriminate.
  destruct (or_best ro); [|discriminate].
  destruct (export_cuts _ _); cbn [obind] in H; try discriminate.
  destruct (Nat.eqb_spec (fi_ncl i) 0) as [E|_]; [contradiction|]. cbn [negb obind] in H. discriminate.
Qed.

Theorem clbits_refused fuel i :
  fi_ncl i <> 0 -> circ_wf (fi_circ i) -> fuel_bound (length (fi_circ i)) <= fuel -> find_cuts_full fuel i = Ref.
Proof.
  intros Hn WFc Hf. destruct (find_cuts_full fuel i) as [r| | |] eqn:E; [|reflexivity| |].
  - exfalso. exact (clbits_not_val fuel i r Hn E).
  - exfalso. exact (find_cuts_never_crashes fuel i WFc E).
  - exfalso. exact (find_cuts_enough_fuel fuel i WFc Hf E).
Qed.

(* ---------------- W >= 1 is not needed ---------------- *)
Lemma feasible_zero c : ~ feasible 0 c.
Proof.
  intros H. specialize (H [(0, 0)]). assert (1 <= 0); [|lia]. apply H.
  - repeat constructor. intros [].
  - intros a b [<-|[]] [<-|[]]. apply rst_refl.
Qed.

Theorem fails_only_if_infeasible' fuel i :
  find_cuts_full fuel i = Ref ->
  let t := fi_gtab i in let c := fi_circ i in
  circ_wf c -> circ_plain c ->
  (forall x, In x c -> is_multi x = true -> kappa_of t x <> None) ->
  fi_ncl i = 0 -> settings_ok i = true ->
  forall p, plan_permitted t (fi_gate_lo i) (fi_wire_lo i) c p -> ~ feasible (fi_W i) (render t p c).
Proof.
  intros H t c WFc Hpl Hsup Hncl Hset p Hp.
  destruct (Nat.lt_ge_cases (fi_W i) 1) as [Hlt|HW].
  - assert (fi_W i = 0) as -> by lia. apply feasible_zero.
  - exact (fails_only_if_infeasible fuel i H WFc Hpl Hsup Hncl HW Hset p Hp).
Qed.

Theorem succeeds_when_feasible' fuel i :
  let t := fi_gtab i in let c := fi_circ i in
  circ_wf c -> circ_plain c ->
  (forall x, In x c -> is_multi x = true -> kappa_of t x <> None) ->
  fi_ncl i = 0 -> settings_ok i = true ->
  fuel_bound (length c) <= fuel ->
  (exists p, plan_permitted t (fi_gate_lo i) (fi_wire_lo i) c p /\ feasible (fi_W i) (render t p c)) ->
  exists r, find_cuts_full fuel i = Val r.
Proof.
  intros t c WFc Hpl Hsup Hncl Hset Hf (p & Hp & Hfe).
  destruct (Nat.lt_ge_cases (fi_W i) 1) as [Hlt|HW].
  - exfalso. assert (E : fi_W i = 0) by lia. rewrite E in Hfe. exact (feasible_zero _ Hfe).
  - apply succeeds_when_feasible; auto. eauto.
Qed.

(* ---------------- index ranges in every reachable search state ---------------- *)
(* states obtainable from s0 by the search's only expansion step, cut_optimization_next_state_func *)
Inductive Reach (fa : fargs) (s0 : dstate) : dstate -> Prop :=
| reach_refl : Reach fa s0 s0
| reach_step s1 s2 l : Reach fa s0 s1 -> goal_state fa s1 = false -> next_states fa s1 = Val l -> In s2 l ->
                       Reach fa s0 s2.

(* every list access of the actions / of find_wire_root / of merge_roots / of new_wire is inside its list *)
Record in_range (nq : nat) (gates : list gate_spec) (s : dstate) : Prop := {
  ir_wiremap : length (wiremap s) = nq ;
  ir_wires : forall q, q < nq -> get_wire s q < num_wires s ;
  ir_nw : num_wires s <= length (uptree s) ;
  ir_width : length (width s) = length (uptree s) ;
  ir_parent : forall w, w < length (uptree s) -> parent (uptree s) w <= w ;
  ir_roots : forall w, w < num_wires s -> find (uptree s) w < num_wires s ;
  ir_level : level s <= length gates ;
  ir_gate : forall g, nth_error gates (level s) = Some g ->
              length (g_qubits g) = 2 /\ q1_of g < nq /\ q2_of g < nq /\ q1_of g <> q2_of g ;
  ir_nomerge : forall a b, In (a, b) (no_merge s) -> a < num_wires s /\ b < num_wires s ;
  ir_args : Forall args_ok (actions s)
}.

Lemma in_range_of_Inv names W gates acts M s pl :
  (forall g, In g gates -> gate_wf names g) ->
  Inv names W gates acts M s pl -> in_range (length names) gates s.
Proof.
  intros Hg I. pose proof (inv_u _ _ _ _ _ _ _ I) as U.
  constructor.
  - apply (iu_len_wm _ _ _ _ _ U).
  - apply (iu_wm _ _ _ _ _ U).
  - apply (iu_nw_hi _ _ _ _ _ U).
  - apply (iu_len_w _ _ _ _ _ U).
  - intros w Hw. apply (iu_wf _ _ _ _ _ U). exact Hw.
  - intros w Hw. pose proof (find_le (uptree s) w (iu_wf _ _ _ _ _ U)). lia.
  - apply (inv_lvl _ _ _ _ _ _ _ I).
  - intros g Hn. destruct (Hg g (nth_error_In _ _ Hn)) as (A & B & C & D). auto.
  - intros a b Hin. destruct (iu_nomerge _ _ _ _ _ U a b Hin) as (A & B & _). auto.
  - apply (inv_args _ _ _ _ _ _ _ I).
Qed.

Theorem reach_in_range nq t c W gl wl m s :
  circ_wf c -> 1 <= W ->
  let names := names_of nq t c in let gates := gates_of nq t c in
  Reach {| fa_gates := gates; fa_actions := search_actions gl wl; fa_W := W |} (init_state (length names) m) s ->
  in_range (length names) gates s.
Proof.
  intros WFc HW names gates HR.
  destruct (gates_of_circ nq t c) as (NDn & _). fold names in NDn.
  pose proof (gates_wf nq t c WFc) as Hgwf. fold names gates in Hgwf.
  set (fa := {| fa_gates := gates; fa_actions := search_actions gl wl; fa_W := W |}) in *.
  assert (G : Good names W gates (search_actions gl wl) (length names + m) s).
  { induction HR as [|s1 s2 l _ IH Hgoal Hn Hin].
    - exists []. apply Inv_init; auto.
    - eapply (Good_next names W HW NDn gates Hgwf (search_actions gl wl) fa eq_refl eq_refl eq_refl); eauto. }
  destruct G as [pl I]. eapply in_range_of_Inv; eauto.
Qed.

(* the states find_cuts hands back *)
Theorem result_in_range fuel i r :
  find_cuts_full fuel i = Val r -> circ_wf (fi_circ i) ->
  in_range (length (names_of (fi_nq i) (fi_gtab i) (fi_circ i))) (gates_of (fi_nq i) (fi_gtab i) (fi_circ i)) (fr_best r).
Proof.
  intros H WFc. destruct (find_cuts_sound fuel i r H WFc) as (pl & M & I & _).
  eapply in_range_of_Inv; [apply gates_wf; exact WFc|exact I].
Qed.

(* ---------------- path compression: an equivalent forest, and every union-find operation respects equivalence ---------------- *)
Definition uf_equiv (u u' : uf) : Prop :=
  length u = length u' /\ uf_wf u /\ uf_wf u' /\ forall x, find u x = find u' x.

Lemma compress_fuel_length : forall fuel u w root, length (compress_fuel u fuel w root) = length u.
Proof.
  induction fuel as [|f IH]; intros u w root; simpl; [reflexivity|].
  destruct (Nat.eqb w root); [reflexivity|]. rewrite IH. apply upd_length.
Qed.

Lemma root_iff_find u x : uf_wf u -> (parent u x = x <-> find u x = x).
Proof.
  intros WF. split; [now apply find_root_id|]. intros E.
  pose proof (find_is_root u x WF) as R. rewrite E in R. exact R.
Qed.

Lemma equiv_is_root u u' x : uf_equiv u u' -> is_root u x = is_root u' x.
Proof.
  intros (_ & WF & WF' & F). unfold is_root.
  destruct (Nat.eqb_spec (parent u x) x) as [E|N], (Nat.eqb_spec (parent u' x) x) as [E'|N']; auto; exfalso.
  - apply N'. apply (root_iff_find u' x WF'). rewrite <- F. now apply (root_iff_find u x WF).
  - apply N. apply (root_iff_find u x WF). rewrite F. now apply (root_iff_find u' x WF').
Qed.

Theorem compress_equiv u w : uf_wf u -> uf_equiv u (compress u w).
Proof.
  intros WF. destruct (find_compress u w WF) as [WF' F].
  split; [unfold compress; now rewrite compress_fuel_length|]. split; [exact WF|]. split; [exact WF'|].
  intros x. now rewrite F.
Qed.

Theorem union_roots_equiv u u' r1 r2 :
  uf_equiv u u' -> r1 <> r2 -> is_root u r1 = true -> is_root u r2 = true -> Nat.max r1 r2 < length u ->
  uf_equiv (union_roots u r1 r2) (union_roots u' r1 r2).
Proof.
  intros Eq N R1 R2 Hlt. pose proof Eq as (L & WF & WF' & F).
  assert (R1' : is_root u' r1 = true) by (rewrite <- (equiv_is_root u u' r1 Eq); exact R1).
  assert (R2' : is_root u' r2 = true) by (rewrite <- (equiv_is_root u u' r2 Eq); exact R2).
  apply is_root_spec in R1, R2, R1', R2'.
  unfold union_roots. set (mn := Nat.min r1 r2). set (mx := Nat.max r1 r2).
  assert (Hmm : mn < mx) by (unfold mn, mx; lia).
  assert (Rmn : parent u mn = mn) by (unfold mn; destruct (Nat.min_spec r1 r2) as [[_ ->]|[_ ->]]; auto).
  assert (Rmx : parent u mx = mx) by (unfold mx; destruct (Nat.max_spec r1 r2) as [[_ ->]|[_ ->]]; auto).
  assert (Rmn' : parent u' mn = mn) by (unfold mn; destruct (Nat.min_spec r1 r2) as [[_ ->]|[_ ->]]; auto).
  assert (Rmx' : parent u' mx = mx) by (unfold mx; destruct (Nat.max_spec r1 r2) as [[_ ->]|[_ ->]]; auto).
  assert (Hlt' : mx < length u') by (rewrite <- L; exact Hlt).
  split; [now rewrite !upd_length|]. split; [apply union_wf; auto|]. split; [apply union_wf; auto|].
  intros x. rewrite (union_find u mn mx WF Hmm Hlt Rmn Rmx), (union_find u' mn mx WF' Hmm Hlt' Rmn' Rmx'), F. reflexivity.
Qed.

Theorem compression_congruence u w x :
  uf_wf u ->
  uf_wf (compress u w) /\ length (compress u w) = length u /\
  find (compress u w) x = find u x /\ is_root (compress u w) x = is_root u x.
Proof.
  intros WF. pose proof (compress_equiv u w WF) as Eq. destruct Eq as (L & _ & WF' & F).
  split; [exact WF'|]. split; [now rewrite L|]. split; [now rewrite F|].
  symmetry. apply equiv_is_root. apply compress_equiv; exact WF.
Qed.

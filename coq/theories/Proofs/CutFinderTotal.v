(* Proofs/CutFinderTotal.v — find_cuts never fails with anything but a ValueError: no assertion of the actions, of the
   search, or of export_cuts (executed inside LOCutsOptimizer.optimize) is reachable, no index is out of range. *)
From Coq Require Import QArith Relations Lia.
From CKT Require Import Model.CutFinder Proofs.UFP Proofs.ConnP Proofs.CutFinderSpec Proofs.CutFinderInv
  Proofs.CutFinderPlan Proofs.CutFinderSearchP Proofs.CutFinderOut Proofs.CutFinderCirc Proofs.CutFinderRender
  Proofs.CutFinderP Proofs.CutFinderExportP Proofs.CutFinderFuel.
Close Scope Q_scope.

(* ---------------- the initial interface ---------------- *)
Lemma XInv_init cco :
  let names := fst (sgl_init [] cco) in let c' := snd (sgl_init [] cco) in
  XInv names c' (iface_init cco) (seq 0 (length names)) (length names) 0 0.
Proof.
  intros names c'. unfold iface_init. unfold names, c'.
  destruct (sgl_init [] cco) as [nms cc] eqn:E. cbn [fst snd].
  destruct (sgl_gates_spec _ _ _ _ 0 E (NoDup_nil _)) as (ext & _ & ND & _).
  pose proof (sgl_ids_lt _ _ _ _ E (NoDup_nil _)) as Hids.
  constructor; cbn [if_circuit if_new if_cut_type if_map if_names if_out_wires].
  - reflexivity.
  - exists []. split; [|reflexivity]. cbn [app skipn]. apply map_ext_in. intros e He.
    destruct e as [|nm ids g]; [reflexivity|]. cbn. f_equal.
    rewrite <- (map_id ids) at 1. apply map_ext_in. intros x Hx.
    rewrite seq_nth by (eapply Hids; eauto). reflexivity.
  - now rewrite !map_length.
  - now rewrite seq_length.
  - intros p _ Hp. rewrite seq_nth by exact Hp. lia.
  - now rewrite map_length.
  - split.
    + intros w Hw. rewrite map_length in Hw. exists (WOrig (nth w nms 0)).
      rewrite (nth_indep _ None (Some (WOrig 0))) by (rewrite map_length; exact Hw).
      rewrite (map_nth (fun q => Some (WOrig q))). reflexivity.
    + intros y Hy. rewrite seq_nth by exact Hy. cbn [Nat.add]. exists (WOrig (nth y nms 0)).
      split; [|split; [reflexivity|]].
      * rewrite (nth_indep _ None (Some (WOrig 0))) by (rewrite map_length; exact Hy).
        rewrite (map_nth (fun q => Some (WOrig q))). reflexivity.
      * intros w n' Hw _. destruct (Nat.lt_ge_cases w (length nms)) as [Hlt|Hge].
        -- rewrite (nth_indep _ None (Some (WOrig 0))) in Hw by (rewrite map_length; exact Hlt).
           rewrite (map_nth (fun q => Some (WOrig q))) in Hw. inversion Hw; subst. simpl. lia.
        -- rewrite nth_overflow in Hw by (rewrite map_length; exact Hge). discriminate.
  - now rewrite seq_length.
  - now rewrite seq_length.
  - apply seq_NoDup.
  - intros y Hy. rewrite seq_nth by exact Hy. lia.
  - lia.
Qed.

(* ---------------- export_cuts on a state satisfying the invariant ---------------- *)
Lemma export_cuts_val nq t c W acts M best pl :
  circ_wf c ->
  let names := names_of nq t c in let gates := gates_of nq t c in
  Inv names W gates acts M best pl ->
  exists f1, export_cuts best (iface_init (qc_to_cco nq t c)) = Val f1.
Proof.
  intros WFc names gates I.
  set (cco := qc_to_cco nq t c).
  pose proof (XInv_init cco) as X0. cbv zeta in X0.
  change (fst (sgl_init [] cco)) with names in X0.
  set (c' := snd (sgl_init [] cco)) in *.
  destruct (gates_of_circ nq t c) as (NDn & Hincg & Hgspec & Hgall). fold names gates in NDn, Hincg, Hgspec, Hgall.
  pose proof (gates_wf nq t c WFc) as Hgwf. fold names gates in Hgwf.
  assert (Hids : forall nm ids g, In (CEl nm ids g) c' -> forall x, In x ids -> x < length names).
  { unfold c', names, names_of. fold cco. destruct (sgl_init [] cco) as [nms cc] eqn:E. cbn [fst snd].
    exact (sgl_ids_lt _ _ _ _ E (NoDup_nil _)). }
  (* facts about the recorded actions *)
  set (P := combine gates (firstn (length gates) pl)).
  assert (Hacts : forall a, In a (actions best) -> In (a_gate a) gates).
  { intros a Ha. assert (Hk : In (akey a) (plan_actions (combine gates pl))).
    { rewrite <- (inv_acts _ _ _ _ _ _ _ I). apply in_map. exact Ha. }
    unfold akey in Hk. destruct (in_plan_actions _ _ _ Hk) as (kd & Hin & _). eapply in_combine_l. exact Hin. }
  assert (Hinc : incr_from 0 (map inst (actions best))).
  { assert (Hm : map inst (actions best) = map (fun p => g_inst (snd p)) (plan_actions (combine gates pl))).
    { rewrite <- (inv_acts _ _ _ _ _ _ _ I), map_map. reflexivity. }
    rewrite Hm. clear Hm.
    assert (Hgen : forall k (gs : list gate_spec) pl0, incr_from k (map g_inst gs) ->
              incr_from k (map (fun p => g_inst (snd p)) (plan_actions (combine gs pl0)))).
    { intros k gs. revert k. induction gs as [|g gs IH]; intros k pl0 H; [exact Logic.I|].
      destruct pl0 as [|kd pl0]; [exact Logic.I|]. destruct H as [H1 H2]. cbn [combine plan_actions].
      specialize (IH _ pl0 H2).
      assert (IH' : incr_from k (map (fun p => g_inst (snd p)) (plan_actions (combine gs pl0))))
        by (eapply incr_from_weaken; [|exact IH]; lia).
      destruct kd; cbn [kind_names app map snd]; auto; split; auto. }
    apply Hgen. exact Hincg. }
  unfold export_cuts. fold cco.
  destruct (export_actions_ok names NDn c' Hids (actions best) (iface_init cco) (seq 0 (length names)) (length names) 0 0
              (wiremap best) (num_wires best) X0 Hinc) as (f' & Hf').
  - intros a Ha. pose proof (Hacts a Ha) as Hg.
    destruct (Hgwf _ Hg) as (GL & GN & _).
    unfold gates, gates_of, get_multiqubit_gates in Hg. fold cco in Hg. fold c' in Hg.
    destruct (multiqubit_from_nth _ _ _ Hg) as [_ Hn]. rewrite Nat.sub_0_r in Hn.
    destruct (g_qubits (a_gate a)) as [|q1 [|q2 [|? ?]]] eqn:Eq; simpl in GL; try lia.
    exists (g_name (a_gate a)), (g_gamma (a_gate a)), q1, q2. split; [exact Hn|]. split; [reflexivity|].
    unfold q1_of, q2_of in GN. rewrite Eq in GN. exact GN.
  - exact (inv_trace _ _ _ _ _ _ _ I).
  - rewrite Hf'. cbn [obind]. eexists; reflexivity.
Qed.

(* ---------------- the driver always has a goal when it returns ---------------- *)
Lemma driver_loop_acc tape fa mg mb : forall passes fuel co acc co' goals,
  driver_loop tape fa mg mb passes fuel co acc = Val (co', goals) -> exists more, goals = acc ++ more.
Proof.
  induction passes as [|p IH]; intros fuel co acc co' goals H; simpl in H; [discriminate|].
  destruct (cutopt_pass _ _ _ _ _ _) as [[co1 r]| | |]; cbn [obind] in H; try discriminate.
  destruct r as [[s c]|].
  - destruct (IH _ _ _ _ _ H) as (more & ->). exists ((c, s) :: more). now rewrite <- app_assoc.
  - inversion H; subst. exists []. now rewrite app_nil_r.
Qed.

Lemma optimize_best_some tape fa mg mb nq fuel ro :
  optimize tape fa mg mb nq fuel = Val ro -> or_best ro <> None.
Proof.
  unfold optimize. intros H.
  destruct (cutopt_init tape fa mg nq) as [co| | |] eqn:Ei; cbn [obind] in H; try discriminate.
  assert (Hret : co_returned co = false).
  { unfold cutopt_init in Ei. destruct (greedy_cut_optimization nq fa); cbn [obind] in Ei; try discriminate.
    inversion Ei; reflexivity. }
  destruct (driver_loop _ _ _ _ _ _ _ _) as [[co' goals]| | |] eqn:Ed; cbn [obind] in H; try discriminate.
  simpl in Ed. unfold cutopt_pass in Ed at 1.
  destruct (engine_pass _ _ _ _ _ _) as [[b r]| | |]; cbn [obind] in Ed; try discriminate.
  destruct r as [[s c]|].
  - cbn [obind] in Ed. destruct (driver_loop_acc _ _ _ _ _ _ _ _ _ _ Ed) as (more & ->).
    inversion H; subst. discriminate.
  - rewrite Hret in Ed. destruct (co_greedy co) as [g|]; [|discriminate]. cbn [obind] in Ed.
    destruct (driver_loop_acc _ _ _ _ _ _ _ _ _ _ Ed) as (more & ->). inversion H; subst. discriminate.
Qed.

(* ---------------- find_cuts never crashes ---------------- *)
Theorem find_cuts_never_crashes fuel i :
  circ_wf (fi_circ i) -> find_cuts_full fuel i <> Crash.
Proof.
  intros WFc H. unfold find_cuts_full in H.
  destruct (Nat.ltb_spec (fi_W i) 1) as [|HW]; [discriminate|].
  destruct (negb (settings_ok i)); [discriminate|].
  set (t := fi_gtab i) in *. set (c := fi_circ i) in *.
  destruct (iface_init_fields (fi_nq i) t c) as [Ecirc Enq].
  rewrite Ecirc, Enq in H.
  set (names := names_of (fi_nq i) t c) in *.
  change (get_multiqubit_gates (snd (sgl_init [] (qc_to_cco (fi_nq i) t c)))) with (gates_of (fi_nq i) t c) in H.
  set (gates := gates_of (fi_nq i) t c) in *.
  set (acts := search_actions (fi_gate_lo i) (fi_wire_lo i)) in *.
  set (fa := {| fa_gates := gates; fa_actions := acts; fa_W := fi_W i |}) in *.
  destruct (gates_of_circ (fi_nq i) t c) as (NDn & _). fold names in NDn.
  pose proof (gates_wf (fi_nq i) t c WFc) as Hgwf. fold names gates in Hgwf.
  pose proof (optimize_ref names (fi_W i) HW NDn gates Hgwf fa eq_refl eq_refl acts eq_refl
                (fi_tape i) (fi_max_gamma i) (option_map Z.to_nat (fi_max_backjumps i)) fuel) as Hopt.
  destruct (optimize _ fa _ _ _ _) as [ro| | |] eqn:Eopt; cbn [obind] in H; try discriminate; try contradiction.
  destruct (or_best ro) as [best|] eqn:Ebest; [|exact (optimize_best_some _ _ _ _ _ _ _ Eopt Ebest)].
  destruct (optimize_good names (fi_W i) HW NDn gates Hgwf fa eq_refl eq_refl acts eq_refl _ _ _ _ _ Eopt) as [_ Hbest].
  destruct (Hbest best Ebest) as [[M [pl I]] Hgoal].
  assert (Hlen : length pl = length gates).
  { pose proof (inv_len _ _ _ _ _ _ _ I). pose proof (inv_lvl _ _ _ _ _ _ _ I).
    unfold goal_state in Hgoal. cbn [fa fa_gates] in Hgoal. apply Nat.leb_le in Hgoal. lia. }
  destruct (export_cuts_val (fi_nq i) t c (fi_W i) acts M best pl WFc I) as (f1 & Hf1).
  rewrite Hf1 in H. cbn [obind] in H.
  destruct (Nat.eqb (fi_ncl i) 0); cbn [negb] in H; [|discriminate].
  destruct (cut_gates_val (fi_nq i) t c (fi_W i) acts M best pl WFc I Hlen) as (c1 & Hc1).
  rewrite Hc1 in H. cbn [obind] in H.
  destruct (insert_wire_cuts_val (fi_nq i) t c (fi_W i) acts M best pl c1 WFc I Hlen (cut_gates_length _ _ _ _ Hc1)) as (c2 & Hc2).
  rewrite Hc2 in H. cbn [obind] in H. discriminate.
Qed.

(* ---------------- enough fuel ---------------- *)
Lemma tree_size_mono a b : a <= b -> tree_size a <= tree_size b.
Proof. induction 1; simpl; lia. Qed.

Lemma incr_from_length k l n : incr_from k l -> (forall x, In x l -> x < n) -> length l <= n - k.
Proof.
  revert k; induction l as [|y r IH]; intros k H Hb; simpl; [lia|].
  destruct H as [H1 H2]. specialize (IH _ H2 (fun x Hx => Hb x (or_intror Hx))).
  pose proof (Hb y (or_introl eq_refl)). lia.
Qed.

Lemma gates_le_circ nq t c : length (gates_of nq t c) <= length c.
Proof.
  destruct (gates_of_circ nq t c) as (_ & Hinc & Hg & _).
  rewrite <- (map_length g_inst). rewrite <- (Nat.sub_0_r (length c)). apply incr_from_length; [exact Hinc|].
  intros x Hx. apply in_map_iff in Hx as (g & <- & Hin). destruct (Hg g Hin) as (i & Hi & _).
  apply nth_error_Some. congruence.
Qed.

Theorem find_cuts_enough_fuel fuel i :
  circ_wf (fi_circ i) -> fuel_bound (length (fi_circ i)) <= fuel -> find_cuts_full fuel i <> NoFuel.
Proof.
  intros WFc Hfuel H. unfold find_cuts_full in H.
  destruct (Nat.ltb_spec (fi_W i) 1) as [|HW]; [discriminate|].
  destruct (negb (settings_ok i)); [discriminate|].
  set (t := fi_gtab i) in *. set (c := fi_circ i) in *.
  destruct (iface_init_fields (fi_nq i) t c) as [Ecirc Enq].
  rewrite Ecirc, Enq in H.
  set (names := names_of (fi_nq i) t c) in *.
  change (get_multiqubit_gates (snd (sgl_init [] (qc_to_cco (fi_nq i) t c)))) with (gates_of (fi_nq i) t c) in H.
  set (gates := gates_of (fi_nq i) t c) in *.
  set (acts := search_actions (fi_gate_lo i) (fi_wire_lo i)) in *.
  set (fa := {| fa_gates := gates; fa_actions := acts; fa_W := fi_W i |}) in *.
  destruct (gates_of_circ (fi_nq i) t c) as (NDn & _). fold names in NDn.
  pose proof (gates_wf (fi_nq i) t c WFc) as Hgwf. fold names gates in Hgwf.
  assert (Hf : fuel_bound (length gates) <= fuel).
  { unfold fuel_bound in *. pose proof (tree_size_mono _ _ (gates_le_circ (fi_nq i) t c)). fold gates c in H0. lia. }
  pose proof (optimize_fuel names (fi_W i) HW NDn gates Hgwf (fi_gate_lo i) (fi_wire_lo i)
                (fi_tape i) (fi_max_gamma i) (option_map Z.to_nat (fi_max_backjumps i)) fuel Hf) as Hopt.
  fold acts fa in Hopt.
  destruct (optimize _ fa _ _ _ _) as [ro| | |] eqn:Eopt; cbn [obind] in H; try discriminate; try contradiction.
  destruct (or_best ro) as [best|] eqn:Ebest; [|discriminate].
  destruct (optimize_good names (fi_W i) HW NDn gates Hgwf fa eq_refl eq_refl acts eq_refl _ _ _ _ _ Eopt) as [_ Hbest].
  destruct (Hbest best Ebest) as [[M [pl I]] Hgoal].
  assert (Hlen : length pl = length gates).
  { pose proof (inv_len _ _ _ _ _ _ _ I). pose proof (inv_lvl _ _ _ _ _ _ _ I).
    unfold goal_state in Hgoal. cbn [fa fa_gates] in Hgoal. apply Nat.leb_le in Hgoal. lia. }
  destruct (export_cuts_val (fi_nq i) t c (fi_W i) acts M best pl WFc I) as (f1 & Hf1).
  rewrite Hf1 in H. cbn [obind] in H.
  destruct (Nat.eqb (fi_ncl i) 0); cbn [negb] in H; [|discriminate].
  destruct (cut_gates_val (fi_nq i) t c (fi_W i) acts M best pl WFc I Hlen) as (c1 & Hc1).
  rewrite Hc1 in H. cbn [obind] in H.
  destruct (insert_wire_cuts_val (fi_nq i) t c (fi_W i) acts M best pl c1 WFc I Hlen (cut_gates_length _ _ _ _ Hc1)) as (c2 & Hc2).
  rewrite Hc2 in H. cbn [obind] in H. discriminate.
Qed.

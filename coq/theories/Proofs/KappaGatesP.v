(* Proofs/KappaGatesP.v — the named KAK-path gates are local conjugates of the canonical interaction
   at explicit Weyl coordinates (property C15). *)
From Coq Require Import QArith Reals Lra Lia.
From CKT Require Import Common.Base Extracted.Facts Model.Kappa Proofs.KappaP Model.KappaGates.
Close Scope Q_scope.
Local Open Scope R_scope.

Ltac idx4 i Hi := destruct i as [|[|[|[|i]]]]; [| | | |exfalso; lia].

Ltac unfold_mats :=
  cbv [mscale mmul kron sum4 kak_mat nonlocal_mat sigma sI sX sY sZ Hm Dph m2 table_mat
       rzx_mat xxpyy_mat xxmyy_mat rzx_table xxpyy_table xxmyy_table nth
       Nat.div Nat.modulo Nat.divmod Nat.sub fst snd Cmul Cadd Cscale Cneg C0 C1 Ci].

Lemma Hm_sq i j : (i < 2)%nat -> (j < 2)%nat ->
  sum4 (fun k => Cmul (Hm i k) (Hm k j)) = Cscale 2 (sI i j).
Proof.
  intros Hi Hj. destruct i as [|[|i]]; try lia; destruct j as [|[|j]]; try lia;
  cbv [sum4 Hm sI m2 Cmul Cadd Cscale Cneg C0 C1 fst snd]; f_equal; ring.
Qed.

Lemma kak_mat_prod a b c i j : kak_mat a b c i j = nonlocal_mat (u_prod a b c) i j.
Proof. unfold kak_mat, nonlocal_mat, sum4. now rewrite !u_product by lia. Qed.

Lemma rzx_kak theta i j : (i < 4)%nat -> (j < 4)%nat ->
  rzx_mat theta i j =
  mscale (/ 2) (mmul (mmul (kron sI Hm) (kak_mat (- (theta / 2)) 0 0)) (kron sI Hm)) i j.
Proof.
  intros Hi Hj.
  unfold mscale, mmul, sum4. rewrite !kak_mat_prod.
  unfold nonlocal_mat, sum4. cbn [u_prod].
  rewrite cos_0, sin_0, cos_neg, sin_neg.
  idx4 i Hi; idx4 j Hj; unfold_mats; f_equal; field.
Qed.

Ltac xx_setup theta beta :=
  unfold mmul, sum4; rewrite !kak_mat_prod;
  unfold nonlocal_mat, sum4; cbn [u_prod];
  unfold xxpyy_mat, xxmyy_mat;
  rewrite cos_0, sin_0, ?cos_neg, ?sin_neg;
  replace (theta / 2) with (2 * (theta / 4)) by field; rewrite cos_2a, sin_2a;
  let H4 := fresh "H4" in let Hb := fresh "Hb" in
  pose proof (sin2_cos2 (theta / 4)) as H4; pose proof (sin2_cos2 beta) as Hb; unfold Rsqr in *;
  set (c4 := cos (theta / 4)) in *; set (s4 := sin (theta / 4)) in *;
  set (cb := cos beta) in *; set (sb := sin beta) in *.

Lemma xxpyy_kak theta beta i j : (i < 4)%nat -> (j < 4)%nat ->
  xxpyy_mat theta beta i j =
  mmul (mmul (kron (Dph beta) sI) (kak_mat (- (theta / 4)) (- (theta / 4)) 0)) (kron (Dph (- beta)) sI) i j.
Proof.
  intros Hi Hj. xx_setup theta beta.
  idx4 i Hi; idx4 j Hj; unfold_mats; fold cb sb; f_equal; try ring; nra.
Qed.

Lemma xxmyy_kak theta beta i j : (i < 4)%nat -> (j < 4)%nat ->
  xxmyy_mat theta beta i j =
  mmul (mmul (kron (Dph beta) sI) (kak_mat (- (theta / 4)) (theta / 4) 0)) (kron (Dph (- beta)) sI) i j.
Proof.
  intros Hi Hj. xx_setup theta beta.
  idx4 i Hi; idx4 j Hj; unfold_mats; fold cb sb; f_equal; try ring; nra.
Qed.

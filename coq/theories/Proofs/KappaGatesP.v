(* Proofs/KappaGatesP.v — the named KAK-path gates are local conjugates of the canonical interaction
   at explicit Weyl coordinates (property C15). *)
From Coq Require Import QArith Reals Lra Lia.
From CKT Require Import Common.Base Extracted.Facts Model.Kappa Proofs.KappaP Model.KappaGates.
Close Scope Q_scope.
Local Open Scope R_scope.

(* N = u0 II + u1 XX + u2 YY + u3 ZZ, entry by entry *)
Definition ntable (u0 u1 u2 u3 : C) : list (list C) :=
  [[Cadd u0 u3; C0; C0; Cadd u1 (Cneg u2)];
   [C0; Cadd u0 (Cneg u3); Cadd u1 u2; C0];
   [C0; Cadd u1 u2; Cadd u0 (Cneg u3); C0];
   [Cadd u1 (Cneg u2); C0; C0; Cadd u0 u3]].

Ltac idx4 i Hi := destruct i as [|[|[|[|i]]]]; [| | | |exfalso; lia].

Ltac unfold_mats :=
  cbv [mscale mmul kron sum4 kak_mat nonlocal_mat sigma sI sX sY sZ Hm Dph m2 table_mat
       rzx_mat xxpyy_mat xxmyy_mat rzx_table xxpyy_table xxmyy_table nth
       Nat.div Nat.modulo Nat.divmod Nat.sub fst snd Cmul Cadd Cscale Cneg C0 C1 Ci].

(* the same, but complex arithmetic stays folded so that the many products with 0 and 1 can be removed first *)
Ltac unfold_shapes :=
  cbv [ntable mscale mmul kron sum4 kak_mat nonlocal_mat sigma sI sX sY sZ Hm Dph m2 table_mat
       rzx_mat xxpyy_mat xxmyy_mat rzx_table xxpyy_table xxmyy_table nth
       Nat.div Nat.modulo Nat.divmod Nat.sub].

Lemma Cmul_0_l x : Cmul C0 x = C0.
Proof. destruct x; cbv [Cmul C0 fst snd]; f_equal; ring. Qed.
Lemma Cmul_0_r x : Cmul x C0 = C0.
Proof. destruct x; cbv [Cmul C0 fst snd]; f_equal; ring. Qed.
Lemma Cmul_1_l x : Cmul C1 x = x.
Proof. destruct x; cbv [Cmul C1 fst snd]; f_equal; ring. Qed.
Lemma Cmul_1_r x : Cmul x C1 = x.
Proof. destruct x; cbv [Cmul C1 fst snd]; f_equal; ring. Qed.
Lemma Cadd_0_l x : Cadd C0 x = x.
Proof. destruct x; cbv [Cadd C0 fst snd]; f_equal; ring. Qed.
Lemma Cadd_0_r x : Cadd x C0 = x.
Proof. destruct x; cbv [Cadd C0 fst snd]; f_equal; ring. Qed.
Lemma C0_pair : (0, 0) = C0.
Proof. reflexivity. Qed.

Ltac csimp := rewrite ?C0_pair;
  repeat (rewrite Cmul_0_l || rewrite Cmul_0_r || rewrite Cmul_1_l || rewrite Cmul_1_r
          || rewrite Cadd_0_l || rewrite Cadd_0_r).

Ltac finish := cbv [Cmul Cadd Cscale Cneg C0 C1 Ci fst snd]; f_equal.

Lemma Hm_sq i j : (i < 2)%nat -> (j < 2)%nat ->
  sum4 (fun k => Cmul (Hm i k) (Hm k j)) = Cscale 2 (sI i j).
Proof.
  intros Hi Hj. destruct i as [|[|i]]; try lia; destruct j as [|[|j]]; try lia;
  cbv [sum4 Hm sI m2 Cmul Cadd Cscale Cneg C0 C1 fst snd]; f_equal; ring.
Qed.

Lemma kak_mat_prod a b c i j : kak_mat a b c i j = nonlocal_mat (u_prod a b c) i j.
Proof. unfold kak_mat, nonlocal_mat, sum4. now rewrite !u_product by lia. Qed.

(* the vector u at the coordinates of the three families *)
Lemma u_rzx t k : (k < 4)%nat ->
  u_prod (- t) 0 0 k = nth k [(cos t, 0); (0, - sin t); (0, 0); (0, 0)] (0, 0).
Proof.
  intros Hk. idx4 k Hk; cbn [u_prod nth]; rewrite cos_0, sin_0, cos_neg, sin_neg; f_equal; ring.
Qed.

Lemma u_xxpyy t k : (k < 4)%nat ->
  u_prod (- t) (- t) 0 k =
  nth k [(cos t * cos t, 0); (0, - (sin t * cos t)); (0, - (sin t * cos t)); (sin t * sin t, 0)] (0, 0).
Proof.
  intros Hk. idx4 k Hk; cbn [u_prod nth]; rewrite cos_0, sin_0, !cos_neg, !sin_neg; f_equal; ring.
Qed.

Lemma u_xxmyy t k : (k < 4)%nat ->
  u_prod (- t) t 0 k =
  nth k [(cos t * cos t, 0); (0, - (sin t * cos t)); (0, sin t * cos t); (- (sin t * sin t), 0)] (0, 0).
Proof.
  intros Hk. idx4 k Hk; cbn [u_prod nth]; rewrite cos_0, sin_0, !cos_neg, !sin_neg; f_equal; ring.
Qed.

Lemma nonlocal_table u i j : (i < 4)%nat -> (j < 4)%nat ->
  nonlocal_mat u i j = table_mat (ntable (u 0%nat) (u 1%nat) (u 2%nat) (u 3%nat)) i j.
Proof.
  intros Hi Hj. destruct (u 0%nat) as [a0 b0] eqn:E0, (u 1%nat) as [a1 b1] eqn:E1,
    (u 2%nat) as [a2 b2] eqn:E2, (u 3%nat) as [a3 b3] eqn:E3.
  idx4 i Hi; idx4 j Hj; unfold nonlocal_mat, sum4; rewrite E0, E1, E2, E3;
  cbv [ntable kron sigma sI sX sY sZ m2 table_mat nth Nat.div Nat.modulo Nat.divmod Nat.sub
       Cmul Cadd Cneg C0 C1 Ci fst snd]; f_equal; ring.
Qed.

Ltac expand_with U :=
  unfold mscale, mmul, sum4; rewrite !kak_mat_prod; rewrite !nonlocal_table by lia;
  rewrite !U by lia; cbn [nth].

Lemma rzx_kak theta i j : (i < 4)%nat -> (j < 4)%nat ->
  rzx_mat theta i j =
  mscale (/ 2) (mmul (mmul (kron sI Hm) (kak_mat (- (theta / 2)) 0 0)) (kron sI Hm)) i j.
Proof.
  intros Hi Hj. expand_with u_rzx.
  idx4 i Hi; idx4 j Hj; unfold_shapes; csimp; finish; field.
Qed.

Ltac xx_trig theta beta :=
  unfold xxpyy_mat, xxmyy_mat, Dph; rewrite cos_neg, sin_neg;
  replace (theta / 2) with (2 * (theta / 4)) by field; rewrite cos_2a, sin_2a;
  let H4 := fresh "H4" in let Hb := fresh "Hb" in
  pose proof (sin2_cos2 (theta / 4)) as H4; pose proof (sin2_cos2 beta) as Hb; unfold Rsqr in *;
  set (c4 := cos (theta / 4)) in *; set (s4 := sin (theta / 4)) in *;
  set (cb := cos beta) in *; set (sb := sin beta) in *.

Lemma xxpyy_kak theta beta i j : (i < 4)%nat -> (j < 4)%nat ->
  xxpyy_mat theta beta i j =
  mmul (mmul (kron (Dph beta) sI) (kak_mat (- (theta / 4)) (- (theta / 4)) 0)) (kron (Dph (- beta)) sI) i j.
Proof.
  intros Hi Hj. expand_with u_xxpyy. xx_trig theta beta.
  idx4 i Hi; idx4 j Hj; unfold_shapes; csimp; finish; try ring; nra.
Qed.

Lemma xxmyy_kak theta beta i j : (i < 4)%nat -> (j < 4)%nat ->
  xxmyy_mat theta beta i j =
  mmul (mmul (kron (Dph beta) sI) (kak_mat (- (theta / 4)) (theta / 4) 0)) (kron (Dph (- beta)) sI) i j.
Proof.
  intros Hi Hj. expand_with u_xxmyy. xx_trig theta beta.
  idx4 i Hi; idx4 j Hj; unfold_shapes; csimp; finish; try ring; nra.
Qed.

Lemma Dph_inv beta i j : (i < 2)%nat -> (j < 2)%nat ->
  Cadd (Cmul (Dph beta i 0%nat) (Dph (- beta) 0%nat j)) (Cmul (Dph beta i 1%nat) (Dph (- beta) 1%nat j)) = sI i j.
Proof.
  intros Hi Hj. pose proof (sin2_cos2 beta) as H. unfold Rsqr in H.
  destruct i as [|[|i]]; try lia; destruct j as [|[|j]]; try lia;
  cbv [Dph sI m2 Cmul Cadd C0 C1 fst snd]; rewrite ?cos_neg, ?sin_neg; f_equal; try ring; nra.
Qed.

(* kappa of the KAK path at these coordinates = the documented closed forms *)
Lemma kappa_rzx_coords theta : kappaR (kak_coeffsR (- (theta / 2)) 0 0) = 1 + 2 * Rabs (sin theta).
Proof.
  rewrite kappa_weyl_t00. replace (2 * - (theta / 2)) with (- theta) by field. now rewrite Rabs_sin_neg.
Qed.

Lemma kappa_xxpyy_coords theta :
  kappaR (kak_coeffsR (- (theta / 4)) (- (theta / 4)) 0)
  = 1 + 4 * Rabs (sin (theta / 2)) + 2 * (sin (theta / 2) * sin (theta / 2)).
Proof.
  rewrite kappa_weyl_tt0. replace (2 * - (theta / 4)) with (- (theta / 2)) by field.
  rewrite Rabs_sin_neg, sin_neg. f_equal. ring.
Qed.

Lemma kappa_xxmyy_coords theta :
  kappaR (kak_coeffsR (- (theta / 4)) (theta / 4) 0)
  = 1 + 4 * Rabs (sin (theta / 2)) + 2 * (sin (theta / 2) * sin (theta / 2)).
Proof.
  rewrite kappa_weyl, weyl_neg_a, <- kappa_weyl, kappa_weyl_tt0.
  now replace (2 * (theta / 4)) with (theta / 2) by field.
Qed.

(* ------------------------------------------------------------------------------------ *)
(* unitary local factors                                                                   *)
(* ------------------------------------------------------------------------------------ *)

Lemma inv_sqrt2_sq : / sqrt 2 * / sqrt 2 = / 2.
Proof.
  assert (0 < sqrt 2) by (apply sqrt_lt_R0; lra).
  rewrite <- Rinv_mult. now rewrite sqrt2_sq.
Qed.

Lemma unitary_sI : unitary2 sI.
Proof.
  intros i j Hi Hj. destruct i as [|[|i]]; try lia; destruct j as [|[|j]]; try lia;
  cbv [sI m2 Cmul Cadd Cconj C0 C1 fst snd]; f_equal; ring.
Qed.

Lemma unitary_Hn : unitary2 Hn.
Proof.
  intros i j Hi Hj. pose proof inv_sqrt2_sq as H. set (r := / sqrt 2) in *.
  destruct i as [|[|i]]; try lia; destruct j as [|[|j]]; try lia;
  cbv [Hn mscale Hm sI m2 Cmul Cadd Cconj Cscale Cneg C0 C1 fst snd]; fold r; f_equal; nra.
Qed.

Lemma unitary_Dph beta : unitary2 (Dph beta).
Proof.
  intros i j Hi Hj. pose proof (sin2_cos2 beta) as H. unfold Rsqr in H.
  destruct i as [|[|i]]; try lia; destruct j as [|[|j]]; try lia;
  cbv [Dph sI m2 Cmul Cadd Cconj C0 C1 fst snd]; f_equal; try ring; nra.
Qed.

(* scaling both outer factors *)
Lemma mmul_scale r (A N B : mat) i j :
  mmul (mmul (fun a b => Cscale r (A a b)) N) (fun a b => Cscale r (B a b)) i j
  = Cscale (r * r) (mmul (mmul A N) B i j).
Proof. cbv [mmul sum4 Cmul Cadd Cscale fst snd]. f_equal; ring. Qed.

Lemma kron_sI_Hn i j : kron sI Hn i j = Cscale (/ sqrt 2) (kron sI Hm i j).
Proof. cbv [kron Hn mscale Cmul Cscale fst snd]. f_equal; ring. Qed.

Lemma rzx_kak_unitary theta i j : (i < 4)%nat -> (j < 4)%nat ->
  rzx_mat theta i j = mmul (mmul (kron sI Hn) (kak_mat (- (theta / 2)) 0 0)) (kron sI Hn) i j.
Proof.
  intros Hi Hj. rewrite (rzx_kak theta i j Hi Hj). unfold mscale.
  rewrite <- inv_sqrt2_sq, <- mmul_scale.
  unfold mmul, sum4. now rewrite !kron_sI_Hn.
Qed.

Lemma rzx_local_conjugate theta : local_conjugate_of_kak (rzx_mat theta) (- (theta / 2)) 0 0.
Proof.
  exists sI, Hn, sI, Hn. repeat split; try apply unitary_sI; try apply unitary_Hn.
  intros i j. apply rzx_kak_unitary.
Qed.

Lemma xxpyy_local_conjugate theta beta :
  local_conjugate_of_kak (xxpyy_mat theta beta) (- (theta / 4)) (- (theta / 4)) 0.
Proof.
  exists (Dph beta), sI, (Dph (- beta)), sI. repeat split; try apply unitary_sI; try apply unitary_Dph.
  intros i j. apply xxpyy_kak.
Qed.

Lemma xxmyy_local_conjugate theta beta :
  local_conjugate_of_kak (xxmyy_mat theta beta) (- (theta / 4)) (theta / 4) 0.
Proof.
  exists (Dph beta), sI, (Dph (- beta)), sI. repeat split; try apply unitary_sI; try apply unitary_Dph.
  intros i j. apply xxmyy_kak.
Qed.

(* ------------------------------------------------------------------------------------ *)
(* with the oracle premise made explicit: kappa of the model's KAK path for the named gates *)
(* ------------------------------------------------------------------------------------ *)

Lemma rzx_oracle {L} (d : weyl L) theta :
  weyl_equiv (weyl_coords d) (- (theta / 2), 0, 0) ->
  kappaR (kak_basis_coeffsR d) = 1 + 2 * Rabs (sin theta).
Proof. intros H. rewrite (kappa_weyl_equiv_basis d _ _ _ H). apply kappa_rzx_coords. Qed.

Lemma xxpyy_oracle {L} (d : weyl L) theta :
  weyl_equiv (weyl_coords d) (- (theta / 4), - (theta / 4), 0) ->
  kappaR (kak_basis_coeffsR d) = 1 + 4 * Rabs (sin (theta / 2)) + 2 * (sin (theta / 2) * sin (theta / 2)).
Proof. intros H. rewrite (kappa_weyl_equiv_basis d _ _ _ H). apply kappa_xxpyy_coords. Qed.

Lemma xxmyy_oracle {L} (d : weyl L) theta :
  weyl_equiv (weyl_coords d) (- (theta / 4), theta / 4, 0) ->
  kappaR (kak_basis_coeffsR d) = 1 + 4 * Rabs (sin (theta / 2)) + 2 * (sin (theta / 2) * sin (theta / 2)).
Proof. intros H. rewrite (kappa_weyl_equiv_basis d _ _ _ H). apply kappa_xxmyy_coords. Qed.

(* the documented coordinates of the three KAK rows of the table are weyl_equiv to the proved ones *)
Lemma Rabs_equiv x b c : weyl_equiv (Rabs x, b, c) (- x, b, c).
Proof.
  unfold Rabs. destruct (Rcase_abs x); [apply we_refl|apply we_mirror_a].
Qed.

Lemma doc_rzx_coords theta :
  weyl_equiv (Rabs (Q2R (1 # 2) * theta), Rabs (Q2R (0 # 1) * theta), 0) (- (theta / 2), 0, 0).
Proof.
  replace (Q2R (1 # 2) * theta) with (theta / 2) by (unfold Q2R; simpl; field).
  replace (Q2R (0 # 1) * theta) with 0 by (unfold Q2R; simpl; field). rewrite Rabs_R0.
  apply Rabs_equiv.
Qed.

Lemma Rabs_equiv_b a x c : weyl_equiv (a, Rabs x, c) (a, - x, c).
Proof.
  eapply we_trans; [apply we_swap_ab|]. eapply we_trans; [apply Rabs_equiv|]. apply we_swap_ab.
Qed.

Lemma doc_xxpyy_coords theta :
  weyl_equiv (Rabs (Q2R (1 # 4) * theta), Rabs (Q2R (1 # 4) * theta), 0) (- (theta / 4), - (theta / 4), 0).
Proof.
  replace (Q2R (1 # 4) * theta) with (theta / 4) by (unfold Q2R; simpl; field).
  eapply we_trans; [apply Rabs_equiv|]. apply Rabs_equiv_b.
Qed.

Lemma doc_xxmyy_coords theta :
  weyl_equiv (Rabs (Q2R (1 # 4) * theta), Rabs (Q2R (1 # 4) * theta), 0) (- (theta / 4), theta / 4, 0).
Proof.
  eapply we_trans; [apply doc_xxpyy_coords|].
  assert (H : weyl_equiv (- (theta / 4), - (theta / 4), 0) (- (theta / 4), - - (theta / 4), 0)).
  { eapply we_trans; [apply we_swap_ab|]. eapply we_trans; [apply we_mirror_a|]. apply we_swap_ab. }
  now rewrite Ropp_involutive in H.
Qed.

(* Proofs/CutWiresRoundtripP.v — clause f of C03 as a composition: C03 (cut_wires keeps what every expanded observable
   reads) + C01 (generate with exact weights -> exact results -> reconstruct returns the value Ev of the circuit that
   was cut, under the physics postulates P1, P2+P3) with the coefficient lists of the Move basis (C02). *)
From Coq Require Import QArith Qabs Lia.
From CKT Require Import Common.Base Common.Circ Common.Herbrand Model.Observables Model.CutWires Model.CutWiresObs
  Model.Experiments Model.Roundtrip Proofs.ExperimentsP Proofs.CutWiresP Proofs.CutWiresObsP Proofs.RoundtripP.
From CKT Require Model.Reconstruct.
Close Scope Q_scope.

Lemma kappa_move : (kappa_of move_cq == 4)%Q.
Proof. vm_compute. reflexivity. Qed.

Lemma move_cuts_kappa c v : In v (move_cuts c) -> ~ (kappa_of v == 0)%Q.
Proof.
  intros H. apply repeat_spec in H. subst v. rewrite kappa_move. intros E. discriminate E.
Qed.

Lemma move_cuts_dims c : map (@length Q) (move_cuts c) = repeat 8 (count_markers c).
Proof. unfold move_cuts. induction (count_markers c) as [|n IH]; [reflexivity|]. cbn [repeat map]. now rewrite IH. Qed.

Lemma map_nth_seq {A B} (f : A -> B) d : forall l, map (fun k => f (nth k l d)) (seq 0 (length l)) = map f l.
Proof.
  induction l as [|x r IH]; [reflexivity|].
  cbn [length seq map nth]. f_equal. rewrite <- seq_shift, map_map. exact IH.
Qed.

(* whatever was reconstructed: if it is (pointwise Qeq) the list of values of the expanded observables on cut_wires'
   output with the Moves executed as Moves, it is the list of values of the original observables on the input *)
Lemma reconstructed_transport (ev : list (letter * wt) -> list ct -> nat -> Q) nq nc c ps (R : res (list Q)) :
  wf_circ nq c = true -> (forall p, In p ps -> length (plets p) = nq) ->
  Reconstruct.res_Qeq R
    (Ok (map (fun k => expect ev (denote (nq + count_markers c) nc (cut_wires_moves nq c)) (nth k (expanded nq c ps) pI0))
             (seq 0 (length ps)))) ->
  Reconstruct.res_Qeq R (Ok (map (expect ev (denote nq nc (erase_markers c))) ps)).
Proof.
  intros W H HR.
  assert (E : length ps = length (expanded nq c ps)) by (unfold expanded; now rewrite map_length).
  rewrite E in HR.
  rewrite (map_nth_seq (expect ev (denote (nq + count_markers c) nc (cut_wires_moves nq c))) pI0 (expanded nq c ps)) in HR.
  now rewrite (expect_expanded ev nq nc c ps W H) in HR.
Qed.

(* the chain through C01's round trip (Section Roundtrip of Proofs/RoundtripP.v = c01_roundtrip_partial), with
   C := one Move coefficient list per marker; kappa <> 0 is discharged here *)
Theorem cut_and_reconstruct (ev : list (letter * wt) -> list ct -> nat -> Q) nq nc c ps :
  wf_circ nq c = true -> (forall p, In p ps -> length (plets p) = nq) ->
  let nobs := length ps in
  let C := move_cuts c in
  let Ev := fun k => expect ev (denote (nq + count_markers c) nc (cut_wires_moves nq c)) (nth k (expanded nq c ps) pI0) in
  forall (L : list (list nat)) (term : jkey -> nat -> Q) (E : nat -> jkey -> nat -> Q),
  (forall k, k < nobs ->
     (Ev k == sumQ (map (fun ids => (coeff_prod C ids * term ids k)%Q) (all_maps (map (@length Q) C))))%Q) ->
  (forall ids k, In ids (all_maps (map (@length Q) C)) -> k < nobs -> (term ids k == part_prod L E ids k)%Q) ->
  forall (W : sdict) (cq : list (Q * wkind)),
  exact_weights C W ->
  Forall2 (fun s c0 => exists cs, chosen_coeffs C (s_ids s) = Ok cs /\
                                  c0 = (coeff_value (total_weight W) (kappa_all C) (s_w s) cs, s_t s))
          (sort_samples W) cq ->
  forall pyint0 den (pds : list (Reconstruct.part * Reconstruct.pdata)),
  length pds = length L ->
  (forall pd, In pd pds ->
     Reconstruct.data_len (snd pd) = length (map fst cq) * length (Reconstruct.pgroups (fst pd))) ->
  (forall pd, In pd pds -> length (Reconstruct.plookup (fst pd)) = nobs /\ locs_wf (fst pd)) ->
  (forall pd key, In pd pds -> In key (Reconstruct.keys_of (snd pd)) ->
     Reconstruct.outcome_to_int pyint0 key = Some (den key)) ->
  (forall li pd sfx z s k,
     nth_error pds li = Some pd -> nth_error L li = Some sfx ->
     nth_error (sort_samples W) z = Some s -> k < nobs ->
     (Reconstruct.E den pd z k == E li (project_ids sfx (s_ids s)) k)%Q) ->
  Reconstruct.res_Qeq (Reconstruct.reconstruct_parts pyint0 nobs (map fst cq) pds)
                      (Ok (map (expect ev (denote nq nc (erase_markers c))) ps)).
Proof.
  intros Wf Hlen nobs C Ev L term E P1 P23 W cq HW Hcq pyint0 den pds H1 H2 H3 H4 H5.
  apply (reconstructed_transport ev nq nc c ps _ Wf Hlen).
  exact (roundtrip C L nobs term Ev E P1 P23 W cq (move_cuts_kappa c) HW Hcq pyint0 den pds H1 H2 H3 H4 H5).
Qed.

(* the same through C01's WHOLE-CHAIN theorem (generated_roundtrip = c01_generated_roundtrip_partial): the coefficient
   list, the projection lists, the result counts/shapes and the exact-results equation are those PRODUCED by the C05
   model `core` of generate_cutting_experiments and an exact sampler `run`; what remains is the physics, the exact
   weights and the agreement of the two views of the observable collections *)
Theorem cut_and_reconstruct_generated (ev : list (letter * wt) -> list ct -> nat -> Q) nq nc c ps :
  wf_circ nq c = true -> (forall p, In p ps -> length (plets p) = nq) ->
  let nobs := length ps in
  let C := move_cuts c in
  let Ev := fun k => expect ev (denote (nq + count_markers c) nc (cut_wires_moves nq c)) (nth k (expanded nq c ps) pI0) in
  forall gh gsx env run den table og (W : sdict) out (cq : list (Q * wkind)),
  Experiments.core gh gsx env C table og W = Ok (out, cq) ->
  forall (rparts : list Reconstruct.part),
  Forall2 (fun lg rp => length (Reconstruct.pgroups rp) = length (snd lg)) og rparts ->
  (forall rp, In rp rparts -> length (Reconstruct.plookup rp) = nobs /\ locs_wf rp) ->
  forall full, Forall2 (entry_ok gh gsx env table (sort_samples W)) og full ->
  forall (term : jkey -> nat -> Q) pyint0,
  (forall k, k < nobs ->
     (Ev k == sumQ (map (fun ids => (coeff_prod C ids * term ids k)%Q) (all_maps (map (@length Q) C))))%Q) ->
  (forall ids k, In ids (all_maps (map (@length Q) C)) -> k < nobs ->
     (term ids k == part_prod (L_of (length C) table og) (E_all gh gsx env run den table og rparts) ids k)%Q) ->
  exact_weights C W ->
  (forall pd key, In pd (results_of run rparts full) -> In key (Reconstruct.keys_of (snd pd)) ->
     Reconstruct.outcome_to_int pyint0 key = Some (den key)) ->
  Reconstruct.res_Qeq (Reconstruct.reconstruct_parts pyint0 nobs (map fst cq) (results_of run rparts full))
                      (Ok (map (expect ev (denote nq nc (erase_markers c))) ps)).
Proof.
  intros Wf Hlen nobs C Ev gh gsx env run den table og W out cq Hcore rparts Hg Hl full Hfull term pyint0 P1 P23 HW Hkeys.
  apply (reconstructed_transport ev nq nc c ps _ Wf Hlen).
  exact (generated_roundtrip gh gsx env run den C table og W out cq Hcore rparts nobs Hg Hl full Hfull term Ev pyint0
           P1 P23 (move_cuts_kappa c) HW Hkeys).
Qed.

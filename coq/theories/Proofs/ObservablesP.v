(* Proofs/ObservablesP.v — lemmas about Model/Observables.v (C17, used by C10/C01). *)
From Coq Require Import Sorted.
From CKT Require Import Common.Base Model.Observables.

(* ---------- restrict ---------- *)
Lemma restrict1_length qs p : length (plets (restrict1 qs p)) = length qs.
Proof. unfold restrict1; simpl; now rewrite map_length. Qed.

Lemma map_nth_lt {A B} (f : A -> B) l k d d' : k < length l -> nth k (map f l) d = f (nth k l d').
Proof. revert k; induction l as [|x r IH]; intros [|k] H; simpl in *; try lia; auto. apply IH; lia. Qed.

Lemma restrict1_nth qs p k : k < length qs ->
  nth k (plets (restrict1 qs p)) 0 = nth (nth k qs 0) (plets p) 0.
Proof. intros H; unfold restrict1; simpl. now rewrite (map_nth_lt _ _ _ 0 0). Qed.

Lemma restrict1_phase qs p : pphase (restrict1 qs p) = 0.
Proof. reflexivity. Qed.

Lemma restrict_ok n qs ps : (forall q, In q qs -> q < n) ->
  restrict n qs ps = Ok (map (restrict1 qs) ps).
Proof.
  intros H; unfold restrict.
  assert (E : forallb (fun q => q <? n) qs = true).
  { apply forallb_forall; intros q Hq; apply Nat.ltb_lt; auto. }
  now rewrite E.
Qed.

Lemma restrict_crash n qs ps : (exists q, In q qs /\ n <= q) -> restrict n qs ps = Crashed.
Proof.
  intros [q [Hq Hn]]; unfold restrict.
  destruct (forallb (fun q => q <? n) qs) eqn:E; [|reflexivity].
  rewrite forallb_forall in E. specialize (E q Hq). apply Nat.ltb_lt in E. lia.
Qed.

(* ---------- scatter ---------- *)
Lemma scatter_length idx vals acc : length (scatter idx vals acc) = length acc.
Proof.
  revert vals acc; induction idx as [|i ir IH]; intros [|v vr] acc; simpl; auto.
  now rewrite IH, upd_length.
Qed.

Lemma scatter_notin idx vals acc j : ~ In j idx -> nth j (scatter idx vals acc) 0 = nth j acc 0.
Proof.
  revert vals acc; induction idx as [|i ir IH]; intros [|v vr] acc H; simpl in *; auto.
  rewrite IH by tauto. apply nth_upd_other. intros E; apply H; now left.
Qed.

Lemma scatter_nth idx vals acc k :
  NoDup idx -> length idx = length vals -> (forall i, In i idx -> i < length acc) ->
  k < length idx -> nth (nth k idx 0) (scatter idx vals acc) 0 = nth k vals 0.
Proof.
  revert vals acc k; induction idx as [|i ir IH]; intros [|v vr] acc k ND L B Hk; simpl in *; try lia.
  inversion ND as [|? ? Hn ND']; subst.
  destruct k as [|k].
  - rewrite scatter_notin by assumption. apply nth_upd_same. apply B; now left.
  - apply IH; auto; try lia. intros j Hj. rewrite upd_length. apply B; now right.
Qed.

(* scatter of a string's own letters is idempotent: no NoDup needed *)
Lemma scatter_self p qs acc j :
  (forall q, In q qs -> q < length acc) ->
  nth j (scatter qs (map (fun q => nth q p 0) qs) acc) 0 =
  if in_dec Nat.eq_dec j qs then nth j p 0 else nth j acc 0.
Proof.
  revert acc; induction qs as [|q r IH]; intros acc B; simpl; [reflexivity|].
  rewrite IH by (intros x Hx; rewrite upd_length; apply B; now right).
  destruct (in_dec Nat.eq_dec j r) as [I|NI].
  - destruct (Nat.eq_dec q j); reflexivity.
  - destruct (Nat.eq_dec q j) as [->|N].
    + apply nth_upd_same. apply B; now left.
    + apply nth_upd_other; assumption.
Qed.

(* ---------- qubits_by_subsystem ---------- *)
Definition members (labels : list nat) (l i : nat) : list nat :=
  filter (fun j => Nat.eqb (nth j labels 0) l) (seq 0 i).

Lemma members_S labels l i :
  members labels l (S i) = members labels l i ++ (if Nat.eqb (nth i labels 0) l then [i] else []).
Proof. unfold members. rewrite seq_S, filter_app. simpl. destruct (Nat.eqb _ _); reflexivity. Qed.

Definition GInv (labels : list nat) (i : nat) (g : list (nat * list nat)) : Prop :=
  NoDup (map fst g) /\
  (forall l qs, In (l, qs) g -> qs = members labels l i /\ qs <> []) /\
  (forall j, j < i -> In (nth j labels 0) (map fst g)).

Lemma add_to_group_fst l i g :
  map fst (add_to_group l i g) = if in_dec Nat.eq_dec l (map fst g) then map fst g else map fst g ++ [l].
Proof.
  induction g as [|[l' qs] r IH]; simpl; [reflexivity|].
  destruct (Nat.eqb_spec l l') as [->|N]; simpl.
  - destruct (Nat.eq_dec l' l'); [reflexivity|congruence].
  - rewrite IH. destruct (Nat.eq_dec l' l); [congruence|].
    destruct (in_dec Nat.eq_dec l (map fst r)); reflexivity.
Qed.

Lemma add_to_group_in l i g l0 qs0 :
  NoDup (map fst g) ->
  In (l0, qs0) (add_to_group l i g) ->
  (l0 <> l /\ In (l0, qs0) g) \/
  (l0 = l /\ ((exists qs, In (l, qs) g /\ qs0 = qs ++ [i]) \/ (~ In l (map fst g) /\ qs0 = [i]))).
Proof.
  induction g as [|[l' qs] r IH]; simpl; intros ND H.
  - destruct H as [H|[]]. inversion H; subst. right; split; auto.
  - inversion ND as [|? ? Hn ND']; subst.
    destruct (Nat.eqb_spec l l') as [->|N]; simpl in H.
    + destruct H as [H|H].
      * inversion H; subst. right; split; auto. left; exists qs; auto.
      * destruct (Nat.eq_dec l0 l') as [->|N0].
        { exfalso; apply Hn. change l' with (fst (l', qs0)). now apply in_map. }
        left; auto.
    + destruct H as [H|H].
      * inversion H; subst. left; split; auto.
      * destruct (IH ND' H) as [[A B]|[A [[qs1 [B C]]|[B C]]]].
        { left; auto. }
        { right; split; auto. left; exists qs1; auto. }
        { right; split; auto. right; split; auto. intros [E|I]; [congruence|auto]. }
Qed.

Lemma add_to_group_keeps l i g l0 qs0 :
  In (l0, qs0) g -> l0 <> l -> In (l0, qs0) (add_to_group l i g).
Proof.
  induction g as [|[l' qs] r IH]; simpl; intros H N; [tauto|].
  destruct (Nat.eqb_spec l l') as [->|N']; simpl.
  - destruct H as [H|H]; [inversion H; congruence|now right].
  - destruct H as [H|H]; [now left|right; auto].
Qed.

Lemma filter_nil {A} (f : A -> bool) l : (forall x, In x l -> f x = false) -> filter f l = [].
Proof.
  induction l as [|x r IH]; simpl; intros H; [reflexivity|].
  rewrite (H x) by now left. apply IH; intros; apply H; now right.
Qed.

Lemma NoDup_snoc (l : list nat) x : NoDup l -> ~ In x l -> NoDup (l ++ [x]).
Proof.
  intros ND NI. rewrite <- (rev_involutive (l ++ [x])). apply NoDup_rev.
  rewrite rev_app_distr; simpl. constructor; [rewrite <- in_rev; auto| now apply NoDup_rev].
Qed.

Lemma GInv_step labels i g :
  GInv labels i g -> GInv labels (S i) (add_to_group (nth i labels 0) i g).
Proof.
  intros [ND [CH CV]]. set (l := nth i labels 0). split; [|split].
  - rewrite add_to_group_fst. destruct (in_dec Nat.eq_dec l (map fst g)); auto.
    now apply NoDup_snoc.
  - intros l0 qs0 H. apply add_to_group_in in H; auto.
    rewrite members_S. fold l.
    destruct H as [[N I]|[-> [[qs [I ->]]|[NI ->]]]].
    + destruct (CH _ _ I) as [-> NE]. destruct (Nat.eqb_spec l l0); [congruence|].
      rewrite app_nil_r; auto.
    + destruct (CH _ _ I) as [-> NE]. rewrite Nat.eqb_refl. split; auto.
      intros E; apply app_eq_nil in E as [_ E]; discriminate.
    + rewrite Nat.eqb_refl. split; [|discriminate].
      assert (E : members labels l i = []).
      { unfold members. apply filter_nil. intros j Hj. apply in_seq in Hj.
        apply Nat.eqb_neq. intros E. apply NI. rewrite <- E. apply CV; lia. }
      now rewrite E.
  - intros j Hj. rewrite add_to_group_fst.
    destruct (in_dec Nat.eq_dec l (map fst g)) as [I|NI].
    + destruct (Nat.eq_dec j i) as [->|N]; [exact I| apply CV; lia].
    + apply in_or_app. destruct (Nat.eq_dec j i) as [->|N]; [right; now left| left; apply CV; lia].
Qed.

Lemma GInv_groups_from labels r pre g :
  GInv labels (length pre) g -> labels = pre ++ r ->
  GInv labels (length labels) (groups_from r (length pre) g).
Proof.
  revert pre g; induction r as [|l r IH]; intros pre g H E; simpl in *.
  - subst labels. rewrite app_nil_r in *. exact H.
  - assert (El : nth (length pre) labels 0 = l).
    { subst labels. rewrite app_nth2 by lia. now rewrite Nat.sub_diag. }
    specialize (IH (pre ++ [l]) (add_to_group l (length pre) g)).
    rewrite app_length in IH; simpl in IH. rewrite Nat.add_1_r in IH.
    apply IH; [rewrite <- El; now apply GInv_step|].
    now rewrite <- app_assoc.
Qed.

Lemma GInv_init labels : GInv labels 0 [].
Proof. split; [constructor|split]; [intros ? ? []|intros; lia]. Qed.

Theorem qubits_by_subsystem_spec labels :
  GInv labels (length labels) (qubits_by_subsystem labels).
Proof. apply (GInv_groups_from labels labels []); [apply GInv_init|reflexivity]. Qed.

(* every qubit is in exactly the group of its label, groups hold ascending indices *)
Lemma members_in labels l n j : In j (members labels l n) <-> j < n /\ nth j labels 0 = l.
Proof.
  unfold members. rewrite filter_In, in_seq, Nat.eqb_eq. intuition lia.
Qed.

Lemma filter_seq_sorted (f : nat -> bool) s n : StronglySorted lt (filter f (seq s n)).
Proof.
  revert s; induction n as [|n IH]; intros s; simpl; [constructor|].
  destruct (f s); [|apply IH].
  constructor; [apply IH|]. apply Forall_forall. intros x Hx.
  apply filter_In in Hx as [Hx _]. apply in_seq in Hx. lia.
Qed.

Lemma members_sorted labels l n : StronglySorted lt (members labels l n).
Proof. apply filter_seq_sorted. Qed.

(* ---------- recombination ---------- *)
Lemma recombine_fold p groups acc j :
  (forall g q, In g groups -> In q g -> q < length acc) ->
  nth j (fold_left (fun a g => scatter (fst g) (plets (snd g)) a)
           (map (fun qs => (qs, restrict1 qs (mkP 0 p))) groups) acc) 0 =
  if existsb (fun g => if in_dec Nat.eq_dec j g then true else false) groups
  then nth j p 0 else nth j acc 0.
Proof.
  revert acc; induction groups as [|g r IH]; intros acc B; simpl; [reflexivity|].
  rewrite IH.
  - unfold restrict1; simpl. rewrite scatter_self by (intros q Hq; apply (B g); [now left|auto]).
    destruct (in_dec Nat.eq_dec j g); simpl; [|reflexivity].
    destruct (existsb _ r); reflexivity.
  - intros g' q Hg Hq. rewrite scatter_length. apply (B g'); [now right|auto].
Qed.

Theorem recombine_decompose labels p :
  length labels = length (plets p) ->
  recombine1 (length labels)
    (map (fun lq => (snd lq, restrict1 (snd lq) p)) (qubits_by_subsystem labels)) = plets p.
Proof.
  intros L. destruct (qubits_by_subsystem_spec labels) as [ND [CH CV]].
  set (G := qubits_by_subsystem labels) in *.
  apply nth_ext with (d := 0) (d' := 0).
  - unfold recombine1.
    assert (forall (gs : list (list nat * pauli)) acc,
      length (fold_left (fun a g => scatter (fst g) (plets (snd g)) a) gs acc) = length acc) as FL.
    { induction gs as [|g r IH]; intros acc; simpl; [reflexivity|]. now rewrite IH, scatter_length. }
    rewrite FL, repeat_length; exact L.
  - intros j Hj.
    assert (Hlen : length (recombine1 (length labels)
       (map (fun lq => (snd lq, restrict1 (snd lq) p)) G)) = length labels).
    { unfold recombine1.
      assert (forall (gs : list (list nat * pauli)) acc,
        length (fold_left (fun a g => scatter (fst g) (plets (snd g)) a) gs acc) = length acc) as FL.
      { induction gs as [|g r IH]; intros acc; simpl; [reflexivity|]. now rewrite IH, scatter_length. }
      now rewrite FL, repeat_length. }
    rewrite Hlen in Hj.
    unfold recombine1.
    replace (map (fun lq : nat * list nat => (snd lq, restrict1 (snd lq) p)) G)
      with (map (fun qs => (qs, restrict1 qs (mkP 0 (plets p)))) (map snd G))
      by (rewrite map_map; apply map_ext; intros [l qs]; reflexivity).
    rewrite recombine_fold.
    + assert (E : existsb (fun g => if in_dec Nat.eq_dec j g then true else false) (map snd G) = true).
      { apply existsb_exists. specialize (CV j Hj). apply in_map_iff in CV as [[l qs] [E I]].
        simpl in E. exists qs; split; [apply in_map_iff; exists (l, qs); auto|].
        destruct (CH _ _ I) as [-> _]. destruct (in_dec Nat.eq_dec j _) as [|N]; auto.
        exfalso; apply N. apply members_in; split; [exact Hj|symmetry; exact E]. }
      now rewrite E.
    + intros g q Hg Hq. rewrite repeat_length. apply in_map_iff in Hg as [[l qs] [E I]].
      simpl in E; subst g. destruct (CH _ _ I) as [-> _]. apply members_in in Hq. lia.
Qed.

(* ---------- expand ---------- *)
Lemma find_all_Some oq fq m : find_all oq fq = Some m ->
  length m = length oq /\
  forall k, k < length oq -> nth k m 0 < length fq /\ nth (nth k m 0) fq 0 = nth k oq 0.
Proof.
  revert m; induction oq as [|q r IH]; simpl; intros m H.
  - inversion H; subst; simpl; split; [reflexivity|intros; lia].
  - destruct (index_of q fq) as [i|] eqn:E; [|discriminate].
    destruct (find_all r fq) as [m'|]; [|discriminate]. inversion H; subst; simpl.
    destruct (IH m' eq_refl) as [L N]. split; [lia|].
    intros [|k] Hk; [apply index_of_Some in E; tauto| apply N; lia].
Qed.

Lemma find_all_None oq fq : find_all oq fq = None -> exists q, In q oq /\ ~ In q fq.
Proof.
  induction oq as [|q r IH]; simpl; [discriminate|].
  destruct (index_of q fq) as [i|] eqn:E.
  - destruct (find_all r fq); [discriminate|]. intros _. destruct (IH eq_refl) as [x [A B]].
    exists x; split; auto.
  - intros _. exists q; split; [now left|now apply index_of_None].
Qed.

Lemma find_all_total oq fq : incl oq fq -> exists m, find_all oq fq = Some m.
Proof.
  intros I. destruct (find_all oq fq) as [m|] eqn:E; [eauto|].
  apply find_all_None in E as [q [A B]]. exfalso; apply B, I, A.
Qed.

Lemma find_all_NoDup oq fq m : NoDup oq -> find_all oq fq = Some m -> NoDup m.
Proof.
  intros ND H. destruct (find_all_Some _ _ _ H) as [L N].
  apply (proj2 (NoDup_nth m 0)). intros i j Hi Hj E.
  rewrite L in Hi, Hj. destruct (N i Hi) as [_ Ei]. destruct (N j Hj) as [_ Ej].
  rewrite E in Ei. rewrite Ei in Ej. apply (proj1 (NoDup_nth oq 0) ND); auto.
Qed.

(* ---------- statements used by Properties/C17.v ---------- *)
Definition pI := mkP 0 [].

Lemma restrict_full n qs ps : (forall q, In q qs -> q < n) ->
  exists out, restrict n qs ps = Ok out /\ length out = length ps /\
    forall i, i < length ps ->
      pphase (nth i out pI) = 0 /\
      length (plets (nth i out pI)) = length qs /\
      forall k, k < length qs ->
        nth k (plets (nth i out pI)) 0 = nth (nth k qs 0) (plets (nth i ps pI)) 0.
Proof.
  intros H. exists (map (restrict1 qs) ps). split; [now apply restrict_ok|].
  split; [now rewrite map_length|]. intros i Hi.
  rewrite (map_nth_lt _ _ _ pI pI) by assumption.
  split; [reflexivity|]. split; [apply restrict1_length|]. intros k Hk. now apply restrict1_nth.
Qed.

Lemma decompose_spec labels ps :
  let D := decompose_observables labels ps in
  NoDup (map (fun t => fst (fst t)) D) /\
  (forall j, j < length labels -> In (nth j labels 0) (map (fun t => fst (fst t)) D)) /\
  (forall l qs subs, In (l, qs, subs) D ->
     qs = members labels l (length labels) /\ qs <> [] /\ subs = map (restrict1 qs) ps).
Proof.
  unfold decompose_observables. destruct (qubits_by_subsystem_spec labels) as [ND [CH CV]].
  set (G := qubits_by_subsystem labels) in *. simpl.
  assert (E : map (fun t : nat * list nat * list pauli => fst (fst t))
     (map (fun lq : nat * list nat => (fst lq, snd lq, map (restrict1 (snd lq)) ps)) G) = map fst G).
  { rewrite map_map. apply map_ext. intros [l qs]; reflexivity. }
  rewrite E. split; [exact ND|]. split; [exact CV|].
  intros l qs subs H. apply in_map_iff in H as [[l' qs'] [Eq I]]. simpl in Eq. inversion Eq; subst.
  destruct (CH _ _ I) as [A B]. auto.
Qed.

Lemma expand_full nobs oq fq ps :
  NoDup oq -> incl oq fq -> nobs = length oq ->
  (forall p, In p ps -> length (plets p) = nobs) ->
  exists out, expand nobs oq fq ps = Ok out /\ length out = length ps /\
    forall i, i < length ps ->
      let p := nth i ps pI in let r := nth i out pI in
      pphase r = pphase p /\ length (plets r) = length fq /\
      (forall k j, k < length oq -> j < length fq -> nth j fq 0 = nth k oq 0 -> NoDup fq ->
          nth j (plets r) 0 = nth k (plets p) 0) /\
      (forall j, ~ In (nth j fq 0) oq -> j < length fq -> nth j (plets r) 0 = 0).
Proof.
  intros ND I E HL. unfold expand. rewrite E, Nat.eqb_refl. simpl.
  destruct (find_all_total _ _ I) as [m Hm]. rewrite Hm.
  exists (map (expand1 m (length fq)) ps). split; [reflexivity|]. split; [now rewrite map_length|].
  intros i Hi. cbv zeta. rewrite (map_nth_lt _ _ _ pI pI) by assumption. set (p := nth i ps pI).
  destruct (find_all_Some _ _ _ Hm) as [Lm Nm].
  assert (NDm := find_all_NoDup _ _ _ ND Hm).
  assert (Lp : length (plets p) = length oq) by (rewrite <- E; apply HL; apply nth_In; assumption).
  split; [reflexivity|]. split; [unfold expand1; simpl; now rewrite scatter_length, repeat_length|].
  split.
  - intros k j Hk Hj Ej NDf. unfold expand1; simpl.
    destruct (Nm k Hk) as [B1 B2].
    assert (j = nth k m 0).
    { apply (proj1 (NoDup_nth fq 0) NDf); auto. now rewrite B2. }
    subst j. apply scatter_nth; auto; try lia.
    intros x Hx. rewrite repeat_length. apply In_nth with (d := 0) in Hx as [k' [Hk' <-]].
    apply Nm; lia.
  - intros j NI Hj. unfold expand1; simpl. rewrite scatter_notin.
    + apply nth_repeat.
    + intros Hin. apply NI. apply In_nth with (d := 0) in Hin as [k [Hk <-]].
      rewrite Lm in Hk. destruct (Nm k Hk) as [_ ->]. apply nth_In; assumption.
Qed.

Lemma expand_refuses_count nobs oq fq ps : nobs <> length oq -> expand nobs oq fq ps = Refused.
Proof. intros H. unfold expand. apply Nat.eqb_neq in H. now rewrite H. Qed.

Lemma expand_refuses_missing nobs oq fq ps :
  (exists q, In q oq /\ ~ In q fq) -> expand nobs oq fq ps = Refused.
Proof.
  intros [q [A B]]. unfold expand. destruct (negb _); [reflexivity|].
  destruct (find_all oq fq) as [m|] eqn:E; [|reflexivity]. exfalso.
  destruct (find_all_Some _ _ _ E) as [L N].
  apply In_nth with (d := 0) in A as [k [Hk Ek]]. destruct (N k Hk) as [B1 B2].
  apply B. rewrite <- Ek, <- B2. apply nth_In; assumption.
Qed.

(* ------------------------------------------------------------------------------------------
   Additions (C17 review follow-up).  Nothing above is changed.
   ------------------------------------------------------------------------------------------ *)

(* ---------- restrict_seq (both input paths) ---------- *)
Lemma restrict_seq_ok aslist n qs ps : (forall q, In q qs -> q < n) ->
  restrict_seq aslist n qs ps = Ok (map (restrict1 qs) ps).
Proof.
  intros H. unfold restrict_seq. destruct aslist; [destruct ps as [|p r]|]; try reflexivity;
    now apply restrict_ok.
Qed.

Lemma restrict_seq_crash aslist n qs ps : (exists q, In q qs /\ n <= q) ->
  aslist = false \/ ps <> [] -> restrict_seq aslist n qs ps = Crashed.
Proof.
  intros H [->|NE]; unfold restrict_seq; [now apply restrict_crash|].
  destruct aslist; [destruct ps as [|p r]; [congruence|]|]; now apply restrict_crash.
Qed.

Lemma restrict_seq_empty_list n qs : restrict_seq true n qs [] = Ok [].
Proof. reflexivity. Qed.

Lemma restrict_dec n qs ps :
  (restrict n qs ps = Ok (map (restrict1 qs) ps) /\ forall q, In q qs -> q < n) \/
  (restrict n qs ps = Crashed /\ exists q, In q qs /\ n <= q).
Proof.
  unfold restrict. destruct (forallb (fun q => q <? n) qs) eqn:E.
  - left; split; [reflexivity|]. intros q Hq. rewrite forallb_forall in E. apply Nat.ltb_lt; auto.
  - right; split; [reflexivity|].
    assert (X : existsb (fun q => negb (q <? n)) qs = true).
    { clear -E. induction qs as [|q r IH]; simpl in *; [discriminate|].
      destruct (q <? n); simpl in *; auto. }
    apply existsb_exists in X as [q [Hq Hn]]. exists q; split; [assumption|].
    apply negb_true_iff, Nat.ltb_ge in Hn. exact Hn.
Qed.

Lemma restrict_seq_never_refused aslist n qs ps : restrict_seq aslist n qs ps <> Refused.
Proof.
  assert (X : forall ps0, restrict n qs ps0 <> Refused).
  { intros ps0. destruct (restrict_dec n qs ps0) as [[-> _]|[-> _]]; discriminate. }
  unfold restrict_seq. destruct aslist; [destruct ps as [|p r]; [discriminate|]|]; apply X.
Qed.

(* ---------- decompose_call ---------- *)
Lemma decompose_groups_ok aslist n G ps :
  (forall l qs q, In (l, qs) G -> In q qs -> q < n) ->
  decompose_groups aslist n G ps =
  Ok (map (fun lq => (fst lq, snd lq, map (restrict1 (snd lq)) ps)) G).
Proof.
  induction G as [|[l qs] r IH]; intros B; simpl; [reflexivity|].
  rewrite restrict_seq_ok by (intros q Hq; apply (B l qs); [now left|assumption]).
  simpl. rewrite IH; [reflexivity|]. intros l' qs' q I Hq. apply (B l' qs'); [now right|assumption].
Qed.

Lemma decompose_groups_crash aslist n G ps :
  aslist = false \/ ps <> [] ->
  (exists l qs q, In (l, qs) G /\ In q qs /\ n <= q) ->
  decompose_groups aslist n G ps = Crashed.
Proof.
  intros HA. induction G as [|[l qs] r IH]; intros [l0 [qs0 [q [I [Hq Hn]]]]]; simpl in *; [tauto|].
  destruct (restrict_seq aslist n qs ps) as [sub| |] eqn:E; simpl.
  - destruct I as [I|I].
    + inversion I; subst. rewrite restrict_seq_crash in E; [discriminate|eauto|assumption].
    + rewrite IH; [reflexivity|]. exists l0, qs0, q; auto.
  - exfalso. exact (restrict_seq_never_refused _ _ _ _ E).
  - reflexivity.
Qed.

Lemma decompose_call_ok aslist n labels ps : length labels <= n ->
  decompose_call aslist n labels ps = Ok (decompose_observables labels ps).
Proof.
  intros L. unfold decompose_call, decompose_observables. apply decompose_groups_ok.
  destruct (qubits_by_subsystem_spec labels) as [_ [CH _]].
  intros l qs q I Hq. destruct (CH _ _ I) as [-> _]. apply members_in in Hq. lia.
Qed.

Lemma decompose_call_crash aslist n labels ps : n < length labels ->
  aslist = false \/ ps <> [] -> decompose_call aslist n labels ps = Crashed.
Proof.
  intros L HA. unfold decompose_call. apply decompose_groups_crash; [assumption|].
  destruct (qubits_by_subsystem_spec labels) as [_ [CH CV]].
  specialize (CV n L). apply in_map_iff in CV as [[l qs] [E I]]. simpl in E.
  exists l, qs, n. split; [assumption|]. split; [|lia].
  destruct (CH _ _ I) as [-> _]. apply members_in. split; [assumption|now symmetry].
Qed.

Lemma decompose_call_empty_list n labels :
  decompose_call true n labels [] = Ok (decompose_observables labels []).
Proof.
  unfold decompose_call, decompose_observables.
  induction (qubits_by_subsystem labels) as [|[l qs] r IH]; simpl; [reflexivity|].
  now rewrite IH.
Qed.

Lemma decompose_call_never_refused aslist n labels ps : decompose_call aslist n labels ps <> Refused.
Proof.
  unfold decompose_call. induction (qubits_by_subsystem labels) as [|[l qs] r IH]; simpl; [discriminate|].
  destruct (restrict_seq aslist n qs ps) as [sub| |] eqn:E; simpl.
  - destruct (decompose_groups aslist n r ps); simpl; [discriminate|congruence|discriminate].
  - exfalso. exact (restrict_seq_never_refused _ _ _ _ E).
  - discriminate.
Qed.

(* ---------- expand: totality and the reason of a refusal ---------- *)
Lemma first_missing_find_all oq fq i :
  first_missing oq fq i = None <-> exists m, find_all oq fq = Some m.
Proof.
  revert i; induction oq as [|q r IH]; intros i; simpl.
  - split; [eauto|reflexivity].
  - destruct (index_of q fq) as [j|].
    + rewrite IH. split; intros [m Hm].
      * rewrite Hm; simpl; eauto.
      * destruct (find_all r fq) as [m'|]; [eauto|discriminate].
    + split; [discriminate|intros [m Hm]; discriminate].
Qed.

Lemma first_missing_Some oq fq i k : first_missing oq fq i = Some k ->
  i <= k /\ k - i < length oq /\ ~ In (nth (k - i) oq 0) fq /\
  forall j, j < k - i -> In (nth j oq 0) fq.
Proof.
  revert i; induction oq as [|q r IH]; intros i; simpl; [discriminate|].
  destruct (index_of q fq) as [j|] eqn:E.
  - intros H. destruct (IH _ H) as [A [B [C D]]].
    assert (X : k - i = S (k - S i)) by lia. rewrite X.
    split; [lia|]. split; [lia|]. split; [exact C|].
    intros [|j'] Hj; [apply index_of_Some in E as [E1 E2]; rewrite <- E2; now apply nth_In|].
    apply D; lia.
  - intros H; inversion H; subst. rewrite Nat.sub_diag.
    split; [lia|]. split; [lia|]. split; [now apply index_of_None|]. intros; lia.
Qed.

Lemma expand_never_crashes nobs oq fq ps : expand nobs oq fq ps <> Crashed.
Proof.
  unfold expand. destruct (negb _); [discriminate|]. destruct (find_all oq fq); discriminate.
Qed.

Lemma find_all_incl oq fq m : find_all oq fq = Some m -> incl oq fq.
Proof.
  intros H q Hq. destruct (find_all_Some _ _ _ H) as [_ N].
  apply In_nth with (d := 0) in Hq as [k [Hk <-]]. destruct (N k Hk) as [A <-]. now apply nth_In.
Qed.

Lemma expand_ok_iff nobs oq fq ps :
  (exists out, expand nobs oq fq ps = Ok out) <-> nobs = length oq /\ incl oq fq.
Proof.
  unfold expand. destruct (Nat.eqb_spec nobs (length oq)) as [E|N]; simpl.
  - destruct (find_all oq fq) as [m|] eqn:F.
    + split; [intros _; split; [assumption|eapply find_all_incl; eassumption]|eauto].
    + split; [intros [out H]; discriminate|].
      intros [_ I]. destruct (find_all_total _ _ I) as [m Hm]. congruence.
  - split; [intros [out H]; discriminate|tauto].
Qed.

Lemma expand_refused_iff nobs oq fq ps :
  expand nobs oq fq ps = Refused <-> expand_refusal nobs oq fq <> None.
Proof.
  unfold expand, expand_refusal. destruct (negb _); [split; [discriminate|reflexivity]|].
  destruct (find_all oq fq) as [m|] eqn:F.
  - assert (X : first_missing oq fq 0 = None) by (apply first_missing_find_all; eauto).
    rewrite X; simpl. split; [discriminate|congruence].
  - destruct (first_missing oq fq 0) as [k|] eqn:M; simpl.
    + split; [discriminate|reflexivity].
    + apply first_missing_find_all in M as [m Hm]. congruence.
Qed.

Lemma expand_refusal_count nobs oq fq a b : expand_refusal nobs oq fq = Some (RCount a b) ->
  nobs <> length oq /\ a = nobs /\ b = length oq.
Proof.
  unfold expand_refusal. destruct (Nat.eqb_spec nobs (length oq)) as [E|N]; simpl.
  - destruct (first_missing oq fq 0); simpl; discriminate.
  - intros H; inversion H; subst; auto.
Qed.

Lemma expand_refusal_missing nobs oq fq i : expand_refusal nobs oq fq = Some (RMissing i) ->
  nobs = length oq /\ i < length oq /\ ~ In (nth i oq 0) fq /\ forall j, j < i -> In (nth j oq 0) fq.
Proof.
  unfold expand_refusal. destruct (Nat.eqb_spec nobs (length oq)) as [E|N]; simpl; [|discriminate].
  destruct (first_missing oq fq 0) as [k|] eqn:M; simpl; [|discriminate].
  intros H; inversion H; subst. apply first_missing_Some in M. rewrite Nat.sub_0_r in M.
  destruct M as [_ [A [B C]]]. auto.
Qed.

Lemma expand_refusal_none nobs oq fq :
  expand_refusal nobs oq fq = None <-> nobs = length oq /\ incl oq fq.
Proof.
  unfold expand_refusal. destruct (Nat.eqb_spec nobs (length oq)) as [E|N]; simpl.
  - destruct (first_missing oq fq 0) as [k|] eqn:M; simpl.
    + split; [discriminate|]. intros [_ I]. destruct (find_all_total _ _ I) as [m Hm].
      assert (X : first_missing oq fq 0 = None) by (apply first_missing_find_all; eauto). congruence.
    + split; [|reflexivity]. intros _. split; [assumption|].
      apply first_missing_find_all in M as [m Hm]. eapply find_all_incl; eassumption.
  - split; [discriminate|tauto].
Qed.

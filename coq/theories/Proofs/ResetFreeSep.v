(* Proofs/ResetFreeSep.v — the SEPARATED wire-cutting workflow yields reset-free subexperiments (C19):
     cut_wires (Model/CutWires.v, C03)  ->  partition_problem (Model/Partition.v + Model/Separate.v, C10)
     ->  one subexperiment per partition / observable group / map choice (Model/ResetFree.v).

   "Source half is the last instruction on its qubit, destination half the first" is a PER-WIRE statement, so it is
   carried along the chain  cut circuit -> partition_circuit_qubits -> numbering -> TwoQubitQPDGate halves -> dx ->
   restriction to a label -> qubit re-indexing  on the per-wire views (Proofs/SeparateP.v [wire_view]) that C10's
   recomposition theorem ([problem_recompose]) equates.  No axioms. *)
From Coq Require Import Lia ZifyBool Sorted Permutation.
From CKT Require Import Common.Base Common.Circ Model.Observables Proofs.ObservablesP.
From CKT Require Import Model.ResetPasses Model.Decompose Model.Measurement Model.ResetFree.
From CKT Require Import Proofs.ResetPassesP Proofs.DecomposeP Proofs.ResetFreeP.
From CKT Require Import Model.Separate Model.Partition Proofs.SeparateP Proofs.PartitionP.
From CKT Require Import Model.Grouping Proofs.GroupingP.
From CKT Require Import Model.CutWires Proofs.CutWiresP Proofs.ResetFreeCut.

(* ================================================================================================
   Part A — the per-wire form of no_reuse
   ================================================================================================ *)

(* on the wire a (a list of instructions): a source on a is the last element, a destination on a the first *)
Definition wire_ok (env : benv) (a : nat) (w : circ) : Prop :=
  forall w1 x w2, w = w1 ++ x :: w2 ->
    (src_qubit env x = Some a -> w2 = []) /\ (dst_qubit env x = Some a -> w1 = []).

(* x' is a source / destination only where x is *)
Definition sd_le (env : benv) (x x' : instr) : Prop :=
  (forall a, src_qubit env x' = Some a -> src_qubit env x = Some a) /\
  (forall a, dst_qubit env x' = Some a -> dst_qubit env x = Some a).

Lemma sd_le_refl env x : sd_le env x x.
Proof. split; auto. Qed.

Lemma wire_ok_rel env a w w' : Forall2 (sd_le env) w w' -> wire_ok env a w -> wire_ok env a w'.
Proof.
  intros F H w1' x' w2' E. subst w'.
  apply Forall2_app_inv_r in F as (w1 & t & F1 & F2 & ->).
  inversion F2 as [|x ? w2 ? Rx F3]; subst.
  destruct (H w1 x w2 eq_refl) as [S D]. destruct Rx as [Rs Rd]. split.
  - intros Es. rewrite (S (Rs _ Es)) in F3. now inversion F3.
  - intros Ed. rewrite (D (Rd _ Ed)) in F1. now inversion F1.
Qed.

Lemma Forall2_filter {A} (R : A -> A -> Prop) (p p' : A -> bool) l l' :
  (forall x x', R x x' -> p x = p' x') -> Forall2 R l l' -> Forall2 R (filter p l) (filter p' l').
Proof.
  intros H F. induction F as [|x x' l l' Rx F IH]; simpl; [constructor|].
  rewrite <- (H x x' Rx). destruct (p x); [constructor|]; assumption.
Qed.

Lemma Forall2_weaken {A} (R1 R2 : A -> A -> Prop) l l' :
  (forall x x', R1 x x' -> R2 x x') -> Forall2 R1 l l' -> Forall2 R2 l l'.
Proof. intros H F. induction F; constructor; auto. Qed.

Lemma Forall2_weaken_in {A} (R1 R2 : A -> A -> Prop) l l' :
  (forall x x', In x l -> R1 x x' -> R2 x x') -> Forall2 R1 l l' -> Forall2 R2 l l'.
Proof.
  intros H F. induction F as [|x x' l l' Rx F IH]; constructor.
  - apply H; [now left|exact Rx].
  - apply IH. intros y y' Iy. apply H. now right.
Qed.

Lemma Forall2_map_r {A} (R : A -> A -> Prop) (f : A -> A) l :
  (forall x, In x l -> R x (f x)) -> Forall2 R l (map f l).
Proof.
  induction l as [|x l IH]; intros H; simpl; constructor.
  - apply H. now left.
  - apply IH. intros y Hy. apply H. now right.
Qed.

Lemma Forall2_trans_le env w w' w'' :
  Forall2 (sd_le env) w w' -> Forall2 (sd_le env) w' w'' -> Forall2 (sd_le env) w w''.
Proof.
  intros F. revert w''. induction F as [|x x' l l' Rx F IH]; intros w'' G; inversion G; subst; constructor.
  - destruct Rx as [A B]. match goal with H : sd_le env x' _ |- _ => destruct H as [A' B'] end. split; auto.
  - now apply IH.
Qed.

Lemma sd_norm_b env a x : src_qubit env (norm_b a x) = src_qubit env x /\ dst_qubit env (norm_b a x) = dst_qubit env x.
Proof.
  unfold norm_b, is_barrier, src_qubit, dst_qubit. destruct (iop x) eqn:E; simpl; rewrite ?E; auto.
Qed.

Lemma untouched_filter q l : ResetFree.untouched q l = true <-> filter (touches q) l = [].
Proof.
  unfold ResetFree.untouched. induction l as [|y l IH]; simpl; [tauto|].
  change (touches q y) with (on_wire q y). destruct (on_wire q y); simpl; [split; discriminate|exact IH].
Qed.

(* no_reuse, read wire by wire *)
Lemma no_reuse_wires env nq C : no_reuse env nq C -> forall a, wire_ok env a (filter (touches a) C).
Proof.
  intros H a w1 x w2 E. rewrite <- (map_id (filter (touches a) C)) in E.
  destruct (map_filter_split (fun y => y) (touches a) C w1 x w2 E) as (pre & x0 & post & -> & Px & <- & M1 & M2).
  rewrite map_id in M1, M2. destruct (H pre x0 post eq_refl) as (_ & S & D). split.
  - intros Es. rewrite <- M2. apply untouched_filter. now apply S.
  - intros Ed. rewrite <- M1. apply untouched_filter. now apply D.
Qed.

(* ================================================================================================
   Part B — what the instructions look like along the chain, and how each step acts on a wire
   ================================================================================================ *)
Section Chain.
  Variable env : benv.
  Variable SP : nat -> Prop.                 (* the positions a Move-like source may sit on *)

  Definition plain (x : instr) : Prop := is_reset x = false /\ is_qpd x = false.

  (* before TwoQubitQPDGate._define: plain, or a two-qubit placeholder on two different qubits, class 0 / 1 *)
  Definition desc2 (x : instr) : Prop :=
    plain x \/
    exists b bid lbl p q, iop x = Qpd2 b bid lbl /\ iqs x = [p; q] /\ p <> q /\
      basis_class env b <> 2 /\ (basis_class env b = 1 -> SP p).

  (* afterwards: plain, or a one-qubit half *)
  Definition desc1 (x : instr) : Prop :=
    plain x \/
    exists b h bid lbl a, iop x = Qpd1 b h bid lbl /\ iqs x = [a] /\
      basis_class env b <> 2 /\ (basis_class env b = 1 -> h = 0 -> SP a).

  (* ---- partition_circuit_qubits ---- *)
  Variable basis_of : op -> option (nat * qlabel).
  (* "the gate i, if partition_circuit_qubits has to cut it, is cut with a basis without Reset" *)
  Definition cut_reset_free (i : instr) : Prop :=
    is_qpd2 i = false -> forall b l, basis_of (iop i) = Some (b, l) -> basis_class env b = 0.

  Lemma span_same (ls : list label) p : length (span_labels ls [p; p]) = 1.
  Proof.
    unfold span_labels. simpl. set (l := nth p ls None).
    assert (E : label_beq l l = true) by (destruct l; simpl; [apply Nat.eqb_refl|reflexivity]).
    now rewrite E.
  Qed.

  Lemma pcq_desc2 ls i i' : cut_reset_free i -> pcq_rel basis_of ls i i' -> desc2 i -> desc2 i'.
  Proof.
    intros GC [->|(b & lbl & EB & -> & _ & NQ & L2 & SPN)] D; [exact D|]. right.
    destruct (iqs i) as [|p [|q [|? ?]]] eqn:EQ; try discriminate.
    exists b, None, lbl, p, q. pose proof (GC NQ _ _ EB) as K. simpl.
    repeat split; try lia.
    intros ->. apply SPN. apply span_same.
  Qed.

  Lemma pcq_le ls i i' : cut_reset_free i -> pcq_rel basis_of ls i i' -> iqs i' = iqs i /\ sd_le env i i'.
  Proof.
    intros GC [->|(b & lbl & EB & -> & _ & NQ & _)]; [split; [reflexivity|apply sd_le_refl]|].
    pose proof (GC NQ _ _ EB) as K. split; [reflexivity|].
    unfold sd_le, src_qubit, dst_qubit. simpl. rewrite K. simpl. split; discriminate.
  Qed.

  (* ---- numbering ---- *)
  Variable relabel : qlabel -> nat.

  Lemma relabel_desc2 k x : desc2 x -> desc2 (relabel_instr relabel k x).
  Proof.
    intros [[R Q]|(b & bid & lbl & p & q & EO & EQ & N & K & S)].
    - left. assert (E : relabel_instr relabel k x = x).
      { unfold relabel_instr. unfold is_qpd in Q. destruct (iop x); try discriminate; reflexivity. }
      rewrite E. now split.
    - right. unfold relabel_instr. rewrite EO. exists b, bid, (Some (relabel lbl, Some k)), p, q. simpl. auto.
  Qed.

  Lemma relabel_le k x : iqs (relabel_instr relabel k x) = iqs x /\ sd_le env x (relabel_instr relabel k x).
  Proof.
    unfold relabel_instr, sd_le, src_qubit, dst_qubit. destruct (iop x) eqn:E; simpl; rewrite ?E; auto.
  Qed.

  Lemma number_rel : forall c i,
    Forall2 (fun x x' => exists k, x' = relabel_instr relabel k x) c (fst (number_qpd relabel c i)).
  Proof.
    induction c as [|x r IH]; intros i; [constructor|]. rewrite number_cons.
    destruct (is_qpd2 x) eqn:Q; simpl; constructor; auto.
    - now exists i.
    - exists 0. unfold relabel_instr. unfold is_qpd2 in Q. destruct (iop x); try discriminate; reflexivity.
  Qed.

  (* ---- TwoQubitQPDGate._define ---- *)
  Lemma expand_desc1 w z : desc2 w -> In z (expand_instr w) -> desc1 z.
  Proof.
    intros [[R Q]|(b & bid & lbl & p & q & EO & EQ & N & K & S)] Hz; unfold expand_instr in Hz.
    - unfold is_qpd in Q. destruct (iop w) eqn:E; try discriminate; destruct Hz as [<-|[]]; left; split; auto;
        unfold is_qpd; now rewrite E.
    - rewrite EO, EQ in Hz. destruct Hz as [<-|[<-|[]]]; right.
      + exists b, 0, bid, lbl, p. simpl. auto.
      + exists b, 1, bid, lbl, q. simpl. repeat split; auto. discriminate.
  Qed.

  (* the half of a two-qubit placeholder that sits on wire a *)
  Definition half_on (a : nat) (x : instr) : instr :=
    match iop x, iqs x with
    | Qpd2 b bid lbl, [p; q] => if Nat.eqb a p then mkI (Qpd1 b 0 bid lbl) [p] [] else mkI (Qpd1 b 1 bid lbl) [q] []
    | _, _ => x
    end.

  Lemma half_on_le a x : sd_le env x (half_on a x).
  Proof.
    unfold half_on. destruct (iop x) eqn:EO; try apply sd_le_refl.
    destruct (iqs x) as [|p [|q [|? ?]]] eqn:EQ; try apply sd_le_refl.
    unfold sd_le, src_qubit, dst_qubit. rewrite EO, EQ.
    destruct (Nat.eqb a p); simpl; destruct (Nat.eqb (basis_class env b) 1); simpl; split; intros; congruence.
  Qed.

  Lemma wire_of_expand a : forall C, (forall x, In x C -> desc2 x) ->
    filter (touches a) (expand_qpd2 C) = map (half_on a) (filter (touches a) C).
  Proof.
    induction C as [|x r IH]; intros H; [reflexivity|].
    unfold expand_qpd2 in *. cbn [flat_map]. rewrite filter_app, IH by (intros y Hy; apply H; now right).
    cbn [filter]. assert (D := H x (or_introl eq_refl)).
    destruct D as [[R Q]|(b & bid & lbl & p & q & EO & EQ & N & K & S)].
    - assert (E1 : expand_instr x = [x]).
      { unfold expand_instr. unfold is_qpd in Q. destruct (iop x); try discriminate; reflexivity. }
      assert (E2 : half_on a x = x).
      { unfold half_on. unfold is_qpd in Q. destruct (iop x); try discriminate; reflexivity. }
      rewrite E1. cbn [filter]. destruct (touches a x); cbn [map app]; now rewrite ?E2.
    - assert (EH : half_on a x = if Nat.eqb a p then mkI (Qpd1 b 0 bid lbl) [p] [] else mkI (Qpd1 b 1 bid lbl) [q] [])
        by (unfold half_on; now rewrite EO, EQ).
      assert (ET : touches a x = Nat.eqb a p || Nat.eqb a q).
      { unfold touches, memb. rewrite EQ. cbn [existsb]. now rewrite orb_false_r. }
      unfold expand_instr. rewrite EO, EQ, ET. unfold touches, memb. cbn [filter iqs existsb].
      rewrite !orb_false_r.
      destruct (Nat.eqb_spec a p) as [Ep|Np], (Nat.eqb_spec a q) as [Eq|Nq]; cbn [orb map app]; rewrite ?EH;
        try reflexivity; try congruence.
  Qed.
End Chain.

(* ================================================================================================
   Part C — the cut_wires output: its instructions, and where its Move-like sources sit
   ================================================================================================ *)

(* a position strictly inside the block of some original qubit g, before the position of the original Qubit object
   (= final_position): the position of a wire segment that a later marker moves on *)
Definition src_pos (nq : nat) (c : circ) (p : nat) : Prop :=
  exists g, g < nq /\ block_start (cut_freq c) g <= p < block_end (cut_freq c) g.

Lemma cut_wires_In fac nq c y : wf_circ nq c = true -> In y (cut_wires_gen fac nq c) ->
  (exists p, y = mkI fac [p; p + 1] [] /\ src_pos nq c p) \/
  (exists i m, In i c /\ is_marker i = false /\ y = mkI (iop i) (map (fun q => nth q m 0) (iqs i)) (ics i) /\
     forall g, g < nq -> block_start (cut_freq c) g <= nth g m 0 <= block_end (cut_freq c) g).
Proof.
  intros W I. unfold cut_wires_gen in I. set (m0 := fst (structure_mapping nq c)) in *.
  apply in_split in I as (pre & post & E).
  destruct (tcw_split_inv fac pre m0 c y post E) as (c1 & i & c2 & Ec & Ep & Ex).
  pose proof (initial_mapping_length nq c) as L0. fold m0 in L0.
  assert (W' := W). rewrite Ec in W'. apply wf_circ_app in W' as [W1 W2]. apply wf_circ_cons in W2 as [Wi W2].
  destruct (run_map_spec nq c1 m0 W1 L0) as [L1 N1].
  destruct (wf_instr_spec nq i Wi) as [Rq Mq].
  simpl in Ex. destruct (is_marker i) eqn:M.
  - left. destruct (Mq eq_refl) as [_ G]. set (g := marker_qubit i) in *.
    injection Ex as -> _. exists (nth g (run_map m0 c1) 0). split; [reflexivity|].
    exists g. split; [exact G|]. rewrite N1. unfold m0. rewrite initial_mapping by exact G.
    assert (Fg : cut_freq c g = cut_freq c1 g + 1 + cut_freq c2 g).
    { rewrite Ec, cut_freq_app, cut_freq_cons, M. fold g. destruct (Nat.eq_dec g g); [lia|congruence]. }
    unfold block_end. lia.
  - right. injection Ex as -> _. exists i, (run_map m0 c1).
    split; [rewrite Ec; apply in_or_app; right; now left|]. split; [exact M|]. split; [reflexivity|].
    intros g G. rewrite N1. unfold m0. rewrite initial_mapping by exact G.
    assert (Fg : cut_freq c g = cut_freq c1 g + cut_freq (i :: c2) g) by (rewrite Ec; apply cut_freq_app).
    unfold block_end. lia.
Qed.

(* the admissible inputs of cut_wires for this property: no Reset, no SingleQubitQPDGate; a TwoQubitQPDGate that is
   already there (a gate cut) has a basis without Reset and acts on two different qubits *)
Definition pre_ok (env : benv) (x : instr) : bool :=
  match iop x with
  | Reset => false
  | Qpd1 _ _ _ _ => false
  | Qpd2 b _ _ => Nat.eqb (basis_class env b) 0 && match iqs x with [p; q] => negb (Nat.eqb p q) | _ => false end
  | _ => true
  end.
Definition input_ok (env : benv) (c : circ) : bool := forallb (pre_ok env) c.

Lemma input_ok_plain env c : no_resets c = true -> no_placeholders c = true -> input_ok env c = true.
Proof.
  unfold no_resets, no_placeholders, input_ok. rewrite !forallb_forall. intros R Q x Ix.
  pose proof (R x Ix) as Rx. pose proof (Q x Ix) as Qx. apply negb_true_iff in Rx, Qx.
  unfold pre_ok, is_reset, is_qpd in *. destruct (iop x); try discriminate; reflexivity.
Qed.

(* relocated positions of two different original qubits differ and lie inside the cut circuit *)
Lemma reloc_bounds nq c (m : list nat) : wf_circ nq c = true ->
  (forall g, g < nq -> block_start (cut_freq c) g <= nth g m 0 <= block_end (cut_freq c) g) ->
  (forall g, g < nq -> nth g m 0 < nq + count_markers c) /\
  (forall g g', g < nq -> g' < nq -> g <> g' -> nth g m 0 <> nth g' m 0).
Proof.
  intros W B. split.
  - intros g G. pose proof (block_end_bound (cut_freq c) nq g G) as Bd. rewrite (sum_cut_freq nq c W) in Bd.
    pose proof (B g G). lia.
  - intros g g' G G' N E. pose proof (B g G). pose proof (B g' G').
    apply (blocks_disjoint (cut_freq c) g g' (nth g m 0) N); lia.
Qed.

(* cut_wires_no_reuse (Proofs/ResetFreeCut.v) with gate-cut placeholders allowed in the input *)
Theorem cut_wires_no_reuse_gen (env : benv) nq c b bid lbl :
  wf_circ nq c = true -> input_ok env c = true -> basis_class env b = 1 ->
  no_reuse env (nq + count_markers c) (cut_wires_gen (Qpd2 b bid lbl) nq c).
Proof.
  intros W IO K pre x post E. unfold cut_wires_gen in E.
  set (fac := Qpd2 b bid lbl) in *. set (m0 := fst (structure_mapping nq c)) in *.
  pose proof (initial_mapping_length nq c) as L0. fold m0 in L0.
  destruct (tcw_split_inv fac pre m0 c x post E) as (c1 & i & c2 & Ec & Ep & Ex).
  assert (W' := W). rewrite Ec in W'. apply wf_circ_app in W' as [W1 W2]. apply wf_circ_cons in W2 as [Wi W2].
  destruct (run_map_spec nq c1 m0 W1 L0) as [L1 N1]. set (m1 := run_map m0 c1) in *.
  assert (B0 : forall g, g < nq -> nth g m0 0 = block_start (cut_freq c) g)
    by (intros g G; unfold m0; now apply initial_mapping).
  destruct (wf_instr_spec nq i Wi) as [Rq Mq].
  simpl in Ex. destruct (is_marker i) eqn:M.
  - (* a marker: the placeholder on (p, p+1) — as in cut_wires_no_reuse *)
    destruct (Mq eq_refl) as [_ G]. set (g := marker_qubit i) in *.
    injection Ex as -> ->. set (p := nth g m1 0).
    assert (Pg : p = block_start (cut_freq c) g + cut_freq c1 g) by (unfold p; rewrite N1, B0 by assumption; reflexivity).
    assert (Fg : cut_freq c g = cut_freq c1 g + 1 + cut_freq c2 g).
    { rewrite Ec, cut_freq_app, cut_freq_cons, M. fold g. destruct (Nat.eq_dec g g); [lia|congruence]. }
    assert (Fo : forall g', g' <> g -> cut_freq c g' = cut_freq c1 g' + cut_freq c2 g').
    { intros g' N. rewrite Ec, cut_freq_app, cut_freq_cons, M. fold g. destruct (Nat.eq_dec g g'); [congruence|lia]. }
    assert (Pb : p + 1 < nq + count_markers c).
    { pose proof (block_end_bound (cut_freq c) nq g G) as Bd. rewrite (sum_cut_freq nq c W) in Bd.
      unfold block_end in Bd. lia. }
    split; [|split].
    + unfold allowed, fac. cbn [iop iqs]. rewrite K. simpl.
      replace (Nat.ltb p (nq + count_markers c)) with true by (symmetry; apply Nat.ltb_lt; lia).
      replace (Nat.ltb (p + 1) (nq + count_markers c)) with true by (symmetry; apply Nat.ltb_lt; lia).
      replace (Nat.eqb p (p + 1)) with false by (symmetry; apply Nat.eqb_neq; lia). reflexivity.
    + unfold src_qubit, fac. cbn [iop iqs]. rewrite K. simpl. intros q Eq. injection Eq as <-.
      apply untouched_intro. intros y I P.
      destruct (tcw_uses fac nq c2 (upd m1 g (p + 1)) W2 ltac:(now rewrite upd_length) y I p P) as (g' & G' & Bd).
      rewrite nth_upd_eq in Bd by lia. destruct (Nat.eq_dec g' g) as [->|N]; [lia|].
      rewrite N1, B0 in Bd by assumption.
      apply (blocks_disjoint (cut_freq c) g g' p); [congruence| |]; unfold block_end; [lia|]. rewrite (Fo g' N). lia.
    + unfold dst_qubit, fac. cbn [iop iqs]. rewrite K. simpl. intros q Eq. injection Eq as <-.
      apply untouched_intro. intros y I P. rewrite Ep in I.
      destruct (tcw_uses fac nq c1 m0 W1 L0 y I (p + 1) P) as (g' & G' & Bd).
      rewrite B0 in Bd by assumption. destruct (Nat.eq_dec g' g) as [->|N]; [lia|].
      apply (blocks_disjoint (cut_freq c) g g' (p + 1)); [congruence| |]; unfold block_end; [lia|]. rewrite (Fo g' N). lia.
  - (* an ordinary instruction, relocated; a gate-cut placeholder stays one on two different qubits *)
    injection Ex as -> _.
    assert (Hi : In i c) by (rewrite Ec; apply in_or_app; right; now left).
    unfold input_ok in IO. rewrite forallb_forall in IO. pose proof (IO i Hi) as P. unfold pre_ok in P.
    assert (Bm : forall g, g < nq -> block_start (cut_freq c) g <= nth g m1 0 <= block_end (cut_freq c) g).
    { intros g G. unfold m1. rewrite N1, B0 by exact G.
      assert (Fg : cut_freq c g = cut_freq c1 g + cut_freq (i :: c2) g) by (rewrite Ec; apply cut_freq_app).
      unfold block_end. lia. }
    destruct (reloc_bounds nq c m1 W Bm) as [Bn Bd].
    unfold allowed, src_qubit, dst_qubit. cbn [iop iqs].
    destruct (iop i) eqn:EO; try discriminate; try (repeat split; intros; discriminate).
    apply andb_true_iff in P. destruct P as [P0 P1]. apply Nat.eqb_eq in P0. rewrite P0. cbn [Nat.eqb negb andb].
    destruct (iqs i) as [|p [|q [|? ?]]] eqn:EQ; try discriminate. apply negb_true_iff, Nat.eqb_neq in P1.
    assert (Lp : p < nq) by (apply Rq; now left). assert (Lq : q < nq) by (apply Rq; right; now left).
    split; [|split; intros; discriminate]. cbn [map].
    pose proof (Bn p Lp). pose proof (Bn q Lq). pose proof (Bd p q Lp Lq P1).
    apply andb_true_intro; split; [apply andb_true_intro; split|]; [now apply Nat.ltb_lt|now apply Nat.ltb_lt|].
    apply negb_true_iff. now apply Nat.eqb_neq.
Qed.

(* such a position is not the position of an original qubit: expanded observables carry the identity there *)
Lemma src_pos_not_final nq c p q : src_pos nq c p -> q < nq -> p <> final_position c q.
Proof.
  intros (g & G & B) Q E. unfold final_position in E. destruct (Nat.eq_dec g q) as [->|N]; [lia|].
  apply (blocks_disjoint (cut_freq c) g q p N); unfold block_end in *; lia.
Qed.

Section Cut.
  Variables (env : benv) (nq : nat) (c : circ) (b : nat) (bid : option nat) (lbl : qlabel).
  Hypothesis W : wf_circ nq c = true.
  Hypothesis IO : input_ok env c = true.
  Hypothesis K : basis_class env b = 1.

  Lemma cut_desc2 y : In y (cut_wires_gen (Qpd2 b bid lbl) nq c) -> desc2 env (src_pos nq c) y.
  Proof.
    intros I. destruct (cut_wires_In _ _ _ _ W I) as [(p & -> & S)|(i & m & Ii & M & -> & Bm)].
    - right. exists b, bid, lbl, p, (p + 1). simpl. rewrite K. repeat split; auto; lia.
    - unfold input_ok in IO. rewrite forallb_forall in IO. pose proof (IO i Ii) as P. unfold pre_ok in P.
      destruct (iop i) eqn:EO; try discriminate;
        try (left; split; reflexivity).
      right. apply andb_true_iff in P. destruct P as [P0 P1]. apply Nat.eqb_eq in P0.
      destruct (iqs i) as [|p [|q [|? ?]]] eqn:EQ; try discriminate. apply negb_true_iff, Nat.eqb_neq in P1.
      destruct (wf_instr_spec nq i) as [Rq _].
      { unfold wf_circ in W. rewrite forallb_forall in W. now apply W. }
      assert (Lp : p < nq) by (apply Rq; rewrite EQ; now left).
      assert (Lq : q < nq) by (apply Rq; rewrite EQ; right; now left).
      destruct (reloc_bounds nq c m W Bm) as [_ Bd].
      exists b0, bid0, lbl0, (nth p m 0), (nth q m 0). cbn [iop iqs map]. rewrite P0.
      repeat split; auto; discriminate.
  Qed.

  Lemma cut_no_uuid : no_uuid c -> no_uuid (cut_wires_gen (Qpd2 b bid lbl) nq c).
  Proof.
    intros NU y I. destruct (cut_wires_In _ _ _ _ W I) as [(p & -> & S)|(i & m & Ii & M & -> & _)]; [reflexivity|].
    pose proof (NU i Ii) as U. unfold uuid_of in *. cbn [iop iqs]. now rewrite map_length.
  Qed.
End Cut.

(* ================================================================================================
   Part D — one subcircuit of separate_circuit: membership and wires, read through the qubit re-indexing
   ================================================================================================ *)
Lemma remap_all_In_inv qs cl : forall c c' x', remap_all qs cl c = Some c' -> In x' c' ->
  exists x, In x c /\ remap_instr qs cl x = Some x'.
Proof.
  induction c as [|i r IH]; simpl; intros c' x' H Hx.
  - inversion H; subst. destruct Hx.
  - destruct (remap_instr qs cl i) as [i'|] eqn:E; [|discriminate].
    destruct (remap_all qs cl r) as [r'|] eqn:ER; [|discriminate]. inversion H; subst.
    destruct Hx as [<-|Hx].
    + exists i. split; [now left|exact E].
    + destruct (IH r' x' eq_refl Hx) as (x & Ix & Ex). exists x. split; [now right|exact Ex].
Qed.

Lemma restrict_In ls l D x : In x (flat_map (restrict_instr ls l) D) -> is_barrier x = true \/ In x D.
Proof.
  intros H. apply in_flat_map in H as (z & Iz & Hx). unfold restrict_instr in Hx.
  destruct (needs_split z).
  - unfold join_qs in Hx. destruct (filter (in_l ls l) (iqs z)); [destruct Hx|]. destruct Hx as [<-|[]]. now left.
  - destruct (of_l ls l z); [|destruct Hx]. destruct Hx as [<-|[]]. now right.
Qed.

Lemma remap_single qs cl z x a : remap_instr qs cl z = Some x -> iqs z = [a] ->
  exists a', iqs x = [a'] /\ a' < length qs /\ nth a' qs 0 = a.
Proof.
  unfold remap_instr. intros H E. rewrite E in H. simpl in H.
  destruct (index_of a qs) as [a'|] eqn:EI; [|discriminate]. simpl in H.
  destruct (find_all (ics z) cl); [|discriminate]. inversion H; subst x. simpl.
  exists a'. split; [reflexivity|]. now apply index_of_Some.
Qed.

Section Body.
  Variables (env : benv) (SP : nat -> Prop).
  Variables (ls : list label) (l n : nat) (D cut' body : circ).
  Let oms := omembers ls l n.
  Let un := unmap_instr oms [].
  Hypothesis HD : forall z, In z D -> desc1 env SP z.
  Hypothesis HB : remap_all oms [] (flat_map (restrict_instr ls l) D) = Some body.
  Hypothesis WV : forall a, nth a ls None = Some l -> wire_view a (map un body) = wire_view a cut'.
  Hypothesis WOK : forall a, wire_ok env a (wire_view a cut').

  (* an instruction of the subcircuit: plain (barriers included), or a half on one re-indexed qubit *)
  Lemma body_cases x : In x body ->
    plain x \/
    exists b h bid lbl a', iop x = Qpd1 b h bid lbl /\ iqs x = [a'] /\ a' < length oms /\
      basis_class env b <> 2 /\ (basis_class env b = 1 -> h = 0 -> SP (nth a' oms 0)).
  Proof.
    intros I. destruct (remap_all_In_inv _ _ _ _ _ HB I) as (y & Iy & Ey).
    destruct (remap_instr_op _ _ _ _ Ey) as [EO _].
    apply restrict_In in Iy as [IB|Iy].
    - left. unfold plain, is_reset, is_qpd. rewrite EO. unfold is_barrier in IB. destruct (iop y); try discriminate; auto.
    - destruct (HD y Iy) as [[R Q]|(b & h & bid & lbl & a & EOy & EQ & K & S)].
      + left. unfold plain, is_reset, is_qpd in *. now rewrite EO.
      + right. destruct (remap_single _ _ _ _ _ Ey EQ) as (a' & E' & L' & N').
        exists b, h, bid, lbl, a'. rewrite EO, N'. auto.
  Qed.

  Lemma body_allowed x : In x body -> allowed env (length oms) x = true.
  Proof.
    intros I. destruct (body_cases x I) as [[R Q]|(b & h & bid & lbl & a' & EO & EQ & L & K & _)]; unfold allowed.
    - unfold is_reset, is_qpd in *. destruct (iop x); try discriminate; reflexivity.
    - rewrite EO, EQ. apply Nat.eqb_neq in K. rewrite K. simpl. now apply Nat.ltb_lt.
  Qed.

  Lemma body_src x q : In x body -> src_qubit env x = Some q ->
    exists b bid lbl, iop x = Qpd1 b 0 bid lbl /\ basis_class env b = 1 /\ iqs x = [q] /\ q < length oms /\ SP (nth q oms 0).
  Proof.
    intros I S. destruct (body_cases x I) as [[R Q]|(b & h & bid & lbl & a' & EO & EQ & L & K & P)]; unfold src_qubit in S.
    - unfold is_qpd in Q. destruct (iop x); discriminate.
    - rewrite EO, EQ in S. destruct h as [|h]; [|discriminate].
      destruct (Nat.eqb_spec (basis_class env b) 1) as [K1|]; [|discriminate]. simpl in S. inversion S; subst a'.
      exists b, bid, lbl. repeat split; auto.
  Qed.

  Lemma body_dst x q : In x body -> dst_qubit env x = Some q ->
    exists b h bid lbl, iop x = Qpd1 b (S h) bid lbl /\ basis_class env b = 1 /\ iqs x = [q] /\ q < length oms.
  Proof.
    intros I S. destruct (body_cases x I) as [[R Q]|(b & h & bid & lbl & a' & EO & EQ & L & K & P)]; unfold dst_qubit in S.
    - unfold is_qpd in Q. destruct (iop x); discriminate.
    - rewrite EO, EQ in S. destruct h as [|h]; [discriminate|].
      destruct (Nat.eqb_spec (basis_class env b) 1) as [K1|]; [|discriminate]. simpl in S. inversion S; subst a'.
      exists b, h, bid, lbl. auto.
  Qed.

  Lemma oms_label q : q < length oms -> nth (nth q oms 0) ls None = Some l.
  Proof. intros L. apply (omembers_in ls l n). now apply nth_In. Qed.

  (* an empty wire of the mapped-back list means the re-indexed qubit is ResetFree.untouched *)
  Lemma wire_empty q rest : wire_view (nth q oms 0) (map un rest) = [] -> ResetFree.untouched q rest = true.
  Proof.
    intros E. apply untouched_intro. intros y Iy Hq.
    assert (X : In (norm_b (nth q oms 0) (un y)) (wire_view (nth q oms 0) (map un rest))).
    { unfold wire_view. apply in_map. apply filter_In. split; [now apply in_map|].
      unfold touches, un, unmap_instr. cbn [iqs]. apply memb_In. apply in_map_iff. exists q. auto. }
    rewrite E in X. destruct X.
  Qed.

  Lemma wire_split pre x post a : body = pre ++ x :: post -> touches a (un x) = true -> nth a ls None = Some l ->
    wire_view a cut' = wire_view a (map un pre) ++ norm_b a (un x) :: wire_view a (map un post).
  Proof.
    intros E T La. rewrite <- (WV a La), E, map_app. cbn [map].
    rewrite wire_view_app. change (un x :: map un post) with ([un x] ++ map un post).
    rewrite wire_view_app, wire_view_single. unfold touches in T. now rewrite T.
  Qed.

  Theorem body_no_reuse : no_reuse env (length oms) body.
  Proof.
    intros pre x post E.
    assert (Ix : In x body) by (rewrite E; apply in_or_app; right; now left).
    split; [now apply body_allowed|]. split.
    - intros q Sq. destruct (body_src x q Ix Sq) as (b & bid & lbl & EO & K & EQ & L & _).
      set (a := nth q oms 0).
      assert (T : touches a (un x) = true).
      { unfold touches, un, unmap_instr. cbn [iqs]. rewrite EQ. simpl. fold a. now rewrite Nat.eqb_refl. }
      pose proof (wire_split pre x post a E T (oms_label q L)) as V.
      destruct (WOK a _ _ _ V) as [S _]. apply wire_empty. fold a. apply S.
      rewrite (proj1 (sd_norm_b env a (un x))). unfold src_qubit, un, unmap_instr. cbn [iop iqs].
      rewrite EO, EQ, K. reflexivity.
    - intros q Dq. destruct (body_dst x q Ix Dq) as (b & h & bid & lbl & EO & K & EQ & L).
      set (a := nth q oms 0).
      assert (T : touches a (un x) = true).
      { unfold touches, un, unmap_instr. cbn [iqs]. rewrite EQ. simpl. fold a. now rewrite Nat.eqb_refl. }
      pose proof (wire_split pre x post a E T (oms_label q L)) as V.
      destruct (WOK a _ _ _ V) as [_ S]. apply wire_empty. fold a. apply S.
      rewrite (proj2 (sd_norm_b env a (un x))). unfold dst_qubit, un, unmap_instr. cbn [iop iqs].
      rewrite EO, EQ, K. reflexivity.
  Qed.
End Body.

(* ================================================================================================
   Part E — cut_wires, then partition_problem: every subcircuit satisfies no_reuse, every observable group of every
   partition avoids the source qubits, hence every subexperiment is reset-free
   ================================================================================================ *)
Definition le2 (env : benv) (x x' : instr) : Prop := iqs x' = iqs x /\ sd_le env x x'.

Lemma le2_wires env a C C' : Forall2 (le2 env) C C' ->
  wire_ok env a (filter (touches a) C) -> wire_ok env a (filter (touches a) C').
Proof.
  intros F. apply wire_ok_rel. apply Forall2_weaken with (R1 := le2 env); [intros x x' [_ H]; exact H|].
  apply Forall2_filter; [|exact F]. intros x x' [E _]. unfold touches. now rewrite E.
Qed.

Section Workflow.
  Variable basis_of : op -> option (nat * qlabel).
  Variable relabel : qlabel -> nat.
  Variable dx : circ -> circ.
  Hypothesis DX : dx_contract dx.
  Variables (env : benv) (nq : nat) (c : circ) (b : nat) (bid : option nat) (lbl : qlabel).
  Hypothesis W : wf_circ nq c = true.
  Hypothesis IO : input_ok env c = true.
  Hypothesis NU : no_uuid c.
  Hypothesis K : basis_class env b = 1.
  Hypothesis GC : forall i b' l', In i c -> basis_of (iop i) = Some (b', l') -> basis_class env b' = 0.
  Let n := nq + CutWires.count_markers c.
  Let cut := cut_wires_gen (Qpd2 b bid lbl) nq c.

  Variables (labels : option (list label)) (obs : option (list pauli)) (ncl ncr : nat).
  Variables (subs : list subcirc) (bases : list nat) (so : option (list (nat * list pauli))).
  Hypothesis PP : partition_problem basis_of relabel dx n ncl ncr cut labels obs = Ok (subs, bases, so).
  Let ls := labels_used n cut labels.

  Lemma sep_facts l nql body : In (l, nql, body) subs ->
    length ls = n /\ nql = length (omembers ls l n) /\
    no_reuse env nql body /\
    forall x q, In x body -> src_qubit env x = Some q ->
      q < nql /\ src_pos nq c (nth q (omembers ls l n) 0).
  Proof.
    intros Hin.
    destruct (partition_problem_ok _ _ _ _ _ _ _ _ _ _ _ _ PP) as [_ [_ [_ [qc [qm [EP [_ [ES _]]]]]]]].
    fold ls in EP, ES.
    pose proof (pcq_ok_rel basis_of n cut ls qc EP) as HF.
    set (qc' := fst (number_qpd relabel qc 0)) in *.
    set (cut' := expand_qpd2 qc').
    pose proof (cut_no_uuid nq c b bid lbl W NU) as NUc. fold cut in NUc.
    pose proof (problem_no_uuid basis_of relabel dx DX ls cut qc NUc HF) as NU'. fold qc' in NU'.
    destruct (separate_spec n [] (dx qc') (Some ls) subs qm NU' ES) as [Ln [_ [_ [_ [_ BODY]]]]].
    simpl sep_labels in *.
    destruct (BODY l nql body Hin) as [_ [Enq RM]]. change (clbits_of []) with (@nil nat) in RM.
    (* wires of the subcircuit = wires of the expanded cut circuit *)
    destruct (problem_recompose basis_of relabel dx DX n ncl ncr cut labels obs subs bases so NUc PP)
      as (qc0 & EP0 & _ & _ & WVall & _).
    fold ls in EP0. rewrite EP in EP0. inversion EP0; subst qc0. fold qc' in WVall. fold cut' in WVall.
    destruct (WVall l nql body Hin) as [_ WV].
    (* the instructions along the chain *)
    assert (D2c : forall y, In y cut -> desc2 env (src_pos nq c) y) by (intros y; now apply cut_desc2).
    assert (GCc : forall y, In y cut -> cut_reset_free env basis_of y).
    { intros y Iy NQ b' l' EB. destruct (cut_wires_In _ _ _ _ W Iy) as [(p & -> & _)|(i & m & Ii & _ & -> & _)]; [discriminate|].
      exact (GC i b' l' Ii EB). }
    assert (D2q : forall y, In y qc -> desc2 env (src_pos nq c) y).
    { intros y Iy. destruct (Forall2_In_r _ _ _ _ HF Iy) as (x & Ix & Rx).
      apply (pcq_desc2 env (src_pos nq c) basis_of ls x y (GCc x Ix) Rx). now apply D2c. }
    assert (D2q' : forall y, In y qc' -> desc2 env (src_pos nq c) y).
    { intros y Iy. destruct (Forall2_In_r _ _ _ _ (number_rel relabel qc 0) Iy) as (x & Ix & k & ->).
      apply relabel_desc2. now apply D2q. }
    assert (D1c : forall z, In z cut' -> desc1 env (src_pos nq c) z).
    { intros z Iz. apply in_flat_map in Iz as (w & Iw & Iz). apply (expand_desc1 env (src_pos nq c) w z); auto. }
    assert (D1D : forall z, In z (dx qc') -> desc1 env (src_pos nq c) z).
    { intros z Iz. apply D1c. apply (Permutation_in _ (proj1 (DX qc')) Iz). }
    (* the wires along the chain *)
    assert (F01 : Forall2 (le2 env) cut qc).
    { apply Forall2_weaken_in with (R1 := pcq_rel basis_of ls); [|exact HF]. intros x x' Ix Rx.
      exact (pcq_le env basis_of ls x x' (GCc x Ix) Rx). }
    assert (F12 : Forall2 (le2 env) qc qc').
    { apply Forall2_weaken with (R1 := fun x x' => exists k, x' = relabel_instr relabel k x); [|apply number_rel].
      intros x x' [k ->]. exact (relabel_le env relabel k x). }
    assert (WOK : forall a, wire_ok env a (wire_view a cut')).
    { intros a. unfold wire_view.
      apply wire_ok_rel with (w := filter (touches a) cut').
      { apply Forall2_map_r. intros x _. destruct (sd_norm_b env a x) as [E1 E2]. split; intros a'; congruence. }
      unfold cut'. rewrite (wire_of_expand env (src_pos nq c) a qc' D2q').
      apply wire_ok_rel with (w := filter (touches a) qc').
      { apply Forall2_map_r. intros x _. apply half_on_le. }
      apply (le2_wires env a qc qc' F12). apply (le2_wires env a cut qc F01).
      apply (no_reuse_wires env n cut). apply cut_wires_no_reuse_gen; assumption. }
    split; [exact Ln|]. split; [exact Enq|]. subst nql. split.
    - exact (body_no_reuse env (src_pos nq c) ls l n (dx qc') cut' body D1D RM WV WOK).
    - intros x q Ix Sq.
      destruct (body_src env (src_pos nq c) ls l n (dx qc') body D1D RM x q Ix Sq) as (_ & _ & _ & _ & _ & _ & L & P).
      auto.
  Qed.

  (* the observables: expanded from the original circuit's qubits, split by partition_problem, grouped per partition *)
  Variables (ps eps : list pauli) (so' : list (nat * list pauli)).
  Hypothesis OBS : obs = Some eps.
  Hypothesis PW : forall p, In p ps -> length (plets p) = nq.
  Hypothesis EX : expand nq (seq 0 nq) (new_qubits nq c) ps = Ok eps.
  Hypothesis SO : so = Some so'.

  Lemma sep_suffix l nql body so_l o cogs lk cog :
    In (l, nql, body) subs -> In (l, so_l) so' ->
    grouping_contract so_l o = true -> collection so_l o = Ok (cogs, lk) -> In cog cogs ->
    suffix_avoids_sources env body (cg_indices cog).
  Proof.
    intros Hin Hso HK HC Hcog x q Ix Sq Hq.
    destruct (sep_facts l nql body Hin) as (Ln & Enq & _ & SRC).
    destruct (SRC x q Ix Sq) as [Lq P]. clear SRC.
    (* the sub-observables of the partition *)
    destruct (partition_problem_ok _ _ _ _ _ _ _ _ _ _ _ _ PP) as [_ [_ [_ [qc [qm [_ [_ [_ EO]]]]]]]].
    fold ls in EO. rewrite OBS, SO in EO.
    assert (ESO : sub_observables ls eps = Ok so').
    { destruct eps as [|e0 er]; [discriminate|]. destruct EO as (s & E1 & E2). now inversion E2; subst. }
    pose proof (subobs_entries ls eps so' l so_l ESO Hso) as Eso. rewrite Ln in Eso.
    (* a measured qubit carries a non-identity letter of some sub-observable *)
    apply In_nth_error in Hcog as [i Hi].
    destruct (collection_spec _ _ _ _ HC) as (_ & M1 & GB & _).
    destruct (GB i cog Hi) as [MG PI].
    destruct (cog_post_init_spec _ _ _ _ PI) as (_ & _ & IDX & _).
    apply IDX in Hq as [_ NZ].
    destruct (mgo_sound _ _ _ MG) as (_ & _ & _ & _ & _ & MIN).
    apply MIN in NZ as (m & Im & NZ).
    assert (Iso : In m so_l).
    { destruct (contract_facts _ _ HK) as (_ & F2 & _). apply F2. apply in_concat.
      exists (cg_members cog). split; [|exact Im]. rewrite <- M1. apply in_map. now apply nth_error_In in Hi. }
    rewrite Eso in Iso. apply in_map_iff in Iso as (r & <- & Ir).
    rewrite restrict1_nth in NZ by (rewrite <- Enq; exact Lq).
    (* ... but the expanded observables are the identity on a source position *)
    rewrite (expand_new_qubits nq c ps W) in EX. inversion EX; subst eps. clear EX.
    apply in_map_iff in Ir as (p & <- & Ip).
    destruct (expand1_letters nq c p W (PW p Ip)) as (_ & _ & _ & ID).
    apply NZ. apply ID. intros q0 Q0. exact (src_pos_not_final nq c _ q0 P Q0).
  Qed.

  Theorem separated_no_reset gh gsx l nql body so_l o cogs lk cog qc ids ms out :
    In (l, nql, body) subs -> In (l, so_l) so' ->
    grouping_contract so_l o = true -> collection so_l o = Ok (cogs, lk) -> In cog cogs ->
    mnq qc = nql -> mdata qc = body -> valid env body ids ms ->
    finish gh gsx env qc ids ms (plets (cg_general cog)) (cg_indices cog) = Ok out ->
    count_resets out = 0.
  Proof.
    intros Hin Hso HK HC Hcog Eq Ed Hv Hf.
    apply (finish_no_reset gh gsx env qc ids ms (plets (cg_general cog)) (cg_indices cog) out); auto.
    - now rewrite Ed.
    - rewrite Eq, Ed. now destruct (sep_facts l nql body Hin) as (_ & _ & H & _).
    - rewrite Ed. exact (sep_suffix l nql body so_l o cogs lk cog Hin Hso HK HC Hcog).
  Qed.
End Workflow.

(* ---- the statements quoted verbatim by Properties/C19.v ---- *)

(* every subcircuit of partition_problem (cut_wires c) satisfies no_reuse — whatever the labelling and the observables *)
Theorem separated_no_reuse : forall basis_of relabel dx, dx_contract dx ->
  forall (env : benv) nq c b bid lbl,
  wf_circ nq c = true -> input_ok env c = true -> no_uuid c ->
  basis_class env b = 1 ->
  (forall i b' l', In i c -> basis_of (iop i) = Some (b', l') -> basis_class env b' = 0) ->
  forall labels obs ncl ncr subs bases so,
  partition_problem basis_of relabel dx (nq + CutWires.count_markers c) ncl ncr
    (cut_wires_gen (Qpd2 b bid lbl) nq c) labels obs = Ok (subs, bases, so) ->
  forall l nql body, In (l, nql, body) subs -> no_reuse env nql body.
Proof.
  intros basis_of relabel dx DX env nq c b bid lbl W IO NU K GC labels obs ncl ncr subs bases so PP l nql body Hin.
  now destruct (sep_facts basis_of relabel dx DX env nq c b bid lbl W IO NU K GC labels obs ncl ncr subs bases so PP
                  l nql body Hin) as (_ & _ & H & _).
Qed.

(* the measured qubits of every observable group of every partition avoid the source qubits *)
Theorem separated_suffix : forall basis_of relabel dx, dx_contract dx ->
  forall (env : benv) nq c b bid lbl,
  wf_circ nq c = true -> input_ok env c = true -> no_uuid c ->
  basis_class env b = 1 ->
  (forall i b' l', In i c -> basis_of (iop i) = Some (b', l') -> basis_class env b' = 0) ->
  forall ps eps labels ncl ncr subs bases so,
  (forall p, In p ps -> length (plets p) = nq) ->
  expand nq (seq 0 nq) (new_qubits nq c) ps = Ok eps ->
  partition_problem basis_of relabel dx (nq + CutWires.count_markers c) ncl ncr
    (cut_wires_gen (Qpd2 b bid lbl) nq c) labels (Some eps) = Ok (subs, bases, Some so) ->
  forall l nql body so_l, In (l, nql, body) subs -> In (l, so_l) so ->
  forall o cogs lk cog, grouping_contract so_l o = true -> collection so_l o = Ok (cogs, lk) -> In cog cogs ->
  suffix_avoids_sources env body (cg_indices cog).
Proof.
  intros basis_of relabel dx DX env nq c b bid lbl W IO NU K GC ps eps labels ncl ncr subs bases so PW EX PP
    l nql body so_l Hin Hso o cogs lk cog HK HC Hcog.
  exact (sep_suffix basis_of relabel dx DX env nq c b bid lbl W IO NU K GC labels (Some eps) ncl ncr subs bases (Some so) PP
           ps eps so eq_refl PW EX eq_refl l nql body so_l o cogs lk cog Hin Hso HK HC Hcog).
Qed.

(* ... hence no Reset in any subexperiment of the separated workflow *)
Theorem separated_no_reset_full : forall basis_of relabel dx, dx_contract dx ->
  forall (env : benv) gh gsx nq c b bid lbl,
  wf_circ nq c = true -> input_ok env c = true -> no_uuid c ->
  basis_class env b = 1 ->
  (forall i b' l', In i c -> basis_of (iop i) = Some (b', l') -> basis_class env b' = 0) ->
  forall ps eps labels ncl ncr subs bases so,
  (forall p, In p ps -> length (plets p) = nq) ->
  expand nq (seq 0 nq) (new_qubits nq c) ps = Ok eps ->
  partition_problem basis_of relabel dx (nq + CutWires.count_markers c) ncl ncr
    (cut_wires_gen (Qpd2 b bid lbl) nq c) labels (Some eps) = Ok (subs, bases, Some so) ->
  forall l nql body so_l, In (l, nql, body) subs -> In (l, so_l) so ->
  forall o cogs lk cog, grouping_contract so_l o = true -> collection so_l o = Ok (cogs, lk) -> In cog cogs ->
  forall qc ids ms out, mnq qc = nql -> mdata qc = body -> valid env body ids ms ->
  finish gh gsx env qc ids ms (plets (cg_general cog)) (cg_indices cog) = Ok out ->
  count_resets out = 0.
Proof.
  intros basis_of relabel dx DX env gh gsx nq c b bid lbl W IO NU K GC ps eps labels ncl ncr subs bases so PW EX PP
    l nql body so_l Hin Hso o cogs lk cog HK HC Hcog qc ids ms out Eq Ed Hv Hf.
  exact (separated_no_reset basis_of relabel dx DX env nq c b bid lbl W IO NU K GC labels (Some eps) ncl ncr subs bases
           (Some so) PP ps eps so eq_refl PW EX eq_refl gh gsx l nql body so_l o cogs lk cog qc ids ms out
           Hin Hso HK HC Hcog Eq Ed Hv Hf).
Qed.

(* Proofs/RoundtripP.v — lemmas for property C01 (composition of C02/C04/C05/C06/C10 under P1-P3). *)
From Coq Require Import QArith Qabs Permutation Lia Lqa.
From CKT Require Import Common.Base Model.Observables Model.Partition Model.Experiments Model.Roundtrip
  Proofs.ExperimentsP.
From CKT Require Model.Reconstruct Proofs.ReconstructP Proofs.PartitionP.
Close Scope Q_scope.

(* ====================================================================== *)
(* A. finite sums: a duplicate-free enumeration that contains the support  *)
(* ====================================================================== *)
Section Support.
  Context {A : Type}.
  Variable eqb : A -> A -> bool.
  Hypothesis eqb_spec : forall x y, eqb x y = true <-> x = y.

  Let mem (l : list A) (x : A) : bool := existsb (eqb x) l.

  Lemma mem_In l x : mem l x = true <-> In x l.
  Proof.
    unfold mem. rewrite existsb_exists. split.
    - intros (y & Hy & E). apply eqb_spec in E. now subst.
    - intros H. exists x. split; [exact H|]. now apply eqb_spec.
  Qed.

  (* sum over l = sum over full, when l is duplicate-free, inside full, and f vanishes on full \ l *)
  Lemma sum_over_support (f : A -> Q) (l full : list A) :
    NoDup l -> NoDup full -> incl l full ->
    (forall x, In x full -> ~ In x l -> (f x == 0)%Q) ->
    (sumQ (map f l) == sumQ (map f full))%Q.
  Proof.
    intros Hl Hf Hin Hz.
    rewrite (qsum_filter_split f (mem l) full).
    rewrite (qsum_zero f (filter (fun x => negb (mem l x)) full)).
    - rewrite Qplus_0_r. apply qsum_perm, Permutation_map, NoDup_Permutation;
        [exact Hl|now apply NoDup_filter|].
      intros x. rewrite filter_In, mem_In. split; [intros H; split; [now apply Hin|exact H]|tauto].
    - intros x Hx. apply filter_In in Hx as (Hx & Hm). apply Hz; [exact Hx|].
      intros H. apply mem_In in H. rewrite H in Hm. discriminate.
  Qed.

  (* the same with the omitted part kept: sum over full = sum over l + sum over the omitted elements *)
  Lemma sum_split_support (f : A -> Q) (l full : list A) :
    NoDup l -> NoDup full -> incl l full ->
    (sumQ (map f full) == sumQ (map f l) + sumQ (map f (filter (fun x => negb (mem l x)) full)))%Q.
  Proof.
    intros Hl Hf Hin.
    rewrite (qsum_filter_split f (mem l) full). apply Qplus_inj_r.
    apply qsum_perm, Permutation_map, Permutation_sym, NoDup_Permutation;
      [exact Hl|now apply NoDup_filter|].
    intros x. rewrite filter_In, mem_In. split; [intros H; split; [now apply Hin|exact H]|tauto].
  Qed.
End Support.

Lemma jkey_eqb_spec (a b : jkey) : jkey_eqb a b = true <-> a = b.
Proof.
  unfold jkey_eqb. split.
  - apply list_beq_eq. intros x y. apply Nat.eqb_eq.
  - intros ->. apply list_beq_refl. intros; apply Nat.eqb_refl.
Qed.

(* ====================================================================== *)
(* B. the product space                                                    *)
(* ====================================================================== *)
Lemma In_all_maps : forall dims ids, In ids (all_maps dims) <-> Forall2 lt ids dims.
Proof.
  induction dims as [|n r IH]; intros ids; cbn [all_maps].
  - split; [intros [<-|[]]; constructor|intros H; inversion H; now left].
  - rewrite in_flat_map. split.
    + intros (i & Hi & H). apply in_map_iff in H as (c & <- & Hc). apply in_seq in Hi.
      constructor; [lia|now apply IH].
    + intros H. inversion H as [|i n' c r' Hi Hc]; subst. exists i. split; [apply in_seq; lia|].
      apply in_map. now apply IH.
Qed.

Lemma all_maps_length dims ids : In ids (all_maps dims) -> length ids = length dims.
Proof. intros H. apply In_all_maps in H. induction H; simpl; congruence. Qed.

Lemma NoDup_all_maps dims : NoDup (all_maps dims).
Proof.
  induction dims as [|n r IH]; [repeat constructor; intros []|].
  cbn [all_maps]. generalize (seq_NoDup n 0). generalize (seq 0 n) as l.
  induction l as [|i l IHl]; intros Hnd; [constructor|].
  inversion Hnd as [|? ? Hi Hl]; subst. cbn [flat_map]. apply NoDup_app_intro.
  - apply FinFun.Injective_map_NoDup; [|exact IH]. intros a b H; now inversion H.
  - now apply IHl.
  - intros x Hx Hx'. apply in_map_iff in Hx as (c & <- & _).
    apply in_flat_map in Hx' as (j & Hj & Hx'). apply in_map_iff in Hx' as (c' & Hc' & _).
    inversion Hc'; subst. contradiction.
Qed.

Lemma all_maps_count dims : length (all_maps dims) = fold_right Nat.mul 1 dims.
Proof.
  induction dims as [|n r IH]; [reflexivity|]. cbn [all_maps fold_right]. rewrite <- IH.
  assert (H : forall l : list nat, length (flat_map (fun i => map (cons i) (all_maps r)) l)
                                   = length l * length (all_maps r)).
  { induction l as [|i l IHl]; [reflexivity|].
    cbn [flat_map length]. rewrite app_length, map_length, IHl. reflexivity. }
  now rewrite H, seq_length.
Qed.

(* the enumeration of C05/C04 is the same list *)
Lemma all_maps_joint_maps dims : all_maps dims = joint_maps dims.
Proof. induction dims as [|n r IH]; [reflexivity|]. cbn [all_maps joint_maps]. now rewrite IH. Qed.

(* sum over the product space of a product = product of the sums (multilinear expansion, all sizes) *)
Lemma all_maps_sum_prod (C : list (list Q)) :
  (sumQ (map (coeff_prod C) (all_maps (map (@length Q) C))) == prodQ (map sumQ C))%Q.
Proof.
  induction C as [|v r IH]; [simpl; ring|].
  cbn [map all_maps]. rewrite qsum_flat_map.
  rewrite (qsum_map_ext _ (fun i => (nth i v 0 * prodQ (map sumQ r))%Q)).
  - rewrite qsum_scale, map_nth_seq. unfold prodQ. cbn [fold_right]. reflexivity.
  - intros i _. rewrite map_map. cbn [coeff_prod].
    rewrite <- IH, Qmult_comm, <- qsum_scale.
    apply qsum_map_ext. intros c _. ring.
Qed.

(* ====================================================================== *)
(* C. coefficient products and projections: the C05 vocabulary             *)
(* ====================================================================== *)
Lemma chosen_coeff_prod : forall C ids cs, chosen_coeffs C ids = Ok cs -> coeff_prod C ids = prodQ cs.
Proof.
  induction C as [|v C IH]; intros [|i ids] cs H; simpl in H; try discriminate.
  - inversion H. reflexivity.
  - destruct (nth_error v i) as [c|] eqn:E; [|discriminate].
    apply res_map_ok in H as (cs' & H & ->). cbn [coeff_prod]. unfold prodQ. cbn [fold_right].
    fold (prodQ cs'). rewrite (IH _ _ H). f_equal. now apply nth_error_nth.
Qed.

Lemma chosen_coeffs_total : forall C ids,
  In ids (all_maps (map (@length Q) C)) -> exists cs, chosen_coeffs C ids = Ok cs.
Proof.
  intros C ids H. apply In_all_maps in H. revert ids H.
  induction C as [|v C IH]; intros ids H; inversion H as [|i n ri rn Hi Hr]; subst.
  - exists []. reflexivity.
  - destruct (IH _ Hr) as (cs & Hcs). cbn [chosen_coeffs].
    destruct (nth_error v i) as [c|] eqn:E; [|apply nth_error_None in E; lia].
    exists (c :: cs). now rewrite Hcs.
Qed.

Lemma project_is_project_ids : forall joint sfx ms, project joint sfx = Ok ms -> ms = project_ids sfx joint.
Proof.
  intros joint sfx ms H. apply project_spec in H. unfold project_ids.
  induction H as [|k m sfx ms Hm HF IH]; [reflexivity|]. cbn [map]. f_equal; [|exact IH].
  symmetry. now apply nth_error_nth.
Qed.

Lemma project_total : forall joint sfx, (forall k, In k sfx -> k < length joint) ->
  project joint sfx = Ok (project_ids sfx joint).
Proof.
  intros joint sfx. induction sfx as [|k r IH]; intros H; [reflexivity|].
  cbn [project]. destruct (nth_error joint k) as [m|] eqn:E.
  - rewrite IH by (intros; apply H; now right). unfold project_ids. cbn [res_map map].
    now rewrite (nth_error_nth _ _ 0 E).
  - apply nth_error_None in E. specialize (H k (or_introl eq_refl)). lia.
Qed.

Lemma project_identity : forall ids, project_ids (identity_sfx (length ids)) ids = ids.
Proof.
  intros ids. unfold project_ids, identity_sfx. apply nth_ext with (d := 0) (d' := 0).
  - now rewrite map_length, seq_length.
  - intros n Hn. rewrite map_length, seq_length in Hn.
    rewrite (nth_indep _ 0 (nth 0 ids 0)) by now rewrite map_length, seq_length.
    rewrite (map_nth (fun k => nth k ids 0)), seq_nth by exact Hn. reflexivity.
Qed.

(* a map of probability 0 has coefficient product 0 *)
Lemma zero_prob_zero_coeff C ids :
  (forall v, In v C -> ~ (kappa_of v == 0)%Q) ->
  In ids (all_maps (map (@length Q) C)) ->
  (joint_prob (probs_of C) ids == 0)%Q -> (coeff_prod C ids == 0)%Q.
Proof.
  intros Hk Hin Hz. destruct (chosen_coeffs_total C ids Hin) as (cs & Hcs).
  rewrite (chosen_coeff_prod _ _ _ Hcs).
  pose proof (jointp_probs C ids cs Hcs Hk) as H. rewrite Hz, Qmult_0_l, <- qprod_abs in H.
  destruct (Qlt_le_dec (prodQ cs) 0) as [Hneg|Hpos].
  - rewrite (Qabs_neg (prodQ cs)) in H by (now apply Qlt_le_weak). lra.
  - rewrite (Qabs_pos (prodQ cs) Hpos) in H. now symmetry.
Qed.

Lemma map_prob_joint C ids cs :
  (forall v, In v C -> ~ (kappa_of v == 0)%Q) -> chosen_coeffs C ids = Ok cs ->
  (map_prob C ids == joint_prob (probs_of C) ids)%Q.
Proof.
  intros Hk Hcs. unfold map_prob. rewrite (chosen_coeff_prod _ _ _ Hcs), qprod_abs, <- (jointp_probs C ids cs Hcs Hk).
  field. unfold kappa_all. clear -Hk. induction C as [|v C IH]; [discriminate|].
  cbn [map prodQ fold_right]. fold (prodQ (map kappa_of C)). intros H.
  apply Qmult_integral in H as [H|H]; [apply (Hk v); [now left|exact H]|].
  apply IH; [intros; apply Hk; now right|exact H].
Qed.

(* ---- what the executable structural checks of Model/Roundtrip.v mean ---- *)
Lemma mem_key_In k l : mem_key k l = true <-> In k l.
Proof.
  unfold mem_key. rewrite existsb_exists. split.
  - intros (y & Hy & E). apply jkey_eqb_spec in E. now subst.
  - intros H. exists k. split; [exact H|]. now apply jkey_eqb_spec.
Qed.

Lemma nodup_keys_NoDup l : nodup_keys l = true -> NoDup l.
Proof.
  induction l as [|k r IH]; intros H; [constructor|]. cbn [nodup_keys] in H.
  apply andb_prop in H as (H1 & H2). constructor; [|now apply IH].
  intros Hin. apply mem_key_In in Hin. rewrite Hin in H1. discriminate.
Qed.

Lemma in_dims_all_maps : forall dims ids, in_dims dims ids = true -> In ids (all_maps dims).
Proof.
  intros dims ids H. apply In_all_maps. revert ids H.
  induction dims as [|n r IH]; intros [|i ids] H; cbn [in_dims] in H; try discriminate; [constructor|].
  apply andb_prop in H as (H1 & H2). constructor; [now apply Nat.ltb_lt|now apply IH].
Qed.

Lemma support_ok_sound C lo hi keys :
  support_ok C lo hi keys = true ->
  NoDup keys /\ incl keys (all_maps (map (@length Q) C)) /\
  (forall ids, In ids keys -> (lo <= map_prob C ids)%Q) /\
  (forall ids, In ids (all_maps (map (@length Q) C)) -> ~ In ids keys -> (map_prob C ids < hi)%Q).
Proof.
  unfold support_ok. intros H. apply andb_prop in H as (H & H3). apply andb_prop in H as (H1 & H2).
  rewrite forallb_forall in H1, H3.
  assert (Hp : forall ids, (Qabs (coeff_prod C ids) / Qred (kappa_all C) == map_prob C ids)%Q).
  { intros ids. unfold map_prob. now rewrite Qred_correct. }
  assert (Hincl : incl keys (all_maps (map (@length Q) C))).
  { intros ids Hin. apply in_dims_all_maps. now apply H1. }
  split; [now apply nodup_keys_NoDup|split; [exact Hincl|split]].
  - intros ids Hin. specialize (H3 ids (Hincl ids Hin)). cbv zeta in H3.
    apply mem_key_In in Hin. rewrite Hin in H3. apply Qle_bool_iff in H3. now rewrite Hp in H3.
  - intros ids Hfull Hnot. specialize (H3 ids Hfull). cbv zeta in H3.
    destruct (mem_key ids keys) eqn:Em; [exfalso; apply Hnot; now apply mem_key_In|].
    apply Qnot_le_lt. intros Hle. rewrite <- Hp in Hle. apply Qle_bool_iff in Hle. rewrite Hle in H3. discriminate.
Qed.

Lemma coeffs_ok_sound C tol samples :
  coeffs_ok C tol samples = true ->
  forall s, In s samples -> (Qabs (snd s - coeff_prod C (fst s)) <= tol * kappa_all C)%Q.
Proof.
  unfold coeffs_ok. intros H s Hs. rewrite forallb_forall in H. specialize (H s Hs).
  apply Qle_bool_iff in H. now rewrite Qred_correct in H.
Qed.

(* ====================================================================== *)
(* D. index bookkeeping                                                    *)
(* ====================================================================== *)
(* a sum over the enumerated coefficient list, rewritten element by element along a Forall2 *)
Lemma sum_enum_Forall2 {A} (P : A -> Q -> Prop) (F : nat -> Q) (G : A -> Q) :
  forall (l : list A) (cs : list Q) (i0 : nat),
  Forall2 P l cs ->
  (forall z a c, nth_error l z = Some a -> nth_error cs z = Some c -> P a c -> (c * F (i0 + z)%nat == G a)%Q) ->
  (sumQ (map (fun ic => (snd ic * F (fst ic))%Q) (combine (seq i0 (length cs)) cs)) == sumQ (map G l))%Q.
Proof.
  intros l cs i0 H. revert i0. induction H as [|a c l cs Hac HF IH]; intros i0 Hstep; [reflexivity|].
  cbn [length seq combine map sumQ fold_right]. fold (sumQ (map G l)).
  fold (sumQ (map (fun ic : nat * Q => (snd ic * F (fst ic))%Q) (combine (seq (S i0) (length cs)) cs))).
  rewrite (IH (S i0)).
  - cbn [fst snd]. rewrite <- (Hstep 0 a c eq_refl eq_refl Hac), Nat.add_0_r. reflexivity.
  - intros z a' c' Ha Hc HP. rewrite <- (Hstep (S z) a' c' Ha Hc HP). now rewrite Nat.add_succ_r.
Qed.

(* a product over a list, rewritten element by element against the enumeration of a second list *)
Lemma prod_enum_Forall2 {A B} (F : A -> Q) (G : nat * B -> Q) :
  forall (l : list A) (m : list B) (i0 : nat),
  length l = length m ->
  (forall i a b, nth_error l i = Some a -> nth_error m i = Some b -> (F a == G ((i0 + i)%nat, b))%Q) ->
  (prodQ (map F l) == prodQ (map G (combine (seq i0 (length m)) m)))%Q.
Proof.
  induction l as [|a l IH]; intros [|b m] i0 Hlen Hstep; try discriminate; [reflexivity|].
  cbn [length seq combine map]. unfold prodQ. cbn [fold_right]. fold (prodQ (map F l)).
  fold (prodQ (map G (combine (seq (S i0) (length m)) m))).
  rewrite (IH m (S i0)).
  - rewrite (Hstep 0 a b eq_refl eq_refl), Nat.add_0_r. reflexivity.
  - simpl in Hlen. lia.
  - intros i a' b' Ha Hb. rewrite (Hstep (S i) a' b' Ha Hb). now rewrite Nat.add_succ_r.
Qed.

Lemma Forall2_map_r {A B B'} (P : A -> B -> Prop) (P' : A -> B' -> Prop) (f : B -> B') l l' :
  Forall2 P l l' -> (forall a b, P a b -> P' a (f b)) -> Forall2 P' l (map f l').
Proof. intros H HP. induction H; cbn [map]; constructor; auto. Qed.

Lemma Forall2_Qeq_map_ext (x : list Q) (f g : nat -> Q) (l : list nat) :
  Forall2 Qeq x (map f l) -> (forall k, In k l -> (f k == g k)%Q) -> Forall2 Qeq x (map g l).
Proof.
  revert x. induction l as [|k l IH]; intros x H Hfg; inversion H; subst; constructor.
  - rewrite <- (Hfg k (or_introl eq_refl)). assumption.
  - apply IH; [assumption|]. intros; apply Hfg; now right.
Qed.

(* ====================================================================== *)
(* E. the algebraic core under the physics postulates                      *)
(* ====================================================================== *)
Section Roundtrip.
  (* THE CUT PROBLEM, as the C05/C10 models describe it *)
  Variable C : list (list Q).        (* cut j: the coefficient list of bases[j] (C02: an exact decomposition) *)
  Variable L : list (list nat).      (* partition li: subcirc_map_ids[label], the cut ids of its halves in circuit order *)
  Variable nobs : nat.               (* number of observables *)
  Let dims := map (@length Q) C.

  (* THE PHYSICS.  term ids k : expectation of observable k on the circuit in which every cut gate j is replaced by
     the PRODUCT map number ids_j of its basis (F_m on one qubit, G_m on the other, QPD measurement outcomes entering
     with the sign (-1)^outcome);  Ev k : expectation of observable k on the uncut circuit;
     E li pids k : exact decoded expectation of partition li's subexperiment(s) for the projected choice pids. *)
  Variable term : jkey -> nat -> Q.
  Variable Ev : nat -> Q.
  Variable E : nat -> jkey -> nat -> Q.

  (* P1 — multilinearity of quantum mechanics in every cut slot, applied to the exact decompositions
     channel_of gate_j = sum_m c_{j,m} F_m (x) G_m  that C02 proves for every basis of the package *)
  Hypothesis P1 : forall k, k < nobs ->
    (Ev k == sumQ (map (fun ids => (coeff_prod C ids * term ids k)%Q) (all_maps dims)))%Q.
  (* P2 + P3 — with product maps in every cut the partitions are uncorrelated, so the expectation of a tensor-product
     observable (times the QPD signs) factorises over the partitions; each factor is what the partition's
     subexperiment measures (instrument rule: an outcome b of a QPD measurement contributes the sign (-1)^b) *)
  Hypothesis P23 : forall ids k, In ids (all_maps dims) -> k < nobs ->
    (term ids k == part_prod L E ids k)%Q.

  Lemma cut_value_is_Ev k : k < nobs -> (cut_value C L E k == Ev k)%Q.
  Proof.
    intros Hk. rewrite (P1 k Hk). unfold cut_value. fold dims.
    apply qsum_map_ext. intros ids Hin. now rewrite (P23 ids k Hin Hk).
  Qed.

  (* THE CODE'S BOOKKEEPING: exact infinite-budget weights (C04) and the coefficient list (C05) *)
  Variable W : sdict.
  Variable cq : list (Q * wkind).
  Hypothesis kappa_nz : forall v, In v C -> ~ (kappa_of v == 0)%Q.
  Hypothesis W_exact : exact_weights C W.
  Hypothesis cq_shape :                                       (* the conclusion of c05_coeffs *)
    Forall2 (fun s c => exists cs, chosen_coeffs C (s_ids s) = Ok cs /\
                                   c = (coeff_value (total_weight W) (kappa_all C) (s_w s) cs, s_t s))
            (sort_samples W) cq.

  (* sum over the listed samples = sum over the whole product space *)
  Lemma listed_sum_is_cut_value k :
    (sumQ (map (fun s => (coeff_prod C (s_ids s) * part_prod L E (s_ids s) k)%Q) (sort_samples W))
     == cut_value C L E k)%Q.
  Proof.
    destruct W_exact as (Hnd & Hin & Hall).
    rewrite <- (qsum_perm _ _ (Permutation_map _ (sort_perm W))).
    rewrite <- (map_map s_ids (fun ids => (coeff_prod C ids * part_prod L E ids k)%Q)).
    unfold cut_value. fold dims.
    apply (sum_over_support jkey_eqb jkey_eqb_spec).
    - exact Hnd.
    - apply NoDup_all_maps.
    - intros ids H. apply in_map_iff in H as (s & <- & Hs). unfold dims. rewrite all_maps_joint_maps.
      apply (Hin s Hs).
    - intros ids Hfull Hnot.
      assert (Hz : (coeff_prod C ids == 0)%Q).
      { apply zero_prob_zero_coeff; [exact kappa_nz|exact Hfull|].
        destruct (Qeq_dec (joint_prob (probs_of C) ids) 0) as [Ez|Nz]; [exact Ez|exfalso].
        apply Hnot, Hall; [|exact Nz]. unfold dims in Hfull. now rewrite all_maps_joint_maps in Hfull. }
      rewrite Hz. ring.
  Qed.

  (* the estimator's outer sum with the code's coefficients, in terms of abstract per-sample factors *)
  Lemma coefficient_sum (F : nat -> Q) k :
    (forall z s, nth_error (sort_samples W) z = Some s -> (F z == part_prod L E (s_ids s) k)%Q) ->
    (sumQ (map (fun ic => (snd ic * F (fst ic))%Q) (enum (map fst cq))) == cut_value C L E k)%Q.
  Proof.
    intros HF. rewrite <- listed_sum_is_cut_value. unfold enum.
    apply (sum_enum_Forall2
             (fun s c => exists cs, chosen_coeffs C (s_ids s) = Ok cs /\
                                    c = coeff_value (total_weight W) (kappa_all C) (s_w s) cs)).
    - eapply Forall2_map_r; [exact cq_shape|]. intros s c (cs & H1 & H2).
      exists cs. split; [exact H1|]. now rewrite H2.
    - intros z s c Hs _ (cs & Hcs & ->). rewrite Nat.add_0_l, (HF z s Hs).
      rewrite (exact_coeff C W s cs kappa_nz W_exact); [|eapply Permutation_in; [apply Permutation_sym, sort_perm|eapply nth_error_In; eauto]|exact Hcs].
      now rewrite (chosen_coeff_prod _ _ _ Hcs).
  Qed.

  (* THE RESULTS: exact evaluation of every subexperiment, in the vocabulary of C06 *)
  Variable pyint0 : list Ascii.ascii -> option N.
  Variable den : Reconstruct.key -> N.
  Variable pds : list (Reconstruct.part * Reconstruct.pdata).
  Hypothesis pds_len : length pds = length L.
  Hypothesis counts : forall pd, In pd pds ->
    Reconstruct.data_len (snd pd) = length (map fst cq) * length (Reconstruct.pgroups (fst pd)).
  Hypothesis shapes : forall pd, In pd pds ->
    length (Reconstruct.plookup (fst pd)) = nobs /\ locs_wf (fst pd).
  Hypothesis keys : forall pd key, In pd pds -> In key (Reconstruct.keys_of (snd pd)) ->
    Reconstruct.outcome_to_int pyint0 key = Some (den key).
  (* partition li's results for sample z (experiments z*G + m, m over the lookup locations of observable k) decode to
     the exact value E li (projection of the sample's joint map) k *)
  Hypothesis exact_results : forall li pd sfx z s k,
    nth_error pds li = Some pd -> nth_error L li = Some sfx ->
    nth_error (sort_samples W) z = Some s -> k < nobs ->
    (Reconstruct.E den pd z k == E li (project_ids sfx (s_ids s)) k)%Q.

  Lemma estimator_is_Ev k : k < nobs -> (Reconstruct.estimator den (map fst cq) pds k == Ev k)%Q.
  Proof.
    intros Hk. rewrite <- (cut_value_is_Ev k Hk). unfold Reconstruct.estimator.
    change Reconstruct.Qsum with sumQ. change (Reconstruct.enumerate (map fst cq)) with (enum (map fst cq)).
    apply (coefficient_sum (fun z => Reconstruct.Qprod (map (fun pd => Reconstruct.E den pd z k) pds)) k).
    intros z s Hs. change Reconstruct.Qprod with prodQ. unfold part_prod, enum.
    apply (prod_enum_Forall2 (fun pd => Reconstruct.E den pd z k)
                             (fun lp => E (fst lp) (project_ids (snd lp) (s_ids s)) k) pds L 0 pds_len).
    intros li pd sfx Hpd Hsfx. cbn [fst snd]. now apply (exact_results li pd sfx z s k).
  Qed.

  Theorem roundtrip :
    Reconstruct.res_Qeq (Reconstruct.reconstruct_parts pyint0 nobs (map fst cq) pds)
                        (Ok (map Ev (seq 0 nobs))).
  Proof.
    pose proof (ReconstructP.estimator_full pyint0 den nobs (map fst cq) pds counts
                  (fun pd Hpd => conj (proj1 (shapes pd Hpd)) (proj1 (proj2 (shapes pd Hpd)))) keys) as H.
    destruct (Reconstruct.reconstruct_parts pyint0 nobs (map fst cq) pds) as [x| |]; try exact H.
    cbn [Reconstruct.res_Qeq] in *. eapply Forall2_Qeq_map_ext; [exact H|].
    intros k Hk. apply in_seq in Hk. apply estimator_is_Ev. lia.
  Qed.
End Roundtrip.

(* ====================================================================== *)
(* F. maps dropped below the cut-off                                       *)
(* ====================================================================== *)
Lemma qsum_abs_le {A} (f : A -> Q) (b : Q) l :
  (forall x, In x l -> (Qabs (f x) <= b)%Q) -> (Qabs (sumQ (map f l)) <= inject_Z (Z.of_nat (length l)) * b)%Q.
Proof.
  induction l as [|x r IH]; intros H.
  - simpl. rewrite Qmult_0_l. apply Qle_refl.
  - cbn [map sumQ fold_right length]. fold (sumQ (map f r)).
    eapply Qle_trans; [apply Qabs_triangle|].
    rewrite Nat2Z.inj_succ, <- Z.add_1_r, inject_Z_plus.
    setoid_replace ((inject_Z (Z.of_nat (length r)) + inject_Z 1) * b)%Q
      with (b + inject_Z (Z.of_nat (length r)) * b)%Q by (unfold inject_Z at 2; ring).
    apply Qplus_le_compat; [apply H; now left|apply IH; intros; apply H; now right].
Qed.

Lemma qsum_le_count {A} (f : A -> Q) (b : Q) l :
  (forall x, In x l -> (f x <= b)%Q) -> (sumQ (map f l) <= inject_Z (Z.of_nat (length l)) * b)%Q.
Proof.
  induction l as [|x r IH]; intros H.
  - simpl. rewrite Qmult_0_l. apply Qle_refl.
  - cbn [map sumQ fold_right length]. fold (sumQ (map f r)).
    rewrite Nat2Z.inj_succ, <- Z.add_1_r, inject_Z_plus.
    setoid_replace ((inject_Z (Z.of_nat (length r)) + inject_Z 1) * b)%Q
      with (b + inject_Z (Z.of_nat (length r)) * b)%Q by (unfold inject_Z at 2; ring).
    apply Qplus_le_compat; [apply H; now left|apply IH; intros; apply H; now right].
Qed.

Lemma kappa_all_nz C : (forall v, In v C -> ~ (kappa_of v == 0)%Q) -> ~ (kappa_all C == 0)%Q.
Proof.
  intros Hk. unfold kappa_all. induction C as [|v C IH]; [discriminate|].
  cbn [map prodQ fold_right]. fold (prodQ (map kappa_of C)). intros H.
  apply Qmult_integral in H as [H|H]; [apply (Hk v); [now left|exact H]|].
  apply IH; [intros; apply Hk; now right|exact H].
Qed.

Lemma joint_prob_nonneg C ids : (forall v, In v C -> ~ (kappa_of v == 0)%Q) ->
  In ids (all_maps (map (@length Q) C)) -> (0 <= joint_prob (probs_of C) ids)%Q.
Proof.
  intros Hk Hin. destruct (chosen_coeffs_total C ids Hin) as (cs & Hcs).
  rewrite <- (map_prob_joint C ids cs Hk Hcs). unfold map_prob.
  apply Qle_shift_div_l.
  - destruct (Qle_lt_or_eq _ _ (kappa_all_nonneg C)) as [H|H]; [exact H|]. exfalso. apply (kappa_all_nz C Hk). now symmetry.
  - rewrite Qmult_0_l. apply Qabs_nonneg.
Qed.

Section Subcutoff.
  Variable C : list (list Q).
  Variable L : list (list nat).
  Variable nobs : nat.
  Let dims := map (@length Q) C.
  Variable term : jkey -> nat -> Q.
  Variable Ev : nat -> Q.
  Variable E : nat -> jkey -> nat -> Q.
  Hypothesis P1 : forall k, k < nobs ->
    (Ev k == sumQ (map (fun ids => (coeff_prod C ids * term ids k)%Q) (all_maps dims)))%Q.
  Hypothesis P23 : forall ids k, In ids (all_maps dims) -> k < nobs ->
    (term ids k == part_prod L E ids k)%Q.
  Hypothesis kappa_nz : forall v, In v C -> ~ (kappa_of v == 0)%Q.

  (* the dictionary lists SOME joint maps once each with their exact probabilities; the others (`dropped`) all have
     probability at most `cutoff` (the code skips a map iff its probability is below 1e-14) *)
  Variable W : sdict.
  Variable cutoff : Q.
  Hypothesis W_nodup : NoDup (map s_ids W).
  Hypothesis W_listed : forall s, In s W ->
    In (s_ids s) (all_maps dims) /\ (s_w s == joint_prob (probs_of C) (s_ids s))%Q.
  Definition dropped : list jkey :=
    filter (fun ids => negb (existsb (jkey_eqb ids) (map s_ids W))) (all_maps dims).
  Hypothesis dropped_small : forall ids, In ids dropped -> (joint_prob (probs_of C) ids <= cutoff)%Q.

  Let listed_incl : incl (map s_ids W) (all_maps dims).
  Proof. intros ids H. apply in_map_iff in H as (s & <- & Hs). apply (W_listed s Hs). Qed.

  (* total weight = 1 - (probability mass of the dropped maps), and that mass is at most #dropped * cutoff *)
  Lemma subcutoff_total :
    (sumQ (map s_w W) == 1 - sumQ (map (joint_prob (probs_of C)) dropped))%Q /\
    (0 <= sumQ (map (joint_prob (probs_of C)) dropped))%Q /\
    (sumQ (map (joint_prob (probs_of C)) dropped) <= inject_Z (Z.of_nat (length dropped)) * cutoff)%Q.
  Proof.
    split; [|split].
    - pose proof (sum_split_support jkey_eqb jkey_eqb_spec (joint_prob (probs_of C)) (map s_ids W) (all_maps dims)
                    W_nodup (NoDup_all_maps dims) listed_incl) as H.
      fold dropped in H. unfold dims in H at 1. rewrite all_maps_joint_maps, <- probs_of_dims, joint_maps_sum in H.
      rewrite (probs_sum_one C kappa_nz), map_map in H.
      rewrite (qsum_map_ext s_w (fun s => joint_prob (probs_of C) (s_ids s)) W) by (intros s Hs; apply (W_listed s Hs)).
      rewrite H. unfold dropped. ring.
    - apply qsum_nonneg. intros x Hx. apply in_map_iff in Hx as (ids & <- & Hids).
      apply joint_prob_nonneg; [exact kappa_nz|]. now apply filter_In in Hids.
    - rewrite <- (map_length (joint_prob (probs_of C)) dropped). clear -dropped_small.
      induction dropped as [|x r IH].
      + simpl. rewrite Qmult_0_l. apply Qle_refl.
      + cbn [map sumQ fold_right length]. fold (sumQ (map (joint_prob (probs_of C)) r)).
        rewrite Nat2Z.inj_succ, <- Z.add_1_r, inject_Z_plus.
        setoid_replace ((inject_Z (Z.of_nat (length (map (joint_prob (probs_of C)) r))) + inject_Z 1) * cutoff)%Q
          with (cutoff + inject_Z (Z.of_nat (length (map (joint_prob (probs_of C)) r))) * cutoff)%Q
          by (unfold inject_Z at 2; ring).
        apply Qplus_le_compat; [apply dropped_small; now left|apply IH; intros; apply dropped_small; now right].
  Qed.

  (* the contribution that is lost *)
  Definition lost (k : nat) : Q := sumQ (map (fun ids => (coeff_prod C ids * term ids k)%Q) dropped).

  (* what the code computes: coefficients w/total * kappa * sign, summed over the listed samples;
     times the total weight it is the uncut value minus the lost contribution *)
  Lemma subcutoff_identity k : k < nobs -> (0 < sumQ (map s_w W))%Q ->
    (sumQ (map (fun s => (coeff_value (total_weight W) (kappa_all C) (s_w s)
                            (map (fun p => nth (snd p) (fst p) 0%Q) (combine C (s_ids s)))
                          * part_prod L E (s_ids s) k)%Q) W)
     * sumQ (map s_w W) == Ev k - lost k)%Q.
  Proof.
    intros Hk Hpos.
    assert (Hcs : forall ids, In ids (all_maps dims) ->
              chosen_coeffs C ids = Ok (map (fun p => nth (snd p) (fst p) 0%Q) (combine C ids))).
    { intros ids Hin. apply In_all_maps in Hin. unfold dims in Hin. clear -Hin. revert ids Hin.
      induction C as [|v C' IH]; intros ids H; inversion H as [|i n ri rn Hi Hr]; subst; [reflexivity|].
      cbn [chosen_coeffs combine map fst snd]. destruct (nth_error v i) as [c|] eqn:E; [|apply nth_error_None in E; lia].
      rewrite (IH _ Hr). cbn [res_map]. do 2 f_equal. symmetry. now apply nth_error_nth. }
    rewrite (P1 k Hk).
    pose proof (sum_split_support jkey_eqb jkey_eqb_spec (fun ids => (coeff_prod C ids * term ids k)%Q)
                  (map s_ids W) (all_maps dims) W_nodup (NoDup_all_maps dims) listed_incl) as H.
    fold dropped in H. fold (lost k) in H. rewrite H, map_map.
    setoid_replace (sumQ (map (fun x => (coeff_prod C (s_ids x) * term (s_ids x) k)%Q) W) + lost k - lost k)%Q
      with (sumQ (map (fun x => (coeff_prod C (s_ids x) * term (s_ids x) k)%Q) W)) by ring.
    rewrite <- qsum_scale. apply qsum_map_ext. intros s Hs.
    destruct (W_listed s Hs) as (Hin & Hw).
    rewrite (P23 _ k Hin Hk), (chosen_coeff_prod _ _ _ (Hcs _ Hin)).
    set (cs := map (fun p => nth (snd p) (fst p) 0%Q) (combine C (s_ids s))).
    unfold coeff_value. rewrite total_weight_eq.
    assert (Hp : (s_w s * kappa_all C == Qabs (prodQ cs))%Q).
    { rewrite Hw, (jointp_probs C (s_ids s) cs (Hcs _ Hin) kappa_nz). symmetry. apply qprod_abs. }
    setoid_replace (s_w s / sumQ (map s_w W) * (kappa_all C * qsign (prodQ cs)) * part_prod L E (s_ids s) k * sumQ (map s_w W))%Q
      with ((s_w s * kappa_all C) * qsign (prodQ cs) * part_prod L E (s_ids s) k)%Q
      by (field; intros Ez; rewrite Ez in Hpos; exact (Qlt_irrefl _ Hpos)).
    rewrite Hp, qsign_abs. reflexivity.
  Qed.

  (* size of the lost contribution: every dropped map has |prod c| = probability * kappa <= cutoff * kappa *)
  Lemma subcutoff_lost_bound k (B : Q) :
    (forall ids, In ids dropped -> (Qabs (term ids k) <= B)%Q) ->
    (0 <= cutoff)%Q ->
    (Qabs (lost k) <= inject_Z (Z.of_nat (length dropped)) * (cutoff * kappa_all C * B))%Q.
  Proof.
    intros HB Hc. unfold lost. apply qsum_abs_le. intros ids Hd.
    assert (Hin : In ids (all_maps dims)) by now apply filter_In in Hd.
    destruct (chosen_coeffs_total C ids Hin) as (cs & Hcs).
    rewrite Qabs_Qmult.
    assert (Hp : (Qabs (coeff_prod C ids) == joint_prob (probs_of C) ids * kappa_all C)%Q).
    { rewrite (chosen_coeff_prod _ _ _ Hcs), (jointp_probs C ids cs Hcs kappa_nz). apply qprod_abs. }
    rewrite Hp.
    apply Qmult_le_compat_nonneg.
    - split; [apply Qmult_le_0_compat; [now apply joint_prob_nonneg|apply kappa_all_nonneg]|].
      apply Qmult_le_compat_r; [now apply dropped_small|apply kappa_all_nonneg].
    - split; [apply Qabs_nonneg|now apply HB].
  Qed.
End Subcutoff.

(* ====================================================================== *)
(* G. the C04 model's infinite-budget dictionary satisfies exact_weights   *)
(* ====================================================================== *)
From CKT Require Import Extracted.Facts Model.Weights Proofs.WeightsCount.

(* no joint map has a probability strictly between 0 and the cut-off *)
Definition no_subcutoff_map (C : list (list Q)) : Prop :=
  forall ids, In ids (all_maps (map (@length Q) C)) ->
    (joint_prob (probs_of C) ids == 0)%Q \/ (nonzero_atol <= joint_prob (probs_of C) ids)%Q.

Lemma all_exact_is_exact_weights C :
  no_subcutoff_map C -> exact_weights C (of_wdict (all_exact (probs_of C) 1)).
Proof.
  intros Hno. rewrite all_exact_list. set (P := probs_of C).
  set (keep := fun ids : key => negb (Qltb (jointp P ids) nonzero_atol)).
  assert (Hdims : cart (map (@length Q) P) = joint_maps (map (@length Q) C)).
  { unfold P. rewrite probs_of_dims. symmetry. apply bridge_joint_maps. }
  rewrite Hdims.
  assert (Hkeys : map s_ids (of_wdict (map (fun ids => (ids, ((1 * jointp P ids)%Q, EXACT))) (filter keep (joint_maps (map (@length Q) C)))))
                  = filter keep (joint_maps (map (@length Q) C))).
  { rewrite bridge_keys, map_map. cbn [fst]. apply map_id. }
  split; [|split].
  - rewrite Hkeys. apply NoDup_filter, NoDup_joint_maps.
  - intros s Hs. unfold of_wdict in Hs. rewrite map_map in Hs. apply in_map_iff in Hs as (ids & <- & Hids).
    apply filter_In in Hids as (Hids & _). cbn [s_ids s_w fst snd]. split; [exact Hids|].
    change (joint_prob (probs_of C) ids) with (jointp P ids). ring.
  - intros ids Hin Hnz. rewrite Hkeys. apply filter_In. split; [exact Hin|].
    unfold keep. change (jointp P ids) with (joint_prob (probs_of C) ids).
    destruct (Hno ids) as [Hz|Hge]; [now rewrite all_maps_joint_maps|contradiction|].
    unfold Qltb. rewrite Bool.negb_involutive. now apply Qle_bool_iff.
Qed.

(* ====================================================================== *)
(* H. the unseparated call form, the public functions, the idle refusal    *)
(* ====================================================================== *)
Close Scope Q_scope.
(* one partition (label "A"), projection = identity; stated on the PUBLIC reconstruct of Model/Reconstruct.v *)
Theorem unseparated (C : list (list Q)) (nobs : nat) (term : jkey -> nat -> Q) (Ev : nat -> Q) (E0 : jkey -> nat -> Q)
  (W : sdict) (cq : list (Q * wkind)) pyint0 den (p : Reconstruct.part) (d : Reconstruct.pdata) :
  (forall k, k < nobs ->
     (Ev k == sumQ (map (fun ids => (coeff_prod C ids * term ids k)%Q) (all_maps (map (@length Q) C))))%Q) ->
  (forall ids k, In ids (all_maps (map (@length Q) C)) -> k < nobs -> (term ids k == E0 ids k)%Q) ->
  (forall v, In v C -> ~ (kappa_of v == 0)%Q) ->
  exact_weights C W ->
  Forall2 (fun s c => exists cs, chosen_coeffs C (s_ids s) = Ok cs /\
                                 c = (coeff_value (total_weight W) (kappa_all C) (s_w s) cs, s_t s))
          (sort_samples W) cq ->
  (forall x, In x (Reconstruct.pphases p) -> x = 0) ->
  Reconstruct.data_len d = length (map fst cq) * length (Reconstruct.pgroups p) ->
  length (Reconstruct.plookup p) = nobs -> locs_wf p ->
  (forall key, In key (Reconstruct.keys_of d) -> Reconstruct.outcome_to_int pyint0 key = Some (den key)) ->
  (forall z s k, nth_error (sort_samples W) z = Some s -> k < nobs ->
     (Reconstruct.E den (p, d) z k == E0 (s_ids s) k)%Q) ->
  Reconstruct.res_Qeq (Reconstruct.reconstruct pyint0 (Reconstruct.RLeaf d) (map fst cq) (Reconstruct.OList p))
                      (Ok (map Ev (seq 0 nobs))).
Proof.
  intros P1 P23 Hk HW Hcq Hph Hcnt Hlk Hlocs Hkeys Hres.
  rewrite (ReconstructP.reconstruct_list_valid pyint0 (map fst cq) p d Hph), Hlk.
  apply (roundtrip C [identity_sfx (length C)] nobs term Ev (fun _ pids k => E0 pids k) P1) with (W := W) (den := den).
  - intros ids k Hin Hlt. rewrite (P23 ids k Hin Hlt). unfold part_prod, enum. cbn [length seq combine map fst snd prodQ fold_right].
    rewrite <- (map_length (@length Q) C), <- (all_maps_length _ _ Hin), project_identity. ring.
  - exact Hk.
  - exact HW.
  - exact Hcq.
  - reflexivity.
  - intros pd [<-|[]]. exact Hcnt.
  - intros pd [<-|[]]. split; [exact Hlk|exact Hlocs].
  - intros pd key [<-|[]]. exact (Hkeys key).
  - intros [|li] pd sfx z s k Hpd Hsfx Hs Hlt; [|destruct li; discriminate].
    inversion Hpd; inversion Hsfx; subst. rewrite (Hres z s k Hs Hlt).
    destruct HW as (_ & Hin & _).
    assert (Hs' : In s W) by (eapply Permutation_in; [apply Permutation_sym, sort_perm|eapply nth_error_In; eauto]).
    destruct (Hin s Hs') as (Hj & _). rewrite <- all_maps_joint_maps in Hj.
    rewrite <- (map_length (@length Q) C), <- (all_maps_length _ _ Hj), project_identity. reflexivity.
Qed.

(* the separated form on the PUBLIC reconstruct: the key-set and phase validation pass, every partition's results
   are found under its label, and the value is the uncut one *)
Theorem roundtrip_public (C : list (list Q)) (L : list (list nat)) (term : jkey -> nat -> Q) (Ev : nat -> Q)
  (E : nat -> jkey -> nat -> Q) (W : sdict) (cq : list (Q * wkind)) pyint0 den
  (p0 : Reconstruct.part) (ps : list Reconstruct.part) (m : list (nat * Reconstruct.pdata)) :
  let nobs := length (Reconstruct.plookup p0) in
  (forall k, k < nobs ->
     (Ev k == sumQ (map (fun ids => (coeff_prod C ids * term ids k)%Q) (all_maps (map (@length Q) C))))%Q) ->
  (forall ids k, In ids (all_maps (map (@length Q) C)) -> k < nobs -> (term ids k == part_prod L E ids k)%Q) ->
  (forall v, In v C -> ~ (kappa_of v == 0)%Q) ->
  exact_weights C W ->
  Forall2 (fun s c => exists cs, chosen_coeffs C (s_ids s) = Ok cs /\
                                 c = (coeff_value (total_weight W) (kappa_all C) (s_w s) cs, s_t s))
          (sort_samples W) cq ->
  (forall l, In l (map Reconstruct.plabel (p0 :: ps)) <-> In l (map fst m)) ->
  (forall p x, In p (p0 :: ps) -> In x (Reconstruct.pphases p) -> x = 0) ->
  length (p0 :: ps) = length L ->
  (forall p, In p (p0 :: ps) -> length (Reconstruct.plookup p) = nobs /\ locs_wf p) ->
  (forall p d, In p (p0 :: ps) -> Reconstruct.assoc m (Reconstruct.plabel p) = Some d ->
     Reconstruct.data_len d = length (map fst cq) * length (Reconstruct.pgroups p) /\
     (forall key, In key (Reconstruct.keys_of d) -> Reconstruct.outcome_to_int pyint0 key = Some (den key))) ->
  (forall li p d sfx z s k, nth_error (p0 :: ps) li = Some p -> Reconstruct.assoc m (Reconstruct.plabel p) = Some d ->
     nth_error L li = Some sfx -> nth_error (sort_samples W) z = Some s -> k < nobs ->
     (Reconstruct.E den (p, d) z k == E li (project_ids sfx (s_ids s)) k)%Q) ->
  Reconstruct.res_Qeq (Reconstruct.reconstruct pyint0 (Reconstruct.RMap m) (map fst cq) (Reconstruct.OMap (p0 :: ps)))
                      (Ok (map Ev (seq 0 nobs))).
Proof.
  intros nobs P1 P23 Hk HW Hcq Hkeys Hph Hlen Hshape Hdata Hres.
  destruct (ReconstructP.reconstruct_map_valid pyint0 m (map fst cq) p0 ps Hkeys Hph) as (pds & Hfst & Hassoc & ->).
  fold nobs.
  assert (Hmem : forall pd, In pd pds -> In (fst pd) (p0 :: ps)).
  { intros pd Hpd. rewrite <- Hfst. now apply in_map. }
  apply (roundtrip C L nobs term Ev E P1 P23 W cq Hk HW Hcq pyint0 den pds).
  - now rewrite <- (map_length fst pds), Hfst.
  - intros pd Hpd. apply (Hdata (fst pd) (snd pd) (Hmem pd Hpd) (Hassoc pd Hpd)).
  - intros pd Hpd. apply (Hshape (fst pd) (Hmem pd Hpd)).
  - intros pd key Hpd. apply (Hdata (fst pd) (snd pd) (Hmem pd Hpd) (Hassoc pd Hpd)).
  - intros li pd sfx z s k Hpd Hsfx Hs Hlt.
    assert (Hp : nth_error (p0 :: ps) li = Some (fst pd)).
    { rewrite <- Hfst. now rewrite nth_error_map, Hpd. }
    rewrite (surjective_pairing pd) at 1.
    apply (Hres li (fst pd) (snd pd) sfx z s k Hp); auto. apply Hassoc. eapply nth_error_In; eauto.
Qed.

(* the composed pipeline never answers a request whose observable acts on a dropped idle qubit *)
Theorem idle_refusal {A} basis_of relabel dx n ncl ncr c labels ps p q
  (rest : Partition.problem -> res A) v :
  In p ps -> q < n -> nth q (PartitionP.labels_used n c labels) None = None -> nth q (plets p) 0 <> 0 ->
  res_bind (partition_problem basis_of relabel dx n ncl ncr c labels (Some ps)) rest <> Ok v.
Proof.
  intros Hp Hq Hl Hnz H.
  destruct (partition_problem basis_of relabel dx n ncl ncr c labels (Some ps)) as [r| |] eqn:E; try discriminate.
  exact (PartitionP.idle_observable_never_ok basis_of relabel dx n ncl ncr c labels ps p q r Hp Hq Hl Hnz E).
Qed.

(* ====================================================================== *)
(* I. the whole chain  core (C05) ; exact sampler ; reconstruct_parts (C06)  *)
(* ====================================================================== *)
From CKT Require Import Common.Circ Model.Decompose Model.Measurement.

Lemma nth_map_run {A B} (f : A -> B) (l : list A) (i : nat) (x : A) (d : B) :
  nth_error l i = Some x -> nth i (map f l) d = f x.
Proof. intros H. apply nth_error_nth. now rewrite nth_error_map, H. Qed.

Lemma Forall2_nth_error {A B} (R : A -> B -> Prop) l l' :
  Forall2 R l l' -> forall i a b, nth_error l i = Some a -> nth_error l' i = Some b -> R a b.
Proof.
  induction 1 as [|x y l l' Hxy HF IH]; intros [|i] a b Ha Hb; try discriminate.
  - inversion Ha; inversion Hb; subst. exact Hxy.
  - exact (IH i a b Ha Hb).
Qed.

Lemma Forall2_nth_error_l {A B} (R : A -> B -> Prop) l l' :
  Forall2 R l l' -> forall i a, nth_error l i = Some a -> exists b, nth_error l' i = Some b /\ R a b.
Proof.
  induction 1 as [|x y l l' Hxy HF IH]; intros [|i] a Ha; try discriminate.
  - inversion Ha; subst. exists y. split; [reflexivity|exact Hxy].
  - exact (IH i a Ha).
Qed.

Lemma nth_error_combine {A B} (l : list A) (l' : list B) i a b :
  nth_error (combine l l') i = Some (a, b) -> nth_error l i = Some a /\ nth_error l' i = Some b.
Proof.
  revert l' i. induction l as [|x l IH]; intros [|y l'] [|i] H; try discriminate.
  - inversion H; subst. auto.
  - exact (IH l' i H).
Qed.

Section Generated.
  Variables (gh gsx : nat) (env : benv).
  Variable run : mcirc -> list (Reconstruct.key * Q).
  Variable den : Reconstruct.key -> N.
  Variables (C : list (list Q)) (table : list (nat * pinfo)) (og : list (nat * list ogroup)) (W : sdict).
  Variables (out : list (nat * list mcirc)) (cq : list (Q * wkind)).
  Hypothesis Hcore : Experiments.core gh gsx env C table og W = Ok (out, cq).

  (* the reconstruction's view of the same observable collections: one `part` per entry of og, with as many groups *)
  Variable rparts : list Reconstruct.part.
  Variable nobs : nat.
  Hypothesis rparts_groups :
    Forall2 (fun lg rp => length (Reconstruct.pgroups rp) = length (snd lg)) og rparts.
  Hypothesis rparts_shape : forall rp, In rp rparts ->
    length (Reconstruct.plookup rp) = nobs /\ locs_wf rp.

  Let S := sort_samples W.
  Let E := E_all gh gsx env run den table og rparts.
  Let L := L_of (length C) table og.

  (* one partition: the decoded results of sample z are E_gen at the projection of the sample's joint map *)
  Lemma generated_partition_exact lg le rp z s k :
    entry_ok gh gsx env table S lg le ->
    length (Reconstruct.pgroups rp) = length (snd lg) ->
    length (Reconstruct.plookup rp) = nobs -> locs_wf rp ->
    nth_error S z = Some s -> length (s_ids s) = length C -> k < nobs ->
    Reconstruct.E den (rp, Reconstruct.DV1 (map run (snd le))) z k
    = E_gen gh gsx env run den rp (pinfo_of table (fst lg)) (snd lg)
        (project_ids (sfx_of (length C) (pinfo_of table (fst lg))) (s_ids s)) k.
  Proof.
    intros (_ & _ & Hent) HG Hlk Hlocs Hs Hlen Hk.
    unfold Reconstruct.E, E_gen. cbn [fst snd]. f_equal. apply map_ext_in. intros [m n] Hmn. cbn [fst snd].
    assert (Hin : In (nth k (Reconstruct.plookup rp) []) (Reconstruct.plookup rp)) by (apply nth_In; lia).
    destruct (proj1 Hlocs _ m n Hin Hmn) as (Hm & _). rewrite HG in Hm.
    destruct (nth_error (snd lg) m) as [g|] eqn:Eg; [|apply nth_error_None in Eg; lia].
    destruct (Hent z m s g Hs Eg) as (e & (p & ms & Hp & Hms & Hb) & He).
    rewrite HG. cbn [Reconstruct.E_exp]. rewrite (nth_map_run run _ _ _ [] He). cbn [nth].
    rewrite (nth_error_nth _ _ empty_ogroup Eg).
    unfold pinfo_of. rewrite Hp. unfold exp_of, sfx_of.
    assert (Hpr : ms = project_ids match pi_sfx p with Some sfx => sfx | None => identity_sfx (length C) end (s_ids s)).
    { destruct (pi_sfx p) as [sfx|]; [now apply project_is_project_ids|].
      inversion Hms; subst. rewrite <- Hlen. symmetry. apply project_identity. }
    rewrite <- Hpr, Hb. reflexivity.
  Qed.

  Lemma sample_length z s : nth_error S z = Some s -> length (s_ids s) = length C.
  Proof.
    intros Hs. pose proof (core_coeffs _ _ _ _ _ _ _ _ _ Hcore) as HF.
    destruct (Forall2_nth_error_l _ _ _ HF z s Hs) as (c & _ & cs & Hcs & _).
    now apply chosen_coeffs_spec in Hcs.
  Qed.

  Theorem generated_roundtrip :
    forall full, Forall2 (entry_ok gh gsx env table S) og full ->
      forall (term : jkey -> nat -> Q) (Ev : nat -> Q) pyint0,
      (forall k, k < nobs ->
         (Ev k == sumQ (map (fun ids => (coeff_prod C ids * term ids k)%Q) (all_maps (map (@length Q) C))))%Q) ->
      (forall ids k, In ids (all_maps (map (@length Q) C)) -> k < nobs -> (term ids k == part_prod L E ids k)%Q) ->
      (forall v, In v C -> ~ (kappa_of v == 0)%Q) ->
      exact_weights C W ->
      (forall pd key, In pd (results_of run rparts full) -> In key (Reconstruct.keys_of (snd pd)) ->
         Reconstruct.outcome_to_int pyint0 key = Some (den key)) ->
      Reconstruct.res_Qeq (Reconstruct.reconstruct_parts pyint0 nobs (map fst cq) (results_of run rparts full))
                          (Ok (map Ev (seq 0 nobs))).
  Proof.
    intros full HF.
    intros term Ev pyint0 P1 P23 Hk HW Hkeys.
    pose proof (core_coeffs _ _ _ _ _ _ _ _ _ Hcore) as Hcq.
    assert (HlenS : length S = length cq) by (apply (Forall2_length' _ _ _ Hcq)).
    assert (Hlen1 : length rparts = length og) by (symmetry; apply (Forall2_length' _ _ _ rparts_groups)).
    assert (Hlen2 : length full = length og) by (symmetry; apply (Forall2_length' _ _ _ HF)).
    (* components of an entry of the results list *)
    assert (Hcomp : forall li pd, nth_error (results_of run rparts full) li = Some pd ->
              exists lg le, nth_error og li = Some lg /\ nth_error full li = Some le /\
                            nth_error rparts li = Some (fst pd) /\ snd pd = Reconstruct.DV1 (map run (snd le))).
    { intros li [rp d] Hpd. unfold results_of in Hpd. apply nth_error_combine in Hpd as (H1 & H2).
      rewrite nth_error_map in H2. destruct (nth_error full li) as [le|] eqn:Ele; [|discriminate]. inversion H2; subst.
      destruct (nth_error og li) as [lg|] eqn:Elg.
      - exists lg, le. auto.
      - apply nth_error_None in Elg. assert (li < length full) by (apply nth_error_Some; congruence). lia. }
    apply (roundtrip C L nobs term Ev E P1 P23 W cq Hk HW Hcq pyint0 den (results_of run rparts full)).
    - unfold results_of, L, L_of. rewrite combine_length, !map_length. lia.
    - intros pd Hpd. apply In_nth_error in Hpd as (li & Hli).
      destruct (Hcomp li pd Hli) as (lg & le & Hlg & Hle & Hrp & ->). cbn [Reconstruct.data_len].
      rewrite !map_length. destruct (Forall2_nth_error _ _ _ HF li lg le Hlg Hle) as (_ & Hcnt & _).
      rewrite Hcnt, (Forall2_nth_error _ _ _ rparts_groups li lg (fst pd) Hlg Hrp). now rewrite HlenS.
    - intros pd Hpd. apply rparts_shape. destruct pd as [rp d]. now apply in_combine_l in Hpd.
    - exact Hkeys.
    - intros li pd sfx z s k Hpd Hsfx Hs Hlt.
      destruct (Hcomp li pd Hpd) as (lg & le & Hlg & Hle & Hrp & Hd).
      unfold L, L_of in Hsfx. rewrite nth_error_map, Hlg in Hsfx. inversion Hsfx; subst sfx.
      destruct (rparts_shape (fst pd) (nth_error_In _ _ Hrp)) as (Hlk & Hlocs).
      rewrite (surjective_pairing pd), Hd.
      rewrite (generated_partition_exact lg le (fst pd) z s k
                 (Forall2_nth_error _ _ _ HF li lg le Hlg Hle)
                 (Forall2_nth_error _ _ _ rparts_groups li lg (fst pd) Hlg Hrp) Hlk Hlocs Hs (sample_length z s Hs) Hlt).
      unfold E, E_all. rewrite (nth_error_nth _ _ (0, []) Hlg), (nth_error_nth _ _ empty_part Hrp). reflexivity.
  Qed.
End Generated.

(* the projection lists are DERIVED from the subcircuits: the label suffixes of the one-qubit placeholders of each
   subcircuit, in circuit order (separated form); all cut ids in order (unseparated form) *)
Lemma table_of_lookup d M l qc :
  alookup d l = Some qc -> exists p, alookup (table_of d M) l = Some p.
Proof.
  unfold table_of. induction d as [|[l0 q0] d IH]; cbn [map alookup fst snd]; [discriminate|].
  destruct (Nat.eqb l l0); [eauto|exact IH].
Qed.

Lemma L_of_dict d M og ncuts li lg qc :
  mapping_by_partition d = Ok M -> nth_error og li = Some lg -> alookup d (fst lg) = Some qc ->
  nth_error (L_of ncuts (table_of d M) og) li = Some (suffixes (mdata qc)).
Proof.
  intros HM Hlg Hqc. unfold L_of. rewrite nth_error_map, Hlg. cbn [option_map]. f_equal.
  destruct (table_of_lookup d M _ _ Hqc) as (p & Hp). unfold pinfo_of. rewrite Hp.
  destruct (table_lookup d M _ p HM Hp) as (qc' & ids & sfx & Hqc' & Hs & ->).
  rewrite Hqc in Hqc'. inversion Hqc'; subst qc'. apply mapping_scan_spec in Hs as (_ & -> & _). reflexivity.
Qed.

Lemma L_of_single ncuts qc ids groups :
  L_of ncuts [(label_A, mkPI qc ids None)] [(label_A, groups)] = [identity_sfx ncuts].
Proof. reflexivity. Qed.

(* from the public model of generate_cutting_experiments, separated form *)
Theorem generated_roundtrip_dict gh gsx env cenv d od NS W dd cq
  (run : mcirc -> list (Reconstruct.key * Q)) (den : Reconstruct.key -> N) :
  generate gh gsx env cenv (CDict d) (ODict od) NS W = Ok (OutDict dd, cq) ->
  let C := map (fun b => nth b cenv []) (bases_by_partition d) in
  exists M og full,
    mapping_by_partition d = Ok M /\ all_groups od = Ok og /\
    dd = filter (fun le => negb (Nat.eqb (length (snd le)) 0)) full /\
    Forall2 (entry_ok gh gsx env (table_of d M) (sort_samples W)) og full /\
    (forall li lg qc, nth_error og li = Some lg -> alookup d (fst lg) = Some qc ->
       nth_error (L_of (length C) (table_of d M) og) li = Some (suffixes (mdata qc))) /\
    forall (rparts : list Reconstruct.part) (nobs : nat) (term : jkey -> nat -> Q) (Ev : nat -> Q) pyint0,
    Forall2 (fun lg rp => length (Reconstruct.pgroups rp) = length (snd lg)) og rparts ->
    (forall rp, In rp rparts -> length (Reconstruct.plookup rp) = nobs /\ locs_wf rp) ->
    (forall k, k < nobs ->
       (Ev k == sumQ (map (fun ids => (coeff_prod C ids * term ids k)%Q) (all_maps (map (@length Q) C))))%Q) ->
    (forall ids k, In ids (all_maps (map (@length Q) C)) -> k < nobs ->
       (term ids k == part_prod (L_of (length C) (table_of d M) og)
                                (E_all gh gsx env run den (table_of d M) og rparts) ids k)%Q) ->
    (forall v, In v C -> ~ (kappa_of v == 0)%Q) ->
    exact_weights C W ->
    (forall pd key, In pd (results_of run rparts full) -> In key (Reconstruct.keys_of (snd pd)) ->
       Reconstruct.outcome_to_int pyint0 key = Some (den key)) ->
    Reconstruct.res_Qeq (Reconstruct.reconstruct_parts pyint0 nobs (map fst cq) (results_of run rparts full))
                        (Ok (map Ev (seq 0 nobs))).
Proof.
  intros H C. destruct (generate_dict_inv _ _ _ _ _ _ _ _ _ H) as (_ & M & og & dd' & HM & Hog & Hcore & Hfst).
  cbn [fst snd] in *. inversion Hfst; subst dd'. fold C in Hcore.
  destruct (core_layout _ _ _ _ _ _ _ _ _ Hcore) as (full & HF & Hout).
  exists M, og, full. split; [exact HM|split; [exact Hog|split; [exact Hout|split; [exact HF|split]]]].
  - intros li lg qc. now apply L_of_dict.
  - intros rparts nobs term Ev pyint0 G1 G2.
    exact (generated_roundtrip gh gsx env run den C (table_of d M) og W dd cq Hcore rparts nobs G1 G2 full HF term Ev pyint0).
Qed.

(* ... and unseparated form: one partition, identity projection *)
Theorem generated_roundtrip_single gh gsx env cenv qc gs NS W l cq
  (run : mcirc -> list (Reconstruct.key * Q)) (den : Reconstruct.key -> N) :
  generate gh gsx env cenv (CSingle qc) (OPaulis gs) NS W = Ok (OutList l, cq) ->
  exists groups bs ids,
    gs = Ok groups /\ get_bases 0 (mdata qc) = Ok (bs, ids) /\
    let C := map (fun b => nth b cenv []) bs in
    let table := [(label_A, mkPI qc ids None)] in
    let og := [(label_A, groups)] in
    forall (rp : Reconstruct.part) (nobs : nat) (term : jkey -> nat -> Q) (Ev : nat -> Q) pyint0,
    length (Reconstruct.pgroups rp) = length groups ->
    length (Reconstruct.plookup rp) = nobs -> locs_wf rp ->
    (forall k, k < nobs ->
       (Ev k == sumQ (map (fun ids => (coeff_prod C ids * term ids k)%Q) (all_maps (map (@length Q) C))))%Q) ->
    (forall ids k, In ids (all_maps (map (@length Q) C)) -> k < nobs ->
       (term ids k == part_prod [identity_sfx (length C)] (E_all gh gsx env run den table og [rp]) ids k)%Q) ->
    (forall v, In v C -> ~ (kappa_of v == 0)%Q) ->
    exact_weights C W ->
    (forall key, In key (Reconstruct.keys_of (Reconstruct.DV1 (map run l))) ->
       Reconstruct.outcome_to_int pyint0 key = Some (den key)) ->
    Reconstruct.res_Qeq (Reconstruct.reconstruct_parts pyint0 nobs (map fst cq) [(rp, Reconstruct.DV1 (map run l))])
                        (Ok (map Ev (seq 0 nobs))).
Proof.
  intros H. destruct (generate_single_inv _ _ _ _ _ _ _ _ _ H) as (_ & groups & bs & ids & lA & l' & Hgs & Hb & Hcore & Hfst).
  cbn [fst snd] in *. inversion Hfst; subst l'.
  exists groups, bs, ids. split; [exact Hgs|split; [exact Hb|]]. cbv zeta. intros rp nobs term Ev pyint0 HG Hlk Hlocs P1 P23 Hk HW Hkeys.
  set (C := map (fun b => nth b cenv []) bs) in *. set (table := [(label_A, mkPI qc ids None)]) in *.
  set (og := [(label_A, groups)]) in *.
  destruct (core_layout _ _ _ _ _ _ _ _ _ Hcore) as (full & HF & Hout).
  assert (Hone : exists le, full = [le] /\ entry_ok gh gsx env table (sort_samples W) (label_A, groups) le).
  { clear -HF. unfold og in HF. inversion HF as [|lg le og' full' Hle HF' E1 E2]. inversion HF'. exists le. auto. }
  destruct Hone as (le & -> & Hle).
  assert (G1 : Forall2 (fun lg rp0 => length (Reconstruct.pgroups rp0) = length (snd lg)) og [rp]) by (repeat constructor; exact HG).
  assert (G2 : forall rp0, In rp0 [rp] -> length (Reconstruct.plookup rp0) = nobs /\ locs_wf rp0)
    by (intros rp0 [<-|[]]; auto).
  pose proof (generated_roundtrip gh gsx env run den C table og W _ cq Hcore [rp] nobs G1 G2 [le] HF term Ev pyint0 P1 P23 Hk HW) as Hmain.
  (* the single returned list is the entry of the table *)
  assert (Hl : snd le = l).
  { cbn [filter] in Hout. destruct (negb (length (snd le) =? 0)) eqn:En.
    - inversion Hout. destruct le; cbn in *; congruence.
    - discriminate. }
  unfold results_of in Hmain. cbn [combine map] in Hmain. rewrite Hl in Hmain. apply Hmain.
  intros pd key [<-|[]] Hkey. exact (Hkeys key Hkey).
Qed.

(* the chain with the weights dictionary of the C04 model (infinite budget): exact_weights is discharged *)
Theorem generated_roundtrip_c04 gh gsx env run den (C : list (list Q)) table og out cq :
  no_subcutoff_map C ->
  Experiments.core gh gsx env C table og (of_wdict (Weights.all_exact (probs_of C) 1)) = Ok (out, cq) ->
  forall (rparts : list Reconstruct.part) (nobs : nat),
  Forall2 (fun lg rp => length (Reconstruct.pgroups rp) = length (snd lg)) og rparts ->
  (forall rp, In rp rparts -> length (Reconstruct.plookup rp) = nobs /\ locs_wf rp) ->
  forall full, Forall2 (entry_ok gh gsx env table (sort_samples (of_wdict (Weights.all_exact (probs_of C) 1)))) og full ->
  forall (term : jkey -> nat -> Q) (Ev : nat -> Q) pyint0,
  (forall k, k < nobs ->
     (Ev k == sumQ (map (fun ids => (coeff_prod C ids * term ids k)%Q) (all_maps (map (@length Q) C))))%Q) ->
  (forall ids k, In ids (all_maps (map (@length Q) C)) -> k < nobs ->
     (term ids k == part_prod (L_of (length C) table og) (E_all gh gsx env run den table og rparts) ids k)%Q) ->
  (forall v, In v C -> ~ (kappa_of v == 0)%Q) ->
  (forall pd key, In pd (results_of run rparts full) -> In key (Reconstruct.keys_of (snd pd)) ->
     Reconstruct.outcome_to_int pyint0 key = Some (den key)) ->
  Reconstruct.res_Qeq (Reconstruct.reconstruct_parts pyint0 nobs (map fst cq) (results_of run rparts full))
                      (Ok (map Ev (seq 0 nobs))).
Proof.
  intros Hno Hcore rparts nobs G1 G2 full HF term Ev pyint0 P1 P23 Hk Hkeys.
  exact (generated_roundtrip gh gsx env run den C table og _ out cq Hcore rparts nobs G1 G2 full HF term Ev pyint0 P1 P23 Hk
           (all_exact_is_exact_weights C Hno) Hkeys).
Qed.

(* the idle refusal, sharpened: the composed pipeline's first stage answers Refused (a ValueError) — the only other
   possibility is that an EARLIER stage of partition_problem (partition_circuit_qubits / separate_circuit) crashed *)
Theorem idle_refused basis_of relabel dx n ncl ncr c labels ps p q :
  In p ps -> q < length (PartitionP.labels_used n c labels) ->
  nth q (PartitionP.labels_used n c labels) None = None -> nth q (plets p) 0 <> 0 ->
  partition_problem basis_of relabel dx n ncl ncr c labels (Some ps) = Refused \/
  partition_circuit_qubits basis_of n c (PartitionP.labels_used n c labels) = Crashed \/
  exists qc, partition_circuit_qubits basis_of n c (PartitionP.labels_used n c labels) = Ok qc /\
             Separate.separate_circuit n [] (dx (fst (number_qpd relabel qc 0))) (Some (PartitionP.labels_used n c labels)) = Crashed.
Proof.
  intros Hp Hq Hl Hnz.
  pose proof (proj1 (PartitionP.idle_observable_spec (PartitionP.labels_used n c labels) ps) p q Hp Hq Hl Hnz) as Hso.
  unfold partition_problem. fold (PartitionP.labels_used n c labels).
  repeat match goal with |- context [if ?b then Refused else _] => destruct b; [now left|] end.
  cbv zeta.
  change (match labels with Some ls => ls | None => Separate.auto_labels n is_qpd2 false c end)
    with (PartitionP.labels_used n c labels).
  destruct (partition_circuit_qubits basis_of n c (PartitionP.labels_used n c labels)) as [qc| |] eqn:Epcq;
    [|now left|right; now left].
  destruct (number_qpd relabel qc 0) as [qc' bases] eqn:En. cbn [fst].
  destruct (Separate.separate_circuit n [] (dx qc') (Some (PartitionP.labels_used n c labels))) as [[subs qm]| |] eqn:Es.
  - destruct ps as [|p0 ps']; [destruct Hp|]. rewrite Hso. now left.
  - now left.
  - right. right. exists qc. split; [reflexivity|]. rewrite En. exact Es.
Qed.

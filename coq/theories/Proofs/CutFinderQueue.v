(* Proofs/CutFinderQueue.v — the priority-queue abstraction, made precise.
   The model keeps the queue as a list and pops with [extract_min].  Here:
   * [entry_lt] is a strict order on (cost, -depth, rand, seq), total on entries with different seq;
   * [extract_min] returns an entry with no smaller entry in the queue and leaves the others (as a multiset);
   * with pairwise different seq numbers (an invariant of the search) such an entry is UNIQUE, so ANY pop that returns
     an entry with no smaller one in the heap and removes exactly it (the contract of heapq.heappop on a heap built by
     heappush) pops the same entry as the model and leaves the same multiset;
   * the search loop depends on the queue only as a multiset (invariance under permutation).
   Hence the only thing assumed about heapq is:  heappop returns a minimum under the tuple order and removes it. *)
From Coq Require Import QArith Relations Lia Permutation.
From CKT Require Import Model.CutFinder.
Close Scope Q_scope.

(* ---------------- comparisons that are strict weak orders ---------------- *)
Record good {A} (c : A -> A -> comparison) : Prop := {
  g_anti : forall a b, c b a = CompOpp (c a b) ;
  g_lt : forall a b z, c a b = Lt -> c b z = Lt -> c a z = Lt ;
  g_eq : forall a b z, c a b = Eq -> c b z = Eq -> c a z = Eq ;
  g_el : forall a b z, c a b = Eq -> c b z = Lt -> c a z = Lt ;
  g_le : forall a b z, c a b = Lt -> c b z = Eq -> c a z = Lt
}.

Definition lex {A} (c1 c2 : A -> A -> comparison) (a b : A) : comparison :=
  match c1 a b with Eq => c2 a b | r => r end.

Lemma good_lex {A} (c1 c2 : A -> A -> comparison) : good c1 -> good c2 -> good (lex c1 c2).
Proof.
  intros G1 G2. constructor; unfold lex.
  - intros a b. rewrite (g_anti _ G1 a b). destruct (c1 a b); simpl; auto. apply (g_anti _ G2).
  - intros a b z. destruct (c1 a b) eqn:E1; destruct (c1 b z) eqn:E2; try discriminate; intros H1 H2.
    + rewrite (g_eq _ G1 _ _ _ E1 E2). eapply (g_lt _ G2); eauto.
    + now rewrite (g_el _ G1 _ _ _ E1 E2).
    + now rewrite (g_le _ G1 _ _ _ E1 E2).
    + now rewrite (g_lt _ G1 _ _ _ E1 E2).
  - intros a b z. destruct (c1 a b) eqn:E1; destruct (c1 b z) eqn:E2; try discriminate; intros H1 H2.
    rewrite (g_eq _ G1 _ _ _ E1 E2). eapply (g_eq _ G2); eauto.
  - intros a b z. destruct (c1 a b) eqn:E1; destruct (c1 b z) eqn:E2; try discriminate; intros H1 H2.
    + rewrite (g_eq _ G1 _ _ _ E1 E2). eapply (g_el _ G2); eauto.
    + now rewrite (g_el _ G1 _ _ _ E1 E2).
  - intros a b z. destruct (c1 a b) eqn:E1; destruct (c1 b z) eqn:E2; try discriminate; intros H1 H2.
    + rewrite (g_eq _ G1 _ _ _ E1 E2). eapply (g_le _ G2); eauto.
    + now rewrite (g_le _ G1 _ _ _ E1 E2).
Qed.

Lemma good_on {A B} (f : A -> B) (c : B -> B -> comparison) : good c -> good (fun a b => c (f a) (f b)).
Proof. intros G. constructor; intros; [apply (g_anti _ G)|eapply (g_lt _ G)|eapply (g_eq _ G)|eapply (g_el _ G)|eapply (g_le _ G)]; eauto. Qed.

Lemma good_flip {A} (c : A -> A -> comparison) : good c -> good (fun a b => c b a).
Proof.
  intros G. constructor; intros.
  - apply (g_anti _ G).
  - eapply (g_lt _ G); eauto.
  - eapply (g_eq _ G); eauto.
  - eapply (g_le _ G); eauto.
  - eapply (g_el _ G); eauto.
Qed.

Lemma good_nat : good Nat.compare.
Proof.
  constructor; intros a b; [apply Nat.compare_antisym| | | |]; intros z;
    rewrite ?Nat.compare_lt_iff, ?Nat.compare_eq_iff; lia.
Qed.

Lemma good_Q : good Qcompare.
Proof.
  constructor.
  - intros a b. symmetry. apply Qcompare_antisym.
  - intros a b z. rewrite <- !Qlt_alt. apply Qlt_trans.
  - intros a b z. rewrite <- !Qeq_alt. apply Qeq_trans.
  - intros a b z. rewrite <- !Qlt_alt, <- Qeq_alt. intros H1 H2. now rewrite H1.
  - intros a b z. rewrite <- !Qlt_alt, <- Qeq_alt. intros H1 H2. now rewrite <- H2.
Qed.

(* the tuple order of the queue entries *)
Definition ecmp : qentry -> qentry -> comparison :=
  lex (fun a b => Qcompare (q_cost a) (q_cost b))
   (lex (fun a b => Nat.compare (q_depth b) (q_depth a))
    (lex (fun a b => Qcompare (q_rand a) (q_rand b))
         (fun a b => Nat.compare (q_seq a) (q_seq b)))).

Lemma good_ecmp : good ecmp.
Proof.
  unfold ecmp. repeat apply good_lex.
  - apply (good_on q_cost _ good_Q).
  - apply (good_flip _ (good_on q_depth _ good_nat)).
  - apply (good_on q_rand _ good_Q).
  - apply (good_on q_seq _ good_nat).
Qed.

Lemma entry_lt_ecmp a b : entry_lt a b = true <-> ecmp a b = Lt.
Proof.
  unfold entry_lt, ecmp, lex.
  destruct (Qcompare (q_cost a) (q_cost b)); try (split; congruence).
  destruct (Nat.compare (q_depth b) (q_depth a)); try (split; congruence).
  destruct (Qcompare (q_rand a) (q_rand b)); try (split; congruence).
  rewrite Nat.ltb_lt, Nat.compare_lt_iff. reflexivity.
Qed.

Lemma entry_lt_trans a b c : entry_lt a b = true -> entry_lt b c = true -> entry_lt a c = true.
Proof. rewrite !entry_lt_ecmp. apply (g_lt _ good_ecmp). Qed.

Lemma entry_lt_asym a b : entry_lt a b = true -> entry_lt b a = false.
Proof.
  intros H. destruct (entry_lt b a) eqn:E; [|reflexivity]. exfalso.
  apply entry_lt_ecmp in H. apply entry_lt_ecmp in E. rewrite (g_anti _ good_ecmp a b), H in E. discriminate.
Qed.

Lemma entry_lt_total a b : q_seq a <> q_seq b -> entry_lt a b = true \/ entry_lt b a = true.
Proof.
  intros N. rewrite !entry_lt_ecmp. destruct (ecmp a b) eqn:E; [exfalso|now left|right].
  - unfold ecmp, lex in E.
    destruct (Qcompare (q_cost a) (q_cost b)); try discriminate.
    destruct (Nat.compare (q_depth b) (q_depth a)); try discriminate.
    destruct (Qcompare (q_rand a) (q_rand b)); try discriminate.
    apply Nat.compare_eq_iff in E. contradiction.
  - rewrite (g_anti _ good_ecmp a b), E. reflexivity.
Qed.

(* ---------------- extract_min pops a minimum ---------------- *)
Definition minimal_in (e : qentry) (l : list qentry) : Prop := forall x, In x l -> entry_lt x e = false.

Lemma extract_min_from_spec' : forall l best acc e rest,
  extract_min_from best acc l = (e, rest) -> minimal_in best acc ->
  Permutation (best :: acc ++ l) (e :: rest) /\ minimal_in e (best :: acc ++ l).
Proof.
  induction l as [|x l IH]; intros best acc e rest H Hmin; simpl in H.
  - inversion H; subst. rewrite app_nil_r. split; [apply Permutation_refl|].
    intros y [<-|Hy]; [|now apply Hmin].
    destruct (entry_lt e e) eqn:E; [|reflexivity]. pose proof (entry_lt_asym _ _ E). congruence.
  - destruct (entry_lt x best) eqn:Ex.
    + destruct (IH x (best :: acc) e rest H) as [P M].
      { intros y [<-|Hy]; [now apply entry_lt_asym|].
        destruct (entry_lt y x) eqn:Ey; [|reflexivity].
        pose proof (entry_lt_trans _ _ _ Ey Ex) as C. rewrite (Hmin y Hy) in C. discriminate. }
      split.
      * eapply Permutation_trans; [|exact P]. cbn [app].
        eapply Permutation_trans; [|apply perm_swap]. apply perm_skip.
        apply Permutation_sym. apply (Permutation_middle acc l x).
      * intros y Hy. apply M. cbn [app]. destruct Hy as [<-|Hy]; [right; now left|].
        apply in_app_or in Hy as [Hy|[<-|Hy]]; [right; right; apply in_or_app; now left|now left|
                                                  right; right; apply in_or_app; now right].
    + destruct (IH best (x :: acc) e rest H) as [P M].
      { intros y [<-|Hy]; [exact Ex|now apply Hmin]. }
      split.
      * eapply Permutation_trans; [|exact P]. apply perm_skip. cbn [app].
        apply Permutation_sym. apply (Permutation_middle acc l x).
      * intros y Hy. apply M. cbn [app]. destruct Hy as [<-|Hy]; [now left|].
        apply in_app_or in Hy as [Hy|[<-|Hy]]; [right; right; apply in_or_app; now left|right; now left|
                                                  right; right; apply in_or_app; now right].
Qed.

Theorem extract_min_pops_minimum l e rest :
  extract_min l = Some (e, rest) -> Permutation l (e :: rest) /\ minimal_in e l.
Proof.
  destruct l as [|x l]; [discriminate|]. simpl. intros H. inversion H as [H'].
  apply (extract_min_from_spec' l x [] e rest H'). intros y [].
Qed.

(* ---------------- the popped entry is determined by the contract ---------------- *)
Definition seqs_distinct (l : list qentry) : Prop := NoDup (map q_seq l).

Lemma minimal_unique l e e' :
  seqs_distinct l -> In e l -> In e' l -> minimal_in e l -> minimal_in e' l -> e = e'.
Proof.
  intros ND He He' M M'.
  destruct (Nat.eq_dec (q_seq e) (q_seq e')) as [E|N].
  - clear M M'. unfold seqs_distinct in ND. induction l as [|x l IH]; [destruct He|].
    simpl in ND. inversion ND as [|? ? Hn ND']; subst.
    destruct He as [<-|He], He' as [<-|He']; auto.
    + exfalso. apply Hn. rewrite E. now apply in_map.
    + exfalso. apply Hn. rewrite <- E. now apply in_map.
  - exfalso. destruct (entry_lt_total e e' N) as [H|H].
    + rewrite (M' e He) in H. discriminate.
    + rewrite (M e' He') in H. discriminate.
Qed.

(* the contract of heappop, for an arbitrary representation [l'] of the same multiset *)
Theorem pop_contract_determines l l' e rest e' rest' :
  seqs_distinct l -> Permutation l l' ->
  extract_min l = Some (e, rest) ->
  In e' l' -> minimal_in e' l' -> Permutation l' (e' :: rest') ->
  e' = e /\ Permutation rest rest'.
Proof.
  intros ND P Hex He' Hmin' P'.
  destruct (extract_min_pops_minimum _ _ _ Hex) as [Pe Me].
  assert (Ein : In e l) by (eapply Permutation_in; [apply Permutation_sym; exact Pe|now left]).
  assert (E : e = e').
  { apply (minimal_unique l); auto.
    - eapply Permutation_in; [apply Permutation_sym; exact P|exact He'].
    - intros x Hx. apply Hmin'. eapply Permutation_in; eauto. }
  subst e'. split; [reflexivity|].
  apply (Permutation_cons_inv (a := e)).
  eapply Permutation_trans; [apply Permutation_sym; exact Pe|]. eapply Permutation_trans; [exact P|exact P'].
Qed.

(* ---------------- the search sees the queue only as a multiset ---------------- *)
Definition with_pq (b : bfs) (l : list qentry) : bfs :=
  mkB l (pushes b) (upperbound b) (min_reached b) (n_visited b) (n_next b) (n_enq b) (n_backjumps b) (pen_stats b) (n_pushback b).

Definition bsim (b b' : bfs) : Prop := exists l', Permutation (pq b) l' /\ b' = with_pq b l'.

Lemma bsim_refl b : bsim b b.
Proof. exists (pq b). split; [apply Permutation_refl|destruct b; reflexivity]. Qed.

(* seq numbers in the queue are pairwise different and below the push counter *)
Definition SD (b : bfs) : Prop := seqs_distinct (pq b) /\ forall e, In e (pq b) -> q_seq e < pushes b.

Lemma NoDup_app_r {A} (l1 l2 : list A) : NoDup (l1 ++ l2) -> NoDup l2.
Proof. induction l1 as [|a l1 IH]; simpl; intros H; [exact H|]. inversion H; auto. Qed.

Section Perm.
  Variable tape : nat -> Q.
  Variable fa : fargs.
  Variable max_gamma : Q.
  Variable max_backjumps : option nat.

  Lemma put_states_sim : forall l b b' d, bsim b b' -> bsim (put_states tape b l d) (put_states tape b' l d).
  Proof.
    induction l as [|s r IH]; intros b b' d (l' & P & ->); cbn [put_states]; [exists l'; auto|].
    apply IH. cbn [with_pq upperbound].
    destruct (upperbound b) as [u|]; [destruct (Qleb (cost s) u)|];
      try (exists l'; split; [exact P|reflexivity]);
      (eexists; split; [apply perm_skip; exact P|reflexivity]).
  Qed.

  Lemma put_states_SD : forall l b d, SD b -> SD (put_states tape b l d).
  Proof.
    induction l as [|s r IH]; intros b d H; cbn [put_states]; [exact H|]. apply IH.
    assert (Hput : SD (incr_enq (pq_put tape b s d (cost s)))).
    { destruct H as [ND Hlt]. split.
      - unfold seqs_distinct. cbn. constructor; [|exact ND].
        intros Hin. apply in_map_iff in Hin as (e & Ee & He). specialize (Hlt e He). lia.
      - intros e [<-|He]; cbn; [lia|]. specialize (Hlt e He). lia. }
    destruct (upperbound b) as [u|]; [destruct (Qleb (cost s) u)|]; auto.
  Qed.

  Lemma SD_sub b l p : SD b -> Permutation (pq b) (p ++ l) -> pushes b <= pushes (with_pq b l) ->
    SD (with_pq b l).
  Proof.
    intros [ND Hlt] P _. split.
    - unfold seqs_distinct in *. cbn. apply (Permutation_map q_seq) in P. rewrite map_app in P.
      eapply Permutation_NoDup in P; [|exact ND]. apply NoDup_app_r in P. exact P.
    - intros e He. cbn in *. apply Hlt. eapply Permutation_in; [apply Permutation_sym; exact P|].
      apply in_or_app. now right.
  Qed.

  (* the body of the loop after the pop, with the recursive call abstracted *)
  Definition loop_body (rec : bfs -> option nat -> out (bfs * option (dstate * Q)))
             (b0 : bfs) (e : qentry) (prev_depth : option nat) : out (bfs * option (dstate * Q)) :=
    let s := q_state e in let depth := q_depth e in let c := q_cost e in
    let b1 := update_minimum_reached b0 c in
    if cost_bounds_exceeded max_gamma b1 c then
      let b2 := if min_reached b1 then b1 else
                  let b' := pq_put tape b1 s depth c in
                  mkB (pq b') (pushes b') (upperbound b') (min_reached b') (n_visited b') (n_next b') (n_enq b')
                      (n_backjumps b') (pen_stats b') (S (n_pushback b')) in
      Val (b2, None)
    else
      let bj := match prev_depth with
                | Some pd => if Nat.leb depth pd then S (n_backjumps b1) else n_backjumps b1
                | None => n_backjumps b1
                end in
      let b2 := mkB (pq b1) (pushes b1) (upperbound b1) (min_reached b1) (S (n_visited b1)) (n_next b1) (n_enq b1)
                    bj (pen_stats b1) (n_pushback b1) in
      if goal_state fa s then
        let b3 := mkB (pq b2) (pushes b2) (upperbound b2) (min_reached b2) (n_visited b2) (n_next b2) (n_enq b2)
                      (n_backjumps b2) (get_stats b2) (n_pushback b2) in
        let b4 := update_upperbound b3 s in
        let b5 := update_minimum_reached b4 c in
        Val (b5, Some (s, c))
      else
        do l <- next_states fa s ;;
        rec (bfs_put tape b2 l (S depth)) (Some depth).

  Lemma pass_loop_S f b pd :
    pass_loop tape fa max_gamma max_backjumps (S f) b pd =
    if negb (match pq b with [] => false | _ => true end && negb (min_reached b) && backjumps_left max_backjumps b)
    then Val (match pq b with [] => set_min_reached b true | _ => b end, None)
    else match extract_min (pq b) with
         | None => Crash
         | Some (e, rest) => loop_body (pass_loop tape fa max_gamma max_backjumps f) (with_pq b rest) e pd
         end.
  Proof. cbn [pass_loop]. destruct (negb _); [reflexivity|]. destruct (extract_min (pq b)) as [[e rest]|]; reflexivity. Qed.

  Definition orel (o o' : out (bfs * option (dstate * Q))) : Prop :=
    match o, o' with
    | Val (b1, r), Val (b1', r') => r = r' /\ bsim b1 b1' /\ SD b1
    | Ref, Ref | Crash, Crash | NoFuel, NoFuel => True
    | _, _ => False
    end.

  Lemma loop_body_perm rec rec' b0 rest' e pd :
    (forall b b' pd0, SD b -> bsim b b' -> orel (rec b pd0) (rec' b' pd0)) ->
    SD b0 -> Permutation (pq b0) rest' -> q_seq e < pushes b0 ->
    orel (loop_body rec b0 e pd) (loop_body rec' (with_pq b0 rest') e pd).
  Proof.
    intros IH S0 Pr Elt. unfold loop_body.
    set (b1 := update_minimum_reached b0 (q_cost e)).
    assert (E1 : update_minimum_reached (with_pq b0 rest') (q_cost e) = with_pq b1 rest').
    { unfold b1, update_minimum_reached. cbn [with_pq upperbound]. destruct (upperbound b0); [destruct (Qleb _ _)|]; reflexivity. }
    rewrite E1.
    assert (P1 : pq b1 = pq b0) by (unfold b1, update_minimum_reached; destruct (upperbound b0); [destruct (Qleb _ _)|]; reflexivity).
    assert (S1 : SD b1) by (unfold b1, update_minimum_reached; destruct (upperbound b0); [destruct (Qleb _ _)|]; exact S0).
    assert (U1 : pushes b1 = pushes b0) by (unfold b1, update_minimum_reached; destruct (upperbound b0); [destruct (Qleb _ _)|]; reflexivity).
    change (cost_bounds_exceeded max_gamma (with_pq b1 rest') (q_cost e)) with (cost_bounds_exceeded max_gamma b1 (q_cost e)).
    cbn [with_pq min_reached].
    destruct (cost_bounds_exceeded max_gamma b1 (q_cost e)).
    { cbn [orel]. split; [reflexivity|]. destruct (min_reached b1) eqn:Emr.
      - split; [exists rest'; split; [rewrite P1; exact Pr|reflexivity]|exact S1].
      - split.
        + eexists; split; [cbn [pq pq_put]; apply perm_skip; rewrite P1; exact Pr|reflexivity].
        + destruct S1 as [ND Hlt]. split.
          * unfold seqs_distinct. cbn. constructor; [|exact ND].
            intros Hin. apply in_map_iff in Hin as (x & Ee & He). specialize (Hlt x He). lia.
          * intros x [<-|He]; cbn; [lia|]. specialize (Hlt x He). lia. }
    cbn [pq pushes upperbound min_reached n_visited n_next n_enq n_backjumps pen_stats n_pushback].
    destruct (goal_state fa (q_state e)).
    { cbn [orel]. split; [reflexivity|]. split.
      - unfold update_minimum_reached, update_upperbound.
        cbn [with_pq upperbound pq pushes min_reached n_visited n_next n_enq n_backjumps pen_stats n_pushback get_stats].
        repeat match goal with |- context [match ?z with _ => _ end] => destruct z end;
          (eexists; split; [cbn [pq set_min_reached]; rewrite ?P1; exact Pr|reflexivity]).
      - unfold update_minimum_reached, update_upperbound. cbn [upperbound].
        repeat match goal with |- context [match ?z with _ => _ end] => destruct z end; exact S1. }
    destruct (next_states fa (q_state e)) as [nl| | |]; cbn [obind orel]; auto.
    apply IH.
    - unfold bfs_put. apply put_states_SD. exact S1.
    - unfold bfs_put. apply put_states_sim.
      exists rest'. split; [cbn [pq]; rewrite P1; exact Pr|reflexivity].
  Qed.

  Theorem pass_loop_perm : forall fuel b b' pd,
    SD b -> bsim b b' ->
    orel (pass_loop tape fa max_gamma max_backjumps fuel b pd) (pass_loop tape fa max_gamma max_backjumps fuel b' pd).
  Proof.
    induction fuel as [|f IH]; intros b b' pd HSD (l' & P & ->).
    - cbn [pass_loop]. cbn [with_pq pq min_reached n_backjumps].
      assert (Enil : match pq b with [] => false | _ => true end = match l' with [] => false | _ => true end).
      { destruct (pq b) as [|x l]; destruct l' as [|x' l'']; auto.
        - apply Permutation_nil in P. discriminate.
        - apply Permutation_sym, Permutation_nil in P. discriminate. }
      unfold backjumps_left. cbn [n_backjumps with_pq]. rewrite <- Enil.
      destruct (negb _); [|exact I]. cbn [orel].
      destruct (pq b) as [|x l] eqn:Ep; destruct l' as [|x' l'']; try discriminate.
      + split; [reflexivity|]. split; [exists []; split; [cbn; rewrite Ep; constructor|reflexivity]|].
        split; [unfold seqs_distinct; cbn; rewrite Ep; constructor|cbn; rewrite Ep; intros e []].
      + split; [reflexivity|]. split; [exists (x' :: l''); split; [rewrite Ep; exact P|reflexivity]|rewrite <- Ep in *; exact HSD].
    - rewrite !pass_loop_S. cbn [with_pq pq min_reached].
      assert (Enil : match pq b with [] => false | _ => true end = match l' with [] => false | _ => true end).
      { destruct (pq b) as [|x l]; destruct l' as [|x' l'']; auto.
        - apply Permutation_nil in P. discriminate.
        - apply Permutation_sym, Permutation_nil in P. discriminate. }
      unfold backjumps_left. cbn [n_backjumps with_pq]. rewrite <- Enil.
      destruct (negb _) eqn:Ec.
      { cbn [orel]. destruct (pq b) as [|x l] eqn:Ep; destruct l' as [|x' l'']; try discriminate.
        + split; [reflexivity|]. split; [exists []; split; [cbn; rewrite Ep; constructor|reflexivity]|].
          split; [unfold seqs_distinct; cbn; rewrite Ep; constructor|cbn; rewrite Ep; intros e []].
        + split; [reflexivity|]. split; [exists (x' :: l''); split; [rewrite Ep; exact P|reflexivity]|rewrite <- Ep in *; exact HSD]. }
      destruct (extract_min (pq b)) as [[e rest]|] eqn:Ex.
      2:{ destruct (pq b); [|simpl in Ex; destruct (extract_min_from q [] l); discriminate].
          apply Permutation_nil in P. subst l'. exact I. }
      destruct (extract_min l') as [[e' rest']|] eqn:Ex'.
      2:{ destruct l'; [|simpl in Ex'; destruct (extract_min_from q [] l'); discriminate].
          apply Permutation_sym, Permutation_nil in P. rewrite P in Ex. discriminate. }
      destruct (extract_min_pops_minimum _ _ _ Ex') as [Pe' Me'].
      destruct (pop_contract_determines (pq b) l' e rest e' rest' (proj1 HSD) P Ex) as [-> Pr]; auto.
      { eapply Permutation_in; [apply Permutation_sym; exact Pe'|now left]. }
      destruct (extract_min_pops_minimum _ _ _ Ex) as [Pe Me].
      change (with_pq (with_pq b l') rest') with (with_pq (with_pq b rest) rest').
      apply loop_body_perm.
      + intros b2 b2' pd0. apply IH.
      + apply (SD_sub b rest [e] HSD); [exact Pe|cbn; lia].
      + exact Pr.
      + cbn [with_pq pushes]. apply (proj2 HSD). eapply Permutation_in; [apply Permutation_sym; exact Pe|now left].
  Qed.

  Lemma SD_initialize s : SD (bfs_initialize tape s).
  Proof.
    unfold bfs_initialize, bfs_put. apply put_states_SD. split; [constructor|intros e []].
  Qed.

  Lemma SD_update_upperbound b s : SD b -> SD (update_upperbound b s).
  Proof. intros H. unfold update_upperbound. destruct (upperbound b); [destruct (Qltb _ _)|]; exact H. Qed.

  (* ---------------- capstone: ANY pop satisfying the heappop contract gives the same search ---------------- *)
  Section AbstractPop.
    Variable pop : list qentry -> option (qentry * list qentry).
    (* the contract: on a non-empty heap pop returns an entry with no smaller entry in the heap and removes exactly it *)
    Hypothesis pop_some : forall l, l <> [] -> exists e rest, pop l = Some (e, rest).
    Hypothesis pop_contract : forall l e rest, pop l = Some (e, rest) ->
      In e l /\ minimal_in e l /\ Permutation l (e :: rest).

    Fixpoint pass_loop_gen (fuel : nat) (b : bfs) (prev_depth : option nat) : out (bfs * option (dstate * Q)) :=
      if negb (match pq b with [] => false | _ => true end && negb (min_reached b) && backjumps_left max_backjumps b)
      then Val (match pq b with [] => set_min_reached b true | _ => b end, None)
      else match fuel with
           | O => NoFuel
           | S f => match pop (pq b) with
                    | None => Crash
                    | Some (e, rest) => loop_body (pass_loop_gen f) (with_pq b rest) e prev_depth
                    end
           end.

    Theorem pass_loop_gen_sim : forall fuel b b' pd,
      SD b -> bsim b b' ->
      orel (pass_loop tape fa max_gamma max_backjumps fuel b pd) (pass_loop_gen fuel b' pd).
    Proof.
      induction fuel as [|f IH]; intros b b' pd HSD (l' & P & ->).
      - cbn [pass_loop pass_loop_gen]. cbn [with_pq pq min_reached n_backjumps].
        assert (Enil : match pq b with [] => false | _ => true end = match l' with [] => false | _ => true end).
        { destruct (pq b) as [|x l]; destruct l' as [|x' l'']; auto.
          - apply Permutation_nil in P. discriminate.
          - apply Permutation_sym, Permutation_nil in P. discriminate. }
        unfold backjumps_left. cbn [n_backjumps with_pq]. rewrite <- Enil.
        destruct (negb _); [|exact I]. cbn [orel].
        destruct (pq b) as [|x l] eqn:Ep; destruct l' as [|x' l'']; try discriminate.
        + split; [reflexivity|]. split; [exists []; split; [cbn; rewrite Ep; constructor|reflexivity]|].
          split; [unfold seqs_distinct; cbn; rewrite Ep; constructor|cbn; rewrite Ep; intros e []].
        + split; [reflexivity|]. split; [exists (x' :: l''); split; [rewrite Ep; exact P|reflexivity]|rewrite <- Ep in *; exact HSD].
      - rewrite pass_loop_S. cbn [pass_loop_gen]. cbn [with_pq pq min_reached].
        assert (Enil : match pq b with [] => false | _ => true end = match l' with [] => false | _ => true end).
        { destruct (pq b) as [|x l]; destruct l' as [|x' l'']; auto.
          - apply Permutation_nil in P. discriminate.
          - apply Permutation_sym, Permutation_nil in P. discriminate. }
        unfold backjumps_left. cbn [n_backjumps with_pq]. rewrite <- Enil.
        destruct (negb _) eqn:Ec.
        { cbn [orel]. destruct (pq b) as [|x l] eqn:Ep; destruct l' as [|x' l'']; try discriminate.
          + split; [reflexivity|]. split; [exists []; split; [cbn; rewrite Ep; constructor|reflexivity]|].
            split; [unfold seqs_distinct; cbn; rewrite Ep; constructor|cbn; rewrite Ep; intros e []].
          + split; [reflexivity|]. split; [exists (x' :: l''); split; [rewrite Ep; exact P|reflexivity]|rewrite <- Ep in *; exact HSD]. }
        assert (Hne : pq b <> []).
        { intros E0. rewrite E0 in Ec. discriminate. }
        assert (Hne' : l' <> []) by (intros ->; apply Hne; now apply Permutation_sym, Permutation_nil in P).
        destruct (extract_min (pq b)) as [[e rest]|] eqn:Ex.
        2:{ destruct (pq b); [congruence|simpl in Ex; destruct (extract_min_from q [] l); discriminate]. }
        destruct (pop_some l' Hne') as (e' & rest' & Ex'). rewrite Ex'.
        destruct (pop_contract _ _ _ Ex') as (Hin' & Me' & Pe').
        destruct (pop_contract_determines (pq b) l' e rest e' rest' (proj1 HSD) P Ex Hin' Me' Pe') as [-> Pr].
        destruct (extract_min_pops_minimum _ _ _ Ex) as [Pe Me].
        change (with_pq (with_pq b l') rest') with (with_pq (with_pq b rest) rest').
        apply loop_body_perm.
        + intros b2 b2' pd0. apply IH.
        + apply (SD_sub b rest [e] HSD); [exact Pe|cbn; lia].
        + exact Pr.
        + cbn [with_pq pushes]. apply (proj2 HSD). eapply Permutation_in; [apply Permutation_sym; exact Pe|now left].
    Qed.

    (* CutOptimization.optimization_pass, the driver loop and optimize over the abstract pop *)
    Definition cutopt_pass_gen (fuel : nat) (co : cutopt) : out (cutopt * option (dstate * Q)) :=
      do '(b, r) <- pass_loop_gen fuel (co_engine co) None ;;
      match r with
      | Some sc => Val (mkCO b (co_greedy co) true, Some sc)
      | None =>
          if co_returned co then Val (mkCO b (co_greedy co) true, None)
          else match co_greedy co with
               | Some g => Val (mkCO b (co_greedy co) true, Some (g, cost g))
               | None => Ref
               end
      end.

    Fixpoint driver_loop_gen (passes fuel : nat) (co : cutopt) (acc : list (Q * dstate)) : out (cutopt * list (Q * dstate)) :=
      match passes with
      | O => NoFuel
      | S p =>
          do '(co', r) <- cutopt_pass_gen fuel co ;;
          match r with
          | None => Val (co', acc)
          | Some (s, c) => driver_loop_gen p fuel co' (acc ++ [(c, s)])
          end
      end.

    Definition optimize_gen (nq fuel : nat) : out opt_result :=
      do co <- cutopt_init tape fa max_gamma nq ;;
      do '(co', goals) <- driver_loop_gen (S fuel) fuel co [] ;;
      match goals with
      | [] => Val (mkOR None goals co')
      | g :: r => Val (mkOR (Some (snd (first_min_cost g r))) goals co')
      end.

    Definition cosim (co co' : cutopt) : Prop :=
      SD (co_engine co) /\ bsim (co_engine co) (co_engine co') /\
      co_greedy co = co_greedy co' /\ co_returned co = co_returned co'.

    Lemma cutopt_pass_gen_sim fuel co co' :
      cosim co co' ->
      match cutopt_pass tape fa max_gamma max_backjumps fuel co, cutopt_pass_gen fuel co' with
      | Val (c1, r), Val (c1', r') => r = r' /\ cosim c1 c1'
      | Ref, Ref | Crash, Crash | NoFuel, NoFuel => True
      | _, _ => False
      end.
    Proof.
      intros (S0 & B0 & Eg & Er). unfold cutopt_pass, engine_pass, cutopt_pass_gen.
      pose proof (pass_loop_gen_sim fuel _ _ None S0 B0) as R. unfold orel in R.
      destruct (pass_loop _ _ _ _ _ _ _) as [[b r]| | |]; destruct (pass_loop_gen _ _ _) as [[b' r']| | |];
        cbn [obind]; try contradiction; auto.
      destruct R as (-> & Bs & S1). rewrite <- Eg, <- Er.
      destruct r' as [[s c]|].
      - split; [reflexivity|]. (unfold cosim; cbn [co_engine co_greedy co_returned]; split; [exact S1|split; [exact Bs|split; reflexivity]]).
      - destruct (co_returned co).
        + split; [reflexivity|]. (unfold cosim; cbn [co_engine co_greedy co_returned]; split; [exact S1|split; [exact Bs|split; reflexivity]]).
        + destruct (co_greedy co); [|exact I]. split; [reflexivity|]. (unfold cosim; cbn [co_engine co_greedy co_returned]; split; [exact S1|split; [exact Bs|split; reflexivity]]).
    Qed.

    Lemma driver_loop_gen_sim : forall passes fuel co co' acc,
      cosim co co' ->
      match driver_loop tape fa max_gamma max_backjumps passes fuel co acc, driver_loop_gen passes fuel co' acc with
      | Val (c1, g), Val (c1', g') => g = g' /\ cosim c1 c1'
      | Ref, Ref | Crash, Crash | NoFuel, NoFuel => True
      | _, _ => False
      end.
    Proof.
      induction passes as [|p IH]; intros fuel co co' acc C; cbn [driver_loop driver_loop_gen]; [exact I|].
      pose proof (cutopt_pass_gen_sim fuel co co' C) as R.
      destruct (cutopt_pass _ _ _ _ _ _) as [[c1 r]| | |]; destruct (cutopt_pass_gen _ _) as [[c1' r']| | |];
        cbn [obind]; try contradiction; auto.
      destruct R as [-> C1]. destruct r' as [[s c]|]; [apply IH; exact C1|]. split; [reflexivity|exact C1].
    Qed.

    (* the capstone: same best state, same list of goals, engines equal up to the order of the queue *)
    Theorem optimize_gen_sim nq fuel :
      match optimize tape fa max_gamma max_backjumps nq fuel, optimize_gen nq fuel with
      | Val r, Val r' => or_best r = or_best r' /\ or_goals r = or_goals r' /\ cosim (or_cutopt r) (or_cutopt r')
      | Ref, Ref | Crash, Crash | NoFuel, NoFuel => True
      | _, _ => False
      end.
    Proof.
      unfold optimize, optimize_gen.
      destruct (cutopt_init tape fa max_gamma nq) as [co| | |] eqn:Ei; cbn [obind]; auto.
      assert (C : cosim co co).
      { split; [|split; [apply bsim_refl|split; reflexivity]].
        unfold cutopt_init in Ei. destruct (greedy_cut_optimization nq fa) as [gr| | |]; cbn [obind] in Ei; try discriminate.
        inversion Ei; subst co. cbn [co_engine]. destruct gr; [apply SD_update_upperbound|]; apply SD_initialize. }
      pose proof (driver_loop_gen_sim (S fuel) fuel co co [] C) as R.
      destruct (driver_loop _ _ _ _ _ _ _ _) as [[c1 g]| | |]; destruct (driver_loop_gen _ _ _ _) as [[c1' g']| | |];
        cbn [obind]; try contradiction; auto.
      destruct R as [-> C1]. destruct g' as [|x g']; cbn; auto.
    Qed.
  End AbstractPop.
End Perm.

(* the invariant "pairwise different seq numbers" holds from the start and is kept by every pass *)

Lemma pass_loop_SD tape fa mg mb fuel b pd b1 r :
  SD b -> pass_loop tape fa mg mb fuel b pd = Val (b1, r) -> SD b1.
Proof.
  intros H E. pose proof (pass_loop_perm tape fa mg mb fuel b b pd H (bsim_refl b)) as R.
  rewrite E in R. cbn in R. tauto.
Qed.
